(* BaseLemmas.v — generic facts about the executable base layer (Model/Base.v):
   value equality, mem / nodupb / lremove, insertion-ordered dicts, sort_vals, py_index.
   Nothing here is specific to one class of the model. *)
From Coq Require Import Permutation Lia.
From AC.Model Require Import Base.

(* ---- value equality ------------------------------------------------------------------- *)

Lemma val_eqb_eq : forall a b, val_eqb a b = true <-> a = b.
Proof.
  intros a b; split.
  - destruct a, b; simpl; intro H; try discriminate; try reflexivity.
    + apply Z.eqb_eq in H; subst; reflexivity.
    + apply String.eqb_eq in H; subst; reflexivity.
  - intros <-. destruct a; simpl; auto using Z.eqb_refl, String.eqb_refl.
Qed.

Lemma val_eqb_refl : forall a, val_eqb a a = true.
Proof. intro a; apply val_eqb_eq; reflexivity. Qed.

Lemma val_eqb_neq : forall a b, val_eqb a b = false <-> a <> b.
Proof.
  intros a b. rewrite <- val_eqb_eq. destruct (val_eqb a b); split; congruence.
Qed.

Lemma val_eqb_sym : forall a b, val_eqb a b = val_eqb b a.
Proof.
  intros a b. destruct (val_eqb b a) eqn:E.
  - apply val_eqb_eq in E; subst; apply val_eqb_refl.
  - apply val_eqb_neq in E. apply val_eqb_neq. congruence.
Qed.

Lemma val_eq_dec : forall a b : val, {a = b} + {a <> b}.
Proof.
  intros a b. destruct (val_eqb a b) eqn:E.
  - left; apply val_eqb_eq; exact E.
  - right; apply val_eqb_neq; exact E.
Qed.

(* case analysis on [val_eqb a b], leaving a Leibniz (dis)equality [E] *)
Ltac veq a b :=
  let E := fresh "E" in
  destruct (val_eqb a b) eqn:E;
  [ apply val_eqb_eq in E | apply val_eqb_neq in E ].

Lemma py_eq_notnan : forall a b, a <> VNaN -> py_eq a b = val_eqb a b.
Proof. intros a b H; destruct a; try reflexivity; congruence. Qed.

(* ---- mem / nodupb / existsb ------------------------------------------------------------ *)

Lemma mem_In : forall a l, mem a l = true <-> In a l.
Proof.
  intros a l; induction l as [|x t IH]; simpl.
  - split; [discriminate | tauto].
  - rewrite orb_true_iff, IH, val_eqb_eq. split; intros [H|H]; auto.
Qed.

Lemma mem_false : forall a l, mem a l = false <-> ~ In a l.
Proof.
  intros a l. rewrite <- mem_In. destruct (mem a l); split; congruence.
Qed.

Lemma nodupb_NoDup : forall l, nodupb l = true <-> NoDup l.
Proof.
  induction l as [|x t IH]; simpl.
  - split; constructor.
  - rewrite andb_true_iff, negb_true_iff, mem_false, IH. split.
    + intros [H1 H2]; constructor; auto.
    + intro H; inversion H; auto.
Qed.

Lemma existsb_is_equal : forall v l, existsb (is_equal v) l = mem v l.
Proof.
  intros v l; induction l as [|x t IH]; simpl; auto.
  rewrite IH; reflexivity.
Qed.

Lemma forallb_mem_incl : forall l l', forallb (fun x => mem x l') l = true <-> (forall x, In x l -> In x l').
Proof.
  intros l l'. rewrite forallb_forall. split; intros H x Hx.
  - apply mem_In; auto.
  - apply mem_In; auto.
Qed.

(* ---- generic list facts ---------------------------------------------------------------- *)

Lemma NoDup_app_iff : forall (A : Type) (l1 l2 : list A),
  NoDup (l1 ++ l2) <-> NoDup l1 /\ NoDup l2 /\ (forall x, In x l1 -> ~ In x l2).
Proof.
  intros A l1 l2; induction l1 as [|a t IH]; simpl.
  - split.
    + intro H; repeat split; auto. constructor.
    + intros (_ & H & _); exact H.
  - split.
    + intro H; inversion H as [|x l Hn Hd]; subst.
      apply IH in Hd; destruct Hd as (H1 & H2 & H3).
      repeat split; auto.
      * constructor; auto. intro Hi; apply Hn; apply in_or_app; auto.
      * intros x [Hx|Hx]; [subst; intro Hi; apply Hn; apply in_or_app; auto | auto].
    + intros (H1 & H2 & H3). inversion H1 as [|x l Hn Hd]; subst.
      constructor.
      * intro Hi; apply in_app_or in Hi; destruct Hi as [Hi|Hi]; [auto | eapply H3; eauto].
      * apply IH; repeat split; auto.
Qed.

Lemma flat_map_ext_in : forall (A B : Type) (f g : A -> list B) l,
  (forall a, In a l -> f a = g a) -> flat_map f l = flat_map g l.
Proof.
  intros A B f g l; induction l as [|a t IH]; simpl; intro H; auto.
  rewrite H by auto. rewrite IH by auto. reflexivity.
Qed.

Lemma filter_partition_perm : forall (A : Type) (p : A -> bool) l,
  Permutation (filter p l ++ filter (fun x => negb (p x)) l) l.
Proof.
  intros A p l; induction l as [|a t IH]; simpl; auto.
  destruct (p a); simpl.
  - constructor; exact IH.
  - apply Permutation_sym, Permutation_cons_app, Permutation_sym; exact IH.
Qed.

Lemma filter_neq_notin : forall a l, ~ In a l -> filter (fun x => negb (val_eqb a x)) l = l.
Proof.
  intros a l; induction l as [|x t IH]; simpl; intro H; auto.
  veq a x; [subst; tauto|]. simpl. rewrite IH; tauto.
Qed.

Lemma In_filter_neq : forall a x l, In x (filter (fun y => negb (val_eqb a y)) l) <-> In x l /\ x <> a.
Proof.
  intros a x l. rewrite filter_In, negb_true_iff, val_eqb_neq. intuition congruence.
Qed.

(* ---- lremove --------------------------------------------------------------------------- *)

Lemma lremove_perm : forall a l l', lremove a l = Some l' -> Permutation l (a :: l').
Proof.
  intros a l; induction l as [|x t IH]; simpl; intros l' H; [discriminate|].
  veq a x.
  - inversion H; subst; auto.
  - destruct (lremove a t) as [t'|] eqn:Et; [|discriminate].
    inversion H; subst. rewrite (IH t' eq_refl). apply perm_swap.
Qed.

Lemma lremove_Some_In : forall a l l', lremove a l = Some l' -> In a l.
Proof.
  intros a l l' H. apply lremove_perm in H.
  eapply Permutation_in; [apply Permutation_sym; exact H | left; reflexivity].
Qed.

Lemma In_lremove : forall a l, In a l -> exists l', lremove a l = Some l'.
Proof.
  intros a l; induction l as [|x t IH]; simpl; intro H; [tauto|].
  veq a x; [eauto|].
  destruct H as [H|H]; [congruence|]. destruct (IH H) as [t' ->]. eauto.
Qed.

Lemma lremove_incl : forall a l l' x, lremove a l = Some l' -> In x l' -> In x l.
Proof.
  intros a l l' x H Hx. apply lremove_perm in H.
  eapply Permutation_in; [apply Permutation_sym; exact H | right; exact Hx].
Qed.

Lemma lremove_In_other : forall a l l' x, lremove a l = Some l' -> In x l -> x <> a -> In x l'.
Proof.
  intros a l l' x H Hx Hn. apply lremove_perm in H.
  apply (Permutation_in _ H) in Hx. destruct Hx; congruence.
Qed.

Lemma lremove_NoDup : forall a l l', NoDup l -> lremove a l = Some l' -> NoDup l' /\ ~ In a l'.
Proof.
  intros a l l' Hd H. apply lremove_perm in H.
  apply (Permutation_NoDup H) in Hd. inversion Hd; auto.
Qed.

Lemma lremove_filter : forall a l, NoDup l -> In a l ->
  lremove a l = Some (filter (fun x => negb (val_eqb a x)) l).
Proof.
  intros a l; induction l as [|x t IH]; simpl; intros Hd H; [tauto|].
  inversion Hd as [|y l Hn Hd']; subst.
  veq a x; simpl.
  - subst. rewrite filter_neq_notin; auto.
  - destruct H as [H|H]; [congruence|]. rewrite IH; auto.
Qed.

(* ---- dget / dhas / dkeys / dvalues ------------------------------------------------------ *)

Lemma In_dkeys : forall k v (d : dict), In (k, v) d -> In k (dkeys d).
Proof. intros k v d H. apply (in_map fst) in H. exact H. Qed.

Lemma dget_In : forall k d v, dget k d = Some v -> In (k, v) d.
Proof.
  intros k d; induction d as [|[k' v'] t IH]; simpl; intros v H; [discriminate|].
  veq k k'.
  - inversion H; subst; auto.
  - right; auto.
Qed.

Lemma dget_Some_keys : forall k d v, dget k d = Some v -> In k (dkeys d).
Proof. intros k d v H. eapply In_dkeys, dget_In; eauto. Qed.

Lemma In_dget : forall k v d, NoDup (dkeys d) -> In (k, v) d -> dget k d = Some v.
Proof.
  intros k v d; induction d as [|[k' v'] t IH]; simpl; intros Hd H; [tauto|].
  inversion Hd as [|y l Hn Hd']; subst.
  destruct H as [H|H].
  - inversion H; subst. rewrite val_eqb_refl; reflexivity.
  - veq k k'.
    + subst. exfalso; apply Hn. eapply In_dkeys; eauto.
    + auto.
Qed.

Lemma dget_None : forall k d, dget k d = None <-> ~ In k (dkeys d).
Proof.
  intros k d; induction d as [|[k' v'] t IH]; simpl.
  - split; auto.
  - veq k k'.
    + split; [discriminate | intro H; exfalso; apply H; auto].
    + rewrite IH. split; intro H; [intros [H'|H']; [congruence | tauto] | tauto].
Qed.

Lemma In_dkeys_dget : forall k d, In k (dkeys d) -> exists v, dget k d = Some v.
Proof.
  intros k d H. destruct (dget k d) as [v|] eqn:E; [eauto|].
  apply dget_None in E; tauto.
Qed.

Lemma dhas_mem : forall k d, dhas k d = mem k (dkeys d).
Proof.
  intros k d; induction d as [|[k' v'] t IH]; simpl; auto. rewrite IH; reflexivity.
Qed.

Lemma In_dvalues : forall v (d : dict), In v (dvalues d) <-> exists k vs, In (k, vs) d /\ In v vs.
Proof.
  intros v d. unfold dvalues. rewrite in_flat_map. split.
  - intros [[k vs] [H1 H2]]; eauto.
  - intros (k & vs & H1 & H2); exists (k, vs); auto.
Qed.

(* with duplicate-free values, a value determines the entry holding it *)
Lemma NoDup_dvalues_unique : forall (d : dict) k1 vs1 k2 vs2 v,
  NoDup (dvalues d) -> In (k1, vs1) d -> In (k2, vs2) d -> In v vs1 -> In v vs2 ->
  (k1, vs1) = (k2, vs2).
Proof.
  induction d as [|[k vs] t IH]; simpl; intros k1 vs1 k2 vs2 v Hd H1 H2 Hv1 Hv2; [tauto|].
  apply NoDup_app_iff in Hd; destruct Hd as (Ha & Hb & Hc).
  destruct H1 as [H1|H1], H2 as [H2|H2].
  - congruence.
  - inversion H1; subst. exfalso. apply (Hc v Hv1). apply In_dvalues; eauto.
  - inversion H2; subst. exfalso. apply (Hc v Hv2). apply In_dvalues; eauto.
  - eapply IH; eauto.
Qed.

Lemma dget_map : forall (f : val -> list val) k l,
  dget k (map (fun x => (x, f x)) l) = if mem k l then Some (f k) else None.
Proof.
  intros f k l; induction l as [|x t IH]; simpl; auto.
  veq k x; simpl; [subst; reflexivity | exact IH].
Qed.

Lemma dkeys_map : forall (f : val -> list val) l, dkeys (map (fun x => (x, f x)) l) = l.
Proof.
  intros f l. unfold dkeys. rewrite map_map. simpl. apply map_id.
Qed.

Lemma dvalues_map : forall (f : val -> list val) l, dvalues (map (fun x => (x, f x)) l) = flat_map f l.
Proof.
  intros f l; induction l as [|x t IH]; simpl; auto. rewrite <- IH; reflexivity.
Qed.

(* the values, read back through the keys *)
Lemma flat_map_dget_dkeys : forall d, NoDup (dkeys d) ->
  flat_map (fun k => match dget k d with Some v => v | None => [] end) (dkeys d) = dvalues d.
Proof.
  induction d as [|[k v] t IH]; simpl; intro Hd; auto.
  inversion Hd as [|y l Hn Hd']; subst.
  rewrite val_eqb_refl. f_equal.
  rewrite <- (IH Hd'). apply flat_map_ext_in. intros a Ha.
  veq a k; [subst; tauto | reflexivity].
Qed.

(* ---- dset ------------------------------------------------------------------------------ *)

Lemma dget_dset_same : forall k v d, dget k (dset k v d) = Some v.
Proof.
  intros k v d; induction d as [|[k' v'] t IH]; simpl.
  - rewrite val_eqb_refl; reflexivity.
  - destruct (val_eqb k k') eqn:E; simpl; rewrite E; auto.
Qed.

Lemma dget_dset_other : forall k k' v d, k' <> k -> dget k' (dset k v d) = dget k' d.
Proof.
  intros k k' v d Hn; induction d as [|[k2 v2] t IH]; simpl.
  - apply val_eqb_neq in Hn. rewrite Hn; reflexivity.
  - veq k k2; simpl.
    + subst. apply val_eqb_neq in Hn. rewrite Hn. reflexivity.
    + rewrite IH; reflexivity.
Qed.

Lemma dset_notin : forall k v d, ~ In k (dkeys d) -> dset k v d = d ++ [(k, v)].
Proof.
  intros k v d; induction d as [|[k' v'] t IH]; simpl; intro H; auto.
  veq k k'; [subst; tauto|]. rewrite IH; tauto.
Qed.

Lemma dkeys_dset_in : forall k v d, In k (dkeys d) -> dkeys (dset k v d) = dkeys d.
Proof.
  intros k v d; induction d as [|[k' v'] t IH]; simpl; intro H; [tauto|].
  veq k k'; simpl; auto.
  destruct H as [H|H]; [congruence|]. rewrite IH; auto.
Qed.

Lemma dkeys_dset_notin : forall k v d, ~ In k (dkeys d) -> dkeys (dset k v d) = dkeys d ++ [k].
Proof.
  intros k v d H. rewrite dset_notin by exact H. unfold dkeys. rewrite map_app. reflexivity.
Qed.

Lemma dkeys_dset : forall k v d,
  dkeys (dset k v d) = if mem k (dkeys d) then dkeys d else dkeys d ++ [k].
Proof.
  intros k v d. destruct (mem k (dkeys d)) eqn:E.
  - apply dkeys_dset_in, mem_In, E.
  - apply dkeys_dset_notin, mem_false, E.
Qed.

Lemma In_dset : forall k v d k' v',
  In (k', v') (dset k v d) -> (k' = k /\ v' = v) \/ In (k', v') d.
Proof.
  intros k v d k' v'; induction d as [|[k2 v2] t IH]; simpl; intro H.
  - destruct H as [H|H]; [inversion H; auto | tauto].
  - veq k k2; simpl in H.
    + subst. destruct H as [H|H]; [inversion H; auto | auto].
    + destruct H as [H|H]; [auto|]. destruct (IH H); auto.
Qed.

Lemma In_dset_other : forall k v d k' v', k' <> k -> In (k', v') d -> In (k', v') (dset k v d).
Proof.
  intros k v d k' v' Hn; induction d as [|[k2 v2] t IH]; simpl; intro H; [tauto|].
  veq k k2; simpl.
  - subst. destruct H as [H|H]; [inversion H; congruence | auto].
  - destruct H as [H|H]; auto.
Qed.

Lemma dset_same_id : forall k v d, dget k d = Some v -> dset k v d = d.
Proof.
  intros k v d; induction d as [|[k' v'] t IH]; simpl; intro H; [discriminate|].
  veq k k'.
  - inversion H; subst; reflexivity.
  - rewrite IH; auto.
Qed.

Lemma dvalues_dset_perm : forall k v d old, dget k d = Some old ->
  Permutation (old ++ dvalues (dset k v d)) (v ++ dvalues d).
Proof.
  intros k v d; induction d as [|[k' v'] t IH]; simpl; intros old H; [discriminate|].
  veq k k'; simpl.
  - inversion H; subst. apply Permutation_app_swap_app.
  - rewrite Permutation_app_swap_app. rewrite (IH old H). apply Permutation_app_swap_app.
Qed.

Lemma dvalues_dset_notin : forall k v d, ~ In k (dkeys d) -> dvalues (dset k v d) = dvalues d ++ v.
Proof.
  intros k v d H. rewrite dset_notin by exact H. unfold dvalues. rewrite flat_map_app. simpl.
  rewrite app_nil_r. reflexivity.
Qed.

(* ---- dpop ------------------------------------------------------------------------------ *)

Lemma dpop_keys : forall k d d', dpop k d = Some d' -> lremove k (dkeys d) = Some (dkeys d').
Proof.
  intros k d; induction d as [|[k' v'] t IH]; simpl; intros d' H; [discriminate|].
  destruct (val_eqb k k').
  - inversion H; subst; reflexivity.
  - destruct (dpop k t) as [t'|]; [|discriminate]. inversion H; subst.
    rewrite (IH t' eq_refl). reflexivity.
Qed.

Lemma In_dpop_Some : forall k d, In k (dkeys d) -> exists d', dpop k d = Some d'.
Proof.
  intros k d; induction d as [|[k' v'] t IH]; simpl; intro H; [tauto|].
  veq k k'; [eauto|].
  destruct H as [H|H]; [congruence|]. destruct (IH H) as [t' ->]. eauto.
Qed.

Lemma dget_dpop_other : forall k k' d d', dpop k d = Some d' -> k' <> k -> dget k' d' = dget k' d.
Proof.
  intros k k' d; induction d as [|[k2 v2] t IH]; simpl; intros d' H Hn; [discriminate|].
  veq k k2.
  - inversion H; subst. apply val_eqb_neq in Hn. rewrite Hn. reflexivity.
  - destruct (dpop k t) as [t'|]; [|discriminate]. inversion H; subst. simpl.
    rewrite (IH t' eq_refl Hn). reflexivity.
Qed.

Lemma In_dpop : forall k d d' kv, dpop k d = Some d' -> In kv d' -> In kv d.
Proof.
  intros k d; induction d as [|[k2 v2] t IH]; simpl; intros d' kv H Hi; [discriminate|].
  destruct (val_eqb k k2).
  - inversion H; subst; auto.
  - destruct (dpop k t) as [t'|]; [|discriminate]. inversion H; subst.
    destruct Hi as [Hi|Hi]; [auto | right; eapply IH; eauto].
Qed.

Lemma In_dpop_other : forall k d d' k' v, dpop k d = Some d' -> In (k', v) d -> k' <> k -> In (k', v) d'.
Proof.
  intros k d; induction d as [|[k2 v2] t IH]; simpl; intros d' k' v H Hi Hn; [discriminate|].
  veq k k2.
  - inversion H; subst. destruct Hi as [Hi|Hi]; [inversion Hi; congruence | auto].
  - destruct (dpop k t) as [t'|]; [|discriminate]. inversion H; subst.
    destruct Hi as [Hi|Hi]; [left; auto | right; eapply IH; eauto].
Qed.

Lemma dvalues_dpop_perm : forall k d d', dpop k d = Some d' ->
  exists old, dget k d = Some old /\ Permutation (dvalues d) (old ++ dvalues d').
Proof.
  intros k d; induction d as [|[k2 v2] t IH]; simpl; intros d' H; [discriminate|].
  destruct (val_eqb k k2).
  - inversion H; subst. exists v2; split; auto.
  - destruct (dpop k t) as [t'|]; [|discriminate]. inversion H; subst.
    destruct (IH t' eq_refl) as (old & Hg & Hp). exists old; split; auto.
    simpl. rewrite Hp. apply Permutation_app_swap_app.
Qed.

Lemma dpop_NoDup_keys : forall k d d', NoDup (dkeys d) -> dpop k d = Some d' ->
  NoDup (dkeys d') /\ ~ In k (dkeys d').
Proof.
  intros k d d' Hd H. apply dpop_keys in H. eapply lremove_NoDup; eauto.
Qed.

(* ---- dupdate --------------------------------------------------------------------------- *)

Lemma dupdate_cons : forall c k v t, dupdate c ((k, v) :: t) = dupdate (dset k v c) t.
Proof. reflexivity. Qed.

Lemma dget_dupdate : forall k d c, NoDup (dkeys d) ->
  dget k (dupdate c d) = match dget k d with Some v => Some v | None => dget k c end.
Proof.
  intros k d; induction d as [|[k1 v1] t IH]; intros c Hd; [reflexivity|].
  simpl in Hd. inversion Hd as [|y l Hn Hd']; subst.
  rewrite dupdate_cons, (IH _ Hd'). simpl.
  veq k k1.
  - subst. apply dget_None in Hn. rewrite Hn. apply dget_dset_same.
  - rewrite dget_dset_other by exact E. reflexivity.
Qed.

Lemma dkeys_dupdate : forall d c, NoDup (dkeys d) ->
  dkeys (dupdate c d) = dkeys c ++ filter (fun k => negb (mem k (dkeys c))) (dkeys d).
Proof.
  induction d as [|[k1 v1] t IH]; intros c Hd.
  - simpl. rewrite app_nil_r. reflexivity.
  - simpl in Hd. inversion Hd as [|y l Hn Hd']; subst.
    rewrite dupdate_cons, (IH _ Hd'). simpl. rewrite dkeys_dset.
    destruct (mem k1 (dkeys c)) eqn:E; simpl; [reflexivity|].
    rewrite <- app_assoc. simpl. do 2 f_equal.
    apply filter_ext_in. intros a Ha. f_equal.
    destruct (mem a (dkeys c)) eqn:Ea.
    + apply mem_In. apply in_or_app. left. apply mem_In; exact Ea.
    + apply mem_false. intro Hi. apply in_app_or in Hi. destruct Hi as [Hi|[Hi|[]]].
      * apply mem_false in Ea; tauto.
      * subst; tauto.
Qed.

Lemma In_dupdate : forall d c k v, In (k, v) (dupdate c d) -> In (k, v) d \/ In (k, v) c.
Proof.
  induction d as [|[k1 v1] t IH]; intros c k v H; [auto|].
  rewrite dupdate_cons in H. apply IH in H. destruct H as [H|H]; [left; right; exact H|].
  apply In_dset in H. destruct H as [[-> ->]|H]; [left; left; reflexivity | auto].
Qed.

(* ---- dict_of_keys ---------------------------------------------------------------------- *)

(* the keys in order of first occurrence *)
Definition keep_first (l acc : list val) : list val :=
  fold_left (fun acc x => if mem x acc then acc else acc ++ [x]) l acc.

Lemma dict_of_keys_gen : forall (f : val -> list val) ks acc,
  fold_left (fun a k => dset k (f k) a) ks (map (fun k => (k, f k)) acc)
  = map (fun k => (k, f k)) (keep_first ks acc).
Proof.
  intros f ks; induction ks as [|k t IH]; intro acc; [reflexivity|].
  unfold keep_first; simpl. fold (keep_first t (if mem k acc then acc else acc ++ [k])).
  rewrite <- IH. f_equal.
  destruct (mem k acc) eqn:E.
  - apply dset_same_id. rewrite dget_map, E. reflexivity.
  - rewrite dset_notin.
    + rewrite map_app. reflexivity.
    + rewrite dkeys_map. apply mem_false; exact E.
Qed.

Lemma dict_of_keys_map : forall f ks,
  dict_of_keys ks f = map (fun k => (k, f k)) (keep_first ks []).
Proof. intros f ks. unfold dict_of_keys. apply (dict_of_keys_gen f ks []). Qed.

Lemma keep_first_NoDup_app : forall l acc, NoDup (acc ++ l) -> keep_first l acc = acc ++ l.
Proof.
  induction l as [|x t IH]; intros acc H; unfold keep_first; simpl.
  - rewrite app_nil_r; reflexivity.
  - assert (Hx : mem x acc = false).
    { apply mem_false. intro Hi. apply NoDup_remove_2 in H. apply H. apply in_or_app; auto. }
    rewrite Hx. fold (keep_first t (acc ++ [x])). rewrite IH.
    + rewrite <- app_assoc; reflexivity.
    + rewrite <- app_assoc; exact H.
Qed.

Lemma keep_first_NoDup_id : forall l, NoDup l -> keep_first l [] = l.
Proof. intros l H. apply (keep_first_NoDup_app l []); exact H. Qed.

Lemma In_keep_first : forall l acc x, In x (keep_first l acc) <-> In x acc \/ In x l.
Proof.
  induction l as [|y t IH]; intros acc x; unfold keep_first; simpl.
  - tauto.
  - fold (keep_first t (if mem y acc then acc else acc ++ [y])). rewrite IH.
    destruct (mem y acc) eqn:E.
    + apply mem_In in E. split; intros [H|H]; auto. destruct H as [H|H]; [subst; auto | auto].
    + rewrite in_app_iff. simpl. tauto.
Qed.

Lemma NoDup_keep_first : forall l acc, NoDup acc -> NoDup (keep_first l acc).
Proof.
  induction l as [|y t IH]; intros acc H; unfold keep_first; simpl; auto.
  fold (keep_first t (if mem y acc then acc else acc ++ [y])). apply IH.
  destruct (mem y acc) eqn:E; auto.
  apply NoDup_app_iff. repeat split; auto.
  - constructor; [simpl; tauto | constructor].
  - intros x Hx [Hy|[]]. subst. apply mem_false in E. tauto.
Qed.

(* ---- sorting --------------------------------------------------------------------------- *)

Lemma insert_sorted_perm : forall a l, Permutation (insert_sorted a l) (a :: l).
Proof.
  intros a l; induction l as [|x t IH]; simpl; auto.
  destruct (val_leb a x); auto.
  rewrite IH. apply perm_swap.
Qed.

Lemma sort_vals_perm : forall l, Permutation (sort_vals l) l.
Proof.
  induction l as [|x t IH]; simpl; auto.
  rewrite insert_sorted_perm. constructor; exact IH.
Qed.

(* ---- py_index -------------------------------------------------------------------------- *)

Lemma py_index_In : forall (A : Type) (l : list A) i,
  (- Z.of_nat (List.length l) <= i < Z.of_nat (List.length l))%Z ->
  exists v, py_index l i = Some v /\ In v l.
Proof.
  intros A l i H. unfold py_index.
  set (n := Z.of_nat (List.length l)) in *.
  set (j := if (i <? 0)%Z then (i + n)%Z else i).
  assert (Hj : (0 <= j < n)%Z).
  { unfold j. destruct (i <? 0)%Z eqn:E; [apply Z.ltb_lt in E | apply Z.ltb_ge in E]; lia. }
  replace ((j <? 0)%Z || (n <=? j)%Z) with false.
  - destruct (nth_error l (Z.to_nat j)) as [v|] eqn:E.
    + exists v; split; auto. eapply nth_error_In; eauto.
    + apply nth_error_None in E. unfold n in Hj. lia.
  - symmetry. apply orb_false_iff. split; [apply Z.ltb_ge | apply Z.leb_gt]; lia.
Qed.

(* ---- a few more list facts ------------------------------------------------------------- *)

Lemma lremove_In_iff : forall a l l' x, NoDup l -> lremove a l = Some l' ->
  (In x l' <-> In x l /\ x <> a).
Proof.
  intros a l l' x Hd H. split.
  - intro Hx. split; [eapply lremove_incl; eauto|].
    intro; subst. apply (lremove_NoDup _ _ _ Hd H); exact Hx.
  - intros [Hx Hn]. eapply lremove_In_other; eauto.
Qed.

Lemma flat_map_singleton : forall (A : Type) (l : list A), flat_map (fun v => [v]) l = l.
Proof. induction l as [|x t IH]; simpl; congruence. Qed.

Lemma py_eq_true : forall a b, py_eq a b = true -> a = b.
Proof.
  intros a b H. unfold py_eq in H. destruct a; try discriminate; apply val_eqb_eq; exact H.
Qed.

Lemma dvalues_dset_extend : forall k cur extra d, dget k d = Some cur ->
  Permutation (dvalues (dset k (cur ++ extra) d)) (extra ++ dvalues d).
Proof.
  intros k cur extra d H. apply (Permutation_app_inv_l cur).
  rewrite (dvalues_dset_perm k (cur ++ extra) d cur H). rewrite <- app_assoc. reflexivity.
Qed.

Lemma NoDup_snoc : forall (A : Type) (l : list A) x, NoDup l -> ~ In x l -> NoDup (l ++ [x]).
Proof.
  intros A l x H Hn. apply NoDup_app_iff. repeat split; auto.
  - constructor; [simpl; tauto | constructor].
  - intros y Hy [Hx|[]]. subst; tauto.
Qed.

Lemma NoDup_app_filter : forall l1 l2, NoDup l1 -> NoDup l2 ->
  NoDup (l1 ++ filter (fun k => negb (mem k l1)) l2).
Proof.
  intros l1 l2 H1 H2. apply NoDup_app_iff. repeat split; auto.
  - apply NoDup_filter; exact H2.
  - intros x Hx Hf. apply filter_In in Hf. destruct Hf as [_ Hf].
    apply negb_true_iff, mem_false in Hf. tauto.
Qed.

Lemma In_app_filter : forall l1 l2 x,
  In x (l1 ++ filter (fun k => negb (mem k l1)) l2) <-> In x l1 \/ In x l2.
Proof.
  intros l1 l2 x. rewrite in_app_iff, filter_In, negb_true_iff, mem_false.
  destruct (mem x l1) eqn:E; [apply mem_In in E | apply mem_false in E]; tauto.
Qed.

Lemma map_filter_dkeys : forall (F : val -> list val) (p : val -> bool) (d : dict),
  (forall k v, In (k, v) d -> F k = v) ->
  map (fun x => (x, F x)) (filter p (dkeys d)) = filter (fun kv => p (fst kv)) d.
Proof.
  intros F p d; induction d as [|[k v] t IH]; simpl; intro H; auto.
  destruct (p k); simpl.
  - rewrite (H k v) by auto. f_equal. apply IH. intros; apply H; auto.
  - apply IH. intros; apply H; auto.
Qed.
