(* FormatRuleProofs.v — the digit-selection loop of format_quantiles separates the finite
   leaders as soon as SOME table of the list does (CPython fact, trusted: 17 significant digits
   separate any two distinct doubles). *)
From Coq Require Import Lia.
From AC.Model Require Import Base GroupedList Labels Transform FormatRule.
From AC.Proofs Require Import BaseLemmas TransformSpec LabelsProofs.

Lemma existsb_streqb_In : forall s l, existsb (String.eqb s) l = true <-> In s l.
Proof.
  intros s l. rewrite existsb_exists. split.
  - intros [x [Hin Heq]]. apply String.eqb_eq in Heq. subst x. exact Hin.
  - intros Hin. exists s. split; [exact Hin|apply String.eqb_refl].
Qed.

Lemma dedup_str_length_le : forall l, (List.length (dedup_str l) <= List.length l)%nat.
Proof.
  induction l as [|s t IH]; cbn [dedup_str List.length]; [lia|].
  destruct (existsb (String.eqb s) t); cbn [List.length]; lia.
Qed.

Lemma dedup_str_full : forall l, List.length (dedup_str l) = List.length l -> NoDup l.
Proof.
  induction l as [|s t IH]; intros H; [constructor|].
  cbn [dedup_str List.length] in H.
  destruct (existsb (String.eqb s) t) eqn:E.
  - pose proof (dedup_str_length_le t) as Hle. lia.
  - cbn [List.length] in H. constructor.
    + intro Hin. apply existsb_streqb_In in Hin. rewrite Hin in E. discriminate E.
    + apply IH. lia.
Qed.

Lemma dedup_str_NoDup_id : forall l, NoDup l -> dedup_str l = l.
Proof.
  induction l as [|s t IH]; intros H; [reflexivity|].
  inversion H as [|x xs Hnin Hnd]; subst. cbn [dedup_str].
  destruct (existsb (String.eqb s) t) eqn:E.
  - apply existsb_streqb_In in E. contradiction.
  - rewrite (IH Hnd). reflexivity.
Qed.

Lemma dedup_val_NoDup_id : forall l, NoDup l -> dedup_val l = l.
Proof.
  induction l as [|v t IH]; intros H; [reflexivity|].
  inversion H as [|x xs Hnin Hnd]; subst. cbn [dedup_val].
  destruct (mem v t) eqn:E.
  - apply mem_In in E. contradiction.
  - rewrite (IH Hnd). reflexivity.
Qed.

Lemma pick_fmt_In : forall tables fin, tables <> [] -> In (pick_fmt tables fin) tables.
Proof.
  induction tables as [|t rest IH]; intros fin Hne; [congruence|].
  cbn [pick_fmt]. destruct rest as [|r rs]; [left; reflexivity|].
  destruct (Nat.ltb (n_forms t fin) (n_vals fin)).
  - right. apply IH. discriminate.
  - left. reflexivity.
Qed.

(* the loop stops at a table that separates the leaders whenever one of the tables does *)
Theorem pick_fmt_distinct : forall tables fin,
  NoDup fin ->
  (exists t, In t tables /\ NoDup (map (fmt_lookup t) fin)) ->
  NoDup (map (fmt_lookup (pick_fmt tables fin)) fin).
Proof.
  induction tables as [|t rest IH]; intros fin Hnd [t0 [Hin Hinj]]; [destruct Hin|].
  cbn [pick_fmt]. destruct rest as [|r rs].
  - destruct Hin as [<-|[]]. exact Hinj.
  - destruct (Nat.ltb (n_forms t fin) (n_vals fin)) eqn:E.
    + apply IH; [exact Hnd|]. exists t0. split; [|exact Hinj].
      destruct Hin as [<-|Hin]; [|exact Hin].
      exfalso. apply Nat.ltb_lt in E. unfold n_forms, n_vals in E.
      rewrite (dedup_str_NoDup_id _ Hinj), (dedup_val_NoDup_id _ Hnd), map_length in E. lia.
    + apply Nat.ltb_ge in E. unfold n_forms, n_vals in E.
      rewrite (dedup_val_NoDup_id _ Hnd) in E.
      apply dedup_str_full.
      pose proof (dedup_str_length_le (map (fmt_lookup t) fin)) as Hle.
      rewrite map_length in *. lia.
Qed.

(* C04 for 'str' interval labels, with the repaired rule: distinct finite leaders always get
   distinct labels, provided some table of the list separates them *)
Theorem str_labels_distinct : forall tables nan s g,
  nan = VStr s -> no_space s = true ->
  NoDup (finite_leaders nan (keys g)) ->
  (exists t, In t tables /\ NoDup (map (fmt_lookup t) (finite_leaders nan (keys g)))) ->
  (forall t x, In t tables -> In x (finite_leaders nan (keys g)) -> no_space (fmt_lookup t x) = true) ->
  NoDup (get_labels Quant OStr (fmt_of tables nan g) nan (keys g)).
Proof.
  intros tables nan s g Hnan Hs Hnd Hex Hsp.
  apply (quant_str_labels_NoDup (fmt_of tables nan g) nan s (keys g) Hnan Hs).
  - apply Forall_forall. intros x Hx. apply in_map_iff in Hx. destruct Hx as [v [<- Hv]].
    apply Hsp; [|exact Hv]. unfold fmt_of. apply pick_fmt_In.
    destruct Hex as [t [Hin _]]. intro Hnil. rewrite Hnil in Hin. destruct Hin.
  - unfold fmt_of. apply pick_fmt_distinct; assumption.
Qed.
