(* FitWfProofs.v — C08 on the models: every stage of the base discretization either succeeds or
   reports an assertion, never runs out of fuel / hits an internal error, and the orders it builds are
   well-formed partitions (C13 invariant) covering the training values. *)
From Coq Require Import ZArith List Bool Lia Sorted Permutation.
Import ListNotations.
From AC.Model Require Import Base Float GroupedList CheckC13 CheckC08 Quantiles Ordinal.
From AC.Proofs Require Import BaseLemmas GroupedListSpec GroupedListProofs CheckC13Proofs DiscretizeProofs.
Open Scope Z_scope.

Lemma sorted_lt_nodup : forall l, Sorted Z.lt l -> NoDup l.
Proof.
  intros l H. apply Sorted_StronglySorted in H; [|intros a b c; apply Z.lt_trans].
  induction H as [|a l Hs IH Hall]; constructor; [|exact IH].
  intro Hin. rewrite Forall_forall in Hall. specialize (Hall a Hin). lia.
Qed.

Lemma NoDup_boundaries : forall qs, NoDup qs -> NoDup (boundaries qs).
Proof.
  intros qs H. unfold boundaries. apply NoDup_snoc.
  - apply FinFun.Injective_map_NoDup; [|exact H]. intros a b Hab. injection Hab. auto.
  - intro Hin. apply in_map_iff in Hin. destruct Hin as [x [Hx _]]. discriminate Hx.
Qed.

(* ContinuousDiscretizer.fit_feature (repaired find_quantiles: sorted unique boundaries) always
   yields a well-formed order: boundaries, +inf, then the missing-value sentinel if needed *)
Theorem fit_feature_wf : forall q len_df nan_cnt vc g,
  fit_feature true q len_df nan_cnt vc = QOk g -> WF g.
Proof.
  intros q len_df nan_cnt vc g H. unfold fit_feature in H.
  destruct (find_quantiles_v true q len_df vc) as [qs|e] eqn:E; [|discriminate].
  destruct (find_quantiles_spec true q len_df vc qs E) as (_ & _ & _ & Hs & _).
  specialize (Hs eq_refl).
  assert (Hnd : NoDup (boundaries qs)) by (apply NoDup_boundaries, sorted_lt_nodup; exact Hs).
  assert (Hwf : WF (of_list (boundaries qs))) by (apply wf_of_list; exact Hnd).
  injection H as <-. destruct (0 <? nan_cnt); [|exact Hwf].
  destruct (wf_step (of_list (boundaries qs)) (OAppend str_nan) Hwf) as (g' & Hg & Hwf').
  - cbn [valid]. intro Hin. apply In_dvalues in Hin. destruct Hin as (k & vs & Hkv & Hv).
    assert (Hk : In k (dkeys (content (of_list (boundaries qs))))) by (eapply In_dkeys; exact Hkv).
    destruct Hwf as (_ & Hnd2 & Hiff & Hndv & Hown).
    (* every member of of_list is its own leader, i.e. a boundary; str_nan is not a boundary *)
    assert (Hmem : In str_nan (values (of_list (boundaries qs)))).
    { apply In_dvalues. exists k, vs. split; assumption. }
    unfold of_list, values in Hmem. cbn [content] in Hmem.
    rewrite dict_of_keys_map in Hmem. rewrite dvalues_map, flat_map_singleton in Hmem.
    rewrite (keep_first_NoDup_id _ Hnd) in Hmem.
    unfold boundaries in Hmem. apply in_app_or in Hmem. destruct Hmem as [Hm|[Hm|[]]]; [|discriminate Hm].
    apply in_map_iff in Hm. destruct Hm as [x [Hx _]]. discriminate Hx.
  - cbn [step] in Hg. injection Hg as <-. exact Hwf'.
Qed.

(* the quantile search never runs out of fuel (recursion depth <= 2) *)
Theorem find_quantiles_never_internal : forall dedup q len_df vc,
  find_quantiles_v dedup q len_df vc <> QErr QFuel.
Proof. exact find_quantiles_no_fuel_error. Qed.

(* the rare-bucket merging loop always terminates with a result *)
Theorem merging_loop_total : forall n m bs, exists bs', find_common_modalities n m bs = Ok bs'.
Proof. exact find_common_modalities_total. Qed.

(* grouping operations of the pipeline (convert_to_values: group_list; order_apply_combination)
   keep an order well formed and lose no value *)
Theorem group_list_keeps_wf : forall g ds k, WF g -> valid g (OGroupList ds k) ->
  exists g', group_list g ds k = Ok g' /\ WF g' /\ Permutation (values g') (values g).
Proof.
  intros g ds k Hwf Hv. destruct (wf_step g (OGroupList ds k) Hwf Hv) as (g' & Hs & Hwf').
  exists g'. cbn [step] in Hs. split; [exact Hs|]. split; [exact Hwf'|].
  apply (values_preserved g (OGroupList ds k) g' Hwf Hv I). exact Hs.
Qed.

(* the run-time invariant evaluated on the IMPLEMENTATION's fitted state *)
Theorem feature_ok_sound : forall f, feature_ok f = true ->
  WF (f_order f) /\
  (f_quant f = false -> forall v, In v (f_train f) -> In v (values (f_order f))) /\
  (f_has_nan f = true -> In (f_str_nan f) (values (f_order f))).
Proof.
  intros f H. unfold feature_ok in H. apply andb_true_iff in H. destruct H as [H Hq].
  apply andb_true_iff in H. destruct H as [Hwf Hc]. split; [apply wf_b_spec; exact Hwf|].
  unfold covers in Hc. apply andb_true_iff in Hc. destruct Hc as [Hc1 Hc2]. split.
  - intros Hk v Hv. rewrite Hk in Hc1. rewrite forallb_forall in Hc1. apply contains_spec. apply Hc1. exact Hv.
  - intros Hn. rewrite Hn in Hc2. cbn in Hc2. apply contains_spec. exact Hc2.
Qed.
