(* TransformProofs.v — C04 / C05 / C03 (transform half) on the model of
   BaseDiscretizer.transform (Model/Transform.v): transform is the lookup of the label of the
   group (C04), is total up to the documented rejections (C05), and is monotone for
   output_dtype='float' (C03). *)
From Coq Require Import Permutation Lia Sorting.Sorted.
From AC.Model Require Import Base GroupedList Labels Transform.
From AC.Proofs Require Import BaseLemmas GroupedListSpec GroupedListProofs TransformSpec
  LabelsProofs.

(* ---- str_nan ---------------------------------------------------------------------------- *)

Lemma nan_ok_not_nan : forall st, nan_ok st -> st_nan st <> VNaN.
Proof. intros st (s & Hs & _). rewrite Hs. discriminate. Qed.

Lemma nan_ok_truthy : forall st, nan_ok st -> truthy (st_nan st) = true.
Proof.
  intros st (s & Hs & Hne). rewrite Hs. cbn [truthy]. apply negb_true_iff.
  apply String.eqb_neq. exact Hne.
Qed.

Lemma nan_ok_is_nan : forall st, nan_ok st -> is_nan (st_nan st) = false.
Proof. intros st (s & Hs & _). rewrite Hs. reflexivity. Qed.

Lemma is_nan_false : forall v, v <> VNaN -> is_nan v = false.
Proof. intros v H; destruct v; try reflexivity; congruence. Qed.

(* ---- labels ----------------------------------------------------------------------------- *)

Lemma labels_of_length : forall fmt st, coherent fmt st -> nan_ok st -> sentinel st ->
  List.length (labels_of fmt st) = List.length (keys (st_order st)).
Proof.
  intros fmt st [Hwf _] Hn Hs. unfold labels_of. destruct (st_kind st) eqn:Ek.
  - destruct (Hs Ek) as [zs Hzs]. unfold quant_leaders in Hzs.
    apply (labels_length_quant _ _ _ _ zs); [exact (proj1 Hwf) | apply nan_ok_not_nan; exact Hn | exact Hzs].
  - apply labels_length_qual; [exact (proj1 Hwf) | apply nan_ok_not_nan; exact Hn].
Qed.

(* every member of the i-th group is a key of the table, with the i-th label *)
Lemma label_of_member : forall fmt st i k v,
  coherent fmt st -> nan_ok st -> sentinel st ->
  nth_error (keys (st_order st)) i = Some k -> In v (get (st_order st) k) ->
  exists l, label_at fmt st i = Some l /\ lget v (st_lpv st) = Some l.
Proof.
  intros fmt st i k v Hc Hn Hs Hi Hv. pose proof Hc as [Hwf Hlpv].
  rewrite Hlpv. unfold labels_per_values. rewrite (lpv_spec _ _ i k v Hwf Hi Hv).
  unfold label_at. fold (labels_of fmt st).
  destruct (nth_error (labels_of fmt st) i) as [l|] eqn:E.
  - exists l; split; reflexivity.
  - exfalso. apply nth_error_None in E. rewrite (labels_of_length fmt st Hc Hn Hs) in E.
    assert (Hlt : (i < List.length (keys (st_order st)))%nat)
      by (apply nth_error_Some; congruence).
    lia.
Qed.

Lemma label_at_In : forall fmt st i l, label_at fmt st i = Some l -> In l (labels_of fmt st).
Proof. intros fmt st i l H. unfold label_at in H. eapply nth_error_In; eauto. Qed.

Lemma in_values_group : forall g v, WF g -> In v (values g) ->
  exists i k, nth_error (keys g) i = Some k /\ In v (get g k).
Proof.
  intros g v (Hk & Hdk & Hkd & Hv & Hl) Hin. unfold values in Hin.
  apply In_dvalues in Hin. destruct Hin as (k & vs & Hkv & Hvs).
  assert (Hkin : In k (keys g)) by (apply Hkd; eapply In_dkeys; eauto).
  destruct (In_nth_error _ _ Hkin) as [i Hi]. exists i, k. split; [exact Hi|].
  rewrite (get_dget g k vs (In_dget k vs _ Hdk Hkv)). exact Hvs.
Qed.

Lemma label_of_value : forall fmt st v,
  coherent fmt st -> nan_ok st -> sentinel st -> In v (values (st_order st)) ->
  exists l, In l (labels_of fmt st) /\ lget v (st_lpv st) = Some l.
Proof.
  intros fmt st v Hc Hn Hs Hv.
  destruct (in_values_group _ v (proj1 Hc) Hv) as (i & k & Hi & Hin).
  destruct (label_of_member fmt st i k v Hc Hn Hs Hi Hin) as (l & Hl & Hg).
  exists l. split; [eapply label_at_In; eauto | exact Hg].
Qed.

Lemma label_eqb_refl : forall l, label_eqb l l = true.
Proof. intros [v|n]; cbn [label_eqb]; [apply val_eqb_refl | apply Nat.eqb_refl]. Qed.

Lemma label_eqb_neq : forall a b, a <> b -> label_eqb a b = false.
Proof.
  intros [v|n] [w|m] H; cbn [label_eqb]; try reflexivity.
  - apply val_eqb_neq. congruence.
  - apply Nat.eqb_neq. congruence.
Qed.

Lemma reinstate_in_label_set : forall fmt st l,
  In l (labels_of fmt st) -> in_label_set fmt st (reinstate st (OLab l)).
Proof.
  intros fmt st l Hl. unfold reinstate. destruct (st_dropna st) eqn:Ed; [exact Hl|].
  destruct (lget (st_nan st) (st_lpv st)) as [ln|]; [|exact Hl].
  destruct (label_eqb l ln); [exact Ed | exact Hl].
Qed.

(* ---- quantitative cells ----------------------------------------------------------------- *)

Lemma quant_ready_true : forall fmt st,
  coherent fmt st -> nan_ok st -> sentinel st -> st_kind st = Quant -> quant_ready st = true.
Proof.
  intros fmt st Hc Hn Hs Hk. unfold quant_ready. apply forallb_forall. intros l Hl.
  assert (Hstr : is_str l = false).
  { destruct (Hs Hk) as [zs Hzs]. rewrite Hzs in Hl. apply in_app_or in Hl.
    destruct Hl as [Hl|[Hl|[]]].
    - apply in_map_iff in Hl. destruct Hl as (z & Hz & _). subst l. reflexivity.
    - subst l. reflexivity. }
  rewrite Hstr. cbn [negb andb].
  unfold quant_leaders in Hl. apply filter_In in Hl. destruct Hl as [Hl _].
  destruct (In_nth_error _ _ Hl) as [i Hi].
  destruct (label_of_member fmt st i l l Hc Hn Hs Hi (WF_key_get _ _ (proj1 Hc) Hl))
    as (lab & _ & Hg).
  rewrite Hg. reflexivity.
Qed.

Lemma quant_cell_num : forall fmt st x,
  coherent fmt st -> nan_ok st -> sentinel st -> st_kind st = Quant -> is_num x = true ->
  transform_cell st x = Ok (reinstate st (select_first (st_lpv st) x (quant_leaders st))).
Proof.
  intros fmt st x Hc Hn Hs Hk Hx. unfold transform_cell. rewrite Hk. unfold quant_cell.
  rewrite (quant_ready_true fmt st Hc Hn Hs Hk).
  destruct x; try discriminate Hx; reflexivity.
Qed.

Lemma select_first_skip : forall lpv x pre rest,
  (forall p, In p pre -> num_le x p = false) ->
  select_first lpv x (pre ++ rest) = select_first lpv x rest.
Proof.
  intros lpv x pre rest; induction pre as [|p t IH]; intro H; cbn [app select_first].
  - reflexivity.
  - rewrite (H p) by (left; reflexivity). apply IH. intros q Hq. apply H. right. exact Hq.
Qed.

(* ---- C04 -------------------------------------------------------------------------------- *)

Lemma qual_cell_known : forall st c,
  is_nan c = false -> In c (values (st_order st)) ->
  qual_cell st c = Ok (reinstate st (match lget c (st_lpv st) with
                                     | Some l => OLab l
                                     | None => ORaw c
                                     end)).
Proof.
  intros st c Hc Hin. apply mem_In in Hin. unfold qual_cell.
  rewrite Hc. cbv zeta. rewrite Hc. rewrite Hin. cbn [negb andb]. rewrite Hin. reflexivity.
Qed.

Theorem transform_is_lookup_qual : forall fmt st i k v,
  coherent fmt st -> st_kind st = Qual -> nan_ok st ->
  nth_error (keys (st_order st)) i = Some k -> In v (get (st_order st) k) -> v <> VNaN ->
  exists l, label_at fmt st i = Some l /\ transform_cell st v = Ok (reinstate st (OLab l)).
Proof.
  intros fmt st i k v Hc Hk Hn Hi Hv Hnn.
  assert (Hs : sentinel st) by (intro HQ; congruence).
  destruct (label_of_member fmt st i k v Hc Hn Hs Hi Hv) as (l & Hl & Hg).
  exists l. split; [exact Hl|]. unfold transform_cell. rewrite Hk.
  rewrite (qual_cell_known st v (is_nan_false v Hnn) (In_get_values _ _ _ Hv)).
  rewrite Hg. reflexivity.
Qed.

Theorem transform_is_lookup_quant : forall fmt st x pre l post i,
  coherent fmt st -> st_kind st = Quant -> nan_ok st -> sentinel st ->
  is_num x = true ->
  quant_leaders st = pre ++ l :: post ->
  (forall p, In p pre -> num_le x p = false) -> num_le x l = true ->
  nth_error (keys (st_order st)) i = Some l ->
  exists lab, label_at fmt st i = Some lab /\ transform_cell st x = Ok (reinstate st (OLab lab)).
Proof.
  intros fmt st x pre l post i Hc Hk Hn Hs Hx Hql Hpre Hle Hi.
  assert (Hin : In l (keys (st_order st))) by (eapply nth_error_In; eauto).
  destruct (label_of_member fmt st i l l Hc Hn Hs Hi (WF_key_get _ _ (proj1 Hc) Hin))
    as (lab & Hl & Hg).
  exists lab. split; [exact Hl|].
  rewrite (quant_cell_num fmt st x Hc Hn Hs Hk Hx), Hql, (select_first_skip _ _ _ _ Hpre).
  cbn [select_first]. rewrite Hle, Hg. reflexivity.
Qed.

Theorem transform_nan : forall fmt st i k,
  coherent fmt st -> nan_ok st -> sentinel st ->
  nth_error (keys (st_order st)) i = Some k -> In (st_nan st) (get (st_order st) k) ->
  exists l, label_at fmt st i = Some l /\
            transform_cell st VNaN = Ok (if st_dropna st then OLab l else OMissing).
Proof.
  intros fmt st i k Hc Hn Hs Hi Hv.
  assert (Hin : In k (keys (st_order st))) by (eapply nth_error_In; eauto).
  destruct (label_of_member fmt st i k _ Hc Hn Hs Hi Hv) as (l & Hl & Hg).
  destruct (label_of_member fmt st i k k Hc Hn Hs Hi (WF_key_get _ _ (proj1 Hc) Hin))
    as (l' & Hl' & Hgk).
  assert (l' = l) by congruence. subst l'.
  assert (Hre : reinstate st (OLab l) = if st_dropna st then OLab l else OMissing).
  { unfold reinstate. destruct (st_dropna st); [reflexivity|].
    rewrite Hg, label_eqb_refl. reflexivity. }
  exists l. split; [exact Hl|]. rewrite <- Hre.
  unfold transform_cell. destruct (st_kind st) eqn:Ek.
  - unfold quant_cell. cbn [is_nan].
    rewrite (proj2 (contains_spec _ _) (In_get_values _ _ _ Hv)).
    rewrite (quant_ready_true fmt st Hc Hn Hs Ek). cbn [negb].
    assert (Hgg : get_group (st_order st) (st_nan st) = k).
    { unfold get in Hv. destruct (dget k (content (st_order st))) as [vs|] eqn:E; [|destruct Hv].
      apply (get_group_spec _ k vs); [exact (proj1 Hc) | apply dget_In; exact E | exact Hv]. }
    rewrite Hgg, Hgk. reflexivity.
  - unfold qual_cell. cbn [is_nan]. rewrite (nan_ok_truthy st Hn). cbv zeta.
    rewrite (nan_ok_is_nan st Hn).
    rewrite (proj2 (mem_In _ _) (In_get_values _ _ _ Hv)). cbn [negb andb].
    rewrite (proj2 (mem_In _ _) (In_get_values _ _ _ Hv)). cbn [negb].
    rewrite Hg. reflexivity.
Qed.
