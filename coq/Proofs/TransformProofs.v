(* TransformProofs.v — C04 / C05 / C03 (transform half) on the model of
   BaseDiscretizer.transform (Model/Transform.v): transform is the lookup of the label of the
   group (C04), is total up to the documented rejections (C05), and is monotone for
   output_dtype='float' (C03). *)
From Coq Require Import Permutation Lia Sorting.Sorted.
From AC.Model Require Import Base GroupedList Labels Transform.
From AC.Proofs Require Import BaseLemmas GroupedListSpec GroupedListProofs TransformSpec
  LabelsProofs.

(* ---- str_nan ---------------------------------------------------------------------------- *)

Lemma nan_ok_not_nan : forall st, nan_ok st -> st_nan st <> VNaN.
Proof. intros st (s & Hs & _). rewrite Hs. discriminate. Qed.

Lemma nan_ok_truthy : forall st, nan_ok st -> truthy (st_nan st) = true.
Proof.
  intros st (s & Hs & Hne). rewrite Hs. cbn [truthy]. apply negb_true_iff.
  apply String.eqb_neq. exact Hne.
Qed.

Lemma nan_ok_is_nan : forall st, nan_ok st -> is_nan (st_nan st) = false.
Proof. intros st (s & Hs & _). rewrite Hs. reflexivity. Qed.

Lemma is_nan_false : forall v, v <> VNaN -> is_nan v = false.
Proof. intros v H; destruct v; try reflexivity; congruence. Qed.

(* ---- labels ----------------------------------------------------------------------------- *)

Lemma labels_of_length : forall fmt st, coherent fmt st -> nan_ok st -> sentinel st ->
  List.length (labels_of fmt st) = List.length (keys (st_order st)).
Proof.
  intros fmt st [Hwf _] Hn Hs. unfold labels_of. destruct (st_kind st) eqn:Ek.
  - destruct (Hs Ek) as [zs Hzs]. unfold quant_leaders in Hzs.
    apply (labels_length_quant _ _ _ _ zs); [exact (proj1 Hwf) | apply nan_ok_not_nan; exact Hn | exact Hzs].
  - apply labels_length_qual; [exact (proj1 Hwf) | apply nan_ok_not_nan; exact Hn].
Qed.

(* every member of the i-th group is a key of the table, with the i-th label *)
Lemma label_of_member : forall fmt st i k v,
  coherent fmt st -> nan_ok st -> sentinel st ->
  nth_error (keys (st_order st)) i = Some k -> In v (get (st_order st) k) ->
  exists l, label_at fmt st i = Some l /\ lget v (st_lpv st) = Some l.
Proof.
  intros fmt st i k v Hc Hn Hs Hi Hv. pose proof Hc as [Hwf Hlpv].
  rewrite Hlpv. unfold labels_per_values. rewrite (lpv_spec _ _ i k v Hwf Hi Hv).
  unfold label_at. fold (labels_of fmt st).
  destruct (nth_error (labels_of fmt st) i) as [l|] eqn:E.
  - exists l; split; reflexivity.
  - exfalso. apply nth_error_None in E. rewrite (labels_of_length fmt st Hc Hn Hs) in E.
    assert (Hlt : (i < List.length (keys (st_order st)))%nat)
      by (apply nth_error_Some; congruence).
    lia.
Qed.

Lemma label_at_In : forall fmt st i l, label_at fmt st i = Some l -> In l (labels_of fmt st).
Proof. intros fmt st i l H. unfold label_at in H. eapply nth_error_In; eauto. Qed.

Lemma in_values_group : forall g v, WF g -> In v (values g) ->
  exists i k, nth_error (keys g) i = Some k /\ In v (get g k).
Proof.
  intros g v (Hk & Hdk & Hkd & Hv & Hl) Hin. unfold values in Hin.
  apply In_dvalues in Hin. destruct Hin as (k & vs & Hkv & Hvs).
  assert (Hkin : In k (keys g)) by (apply Hkd; eapply In_dkeys; eauto).
  destruct (In_nth_error _ _ Hkin) as [i Hi]. exists i, k. split; [exact Hi|].
  rewrite (get_dget g k vs (In_dget k vs _ Hdk Hkv)). exact Hvs.
Qed.

Lemma label_of_value : forall fmt st v,
  coherent fmt st -> nan_ok st -> sentinel st -> In v (values (st_order st)) ->
  exists l, In l (labels_of fmt st) /\ lget v (st_lpv st) = Some l.
Proof.
  intros fmt st v Hc Hn Hs Hv.
  destruct (in_values_group _ v (proj1 Hc) Hv) as (i & k & Hi & Hin).
  destruct (label_of_member fmt st i k v Hc Hn Hs Hi Hin) as (l & Hl & Hg).
  exists l. split; [eapply label_at_In; eauto | exact Hg].
Qed.

Lemma label_eqb_refl : forall l, label_eqb l l = true.
Proof. intros [v|n]; cbn [label_eqb]; [apply val_eqb_refl | apply Nat.eqb_refl]. Qed.

Lemma label_eqb_neq : forall a b, a <> b -> label_eqb a b = false.
Proof.
  intros [v|n] [w|m] H; cbn [label_eqb]; try reflexivity.
  - apply val_eqb_neq. congruence.
  - apply Nat.eqb_neq. congruence.
Qed.

Lemma reinstate_in_label_set : forall fmt st l,
  In l (labels_of fmt st) -> in_label_set fmt st (reinstate st (OLab l)).
Proof.
  intros fmt st l Hl. unfold reinstate. destruct (st_dropna st) eqn:Ed; [exact Hl|].
  destruct (lget (st_nan st) (st_lpv st)) as [ln|]; [|exact Hl].
  destruct (label_eqb l ln); [exact Ed | exact Hl].
Qed.

(* ---- quantitative cells ----------------------------------------------------------------- *)

Lemma quant_ready_true : forall fmt st,
  coherent fmt st -> nan_ok st -> sentinel st -> st_kind st = Quant -> quant_ready st = true.
Proof.
  intros fmt st Hc Hn Hs Hk. unfold quant_ready. apply forallb_forall. intros l Hl.
  assert (Hstr : is_str l = false).
  { destruct (Hs Hk) as [zs Hzs]. rewrite Hzs in Hl. apply in_app_or in Hl.
    destruct Hl as [Hl|[Hl|[]]].
    - apply in_map_iff in Hl. destruct Hl as (z & Hz & _). subst l. reflexivity.
    - subst l. reflexivity. }
  rewrite Hstr. cbn [negb andb].
  unfold quant_leaders in Hl. apply filter_In in Hl. destruct Hl as [Hl _].
  destruct (In_nth_error _ _ Hl) as [i Hi].
  destruct (label_of_member fmt st i l l Hc Hn Hs Hi (WF_key_get _ _ (proj1 Hc) Hl))
    as (lab & _ & Hg).
  rewrite Hg. reflexivity.
Qed.

Lemma quant_cell_num : forall fmt st x,
  coherent fmt st -> nan_ok st -> sentinel st -> st_kind st = Quant -> is_num x = true ->
  transform_cell st x = Ok (reinstate st (select_first (st_lpv st) x (quant_leaders st))).
Proof.
  intros fmt st x Hc Hn Hs Hk Hx. unfold transform_cell. rewrite Hk. unfold quant_cell.
  rewrite (quant_ready_true fmt st Hc Hn Hs Hk).
  destruct x; try discriminate Hx; reflexivity.
Qed.

Lemma select_first_skip : forall lpv x pre rest,
  (forall p, In p pre -> num_le x p = false) ->
  select_first lpv x (pre ++ rest) = select_first lpv x rest.
Proof.
  intros lpv x pre rest; induction pre as [|p t IH]; intro H; cbn [app select_first].
  - reflexivity.
  - rewrite (H p) by (left; reflexivity). apply IH. intros q Hq. apply H. right. exact Hq.
Qed.

(* ---- C04 -------------------------------------------------------------------------------- *)

Lemma qual_cell_known : forall st c,
  is_nan c = false -> In c (values (st_order st)) ->
  qual_cell st c = Ok (reinstate st (match lget c (st_lpv st) with
                                     | Some l => OLab l
                                     | None => ORaw c
                                     end)).
Proof.
  intros st c Hc Hin. apply mem_In in Hin. unfold qual_cell.
  rewrite Hc. cbv zeta. rewrite Hc. rewrite Hin. cbn [negb andb]. rewrite Hin. reflexivity.
Qed.

Theorem transform_is_lookup_qual : forall fmt st i k v,
  coherent fmt st -> st_kind st = Qual -> nan_ok st ->
  nth_error (keys (st_order st)) i = Some k -> In v (get (st_order st) k) -> v <> VNaN ->
  exists l, label_at fmt st i = Some l /\ transform_cell st v = Ok (reinstate st (OLab l)).
Proof.
  intros fmt st i k v Hc Hk Hn Hi Hv Hnn.
  assert (Hs : sentinel st) by (intro HQ; congruence).
  destruct (label_of_member fmt st i k v Hc Hn Hs Hi Hv) as (l & Hl & Hg).
  exists l. split; [exact Hl|]. unfold transform_cell. rewrite Hk.
  rewrite (qual_cell_known st v (is_nan_false v Hnn) (In_get_values _ _ _ Hv)).
  rewrite Hg. reflexivity.
Qed.

Theorem transform_is_lookup_quant : forall fmt st x pre l post i,
  coherent fmt st -> st_kind st = Quant -> nan_ok st -> sentinel st ->
  is_num x = true ->
  quant_leaders st = pre ++ l :: post ->
  (forall p, In p pre -> num_le x p = false) -> num_le x l = true ->
  nth_error (keys (st_order st)) i = Some l ->
  exists lab, label_at fmt st i = Some lab /\ transform_cell st x = Ok (reinstate st (OLab lab)).
Proof.
  intros fmt st x pre l post i Hc Hk Hn Hs Hx Hql Hpre Hle Hi.
  assert (Hin : In l (keys (st_order st))) by (eapply nth_error_In; eauto).
  destruct (label_of_member fmt st i l l Hc Hn Hs Hi (WF_key_get _ _ (proj1 Hc) Hin))
    as (lab & Hl & Hg).
  exists lab. split; [exact Hl|].
  rewrite (quant_cell_num fmt st x Hc Hn Hs Hk Hx), Hql, (select_first_skip _ _ _ _ Hpre).
  cbn [select_first]. rewrite Hle, Hg. reflexivity.
Qed.

Theorem transform_nan : forall fmt st i k,
  coherent fmt st -> nan_ok st -> sentinel st ->
  nth_error (keys (st_order st)) i = Some k -> In (st_nan st) (get (st_order st) k) ->
  exists l, label_at fmt st i = Some l /\
            transform_cell st VNaN = Ok (if st_dropna st then OLab l else OMissing).
Proof.
  intros fmt st i k Hc Hn Hs Hi Hv.
  assert (Hin : In k (keys (st_order st))) by (eapply nth_error_In; eauto).
  destruct (label_of_member fmt st i k _ Hc Hn Hs Hi Hv) as (l & Hl & Hg).
  destruct (label_of_member fmt st i k k Hc Hn Hs Hi (WF_key_get _ _ (proj1 Hc) Hin))
    as (l' & Hl' & Hgk).
  assert (l' = l) by congruence. subst l'.
  assert (Hre : reinstate st (OLab l) = if st_dropna st then OLab l else OMissing).
  { unfold reinstate. destruct (st_dropna st); [reflexivity|].
    rewrite Hg, label_eqb_refl. reflexivity. }
  exists l. split; [exact Hl|]. rewrite <- Hre.
  unfold transform_cell. destruct (st_kind st) eqn:Ek.
  - unfold quant_cell. cbn [is_nan].
    rewrite (proj2 (contains_spec _ _) (In_get_values _ _ _ Hv)).
    rewrite (quant_ready_true fmt st Hc Hn Hs Ek). cbn [negb].
    assert (Hgg : get_group (st_order st) (st_nan st) = k).
    { unfold get in Hv. destruct (dget k (content (st_order st))) as [vs|] eqn:E; [|destruct Hv].
      apply (get_group_spec _ k vs); [exact (proj1 Hc) | apply dget_In; exact E | exact Hv]. }
    rewrite Hgg, Hgk. reflexivity.
  - unfold qual_cell. cbn [is_nan]. rewrite (nan_ok_truthy st Hn). cbv zeta.
    rewrite (nan_ok_is_nan st Hn).
    rewrite (proj2 (mem_In _ _) (In_get_values _ _ _ Hv)). cbn [negb andb].
    rewrite (proj2 (mem_In _ _) (In_get_values _ _ _ Hv)). cbn [negb].
    rewrite Hg. reflexivity.
Qed.

(* ---- C05 -------------------------------------------------------------------------------- *)

Lemma first_split : forall (q : val -> bool) ks,
  (exists k, In k ks /\ q k = true) ->
  exists pre l post, ks = pre ++ l :: post /\ q l = true /\ forall p, In p pre -> q p = false.
Proof.
  intros q ks; induction ks as [|a t IH]; intros (k & Hin & Hq); [destruct Hin|].
  destruct (q a) eqn:Ea.
  - exists [], a, t. split; [reflexivity|]. split; [exact Ea|]. intros p [].
  - destruct Hin as [Hin|Hin]; [subst a; congruence|].
    destruct (IH (ex_intro _ k (conj Hin Hq))) as (pre & l & post & E & Hl & Hpre).
    exists (a :: pre), l, post. split; [rewrite E; reflexivity|]. split; [exact Hl|].
    intros p [Hp|Hp]; [subst p; exact Ea | apply Hpre; exact Hp].
Qed.

Lemma num_le_pinf : forall x, is_num x = true -> num_le x VPInf = true.
Proof. intros x H; destruct x; try discriminate H; reflexivity. Qed.

(* with the +inf sentinel every number of the carrier finds a leader *)
Lemma quant_num_lookup : forall fmt st x,
  coherent fmt st -> nan_ok st -> sentinel st -> st_kind st = Quant -> is_num x = true ->
  exists i l lab, nth_error (keys (st_order st)) i = Some l /\ In l (quant_leaders st) /\
                  num_le x l = true /\ label_at fmt st i = Some lab /\
                  transform_cell st x = Ok (reinstate st (OLab lab)).
Proof.
  intros fmt st x Hc Hn Hs Hk Hx. destruct (Hs Hk) as [zs Hzs].
  destruct (first_split (num_le x) (quant_leaders st)) as (pre & l & post & E & Hl & Hpre).
  { exists VPInf. split; [|apply num_le_pinf; exact Hx].
    rewrite Hzs. apply in_or_app. right. left. reflexivity. }
  assert (Hql : In l (quant_leaders st)) by (rewrite E; apply in_elt).
  assert (Hin : In l (keys (st_order st))).
  { unfold quant_leaders in Hql. apply filter_In in Hql. exact (proj1 Hql). }
  destruct (In_nth_error _ _ Hin) as [i Hi].
  destruct (transform_is_lookup_quant fmt st x pre l post i Hc Hk Hn Hs Hx E Hpre Hl Hi)
    as (lab & Hlab & Ht).
  exists i, l, lab. repeat split; assumption.
Qed.

Lemma qual_cell_unknown : forall st c,
  is_nan c = false -> ~ In c (values (st_order st)) ->
  qual_cell st c =
  if py_neq c (st_nan st) && mem (st_default st) (values (st_order st))
  then Ok (reinstate st (match lget (st_default st) (st_lpv st) with
                         | Some l => OLab l
                         | None => ORaw (st_default st)
                         end))
  else AssertErr.
Proof.
  intros st c Hc Hnin. apply mem_false in Hnin. unfold qual_cell.
  rewrite Hc. cbv zeta. rewrite Hc. rewrite Hnin. cbn [negb andb].
  destruct (py_neq c (st_nan st) && mem (st_default st) (values (st_order st))) eqn:E.
  - apply andb_prop in E. destruct E as [_ E]. rewrite E. reflexivity.
  - rewrite Hnin. reflexivity.
Qed.

Lemma transform_nan_unknown : forall st,
  nan_ok st -> ~ In (st_nan st) (values (st_order st)) -> transform_cell st VNaN = AssertErr.
Proof.
  intros st Hn Hnin. unfold transform_cell. destruct (st_kind st).
  - unfold quant_cell. cbn [is_nan].
    destruct (contains (st_order st) (st_nan st)) eqn:E; [|reflexivity].
    apply contains_spec in E. contradiction.
  - unfold qual_cell. cbn [is_nan]. rewrite (nan_ok_truthy st Hn).
    cbv zeta. rewrite (nan_ok_is_nan st Hn).
    rewrite (proj2 (mem_false _ _) Hnin).
    rewrite (py_neq_spec _ _ (nan_ok_not_nan st Hn)), val_eqb_refl. cbn [negb andb].
    rewrite (proj2 (mem_false _ _) Hnin). reflexivity.
Qed.

Theorem transform_total : forall fmt st c,
  coherent fmt st -> nan_ok st -> sentinel st ->
  (st_kind st = Quant -> is_str c = false) ->
  (transform_cell st c = AssertErr /\ reject st c) \/
  (exists o, transform_cell st c = Ok o /\ in_label_set fmt st o).
Proof.
  intros fmt st c Hc Hn Hs Hstr. destruct (val_eq_dec c VNaN) as [Hcn|Hcn].
  - subst c. destruct (in_dec val_eq_dec (st_nan st) (values (st_order st))) as [Hin|Hnin].
    + right. destruct (in_values_group _ _ (proj1 Hc) Hin) as (i & k & Hi & Hv).
      destruct (transform_nan fmt st i k Hc Hn Hs Hi Hv) as (l & Hl & Ht).
      exists (if st_dropna st then OLab l else OMissing). split; [exact Ht|].
      destruct (st_dropna st) eqn:Ed; cbn [in_label_set];
        [eapply label_at_In; eauto | exact Ed].
    + left. split; [apply transform_nan_unknown; assumption|].
      left. split; [reflexivity | exact Hnin].
  - destruct (st_kind st) eqn:Ek.
    + right. assert (Hx : is_num c = true).
      { specialize (Hstr eq_refl). destruct c; try reflexivity; try discriminate Hstr.
        congruence. }
      destruct (quant_num_lookup fmt st c Hc Hn Hs Ek Hx)
        as (i & l & lab & _ & _ & _ & Hlab & Ht).
      exists (reinstate st (OLab lab)). split; [exact Ht|].
      apply reinstate_in_label_set. eapply label_at_In; eauto.
    + unfold transform_cell. rewrite Ek.
      destruct (in_dec val_eq_dec c (values (st_order st))) as [Hin|Hnin].
      * right. rewrite (qual_cell_known st c (is_nan_false c Hcn) Hin).
        destruct (label_of_value fmt st c Hc Hn Hs Hin) as (l & Hl & Hg). rewrite Hg.
        exists (reinstate st (OLab l)). split; [reflexivity|].
        apply reinstate_in_label_set; exact Hl.
      * rewrite (qual_cell_unknown st c (is_nan_false c Hcn) Hnin).
        destruct (py_neq c (st_nan st) && mem (st_default st) (values (st_order st))) eqn:E.
        -- right. apply andb_prop in E. destruct E as [_ E]. apply mem_In in E.
           destruct (label_of_value fmt st _ Hc Hn Hs E) as (l & Hl & Hg). rewrite Hg.
           exists (reinstate st (OLab l)). split; [reflexivity|].
           apply reinstate_in_label_set; exact Hl.
        -- left. split; [reflexivity|]. right. split; [exact Ek|].
           split; [exact Hcn|]. split; [exact Hnin|].
           apply andb_false_iff in E. destruct E as [E|E].
           ++ left. unfold py_neq in E. apply negb_false_iff in E. apply py_eq_true; exact E.
           ++ right. apply mem_false; exact E.
Qed.

Theorem finite_never_rejected : forall fmt st z,
  coherent fmt st -> nan_ok st -> sentinel st -> st_kind st = Quant ->
  exists l, In l (labels_of fmt st) /\ transform_cell st (VNum z) = Ok (reinstate st (OLab l)).
Proof.
  intros fmt st z Hc Hn Hs Hk.
  destruct (quant_num_lookup fmt st (VNum z) Hc Hn Hs Hk eq_refl)
    as (i & l & lab & _ & _ & _ & Hlab & Ht).
  exists lab. split; [eapply label_at_In; eauto | exact Ht].
Qed.

(* CHANGED: extra hypothesis [st_default st <> VNaN].  Without it the first conjunct fails:
   order of_list [VNaN; VStr "N"], str_nan = VStr "N", str_default = VNaN, dropna = true, OStr:
   an unseen c is sent to the group of the default VNaN (label VNaN) whereas the cell VNaN
   itself is first filled with str_nan and gets the label "N". *)
Theorem unseen_goes_to_default : forall fmt st c,
  coherent fmt st -> nan_ok st -> st_kind st = Qual ->
  c <> VNaN -> ~ In c (values (st_order st)) -> c <> st_nan st ->
  In (st_default st) (values (st_order st)) ->
  st_default st <> VNaN ->
  transform_cell st c = transform_cell st (st_default st) /\
  exists l, In l (labels_of fmt st) /\ transform_cell st c = Ok (reinstate st (OLab l)).
Proof.
  intros fmt st c Hc Hn Hk Hcn Hnin Hcnan Hd Hdn.
  assert (Hs : sentinel st) by (intro HQ; congruence).
  assert (Ht : transform_cell st c =
               Ok (reinstate st (match lget (st_default st) (st_lpv st) with
                                 | Some l => OLab l
                                 | None => ORaw (st_default st)
                                 end))).
  { unfold transform_cell. rewrite Hk.
    rewrite (qual_cell_unknown st c (is_nan_false c Hcn) Hnin).
    rewrite (py_neq_spec _ _ (nan_ok_not_nan st Hn)).
    rewrite (proj2 (val_eqb_neq c (st_nan st)) Hcnan).
    rewrite (proj2 (mem_In _ _) Hd). reflexivity. }
  split.
  - rewrite Ht. unfold transform_cell. rewrite Hk.
    rewrite (qual_cell_known st _ (is_nan_false _ Hdn) Hd). reflexivity.
  - destruct (label_of_value fmt st _ Hc Hn Hs Hd) as (l & Hl & Hg).
    exists l. split; [exact Hl|]. rewrite Ht, Hg. reflexivity.
Qed.

(* ---- C03, transform half ---------------------------------------------------------------- *)

Lemma num_le_trans : forall a b c, num_le a b = true -> num_le b c = true -> num_le a c = true.
Proof.
  intros [x| | |s|] [y| | |t|] [z| | |u|] H1 H2; cbn [num_le] in *;
    try discriminate; try reflexivity.
  apply Z.leb_le in H1. apply Z.leb_le in H2. apply Z.leb_le. lia.
Qed.

Lemma select_first_filter_split : forall lpv x (p : val -> bool) pre l post,
  (forall k, In k pre -> p k && num_le x k = false) -> p l = true -> num_le x l = true ->
  select_first lpv x (filter p (pre ++ l :: post)) =
  match lget l lpv with Some lab => OLab lab | None => ORaw x end.
Proof.
  intros lpv x p pre l post Hpre Hpl Hle. rewrite filter_app. rewrite select_first_skip.
  - cbn [filter]. rewrite Hpl. cbn [select_first]. rewrite Hle. reflexivity.
  - intros q Hq. apply filter_In in Hq. destruct Hq as [Hq Hp].
    specialize (Hpre q Hq). rewrite Hp in Hpre. exact Hpre.
Qed.

Lemma app_split_le : forall (A : Type) (pre pre' : list A) l l' post post',
  pre ++ l :: post = pre' ++ l' :: post' -> ~ In l' pre ->
  (List.length pre <= List.length pre')%nat.
Proof.
  intros A pre pre' l l' post post' E Hnin.
  destruct (le_lt_dec (List.length pre) (List.length pre')) as [Hle|Hlt]; [exact Hle|].
  exfalso. apply Hnin.
  assert (H : nth_error (pre ++ l :: post) (List.length pre') = Some l').
  { rewrite E, nth_error_app2, Nat.sub_diag by lia. reflexivity. }
  rewrite nth_error_app1 in H by lia. eapply nth_error_In; eauto.
Qed.

(* the NaN reinstatement never hits the rank of a leader other than str_nan *)
Lemma reinstate_leader_id : forall fmt st l lab,
  coherent fmt st -> st_odt st = OFloat -> nan_separate st ->
  In l (keys (st_order st)) -> l <> st_nan st -> lget l (st_lpv st) = Some lab ->
  reinstate st (OLab lab) = OLab lab.
Proof.
  intros fmt st l lab Hc Ho Hsep Hin Hne Hg. unfold reinstate.
  destruct (st_dropna st) eqn:Ed; [reflexivity|].
  destruct (lget (st_nan st) (st_lpv st)) as [ln|] eqn:Eln; [|reflexivity].
  destruct Hsep as [Hd|[Hnin|Hnv]].
  - congruence.
  - rewrite label_eqb_neq; [reflexivity|].
    exact (float_labels_distinct fmt st l (st_nan st) lab ln Hc Ho Hin Hnin Hne Hg Eln).
  - rewrite (proj2 Hc) in Eln. unfold labels_per_values in Eln.
    rewrite lpv_none in Eln by exact Hnv. discriminate Eln.
Qed.

Lemma monotone_one : forall fmt st x pre l post,
  coherent fmt st -> nan_ok st -> sentinel st -> st_kind st = Quant -> st_odt st = OFloat ->
  nan_separate st -> is_num x = true ->
  keys (st_order st) = pre ++ l :: post ->
  (forall k, In k pre -> py_neq k (st_nan st) && num_le x k = false) ->
  py_neq l (st_nan st) = true -> num_le x l = true ->
  transform_cell st x = Ok (OLab (LRank (List.length pre))).
Proof.
  intros fmt st x pre l post Hc Hn Hs Hk Ho Hsep Hx E Hpre Hpl Hle.
  assert (Hi : nth_error (keys (st_order st)) (List.length pre) = Some l).
  { rewrite E, nth_error_app2, Nat.sub_diag by lia. reflexivity. }
  assert (Hin : In l (keys (st_order st))) by (eapply nth_error_In; eauto).
  destruct (label_of_member fmt st _ l l Hc Hn Hs Hi (WF_key_get _ _ (proj1 Hc) Hin))
    as (lab & Hlab & Hg).
  assert (Hrank : lab = LRank (List.length pre)).
  { unfold label_at, labels_of in Hlab. rewrite Ho in Hlab.
    assert (Hlt : (List.length pre <
                   List.length (get_labels (st_kind st) OFloat fmt (st_nan st)
                                           (keys (st_order st))))%nat)
      by (apply nth_error_Some; congruence).
    rewrite (float_labels_are_ranks _ _ _ _ _ Hlt) in Hlab. congruence. }
  subst lab.
  rewrite (quant_cell_num fmt st x Hc Hn Hs Hk Hx). unfold quant_leaders. rewrite E.
  rewrite (select_first_filter_split _ x (fun v => py_neq v (st_nan st)) pre l post Hpre Hpl Hle).
  rewrite Hg.
  rewrite (reinstate_leader_id fmt st l _ Hc Ho Hsep Hin
             (py_neq_true l _ (nan_ok_not_nan st Hn) Hpl) Hg).
  reflexivity.
Qed.

Theorem transform_monotone : forall fmt st x x',
  coherent fmt st -> nan_ok st -> sentinel st -> st_kind st = Quant -> st_odt st = OFloat ->
  nan_separate st ->
  is_num x = true -> is_num x' = true -> num_le x x' = true ->
  exists i i', transform_cell st x = Ok (OLab (LRank i)) /\
               transform_cell st x' = Ok (OLab (LRank i')) /\ (i <= i')%nat.
Proof.
  intros fmt st x x' Hc Hn Hs Hk Ho Hsep Hx Hx' Hle.
  destruct (Hs Hk) as [zs Hzs].
  assert (HPinf : In VPInf (keys (st_order st)) /\ py_neq VPInf (st_nan st) = true).
  { apply (proj1 (filter_In (fun v => py_neq v (st_nan st)) VPInf (keys (st_order st)))).
    change (In VPInf (quant_leaders st)). rewrite Hzs. apply in_or_app. right. left.
    reflexivity. }
  destruct (first_split (fun k => py_neq k (st_nan st) && num_le x' k) (keys (st_order st)))
    as (pre' & l' & post' & E' & Hl' & Hpre').
  { exists VPInf. split; [exact (proj1 HPinf)|].
    rewrite (proj2 HPinf), (num_le_pinf x' Hx'). reflexivity. }
  cbv beta in Hl', Hpre'. apply andb_prop in Hl'. destruct Hl' as [Hpl' Hle'].
  pose proof (num_le_trans _ _ _ Hle Hle') as Hxl'.
  destruct (first_split (fun k => py_neq k (st_nan st) && num_le x k) (keys (st_order st)))
    as (pre & l & post & E & Hl & Hpre).
  { exists l'. split; [rewrite E'; apply in_elt|]. rewrite Hpl', Hxl'. reflexivity. }
  cbv beta in Hl, Hpre. apply andb_prop in Hl. destruct Hl as [Hpl Hlel].
  assert (Hlen : (List.length pre <= List.length pre')%nat).
  { apply (app_split_le _ pre pre' l l' post post'); [congruence|].
    intro Hin. specialize (Hpre _ Hin). rewrite Hpl', Hxl' in Hpre. discriminate Hpre. }
  exists (List.length pre), (List.length pre'). split; [|split; [|exact Hlen]].
  - exact (monotone_one fmt st x pre l post Hc Hn Hs Hk Ho Hsep Hx E Hpre Hpl Hlel).
  - exact (monotone_one fmt st x' pre' l' post' Hc Hn Hs Hk Ho Hsep Hx' E' Hpre' Hpl' Hle').
Qed.

(* ---- right-closed intervals ------------------------------------------------------------- *)

Lemma sentinel_sorted : forall zs, StronglySorted Z.lt zs ->
  StronglySorted (fun a b => num_le a b = true) (map VNum zs ++ [VPInf]).
Proof.
  intros zs Hss; induction Hss as [|z zs Hss IH Hall]; cbn [map app].
  - repeat constructor.
  - constructor; [exact IH|]. apply Forall_app. split.
    + apply Forall_forall. intros v Hv. apply in_map_iff in Hv.
      destruct Hv as (y & Hy & Hin). subst v. cbn [num_le]. apply Z.leb_le.
      pose proof (proj1 (Forall_forall _ _) Hall y Hin) as Hlt. lia.
    + constructor; [reflexivity|constructor].
Qed.

Lemma sorted_before : forall (R : val -> val -> Prop) pre a rest p,
  StronglySorted R (pre ++ a :: rest) -> In p pre -> R p a.
Proof.
  intros R pre; induction pre as [|q t IH]; intros a rest p H Hin; [destruct Hin|].
  cbn [app] in H. apply StronglySorted_inv in H. destruct H as [Hss Hall].
  destruct Hin as [Hin|Hin].
  - subst q. exact (proj1 (Forall_forall _ _) Hall a (in_elt _ _ _)).
  - eapply IH; eauto.
Qed.

Theorem transform_interval : forall fmt st zs x pre l post i,
  coherent fmt st -> nan_ok st -> st_kind st = Quant ->
  quant_leaders st = map VNum zs ++ [VPInf] -> StronglySorted Z.lt zs ->
  is_num x = true ->
  quant_leaders st = pre ++ l :: post ->
  (forall p, nth_error pre (List.length pre - 1) = Some p -> num_le x p = false) ->
  num_le x l = true ->
  nth_error (keys (st_order st)) i = Some l ->
  exists lab, label_at fmt st i = Some lab /\ transform_cell st x = Ok (reinstate st (OLab lab)).
Proof.
  intros fmt st zs x pre l post i Hc Hn Hk Hzs Hsort Hx Hql Hlast Hle Hi.
  assert (Hs : sentinel st) by (intros _; exists zs; exact Hzs).
  apply (transform_is_lookup_quant fmt st x pre l post i); try assumption.
  intros p Hp.
  assert (Hne : pre <> []) by (intro He; subst pre; destruct Hp).
  destruct (exists_last Hne) as (pre0 & a & Epre). subst pre.
  assert (Ha : num_le x a = false).
  { apply Hlast. rewrite app_length. cbn [List.length].
    rewrite nth_error_app2 by lia.
    replace (List.length pre0 + 1 - 1 - List.length pre0)%nat with 0%nat by lia.
    reflexivity. }
  apply in_app_or in Hp. destruct Hp as [Hp|[Hp|[]]]; [|subst p; exact Ha].
  pose proof (sentinel_sorted zs Hsort) as Hss. rewrite <- Hzs, Hql in Hss.
  rewrite <- app_assoc in Hss. cbn [app] in Hss.
  pose proof (sorted_before _ _ _ _ p Hss Hp) as Hpa. cbv beta in Hpa.
  destruct (num_le x p) eqn:Exp; [|reflexivity].
  rewrite (num_le_trans _ _ _ Exp Hpa) in Ha. discriminate Ha.
Qed.

(* ---- necessity of the +inf sentinel: raw value leaks ------------------------------------ *)
Local Open Scope string_scope.
Definition leaky_state : state :=
  fitted_state Quant (of_list [VNum 1; VNum 2]) (VStr "__NAN__") (VStr "__OTHER__") true OStr
               [(VNum 1, "1.000e+00"); (VNum 2, "2.000e+00")].

Theorem sentinel_necessary :
  coherent [(VNum 1, "1.000e+00"); (VNum 2, "2.000e+00")] leaky_state /\ nan_ok leaky_state /\
  ~ sentinel leaky_state /\ transform_cell leaky_state (VNum 5) = Ok (ORaw (VNum 5)).
Proof.
  split; [split; [|reflexivity]|split; [|split]].
  - unfold leaky_state, fitted_state. cbn [st_order]. apply wf_of_list.
    apply nodupb_NoDup. vm_compute. reflexivity.
  - exists "__NAN__". split; [reflexivity|discriminate].
  - intro Hs. destruct (Hs eq_refl) as [zs Hzs].
    assert (E : quant_leaders leaky_state = [VNum 1; VNum 2]) by (vm_compute; reflexivity).
    rewrite E in Hzs. apply (f_equal (@rev val)) in Hzs. rewrite rev_app_distr in Hzs.
    cbn [rev app] in Hzs. discriminate Hzs.
  - vm_compute. reflexivity.
Qed.
