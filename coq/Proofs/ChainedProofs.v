(* ChainedProofs.v — property C18 on the model of ChainedDiscretizer (Model/Chained.v):
   the GroupedList-driven fit refines the level-by-level leader function [lead]
   (DESIGN Appendix A.7), for hierarchies of any depth/width and columns of any length. *)
From Coq Require Import Permutation Lia SpecFloat.
From AC.Model Require Import Base Float GroupedList Chained.
From AC.Proofs Require Import BaseLemmas GroupedListSpec GroupedListProofs.

(* ---- leaders of a well-formed GroupedList ------------------------------------------------- *)

Lemma abs_in_content : forall g k vs, WF g -> In (k, vs) (abs g) -> In (k, vs) (content g).
Proof.
  intros g k vs Hwf Hi. unfold abs in Hi. apply in_map_iff in Hi.
  destruct Hi as (k' & Heq & Hk). injection Heq as <- <-.
  destruct (WF_key_dget g k' Hwf Hk) as (vs & Hg & _).
  rewrite (get_dget _ _ _ Hg). apply dget_In; exact Hg.
Qed.

Lemma get_group_key : forall g k, WF g -> In k (keys g) -> get_group g k = k.
Proof.
  intros g k Hwf Hk. destruct (WF_key_dget g k Hwf Hk) as (vs & Hg & Hin).
  apply (get_group_spec g k vs k Hwf); [apply dget_In; exact Hg | exact Hin].
Qed.

Lemma get_group_in_values : forall g v, WF g -> In v (values g) ->
  In (get_group g v) (keys g) /\ In v (get g (get_group g v)).
Proof.
  intros g v Hwf Hv. apply In_dvalues in Hv. destruct Hv as (k & vs & Hi & Hin).
  rewrite (get_group_spec g k vs v Hwf Hi Hin).
  pose proof Hwf as (Hk & Hdk & Hkd & Hvals & Hl).
  split.
  - apply Hkd. eapply In_dkeys; exact Hi.
  - rewrite (get_dget g k vs); [exact Hin | apply In_dget; assumption].
Qed.

Lemma get_group_notin : forall g v, ~ In v (values g) -> get_group g v = v.
Proof.
  intros g v Hn. apply get_group_none. intros k vs Hi Hin. apply Hn.
  apply In_dvalues. exists k, vs. split; assumption.
Qed.

Lemma In_values_dec : forall g v, In v (values g) \/ ~ In v (values g).
Proof.
  intros g v. destruct (mem v (values g)) eqn:E.
  - left; apply mem_In; exact E.
  - right; apply mem_false; exact E.
Qed.

Lemma key_in_values : forall g k, WF g -> In k (keys g) -> In k (values g).
Proof. intros g k Hwf Hk. eapply In_get_values. apply WF_key_get; eassumption. Qed.

Lemma get_group_values : forall g v, WF g -> In v (values g) -> In (get_group g v) (values g).
Proof.
  intros g v Hwf Hv. apply key_in_values; [exact Hwf|].
  apply (get_group_in_values g v Hwf Hv).
Qed.

Lemma get_group_idem : forall g v, WF g -> get_group g (get_group g v) = get_group g v.
Proof.
  intros g v Hwf. destruct (In_values_dec g v) as [Hv|Hv].
  - apply get_group_key; [exact Hwf | apply (get_group_in_values g v Hwf Hv)].
  - rewrite (get_group_notin g v Hv). apply get_group_notin; exact Hv.
Qed.

(* a value whose group leader is k, read on abs *)
Lemma get_group_abs : forall g k vs v, WF g -> In (k, vs) (abs g) -> In v vs -> get_group g v = k.
Proof.
  intros g k vs v Hwf Hi Hin. apply (get_group_spec g k vs v Hwf); [|exact Hin].
  apply abs_in_content; assumption.
Qed.

Lemma abs_entry : forall g k, In k (keys g) -> In (k, get g k) (abs g).
Proof. intros g k Hk. unfold abs. apply in_map_iff. exists k. split; auto. Qed.

(* ---- effect of group on the leaders -------------------------------------------------------- *)

Lemma group_leader : forall g d k g', WF g -> group g d k = Ok g' ->
  WF g' /\ Permutation (values g') (values g) /\
  (forall x, get_group g' x = if val_eqb (get_group g x) d then k else get_group g x).
Proof.
  intros g d k g' Hwf Hg. destruct (val_eq_dec d k) as [->|Hdk].
  - unfold group in Hg. unfold is_equal in Hg. rewrite val_eqb_refl in Hg. injection Hg as <-.
    split; [exact Hwf|]. split; [reflexivity|].
    intro x. destruct (val_eqb (get_group g x) k) eqn:E; [|reflexivity].
    apply val_eqb_eq in E. exact E.
  - assert (Hd : In d (keys g) /\ In k (keys g)).
    { unfold group in Hg. unfold is_equal in Hg.
      assert (E : val_eqb d k = false) by (apply val_eqb_neq; exact Hdk). rewrite E in Hg.
      destruct (mem d (keys g)) eqn:E1; cbn [negb] in Hg; [|discriminate].
      destruct (mem k (keys g)) eqn:E2; cbn [negb] in Hg; [|discriminate].
      split; apply mem_In; assumption. }
    destruct Hd as [Hd Hk].
    destruct (group_spec g d k Hwf Hdk Hd Hk) as (g'' & Hg'' & Hwf' & Hkeys & Habs & Hperm).
    rewrite Hg in Hg''. injection Hg'' as <-.
    split; [exact Hwf'|]. split; [exact Hperm|].
    intro x.
    assert (Hmd : s_members (abs g) d = get g d) by (symmetry; apply get_abs; exact Hwf).
    destruct (In_values_dec g x) as [Hx|Hx].
    + destruct (get_group_in_values g x Hwf Hx) as [Hl Hxl].
      set (l := get_group g x) in *.
      destruct (val_eqb l d) eqn:E.
      * apply val_eqb_eq in E.
        apply (get_group_abs g' k (get g d ++ get g k) x Hwf').
        -- rewrite Habs. unfold s_group.
           replace (val_eqb d k) with false by (symmetry; apply val_eqb_neq; exact Hdk).
           apply in_map_iff. exists (k, get g k). split.
           ++ cbn [fst snd]. rewrite val_eqb_refl. rewrite Hmd. reflexivity.
           ++ unfold s_remove. apply filter_In. split; [apply abs_entry; exact Hk|].
              cbn [fst]. apply negb_true_iff. apply val_eqb_neq. exact Hdk.
        -- apply in_or_app. left. rewrite <- E. exact Hxl.
      * apply val_eqb_neq in E.
        destruct (val_eqb k l) eqn:Ekl.
        -- apply val_eqb_eq in Ekl.
           apply (get_group_abs g' l (get g d ++ get g l) x Hwf').
           ++ rewrite Habs. unfold s_group.
              replace (val_eqb d k) with false by (symmetry; apply val_eqb_neq; exact Hdk).
              apply in_map_iff. exists (l, get g l). split.
              ** cbn [fst snd]. rewrite Ekl. rewrite val_eqb_refl. rewrite Hmd. reflexivity.
              ** unfold s_remove. apply filter_In. split; [apply abs_entry; exact Hl|].
                 cbn [fst]. apply negb_true_iff. apply val_eqb_neq. intro; subst; tauto.
           ++ apply in_or_app. right. exact Hxl.
        -- apply (get_group_abs g' l (get g l) x Hwf'); [|exact Hxl].
           rewrite Habs. unfold s_group.
           replace (val_eqb d k) with false by (symmetry; apply val_eqb_neq; exact Hdk).
           apply in_map_iff. exists (l, get g l). split.
           ++ cbn [fst snd]. rewrite Ekl. reflexivity.
           ++ unfold s_remove. apply filter_In. split; [apply abs_entry; exact Hl|].
              cbn [fst]. apply negb_true_iff. apply val_eqb_neq. intro; subst; tauto.
    + assert (Hx' : ~ In x (values g')).
      { intro Hi. apply Hx. eapply Permutation_in; [exact Hperm | exact Hi]. }
      rewrite (get_group_notin g' x Hx'), (get_group_notin g x Hx).
      destruct (val_eqb x d) eqn:E; [|reflexivity].
      apply val_eqb_eq in E. subst x. exfalso. apply Hx. apply key_in_values; assumption.
Qed.

(* append leaves every leader as it is *)
Lemma append_leader : forall g w, WF g -> ~ In w (values g) ->
  WF (append g w) /\ (forall x, get_group (append g w) x = get_group g x) /\
  (forall x, In x (values (append g w)) <-> In x (values g) \/ x = w) /\
  keys (append g w) = keys g ++ [w].
Proof.
  intros g w Hwf Hw. destruct (append_spec g w Hwf Hw) as (Hwf' & Habs & Hvals).
  split; [exact Hwf'|]. split; [|split; [|reflexivity]].
  - intro x. destruct (val_eq_dec x w) as [->|Hxw].
    + rewrite (get_group_notin g w Hw). apply get_group_key; [exact Hwf'|].
      cbn [append keys]. apply in_or_app; right; left; reflexivity.
    + destruct (In_values_dec g x) as [Hx|Hx].
      * destruct (get_group_in_values g x Hwf Hx) as [Hl Hxl].
        apply (get_group_abs (append g w) (get_group g x) (get g (get_group g x)) x Hwf'); [|exact Hxl].
        rewrite Habs. apply in_or_app; left. apply abs_entry; exact Hl.
      * rewrite (get_group_notin g x Hx). apply get_group_notin.
        rewrite Hvals. intro Hi. apply in_app_or in Hi. destruct Hi as [Hi|[Hi|[]]]; [tauto|].
        apply Hxw; symmetry; exact Hi.
  - intro x. rewrite Hvals, in_app_iff. cbn [In]. split; intros [H|H]; auto.
    + destruct H as [H|[]]; auto.
Qed.

(* ---- one level: sequential group calls = simultaneous hand-over to the level's leaders ------ *)

Lemma group_pairs_leader : forall (P : val -> val), (forall y, P (P y) = P y) ->
  forall ds g g', WF g -> group_pairs g (map (fun v => (v, P v)) ds) = Ok g' ->
  WF g' /\ Permutation (values g') (values g) /\
  (forall x, get_group g' x = if mem (get_group g x) ds then P (get_group g x) else get_group g x).
Proof.
  intros P Hidem ds. induction ds as [|d t IH]; intros g g' Hwf Hg.
  - cbn in Hg. injection Hg as <-. split; [exact Hwf|]. split; [reflexivity|]. intro x. reflexivity.
  - cbn [map group_pairs] in Hg. destruct (group g d (P d)) as [g1| |] eqn:E1; cbn [bind] in Hg; try discriminate.
    destruct (group_leader g d (P d) g1 Hwf E1) as (Hwf1 & Hp1 & HL1).
    destruct (IH g1 g' Hwf1 Hg) as (Hwf' & Hp' & HL').
    split; [exact Hwf'|]. split; [etransitivity; eassumption|].
    intro x. rewrite HL', HL1. cbn [mem].
    destruct (val_eqb (get_group g x) d) eqn:E.
    + apply val_eqb_eq in E. rewrite E. cbn [orb]. rewrite Hidem.
      destruct (mem (P d) t); reflexivity.
    + cbn [orb]. reflexivity.
Qed.

Lemma mem_filter : forall (p : val -> bool) c l, mem c (filter p l) = mem c l && p c.
Proof.
  intros p c l. induction l as [|a t IH]; [reflexivity|].
  cbn [filter mem]. destruct (p a) eqn:Ea; cbn [mem]; rewrite IH.
  - destruct (val_eqb c a) eqn:E; cbn [orb]; [|reflexivity].
    apply val_eqb_eq in E. subst. rewrite Ea. reflexivity.
  - destruct (val_eqb c a) eqn:E; cbn [orb]; [|reflexivity].
    apply val_eqb_eq in E. subst. rewrite Ea. rewrite andb_false_r. reflexivity.
Qed.

Lemma mem_to_group : forall mf n col lv c,
  mem c (to_group mf n col lv) = mem c (values lv) && negb (keepb mf n col c).
Proof. intros. unfold to_group. apply mem_filter. Qed.

Lemma hierb_In : forall all lv r, In lv all -> In r (values lv) -> hierb all r = true.
Proof.
  intros all lv r Hl Hr. unfold hierb. apply existsb_exists. exists lv. split; [exact Hl|].
  apply mem_In; exact Hr.
Qed.

Lemma level_step_lead : forall mf n all col0 lv col g col' g',
  WF lv -> In lv all -> WF g -> col = map (cur all (get_group g)) col0 ->
  level_step mf n lv col g = Ok (col', g') ->
  WF g' /\ Permutation (values g') (values g) /\
  (forall x, get_group g' x = lead_step mf n all col0 lv (get_group g) x) /\
  col' = map (cur all (get_group g')) col0.
Proof.
  intros mf n all col0 lv col g col' g' Hlv Hin Hwf Hcol Hs.
  unfold level_step in Hs.
  set (tg := to_group mf n col lv) in *.
  destruct (group_pairs g (map (fun v => (v, get_group lv v)) tg)) as [g1| |] eqn:E; cbn [bind] in Hs; try discriminate.
  injection Hs as <- <-.
  destruct (group_pairs_leader (get_group lv) (fun y => get_group_idem lv y Hlv) tg g g1 Hwf E)
    as (Hwf1 & Hp1 & HL1).
  assert (HL : forall x, get_group g1 x = lead_step mf n all col0 lv (get_group g) x).
  { intro x. rewrite HL1. unfold lead_step. rewrite <- Hcol. reflexivity. }
  split; [exact Hwf1|]. split; [exact Hp1|]. split; [exact HL|].
  rewrite Hcol at 1. rewrite map_map. apply map_ext. intro r.
  unfold cur. destruct (hierb all r) eqn:Eh.
  - rewrite HL1. reflexivity.
  - destruct (mem r tg) eqn:Em; [|reflexivity].
    exfalso. unfold tg in Em. rewrite mem_to_group in Em. apply andb_true_iff in Em.
    destruct Em as [Em _]. apply mem_In in Em.
    rewrite (hierb_In all lv r Hin Em) in Eh. discriminate.
Qed.

Lemma lead_step_ext : forall mf n all col0 lv L1 L2, (forall y, L1 y = L2 y) ->
  forall x, lead_step mf n all col0 lv L1 x = lead_step mf n all col0 lv L2 x.
Proof.
  intros mf n all col0 lv L1 L2 H x. unfold lead_step.
  replace (map (cur all L1) col0) with (map (cur all L2) col0).
  - rewrite H. reflexivity.
  - apply map_ext. intro r. unfold cur. rewrite H. reflexivity.
Qed.

Lemma lead_ext : forall mf n all col0 lvs L1 L2, (forall y, L1 y = L2 y) ->
  forall x, lead mf n all col0 lvs L1 x = lead mf n all col0 lvs L2 x.
Proof.
  intros mf n all col0 lvs. induction lvs as [|lv t IH]; intros L1 L2 H x; cbn [lead].
  - apply H.
  - apply IH. apply lead_step_ext. exact H.
Qed.

Lemma fit_levels_lead : forall mf n all col0 lvs col g col' g',
  (forall lv, In lv lvs -> WF lv /\ In lv all) -> WF g -> col = map (cur all (get_group g)) col0 ->
  fit_levels mf n lvs col g = Ok (col', g') ->
  WF g' /\ Permutation (values g') (values g) /\
  (forall x, get_group g' x = lead mf n all col0 lvs (get_group g) x).
Proof.
  intros mf n all col0 lvs. induction lvs as [|lv t IH]; intros col g col' g' Hl Hwf Hcol Hf.
  - cbn in Hf. injection Hf as <- <-. split; [exact Hwf|]. split; [reflexivity|]. intro x; reflexivity.
  - cbn [fit_levels] in Hf.
    destruct (level_step mf n lv col g) as [[c1 g1]| |] eqn:E; cbn [bind fst snd] in Hf; try discriminate.
    destruct (Hl lv (or_introl eq_refl)) as [Hwlv Hin].
    destruct (level_step_lead mf n all col0 lv col g c1 g1 Hwlv Hin Hwf Hcol E) as (Hwf1 & Hp1 & HL1 & Hc1).
    destruct (IH c1 g1 col' g' (fun l H => Hl l (or_intror H)) Hwf1 Hc1 Hf) as (Hwf' & Hp' & HL').
    split; [exact Hwf'|]. split; [etransitivity; eassumption|].
    intro x. rewrite HL'. cbn [lead]. apply lead_ext. exact HL1.
Qed.

(* ---- facts on the reference leader function -------------------------------------------------- *)

Lemma lead_app : forall mf n all col0 a b L,
  lead mf n all col0 (a ++ b) L = lead mf n all col0 b (lead mf n all col0 a L).
Proof.
  intros mf n all col0 a. induction a as [|lv t IH]; intros b L; cbn [app lead]; [reflexivity|].
  apply IH.
Qed.

Lemma lead_step_cases : forall mf n all col0 lv L x,
  let c := L x in
  (lead_step mf n all col0 lv L x = c /\
   (~ In c (values lv) \/ keepb mf n (map (cur all L) col0) c = true)) \/
  (lead_step mf n all col0 lv L x = get_group lv c /\ In c (values lv) /\
   keepb mf n (map (cur all L) col0) c = false).
Proof.
  intros mf n all col0 lv L x c. unfold lead_step. fold c. rewrite mem_to_group.
  destruct (mem c (values lv)) eqn:Em; cbn [andb].
  - destruct (keepb mf n (map (cur all L) col0) c) eqn:Ek; cbn [negb].
    + left. split; [reflexivity | right; reflexivity].
    + right. split; [reflexivity|]. split; [apply mem_In; exact Em | reflexivity].
  - left. split; [reflexivity|]. left. apply mem_false; exact Em.
Qed.

(* leaders only ever move to ancestors *)
Lemma lead_climbs : forall mf n all col0 lvs L x,
  climbs lvs (L x) (lead mf n all col0 lvs L x).
Proof.
  intros mf n all col0 lvs. induction lvs as [|lv t IH]; intros L x; cbn [lead climbs]; [reflexivity|].
  specialize (IH (lead_step mf n all col0 lv L) x).
  destruct (lead_step_cases mf n all col0 lv L x) as [[E _]|[E [Hin _]]]; rewrite E in IH.
  - left; exact IH.
  - right; split; [exact Hin | exact IH].
Qed.

Lemma lead_fix : forall mf n all col0 lvs L x,
  (forall lv, In lv lvs -> ~ In (L x) (values lv)) -> lead mf n all col0 lvs L x = L x.
Proof.
  intros mf n all col0 lvs. induction lvs as [|lv t IH]; intros L x H; cbn [lead]; [reflexivity|].
  assert (E : lead_step mf n all col0 lv L x = L x).
  { destruct (lead_step_cases mf n all col0 lv L x) as [[E _]|[_ [Hin _]]]; [exact E|].
    exfalso. apply (H lv (or_introl eq_refl)). exact Hin. }
  rewrite (IH (lead_step mf n all col0 lv L) x).
  - exact E.
  - intros lv' Hl. rewrite E. apply H. right; exact Hl.
Qed.

Lemma climbs_target : forall lvs c a, (forall lv, In lv lvs -> WF lv) -> climbs lvs c a ->
  a = c \/ exists lv, In lv lvs /\ In a (values lv).
Proof.
  induction lvs as [|lv t IH]; intros c a Hwf Hc; cbn [climbs] in Hc.
  - left; symmetry; exact Hc.
  - destruct Hc as [Hc|[Hin Hc]].
    + destruct (IH c a (fun l H => Hwf l (or_intror H)) Hc) as [H|(l & Hl & Ha)]; [left; exact H|].
      right. exists l. split; [right; exact Hl | exact Ha].
    + destruct (IH _ a (fun l H => Hwf l (or_intror H)) Hc) as [H|(l & Hl & Ha)].
      * right. exists lv. split; [left; reflexivity|]. rewrite H.
        apply get_group_values; [apply Hwf; left; reflexivity | exact Hin].
      * right. exists l. split; [right; exact Hl | exact Ha].
Qed.

(* a value that is still its own leader when level [lv] is reached, and belongs to no higher
   level, keeps its own modality iff it is no proper member of [lv] or its current mass (rows
   currently led by it) is frequent enough *)
Lemma lead_rule_level : forall mf n all col0 pre lv post L x,
  (forall lv', In lv' post -> WF lv') ->
  lead mf n all col0 pre L x = x ->
  (forall lv', In lv' post -> ~ In x (values lv')) ->
  (lead mf n all col0 (pre ++ lv :: post) L x = x <->
   (~ In x (values lv) \/ get_group lv x = x \/
    keepb mf n (map (cur all (lead mf n all col0 pre L)) col0) x = true)).
Proof.
  intros mf n all col0 pre lv post L x Hwf Hk Hpost.
  rewrite lead_app. cbn [lead].
  set (Lk := lead mf n all col0 pre L) in *.
  set (L1 := lead_step mf n all col0 lv Lk).
  destruct (lead_step_cases mf n all col0 lv Lk x) as [[E Hc]|[E [Hin Hkeep]]];
    fold L1 in E; rewrite Hk in *.
  - assert (Hfix : lead mf n all col0 post L1 x = x).
    { rewrite lead_fix; [exact E|]. intros l Hl. rewrite E. apply Hpost; exact Hl. }
    split; [intros _|intros _; exact Hfix]. destruct Hc as [Hc|Hc]; auto.
  - destruct (val_eq_dec (get_group lv x) x) as [Hp|Hp].
    + assert (Hfix : lead mf n all col0 post L1 x = x).
      { rewrite lead_fix; [rewrite E; exact Hp|]. intros l Hl. rewrite E, Hp. apply Hpost; exact Hl. }
      split; [intros _; auto | intros _; exact Hfix].
    + split.
      * intro Hx. exfalso. pose proof (lead_climbs mf n all col0 post L1 x) as Hcl.
        rewrite Hx, E in Hcl.
        destruct (climbs_target post _ _ Hwf Hcl) as [H|(l & Hl & Ha)].
        -- apply Hp. symmetry; exact H.
        -- apply (Hpost l Hl Ha).
      * intros [H|[H|H]]; [tauto | tauto | rewrite H in Hkeep; discriminate].
Qed.

(* ---- __init__ : levels, known_values, initial order ------------------------------------------- *)

Lemma mapM_of_dict_wf : forall levels lvs, (forall d, In d levels -> NoDup (dkeys d)) ->
  mapM of_dict levels = Ok lvs -> forall lv, In lv lvs -> WF lv.
Proof.
  induction levels as [|d t IH]; intros lvs Hnd Hm lv Hin; cbn [mapM] in Hm.
  - injection Hm as <-. destruct Hin.
  - destruct (of_dict d) as [g| |] eqn:Eg; cbn [bind] in Hm; try discriminate.
    destruct (mapM of_dict t) as [r| |] eqn:Er; cbn [bind] in Hm; try discriminate.
    injection Hm as <-. destruct Hin as [<-|Hin].
    + apply (wf_of_dict d g); [apply Hnd; left; reflexivity | exact Eg].
    + apply (IH r (fun d' H => Hnd d' (or_intror H)) eq_refl lv Hin).
Qed.

Lemma In_insert_after : forall i x l y, In y (insert_after i x l) <-> In y l \/ y = x.
Proof.
  intros i x l y. unfold insert_after. rewrite <- (firstn_skipn (S i) l) at 3.
  rewrite !in_app_iff. cbn [In]. split.
  - intros [H|[H|H]]; auto.
  - intros [[H|H]|H]; auto.
Qed.

Lemma kv_group_spec : forall known ng nvs k', kv_group known (ng, nvs) = Ok k' ->
  (forall y, In y k' <-> In y known \/ y = ng) /\ (forall v, In v nvs -> In v known \/ v = ng).
Proof.
  intros known ng nvs k' H. unfold kv_group in H. cbn [fst snd] in H.
  destruct (filter (fun v => negb (mem v known) && negb (py_eq v ng)) nvs) as [|u0 ut] eqn:Eu; [|discriminate].
  destruct (last_opt _) as [h|]; [|discriminate].
  destruct (index_of h known) as [i|]; [|discriminate].
  injection H as <-. split.
  - intro y. apply In_insert_after.
  - intros v Hv. destruct (mem v known) eqn:Em; [left; apply mem_In; exact Em|].
    destruct (py_eq v ng) eqn:Ep; [right; apply py_eq_true; exact Ep|].
    exfalso. assert (Hin : In v (filter (fun v => negb (mem v known) && negb (py_eq v ng)) nvs)).
    { apply filter_In. split; [exact Hv|]. rewrite Em, Ep. reflexivity. }
    rewrite Eu in Hin. destruct Hin.
Qed.

Lemma kv_groups_spec : forall grps known k', kv_groups known grps = Ok k' ->
  (forall y, In y known -> In y k') /\
  (forall ng nvs, In (ng, nvs) grps -> In ng k' /\ forall v, In v nvs -> In v k') /\
  (forall y, In y k' -> In y known \/ In y (dkeys grps)).
Proof.
  induction grps as [|[ng nvs] t IH]; intros known k' H; cbn [kv_groups] in H.
  - injection H as <-. split; [auto|]. split; [intros ? ? []|auto].
  - destruct (kv_group known (ng, nvs)) as [k1| |] eqn:E1; cbn [bind] in H; try discriminate.
    destruct (kv_group_spec known ng nvs k1 E1) as [Hk1 Hv1].
    destruct (IH k1 k' H) as (I1 & I2 & I3).
    split; [|split].
    + intros y Hy. apply I1. apply Hk1. left; exact Hy.
    + intros ng' nvs' [Heq|Hin].
      * injection Heq as <- <-. split.
        -- apply I1. apply Hk1. right; reflexivity.
        -- intros v Hv. apply I1. apply Hk1. destruct (Hv1 v Hv); auto.
      * apply I2; exact Hin.
    + intros y Hy. destruct (I3 y Hy) as [Hy1|Hy1].
      * apply Hk1 in Hy1. destruct Hy1 as [Hy1| ->]; [left; exact Hy1 | right; left; reflexivity].
      * right. right. exact Hy1.
Qed.

Lemma kv_levels_spec : forall lvs known k', (forall lv, In lv lvs -> WF lv) ->
  kv_levels known lvs = Ok k' ->
  (forall y, In y known -> In y k') /\
  (forall lv v, In lv lvs -> In v (values lv) -> In v k') /\
  (forall y, In y k' -> In y known \/ exists lv, In lv lvs /\ In y (values lv)).
Proof.
  induction lvs as [|lv t IH]; intros known k' Hwf H; cbn [kv_levels] in H.
  - injection H as <-. split; [auto|]. split; [intros ? ? []|auto].
  - destruct (kv_groups known (content lv)) as [k1| |] eqn:E1; cbn [bind] in H; try discriminate.
    destruct (kv_groups_spec _ _ _ E1) as (G1 & G2 & G3).
    destruct (IH k1 k' (fun l Hl => Hwf l (or_intror Hl)) H) as (I1 & I2 & I3).
    split; [|split].
    + intros y Hy. apply I1, G1, Hy.
    + intros lv' v [<-|Hl] Hv.
      * apply In_dvalues in Hv. destruct Hv as (k & vs & Hi & Hv).
        apply I1. apply (G2 k vs Hi). exact Hv.
      * apply (I2 lv' v Hl Hv).
    + intros y Hy. destruct (I3 y Hy) as [Hy1|(l & Hl & Hy1)].
      * destruct (G3 y Hy1) as [Hy2|Hy2]; [left; exact Hy2|].
        right. exists lv. split; [left; reflexivity|].
        pose proof (Hwf lv (or_introl eq_refl)) as Hw.
        apply key_in_values; [exact Hw|]. destruct Hw as (_ & _ & Hkd & _). apply Hkd. exact Hy2.
      * right. exists l. split; [right; exact Hl | exact Hy1].
Qed.

Lemma known_values_spec : forall lvs known, (forall lv, In lv lvs -> WF lv) ->
  known_values lvs = Ok known ->
  (forall lv v, In lv lvs -> In v (values lv) -> In v known) /\
  (forall y, In y known -> exists lv, In lv lvs /\ In y (values lv)).
Proof.
  intros [|lv0 rest] known Hwf H; cbn [known_values] in H; [discriminate|].
  destruct (kv_levels_spec rest (values lv0) known (fun l Hl => Hwf l (or_intror Hl)) H) as (I1 & I2 & I3).
  split.
  - intros lv v [<-|Hl] Hv; [apply I1; exact Hv | apply (I2 lv v Hl Hv)].
  - intros y Hy. destruct (I3 y Hy) as [Hy1|(l & Hl & Hy1)].
    + exists lv0. split; [left; reflexivity | exact Hy1].
    + exists l. split; [right; exact Hl | exact Hy1].
Qed.

Lemma fold_append_inv : forall l g, WF g -> (forall x, In x (keys g) <-> In x (values g)) ->
  let g' := fold_left (fun g v => if mem v (values g) then g else append g v) l g in
  WF g' /\ (forall x, In x (keys g') <-> In x (values g')) /\
  (forall x, In x (values g') <-> In x (values g) \/ In x l).
Proof.
  induction l as [|v t IH]; intros g Hwf Hkv; cbn [fold_left].
  - split; [exact Hwf|]. split; [exact Hkv|]. intro x. cbn [In]. tauto.
  - destruct (mem v (values g)) eqn:Em.
    + destruct (IH g Hwf Hkv) as (I1 & I2 & I3). split; [exact I1|]. split; [exact I2|].
      intro x. rewrite I3. cbn [In]. apply mem_In in Em. split; intros [H|H]; auto.
      destruct H as [<-|H]; auto.
    + apply mem_false in Em. destruct (append_leader g v Hwf Em) as (A1 & _ & A3 & A4).
      assert (Hkv' : forall x, In x (keys (append g v)) <-> In x (values (append g v))).
      { intro x. rewrite A4, A3, in_app_iff, Hkv. cbn [In]. split; intros [H|H]; auto.
        destruct H as [H|[]]; auto. }
      destruct (IH (append g v) A1 Hkv') as (I1 & I2 & I3). split; [exact I1|]. split; [exact I2|].
      intro x. rewrite I3, A3. cbn [In]. split.
      * intros [[H|H]|H]; auto.
      * intros [H|[H|H]]; auto.
Qed.

Lemma init_order_spec : forall known o, ~ In VNaN known -> init_order known = Ok o ->
  WF o /\ (forall v, In v (values o) <-> In v known) /\ (forall v, get_group o v = v).
Proof.
  intros known o Hnan H. unfold init_order in H.
  set (ga := fold_left (fun g v => if mem v (values g) then g else append g v) known (of_list [])) in *.
  assert (H0 : WF (of_list [])) by (apply wf_of_list; constructor).
  destruct (fold_append_inv known (of_list []) H0 (fun x => conj (fun h => h) (fun h => h))) as (Wa & Ka & Va).
  fold ga in Wa, Ka, Va.
  assert (Va' : forall x, In x (values ga) <-> In x known).
  { intro x. rewrite Va. cbn. tauto. }
  destruct (sort_by_spec ga known Wa) as (o' & Ho' & Wo & Ao & Po).
  - intros x Hx. apply Ka, Va'. exact Hx.
  - intros x Hx. apply Va', Ka. exact Hx.
  - intro Hi. apply Hnan. apply Va', Ka. exact Hi.
  - rewrite H in Ho'. injection Ho' as <-.
    assert (Vo : forall v, In v (values o) <-> In v known).
    { intro v. rewrite <- Va'. split; intro Hv.
      - eapply Permutation_in; [exact Po | exact Hv].
      - eapply Permutation_in; [apply Permutation_sym; exact Po | exact Hv]. }
    split; [exact Wo|]. split; [exact Vo|].
    intro v. destruct (In_values_dec o v) as [Hv|Hv]; [|apply get_group_notin; exact Hv].
    apply get_group_key; [exact Wo|].
    rewrite <- abs_keys, Ao. cbn [s_step]. unfold s_reorder. rewrite map_map. cbn [fst]. rewrite map_id.
    change (nodup_keep_first known) with (keep_first known []).
    apply In_keep_first. right. apply Vo. exact Hv.
Qed.

(* ---- _prepare_data -------------------------------------------------------------------------- *)

Lemma NoDup_uniq_acc : forall l acc, NoDup acc -> NoDup (uniq_acc l acc).
Proof.
  induction l as [|x t IH]; intros acc H; cbn [uniq_acc]; [exact H|].
  destruct (mem x acc) eqn:E; apply IH; [exact H|].
  apply NoDup_snoc; [exact H | apply mem_false; exact E].
Qed.

Lemma In_uniq_acc : forall l acc x, In x (uniq_acc l acc) <-> In x acc \/ In x l.
Proof.
  induction l as [|y t IH]; intros acc x; cbn [uniq_acc].
  - cbn [In]. tauto.
  - destruct (mem y acc) eqn:E; rewrite IH; cbn [In].
    + apply mem_In in E. split; intros [H|H]; auto. destruct H as [<-|H]; auto.
    + rewrite in_app_iff. cbn [In]. tauto.
Qed.

Lemma In_uniq : forall l x, In x (uniq l) <-> In x l.
Proof. intros l x. unfold uniq. rewrite In_uniq_acc. cbn [In]. tauto. Qed.

Lemma NoDup_uniq : forall l, NoDup (uniq l).
Proof. intro l. apply NoDup_uniq_acc. constructor. Qed.

(* state of the order while unknown values (the set U) are being attached to str_nan *)
Definition Prep (known : list val) (U : val -> Prop) (g : gl) : Prop :=
  WF g /\
  (forall v, In v known -> In v (values g) /\ get_group g v = v) /\
  (forall v, In v (values g) -> In v known \/ v = nan_s \/ U v) /\
  (forall u, U u -> In u (values g) /\ get_group g u = nan_s) /\
  (In nan_s (values g) -> get_group g nan_s = nan_s).

Lemma Prep_ext : forall known (U U' : val -> Prop) g, (forall x, U x <-> U' x) ->
  Prep known U g -> Prep known U' g.
Proof.
  intros known U U' g HU (P1 & P2 & P3 & P4 & P5). split; [exact P1|]. split; [exact P2|].
  split; [|split; [|exact P5]].
  - intros v Hv. destruct (P3 v Hv) as [H|[H|H]]; auto. right; right; apply HU; exact H.
  - intros u Hu. apply P4. apply HU; exact Hu.
Qed.

Lemma Prep_nan_key : forall known U g, Prep known U g -> In nan_s (values g) -> In nan_s (keys g).
Proof.
  intros known U g (P1 & _ & _ & _ & P5) Hn.
  rewrite <- (P5 Hn). apply (get_group_in_values g nan_s P1 Hn).
Qed.

(* make sure str_nan is a modality of its own (appended when missing) *)
Lemma with_nan : forall g, WF g -> (In nan_s (values g) -> In nan_s (keys g)) ->
  let g2 := if mem nan_s (keys g) then g else append g nan_s in
  WF g2 /\ In nan_s (keys g2) /\ (forall x, get_group g2 x = get_group g x) /\
  (forall x, In x (values g2) <-> In x (values g) \/ x = nan_s).
Proof.
  intros g P1 Hk. destruct (mem nan_s (keys g)) eqn:Em; cbn zeta.
  - apply mem_In in Em. split; [exact P1|]. split; [exact Em|]. split; [reflexivity|].
    intro x. split; [auto|]. intros [H| ->]; [exact H|]. apply key_in_values; assumption.
  - apply mem_false in Em.
    assert (Hnv : ~ In nan_s (values g)) by (intro Hn; apply Em, Hk, Hn).
    destruct (append_leader g nan_s P1 Hnv) as (A1 & A2 & A3 & A4).
    split; [exact A1|]. split; [|split; [exact A2 | exact A3]].
    rewrite A4. apply in_or_app. right. left. reflexivity.
Qed.

Lemma Prep_with_nan : forall known U g, Prep known U g ->
  let g2 := if mem nan_s (keys g) then g else append g nan_s in
  Prep known U g2 /\ In nan_s (keys g2).
Proof.
  intros known U g HP. pose proof HP as (P1 & P2 & P3 & P4 & P5).
  destruct (with_nan g P1 (Prep_nan_key known U g HP)) as (W1 & W2 & W3 & W4).
  cbn zeta. split; [|exact W2].
  split; [exact W1|]. split; [|split; [|split]].
  - intros v Hv. rewrite W3, W4. destruct (P2 v Hv). auto.
  - intros v Hv. apply W4 in Hv. destruct Hv as [Hv|Hv]; auto.
  - intros u Hu. rewrite W3, W4. destruct (P4 u Hu). auto.
  - intros _. apply get_group_key; assumption.
Qed.

Lemma add_unknown_Prep : forall known (U : val -> Prop) g u g', Prep known U g ->
  ~ In u known -> u <> nan_s -> ~ U u -> ~ In nan_s known ->
  add_unknown g u = Ok g' -> Prep known (fun x => x = u \/ U x) g'.
Proof.
  intros known U g u g' HP Hnk Hnn HnU Hnank H.
  pose proof HP as (P1 & P2 & P3 & P4 & P5).
  assert (Hu : ~ In u (values g)).
  { intro Hi. destruct (P3 u Hi) as [Hk|[Hk|Hk]]; tauto. }
  destruct (append_leader g u P1 Hu) as (A1 & A2 & A3 & A4).
  assert (Hk1 : In nan_s (values (append g u)) -> In nan_s (keys (append g u))).
  { intro Hn. apply A3 in Hn. destruct Hn as [Hn|Hn]; [|exfalso; apply Hnn; symmetry; exact Hn].
    rewrite A4. apply in_or_app. left. eapply Prep_nan_key; eassumption. }
  destruct (with_nan (append g u) A1 Hk1) as (W1 & W2 & W3 & W4).
  unfold add_unknown in H.
  set (g2 := if mem nan_s (keys (append g u)) then append g u else append (append g u) nan_s) in *.
  destruct (group_leader g2 u nan_s g' W1 H) as (G1 & G2 & G3).
  assert (V' : forall x, In x (values g') <-> In x (values g) \/ x = u \/ x = nan_s).
  { intro x. split; intro Hx.
    - apply (Permutation_in _ G2) in Hx. apply W4 in Hx. destruct Hx as [Hx|Hx]; auto.
      apply A3 in Hx. destruct Hx as [Hx|Hx]; auto.
    - apply (Permutation_in _ (Permutation_sym G2)). apply W4.
      destruct Hx as [Hx|[Hx|Hx]]; auto; left; apply A3; auto. }
  assert (L' : forall x, get_group g' x = if val_eqb (get_group g x) u then nan_s else get_group g x).
  { intro x. rewrite G3, W3, A2. reflexivity. }
  assert (Hneq : forall a, a <> u -> val_eqb a u = false) by (intros a Ha; apply val_eqb_neq; exact Ha).
  split; [exact G1|]. split; [|split; [|split]].
  - intros v Hv. destruct (P2 v Hv) as [Hv1 Hv2]. split; [apply V'; auto|].
    rewrite L', Hv2, Hneq; [reflexivity|]. intro; subst; tauto.
  - intros v Hv. apply V' in Hv. destruct Hv as [Hv|[Hv|Hv]]; auto.
    destruct (P3 v Hv) as [Hk|[Hk|Hk]]; auto.
  - intros w [->|Hw].
    + split; [apply V'; auto|]. rewrite L', (get_group_notin g u Hu), val_eqb_refl. reflexivity.
    + destruct (P4 w Hw) as [Hw1 Hw2]. split; [apply V'; auto|].
      rewrite L', Hw2, Hneq; [reflexivity|]. exact (fun e => Hnn (eq_sym e)).
  - intros _. rewrite G3, (get_group_key g2 nan_s W1 W2), Hneq; [reflexivity|].
    exact (fun e => Hnn (eq_sym e)).
Qed.

Lemma drop_unknown_Prep : forall known us (U : val -> Prop) g g', Prep known U g ->
  ~ In nan_s known -> NoDup us ->
  (forall u, In u us -> ~ In u known /\ u <> nan_s /\ ~ U u) ->
  drop_unknown g us = Ok g' -> Prep known (fun x => In x us \/ U x) g'.
Proof.
  intros known us. induction us as [|u t IH]; intros U g g' HP Hnank Hnd Hus H; cbn [drop_unknown] in H.
  - injection H as <-. eapply Prep_ext; [|exact HP]. intro x. cbn [In]. tauto.
  - destruct (add_unknown g u) as [g1| |] eqn:E1; cbn [bind] in H; try discriminate.
    destruct (Hus u (or_introl eq_refl)) as (H1 & H2 & H3).
    pose proof (add_unknown_Prep known U g u g1 HP H1 H2 H3 Hnank E1) as HP1.
    inversion Hnd as [|? ? Hnu Hnd']; subst.
    assert (Hus' : forall w, In w t -> ~ In w known /\ w <> nan_s /\ ~ (w = u \/ U w)).
    { intros w Hw. destruct (Hus w (or_intror Hw)) as (K1 & K2 & K3). split; [exact K1|]. split; [exact K2|].
      intros [->|Hc]; tauto. }
    pose proof (IH _ g1 g' HP1 Hnank Hnd' Hus' H) as HP'.
    eapply Prep_ext; [|exact HP']. intro x. cbn [In]. split.
    + intros [Hx|[Hx|Hx]]; auto.
    + intros [[Hx|Hx]|Hx]; auto.
Qed.

Lemma Prep_maybe_nan : forall known U g (b : bool), Prep known U g ->
  Prep known U (if b && negb (mem nan_s (keys g)) then append g nan_s else g).
Proof.
  intros known U g b HP. destruct b; cbn [andb]; [|exact HP].
  pose proof (Prep_with_nan known U g HP) as [H _]. cbn zeta in H.
  destruct (mem nan_s (keys g)); cbn [negb]; exact H.
Qed.

Lemma unknown_values_spec : forall known filled u, In u (unknown_values known filled) <->
  In u filled /\ ~ In u known /\ u <> nan_s.
Proof.
  intros known filled u. unfold unknown_values. rewrite filter_In, In_uniq, andb_true_iff, !negb_true_iff.
  rewrite mem_false. split.
  - intros (H1 & H2 & H3). split; [exact H1|]. split; [exact H2|].
    intro; subst. cbn in H3. discriminate.
  - intros (H1 & H2 & H3). split; [exact H1|]. split; [exact H2|].
    destruct (py_eq u nan_s) eqn:E; [|reflexivity]. apply py_eq_true in E. tauto.
Qed.

Lemma prepare_spec : forall c drop filled g,
  WF (c_order c) -> (forall v, In v (values (c_order c)) <-> In v (c_known c)) ->
  (forall v, get_group (c_order c) v = v) -> ~ In nan_s (c_known c) ->
  prepare c drop filled = Ok g ->
  Prep (c_known c) (fun x => In x (unknown_values (c_known c) filled)) g /\
  (unknown_values (c_known c) filled <> [] -> drop = true) /\
  (forall r, In r filled -> In r (values g)).
Proof.
  intros c drop filled g Wo Vo Lo Hnank H. unfold prepare in H.
  set (known := c_known c) in *. set (us := unknown_values known filled) in *.
  assert (HP0 : Prep known (fun _ => False) (c_order c)).
  { split; [exact Wo|]. split; [|split; [|split]].
    - intros v Hv. split; [apply Vo; exact Hv | apply Lo].
    - intros v Hv. left. apply Vo; exact Hv.
    - intros u [].
    - intros _. apply Lo. }
  assert (Hg1 : exists g1,
             match us with [] => Ok (c_order c) | _ :: _ => if drop then drop_unknown (c_order c) us else AssertErr end = Ok g1
             /\ Prep known (fun x => In x us) g1 /\ (us <> [] -> drop = true)).
  { destruct us as [|u0 ut] eqn:Eus.
    - exists (c_order c). split; [reflexivity|]. split; [|intro Hc; exfalso; apply Hc; reflexivity].
      eapply Prep_ext; [|exact HP0]. intro x. cbn [In]. tauto.
    - destruct drop; [|cbn [bind] in H; discriminate].
      destruct (drop_unknown (c_order c) (u0 :: ut)) as [g1| |] eqn:E1; cbn [bind] in H; try discriminate.
      exists g1. split; [reflexivity|]. split; [|reflexivity].
      assert (Hnd : NoDup (u0 :: ut)).
      { rewrite <- Eus. unfold us, unknown_values. apply NoDup_filter. apply NoDup_uniq. }
      assert (Hus : forall u, In u (u0 :: ut) -> ~ In u known /\ u <> nan_s /\ ~ False).
      { intros u Hu. rewrite <- Eus in Hu. apply unknown_values_spec in Hu. tauto. }
      pose proof (drop_unknown_Prep known (u0 :: ut) (fun _ => False) _ g1 HP0 Hnank Hnd Hus E1) as HP1.
      eapply Prep_ext; [|exact HP1]. intro x. tauto. }
  destruct Hg1 as (g1 & E1 & HP1 & Hdrop). rewrite E1 in H. cbn [bind] in H.
  pose proof (Prep_maybe_nan known (fun x => In x us) g1 (mem nan_s filled) HP1) as HP2.
  set (g2 := if mem nan_s filled && negb (mem nan_s (keys g1)) then append g1 nan_s else g1) in *.
  destruct (forallb (fun v => mem v (values g2)) (uniq filled)) eqn:Ef; [|discriminate].
  injection H as <-. split; [exact HP2|]. split; [exact Hdrop|].
  intros r Hr. rewrite forallb_forall in Ef. apply mem_In. apply Ef. apply In_uniq. exact Hr.
Qed.

(* ---- the whole fit refines the level-by-level rule ------------------------------------------- *)

(* leaders before the level loop: unknown values (policy 'drop') are led by str_nan *)
Definition lead0 (unk : list val) : val -> val := fun y => if mem y unk then nan_s else y.

Definition no_nan_levels (lvs : list gl) : Prop :=
  forall lv, In lv lvs -> ~ In nan_s (values lv) /\ ~ In VNaN (values lv).

Theorem fit_refines : forall levels col mfd drop g lpv,
  (forall d, In d levels -> NoDup (dkeys d)) ->
  fit levels col mfd drop = Ok (Fitted g lpv) ->
  exists c, init levels = Ok c /\
    (no_nan_levels (c_levels c) ->
     let mf := f_of_dyadic (fst mfd) (snd mfd) in
     let n := Z.of_nat (List.length col) in
     let filled := fillna col in
     let unk := unknown_values (c_known c) filled in
     WF g /\ lpv = labels_per_values g /\
     (forall v, In v (c_known c) -> In v (values g)) /\
     (forall r, In r filled -> In r (values g)) /\
     (forall v, In v (values g) -> In v (c_known c) \/ v = nan_s \/ In v unk) /\
     (unk <> [] -> drop = true) /\
     (forall x, get_group g x = lead mf n (c_levels c) filled (c_levels c) (lead0 unk) x)).
Proof.
  intros levels col mfd drop g lpv Hnd Hfit. unfold fit in Hfit.
  destruct (init levels) as [c| |] eqn:Ei; cbn [bind] in Hfit; try discriminate.
  exists c. split; [reflexivity|]. intros Hnn. cbn zeta.
  destruct (feature_dropped _ col); [discriminate|].
  destruct (prepare c drop (fillna col)) as [gp| |] eqn:Ep; cbn [bind] in Hfit; try discriminate.
  destruct (fit_levels _ _ (c_levels c) (fillna col) gp) as [[cf gf]| |] eqn:Ef; cbn [bind fst snd] in Hfit; try discriminate.
  injection Hfit as <- <-.
  (* init *)
  unfold init in Ei.
  destruct (mapM of_dict levels) as [lvs| |] eqn:Em; cbn [bind] in Ei; try discriminate.
  destruct (known_values lvs) as [known| |] eqn:Ek; cbn [bind] in Ei; try discriminate.
  destruct (init_order known) as [o| |] eqn:Eo; cbn [bind] in Ei; try discriminate.
  injection Ei as <-. cbn [c_levels c_known c_order] in *.
  pose proof (mapM_of_dict_wf levels lvs Hnd Em) as Hwl.
  destruct (known_values_spec lvs known Hwl Ek) as [K1 K2].
  assert (Hnank : ~ In nan_s known).
  { intro Hi. destruct (K2 _ Hi) as (l & Hl & Hv). apply (proj1 (Hnn l Hl)). exact Hv. }
  assert (HnaN : ~ In VNaN known).
  { intro Hi. destruct (K2 _ Hi) as (l & Hl & Hv). apply (proj2 (Hnn l Hl)). exact Hv. }
  destruct (init_order_spec known o HnaN Eo) as (Wo & Vo & Lo).
  destruct (prepare_spec (mkChained lvs known o) drop (fillna col) gp Wo Vo Lo Hnank Ep) as (HP & Hdrop & Hrows).
  cbn [c_known] in *.
  set (unk := unknown_values known (fillna col)) in *.
  pose proof HP as (P1 & P2 & P3 & P4 & P5).
  assert (HL0 : forall y, get_group gp y = lead0 unk y).
  { intro y. unfold lead0. destruct (mem y unk) eqn:Emu.
    - apply mem_In in Emu. apply (P4 y Emu).
    - apply mem_false in Emu. destruct (In_values_dec gp y) as [Hy|Hy]; [|apply get_group_notin; exact Hy].
      destruct (P3 y Hy) as [Hk|[->|Hk]]; [apply (P2 y Hk) | apply P5; exact Hy | tauto]. }
  assert (Hcol : fillna col = map (cur lvs (get_group gp)) (fillna col)).
  { rewrite <- (map_id (fillna col)) at 1. apply map_ext_in. intros r Hr. unfold cur.
    destruct (hierb lvs r) eqn:Eh; [|reflexivity].
    unfold hierb in Eh. apply existsb_exists in Eh. destruct Eh as (l & Hl & Hm). apply mem_In in Hm.
    symmetry. apply (P2 r). apply (K1 l r Hl Hm). }
  destruct (fit_levels_lead _ _ lvs (fillna col) lvs (fillna col) gp cf gf
              (fun l Hl => conj (Hwl l Hl) Hl) P1 Hcol Ef) as (Wf & Pf & Lf).
  split; [exact Wf|]. split; [reflexivity|]. split; [|split; [|split; [|split]]].
  - intros v Hv. apply (Permutation_in _ (Permutation_sym Pf)). apply (P2 v Hv).
  - intros r Hr. apply (Permutation_in _ (Permutation_sym Pf)). apply Hrows; exact Hr.
  - intros v Hv. apply (Permutation_in _ Pf) in Hv. apply (P3 v Hv).
  - exact Hdrop.
  - intro x. rewrite Lf. apply lead_ext. exact HL0.
Qed.

(* ---- the observable value -> leader map ------------------------------------------------------- *)

Lemma aget_members : forall x k vs rest,
  aget x (map (fun v => (v, k)) vs ++ rest) = if existsb (is_equal x) vs then Some k else aget x rest.
Proof.
  intros x k vs rest. induction vs as [|v t IH]; [reflexivity|].
  cbn [map app aget existsb]. unfold is_equal at 1. destruct (val_eqb x v); cbn [orb]; [reflexivity | exact IH].
Qed.

Lemma aget_content_map : forall g x,
  aget x (content_map g) = match found_groups g x with k :: _ => Some k | [] => None end.
Proof.
  intros [ks c] x. unfold content_map, found_groups. cbn [content].
  induction c as [|[k vs] t IH]; [reflexivity|].
  cbn [flat_map filter fst snd]. rewrite aget_members.
  destruct (existsb (is_equal x) vs); cbn [map fst]; [reflexivity | exact IH].
Qed.

Lemma aget_content_map_in : forall g x, In x (values g) ->
  aget x (content_map g) = Some (get_group g x).
Proof.
  intros g x Hx. rewrite aget_content_map. unfold get_group.
  destruct (found_groups g x) as [|k t] eqn:E; [|reflexivity].
  exfalso. apply In_dvalues in Hx. destruct Hx as (k & vs & Hi & Hv).
  assert (Hin : In k (found_groups g x)).
  { unfold found_groups. apply in_map_iff. exists (k, vs). split; [reflexivity|].
    apply filter_In. split; [exact Hi|]. cbn [snd]. rewrite existsb_is_equal. apply mem_In; exact Hv. }
  rewrite E in Hin. destruct Hin.
Qed.

Lemma aget_content_map_notin : forall g x, ~ In x (values g) -> aget x (content_map g) = None.
Proof.
  intros g x Hx. rewrite aget_content_map.
  destruct (found_groups g x) as [|k t] eqn:E; [reflexivity|].
  exfalso. apply Hx. assert (Hin : In k (found_groups g x)) by (rewrite E; left; reflexivity).
  unfold found_groups in Hin. apply in_map_iff in Hin. destruct Hin as ([k' vs] & _ & Hf).
  apply filter_In in Hf. destruct Hf as [Hi Hm]. cbn [snd] in Hm. rewrite existsb_is_equal in Hm.
  apply In_dvalues. exists k', vs. split; [exact Hi | apply mem_In; exact Hm].
Qed.

(* ---- packaging: what init guarantees ----------------------------------------------------------- *)

Lemma init_spec : forall levels c, (forall d, In d levels -> NoDup (dkeys d)) -> init levels = Ok c ->
  (forall lv, In lv (c_levels c) -> WF lv) /\
  (forall lv v, In lv (c_levels c) -> In v (values lv) -> In v (c_known c)) /\
  (forall y, In y (c_known c) -> exists lv, In lv (c_levels c) /\ In y (values lv)).
Proof.
  intros levels c Hnd Ei. unfold init in Ei.
  destruct (mapM of_dict levels) as [lvs| |] eqn:Em; cbn [bind] in Ei; try discriminate.
  destruct (known_values lvs) as [known| |] eqn:Ek; cbn [bind] in Ei; try discriminate.
  destruct (init_order known) as [o| |] eqn:Eo; cbn [bind] in Ei; try discriminate.
  injection Ei as <-. cbn [c_levels c_known].
  pose proof (mapM_of_dict_wf levels lvs Hnd Em) as Hwl.
  destruct (known_values_spec lvs known Hwl Ek) as [K1 K2].
  split; [exact Hwl|]. split; [exact K1 | exact K2].
Qed.

Lemma lead0_known : forall known filled x, In x known -> lead0 (unknown_values known filled) x = x.
Proof.
  intros known filled x Hx. unfold lead0.
  destruct (mem x (unknown_values known filled)) eqn:E; [|reflexivity].
  apply mem_In, unknown_values_spec in E. tauto.
Qed.

Lemma lead_self : forall mf n all col0 pre L x, L x = x ->
  (forall lv, In lv pre -> In x (values lv) -> get_group lv x = x) ->
  lead mf n all col0 pre L x = x.
Proof.
  intros mf n all col0 pre. induction pre as [|lv t IH]; intros L x HL Hp; cbn [lead]; [exact HL|].
  apply IH; [|intros l Hl; apply Hp; right; exact Hl].
  destruct (lead_step_cases mf n all col0 lv L x) as [[E _]|[E [Hin _]]]; rewrite E, HL; [reflexivity|].
  apply Hp; [left; reflexivity|]. rewrite <- HL. exact Hin.
Qed.

(* the training column as the level loop first sees it *)
Lemma cur_lead0_id : forall lvs known filled,
  (forall lv v, In lv lvs -> In v (values lv) -> In v known) ->
  map (cur lvs (lead0 (unknown_values known filled))) filled = filled.
Proof.
  intros lvs known filled K1. transitivity (map (fun x : val => x) filled); [|apply map_id].
  apply map_ext_in. intros r Hr.
  unfold cur. destruct (hierb lvs r) eqn:Eh; [|reflexivity].
  unfold hierb in Eh. apply existsb_exists in Eh. destruct Eh as (l & Hl & Hm). apply mem_In in Hm.
  apply lead0_known. apply (K1 l r Hl Hm).
Qed.

(* ---- the property theorems (restated in Properties/C18.v) -------------------------------------- *)

Definition fitted (levels : list dict) (col : list val) (mfd : Z * Z) (drop : bool)
                  (c : chained) (g : gl) (lpv : vmap) : Prop :=
  (forall d, In d levels -> NoDup (dkeys d)) /\
  init levels = Ok c /\ no_nan_levels (c_levels c) /\
  fit levels col mfd drop = Ok (Fitted g lpv).

Lemma fitted_facts : forall levels col mfd drop c g lpv, fitted levels col mfd drop c g lpv ->
  let mf := f_of_dyadic (fst mfd) (snd mfd) in
  let n := Z.of_nat (List.length col) in
  let filled := fillna col in
  let unk := unknown_values (c_known c) filled in
  WF g /\ lpv = labels_per_values g /\
  (forall v, In v (c_known c) -> In v (values g)) /\
  (forall r, In r filled -> In r (values g)) /\
  (forall v, In v (values g) -> In v (c_known c) \/ v = nan_s \/ In v unk) /\
  (unk <> [] -> drop = true) /\
  (forall x, get_group g x = lead mf n (c_levels c) filled (c_levels c) (lead0 unk) x).
Proof.
  intros levels col mfd drop c g lpv (Hnd & Ei & Hnn & Hfit).
  destruct (fit_refines levels col mfd drop g lpv Hnd Hfit) as (c' & Ei' & H).
  rewrite Ei in Ei'. injection Ei' as <-. exact (H Hnn).
Qed.

Theorem chained_known_kept : forall levels col mfd drop c g lpv,
  fitted levels col mfd drop c g lpv ->
  (forall lv v, In lv (c_levels c) -> In v (values lv) -> In v (c_known c)) /\
  (forall v, In v (c_known c) ->
     In v (values g) /\ aget v (content_map g) = Some (get_group g v)).
Proof.
  intros levels col mfd drop c g lpv HF. pose proof HF as (Hnd & Ei & Hnn & Hfit).
  destruct (init_spec levels c Hnd Ei) as (_ & K1 & _).
  destruct (fitted_facts _ _ _ _ _ _ _ HF) as (_ & _ & Hk & _).
  split; [exact K1|]. intros v Hv. split; [apply Hk; exact Hv|].
  apply aget_content_map_in. apply Hk; exact Hv.
Qed.

Theorem chained_refines_rule : forall levels col mfd drop c g lpv,
  fitted levels col mfd drop c g lpv ->
  forall x, In x (values g) ->
  aget x (content_map g) =
  Some (lead (f_of_dyadic (fst mfd) (snd mfd)) (Z.of_nat (List.length col)) (c_levels c) (fillna col)
             (c_levels c) (lead0 (unknown_values (c_known c) (fillna col))) x).
Proof.
  intros levels col mfd drop c g lpv HF x Hx.
  destruct (fitted_facts _ _ _ _ _ _ _ HF) as (_ & _ & _ & _ & _ & _ & HL).
  rewrite (aget_content_map_in g x Hx), HL. reflexivity.
Qed.

Theorem leader_is_ancestor_or_self : forall levels col mfd drop c g lpv,
  fitted levels col mfd drop c g lpv ->
  forall x, In x (c_known c) -> climbs (c_levels c) x (get_group g x).
Proof.
  intros levels col mfd drop c g lpv HF x Hx.
  destruct (fitted_facts _ _ _ _ _ _ _ HF) as (_ & _ & _ & _ & _ & _ & HL).
  rewrite HL.
  pose proof (lead_climbs (f_of_dyadic (fst mfd) (snd mfd)) (Z.of_nat (List.length col)) (c_levels c)
                (fillna col) (c_levels c) (lead0 (unknown_values (c_known c) (fillna col))) x) as H.
  rewrite (lead0_known _ _ x Hx) in H. exact H.
Qed.

Theorem chained_rule_level : forall levels col mfd drop c g lpv pre lv post x,
  fitted levels col mfd drop c g lpv ->
  c_levels c = pre ++ lv :: post -> In x (c_known c) ->
  (forall lv', In lv' pre -> In x (values lv') -> get_group lv' x = x) ->
  (forall lv', In lv' post -> ~ In x (values lv')) ->
  let mf := f_of_dyadic (fst mfd) (snd mfd) in
  let n := Z.of_nat (List.length col) in
  let Lk := lead mf n (c_levels c) (fillna col) pre (lead0 (unknown_values (c_known c) (fillna col))) in
  (get_group g x = x <->
   (~ In x (values lv) \/ get_group lv x = x \/
    keepb mf n (map (cur (c_levels c) Lk) (fillna col)) x = true)).
Proof.
  intros levels col mfd drop c g lpv pre lv post x HF Hsplit Hx Hpre Hpost. cbn zeta.
  pose proof HF as (Hnd & Ei & Hnn & Hfit).
  destruct (init_spec levels c Hnd Ei) as (Hwl & _ & _).
  destruct (fitted_facts _ _ _ _ _ _ _ HF) as (_ & _ & _ & _ & _ & _ & HL).
  rewrite HL. rewrite Hsplit at 2.
  apply lead_rule_level.
  - intros l Hl. apply Hwl. rewrite Hsplit. apply in_or_app. right. right. exact Hl.
  - apply lead_self; [apply lead0_known; exact Hx | exact Hpre].
  - exact Hpost.
Qed.

Theorem chained_rule_bottom : forall levels col mfd drop c g lpv lv0 post x,
  fitted levels col mfd drop c g lpv ->
  c_levels c = lv0 :: post -> In x (values lv0) ->
  (forall lv', In lv' post -> ~ In x (values lv')) ->
  (get_group g x = x <->
   (get_group lv0 x = x \/
    keepb (f_of_dyadic (fst mfd) (snd mfd)) (Z.of_nat (List.length col)) (fillna col) x = true)).
Proof.
  intros levels col mfd drop c g lpv lv0 post x HF Hsplit Hx Hpost.
  pose proof HF as (Hnd & Ei & Hnn & Hfit).
  destruct (init_spec levels c Hnd Ei) as (_ & K1 & _).
  assert (Hk : In x (c_known c)).
  { apply (K1 lv0 x); [rewrite Hsplit; left; reflexivity | exact Hx]. }
  pose proof (chained_rule_level levels col mfd drop c g lpv [] lv0 post x HF Hsplit Hk
                (fun l (H : In l []) _ => match H with end) Hpost) as H.
  cbn zeta in H. cbn [lead] in H. rewrite (cur_lead0_id (c_levels c) (c_known c) (fillna col) K1) in H.
  rewrite H. split.
  - intros [Hn|[Hp|Hkp]]; [tauto | left; exact Hp | right; exact Hkp].
  - intros [Hp|Hkp]; [right; left; exact Hp | right; right; exact Hkp].
Qed.

Theorem rare_group_merged_further_up : forall levels col mfd drop c g lpv pre lv post x,
  fitted levels col mfd drop c g lpv ->
  c_levels c = pre ++ lv :: post ->
  let mf := f_of_dyadic (fst mfd) (snd mfd) in
  let n := Z.of_nat (List.length col) in
  let L0 := lead0 (unknown_values (c_known c) (fillna col)) in
  let Lk := lead mf n (c_levels c) (fillna col) pre L0 in
  In (Lk x) (values lv) ->
  keepb mf n (map (cur (c_levels c) Lk) (fillna col)) (Lk x) = false ->
  lead mf n (c_levels c) (fillna col) (pre ++ [lv]) L0 x = get_group lv (Lk x) /\
  climbs post (get_group lv (Lk x)) (get_group g x).
Proof.
  intros levels col mfd drop c g lpv pre lv post x HF Hsplit. cbn zeta. intros Hin Hkeep.
  destruct (fitted_facts _ _ _ _ _ _ _ HF) as (_ & _ & _ & _ & _ & _ & HL).
  set (mf := f_of_dyadic (fst mfd) (snd mfd)) in *. set (n := Z.of_nat (List.length col)) in *.
  set (L0 := lead0 (unknown_values (c_known c) (fillna col))) in *.
  set (Lk := lead mf n (c_levels c) (fillna col) pre L0) in *.
  assert (E : lead_step mf n (c_levels c) (fillna col) lv Lk x = get_group lv (Lk x)).
  { destruct (lead_step_cases mf n (c_levels c) (fillna col) lv Lk x) as [[_ [Hc|Hc]]|[E _]];
      [tauto | rewrite Hc in Hkeep; discriminate | exact E]. }
  split.
  - rewrite lead_app. cbn [lead]. exact E.
  - rewrite HL. rewrite Hsplit at 2. rewrite lead_app. cbn [lead]. fold Lk.
    rewrite <- E. apply lead_climbs.
Qed.

Theorem chained_unknown_raise : forall levels col mfd c,
  init levels = Ok c ->
  feature_dropped (f_of_dyadic (fst mfd) (snd mfd)) col = false ->
  unknown_values (c_known c) (fillna col) <> [] ->
  fit levels col mfd false = AssertErr.
Proof.
  intros levels col mfd c Ei Hd Hu. unfold fit. rewrite Ei. cbn [bind]. rewrite Hd.
  unfold prepare. destruct (unknown_values (c_known c) (fillna col)); [tauto|]. reflexivity.
Qed.

Theorem chained_unknown_drop : forall levels col mfd drop c g lpv,
  fitted levels col mfd drop c g lpv ->
  (unknown_values (c_known c) (fillna col) <> [] -> drop = true) /\
  (forall u, In u (unknown_values (c_known c) (fillna col)) ->
     In u (values g) /\ aget u (content_map g) = Some nan_s) /\
  (In nan_s (fillna col) -> aget nan_s (content_map g) = Some nan_s).
Proof.
  intros levels col mfd drop c g lpv HF. pose proof HF as (Hnd & Ei & Hnn & Hfit).
  destruct (fitted_facts _ _ _ _ _ _ _ HF) as (_ & _ & _ & Hrows & _ & Hdrop & HL).
  assert (Hfix : forall y, lead0 (unknown_values (c_known c) (fillna col)) y = nan_s -> get_group g y = nan_s).
  { intros y Hy. rewrite HL, lead_fix; [exact Hy|].
    intros l Hl. rewrite Hy. apply (Hnn l Hl). }
  split; [exact Hdrop|]. split.
  - intros u Hu. pose proof Hu as Hu'. apply unknown_values_spec in Hu'. destruct Hu' as (Hf & _).
    split; [apply Hrows; exact Hf|].
    rewrite (aget_content_map_in g u (Hrows u Hf)). f_equal. apply Hfix.
    unfold lead0. replace (mem u _) with true by (symmetry; apply mem_In; exact Hu). reflexivity.
  - intros Hn. rewrite (aget_content_map_in g nan_s (Hrows _ Hn)). f_equal. apply Hfix.
    unfold lead0. destruct (mem nan_s _); reflexivity.
Qed.

(* transform = lookup in the fitted value -> label map, str_nan shown as NaN *)
Theorem chained_transform_lookup : forall g lpv col out, transform g lpv col = Ok out ->
  (forall r, In r (fillna col) -> In r (values g)) /\
  out = map (fun r =>
               let l := match aget r lpv with Some l => l | None => r end in
               match aget nan_s lpv with
               | Some ln => if val_eqb l ln then VNaN else l
               | None => l
               end) (fillna col).
Proof.
  intros g lpv col out H. unfold transform in H.
  destruct (forallb (fun v => mem v (values g)) (uniq (fillna col))) eqn:Ef; cbn [negb] in H; [|discriminate].
  injection H as <-. split.
  - intros r Hr. rewrite forallb_forall in Ef. apply mem_In, Ef, In_uniq, Hr.
  - destruct (aget nan_s lpv); [rewrite map_map|]; reflexivity.
Qed.

(* the checker's ancestor test is the ancestor relation *)
Theorem climbsb_spec : forall lvs v a, climbsb lvs v a = true <-> climbs lvs v a.
Proof.
  induction lvs as [|lv t IH]; intros v a; cbn [climbsb climbs].
  - apply val_eqb_eq.
  - rewrite orb_true_iff, andb_true_iff, !IH, mem_In. tauto.
Qed.

(* ---- labels_per_values is the leader map ---------------------------------------------------- *)

Definition nan_last (ks : list val) : Prop :=
  ~ In nan_s ks \/ exists a, ks = a ++ [nan_s] /\ ~ In nan_s a.

Lemma filter_all : forall (p : val -> bool) l, (forall x, In x l -> p x = true) -> filter p l = l.
Proof.
  intros p l. induction l as [|a t IH]; intro H; [reflexivity|]. cbn [filter].
  rewrite (H a (or_introl eq_refl)). f_equal. apply IH. intros x Hx. apply H. right; exact Hx.
Qed.

Lemma not_nan_filter : forall l, ~ In nan_s l -> filter (fun k => negb (py_eq k nan_s)) l = l.
Proof.
  intros l H. apply filter_all. intros x Hx. apply negb_true_iff.
  destruct (py_eq x nan_s) eqn:E; [|reflexivity]. apply py_eq_true in E. subst. tauto.
Qed.

Lemma labels_aligned : forall ks, nan_last ks ->
  filter (fun k => negb (py_eq k nan_s)) ks ++ (if mem nan_s ks then [nan_s] else []) = ks.
Proof.
  intros ks [H|(a & -> & Ha)].
  - rewrite (not_nan_filter ks H). replace (mem nan_s ks) with false by (symmetry; apply mem_false; exact H).
    apply app_nil_r.
  - rewrite filter_app, (not_nan_filter a Ha). cbn [filter]. 
    replace (py_eq nan_s nan_s) with true by reflexivity. cbn [negb]. rewrite app_nil_r.
    replace (mem nan_s (a ++ [nan_s])) with true; [reflexivity|].
    symmetry. apply mem_In. apply in_or_app. right. left. reflexivity.
Qed.

Lemma nan_last_filter : forall (p : val -> bool) ks, nan_last ks -> nan_last (filter p ks).
Proof.
  intros p ks [H|(a & -> & Ha)].
  - left. intro Hi. apply filter_In in Hi. tauto.
  - rewrite filter_app. cbn [filter]. destruct (p nan_s).
    + right. exists (filter p a). split; [reflexivity|]. intro Hi. apply filter_In in Hi. tauto.
    + left. rewrite app_nil_r. intro Hi. apply filter_In in Hi. tauto.
Qed.

Lemma aget_aset_same : forall k v m, aget k (aset k v m) = Some v.
Proof.
  intros k v m. induction m as [|[k' v'] t IH]; cbn [aset aget].
  - rewrite val_eqb_refl. reflexivity.
  - destruct (val_eqb k k') eqn:E; cbn [aget]; rewrite E; [reflexivity | exact IH].
Qed.

Lemma aget_aset_other : forall k k' v m, k' <> k -> aget k' (aset k v m) = aget k' m.
Proof.
  intros k k' v m Hn. induction m as [|[k2 v2] t IH]; cbn [aset aget].
  - replace (val_eqb k' k) with false by (symmetry; apply val_eqb_neq; exact Hn). reflexivity.
  - destruct (val_eqb k k2) eqn:E; cbn [aget].
    + apply val_eqb_eq in E. subst k2.
      replace (val_eqb k' k) with false by (symmetry; apply val_eqb_neq; exact Hn). reflexivity.
    + destruct (val_eqb k' k2); [reflexivity | exact IH].
Qed.

Lemma aget_None_notin : forall x (ps : vmap), ~ In x (map fst ps) -> aget x ps = None.
Proof.
  intros x ps. induction ps as [|[k v] t IH]; intro H; [reflexivity|]. cbn [aget].
  cbn [map fst In] in H. replace (val_eqb x k) with false.
  - apply IH. tauto.
  - symmetry. apply val_eqb_neq. intro; subst; tauto.
Qed.

Lemma aget_fold : forall (ps : vmap) m0 x, NoDup (map fst ps) ->
  aget x (fold_left (fun m p => aset (fst p) (snd p) m) ps m0) =
  match aget x ps with Some l => Some l | None => aget x m0 end.
Proof.
  induction ps as [|[k v] t IH]; intros m0 x Hnd; [reflexivity|].
  cbn [fold_left fst snd]. cbn [map fst] in Hnd. inversion Hnd as [|? ? Hk Hnd']; subst.
  rewrite (IH _ x Hnd'). cbn [aget]. destruct (val_eqb x k) eqn:E.
  - apply val_eqb_eq in E. subst. rewrite (aget_None_notin k t Hk). apply aget_aset_same.
  - apply val_eqb_neq in E. rewrite (aget_aset_other k x v m0 E). reflexivity.
Qed.

Lemma inner_fold : forall k vs (m : vmap),
  fold_left (fun m' v => aset v k m') vs m =
  fold_left (fun m p => aset (fst p) (snd p) m) (map (fun v => (v, k)) vs) m.
Proof. intros k vs. induction vs as [|v t IH]; intro m; [reflexivity|]. cbn [fold_left map fst snd]. apply IH. Qed.

Lemma lpv_fold : forall g ks (m0 : vmap),
  fold_left (fun m kl => fold_left (fun m' v => aset v (snd kl) m') (get g (fst kl)) m) (combine ks ks) m0 =
  fold_left (fun m p => aset (fst p) (snd p) m)
            (flat_map (fun kv => map (fun v => (v, fst kv)) (snd kv)) (map (fun k => (k, get g k)) ks)) m0.
Proof.
  intros g ks. induction ks as [|k t IH]; intro m0; [reflexivity|].
  cbn [combine fold_left map flat_map fst snd]. rewrite fold_left_app, <- inner_fold. apply IH.
Qed.

Lemma map_fst_pairs : forall (c : dict),
  map fst (flat_map (fun kv => map (fun v => (v, fst kv)) (snd kv)) c) = dvalues c.
Proof.
  induction c as [|[k vs] t IH]; [reflexivity|]. cbn [flat_map fst snd]. unfold dvalues in *. cbn [flat_map snd].
  rewrite map_app, IH, map_map. cbn [fst]. rewrite map_id. reflexivity.
Qed.

Theorem lpv_spec : forall g, WF g -> nan_last (keys g) ->
  forall x, aget x (labels_per_values g) = if mem x (values g) then Some (get_group g x) else None.
Proof.
  intros g Hwf Hnl x. unfold labels_per_values. rewrite (labels_aligned (keys g) Hnl).
  rewrite lpv_fold. fold (abs g).
  assert (Hperm : Permutation (dvalues (abs g)) (values g)).
  { apply Permutation_sym. unfold abs. rewrite dvalues_map. apply values_flat_map_get; exact Hwf. }
  rewrite aget_fold.
  2:{ rewrite map_fst_pairs. apply (Permutation_NoDup (Permutation_sym Hperm)). apply Hwf. }
  cbn [aget].
  change (flat_map (fun kv => map (fun v => (v, fst kv)) (snd kv)) (abs g))
    with (content_map (mkGL (keys g) (abs g))).
  destruct (mem x (values g)) eqn:Em.
  - apply mem_In in Em.
    assert (Hx : In x (values (mkGL (keys g) (abs g)))).
    { unfold values; cbn [content]. apply (Permutation_in _ (Permutation_sym Hperm)). exact Em. }
    rewrite (aget_content_map_in _ x Hx). f_equal.
    unfold get_group at 1.
    destruct (found_groups (mkGL (keys g) (abs g)) x) as [|k t] eqn:E.
    + exfalso. apply In_dvalues in Hx. cbn [content] in Hx. destruct Hx as (k & vs & Hi & Hv).
      assert (Hin : In k (found_groups (mkGL (keys g) (abs g)) x)).
      { unfold found_groups. apply in_map_iff. exists (k, vs). split; [reflexivity|]. cbn [content].
        apply filter_In. split; [exact Hi|]. cbn [snd]. rewrite existsb_is_equal. apply mem_In; exact Hv. }
      rewrite E in Hin. destruct Hin.
    + assert (Hin : In k (found_groups (mkGL (keys g) (abs g)) x)) by (rewrite E; left; reflexivity).
      unfold found_groups in Hin. cbn [content] in Hin. apply in_map_iff in Hin.
      destruct Hin as ([k' vs] & Hk & Hf). cbn [fst] in Hk. subst k'.
      apply filter_In in Hf. destruct Hf as [Hi Hm]. cbn [snd] in Hm. rewrite existsb_is_equal in Hm.
      symmetry. apply (get_group_abs g k vs x Hwf Hi). apply mem_In; exact Hm.
  - apply mem_false in Em. rewrite aget_content_map_notin; [reflexivity|].
    unfold values; cbn [content]. intro Hi. apply Em. apply (Permutation_in _ Hperm). exact Hi.
Qed.

(* ---- str_nan stays the last key all along fit ------------------------------------------------- *)

Lemma group_keys_exact : forall g d k g', WF g -> d <> k -> group g d k = Ok g' ->
  keys g' = filter (fun x => negb (val_eqb d x)) (keys g).
Proof.
  intros g d k g' Hwf Hdk Hg.
  assert (Hd : In d (keys g) /\ In k (keys g)).
  { unfold group in Hg. unfold is_equal in Hg.
    assert (E : val_eqb d k = false) by (apply val_eqb_neq; exact Hdk). rewrite E in Hg.
    destruct (mem d (keys g)) eqn:E1; cbn [negb] in Hg; [|discriminate].
    destruct (mem k (keys g)) eqn:E2; cbn [negb] in Hg; [|discriminate].
    split; apply mem_In; assumption. }
  destruct Hd as [Hd Hk].
  destruct (group_spec g d k Hwf Hdk Hd Hk) as (g'' & Hg'' & _ & Hkeys & _).
  rewrite Hg in Hg''. injection Hg'' as <-. exact Hkeys.
Qed.

Lemma group_keys : forall g d k g', WF g -> group g d k = Ok g' ->
  nan_last (keys g) -> nan_last (keys g').
Proof.
  intros g d k g' Hwf Hg Hn. destruct (val_eq_dec d k) as [->|Hdk].
  - unfold group in Hg. unfold is_equal in Hg. rewrite val_eqb_refl in Hg. injection Hg as <-. exact Hn.
  - rewrite (group_keys_exact g d k g' Hwf Hdk Hg). apply nan_last_filter. exact Hn.
Qed.

Lemma group_pairs_keys : forall ps g g', WF g -> group_pairs g ps = Ok g' ->
  WF g' /\ (nan_last (keys g) -> nan_last (keys g')).
Proof.
  induction ps as [|[d k] t IH]; intros g g' Hwf Hg; cbn [group_pairs] in Hg.
  - injection Hg as <-. split; auto.
  - destruct (group g d k) as [g1| |] eqn:E1; cbn [bind] in Hg; try discriminate.
    destruct (group_leader g d k g1 Hwf E1) as (Hwf1 & _).
    destruct (IH g1 g' Hwf1 Hg) as (Hwf' & Hn').
    split; [exact Hwf'|]. intro Hn. apply Hn'. apply (group_keys g d k g1 Hwf E1 Hn).
Qed.

Lemma fit_levels_keys : forall mf n lvs col g col' g', WF g ->
  fit_levels mf n lvs col g = Ok (col', g') -> nan_last (keys g) -> nan_last (keys g').
Proof.
  intros mf n lvs. induction lvs as [|lv t IH]; intros col g col' g' Hwf Hf Hn; cbn [fit_levels] in Hf.
  - injection Hf as <- <-. exact Hn.
  - destruct (level_step mf n lv col g) as [[c1 g1]| |] eqn:E; cbn [bind fst snd] in Hf; try discriminate.
    unfold level_step in E.
    destruct (group_pairs g _) as [g1'| |] eqn:E1; cbn [bind] in E; try discriminate.
    injection E as <- <-.
    destruct (group_pairs_keys _ g g1' Hwf E1) as (Hwf1 & Hn1).
    apply (IH _ g1' col' g' Hwf1 Hf (Hn1 Hn)).
Qed.

Lemma add_unknown_keys : forall known (U : val -> Prop) g u g', Prep known U g ->
  ~ In u known -> u <> nan_s -> ~ U u ->
  add_unknown g u = Ok g' -> nan_last (keys g) -> nan_last (keys g').
Proof.
  intros known U g u g' HP Hnk Hnn HnU H Hn.
  pose proof HP as (P1 & P2 & P3 & P4 & P5).
  assert (Hu : ~ In u (values g)).
  { intro Hi. destruct (P3 u Hi) as [Hk|[Hk|Hk]]; tauto. }
  assert (Huk : ~ In u (keys g)) by (intro Hi; apply Hu; apply key_in_values; assumption).
  destruct (append_leader g u P1 Hu) as (A1 & A2 & A3 & A4).
  assert (Hk1 : In nan_s (values (append g u)) -> In nan_s (keys (append g u))).
  { intro Hi. apply A3 in Hi. destruct Hi as [Hi|Hi]; [|exfalso; apply Hnn; symmetry; exact Hi].
    rewrite A4. apply in_or_app. left. eapply Prep_nan_key; eassumption. }
  destruct (with_nan (append g u) A1 Hk1) as (W1 & W2 & W3 & W4).
  unfold add_unknown in H.
  set (g2 := if mem nan_s (keys (append g u)) then append g u else append (append g u) nan_s) in *.
  rewrite (group_keys_exact g2 u nan_s g' W1 Hnn H).
  assert (Fu : filter (fun x => negb (val_eqb u x)) (keys g ++ [u]) = keys g).
  { rewrite filter_app, (filter_neq_notin u (keys g) Huk). cbn [filter]. rewrite val_eqb_refl. cbn [negb].
    apply app_nil_r. }
  unfold g2. destruct (mem nan_s (keys (append g u))) eqn:Em.
  - rewrite A4, Fu. exact Hn.
  - apply mem_false in Em. rewrite A4 in Em.
    destruct (append_leader (append g u) nan_s A1 (fun Hi => Em (eq_ind _ (fun l => In nan_s l) (Hk1 Hi) _ A4)))
      as (_ & _ & _ & B4).
    rewrite B4, A4, filter_app, Fu. cbn [filter].
    replace (val_eqb u nan_s) with false by (symmetry; apply val_eqb_neq; exact Hnn). cbn [negb].
    right. exists (keys g). split; [reflexivity|]. intro Hi. apply Em. apply in_or_app. left; exact Hi.
Qed.

Lemma drop_unknown_keys : forall known us (U : val -> Prop) g g', Prep known U g ->
  ~ In nan_s known -> NoDup us ->
  (forall u, In u us -> ~ In u known /\ u <> nan_s /\ ~ U u) ->
  drop_unknown g us = Ok g' -> nan_last (keys g) -> nan_last (keys g').
Proof.
  intros known us. induction us as [|u t IH]; intros U g g' HP Hnank Hnd Hus H Hn; cbn [drop_unknown] in H.
  - injection H as <-. exact Hn.
  - destruct (add_unknown g u) as [g1| |] eqn:E1; cbn [bind] in H; try discriminate.
    destruct (Hus u (or_introl eq_refl)) as (H1 & H2 & H3).
    pose proof (add_unknown_Prep known U g u g1 HP H1 H2 H3 Hnank E1) as HP1.
    pose proof (add_unknown_keys known U g u g1 HP H1 H2 H3 E1 Hn) as Hn1.
    inversion Hnd as [|? ? Hnu Hnd']; subst.
    assert (Hus' : forall w, In w t -> ~ In w known /\ w <> nan_s /\ ~ (w = u \/ U w)).
    { intros w Hw. destruct (Hus w (or_intror Hw)) as (K1 & K2 & K3). split; [exact K1|]. split; [exact K2|].
      intros [->|Hc]; tauto. }
    apply (IH _ g1 g' HP1 Hnank Hnd' Hus' H Hn1).
Qed.

Lemma prepare_keys : forall c drop filled g,
  WF (c_order c) -> (forall v, In v (values (c_order c)) <-> In v (c_known c)) ->
  (forall v, get_group (c_order c) v = v) -> ~ In nan_s (c_known c) ->
  prepare c drop filled = Ok g -> nan_last (keys g).
Proof.
  intros c drop filled g Wo Vo Lo Hnank H. unfold prepare in H.
  set (known := c_known c) in *. set (us := unknown_values known filled) in *.
  assert (HP0 : Prep known (fun _ => False) (c_order c)).
  { split; [exact Wo|]. split; [|split; [|split]].
    - intros v Hv. split; [apply Vo; exact Hv | apply Lo].
    - intros v Hv. left. apply Vo; exact Hv.
    - intros u [].
    - intros _. apply Lo. }
  assert (Hn0 : nan_last (keys (c_order c))).
  { left. intro Hi. apply Hnank. apply Vo. apply key_in_values; assumption. }
  assert (Hg1 : exists g1 (U : val -> Prop),
             match us with [] => Ok (c_order c) | _ :: _ => if drop then drop_unknown (c_order c) us else AssertErr end = Ok g1
             /\ Prep known U g1 /\ nan_last (keys g1)).
  { destruct us as [|u0 ut] eqn:Eus.
    - exists (c_order c), (fun _ => False). split; [reflexivity|]. split; assumption.
    - destruct drop; [|cbn [bind] in H; discriminate].
      destruct (drop_unknown (c_order c) (u0 :: ut)) as [g1| |] eqn:E1; cbn [bind] in H; try discriminate.
      exists g1, (fun x => In x (u0 :: ut) \/ False). split; [reflexivity|].
      assert (Hnd : NoDup (u0 :: ut)).
      { rewrite <- Eus. unfold us, unknown_values. apply NoDup_filter. apply NoDup_uniq. }
      assert (Hus : forall u, In u (u0 :: ut) -> ~ In u known /\ u <> nan_s /\ ~ False).
      { intros u Hu. rewrite <- Eus in Hu. apply unknown_values_spec in Hu. tauto. }
      split.
      + apply (drop_unknown_Prep known (u0 :: ut) (fun _ => False) _ g1 HP0 Hnank Hnd Hus E1).
      + apply (drop_unknown_keys known (u0 :: ut) (fun _ => False) _ g1 HP0 Hnank Hnd Hus E1 Hn0). }
  destruct Hg1 as (g1 & U & E1 & HP1 & Hn1). rewrite E1 in H. cbn [bind] in H.
  set (g2 := if mem nan_s filled && negb (mem nan_s (keys g1)) then append g1 nan_s else g1) in *.
  destruct (forallb (fun v => mem v (values g2)) (uniq filled)); [|discriminate].
  injection H as <-. unfold g2.
  destruct (mem nan_s filled); cbn [andb]; [|exact Hn1].
  destruct (mem nan_s (keys g1)) eqn:Em; cbn [negb]; [exact Hn1|].
  apply mem_false in Em. pose proof HP1 as (Q1 & _).
  assert (Hnv : ~ In nan_s (values g1)) by (intro Hi; apply Em; eapply Prep_nan_key; eassumption).
  destruct (append_leader g1 nan_s Q1 Hnv) as (_ & _ & _ & A4). rewrite A4.
  right. exists (keys g1). split; [reflexivity | exact Em].
Qed.

Lemma init_order_facts : forall levels c, (forall d, In d levels -> NoDup (dkeys d)) ->
  init levels = Ok c -> no_nan_levels (c_levels c) ->
  WF (c_order c) /\ (forall v, In v (values (c_order c)) <-> In v (c_known c)) /\
  (forall v, get_group (c_order c) v = v) /\ ~ In nan_s (c_known c).
Proof.
  intros levels c Hnd Ei Hnn.
  destruct (init_spec levels c Hnd Ei) as (_ & _ & K2).
  assert (Hnank : ~ In nan_s (c_known c)).
  { intro Hi. destruct (K2 _ Hi) as (l & Hl & Hv). apply (proj1 (Hnn l Hl)). exact Hv. }
  assert (HnaN : ~ In VNaN (c_known c)).
  { intro Hi. destruct (K2 _ Hi) as (l & Hl & Hv). apply (proj2 (Hnn l Hl)). exact Hv. }
  unfold init in Ei.
  destruct (mapM of_dict levels) as [lvs| |] eqn:Em; cbn [bind] in Ei; try discriminate.
  destruct (known_values lvs) as [known| |] eqn:Ek; cbn [bind] in Ei; try discriminate.
  destruct (init_order known) as [o| |] eqn:Eo; cbn [bind] in Ei; try discriminate.
  injection Ei as <-. cbn [c_levels c_known c_order] in *.
  destruct (init_order_spec known o HnaN Eo) as (Wo & Vo & Lo).
  split; [exact Wo|]. split; [exact Vo|]. split; [exact Lo | exact Hnank].
Qed.

Lemma fitted_keys : forall levels col mfd drop c g lpv, fitted levels col mfd drop c g lpv ->
  nan_last (keys g).
Proof.
  intros levels col mfd drop c g lpv (Hnd & Ei & Hnn & Hfit).
  destruct (init_order_facts levels c Hnd Ei Hnn) as (Wo & Vo & Lo & Hnank).
  unfold fit in Hfit. rewrite Ei in Hfit. cbn [bind] in Hfit.
  destruct (feature_dropped _ col); [discriminate|].
  destruct (prepare c drop (fillna col)) as [gp| |] eqn:Ep; cbn [bind] in Hfit; try discriminate.
  destruct (fit_levels _ _ (c_levels c) (fillna col) gp) as [[cf gf]| |] eqn:Ef; cbn [bind fst snd] in Hfit; try discriminate.
  injection Hfit as <- <-.
  pose proof (prepare_keys c drop (fillna col) gp Wo Vo Lo Hnank Ep) as Hn.
  destruct (prepare_spec c drop (fillna col) gp Wo Vo Lo Hnank Ep) as ((P1 & _) & _).
  apply (fit_levels_keys _ _ _ _ gp cf gf P1 Ef Hn).
Qed.

Lemma lead0_nan : forall unk, lead0 unk nan_s = nan_s.
Proof. intro unk. unfold lead0. destruct (mem nan_s unk); reflexivity. Qed.

(* transform outputs each value's group leader (str_nan shown as NaN) *)
Theorem chained_transform_leader : forall levels col mfd drop c g lpv col' out,
  fitted levels col mfd drop c g lpv ->
  transform g lpv col' = Ok out ->
  (forall r, In r (fillna col') -> In r (values g)) /\
  out = map (fun r => if val_eqb (get_group g r) nan_s then VNaN else get_group g r) (fillna col').
Proof.
  intros levels col mfd drop c g lpv col' out HF Ht.
  pose proof (fitted_keys _ _ _ _ _ _ _ HF) as Hn.
  pose proof HF as (Hnd & Ei & Hnn & Hfit).
  destruct (fitted_facts _ _ _ _ _ _ _ HF) as (Wg & Hlpv & _ & _ & _ & _ & HL).
  destruct (chained_transform_lookup g lpv col' out Ht) as (Hrows & ->).
  split; [exact Hrows|]. subst lpv. apply map_ext_in. intros r Hr. cbn zeta.
  assert (Hr1 : aget r (labels_per_values g) = Some (get_group g r)).
  { rewrite (lpv_spec g Wg Hn r). replace (mem r (values g)) with true; [reflexivity|].
    symmetry. apply mem_In. apply Hrows. exact Hr. }
  assert (E : get_group g nan_s = nan_s).
  { rewrite HL, lead_fix; [apply lead0_nan|].
    intros l Hl. rewrite lead0_nan. apply (Hnn l Hl). }
  assert (Hn1 : aget nan_s (labels_per_values g) = if mem nan_s (values g) then Some nan_s else None).
  { rewrite (lpv_spec g Wg Hn nan_s), E. reflexivity. }
  rewrite Hr1, Hn1. destruct (mem nan_s (values g)) eqn:Em; [reflexivity|].
  apply mem_false in Em.
  replace (val_eqb (get_group g r) nan_s) with false; [reflexivity|].
  symmetry. apply val_eqb_neq. intro E'. apply Em. rewrite <- E'.
  apply get_group_values; [exact Wg | apply Hrows, Hr].
Qed.

(* ---- a concrete instance (non-vacuity) ---------------------------------------------------------- *)
Local Open Scope string_scope.
Definition ex_levels : list dict :=
  [ [(VStr "Lows", [VStr "Low-"; VStr "Low"; VStr "Lows"]); (VStr "Highs", [VStr "High-"; VStr "High"; VStr "Highs"])];
    [(VStr "All", [VStr "Lows"; VStr "Highs"; VStr "All"])] ].
Definition ex_col : list val :=
  repeat (VStr "Low") 10 ++ repeat (VStr "Low-") 2 ++ repeat (VStr "High") 3 ++ [VStr "High-"]
  ++ [VNaN; VNaN; VStr "u1"; VStr "u2"].
Definition ex_mf : Z * Z := (3602879701896397, -54).      (* 0.2 *)

Lemma chained_example :
  exists c g lpv, fitted ex_levels ex_col ex_mf true c g lpv /\
    aget (VStr "Low-") (content_map g) = Some (VStr "All") /\
    aget (VStr "Low") (content_map g) = Some (VStr "Low") /\
    aget (VStr "High-") (content_map g) = Some (VStr "Highs") /\
    aget (VStr "u2") (content_map g) = Some nan_s.
Proof.
  destruct (init ex_levels) as [c| |] eqn:Ei; try (vm_compute in Ei; discriminate).
  destruct (fit ex_levels ex_col ex_mf true) as [[|g lpv]| |] eqn:Ef; try (vm_compute in Ef; discriminate).
  exists c, g, lpv. vm_compute in Ei. injection Ei as <-. vm_compute in Ef. injection Ef as <- <-.
  split; [|repeat split; vm_compute; reflexivity].
  split; [|split; [reflexivity|split]].
  - intros d [<-|[<-|[]]]; apply nodupb_NoDup; vm_compute; reflexivity.
  - intros lv [<-|[<-|[]]]; split; intro H; apply mem_In in H; vm_compute in H; discriminate.
  - vm_compute. reflexivity.
Qed.
