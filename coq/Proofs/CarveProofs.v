(* CarveProofs.v — the carving core of Model/Carve.v returns an optimal viable candidate:
   [stage] = argmax of the measure among the viable candidates (C01), at both stages; the kept
   grouping has at most max_n_mod groups and is viable on the final units (C02); the model's own
   outcome passes the checker's booleans C01_b / C02_b of Model/CheckC01.v.
   Viability and the measure are treated as black boxes throughout. *)
From Coq Require Import ZArith QArith List Bool Lia Sorted.
Import ListNotations.
From AC.Model Require Import Float Combos Measures Carve CheckC01.
From AC.Proofs Require Import CombosProofs.
Local Open Scope nat_scope.

Local Arguments viable : simpl never.
Local Arguments measure : simpl never.

(* ---- oq_le is a total preorder ----------------------------------------------------------- *)

Lemma oq_le_refl : forall a, oq_le a a = true.
Proof. intros [q|]; simpl; auto. apply Qle_bool_iff, Qle_refl. Qed.

Lemma oq_le_trans : forall a b c, oq_le a b = true -> oq_le b c = true -> oq_le a c = true.
Proof.
  intros [x|] [y|] [z|]; simpl; auto; try discriminate.
  rewrite !Qle_bool_iff. apply Qle_trans.
Qed.

Lemma oq_le_total : forall a b, oq_le a b = false -> oq_le b a = true.
Proof.
  intros [x|] [y|]; simpl; auto; try discriminate. intro H.
  apply Qle_bool_iff. apply Qlt_le_weak. apply Qnot_le_lt.
  intro Hle. apply Qle_bool_iff in Hle. congruence.
Qed.

Lemma oq_le_ge_tol : forall a b, oq_le a b = true -> oq_ge_tol b a = true.
Proof.
  intros [x|] [y|]; simpl; auto; try discriminate.
  intro H. rewrite H. apply orb_true_r.
Qed.

(* ---- sort_desc: same elements, sorted by decreasing measure ------------------------------ *)

Definition desc {A} (a b : A * option Q) : Prop := oq_le (snd b) (snd a) = true.

Lemma ins_desc_In : forall A (x z : A * option Q) l,
  In z (ins_desc x l) <-> z = x \/ In z l.
Proof.
  intros A x z l. induction l as [|y t IH]; simpl.
  - intuition.
  - destruct (oq_le (snd x) (snd y)); simpl; rewrite ?IH; intuition.
Qed.

Lemma ins_desc_sorted : forall A (x : A * option Q) l,
  StronglySorted desc l -> StronglySorted desc (ins_desc x l).
Proof.
  intros A x l Hs. induction l as [|y t IH]; simpl.
  - constructor; constructor.
  - inversion Hs as [|y' t' Hst Hall]; subst y' t'.
    destruct (oq_le (snd x) (snd y)) eqn:E.
    + constructor; [apply IH; exact Hst|].
      apply Forall_forall. intros z Hz. apply ins_desc_In in Hz. destruct Hz as [->|Hz].
      * exact E.
      * rewrite Forall_forall in Hall. apply Hall; exact Hz.
    + apply oq_le_total in E. constructor; [exact Hs|].
      constructor; [exact E|].
      apply Forall_forall. intros z Hz. rewrite Forall_forall in Hall.
      unfold desc. apply oq_le_trans with (b := snd y); [apply Hall; exact Hz|exact E].
Qed.

Lemma fold_ins_In : forall A (l acc : list (A * option Q)) z,
  In z (fold_left (fun acc x => ins_desc x acc) l acc) <-> In z l \/ In z acc.
Proof.
  intros A l. induction l as [|x t IH]; intros acc z; simpl.
  - tauto.
  - rewrite IH, ins_desc_In. intuition.
Qed.

Lemma fold_ins_sorted : forall A (l acc : list (A * option Q)),
  StronglySorted desc acc -> StronglySorted desc (fold_left (fun acc x => ins_desc x acc) l acc).
Proof.
  intros A l. induction l as [|x t IH]; intros acc Hs; simpl; auto.
  apply IH, ins_desc_sorted, Hs.
Qed.

Lemma sort_desc_In : forall A (l : list (A * option Q)) z, In z (sort_desc l) <-> In z l.
Proof. intros A l z. unfold sort_desc. rewrite fold_ins_In. simpl. tauto. Qed.

Lemma sort_desc_sorted : forall A (l : list (A * option Q)), StronglySorted desc (sort_desc l).
Proof. intros A l. unfold sort_desc. apply fold_ins_sorted. constructor. Qed.

(* ---- find on a sorted list --------------------------------------------------------------- *)

Lemma find_sorted : forall A (f : A * option Q -> bool) l x,
  StronglySorted desc l -> find f l = Some x ->
  In x l /\ f x = true /\ forall y, In y l -> f y = true -> desc x y.
Proof.
  intros A f l x Hs. induction Hs as [|a t Hst IH Hall]; simpl; intro Hf; [discriminate|].
  destruct (f a) eqn:Fa.
  - inversion Hf; subst x. split; [auto|]. split; [exact Fa|].
    intros y [<-|Hy] _.
    + apply oq_le_refl.
    + rewrite Forall_forall in Hall. apply Hall; exact Hy.
  - destruct (IH Hf) as [Hin [Hfx Hmax]]. split; [auto|]. split; [exact Hfx|].
    intros y [<-|Hy] Fy; [congruence|]. apply Hmax; assumption.
Qed.

Lemma find_none_iff : forall A (f : A -> bool) l,
  find f l = None <-> forall x, In x l -> f x = false.
Proof.
  intros A f l. split; [apply find_none|].
  induction l as [|a t IH]; simpl; intro H; auto.
  rewrite (H a) by auto. apply IH. intros x Hx; apply H; auto.
Qed.

(* ---- stage -------------------------------------------------------------------------------- *)

Lemma stage_unfold : forall cf train dev cands,
  stage cf train dev cands =
  match find (fun cm => viable cf train dev (fst cm))
             (sort_desc (map (fun c => (c, measure cf train (total_n train) c)) cands)) with
  | Some cm => Some (fst cm)
  | None => None
  end.
Proof. reflexivity. Qed.

Theorem stage_some : forall cf train dev cands c, stage cf train dev cands = Some c ->
  In c cands /\ viable cf train dev c = true /\
  forall c', In c' cands -> viable cf train dev c' = true ->
     oq_le (measure cf train (total_n train) c') (measure cf train (total_n train) c) = true.
Proof.
  intros cf train dev cands c H. rewrite stage_unfold in H.
  destruct (find _ _) as [cm|] eqn:F; [|discriminate]. inversion H; subst c; clear H.
  apply find_sorted in F; [|apply sort_desc_sorted].
  destruct F as [Hin [Hv Hmax]].
  apply sort_desc_In, in_map_iff in Hin. destruct Hin as [c [Hcm Hc]]. subst cm.
  simpl in *. split; [exact Hc|]. split; [exact Hv|].
  intros c' Hc' Hv'.
  apply (Hmax (c', measure cf train (total_n train) c')); [|exact Hv'].
  apply sort_desc_In, in_map_iff. exists c'. auto.
Qed.

Theorem stage_none : forall cf train dev cands, stage cf train dev cands = None <->
  (forall c, In c cands -> viable cf train dev c = false).
Proof.
  intros cf train dev cands. rewrite stage_unfold. split.
  - intros H c Hc. destruct (find _ _) as [cm|] eqn:F; [discriminate|].
    apply (proj1 (find_none_iff _ _ _) F (c, measure cf train (total_n train) c)).
    apply sort_desc_In, in_map_iff. exists c. auto.
  - intro H.
    assert (F : find (fun cm => viable cf train dev (fst cm))
                  (sort_desc (map (fun c => (c, measure cf train (total_n train) c)) cands)) = None).
    { apply find_none_iff. intros cm Hcm. apply sort_desc_In, in_map_iff in Hcm.
      destruct Hcm as [c [<- Hc]]. simpl. apply H; exact Hc. }
    rewrite F. reflexivity.
Qed.

(* ---- carve, in a form convenient for case analysis ---------------------------------------- *)

Definition cands1 (cf : cfg) (d : feature_data) :=
  consecutive_combinations (seq 0 (length (d_train d))) (max_n_mod cf).

Definition cands2 (cf : cfg) (c1 : grouping) :=
  nan_combinations (seq 0 (length c1)) (length c1) (max_n_mod cf).

Lemma carve_eq : forall cf d,
  carve cf d =
  if length (d_train d) <=? 1 then Dropped
  else match stage cf (d_train d) (d_dev d) (cands1 cf d) with
       | None => Dropped
       | Some c1 =>
           if two_stage cf d then
             match stage cf (fst (stage2_inputs d c1)) (snd (stage2_inputs d c1)) (cands2 cf c1) with
             | Some c2 => Kept (expand c1 (length (d_train d)) c2)
             | None => Dropped
             end
           else Kept c1
       end.
Proof.
  intros cf d. unfold carve, two_stage, stage2_inputs, cands1, cands2. cbv zeta.
  destruct (length (d_train d) <=? 1); [reflexivity|].
  destruct (stage cf (d_train d) (d_dev d) _) as [c1|]; [|reflexivity].
  destruct (d_train_nan d) as [tn|]; destruct (dropna cf); reflexivity.
Qed.

(* the five-part statement for a stage-1 winner *)
Lemma stage1_some_spec : forall cf d c, stage cf (d_train d) (d_dev d) (cands1 cf d) = Some c ->
  concat c = seq 0 (length (d_train d)) /\ Forall (fun g => g <> []) c /\ 2 <= length c <= max_n_mod cf /\
  viable cf (d_train d) (d_dev d) c = true /\
  forall c', concat c' = seq 0 (length (d_train d)) -> Forall (fun g => g <> []) c' -> 2 <= length c' <= max_n_mod cf ->
     viable cf (d_train d) (d_dev d) c' = true ->
     oq_le (measure cf (d_train d) (total_n (d_train d)) c') (measure cf (d_train d) (total_n (d_train d)) c) = true.
Proof.
  intros cf d c H. apply stage_some in H. destruct H as [Hin [Hv Hmax]].
  unfold cands1 in Hin. apply compositions_spec in Hin. destruct Hin as [Hcat [Hne Hlen]].
  split; [exact Hcat|]. split; [exact Hne|]. split; [exact Hlen|]. split; [exact Hv|].
  intros c' Hcat' Hne' Hlen' Hv'. apply Hmax; [|exact Hv'].
  unfold cands1. apply compositions_spec. auto.
Qed.

Theorem carve_kept_one_stage : forall cf d c, two_stage cf d = false -> carve cf d = Kept c ->
  concat c = seq 0 (length (d_train d)) /\ Forall (fun g => g <> []) c /\ 2 <= length c <= max_n_mod cf /\
  viable cf (d_train d) (d_dev d) c = true /\
  forall c', concat c' = seq 0 (length (d_train d)) -> Forall (fun g => g <> []) c' -> 2 <= length c' <= max_n_mod cf ->
     viable cf (d_train d) (d_dev d) c' = true ->
     oq_le (measure cf (d_train d) (total_n (d_train d)) c') (measure cf (d_train d) (total_n (d_train d)) c) = true.
Proof.
  intros cf d c T H. rewrite carve_eq, T in H.
  destruct (length (d_train d) <=? 1); [discriminate|].
  destruct (stage cf (d_train d) (d_dev d) (cands1 cf d)) as [c1|] eqn:S1; [|discriminate].
  inversion H; subst c1. apply stage1_some_spec; exact S1.
Qed.

Theorem carve_kept_two_stage : forall cf d c, two_stage cf d = true -> carve cf d = Kept c ->
  exists c1 c2, c = expand c1 (length (d_train d)) c2 /\
    stage cf (d_train d) (d_dev d) (cands1 cf d) = Some c1 /\
    let '(t2, d2) := stage2_inputs d c1 in
    In c2 (nan_combinations (seq 0 (length c1)) (length c1) (max_n_mod cf)) /\ viable cf t2 d2 c2 = true /\
    forall c2', In c2' (nan_combinations (seq 0 (length c1)) (length c1) (max_n_mod cf)) -> viable cf t2 d2 c2' = true ->
       oq_le (measure cf t2 (total_n t2) c2') (measure cf t2 (total_n t2) c2) = true.
Proof.
  intros cf d c T H. rewrite carve_eq, T in H.
  destruct (length (d_train d) <=? 1); [discriminate|].
  destruct (stage cf (d_train d) (d_dev d) (cands1 cf d)) as [c1|] eqn:S1; [|discriminate].
  destruct (stage cf _ _ (cands2 cf c1)) as [c2|] eqn:S2; [|discriminate].
  inversion H; subst c. exists c1, c2. split; [reflexivity|]. split; [reflexivity|].
  destruct (stage2_inputs d c1) as [t2 d2]. simpl in S2.
  apply stage_some in S2. exact S2.
Qed.

Theorem carve_dropped_iff : forall cf d, carve cf d = Dropped <->
  (length (d_train d) <= 1 \/
   (forall c, In c (cands1 cf d) -> viable cf (d_train d) (d_dev d) c = false) \/
   (two_stage cf d = true /\ exists c1, stage cf (d_train d) (d_dev d) (cands1 cf d) = Some c1 /\
      let '(t2, d2) := stage2_inputs d c1 in
      forall c2, In c2 (nan_combinations (seq 0 (length c1)) (length c1) (max_n_mod cf)) -> viable cf t2 d2 c2 = false)).
Proof.
  intros cf d. rewrite carve_eq. split.
  - destruct (length (d_train d) <=? 1) eqn:Em; [intros _; left; apply Nat.leb_le; exact Em|].
    destruct (stage cf (d_train d) (d_dev d) (cands1 cf d)) as [c1|] eqn:S1.
    + destruct (two_stage cf d) eqn:T; [|discriminate].
      destruct (stage cf _ _ (cands2 cf c1)) as [c2|] eqn:S2; [discriminate|].
      intros _. right; right. split; [reflexivity|]. exists c1. split; [reflexivity|].
      destruct (stage2_inputs d c1) as [t2 d2]. simpl in S2.
      apply (proj1 (stage_none _ _ _ _)). exact S2.
    + intros _. right; left. apply (proj1 (stage_none _ _ _ _)). exact S1.
  - intros [H|[H|[T [c1 [S1 H]]]]].
    + apply Nat.leb_le in H. rewrite H. reflexivity.
    + destruct (length (d_train d) <=? 1); [reflexivity|].
      apply (proj2 (stage_none _ _ _ _)) in H. rewrite H. reflexivity.
    + destruct (length (d_train d) <=? 1); [reflexivity|]. rewrite S1, T.
      destruct (stage2_inputs d c1) as [t2 d2]. simpl.
      apply (proj2 (stage_none _ _ _ _)) in H. unfold cands2. rewrite H. reflexivity.
Qed.

(* ---- C01_b on the model's own outcome ----------------------------------------------------- *)

Lemma nat_list_eqb_refl : forall a, nat_list_eqb a a = true.
Proof. induction a as [|x a IH]; simpl; auto. rewrite Nat.eqb_refl. exact IH. Qed.

Lemma grouping_eqb_refl : forall c, grouping_eqb c c = true.
Proof. induction c as [|g c IH]; simpl; auto. rewrite nat_list_eqb_refl. exact IH. Qed.

Lemma best_viable_in : forall cf train dev cands c,
  stage cf train dev cands = Some c -> In c (best_viable cf train dev cands).
Proof.
  intros cf train dev cands c H. apply stage_some in H. destruct H as [Hin [Hv Hmax]].
  unfold best_viable. cbv zeta.
  apply in_map_iff. exists (c, measure cf train (total_n train) c). split; [reflexivity|].
  apply filter_In. split.
  - apply in_map_iff. exists c. split; [reflexivity|]. apply filter_In. auto.
  - apply forallb_forall. intros cm' Hcm'. apply in_map_iff in Hcm'.
    destruct Hcm' as [c' [<- Hc']]. apply filter_In in Hc'. destruct Hc' as [Hc' Hv'].
    simpl. apply oq_le_ge_tol. apply Hmax; assumption.
Qed.

Lemma best_viable_nil : forall cf train dev cands,
  (forall c, In c cands -> viable cf train dev c = false) -> best_viable cf train dev cands = [].
Proof.
  intros cf train dev cands H. unfold best_viable. cbv zeta.
  assert (E : filter (viable cf train dev) cands = []).
  { induction cands as [|c t IH]; simpl; auto.
    rewrite (H c) by (simpl; auto). apply IH. intros c' Hc'. apply H. simpl; auto. }
  rewrite E. reflexivity.
Qed.

Definition s1_of (cf : cfg) (d : feature_data) : list grouping :=
  if length (d_train d) <=? 1 then []
  else best_viable cf (d_train d) (d_dev d) (cands1 cf d).

Lemma C01_b_eq : forall cf d o,
  C01_b cf d o =
  match o with
  | Kept c =>
      if two_stage cf d then existsb (fun c1 => existsb (grouping_eqb c) (stage2_best cf d c1)) (s1_of cf d)
      else existsb (grouping_eqb c) (s1_of cf d)
  | Dropped =>
      match s1_of cf d with
      | [] => true
      | _ => two_stage cf d &&
             existsb (fun c1 => match stage2_best cf d c1 with [] => true | _ => false end) (s1_of cf d)
      end
  end.
Proof. reflexivity. Qed.

Lemma stage2_best_eq : forall cf d c1,
  stage2_best cf d c1 =
  map (expand c1 (length (d_train d)))
      (best_viable cf (fst (stage2_inputs d c1)) (snd (stage2_inputs d c1)) (cands2 cf c1)).
Proof.
  intros cf d c1. unfold stage2_best, cands2. cbv zeta.
  destruct (stage2_inputs d c1) as [t2 d2]. reflexivity.
Qed.

Theorem carve_satisfies_C01_b : forall cf d, C01_b cf d (carve cf d) = true.
Proof.
  intros cf d. rewrite C01_b_eq, carve_eq. unfold s1_of.
  destruct (length (d_train d) <=? 1) eqn:Em; [reflexivity|].
  destruct (stage cf (d_train d) (d_dev d) (cands1 cf d)) as [c1|] eqn:S1.
  - pose proof (best_viable_in _ _ _ _ _ S1) as Hb1.
    destruct (two_stage cf d) eqn:T.
    + destruct (stage cf _ _ (cands2 cf c1)) as [c2|] eqn:S2.
      * apply existsb_exists. exists c1. split; [exact Hb1|].
        apply existsb_exists. exists (expand c1 (length (d_train d)) c2).
        split; [|apply grouping_eqb_refl].
        rewrite stage2_best_eq. apply in_map. apply best_viable_in. exact S2.
      * assert (Hex : existsb (fun c1 => match stage2_best cf d c1 with [] => true | _ => false end)
                        (best_viable cf (d_train d) (d_dev d) (cands1 cf d)) = true).
        { apply existsb_exists. exists c1. split; [exact Hb1|].
          rewrite stage2_best_eq, best_viable_nil; [reflexivity|].
          apply (proj1 (stage_none _ _ _ _)). exact S2. }
        rewrite Hex.
        destruct (best_viable cf (d_train d) (d_dev d) (cands1 cf d)); reflexivity.
    + apply existsb_exists. exists c1. split; [exact Hb1|apply grouping_eqb_refl].
  - rewrite best_viable_nil; [reflexivity|].
    apply (proj1 (stage_none _ _ _ _)). exact S1.
Qed.

(* ---- rows of an expanded grouping --------------------------------------------------------- *)

Lemma nth_map_lt : forall (A B : Type) (f : A -> B) l i d d',
  i < length l -> nth i (map f l) d' = f (nth i l d).
Proof.
  intros A B f l. induction l as [|x t IH]; intros i d d' Hi; simpl in Hi; [lia|].
  destruct i as [|i]; simpl; auto. apply IH. lia.
Qed.

Lemma group_ms_cons : forall units i g, group_ms units (i :: g) = unit_of units i ++ group_ms units g.
Proof. reflexivity. Qed.

Lemma group_ms_app : forall units a b, group_ms units (a ++ b) = group_ms units a ++ group_ms units b.
Proof. intros. unfold group_ms, ms_union. rewrite map_app, concat_app. reflexivity. Qed.

Lemma group_ms_app1 : forall (U V : list ymset) g,
  (forall i, In i g -> i < length U) -> group_ms (U ++ V) g = group_ms U g.
Proof.
  intros U V g H. unfold group_ms, ms_union. f_equal. apply map_ext_in.
  intros i Hi. unfold unit_of. apply app_nth1. apply H; exact Hi.
Qed.

Lemma rows_of_app1 : forall (U V : list ymset) c,
  (forall g, In g c -> forall i, In i g -> i < length U) -> rows_of (U ++ V) c = rows_of U c.
Proof.
  intros U V c H. unfold rows_of. apply map_ext_in. intros g Hg.
  apply group_ms_app1. apply H; exact Hg.
Qed.

(* ids of a composition of [seq 0 m] are below m *)
Lemma composition_ids : forall (c : grouping) m,
  concat c = seq 0 m -> forall g, In g c -> forall i, In i g -> i < m.
Proof.
  intros c m Hcat g Hg i Hi.
  assert (Hin : In i (concat c)) by (apply in_concat; exists g; auto).
  rewrite Hcat in Hin. apply in_seq in Hin. lia.
Qed.

Lemma group_ms_expand : forall (U : list ymset) tn (c1 : grouping) g,
  concat c1 = seq 0 (length U) ->
  (forall i, In i g -> i <= length c1) ->
  group_ms (U ++ [tn])
    (flat_map (fun i => if Nat.eqb i (length c1) then [length U] else nth i c1 []) g)
  = group_ms (rows_of U c1 ++ [tn]) g.
Proof.
  intros U tn c1 g Hcat. induction g as [|i g IH]; intro Hids; [reflexivity|].
  cbn [flat_map]. rewrite group_ms_app, group_ms_cons, IH by (intros j Hj; apply Hids; simpl; auto).
  f_equal. unfold unit_of at 1.
  assert (Hi : i <= length c1) by (apply Hids; simpl; auto).
  destruct (Nat.eqb i (length c1)) eqn:E.
  - apply Nat.eqb_eq in E. subst i.
    rewrite group_ms_cons. unfold unit_of. rewrite app_nil_r.
    rewrite app_nth2 by lia. rewrite Nat.sub_diag.
    rewrite app_nth2 by (unfold rows_of; rewrite map_length; lia).
    unfold rows_of. rewrite map_length, Nat.sub_diag. reflexivity.
  - apply Nat.eqb_neq in E. assert (Hlt : i < length c1) by lia.
    rewrite app_nth1 by (unfold rows_of; rewrite map_length; exact Hlt).
    unfold rows_of. rewrite (nth_map_lt _ _ (group_ms U) c1 i [] []) by exact Hlt.
    apply group_ms_app1. apply (composition_ids c1 (length U) Hcat).
    apply nth_In. exact Hlt.
Qed.

Lemma rows_of_expand : forall (U : list ymset) tn (c1 c2 : grouping),
  concat c1 = seq 0 (length U) ->
  (forall g, In g c2 -> forall i, In i g -> i <= length c1) ->
  rows_of (U ++ [tn]) (expand c1 (length U) c2) = rows_of (regroup U c1 ++ [tn]) c2.
Proof.
  intros U tn c1 c2 Hcat Hids. unfold regroup. unfold rows_of at 1 2. unfold expand.
  rewrite map_map. apply map_ext_in. intros g Hg.
  apply group_ms_expand; [exact Hcat|]. apply Hids; exact Hg.
Qed.

Lemma cands2_ids : forall cf (c1 c2 : grouping),
  In c2 (cands2 cf c1) -> forall g, In g c2 -> forall i, In i g -> i <= length c1.
Proof.
  intros cf c1 c2 H g Hg i Hi. unfold cands2 in H. apply nan_combinations_spec in H.
  destruct H as [c0 [H0 Hc2]]. apply compositions_spec in H0. destruct H0 as [Hcat _].
  assert (Hin : In i (concat c2)) by (apply in_concat; exists g; auto).
  assert (Hor : i = length c1 \/ In i (concat c0)).
  { destruct Hc2 as [[n [_ ->]]|[_ ->]].
    - apply add_to_nth_concat_In in Hin. exact Hin.
    - rewrite concat_app in Hin. apply in_app_or in Hin. simpl in Hin. intuition. }
  destruct Hor as [->|Hor]; [lia|]. rewrite Hcat in Hor. apply in_seq in Hor. lia.
Qed.

Lemma cands2_length : forall cf (c1 c2 : grouping),
  In c2 (cands2 cf c1) -> length c2 <= max_n_mod cf.
Proof.
  intros cf c1 c2 H. unfold cands2 in H. apply nan_combinations_spec in H.
  destruct H as [c0 [H0 Hc2]]. apply compositions_spec in H0. destruct H0 as [_ [_ Hlen]].
  destruct Hc2 as [[n [_ ->]]|[Hlt ->]].
  - rewrite add_to_nth_length. lia.
  - rewrite app_length. simpl. lia.
Qed.

(* viability only looks at the rows *)
Lemma viable_ext_none : forall cf t t' (c c' : grouping),
  rows_of t c = rows_of t' c' -> viable cf t None c = viable cf t' None c'.
Proof. intros cf t t' c c' H. unfold viable. cbv zeta. rewrite H. reflexivity. Qed.

Lemma viable_ext_some : forall cf t t' dv dv' (c c' : grouping),
  rows_of t c = rows_of t' c' -> rows_of dv c = rows_of dv' c' ->
  viable cf t (Some dv) c = viable cf t' (Some dv') c'.
Proof. intros cf t t' dv dv' c c' H1 H2. unfold viable. cbv zeta. rewrite H1, H2. reflexivity. Qed.

(* ---- C02_b on the model's own outcome ----------------------------------------------------- *)

(* [carve_satisfies_C02_b] as stated (for every [feature_data]) is FALSE: nothing in the record
   forces the dev aggregates to be aligned with the train ones.  Counterexample (vm_compute):
     cf = mkCfg 2 (f_of_dyadic 1 (-4)) false Cramerv,
     d  = mkData [[(0,5);(1,3)]; [(0,2);(1,6)]; [(0,4);(1,4)]] (Some [(0,3);(1,3)])
                 (Some [[(0,5);(1,3)]; [(0,2);(1,6)]]) (Some [(0,300);(1,1)])
   gives carve cf d = Kept [[0]; [1; 2]] and C02_b cf d (carve cf d) = false: id 2 designates the
   (absent, hence empty) third dev unit for [carve] but the dev missing-value unit for [C02_b].
   The same happens with a dev list that is too long.  The statement holds as soon as the dev list
   has one entry per train modality, which the harness guarantees by construction. *)
Definition dev_aligned (d : feature_data) : Prop :=
  match d_dev d with
  | Some dv => length dv = length (d_train d)
  | None => True
  end.

Theorem carve_satisfies_C02_b_partial : forall cf d, dev_aligned d -> C02_b cf d (carve cf d) = true.
Proof.
  intros cf d Hal. unfold C02_b. rewrite carve_eq. cbv zeta.
  destruct (length (d_train d) <=? 1) eqn:Em; [reflexivity|].
  destruct (stage cf (d_train d) (d_dev d) (cands1 cf d)) as [c1|] eqn:S1; [|reflexivity].
  destruct (stage1_some_spec _ _ _ S1) as [Hcat [_ [Hlen [Hv1 _]]]].
  pose proof (composition_ids c1 _ Hcat) as Hids1.
  destruct (two_stage cf d) eqn:T.
  - unfold two_stage in T. apply andb_true_iff in T. destruct T as [_ T].
    unfold stage2_inputs. destruct (d_train_nan d) as [tn|]; [|discriminate].
    cbn [fst snd].
    destruct (stage cf _ _ (cands2 cf c1)) as [c2|] eqn:S2; [|reflexivity].
    apply stage_some in S2. destruct S2 as [Hin2 [Hv2 _]].
    pose proof (cands2_ids _ _ _ Hin2) as Hids2.
    apply andb_true_iff. split.
    + apply Nat.leb_le. unfold expand. rewrite map_length. apply (cands2_length _ _ _ Hin2).
    + rewrite <- Hv2. unfold dev_aligned in Hal. destruct (d_dev d) as [dv|].
      * apply viable_ext_some.
        -- apply rows_of_expand; assumption.
        -- rewrite <- Hal. apply rows_of_expand; [rewrite Hal; exact Hcat|exact Hids2].
      * apply viable_ext_none. apply rows_of_expand; assumption.
  - apply andb_true_iff. split; [apply Nat.leb_le; lia|].
    rewrite <- Hv1. unfold dev_aligned in Hal. destruct (d_dev d) as [dv|].
    + apply viable_ext_some.
      * apply rows_of_app1. exact Hids1.
      * apply rows_of_app1. rewrite Hal. exact Hids1.
    + apply viable_ext_none. apply rows_of_app1. exact Hids1.
Qed.

(* without dev data the alignment is vacuous *)
Corollary carve_satisfies_C02_b_nodev : forall cf d, d_dev d = None -> C02_b cf d (carve cf d) = true.
Proof.
  intros cf d H. apply carve_satisfies_C02_b_partial. unfold dev_aligned. rewrite H. exact I.
Qed.

Print Assumptions stage_some.
Print Assumptions stage_none.
Print Assumptions carve_kept_one_stage.
Print Assumptions carve_kept_two_stage.
Print Assumptions carve_dropped_iff.
Print Assumptions carve_satisfies_C01_b.
Print Assumptions carve_satisfies_C02_b_partial.
Print Assumptions carve_satisfies_C02_b_nodev.
