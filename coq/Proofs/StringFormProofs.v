(* StringFormProofs.v — the general theorem behind "numeric-looking qualitative values being
   matched through their string form" (StringDiscretizer.fit_feature, model Model/StringForm.v).
   For ANY list of unique raw values and ANY string-form table:
     fit_feature_ok                     : the fit returns Ok g, with WF g
     fit_feature_groups_by_string_form  : get_group g v = str_form t v for every raw value v
     fit_feature_leaders                : the exact order of leaders and the values of g
   Hypotheses (minimal, see the counterexamples at the end of the file):
     NoDup raw ;
     sf_closed  : a string form that is itself a raw value is its own string form ;
     nan_fresh  : when the column has missing values, the sentinel is neither a raw value nor a
                  string form of a raw value.
   Nothing has to be assumed on VNaN (the model's membership tests are identity-or-==).
   fit_feature_natural restates the three results under the usual, stronger conditions. *)
From Coq Require Import Permutation Lia.
From AC.Model Require Import Base GroupedList StringForm.
From AC.Proofs Require Import BaseLemmas GroupedListSpec GroupedListProofs.

(* ---- two facts on gl operations, in the form needed here --------------------------------- *)

Lemma group_get : forall g d k g', WF g -> d <> k -> In d (keys g) -> In k (keys g) ->
  group g d k = Ok g' -> forall x, x <> d ->
  get g' x = if val_eqb x k then get g d ++ get g k else get g x.
Proof.
  intros [ks c] d k g' Hwf Hne Hd Hk Hg x Hx.
  destruct (WF_key_dget _ d Hwf Hd) as (cd & Hcd & _).
  destruct (WF_key_dget _ k Hwf Hk) as (ck & Hck & _).
  cbn [keys content] in *.
  unfold group, is_equal in Hg; cbn [keys content] in Hg.
  rewrite (proj2 (val_eqb_neq d k) Hne), (proj2 (mem_In d ks) Hd), (proj2 (mem_In k ks) Hk),
    Hcd, Hck in Hg.
  cbn [negb] in Hg. unfold remove in Hg; cbn [keys content] in Hg.
  destruct (lremove d ks); [|discriminate].
  destruct (dpop d (dset d [] (dset k (cd ++ ck) c))) as [c3|] eqn:E3; [|discriminate].
  inversion Hg; subst g'. unfold get; cbn [content].
  rewrite (dget_dpop_other _ _ _ _ E3 Hx), dget_dset_other by exact Hx.
  rewrite Hcd, Hck. veq x k.
  - subst. rewrite dget_dset_same. reflexivity.
  - rewrite dget_dset_other by exact E. reflexivity.
Qed.

Lemma append_get_other : forall g s x, x <> s -> get (append g s) x = get g x.
Proof. intros g s x H. unfold get, append; cbn [content]. rewrite dget_dset_other; auto. Qed.

Lemma get_group_of_get : forall g l v, WF g -> In v (get g l) -> get_group g v = l.
Proof.
  intros g l v Hwf H. unfold get in H. destruct (dget l (content g)) as [vs|] eqn:E; [|destruct H].
  apply (get_group_spec g l vs v Hwf); [apply dget_In; exact E | exact H].
Qed.

Lemma keep_first_snoc : forall l x,
  keep_first (l ++ [x]) [] =
  if mem x (keep_first l []) then keep_first l [] else keep_first l [] ++ [x].
Proof. intros l x. unfold keep_first. rewrite fold_left_app. reflexivity. Qed.

(* ---- the fit ----------------------------------------------------------------------------- *)
Section Fit.
Context (t : sf_table) (raw : list val).

Definition sf (v : val) : val := str_form t v.

(* a raw value that is its own string form (a string) *)
Definition fixb (v : val) : bool := val_eqb (sf v) v.

(* the string forms of [l] that are not raw values, without repetition, by first appearance *)
Definition news (l : list val) : list val :=
  keep_first (filter (fun s => negb (mem s raw)) (map sf l)) [].

Definition sentinel (has_nan : bool) (nan : val) : list val := if has_nan then [nan] else [].

(* the conditions of the theorems *)
Definition sf_closed : Prop := forall v, In v raw -> In (sf v) raw -> sf (sf v) = sf v.
Definition nan_fresh (has_nan : bool) (nan : val) : Prop :=
  has_nan = true -> ~ In nan raw /\ ~ In nan (map sf raw).

(* the natural condition (the string form of a non-string is a string) implies sf_closed *)
Lemma sf_str_fixed : forall v, is_str v = true -> sf v = v.
Proof. intros v H. unfold sf, str_form. rewrite H. reflexivity. Qed.

Lemma natural_sf_closed :
  (forall v, In v raw -> is_str v = false -> is_str (sf_lookup t v) = true) -> sf_closed.
Proof.
  intros H v Hv _. destruct (is_str v) eqn:E.
  - rewrite (sf_str_fixed v E). apply sf_str_fixed; exact E.
  - apply sf_str_fixed. unfold sf, str_form. rewrite E. apply H; assumption.
Qed.

Lemma news_In : forall l x, In x (news l) <-> In x (map sf l) /\ ~ In x raw.
Proof.
  intros l x. unfold news. rewrite In_keep_first, filter_In, negb_true_iff, mem_false.
  simpl. tauto.
Qed.

Lemma news_NoDup : forall l, NoDup (news l).
Proof. intro l. apply NoDup_keep_first. constructor. Qed.

Lemma news_snoc : forall l v,
  news (l ++ [v]) =
  if mem (sf v) raw then news l
  else if mem (sf v) (news l) then news l else news l ++ [sf v].
Proof.
  intros l v. unfold news. rewrite map_app, filter_app. cbn [map filter].
  destruct (mem (sf v) raw); cbn [negb].
  - rewrite app_nil_r. reflexivity.
  - apply keep_first_snoc.
Qed.

(* state of the loop after the raw values [done], with [todo] still to come *)
Definition Inv (done todo : list val) (g : gl) : Prop :=
  WF g /\
  keys g = filter fixb done ++ todo ++ news done /\
  (forall v, In v done -> In v (get g (sf v))) /\
  Permutation (values g) (raw ++ news done).

Lemma Inv_init : NoDup raw -> Inv [] raw (of_list raw).
Proof.
  intro Hnd. pose proof (wf_of_list raw Hnd) as Hwf. split; [exact Hwf|].
  split; [|split].
  - cbn. rewrite app_nil_r. reflexivity.
  - intros v [].
  - unfold news; cbn. rewrite app_nil_r. unfold values, of_list; cbn [content].
    rewrite dict_of_keys_map, (keep_first_NoDup_id raw Hnd), dvalues_map, flat_map_singleton.
    reflexivity.
Qed.

Lemma Inv_step : NoDup raw -> sf_closed -> forall done v rest g,
  raw = done ++ v :: rest -> Inv done (v :: rest) g ->
  exists g', group (if mem (sf v) (keys g) then g else append g (sf v)) v (sf v) = Ok g' /\
             Inv (done ++ [v]) rest g'.
Proof.
  intros Hnd Hcl done v rest g Hraw (Hwf & Hkeys & Hget & Hvals).
  set (s := sf v). set (g1 := if mem s (keys g) then g else append g s).
  assert (Hvraw : In v raw) by (rewrite Hraw; apply in_or_app; right; left; reflexivity).
  assert (Hdone : forall x, In x done -> In x raw) by (intros x Hx; rewrite Hraw; apply in_or_app; auto).
  assert (Hvnot : ~ In v (done ++ rest)) by (apply NoDup_remove_2; rewrite <- Hraw; exact Hnd).
  (* after the conditional append *)
  assert (H1 : WF g1 /\ keys g1 = filter fixb done ++ (v :: rest) ++ news (done ++ [v]) /\
               (forall x, In x done -> In x (get g1 (sf x))) /\
               Permutation (values g1) (raw ++ news (done ++ [v])) /\ In s (keys g1)).
  { unfold g1. rewrite news_snoc. fold s. destruct (mem s (keys g)) eqn:Em.
    - apply mem_In in Em.
      assert (En : (if mem s raw then news done
                    else if mem s (news done) then news done else news done ++ [s]) = news done).
      { destruct (mem s raw) eqn:Er; [reflexivity|]. apply mem_false in Er.
        assert (Hs : In s (news done)).
        { rewrite Hkeys in Em. apply in_app_or in Em. destruct Em as [Em|Em].
          - apply filter_In in Em. exfalso; apply Er, Hdone, Em.
          - apply in_app_or in Em. destruct Em as [Em|Em]; [|exact Em].
            exfalso; apply Er. rewrite Hraw. apply in_or_app; right; exact Em. }
        apply mem_In in Hs. rewrite Hs. reflexivity. }
      rewrite En. auto.
    - apply mem_false in Em.
      assert (Hsn : ~ In s (news done)).
      { intro Hi. apply Em. rewrite Hkeys. apply in_or_app; right. apply in_or_app; right; exact Hi. }
      assert (Hsr : ~ In s raw).
      { intro Hi. apply Em. rewrite Hkeys. rewrite Hraw in Hi. apply in_app_or in Hi.
        destruct Hi as [Hi|Hi]; [|apply in_or_app; right; apply in_or_app; left; exact Hi].
        (* s was processed: by closure it is its own string form, hence still a leader *)
        apply in_or_app; left. apply filter_In. split; [exact Hi|].
        unfold fixb. apply val_eqb_eq. apply (Hcl v Hvraw). apply Hdone; exact Hi. }
      apply mem_false in Hsr as Er. apply mem_false in Hsn as En. rewrite Er, En.
      assert (Hsv : ~ In s (values g)).
      { intro Hi. apply (Permutation_in _ Hvals) in Hi. apply in_app_or in Hi. tauto. }
      destruct (append_spec g s Hwf Hsv) as (Hwf1 & _ & Hv1).
      split; [exact Hwf1|]. split; [|split; [|split]].
      + unfold append; cbn [keys]. rewrite Hkeys, <- !app_assoc. reflexivity.
      + intros x Hx. pose proof (Hget x Hx) as Hg.
        rewrite append_get_other; [exact Hg|].
        intro E. rewrite E, (WF_get_notin g s Hwf Em) in Hg. destruct Hg.
      + rewrite Hv1, app_assoc. apply Permutation_app_tail. exact Hvals.
      + unfold append; cbn [keys]. apply in_or_app; right; left; reflexivity. }
  clearbody g1. destruct H1 as (Hwf1 & Hk1 & Hget1 & Hv1 & Hs1).
  assert (Hv1k : In v (keys g1)).
  { rewrite Hk1. apply in_or_app; right. left; reflexivity. }
  destruct (val_eq_dec v s) as [E|E].
  - (* a string: group is a no-op, v stays a leader *)
    exists g1. split.
    { unfold group, is_equal. rewrite <- E, val_eqb_refl. reflexivity. }
    assert (Ef : fixb v = true) by (unfold fixb; fold s; rewrite <- E; apply val_eqb_refl).
    split; [exact Hwf1|]. split; [|split].
    + rewrite filter_app. cbn [filter]. rewrite Ef, Hk1, <- !app_assoc. reflexivity.
    + intros x Hx. apply in_app_or in Hx. destruct Hx as [Hx|[Hx|[]]]; [auto|].
      subst x. fold s. rewrite <- E. apply WF_key_get; assumption.
    + exact Hv1.
  - (* a non-string: v leaves the leaders and joins the group of s *)
    destruct (group_spec g1 v s Hwf1 E Hv1k Hs1) as (g' & Hg' & Hwf' & Hk' & _ & Hp').
    exists g'. split; [exact Hg'|].
    assert (Ef : fixb v = false) by (unfold fixb; fold s; apply val_eqb_neq; congruence).
    split; [exact Hwf'|]. split; [|split].
    + rewrite filter_app. cbn [filter]. rewrite Ef, app_nil_r.
      rewrite Hk', Hk1, !filter_app. cbn [filter]. rewrite val_eqb_refl. cbn [negb].
      rewrite !filter_neq_notin; [reflexivity| | |].
      * intro Hi. apply news_In in Hi. tauto.
      * intro Hi. apply Hvnot. apply in_or_app; right; exact Hi.
      * intro Hi. apply filter_In in Hi. apply Hvnot. apply in_or_app; left; tauto.
    + intros x Hx. apply in_app_or in Hx. destruct Hx as [Hx|[Hx|[]]].
      * assert (Hxv : sf x <> v).
        { intro Ex. apply E. unfold s. rewrite <- Ex. symmetry. apply Hcl; [auto|].
          rewrite Ex; exact Hvraw. }
        rewrite (group_get g1 v s g' Hwf1 E Hv1k Hs1 Hg' (sf x) Hxv).
        destruct (val_eqb (sf x) s) eqn:Exs; [|auto].
        apply val_eqb_eq in Exs. apply in_or_app; right. rewrite <- Exs. auto.
      * subst x. fold s.
        rewrite (group_get g1 v s g' Hwf1 E Hv1k Hs1 Hg' s (not_eq_sym E)), val_eqb_refl.
        apply in_or_app; left. apply WF_key_get; assumption.
    + rewrite Hp'. exact Hv1.
Qed.

Lemma sf_loop_inv : NoDup raw -> sf_closed -> forall todo done g,
  raw = done ++ todo -> Inv done todo g ->
  exists g', sf_loop t todo g = Ok g' /\ Inv raw [] g'.
Proof.
  intros Hnd Hcl todo; induction todo as [|v rest IH]; intros done g Hraw Hinv.
  - rewrite app_nil_r in Hraw. subst done. exists g. split; [reflexivity | exact Hinv].
  - cbn [sf_loop].
    destruct (Inv_step Hnd Hcl done v rest g Hraw Hinv) as (g1 & Hg1 & Hinv1).
    unfold sf in Hg1. rewrite Hg1. cbn [bind].
    apply (IH (done ++ [v])); [rewrite <- app_assoc; exact Hraw | exact Hinv1].
Qed.

(* everything about the result, at once *)
Lemma string_fit_full : forall has_nan nan,
  NoDup raw -> sf_closed -> nan_fresh has_nan nan ->
  exists g, string_fit t raw has_nan nan = Ok g /\ WF g /\
    keys g = filter fixb raw ++ news raw ++ sentinel has_nan nan /\
    (forall v, In v raw -> In v (get g (sf v))) /\
    Permutation (values g) (raw ++ news raw ++ sentinel has_nan nan).
Proof.
  intros has_nan nan Hnd Hcl Hnan.
  destruct (sf_loop_inv Hnd Hcl raw [] (of_list raw) eq_refl (Inv_init Hnd))
    as (g & Hg & Hwf & Hk & Hget & Hv).
  cbn [app] in Hk. unfold string_fit. rewrite Hg. cbn [bind]. unfold sentinel.
  destruct has_nan.
  - destruct (Hnan eq_refl) as [Hn1 Hn2].
    assert (Hnv : ~ In nan (values g)).
    { intro Hi. apply (Permutation_in _ Hv) in Hi. apply in_app_or in Hi.
      destruct Hi as [Hi|Hi]; [tauto|]. apply news_In in Hi. tauto. }
    destruct (append_spec g nan Hwf Hnv) as (Hwf1 & _ & Hv1).
    exists (append g nan). split; [reflexivity|]. split; [exact Hwf1|]. split; [|split].
    + unfold append; cbn [keys]. rewrite Hk, <- app_assoc. reflexivity.
    + intros v Hi. rewrite append_get_other; [auto|].
      intro E. apply Hn2. rewrite <- E. apply in_map; exact Hi.
    + rewrite Hv1, !app_assoc. apply Permutation_app_tail. exact Hv.
  - exists g. rewrite !app_nil_r. auto.
Qed.

(* 1. the fit never fails and returns a well formed order *)
Theorem fit_feature_ok : forall has_nan nan,
  NoDup raw -> sf_closed -> nan_fresh has_nan nan ->
  exists g, string_fit t raw has_nan nan = Ok g /\ WF g.
Proof.
  intros has_nan nan H1 H2 H3.
  destruct (string_fit_full has_nan nan H1 H2 H3) as (g & Hg & Hwf & _). eauto.
Qed.

(* 2. every raw value is in the group led by its string form *)
Theorem fit_feature_groups_by_string_form : forall has_nan nan g,
  NoDup raw -> sf_closed -> nan_fresh has_nan nan ->
  string_fit t raw has_nan nan = Ok g ->
  forall v, In v raw -> get_group g v = str_form t v.
Proof.
  intros has_nan nan g H1 H2 H3 Hg v Hv.
  destruct (string_fit_full has_nan nan H1 H2 H3) as (g' & Hg' & Hwf & _ & Hget & _).
  rewrite Hg' in Hg. inversion Hg; subst g'.
  apply get_group_of_get; [exact Hwf | apply Hget; exact Hv].
Qed.

(* hence: same group iff same string form *)
Corollary fit_feature_same_group_iff : forall has_nan nan g,
  NoDup raw -> sf_closed -> nan_fresh has_nan nan ->
  string_fit t raw has_nan nan = Ok g ->
  forall v w, In v raw -> In w raw ->
  (get_group g v = get_group g w <-> str_form t v = str_form t w).
Proof.
  intros has_nan nan g H1 H2 H3 Hg v w Hv Hw.
  rewrite (fit_feature_groups_by_string_form has_nan nan g H1 H2 H3 Hg v Hv),
          (fit_feature_groups_by_string_form has_nan nan g H1 H2 H3 Hg w Hw). tauto.
Qed.

(* 3. the leaders, in the order the implementation produces them: the raw values that are their
   own string form (the raw strings) in raw order, then the string forms that are not raw values
   by first appearance, then the sentinel; and the values. *)
Theorem fit_feature_leaders : forall has_nan nan g,
  NoDup raw -> sf_closed -> nan_fresh has_nan nan ->
  string_fit t raw has_nan nan = Ok g ->
  keys g = filter fixb raw ++ news raw ++ sentinel has_nan nan /\
  Permutation (values g) (raw ++ news raw ++ sentinel has_nan nan).
Proof.
  intros has_nan nan g H1 H2 H3 Hg.
  destruct (string_fit_full has_nan nan H1 H2 H3) as (g' & Hg' & _ & Hk & _ & Hv).
  rewrite Hg' in Hg. inversion Hg; subst g'. auto.
Qed.

(* as a set: the leaders are exactly the distinct string forms, then the sentinel *)
Corollary fit_feature_leaders_set : forall has_nan nan g,
  NoDup raw -> sf_closed -> nan_fresh has_nan nan ->
  string_fit t raw has_nan nan = Ok g ->
  Permutation (keys g) (keep_first (map (str_form t) raw) [] ++ sentinel has_nan nan).
Proof.
  intros has_nan nan g H1 H2 H3 Hg.
  destruct (fit_feature_leaders has_nan nan g H1 H2 H3 Hg) as [Hk _].
  rewrite Hk, app_assoc. apply Permutation_app_tail. apply NoDup_Permutation.
  - apply NoDup_app_iff. split; [|split].
    + apply NoDup_filter; exact H1.
    + apply news_NoDup.
    + intros x Hx Hn. apply filter_In in Hx. apply news_In in Hn. tauto.
  - apply NoDup_keep_first. constructor.
  - intro x. change (str_form t) with sf.
    rewrite In_keep_first, in_app_iff, filter_In, news_In. simpl. split.
    + intros [[Hx Hf]|[Hx _]]; right; [|exact Hx].
      unfold fixb in Hf. apply val_eqb_eq in Hf. rewrite <- Hf. apply in_map; exact Hx.
    + intros [[]|Hx]. destruct (in_dec val_eq_dec x raw) as [Hr|Hr]; [left|right; auto].
      split; [exact Hr|]. apply in_map_iff in Hx. destruct Hx as (v & Ev & Hv).
      unfold fixb. apply val_eqb_eq. rewrite <- Ev. apply H2; [exact Hv | rewrite Ev; exact Hr].
Qed.

End Fit.

(* ---- the hypotheses in their natural form -------------------------------------------------- *)

(* strings are their own form by construction of str_form; when the form of every non-string raw
   value is a string, the leaders are the raw strings followed by the new string forms *)
Lemma fixb_is_str : forall t raw,
  (forall v, In v raw -> is_str v = false -> is_str (sf_lookup t v) = true) ->
  filter (fixb t) raw = filter is_str raw.
Proof.
  intros t raw H. apply filter_ext_in. intros v Hv. unfold fixb, sf, str_form.
  destruct (is_str v) eqn:E; [apply val_eqb_refl|].
  apply val_eqb_neq. intro Ex. specialize (H v Hv E). rewrite Ex, E in H. discriminate.
Qed.

(* the three results under the natural conditions: unique raw values, every non-string raw value
   has a string as string form, and a sentinel that is neither a raw value nor a string form *)
Theorem fit_feature_natural : forall t raw has_nan nan,
  NoDup raw ->
  (forall v, In v raw -> is_str v = false -> is_str (sf_lookup t v) = true) ->
  (has_nan = true -> ~ In nan raw /\ ~ In nan (map (str_form t) raw)) ->
  exists g, string_fit t raw has_nan nan = Ok g /\ WF g /\
    (forall v, In v raw -> get_group g v = str_form t v) /\
    keys g = filter is_str raw ++ news t raw raw ++ sentinel has_nan nan /\
    Permutation (values g) (raw ++ news t raw raw ++ sentinel has_nan nan).
Proof.
  intros t raw has_nan nan H1 H2 H3.
  pose proof (natural_sf_closed t raw H2) as Hcl.
  destruct (fit_feature_ok t raw has_nan nan H1 Hcl H3) as (g & Hg & Hwf).
  destruct (fit_feature_leaders t raw has_nan nan g H1 Hcl H3 Hg) as [Hk Hv].
  exists g. split; [exact Hg|]. split; [exact Hwf|]. split; [|split; [|exact Hv]].
  - apply (fit_feature_groups_by_string_form t raw has_nan nan g H1 Hcl H3 Hg).
  - rewrite Hk, (fixb_is_str t raw H2). reflexivity.
Qed.

(* ---- instances: the order of leaders, and why each condition is needed ----------------------- *)
Open Scope string_scope.

Definition t12 : sf_table := [(VNum 1, VStr "1"); (VNum 2, VStr "2")].

Example order_example :
  string_fit t12 [VNum 1; VStr "1"; VStr "a"; VNum 2] true (VStr "nan")
  = Ok (mkGL [VStr "1"; VStr "a"; VStr "2"; VStr "nan"]
             [(VStr "1", [VNum 1; VStr "1"]); (VStr "a", [VStr "a"]);
              (VStr "2", [VNum 2; VStr "2"]); (VStr "nan", [VStr "nan"])]).
Proof. vm_compute. reflexivity. Qed.

(* the leaders are NOT in order of first appearance of the string forms: a raw string keeps its
   place in the column, a new string form goes to the end *)
Example not_first_appearance :
  exists g, string_fit t12 [VNum 1; VStr "a"] false (VStr "nan") = Ok g /\
    keys g = [VStr "a"; VStr "1"] /\
    keep_first (map (str_form t12) [VNum 1; VStr "a"]) [] = [VStr "1"; VStr "a"].
Proof. eexists. split; [vm_compute; reflexivity|]. split; reflexivity. Qed.

(* NoDup is needed: a repeated raw value raises *)
Example nodup_needed : string_fit t12 [VNum 1; VNum 1] false (VStr "nan") = InternalErr.
Proof. vm_compute. reflexivity. Qed.

(* sf_closed is needed: with str(1) = 5 and str(5) = "5" the value 5 ends in two groups *)
Definition t15 : sf_table := [(VNum 1, VNum 5); (VNum 5, VStr "5")].
Example closed_needed :
  exists g, string_fit t15 [VNum 5; VNum 1] false (VStr "nan") = Ok g /\
    dvalues (content g) = [VNum 5; VStr "5"; VNum 1; VNum 5] /\
    get_group g (VNum 1) = VNum 5 /\ get_group g (VNum 5) = VStr "5".
Proof. eexists. split; [vm_compute; reflexivity|]. repeat split; reflexivity. Qed.

(* nan_fresh is needed: a sentinel equal to a string form is a duplicated leader *)
Example nan_fresh_needed :
  exists g, string_fit t12 [VNum 1; VStr "a"] true (VStr "1") = Ok g /\
    keys g = [VStr "a"; VStr "1"; VStr "1"].
Proof. eexists. split; [vm_compute; reflexivity|]. reflexivity. Qed.

Print Assumptions fit_feature_ok.
Print Assumptions fit_feature_groups_by_string_form.
Print Assumptions fit_feature_leaders.
Print Assumptions fit_feature_same_group_iff.
Print Assumptions fit_feature_leaders_set.
Print Assumptions fit_feature_natural.
