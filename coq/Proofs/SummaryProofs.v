(* SummaryProofs.v — C16, summary half: the rows of Model/Summary.v describe the fitted state
   truthfully.  Qualitative rows partition the known non-numeric values and carry the label
   transform outputs (from C04's lookup theorems); quantitative features get one row per fitted
   group, the missing-value sentinel being shown in the row of the group holding it; the summary of
   one feature is the filter of the whole summary. *)
From Coq Require Import Permutation Lia.
From AC.Model Require Import Base GroupedList Labels Transform FormatRule Summary.
From AC.Proofs Require Import BaseLemmas GroupedListSpec GroupedListProofs TransformSpec
  LabelsProofs TransformProofs.

(* a value the qualitative summary has to show *)
Definition shown (st : state) (v : val) : Prop :=
  is_number v = false /\ v <> st_default st /\ (st_dropna st = true \/ v <> st_nan st).

(* ---- helpers --------------------------------------------------------------------------------- *)

Lemma get_group_member_l : forall g l v,
  WF g -> In l (keys g) -> In v (get g l) -> get_group g v = l.
Proof.
  intros g l v Hwf Hl Hv. destruct (WF_key_dget g l Hwf Hl) as (vs & Hg & _).
  rewrite (get_dget _ _ _ Hg) in Hv.
  apply (get_group_spec g l vs v Hwf); [apply dget_In; exact Hg | exact Hv].
Qed.

Lemma get_group_leader_l : forall g k, WF g -> In k (keys g) -> get_group g k = k.
Proof. intros g k Hwf Hk. apply get_group_member_l; auto. apply WF_key_get; auto. Qed.

(* (a) keys of a label dict stay distinct *)
Lemma lset_keys : forall k l d x, In x (map fst (lset k l d)) -> x = k \/ In x (map fst d).
Proof.
  intros k l d x. induction d as [|[k' l'] t IH]; cbn [lset map fst In].
  - intros [H|[]]. left; auto.
  - veq k k'; cbn [map fst In].
    + intros [H|H]; auto.
    + intros [H|H]; auto. destruct (IH H); auto.
Qed.

Lemma lset_NoDup : forall k l d, NoDup (map fst d) -> NoDup (map fst (lset k l d)).
Proof.
  intros k l d. induction d as [|[k' l'] t IH]; cbn [lset map fst]; intros Hnd.
  - constructor; [intros []|constructor].
  - veq k k'; cbn [map fst].
    + exact Hnd.
    + inversion Hnd as [|? ? Hni Hnd']; subst. constructor.
      * intros Hin. apply lset_keys in Hin. destruct Hin as [Hin|Hin]; [congruence|contradiction].
      * apply IH; exact Hnd'.
Qed.

Lemma fold_lset_NoDup : forall l ws acc, NoDup (map fst acc) ->
  NoDup (map fst (fold_left (fun a w => lset w l a) ws acc)).
Proof.
  intros l ws. induction ws as [|w t IH]; intros acc H; cbn [fold_left]; [exact H|].
  apply IH. apply lset_NoDup. exact H.
Qed.

Lemma lpv_fold_NoDup : forall g pairs acc, NoDup (map fst acc) ->
  NoDup (map fst (fold_left (lpv_step g) pairs acc)).
Proof.
  intros g pairs. induction pairs as [|p t IH]; intros acc H; cbn [fold_left]; [exact H|].
  apply IH. unfold lpv_step. apply fold_lset_NoDup. exact H.
Qed.

Lemma lpv_of_NoDup : forall g labels, NoDup (map fst (lpv_of g labels)).
Proof. intros g labels. unfold lpv_of. apply lpv_fold_NoDup. constructor. Qed.

(* (b) membership vs lookup *)
Lemma lget_In : forall v l d, lget v d = Some l -> In (v, l) d.
Proof.
  intros v l d. induction d as [|[k' l'] t IH]; cbn [lget]; intros H; [discriminate|].
  veq v k'.
  - inversion H; subst. left; reflexivity.
  - right; apply IH; exact H.
Qed.

Lemma In_lget : forall v l d, NoDup (map fst d) -> In (v, l) d -> lget v d = Some l.
Proof.
  intros v l d. induction d as [|[k' l'] t IH]; cbn [lget map fst]; intros Hnd Hin; [destruct Hin|].
  inversion Hnd as [|? ? Hni Hnd']; subst. destruct Hin as [Heq|Hin].
  - inversion Heq; subst. rewrite val_eqb_refl. reflexivity.
  - veq v k'.
    + subst. exfalso. apply Hni. apply (in_map fst) in Hin. exact Hin.
    + apply IH; assumption.
Qed.

(* (c) *)
Lemma lpv_in_values : forall g labels v l, In (v, l) (lpv_of g labels) -> In v (values g).
Proof.
  intros g labels v l Hin. destruct (mem v (values g)) eqn:Hm; [apply mem_In; exact Hm|].
  apply mem_false in Hm. apply (lpv_none g labels) in Hm.
  rewrite (In_lget _ _ _ (lpv_of_NoDup g labels) Hin) in Hm. discriminate.
Qed.

(* (d) *)
Lemma label_eqb_eq : forall a b, label_eqb a b = true <-> a = b.
Proof.
  intros a b; split; intros H.
  - destruct a as [x|n], b as [y|m]; cbn [label_eqb] in H; try discriminate.
    + apply val_eqb_eq in H; subst; reflexivity.
    + apply Nat.eqb_eq in H; subst; reflexivity.
  - subst; apply label_eqb_refl.
Qed.

(* (e) *)
Lemma existsb_label_In : forall l t, existsb (label_eqb l) t = true <-> In l t.
Proof.
  intros l t; rewrite existsb_exists; split.
  - intros (x & Hx & He). apply label_eqb_eq in He; subst; exact Hx.
  - intros H; exists l; split; [exact H|apply label_eqb_refl].
Qed.

Lemma In_ldedup : forall l ls, In l (ldedup ls) <-> In l ls.
Proof.
  intros l ls; induction ls as [|a t IH]; cbn [ldedup]; [tauto|].
  destruct (existsb (label_eqb a) t) eqn:He.
  - apply existsb_label_In in He. cbn [In]. split; [tauto|].
    intros [H|H]; [subst; tauto | tauto].
  - cbn [In]. tauto.
Qed.

Lemma NoDup_ldedup : forall ls, NoDup (ldedup ls).
Proof.
  induction ls as [|a t IH]; cbn [ldedup]; [constructor|].
  destruct (existsb (label_eqb a) t) eqn:He; [exact IH|]. constructor; [|exact IH].
  intros Hin. apply (proj1 (In_ldedup a t)) in Hin. apply (proj2 (existsb_label_In a t)) in Hin.
  congruence.
Qed.

(* (f) *)
Lemma In_dedup_val : forall x l, In x (dedup_val l) <-> In x l.
Proof.
  intros x l; induction l as [|a t IH]; cbn [dedup_val]; [tauto|].
  destruct (mem a t) eqn:He.
  - apply mem_In in He. cbn [In]. split; [tauto|].
    intros [H|H]; [subst; tauto | tauto].
  - cbn [In]. tauto.
Qed.

Lemma NoDup_dedup_val : forall l, NoDup (dedup_val l).
Proof.
  induction l as [|a t IH]; cbn [dedup_val]; [constructor|].
  destruct (mem a t) eqn:He; [exact IH|]. constructor; [|exact IH].
  intros Hin. apply (proj1 (In_dedup_val a t)) in Hin. apply (proj2 (mem_In a t)) in Hin.
  congruence.
Qed.

(* (g) rows_of_entries *)
Lemma In_content_of : forall es l v, In v (content_of es l) <-> In (l, v) es.
Proof.
  intros es l v. unfold content_of. rewrite In_dedup_val, in_map_iff. split.
  - intros ([l' v'] & Hs & Hf). apply filter_In in Hf. destruct Hf as [Hin He].
    cbn [fst snd] in *. apply label_eqb_eq in He. subst. exact Hin.
  - intros Hin. exists (l, v). split; [reflexivity|]. apply filter_In. split; [exact Hin|].
    cbn [fst]. apply label_eqb_refl.
Qed.

Lemma In_rows_of_entries : forall es r,
  In r (rows_of_entries es) <-> exists l, In l (map fst es) /\ r = mkRow l (content_of es l).
Proof.
  intros es r. unfold rows_of_entries. rewrite in_map_iff. split.
  - intros (l & Hr & Hl). apply (proj1 (In_ldedup _ _)) in Hl. exists l; split; [exact Hl|symmetry; exact Hr].
  - intros (l & Hl & Hr). exists l; split; [symmetry; exact Hr|apply (proj2 (In_ldedup _ _)); exact Hl].
Qed.

Lemma labels_rows_of_entries : forall es, map r_label (rows_of_entries es) = ldedup (map fst es).
Proof.
  intros es. unfold rows_of_entries. generalize (ldedup (map fst es)) as ls.
  induction ls as [|a t IH]; cbn [map r_label]; [reflexivity|]. f_equal. exact IH.
Qed.

Lemma In_map_fst : forall (es : list entry) l, In l (map fst es) <-> exists v, In (l, v) es.
Proof.
  intros es l. rewrite in_map_iff. split.
  - intros ([l' v] & He & Hin). cbn [fst] in He. subst. exists v; exact Hin.
  - intros (v & Hin). exists (l, v). split; [reflexivity|exact Hin].
Qed.

(* ---- the fitted table ------------------------------------------------------------------------ *)

Lemma coherent_lpv : forall fmt st, coherent fmt st ->
  st_lpv st = lpv_of (st_order st) (labels_of fmt st).
Proof. intros fmt st [_ H]. exact H. Qed.

Lemma coherent_NoDup : forall fmt st, coherent fmt st -> NoDup (map fst (st_lpv st)).
Proof. intros fmt st Hc. rewrite (coherent_lpv fmt st Hc). apply lpv_of_NoDup. Qed.

Lemma coherent_In_lget : forall fmt st v l, coherent fmt st ->
  In (v, l) (st_lpv st) -> lget v (st_lpv st) = Some l.
Proof. intros fmt st v l Hc Hin. apply In_lget; [apply (coherent_NoDup fmt); exact Hc|exact Hin]. Qed.

Lemma coherent_in_values : forall fmt st v l, coherent fmt st ->
  lget v (st_lpv st) = Some l -> In v (values (st_order st)).
Proof.
  intros fmt st v l Hc Hl. apply lget_In in Hl. rewrite (coherent_lpv fmt st Hc) in Hl.
  eapply lpv_in_values; exact Hl.
Qed.

Lemma lpv_label_in : forall fmt st v l, coherent fmt st -> nan_ok st -> sentinel st ->
  lget v (st_lpv st) = Some l -> In l (labels_of fmt st).
Proof.
  intros fmt st v l Hc Hn Hs Hl.
  destruct (label_of_value fmt st v Hc Hn Hs (coherent_in_values fmt st v l Hc Hl)) as (l' & Hin & Hl').
  rewrite Hl in Hl'. inversion Hl'; subst. exact Hin.
Qed.

Lemma qual_sentinel : forall st, st_kind st = Qual -> sentinel st.
Proof. intros st H. unfold sentinel. intros H'. congruence. Qed.

(* ---- qualitative --------------------------------------------------------------------------- *)

Lemma qual_entries_spec : forall st l v, In (l, v) (qual_entries st) <->
  In (v, l) (st_lpv st) /\ hidden_nan st v = false /\ is_number v = false /\
  py_eq v (st_default st) = false.
Proof.
  intros st l v. unfold qual_entries. rewrite in_flat_map. split.
  - intros ([v' l'] & Hin & Hx). cbn [fst snd] in Hx.
    destruct (hidden_nan st v') eqn:H1; cbn [orb] in Hx; [destruct Hx|].
    destruct (is_number v') eqn:H2; cbn [orb] in Hx; [destruct Hx|].
    destruct (py_eq v' (st_default st)) eqn:H3; [destruct Hx|].
    destruct Hx as [Hx|[]]. inversion Hx; subst. auto.
  - intros (Hin & H1 & H2 & H3). exists (v, l). split; [exact Hin|]. cbn [fst snd].
    rewrite H1, H2, H3. cbn [orb]. left; reflexivity.
Qed.

Lemma not_number_not_nan : forall v, is_number v = false -> v <> VNaN.
Proof. intros v H ->. vm_compute in H. discriminate. Qed.

Lemma shown_tests : forall st v, shown st v <->
  hidden_nan st v = false /\ is_number v = false /\ py_eq v (st_default st) = false.
Proof.
  intros st v. unfold shown, hidden_nan. split.
  - intros (Hnum & Hd & Hs). pose proof (not_number_not_nan v Hnum) as Hnn.
    rewrite (py_eq_notnan v (st_nan st) Hnn), (py_eq_notnan v (st_default st) Hnn). split; [|split].
    + destruct Hs as [Hs|Hs]; [rewrite Hs; reflexivity|].
      apply val_eqb_neq in Hs. rewrite Hs. apply andb_false_r.
    + exact Hnum.
    + apply val_eqb_neq. exact Hd.
  - intros (H1 & Hnum & H3). pose proof (not_number_not_nan v Hnum) as Hnn.
    rewrite (py_eq_notnan v (st_nan st) Hnn) in H1. rewrite (py_eq_notnan v (st_default st) Hnn) in H3. split; [exact Hnum|]. split.
    + apply val_eqb_neq. exact H3.
    + destruct (st_dropna st); [left; reflexivity|right]. cbn [negb andb] in H1.
      apply val_eqb_neq. exact H1.
Qed.

Lemma summary_rows_qual : forall fmt st, st_kind st = Qual ->
  summary_rows fmt st = Ok (rows_of_entries (qual_entries st)).
Proof. intros fmt st H. unfold summary_rows, summary_entries. rewrite H. reflexivity. Qed.

(* every known non-numeric value (str_default and a hidden NaN sentinel aside) is shown in exactly
   one row, and the label of that row is the label transform gives to the value *)
Theorem summary_partition : forall fmt st v,
  coherent fmt st -> st_kind st = Qual -> nan_ok st ->
  In v (values (st_order st)) -> shown st v ->
  exists rows r,
    summary_rows fmt st = Ok rows /\ In r rows /\ In v (r_content r) /\
    (forall r', In r' rows -> In v (r_content r') -> r' = r) /\
    lget v (st_lpv st) = Some (r_label r) /\
    transform_cell st v = Ok (reinstate st (OLab (r_label r))).
Proof.
  intros fmt st v Hc Hk Hn Hv Hs.
  pose proof (qual_sentinel st Hk) as Hsen. pose proof Hc as [Hwf _].
  destruct (in_values_group _ _ Hwf Hv) as (i & k & Hi & Hg).
  destruct (label_of_member fmt st i k v Hc Hn Hsen Hi Hg) as (l & Hl & Hlg).
  assert (Hent : In (l, v) (qual_entries st)).
  { apply qual_entries_spec. split; [apply lget_In; exact Hlg|]. apply shown_tests. exact Hs. }
  exists (rows_of_entries (qual_entries st)), (mkRow l (content_of (qual_entries st) l)).
  split; [apply summary_rows_qual; exact Hk|].
  split.
  { apply In_rows_of_entries. exists l. split; [apply In_map_fst; exists v; exact Hent|reflexivity]. }
  split. { cbn [r_content]. apply In_content_of. exact Hent. }
  split.
  { intros r' Hr' Hv'. apply In_rows_of_entries in Hr'. destruct Hr' as (l' & _ & ->).
    cbn [r_content] in Hv'. apply In_content_of in Hv'. apply qual_entries_spec in Hv'.
    destruct Hv' as (Hin & _). apply (coherent_In_lget fmt st v l' Hc) in Hin.
    rewrite Hlg in Hin. inversion Hin; subst. reflexivity. }
  split. { cbn [r_label]. exact Hlg. }
  cbn [r_label].
  assert (Hnn : v <> VNaN). { destruct Hs as (Hnum & _). apply not_number_not_nan. exact Hnum. }
  destruct (transform_is_lookup_qual fmt st i k v Hc Hk Hn Hi Hg Hnn) as (l2 & Hl2 & Ht).
  rewrite Hl in Hl2. inversion Hl2; subst. exact Ht.
Qed.

(* nothing else is shown: every value of every row is a known value that had to be shown, under
   the label of its group; rows have distinct labels and are not empty *)
Theorem summary_values_known : forall fmt st rows,
  coherent fmt st -> st_kind st = Qual -> nan_ok st ->
  summary_rows fmt st = Ok rows ->
  NoDup (map r_label rows) /\
  forall r, In r rows ->
    r_content r <> [] /\ NoDup (r_content r) /\
    forall v, In v (r_content r) ->
      In v (values (st_order st)) /\ shown st v /\ lget v (st_lpv st) = Some (r_label r).
Proof.
  intros fmt st rows Hc Hk Hn Hrows. rewrite (summary_rows_qual fmt st Hk) in Hrows.
  inversion Hrows; subst rows. split.
  { rewrite labels_rows_of_entries. apply NoDup_ldedup. }
  intros r Hr. apply In_rows_of_entries in Hr. destruct Hr as (l & Hl & ->). cbn [r_content r_label].
  split.
  { apply In_map_fst in Hl. destruct Hl as (v & Hv). apply In_content_of in Hv.
    intros He. rewrite He in Hv. destruct Hv. }
  split. { unfold content_of. apply NoDup_dedup_val. }
  intros v Hv. apply In_content_of in Hv. apply qual_entries_spec in Hv.
  destruct Hv as (Hin & Htests). apply (coherent_In_lget fmt st v l Hc) in Hin.
  split; [eapply coherent_in_values; eassumption|]. split; [apply shown_tests; exact Htests|exact Hin].
Qed.

(* the summary of a qualitative feature never fails *)
Theorem summary_qual_total : forall fmt st, st_kind st = Qual -> exists rows, summary_rows fmt st = Ok rows.
Proof. intros fmt st Hk. eexists. apply summary_rows_qual. exact Hk. Qed.

(* ---- quantitative -------------------------------------------------------------------------- *)

Lemma quant_raw_labels_LVal : forall fmt nan ks l,
  In l (get_labels Quant OStr fmt nan ks) -> exists c, l = LVal c.
Proof.
  intros fmt nan ks l H. unfold get_labels, base_labels in H. apply in_app_or in H.
  destruct H as [H|H].
  - apply in_map_iff in H. destruct H as (s & Hs & _). exists (VStr s). symmetry; exact Hs.
  - destruct (mem nan ks); [|destruct H]. destruct H as [H|[]]. exists nan. symmetry; exact H.
Qed.

Lemma raw_labels_length : forall fmt st, coherent fmt st -> st_kind st = Quant -> nan_ok st ->
  sentinel st ->
  List.length (get_labels Quant OStr fmt (st_nan st) (keys (st_order st))) =
  List.length (keys (st_order st)).
Proof.
  intros fmt st Hc Hk Hn Hs. destruct Hc as [Hwf _]. destruct Hwf as (Hnd & _).
  destruct (Hs Hk) as (zs & Hzs). unfold quant_leaders in Hzs.
  apply (labels_length_quant OStr fmt _ _ zs); [exact Hnd|apply nan_ok_not_nan; exact Hn|exact Hzs].
Qed.

Lemma raw_lookup_at : forall fmt st i k v, coherent fmt st -> st_kind st = Quant ->
  nth_error (keys (st_order st)) i = Some k -> In v (get (st_order st) k) ->
  lget v (raw_lpv fmt st) =
  nth_error (get_labels Quant OStr fmt (st_nan st) (keys (st_order st))) i.
Proof.
  intros fmt st i k v Hc Hk Hi Hg. destruct Hc as [Hwf _].
  unfold raw_lpv, labels_per_values. rewrite (lpv_spec _ _ i k v Hwf Hi Hg). rewrite Hk. reflexivity.
Qed.

Lemma raw_lookup : forall fmt st v, coherent fmt st -> st_kind st = Quant -> nan_ok st ->
  sentinel st -> In v (values (st_order st)) ->
  exists c, lget v (raw_lpv fmt st) = Some (LVal c).
Proof.
  intros fmt st v Hc Hk Hn Hs Hv. pose proof Hc as [Hwf _].
  destruct (in_values_group _ _ Hwf Hv) as (i & k & Hi & Hg).
  rewrite (raw_lookup_at fmt st i k v Hc Hk Hi Hg).
  pose proof (raw_labels_length fmt st Hc Hk Hn Hs) as Hlen.
  destruct (nth_error (get_labels Quant OStr fmt (st_nan st) (keys (st_order st))) i) as [l|] eqn:He.
  - apply nth_error_In in He. apply quant_raw_labels_LVal in He. destruct He as (c & ->).
    exists c; reflexivity.
  - apply nth_error_None in He.
    assert (Hlt : (i < List.length (keys (st_order st)))%nat) by (apply nth_error_Some; congruence).
    lia.
Qed.

Lemma quant_main_spec : forall st raw items es, quant_main st raw items = Ok es ->
  forall l c, In (l, c) es <->
    exists v, In (v, l) items /\ hidden_nan st v = false /\ lget v raw = Some (LVal c).
Proof.
  intros st raw items. induction items as [|[v0 l0] t IH]; intros es; cbn [quant_main].
  - intros H l c. inversion H; subst. split; [intros []| intros (v & [] & _)].
  - destruct (hidden_nan st v0) eqn:Hh.
    + intros H l c. rewrite (IH es H l c). split.
      * intros (v & Hin & Hr). exists v. split; [right; exact Hin| exact Hr].
      * intros (v & [Heq|Hin] & Hh' & Hr).
        -- inversion Heq; subst. congruence.
        -- exists v. auto.
    + destruct (lget v0 raw) as [[c0|n]|] eqn:Hl0; try (intros H; discriminate H).
      destruct (quant_main st raw t) as [r| |] eqn:Hq; cbn [bind]; try (intros H; discriminate H).
      intros H l c. inversion H; subst es. cbn [In]. rewrite (IH r eq_refl l c). split.
      * intros [Heq|(v & Hin & Hr)].
        -- inversion Heq; subst. exists v0. split; [left; reflexivity|]. split; assumption.
        -- exists v. split; [right; exact Hin|exact Hr].
      * intros (v & [Heq|Hin] & Hh' & Hr).
        -- inversion Heq; subst. rewrite Hl0 in Hr. inversion Hr; subst. left; reflexivity.
        -- right. exists v. auto.
Qed.

Lemma quant_main_total : forall st raw items,
  (forall v l, In (v, l) items -> hidden_nan st v = false -> exists c, lget v raw = Some (LVal c)) ->
  exists es, quant_main st raw items = Ok es.
Proof.
  intros st raw items. induction items as [|[v0 l0] t IH]; intros H; cbn [quant_main].
  - eexists; reflexivity.
  - destruct IH as (r & Hr). { intros v l Hin. apply (H v l). right; exact Hin. }
    destruct (hidden_nan st v0) eqn:Hh.
    + exists r; exact Hr.
    + destruct (H v0 l0 (or_introl eq_refl) Hh) as (c & Hc). rewrite Hc, Hr. cbn [bind].
      eexists; reflexivity.
Qed.

Lemma quant_nan_spec : forall fmt st, coherent fmt st -> st_kind st = Quant -> nan_ok st ->
  sentinel st ->
  exists b, quant_nan st (raw_lpv fmt st) = Ok b /\
    forall l c, In (l, c) b <->
      (c = st_nan st /\ In (st_nan st) (values (st_order st)) /\
       lget (get_group (st_order st) (st_nan st)) (st_lpv st) = Some l).
Proof.
  intros fmt st Hc Hk Hn Hs. pose proof Hc as [Hwf _]. unfold quant_nan.
  destruct (mem (st_nan st) (values (st_order st))) eqn:Hm.
  - apply mem_In in Hm. destruct (raw_lookup fmt st _ Hc Hk Hn Hs Hm) as (c0 & Hc0). rewrite Hc0.
    destruct (in_values_group _ _ Hwf Hm) as (i & k & Hi & Hg).
    assert (Hkk : In k (keys (st_order st))) by (eapply nth_error_In; exact Hi).
    rewrite (get_group_member_l _ k _ Hwf Hkk Hg).
    destruct (label_of_member fmt st i k k Hc Hn Hs Hi (WF_key_get _ _ Hwf Hkk)) as (l0 & _ & Hl0).
    rewrite Hl0. eexists; split; [reflexivity|]. intros l c. cbn [In]. split.
    + intros [Heq|[]]. inversion Heq; subst. auto.
    + intros (-> & _ & Heq). inversion Heq; subst. left; reflexivity.
  - apply mem_false in Hm. unfold raw_lpv, labels_per_values. rewrite (lpv_none _ _ _ Hm).
    eexists; split; [reflexivity|]. intros l c; split; [intros []|].
    intros (_ & Hin & _). contradiction.
Qed.

Definition entry_char (fmt : fmt_table) (st : state) (l : label) (c : val) : Prop :=
  (exists v, lget v (st_lpv st) = Some l /\ hidden_nan st v = false /\
             lget v (raw_lpv fmt st) = Some (LVal c))
  \/ (c = st_nan st /\ In (st_nan st) (values (st_order st)) /\
      lget (get_group (st_order st) (st_nan st)) (st_lpv st) = Some l).

Lemma summary_entries_quant : forall fmt st, coherent fmt st -> st_kind st = Quant -> nan_ok st ->
  sentinel st ->
  exists es, summary_entries fmt st = Ok es /\
    forall l c, In (l, c) es <-> entry_char fmt st l c.
Proof.
  intros fmt st Hc Hk Hn Hs.
  destruct (quant_main_total st (raw_lpv fmt st) (st_lpv st)) as (a & Ha).
  { intros v l Hin _. apply (raw_lookup fmt st v Hc Hk Hn Hs).
    eapply coherent_in_values; [exact Hc|]. eapply coherent_In_lget; [exact Hc|exact Hin]. }
  destruct (quant_nan_spec fmt st Hc Hk Hn Hs) as (b & Hb & Hbs).
  exists (a ++ b). split.
  { unfold summary_entries. rewrite Hk, Ha, Hb. reflexivity. }
  intros l c. unfold entry_char. rewrite in_app_iff.
  rewrite (quant_main_spec _ _ _ _ Ha l c), (Hbs l c). split.
  - intros [(v & Hin & Hr)|Hr]; [left|right; exact Hr]. exists v.
    split; [eapply coherent_In_lget; [exact Hc|exact Hin]|exact Hr].
  - intros [(v & Hl & Hr)|Hr]; [left|right; exact Hr]. exists v.
    split; [apply lget_In; exact Hl|exact Hr].
Qed.

Lemma summary_rows_quant : forall fmt st, coherent fmt st -> st_kind st = Quant -> nan_ok st ->
  sentinel st ->
  exists es, summary_rows fmt st = Ok (rows_of_entries es) /\
    forall l c, In (l, c) es <-> entry_char fmt st l c.
Proof.
  intros fmt st Hc Hk Hn Hs. destruct (summary_entries_quant fmt st Hc Hk Hn Hs) as (es & He & Hes).
  exists es. split; [|exact Hes]. unfold summary_rows. rewrite He. reflexivity.
Qed.

(* one row per fitted group: the row labels are exactly the labels of the groups *)
Theorem summary_quantitative_rows : forall fmt st,
  coherent fmt st -> st_kind st = Quant -> nan_ok st -> sentinel st ->
  exists rows,
    summary_rows fmt st = Ok rows /\
    NoDup (map r_label rows) /\
    (forall l, In l (map r_label rows) <-> In l (labels_of fmt st)) /\
    (NoDup (labels_of fmt st) ->
       Permutation (map r_label rows) (labels_of fmt st) /\
       List.length rows = List.length (keys (st_order st))).
Proof.
  intros fmt st Hc Hk Hn Hs. pose proof Hc as [Hwf _].
  destruct (summary_rows_quant fmt st Hc Hk Hn Hs) as (es & Hrows & Hes).
  exists (rows_of_entries es). split; [exact Hrows|].
  assert (Hiff : forall l, In l (map r_label (rows_of_entries es)) <-> In l (labels_of fmt st)).
  { intros l. rewrite labels_rows_of_entries, In_ldedup, In_map_fst. split.
    - intros (c & Hin). apply (proj1 (Hes l c)) in Hin.
      destruct Hin as [(v & Hl & _)|(_ & _ & Hl)]; eapply lpv_label_in; eassumption.
    - intros Hin. apply In_nth_error in Hin. destruct Hin as (i & Hi).
      assert (Hlt : (i < List.length (keys (st_order st)))%nat).
      { rewrite <- (labels_of_length fmt st Hc Hn Hs). apply nth_error_Some. congruence. }
      destruct (nth_error (keys (st_order st)) i) as [k|] eqn:Hki;
        [|apply nth_error_None in Hki; lia].
      assert (Hkk : In k (keys (st_order st))) by (eapply nth_error_In; exact Hki).
      pose proof (WF_key_get _ _ Hwf Hkk) as Hself.
      destruct (label_of_member fmt st i k k Hc Hn Hs Hki Hself) as (l' & Hl' & Hlg).
      unfold label_at in Hl'. rewrite Hi in Hl'. inversion Hl'; subst l'.
      destruct (hidden_nan st k) eqn:Hh.
      + unfold hidden_nan in Hh. apply andb_true_iff in Hh. destruct Hh as [_ Hh].
        apply py_eq_true in Hh. subst k.
        exists (st_nan st). apply (proj2 (Hes l (st_nan st))). right. split; [reflexivity|].
        split; [eapply In_get_values; exact Hself|].
        rewrite (get_group_leader_l _ _ Hwf Hkk). exact Hlg.
      + destruct (raw_lookup fmt st k Hc Hk Hn Hs (In_get_values _ _ _ Hself)) as (c & Hc0).
        exists c. apply (proj2 (Hes l c)). left. exists k. auto. }
  assert (Hnd : NoDup (map r_label (rows_of_entries es))).
  { rewrite labels_rows_of_entries. apply NoDup_ldedup. }
  split; [exact Hnd|]. split; [exact Hiff|].
  intros Hndl.
  assert (Hp : Permutation (map r_label (rows_of_entries es)) (labels_of fmt st))
    by (apply NoDup_Permutation; [exact Hnd|exact Hndl|exact Hiff]).
  split; [exact Hp|].
  rewrite <- (labels_of_length fmt st Hc Hn Hs), <- (Permutation_length Hp). symmetry. apply map_length.
Qed.

(* what a row shows: the raw ('str') labels of the values carrying the row's label, and the
   missing-value sentinel in the row of the group holding it *)
Theorem summary_quantitative_content : forall fmt st rows r c,
  coherent fmt st -> st_kind st = Quant -> nan_ok st -> sentinel st ->
  summary_rows fmt st = Ok rows -> In r rows ->
  (In c (r_content r) <->
     (exists v, lget v (st_lpv st) = Some (r_label r) /\ hidden_nan st v = false /\
                lget v (raw_lpv fmt st) = Some (LVal c))
     \/ (c = st_nan st /\ In (st_nan st) (values (st_order st)) /\
         lget (get_group (st_order st) (st_nan st)) (st_lpv st) = Some (r_label r))).
Proof.
  intros fmt st rows r c Hc Hk Hn Hs Hrows Hr.
  destruct (summary_rows_quant fmt st Hc Hk Hn Hs) as (es & Hrows' & Hes).
  rewrite Hrows' in Hrows. inversion Hrows; subst rows.
  apply In_rows_of_entries in Hr. destruct Hr as (l & _ & ->). cbn [r_content r_label].
  rewrite In_content_of. apply Hes.
Qed.

(* the missing-value sentinel is shown in the row of the group that holds it (get_group str_nan),
   whose label is the one transform gives to missing values when they are kept (dropna) *)
Theorem summary_nan_row : forall fmt st i k,
  coherent fmt st -> st_kind st = Quant -> nan_ok st -> sentinel st ->
  nth_error (keys (st_order st)) i = Some k -> In (st_nan st) (get (st_order st) k) ->
  get_group (st_order st) (st_nan st) = k /\
  exists rows r l,
    summary_rows fmt st = Ok rows /\ In r rows /\ In (st_nan st) (r_content r) /\
    label_at fmt st i = Some l /\ r_label r = l /\
    transform_cell st VNaN = Ok (if st_dropna st then OLab l else OMissing).
Proof.
  intros fmt st i k Hc Hk Hn Hs Hi Hg. pose proof Hc as [Hwf _].
  assert (Hkk : In k (keys (st_order st))) by (eapply nth_error_In; exact Hi).
  pose proof (get_group_member_l _ _ _ Hwf Hkk Hg) as Hgg. split; [exact Hgg|].
  destruct (transform_nan fmt st i k Hc Hn Hs Hi Hg) as (l & Hl & Ht).
  destruct (label_of_member fmt st i k k Hc Hn Hs Hi (WF_key_get _ _ Hwf Hkk)) as (l' & Hl' & Hlg).
  rewrite Hl in Hl'. inversion Hl'; subst l'.
  destruct (summary_rows_quant fmt st Hc Hk Hn Hs) as (es & Hrows & Hes).
  assert (Hent : In (l, st_nan st) es).
  { apply (proj2 (Hes l (st_nan st))). right. split; [reflexivity|].
    split; [eapply In_get_values; exact Hg|]. rewrite Hgg. exact Hlg. }
  exists (rows_of_entries es), (mkRow l (content_of es l)), l.
  split; [exact Hrows|].
  split.
  { apply In_rows_of_entries. exists l. split; [apply In_map_fst; eexists; exact Hent|reflexivity]. }
  split. { cbn [r_content]. apply In_content_of. exact Hent. }
  split; [exact Hl|]. split; [reflexivity|exact Ht].
Qed.

Lemma raw_nan_position : forall fmt nan s ks i,
  nan = VStr s -> no_space s = true ->
  nth_error (get_labels Quant OStr fmt nan ks) i = Some (LVal nan) ->
  mem nan ks = true /\ i = List.length (base_labels Quant fmt nan ks).
Proof.
  intros fmt nan s ks i Hnan Hsp Hnth. unfold get_labels in Hnth.
  destruct (Nat.lt_ge_cases i (List.length (base_labels Quant fmt nan ks))) as [Hlt|Hge].
  - rewrite (nth_error_app1 _ _ Hlt) in Hnth. apply nth_error_In in Hnth.
    unfold base_labels in Hnth. apply in_map_iff in Hnth. destruct Hnth as (s' & Heq & Hin).
    rewrite Hnan in Heq. inversion Heq; subst s'. unfold quant_labels in Hin.
    apply format_quantiles_space in Hin. congruence.
  - rewrite (nth_error_app2 _ _ Hge) in Hnth.
    destruct (mem nan ks).
    + split; [reflexivity|].
      destruct (i - List.length (base_labels Quant fmt nan ks))%nat as [|n] eqn:Hd; [lia|].
      cbn [nth_error] in Hnth. destruct n; discriminate Hnth.
    + destruct (i - List.length (base_labels Quant fmt nan ks))%nat; discriminate Hnth.
Qed.

(* ... and in no other row, when str_nan has no space (interval labels always contain one) and
   str_nan, when it is a leader, is the LAST leader (otherwise zip(values, labels) pairs the
   leaders with the wrong raw labels and the statement fails) *)
Theorem summary_nan_row_unique : forall fmt st rows r s,
  coherent fmt st -> st_kind st = Quant -> nan_ok st -> sentinel st ->
  st_nan st = VStr s -> no_space s = true ->
  (In (st_nan st) (keys (st_order st)) -> exists pre, keys (st_order st) = pre ++ [st_nan st]) ->
  summary_rows fmt st = Ok rows -> In r rows -> In (st_nan st) (r_content r) ->
  lget (get_group (st_order st) (st_nan st)) (st_lpv st) = Some (r_label r).
Proof.
  intros fmt st rows r s Hc Hk Hn Hs Hnan Hsp Hlast Hrows Hr Hin. pose proof Hc as [Hwf _].
  apply (proj1 (summary_quantitative_content fmt st rows r (st_nan st) Hc Hk Hn Hs Hrows Hr)) in Hin.
  destruct Hin as [(v & Hl & _ & Hraw)|(_ & _ & Hl)]; [|exact Hl].
  pose proof (coherent_in_values fmt st v _ Hc Hl) as Hv.
  destruct (in_values_group _ _ Hwf Hv) as (i & k & Hi & Hg).
  rewrite (raw_lookup_at fmt st i k v Hc Hk Hi Hg) in Hraw.
  destruct (raw_nan_position fmt (st_nan st) s _ i Hnan Hsp Hraw) as (Hmem & Hpos).
  pose proof (raw_labels_length fmt st Hc Hk Hn Hs) as Hlen.
  rewrite get_labels_length, Hmem, <- Hpos in Hlen. cbv iota in Hlen.
  apply mem_In in Hmem. destruct (Hlast Hmem) as (pre & Hpre).
  assert (Hipre : i = List.length pre).
  { rewrite Hpre, app_length in Hlen. cbn [List.length] in Hlen. lia. }
  assert (Hkn : k = st_nan st).
  { rewrite Hpre, Hipre in Hi. rewrite nth_error_app2 in Hi by lia. rewrite Nat.sub_diag in Hi.
    cbn [nth_error] in Hi. inversion Hi; reflexivity. }
  subst k. rewrite (get_group_leader_l _ _ Hwf Hmem).
  destruct (label_of_member fmt st i _ v Hc Hn Hs Hi Hg) as (l1 & Hl1 & Hlg1).
  destruct (label_of_member fmt st i _ (st_nan st) Hc Hn Hs Hi (WF_key_get _ _ Hwf Hmem))
    as (l2 & Hl2 & Hlg2).
  rewrite Hl1 in Hl2. inversion Hl2; subst l2. rewrite Hlg2, <- Hlg1. exact Hl.
Qed.

(* ---- the object ---------------------------------------------------------------------------- *)

Lemma rows_for_In : forall fs all, rows_for fs = Ok all -> forall r, In r all ->
  exists x rows, In x fs /\ of_name x = fst r /\
    summary_rows (of_fmt x) (of_state x) = Ok rows /\ In (snd r) rows.
Proof.
  induction fs as [|f t IH]; intros all; cbn [rows_for].
  - intros H r Hr. inversion H; subst. destruct Hr.
  - destruct (summary_rows (of_fmt f) (of_state f)) as [rs| |] eqn:Hs; cbn [bind];
      try (intros H; discriminate H).
    destruct (rows_for t) as [rest| |] eqn:Ht; cbn [bind]; try (intros H; discriminate H).
    intros H r Hr. inversion H; subst all. apply in_app_or in Hr. destruct Hr as [Hr|Hr].
    + apply in_map_iff in Hr. destruct Hr as (r0 & <- & Hr0). exists f, rs. cbn [fst snd].
      split; [left; reflexivity|]. split; [reflexivity|]. split; [exact Hs|exact Hr0].
    + destruct (IH rest eq_refl r Hr) as (x & rows & Hx & Hrest). exists x, rows.
      split; [right; exact Hx|exact Hrest].
Qed.

Lemma rows_for_complete : forall fs all, rows_for fs = Ok all ->
  forall x rows r, In x fs -> summary_rows (of_fmt x) (of_state x) = Ok rows -> In r rows ->
  In (of_name x, r) all.
Proof.
  induction fs as [|f t IH]; intros all; cbn [rows_for].
  - intros _ x rows r [].
  - destruct (summary_rows (of_fmt f) (of_state f)) as [rs| |] eqn:Hs; cbn [bind];
      try (intros H; discriminate H).
    destruct (rows_for t) as [rest| |] eqn:Ht; cbn [bind]; try (intros H; discriminate H).
    intros H x rows r Hx Hrows Hr. inversion H; subst all. apply in_or_app.
    destruct Hx as [Hx|Hx].
    + subst x. rewrite Hs in Hrows. inversion Hrows; subst rows. left. apply in_map. exact Hr.
    + right. apply (IH rest eq_refl x rows r Hx Hrows Hr).
Qed.

Lemma filter_pair_same : forall (n f : string) (rs : list srow), String.eqb n f = true ->
  filter (fun r : string * srow => String.eqb (fst r) f) (map (pair n) rs) = map (pair n) rs.
Proof.
  intros n f rs He. induction rs as [|a t IH]; cbn [map filter fst]; [reflexivity|].
  rewrite He. f_equal. exact IH.
Qed.

Lemma filter_pair_other : forall (n f : string) (rs : list srow), String.eqb n f = false ->
  filter (fun r : string * srow => String.eqb (fst r) f) (map (pair n) rs) = [].
Proof.
  intros n f rs He. induction rs as [|a t IH]; cbn [map filter fst]; [reflexivity|].
  rewrite He. exact IH.
Qed.

Lemma rows_for_filter : forall f fs all, rows_for fs = Ok all ->
  rows_for (filter (named f) fs) = Ok (filter (fun r => String.eqb (fst r) f) all).
Proof.
  intros f. induction fs as [|a t IH]; intros all; cbn [rows_for filter].
  - intros H. inversion H; subst. reflexivity.
  - destruct (summary_rows (of_fmt a) (of_state a)) as [rs| |] eqn:Hs; cbn [bind];
      try (intros H; discriminate H).
    destruct (rows_for t) as [rest| |] eqn:Ht; cbn [bind]; try (intros H; discriminate H).
    intros H. inversion H; subst all. rewrite filter_app. unfold named at 1.
    destruct (String.eqb (of_name a) f) eqn:He.
    + cbn [rows_for]. rewrite Hs, (IH rest eq_refl). cbn [bind].
      rewrite (filter_pair_same _ _ _ He). reflexivity.
    + rewrite (filter_pair_other _ _ _ He), (IH rest eq_refl). reflexivity.
Qed.

(* summary(f) contains rows of f only *)
Theorem summary_feature_only : forall o f rows,
  summary_obj o (Some f) = Ok rows -> forall r, In r rows -> fst r = f.
Proof.
  intros o f rows H r Hr. unfold summary_obj in H.
  destruct (existsb (named f) o); [|discriminate H].
  destruct (rows_for_In _ _ H r Hr) as (x & rs & Hx & Hname & _).
  apply filter_In in Hx. destruct Hx as [_ Hx]. unfold named in Hx. apply String.eqb_eq in Hx.
  congruence.
Qed.

(* ... namely the rows of f in summary() *)
Theorem summary_feature_is_filter : forall o f rows all,
  summary_obj o (Some f) = Ok rows -> summary_obj o None = Ok all ->
  rows = filter (fun r => String.eqb (fst r) f) all.
Proof.
  intros o f rows all H Hall. unfold summary_obj in H, Hall.
  destruct (existsb (named f) o); [|discriminate H].
  rewrite (rows_for_filter f o all Hall) in H. inversion H; subst. reflexivity.
Qed.

(* summary() lists kept features only, with the rows of summary_rows *)
Theorem summary_kept_features : forall o all,
  summary_obj o None = Ok all ->
  (forall r, In r all -> exists x, In x o /\ of_name x = fst r) /\
  (forall x rows, In x o -> summary_rows (of_fmt x) (of_state x) = Ok rows ->
     forall r, In r rows -> In (of_name x, r) all).
Proof.
  intros o all H. unfold summary_obj in H. split.
  - intros r Hr. destruct (rows_for_In _ _ H r Hr) as (x & rs & Hx & Hname & _).
    exists x. split; assumption.
  - intros x rows Hx Hrows r Hr. apply (rows_for_complete o all H x rows r Hx Hrows Hr).
Qed.

(* a name that is not a kept feature is refused (AssertionError) *)
Theorem summary_unknown_feature : forall o f,
  (forall x, In x o -> of_name x <> f) -> summary_obj o (Some f) = AssertErr.
Proof.
  intros o f H. unfold summary_obj. destruct (existsb (named f) o) eqn:He; [|reflexivity].
  apply existsb_exists in He. destruct He as (x & Hx & Hn). unfold named in Hn.
  apply String.eqb_eq in Hn. exfalso. apply (H x Hx). exact Hn.
Qed.

(* ---- closedness ---------------------------------------------------------------------------- *)
