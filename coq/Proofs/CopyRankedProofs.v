(* CopyRankedProofs.v — C15, last clause: "a feature that is an exact copy of, or strictly monotone
   in, the target is always among the returned features of its type", on the model.

   Proofs/KruskalBoundProofs.v: Kruskal's H is at most N - 1 and a feature that is constant on every
   class with pairwise distinct values reaches N - 1.  Here: a feature with the maximal key of a
   ranking column heads the ranking up to exact ties (sort_desc is stable, the greedy filters and
   the n_best cut keep the head), hence a feature with that key is returned, and the feature itself
   is returned when no other complete feature is exactly tied with it.  The tie proviso cannot be
   dropped: see top_tie_not_returned. *)
From Coq Require Import Permutation Sorted Lia QArith.
From AC.Model Require Import Base Selector CheckC14.
From AC.Proofs Require Import SelectorProofs.
From AC.Model Require Measures.
From AC.Proofs Require Import KruskalBoundProofs.
Open Scope Z_scope.

Lemma sorted_head_top {A} (k : A -> Z) l x :
  StronglySorted (desc k) l -> In x l -> (forall y, In y l -> k y <= k x) ->
  exists h t, l = h :: t /\ k h = k x.
Proof.
  intros Hs Hin Hmax. destruct l as [|h t]; [contradiction|]. exists h, t. split; [reflexivity|].
  inversion Hs as [|? ? _ Hall]; subst. pose proof (Hmax h (or_introl eq_refl)) as H1.
  destruct Hin as [->|Hin]; [reflexivity|].
  rewrite Forall_forall in Hall. pose proof (Hall x Hin) as H2. unfold desc in H2. lia.
Qed.

(* the head of the list selected for measure j carries the maximal key *)
Theorem top_key_selected {A} (keyf : A -> nat -> Z) bads nbest initial j x :
  (1 <= nbest)%nat -> In x initial -> (forall y, In y initial -> keyf y j <= keyf x j) ->
  exists y rest, selected_for keyf bads nbest initial j = y :: rest /\ keyf y j = keyf x j.
Proof.
  intros Hn Hin Hmax. unfold selected_for.
  destruct (sorted_head_top (fun r => keyf r j) (sort_desc (fun r => keyf r j) initial) x)
    as [h [t [Ht Hk]]].
  - apply sort_desc_sorted.
  - apply (Permutation_in _ (Permutation_sym (sort_desc_perm _ initial)) Hin).
  - intros y Hy. apply Hmax. apply (Permutation_in _ (sort_desc_perm _ initial) Hy).
  - rewrite Ht. destruct (apply_filters_head bads h t) as [t' ->].
    destruct nbest as [|n]; [lia|]. cbn [firstn]. exists h, (firstn n t'). split; [reflexivity|exact Hk].
Qed.

Theorem select_type_top t rows j x :
  NoDup (map rid rows) -> In j (cols_of t rows) -> In x (comp_of t rows) ->
  (forall y, In y (comp_of t rows) -> key y j <= key x j) -> (1 <= t_nbest t)%nat ->
  exists y, In y (core_of t rows) /\ key y j = key x j.
Proof.
  intros Hn Hj Hx Hmax Hnb.
  pose proof (initial_order_perm key (cols_of t rows) (comp_of t rows)) as Hp.
  destruct (top_key_selected key (bads_of t) (t_nbest t) (initial_of t rows) j x Hnb) as [y [rest [Hs Hk]]].
  - apply (Permutation_in _ (Permutation_sym Hp) Hx).
  - intros y Hy. apply Hmax. apply (Permutation_in _ Hp Hy).
  - exists y. split; [|exact Hk]. apply (core_In t rows y Hn).
    assert (Hys : In y (sel_of t rows j)) by (unfold sel_of; rewrite Hs; left; reflexivity).
    split; [|exists j; split; assumption].
    apply (Permutation_in _ Hp). eapply selected_for_In. exact Hys.
Qed.

(* ---------------------------------------------------------------------------------------- *)
(* the copy of the target under the Kruskal measure                                           *)
(* ---------------------------------------------------------------------------------------- *)
(* grp y : the class-wise value multisets of feature y on its non-missing rows; column j holds
   H(grp y) on the common integer scale den (the contract of the harness for the tables) *)
Definition kruskal_column (t : tin) (rows : list row) (j : nat)
           (grp : row -> list Measures.ymset) (den : Z) (x : row) : Prop :=
  forall y, In y (comp_of t rows) ->
    Forall (Forall (fun e : Z * Z => 0 < snd e)) (grp y) /\
    Measures.ms_n (Measures.ms_union (grp y)) <= Measures.ms_n (Measures.ms_union (grp x)) /\
    exists h, Measures.kruskal (grp y) = Some h /\ (inject_Z (key y j) == h * inject_Z den)%Q.

Theorem copy_of_target_ranked_first t rows j x grp den vs :
  NoDup (map rid rows) -> In j (cols_of t rows) -> In x (comp_of t rows) -> (1 <= t_nbest t)%nat ->
  0 < den -> kruskal_column t rows j grp den x ->
  Forall2 single_valued vs (grp x) -> NoDup vs -> (2 <= List.length (grp x))%nat ->
  (forall y, In y (comp_of t rows) -> key y j <= key x j)
  /\ (exists y, In y (core_of t rows) /\ key y j = key x j)
  /\ ((forall y, In y (comp_of t rows) -> y <> x -> key y j <> key x j) -> In x (core_of t rows)).
Proof.
  intros Hn Hj Hx Hnb Hden Hcol HF Hnd Hlen.
  assert (Hmax : forall y, In y (comp_of t rows) -> key y j <= key x j).
  { intros y Hy. destruct (Hcol y Hy) as [Hwf [Hle [h [Hk Hkey]]]].
    destruct (Hcol x Hx) as [_ [_ [hx [Hkx Hkeyx]]]].
    destruct (kruskal_perfect_maximal vs (grp x) (grp y) h HF Hnd Hlen Hwf Hk Hle)
      as [hx' [Hkx' [_ Hhh]]].
    assert (hx' = hx) by congruence. subst hx'.
    rewrite Zle_Qle, Hkey, Hkeyx. apply Qmult_le_compat_r; [exact Hhh|].
    change 0%Q with (inject_Z 0). rewrite <- Zle_Qle. lia. }
  split; [exact Hmax|]. split.
  - apply (select_type_top t rows j x Hn Hj Hx Hmax Hnb).
  - intros Hties. apply (select_type_best t rows j x Hn Hj Hx); [|exact Hnb].
    intros y Hy Hne. pose proof (Hmax y Hy). pose proof (Hties y Hy Hne). lia.
Qed.

(* the tie proviso is necessary: two features with the maximal key (two copies of the target),
   n_best = 1, no filter: only the first one is returned *)
Definition tie_witness : tin :=
  mkTin 10 (999, 1000) (999, 1000) 1%nat
    [mkM true false false 100 100]
    [mkFeat 0 0 1 [mkRaw false false false 9] [Some 9];
     mkFeat 1 0 1 [mkRaw false false false 9] [Some 9]]
    [].

Theorem top_tie_not_returned :
  exists t rows x j,
    table_of t = Ok rows /\ In x (comp_of t rows) /\ In j (cols_of t rows) /\ (1 <= t_nbest t)%nat /\
    (forall y, In y (comp_of t rows) -> key y j <= key x j) /\
    select_type t = Ok [0%nat] /\ rid x = 1%nat.
Proof.
  exists tie_witness,
    [mkRow 0 true [CVal 9]; mkRow 1 true [CVal 9]], (mkRow 1 true [CVal 9]), 0%nat.
  split; [vm_compute; reflexivity|]. split; [vm_compute; right; left; reflexivity|].
  split; [vm_compute; left; reflexivity|]. split; [vm_compute; lia|].
  split; [|split; vm_compute; reflexivity].
  intros y Hy. vm_compute in Hy. destruct Hy as [<-|[<-|[]]]; vm_compute; discriminate.
Qed.

Print Assumptions copy_of_target_ranked_first.
Print Assumptions top_tie_not_returned.
