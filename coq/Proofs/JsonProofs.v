(* JsonProofs.v — property C06 on the model: the JSON trip  to_json -> dumps -> loads -> load_*
   gives back the fitted state (content dict rebuilt in list order), under hypotheses that are
   each shown necessary by a closed witness.  All statements are for arbitrary inputs. *)
From Coq Require Import Permutation Lia.
From AC.Model Require Import Base GroupedList CheckC13 Json CheckC06.
From AC.Proofs Require Import BaseLemmas GroupedListSpec GroupedListProofs CheckC13Proofs.
Open Scope string_scope.
Open Scope list_scope.

(* ---- generic insertion-ordered dicts ------------------------------------------------------ *)

Lemma aset_notin : forall (A : Type) k (v : A) d, ~ In k (map fst d) -> aset k v d = d ++ [(k, v)].
Proof.
  intros A k v d; induction d as [|[k' v'] t IH]; simpl; intro Hn; [reflexivity|].
  veq k k'; [subst; tauto|]. rewrite IH; tauto.
Qed.

Lemma of_pairs_gen : forall (A : Type) (l acc : list (val * A)), NoDup (map fst (acc ++ l)) ->
  fold_left (fun acc kv => aset (fst kv) (snd kv) acc) l acc = acc ++ l.
Proof.
  intros A l; induction l as [|[k v] t IH]; intros acc Hn; simpl.
  - rewrite app_nil_r; reflexivity.
  - assert (Hk : ~ In k (map fst acc)).
    { rewrite map_app in Hn. apply NoDup_app_iff in Hn. destruct Hn as (_ & _ & Hd).
      intro Hi. apply (Hd k Hi). left; reflexivity. }
    rewrite (aset_notin A k v acc Hk), IH.
    + rewrite <- app_assoc; reflexivity.
    + rewrite <- app_assoc; exact Hn.
Qed.

(* a sequence of pairs with distinct keys is the dict itself *)
Lemma of_pairs_nodup : forall (A : Type) (l : list (val * A)), NoDup (map fst l) -> of_pairs l = l.
Proof. intros A l H. unfold of_pairs. rewrite of_pairs_gen; auto. Qed.

Lemma NoDup_map_factor : forall (A B C : Type) (f : A -> B) (g : B -> C) (l : list A),
  NoDup (map (fun x => g (f x)) l) -> NoDup (map f l).
Proof.
  intros A B C f g l H. rewrite <- (map_map f g) in H. eapply NoDup_map_inv; eauto.
Qed.

Lemma NoDup_map_on : forall (A B : Type) (f : A -> B) (l : list A),
  (forall a b, In a l -> In b l -> f a = f b -> a = b) -> NoDup l -> NoDup (map f l).
Proof.
  intros A B f l; induction l as [|x t IH]; intros Hinj Hn; simpl; [constructor|].
  inversion Hn as [|y l' Hx Ht]; subst. constructor.
  - intro Hi. apply in_map_iff in Hi. destruct Hi as (a & E & Ha).
    assert (a = x) by (apply Hinj; simpl; auto). subst; tauto.
  - apply IH; auto. intros a b Ha Hb; apply Hinj; simpl; auto.
Qed.

(* ---- the sentinel conversions ------------------------------------------------------------- *)

(* values that survive the sentinel encoding: everything except -inf, nan and the string
   "numpy.inf" itself *)
Definition clean (v : val) : Prop := v <> VNInf /\ v <> VNaN /\ v <> VStr sentinel.

Lemma numpy_base : forall v, clean v -> to_numpy (to_base v) = v.
Proof.
  intros v (H1 & H2 & H3). destruct v; simpl; try reflexivity; try congruence.
  destruct (String.eqb s sentinel) eqn:E; [|reflexivity].
  apply String.eqb_eq in E; subst; congruence.
Qed.

Lemma to_numpy_str_inj : forall a b, to_numpy (VStr a) = to_numpy (VStr b) -> a = b.
Proof.
  intros a b. simpl.
  destruct (String.eqb a sentinel) eqn:Ea, (String.eqb b sentinel) eqn:Eb; intro H;
    try discriminate.
  - apply String.eqb_eq in Ea, Eb; congruence.
  - congruence.
Qed.

(* ---- unfolding lemmas for the nested fixpoints --------------------------------------------- *)

Lemma dumps_list : forall jk l, dumps jk (JList l) = JList (map (dumps jk) l).
Proof. reflexivity. Qed.

Lemma dumps_dict : forall jk d,
  dumps jk (JDict d) = JDict (map (fun kv => (VStr (key_string jk (fst kv)), dumps jk (snd kv))) d).
Proof. intros jk d. simpl. f_equal. apply map_ext. intros [k v]; reflexivity. Qed.

Lemma loads_list : forall l, loads (JList l) = JList (map loads l).
Proof. reflexivity. Qed.

Lemma loads_dict : forall d,
  loads (JDict d) = JDict (of_pairs (map (fun kv => (fst kv, loads (snd kv))) d)).
Proof. intros d. simpl. do 2 f_equal. apply map_ext. intros [k v]; reflexivity. Qed.

Lemma numpy_list : forall l, numpy_types (JList l) = JList (map numpy_elem l).
Proof. reflexivity. Qed.

Lemma numpy_dict : forall d,
  numpy_types (JDict d) = JDict (of_pairs (map (fun kv => (to_numpy (fst kv), numpy_types (snd kv))) d)).
Proof. intros d. simpl. do 2 f_equal. apply map_ext. intros [k v]; reflexivity. Qed.

(* key of a dict entry after dumps, loads and convert_values_to_numpy_types *)
Definition trip_key (jk : val -> string) (k : val) : val := to_numpy (VStr (key_string jk k)).

(* one dict level of the trip, when the keys stay distinct *)
Lemma trip_dict : forall jk (P : list (val * jv)),
  NoDup (map (trip_key jk) (map fst P)) ->
  numpy_types (loads (dumps jk (JDict P))) =
  JDict (map (fun kv => (trip_key jk (fst kv), numpy_types (loads (dumps jk (snd kv))))) P).
Proof.
  intros jk P Hn. rewrite map_map in Hn.
  rewrite dumps_dict, loads_dict, map_map. cbn [fst snd].
  rewrite of_pairs_nodup.
  2:{ rewrite map_map. cbn [fst].
      apply (NoDup_map_factor _ _ _ (fun kv : val * jv => VStr (key_string jk (fst kv))) to_numpy).
      exact Hn. }
  rewrite numpy_dict, map_map. cbn [fst snd].
  rewrite of_pairs_nodup; [reflexivity|].
  rewrite map_map. cbn [fst]. exact Hn.
Qed.

Lemma trip_base_list : forall jk vs, Forall clean vs ->
  numpy_types (loads (dumps jk (base_list vs))) = JList (map JAtom vs).
Proof.
  intros jk vs H. unfold base_list.
  rewrite dumps_list, map_map, loads_list, map_map, numpy_list, map_map. cbn [dumps loads numpy_elem].
  f_equal. apply map_ext_in. intros v Hv. rewrite numpy_base; [reflexivity|].
  rewrite Forall_forall in H; auto.
Qed.

(* ---- one feature ---------------------------------------------------------------------------- *)

(* key under which the content of leader k is found again *)
Definition ckey (jk : val -> string) (k : val) : val := trip_key jk (to_base k).

Lemma trip_content : forall jk (c : dict),
  NoDup (map (ckey jk) (dkeys c)) ->
  (forall k vs, In (k, vs) c -> Forall clean vs) ->
  numpy_types (loads (dumps jk (base_dict c))) =
  JDict (map (fun kv => (ckey jk (fst kv), JList (map JAtom (snd kv)))) c).
Proof.
  intros jk c Hn Hc. unfold base_dict.
  rewrite of_pairs_nodup.
  2:{ rewrite map_map. cbn [fst]. unfold dkeys in Hn. rewrite map_map in Hn.
      apply (NoDup_map_factor _ _ _ (fun kv : val * list val => to_base (fst kv)) (trip_key jk)).
      exact Hn. }
  rewrite trip_dict.
  2:{ rewrite !map_map. cbn [fst]. unfold dkeys in Hn. rewrite map_map in Hn. exact Hn. }
  rewrite map_map. cbn [fst snd]. f_equal.
  apply map_ext_in. intros [k vs] Hi. cbn [fst snd]. unfold ckey. f_equal.
  apply trip_base_list. eapply Hc; eauto.
Qed.

Lemma atom_list_map : forall vs, atom_list (map JAtom vs) = Ok vs.
Proof. induction vs as [|v t IH]; simpl; [reflexivity|]. rewrite IH; reflexivity. Qed.

Lemma aget_ckey : forall (K : val -> val) (c : dict) v,
  NoDup (map K (dkeys c)) -> In v (dkeys c) ->
  aget (K v) (map (fun kv => (K (fst kv), JList (map JAtom (snd kv)))) c) =
  match dget v c with Some vs => Some (JList (map JAtom vs)) | None => None end.
Proof.
  intros K c v; induction c as [|[k vs] t IH]; simpl; intros Hn Hi; [destruct Hi|].
  inversion Hn as [|y l Hk Ht]; subst.
  veq v k.
  - subst. rewrite val_eqb_refl. reflexivity.
  - destruct Hi as [Hi|Hi]; [congruence|].
    assert (Hne : K v <> K k).
    { intro Heq. apply Hk. rewrite <- Heq. apply in_map; exact Hi. }
    apply val_eqb_neq in Hne. rewrite Hne. apply IH; auto.
Qed.

Lemma feature_content_ok : forall jk ps (c : dict),
  NoDup (map (ckey jk) (dkeys c)) ->
  forall order acc,
  (forall k, In k order -> In k (dkeys c) /\ content_key ps k = ckey jk k) ->
  NoDup (dkeys acc ++ order) ->
  feature_content ps order (map (fun kv => (ckey jk (fst kv), JList (map JAtom (snd kv)))) c) acc =
  Ok (acc ++ map (fun k => (k, match dget k c with Some vs => vs | None => [] end)) order).
Proof.
  intros jk ps c Hn order; induction order as [|v t IH]; intros acc Ho Hnd; simpl.
  - rewrite app_nil_r; reflexivity.
  - destruct (Ho v (or_introl eq_refl)) as [Hv Hk]. rewrite Hk.
    rewrite (aget_ckey (ckey jk) c v Hn Hv).
    destruct (In_dkeys_dget _ _ Hv) as [vs Hg]. rewrite Hg. simpl.
    rewrite atom_list_map. simpl.
    assert (Hna : ~ In v (dkeys acc)).
    { apply NoDup_app_iff in Hnd. destruct Hnd as (_ & _ & Hd). intro Hi.
      apply (Hd v Hi). left; reflexivity. }
    rewrite (dset_notin v vs acc Hna). rewrite IH.
    + rewrite <- app_assoc. reflexivity.
    + intros k Hi. apply Ho. right; exact Hi.
    + unfold dkeys. rewrite map_app. simpl. rewrite <- app_assoc. exact Hnd.
Qed.

(* hypotheses of the trip for one group structure *)
Record trip_ok (jk ps : val -> string) (g : gl) : Prop := mkTripOk {
  t_wf : WF g;
  (* no -inf / nan / "numpy.inf" among the stored values (leaders are members of their group) *)
  t_clean : Forall clean (values g);
  (* two leaders never get the same JSON key *)
  t_inj : forall a b, In a (keys g) -> In b (keys g) ->
          key_string jk (to_base a) = key_string jk (to_base b) -> a = b;
  (* the key of a finite number is not the sentinel, and str() of the reloaded number is that key *)
  t_num : forall z, In (VNum z) (keys g) -> jk (VNum z) <> sentinel /\ ps (VNum z) = jk (VNum z) }.

Lemma trip_ok_clean_key : forall jk ps g k, trip_ok jk ps g -> In k (keys g) -> clean k.
Proof.
  intros jk ps g k H Hi. pose proof (t_clean _ _ _ H) as Hc. rewrite Forall_forall in Hc.
  apply Hc. eapply In_get_values. apply WF_key_get; [apply (t_wf _ _ _ H) | exact Hi].
Qed.

Lemma trip_ok_ckey : forall jk ps g k, trip_ok jk ps g -> In k (keys g) ->
  content_key ps k = ckey jk k.
Proof.
  intros jk ps g k H Hi. destruct (trip_ok_clean_key _ _ _ _ H Hi) as (H1 & H2 & H3).
  unfold ckey, trip_key. destruct k; simpl; try congruence.
  - destruct (t_num _ _ _ H z Hi) as [Hs Hp]. rewrite Hp.
    destruct (String.eqb (jk (VNum z)) sentinel) eqn:E; [|reflexivity].
    apply String.eqb_eq in E; congruence.
  - destruct (String.eqb s sentinel) eqn:E; [|reflexivity].
    apply String.eqb_eq in E; subst; congruence.
Qed.

Lemma trip_ok_nodup : forall jk ps g, trip_ok jk ps g -> NoDup (map (ckey jk) (keys g)).
Proof.
  intros jk ps g H. destruct (t_wf _ _ _ H) as (Hk & _).
  apply NoDup_map_on; [|exact Hk].
  intros a b Ha Hb E. unfold ckey, trip_key in E.
  apply to_numpy_str_inj in E. eapply t_inj; eauto.
Qed.

(* the content as it is written: one entry per element of the list, in list order *)
Definition listed (g : gl) : dict := map (fun k => (k, get g k)) (keys g).

Lemma serialized_content : forall g, NoDup (keys g) -> dict_of_keys (keys g) (get g) = listed g.
Proof. intros g H. rewrite dict_of_keys_map, (keep_first_NoDup_id _ H). reflexivity. Qed.

Lemma dict_of_keys_ext : forall (f h : val -> list val) ks,
  (forall k, In k ks -> f k = h k) -> dict_of_keys ks f = dict_of_keys ks h.
Proof.
  intros f h ks H. rewrite !dict_of_keys_map. apply map_ext_in. intros k Hk. f_equal.
  apply H. apply In_keep_first in Hk. destruct Hk as [[]|Hk]; exact Hk.
Qed.

Lemma deserialize_feature_shape : forall ps ks cont,
  deserialize_feature ps
    (JDict [(VStr "order", JList (map JAtom ks)); (VStr "content", JDict cont)]) =
  (do fc <- feature_content ps ks cont [] ; of_dict fc).
Proof.
  intros ps ks cont. unfold deserialize_feature.
  change (aget (VStr "order") [(VStr "order", JList (map JAtom ks)); (VStr "content", JDict cont)])
    with (Some (JList (map JAtom ks))).
  cbn [atoms]. rewrite atom_list_map. cbn [bind].
  change (aget (VStr "content") [(VStr "order", JList (map JAtom ks)); (VStr "content", JDict cont)])
    with (Some (JDict cont)).
  destruct ks; reflexivity.
Qed.

Lemma trip_feature_doc : forall jk ps g, trip_ok jk ps g ->
  numpy_types (loads (dumps jk (serialize_feature g))) =
  JDict [(VStr "order", JList (map JAtom (keys g)));
         (VStr "content",
          JDict (map (fun kv => (ckey jk (fst kv), JList (map JAtom (snd kv)))) (listed g)))].
Proof.
  intros jk ps g H. unfold serialize_feature.
  destruct (t_wf _ _ _ H) as (Hk & _).
  rewrite (serialized_content g Hk).
  rewrite trip_dict.
  2:{ vm_compute. repeat constructor; simpl; intuition discriminate. }
  cbn [map fst snd].
  change (trip_key jk (VStr "order")) with (VStr "order").
  change (trip_key jk (VStr "content")) with (VStr "content").
  rewrite trip_base_list.
  2:{ apply Forall_forall. intros k Hi. eapply trip_ok_clean_key; eauto. }
  rewrite trip_content; [reflexivity | |].
  - unfold listed. rewrite dkeys_map. eapply trip_ok_nodup; eauto.
  - intros k vs Hi. unfold listed in Hi. apply in_map_iff in Hi. destruct Hi as (x & E & Hx).
    inversion E; subst. pose proof (t_clean _ _ _ H) as Hc. rewrite Forall_forall in Hc.
    apply Forall_forall. intros v Hv. apply Hc. eapply In_get_values; eauto.
Qed.

(* THE ROUND TRIP OF ONE FEATURE: order list kept, each leader keeps exactly its member list,
   the content dict comes back in list order *)
Theorem roundtrip_gl_ok : forall jk ps g, trip_ok jk ps g ->
  roundtrip_gl jk ps g = Ok (normalise g).
Proof.
  intros jk ps g H. unfold roundtrip_gl.
  rewrite (trip_feature_doc jk ps g H), deserialize_feature_shape.
  pose proof (t_wf _ _ _ H) as Hwf. destruct Hwf as (Hk & Hdk & Hkd & Hv & Hl).
  assert (Hnd : NoDup (map (ckey jk) (dkeys (listed g)))).
  { unfold listed. rewrite dkeys_map. eapply trip_ok_nodup; eauto. }
  rewrite (feature_content_ok jk ps (listed g) Hnd).
  - cbn [bind app].
    assert (E : map (fun k => (k, match dget k (listed g) with Some vs => vs | None => [] end)) (keys g)
                = listed g).
    { unfold listed at 2. apply map_ext_in. intros k Hi. f_equal. unfold listed.
      rewrite dget_map. apply mem_In in Hi. rewrite Hi. reflexivity. }
    rewrite E. unfold listed.
    assert (Hfm : NoDup (flat_map (get g) (keys g))).
    { eapply Permutation_NoDup; [apply values_flat_map_get; apply (t_wf _ _ _ H) | exact Hv]. }
    rewrite of_dict_id.
    + rewrite dkeys_map. reflexivity.
    + rewrite dvalues_map. exact Hfm.
    + intros k vs Hi. apply in_map_iff in Hi. destruct Hi as (x & E' & Hx). inversion E'; subst.
      apply WF_key_get; [apply (t_wf _ _ _ H) | exact Hx].
    + rewrite dkeys_map. intro Hi. destruct (trip_ok_clean_key _ _ _ _ H Hi) as (_ & Hnan & _).
      congruence.
  - intros k Hi. split; [unfold listed; rewrite dkeys_map; exact Hi | eapply trip_ok_ckey; eauto].
  - simpl. exact Hk.
Qed.

(* serialising the normalised structure gives the very same document (no hypothesis) *)
Lemma serialize_normalise : forall g, serialize_feature (normalise g) = serialize_feature g.
Proof.
  intros g. unfold serialize_feature. cbn [keys normalise].
  replace (dict_of_keys (keys g) (get (normalise g))) with (dict_of_keys (keys g) (get g)); [reflexivity|].
  symmetry. apply dict_of_keys_ext. intros k Hk. unfold normalise. apply get_map. exact Hk.
Qed.

(* ---- a whole values_orders -------------------------------------------------------------------- *)

(* a feature name: a string other than the sentinel *)
Definition fname_ok (f : val) : Prop := exists s, f = VStr s /\ s <> sentinel.

Lemma trip_key_fname : forall jk f, fname_ok f -> trip_key jk f = f.
Proof.
  intros jk f (s & -> & Hs). unfold trip_key. simpl.
  destruct (String.eqb s sentinel) eqn:E; [|reflexivity].
  apply String.eqb_eq in E; congruence.
Qed.

Definition vo_ok (jk ps : val -> string) (vo : list (val * gl)) : Prop :=
  NoDup (map fst vo) /\
  (forall f, In f (map fst vo) -> fname_ok f) /\
  (forall f g, In (f, g) vo -> trip_ok jk ps g).

Definition normalise_vo (vo : list (val * gl)) : list (val * gl) :=
  map (fun fg => (fst fg, normalise (snd fg))) vo.

Lemma normalise_vo_names : forall vo, map fst (normalise_vo vo) = map fst vo.
Proof. intro vo. unfold normalise_vo. rewrite map_map. reflexivity. Qed.

Lemma deserialize_features_ok : forall jk ps vo acc,
  (forall f g, In (f, g) vo -> trip_ok jk ps g) ->
  NoDup (map fst acc ++ map fst vo) ->
  deserialize_features ps
    (map (fun fg => (fst fg, numpy_types (loads (dumps jk (serialize_feature (snd fg)))))) vo) acc
  = Ok (acc ++ normalise_vo vo).
Proof.
  intros jk ps vo; induction vo as [|[f g] t IH]; intros acc Hok Hn.
  - simpl. rewrite app_nil_r; reflexivity.
  - cbn [map deserialize_features fst snd normalise_vo].
    change (deserialize_feature ps (numpy_types (loads (dumps jk (serialize_feature g)))))
      with (roundtrip_gl jk ps g).
    rewrite (roundtrip_gl_ok jk ps g); [|eapply Hok; left; reflexivity].
    cbn [bind].
    assert (Hf : ~ In f (map fst acc)).
    { apply NoDup_app_iff in Hn. destruct Hn as (_ & _ & Hd). intro Hi.
      apply (Hd f Hi). left; reflexivity. }
    rewrite (aset_notin _ f (normalise g) acc Hf). rewrite IH.
    + rewrite <- app_assoc. reflexivity.
    + intros f' g' Hi. eapply Hok. right; exact Hi.
    + rewrite map_app. simpl. rewrite <- app_assoc. exact Hn.
Qed.

Theorem roundtrip_vo_ok : forall jk ps vo, vo_ok jk ps vo ->
  roundtrip_vo jk ps vo = Ok (normalise_vo vo).
Proof.
  intros jk ps vo (Hn & Hf & Hok).
  unfold roundtrip_vo, deserialize_vo, vo_text, serialize_vo.
  rewrite of_pairs_nodup by (rewrite map_map; exact Hn).
  assert (Hkeys : map (trip_key jk) (map fst vo) = map fst vo).
  { rewrite <- (map_id (map fst vo)) at 2. apply map_ext_in. intros f Hi.
    apply trip_key_fname, Hf, Hi. }
  assert (Hnames : map fst (map (fun fg : val * gl => (fst fg, serialize_feature (snd fg))) vo) = map fst vo)
    by (rewrite map_map; reflexivity).
  rewrite trip_dict by (rewrite Hnames, Hkeys; exact Hn).
  rewrite map_map. cbn [fst snd].
  replace (map (fun x : val * gl =>
                  (trip_key jk (fst x), numpy_types (loads (dumps jk (serialize_feature (snd x)))))) vo)
    with (map (fun fg : val * gl =>
                 (fst fg, numpy_types (loads (dumps jk (serialize_feature (snd fg)))))) vo).
  2:{ apply map_ext_in. intros [f g] Hi. cbn [fst snd]. f_equal. symmetry.
      apply trip_key_fname, Hf. apply in_map_iff. exists (f, g); auto. }
  rewrite (deserialize_features_ok jk ps vo [] Hok); [reflexivity | exact Hn].
Qed.

(* ---- json.loads(json.dumps(x)) = x on plain JSON data ------------------------------------------ *)

Lemma jv_ind2 : forall (P : jv -> Prop),
  (forall v, P (JAtom v)) -> P JNone ->
  (forall l, Forall P l -> P (JList l)) ->
  (forall d, Forall (fun kv => P (snd kv)) d -> P (JDict d)) ->
  forall j, P j.
Proof.
  intros P HA HN HL HD. fix IH 1. intros [v| |l|d].
  - apply HA.
  - apply HN.
  - apply HL. induction l as [|x t IHl]; constructor; [apply IH | exact IHl].
  - apply HD. induction d as [|[k x] t IHd]; constructor; [apply IH | exact IHd].
Qed.

(* plain JSON data: every dict has distinct string keys *)
Inductive json_clean : jv -> Prop :=
| jc_atom : forall v, json_clean (JAtom v)
| jc_none : json_clean JNone
| jc_list : forall l, Forall json_clean l -> json_clean (JList l)
| jc_dict : forall d, NoDup (map fst d) ->
            Forall (fun kv => (exists s, fst kv = VStr s) /\ json_clean (snd kv)) d ->
            json_clean (JDict d).

Lemma map_fix_Forall : forall (A : Type) (C : A -> Prop) (f : A -> A) (l : list A),
  Forall (fun x => C x -> f x = x) l -> Forall C l -> map f l = l.
Proof.
  intros A C f l; induction l as [|x t IH]; intros H1 H2; [reflexivity|].
  inversion H1 as [|x1 t1 Hx1 Ht1]; inversion H2 as [|x2 t2 Hx2 Ht2]; subst.
  simpl. rewrite (Hx1 Hx2), (IH Ht1 Ht2). reflexivity.
Qed.

Lemma loads_dumps_id : forall jk j, json_clean j -> loads (dumps jk j) = j.
Proof.
  intros jk j; induction j as [v| |l IHl|d IHd] using jv_ind2; intro Hc; try reflexivity.
  - inversion Hc as [| |l' Hl|]; subst.
    rewrite dumps_list, loads_list, map_map. f_equal.
    apply (map_fix_Forall jv json_clean (fun x => loads (dumps jk x)) l IHl Hl).
  - inversion Hc as [| | |d' Hn Hd]; subst.
    rewrite dumps_dict, loads_dict, map_map. cbn [fst snd]. f_equal.
    rewrite (map_fix_Forall (val * jv)
               (fun kv => (exists s, fst kv = VStr s) /\ json_clean (snd kv))
               (fun x => (VStr (key_string jk (fst x)), loads (dumps jk (snd x)))) d).
    + apply of_pairs_nodup; exact Hn.
    + apply Forall_forall. intros [k x] Hi [[s Hs] Hx]. cbn [fst snd] in *. subst k. simpl.
      f_equal. rewrite Forall_forall in IHd. apply (IHd (VStr s, x) Hi). exact Hx.
    + exact Hd.
Qed.

(* ---- the fitted object ---------------------------------------------------------------------- *)

Definition reloaded (jk : val -> string) (s : state) : state :=
  mkState KDiscretizer (st_features s) (normalise_vo (st_vo s)) (loads (dumps jk (st_meta s)))
          (match to_json_history s with
           | Some h => loads (dumps jk h)
           | None => JNone
           end).

Definition state_ok (jk ps : val -> string) (s : state) : Prop :=
  vo_ok jk ps (st_vo s) /\ (forall f, In f (st_features s) -> In f (map fst (st_vo s))).

(* to_json -> json.dumps -> json.loads -> load_carver / load_discretizer *)
Theorem roundtrip_state_gen : forall jk ps s, state_ok jk ps s ->
  load ps (file_trip jk (to_json jk s)) = Ok (reloaded jk s).
Proof.
  intros jk ps s [Hvo Hfs].
  assert (Hmem : forallb (fun f => mem f (map fst (normalise_vo (st_vo s)))) (st_features s) = true).
  { rewrite normalise_vo_names. apply forallb_mem_incl. exact Hfs. }
  pose proof (roundtrip_vo_ok jk ps (st_vo s) Hvo) as Hrt. unfold roundtrip_vo in Hrt.
  unfold load, file_trip, to_json, reloaded. cbn [j_features j_vo j_meta j_history].
  destruct (to_json_history s) as [h|].
  - unfold load_carver, load_discretizer. cbn [j_features j_vo j_meta j_history].
    rewrite Hrt. cbn [bind]. rewrite Hmem. reflexivity.
  - unfold load_discretizer. cbn [j_features j_vo j_meta j_history].
    rewrite Hrt. cbn [bind]. rewrite Hmem. reflexivity.
Qed.

Lemma hist_entry_some : forall h, h <> JNone -> hist_entry h = Some h.
Proof. intros h H. destruct h; try reflexivity. congruence. Qed.

(* the history attribute of the reloaded object, with plain JSON data *)
Lemma reloaded_history : forall jk s, json_clean (st_history s) ->
  (st_class s = KCarver -> st_history s <> JNone) ->
  st_history (reloaded jk s) = st_history s.
Proof.
  intros jk [cl fs vo meta h] Hh Hc. unfold reloaded, to_json_history. cbn [st_class st_history] in *.
  destruct cl.
  - destruct h; cbn [hist_entry]; try reflexivity; apply loads_dumps_id; exact Hh.
  - apply loads_dumps_id; exact Hh.
Qed.

(* with plain JSON meta data nothing but the content-dict order can change *)
Theorem roundtrip_state : forall jk ps s, state_ok jk ps s ->
  json_clean (st_meta s) -> json_clean (st_history s) ->
  exists s', load ps (file_trip jk (to_json jk s)) = Ok s' /\
             st_features s' = st_features s /\
             st_vo s' = normalise_vo (st_vo s) /\
             st_meta s' = st_meta s /\
             st_history s' = st_history s.
Proof.
  intros jk ps s Hok Hm Hh. exists (reloaded jk s). split; [apply roundtrip_state_gen; exact Hok|].
  split; [reflexivity|]. split; [reflexivity|]. split; [apply loads_dumps_id; exact Hm|].
  destruct s as [cl fs vo meta h]. unfold reloaded, to_json_history. cbn [st_class st_history] in *.
  destruct cl.
  - destruct h; cbn [hist_entry]; try reflexivity; apply loads_dumps_id; exact Hh.
  - apply loads_dumps_id; exact Hh.
Qed.

(* behaviour (transform on any frame, labels_per_values, summary) is a function of the state:
   whatever that function is, the reloaded object computes it on the normalised state *)
Theorem roundtrip_behaviour : forall (B : Type) (behaviour : list val -> list (val * gl) -> jv -> B)
  jk ps s, state_ok jk ps s -> json_clean (st_meta s) ->
  exists s', load ps (file_trip jk (to_json jk s)) = Ok s' /\
             behaviour (st_features s') (st_vo s') (st_meta s') =
             behaviour (st_features s) (normalise_vo (st_vo s)) (st_meta s).
Proof.
  intros B beh jk ps s Hok Hm. exists (reloaded jk s). split; [apply roundtrip_state_gen; exact Hok|].
  unfold reloaded; cbn [st_features st_vo st_meta]. rewrite (loads_dumps_id jk _ Hm). reflexivity.
Qed.

(* ---- normalisation is the identity on an object whose content dict is in list order --------- *)

Definition ordered (g : gl) : Prop := dkeys (content g) = keys g.

Lemma map_dget_dkeys : forall d : dict, NoDup (dkeys d) ->
  map (fun k => (k, match dget k d with Some v => v | None => [] end)) (dkeys d) = d.
Proof.
  induction d as [|[k v] t IH]; simpl; intro Hn; [reflexivity|].
  inversion Hn as [|y l Hk Ht]; subst. rewrite val_eqb_refl. f_equal.
  rewrite <- (IH Ht) at 2. apply map_ext_in. intros a Ha.
  veq a k; [subst; tauto | reflexivity].
Qed.

Lemma normalise_ordered : forall g, NoDup (dkeys (content g)) -> ordered g -> normalise g = g.
Proof.
  intros [ks c] Hn Ho. unfold ordered in Ho. simpl in *. subst ks. unfold normalise, get. simpl.
  rewrite (map_dget_dkeys c Hn). reflexivity.
Qed.

Lemma normalise_idem : forall g, normalise (normalise g) = normalise g.
Proof.
  intros g. unfold normalise at 1. cbn [keys normalise]. unfold normalise at 2. f_equal.
  apply map_ext_in. intros k Hk. f_equal. unfold normalise. apply get_map. exact Hk.
Qed.

Lemma normalise_vo_ordered : forall jk ps vo, vo_ok jk ps vo ->
  (forall f g, In (f, g) vo -> ordered g) -> normalise_vo vo = vo.
Proof.
  intros jk ps vo (_ & _ & Hok) Ho. unfold normalise_vo.
  rewrite <- (map_id vo) at 2. apply map_ext_in. intros [f g] Hi. cbn [fst snd]. f_equal.
  apply normalise_ordered; [|eapply Ho; eauto].
  destruct (t_wf _ _ _ (Hok f g Hi)) as (_ & Hd & _). exact Hd.
Qed.

Lemma vo_text_normalise : forall jk vo, vo_text jk (normalise_vo vo) = vo_text jk vo.
Proof.
  intros jk vo. unfold vo_text, serialize_vo, normalise_vo. rewrite map_map. cbn [fst snd].
  do 3 f_equal. apply map_ext. intros [f g]. cbn [fst snd]. rewrite serialize_normalise. reflexivity.
Qed.

(* IDEMPOTENCE, every class (the content is written in list order and a reloaded carver writes its
   history again): the reloaded object serialises to the very same JSON.  No hypothesis on the
   order of the content dict; a carver must have a history (fitted carvers always do). *)
Theorem roundtrip_idempotent : forall jk ps s,
  state_ok jk ps s -> json_clean (st_meta s) -> json_clean (st_history s) ->
  (st_class s = KCarver -> st_history s <> JNone) ->
  exists s', load ps (file_trip jk (to_json jk s)) = Ok s' /\
             to_json jk s' = to_json jk s /\
             file_trip jk (to_json jk s') = file_trip jk (to_json jk s) /\
             ((forall f g, In (f, g) (st_vo s) -> ordered g) -> st_vo s' = st_vo s).
Proof.
  intros jk ps s Hok Hm Hh Hc. exists (reloaded jk s).
  split; [apply roundtrip_state_gen; exact Hok|].
  assert (E : to_json jk (reloaded jk s) = to_json jk s).
  { pose proof (reloaded_history jk s Hh Hc) as Hrh.
    unfold to_json. f_equal.
    - unfold reloaded; cbn [st_vo]. apply vo_text_normalise.
    - unfold reloaded; cbn [st_meta]. apply loads_dumps_id; exact Hm.
    - unfold to_json_history at 1. rewrite Hrh. unfold reloaded at 1; cbn [st_class].
      unfold to_json_history. destruct (st_class s); [reflexivity|].
      apply hist_entry_some. apply Hc. reflexivity. }
  split; [exact E|]. split; [rewrite E; reflexivity|].
  intro Ho. unfold reloaded; cbn [st_vo]. destruct Hok as [Hvo _].
  apply (normalise_vo_ordered jk ps _ Hvo Ho).
Qed.

(* ---- the checker's booleans ------------------------------------------------------------------ *)

Lemma vlist_eqb_eq : forall a b, vlist_eqb a b = true <-> a = b.
Proof.
  induction a as [|x s IH]; destruct b as [|y t]; simpl; split; intro H; try discriminate; auto.
  - apply andb_true_iff in H. destruct H as [H1 H2]. apply val_eqb_eq in H1. apply IH in H2. congruence.
  - inversion H; subst. rewrite val_eqb_refl. apply IH. reflexivity.
Qed.

Lemma clean_b_spec : forall v, clean_b v = true -> clean v.
Proof.
  intros v H. unfold clean. destruct v; simpl in H; try discriminate; repeat split; try discriminate.
  intro E. inversion E; subst. rewrite String.eqb_refl in H. discriminate.
Qed.

Lemma NoDup_map_inj_on : forall (A B : Type) (f : A -> B) (l : list A) a b,
  NoDup (map f l) -> In a l -> In b l -> f a = f b -> a = b.
Proof.
  intros A B f l; induction l as [|x t IH]; intros a b Hn Ha Hb E; [destruct Ha|].
  simpl in Hn. inversion Hn as [|y l' Hx Ht]; subst.
  destruct Ha as [Ha|Ha], Hb as [Hb|Hb]; subst; auto.
  - exfalso. apply Hx. rewrite E. apply in_map; exact Hb.
  - exfalso. apply Hx. rewrite <- E. apply in_map; exact Ha.
Qed.

(* the boolean evaluated on the implementation's fitted state implies the theorem's hypotheses *)
Theorem trip_ok_b_sound : forall jk ps g, trip_ok_b jk ps g = true -> trip_ok jk ps g.
Proof.
  intros jk ps g H. unfold trip_ok_b in H.
  apply andb_true_iff in H. destruct H as [H H4].
  apply andb_true_iff in H. destruct H as [H H3].
  apply andb_true_iff in H. destruct H as [H1 H2].
  constructor.
  - apply wf_b_spec; exact H1.
  - apply Forall_forall. intros v Hv. apply clean_b_spec.
    rewrite forallb_forall in H2. apply H2; exact Hv.
  - intros a b Ha Hb E. apply nodupb_NoDup in H3.
    apply (NoDup_map_inj_on _ _ (fun k => VStr (key_string jk (to_base k))) (keys g) a b H3 Ha Hb).
    rewrite E. reflexivity.
  - intros z Hz. rewrite forallb_forall in H4. specialize (H4 _ Hz). cbn beta iota in H4.
    apply andb_true_iff in H4. destruct H4 as [Ha Hb]. split.
    + intro E. rewrite E, String.eqb_refl in Ha. discriminate.
    + apply String.eqb_eq; exact Hb.
Qed.

(* when the hypotheses hold on a fitted state observed on the implementation, the model's
   reload of it is its normal form *)
Theorem checker_link : forall f, trip_ok_b (jkf f) (psf f) (f_orig f) = true ->
  model_reload f = Ok (normalise (f_orig f)).
Proof. intros f H. unfold model_reload. apply roundtrip_gl_ok. apply trip_ok_b_sound. exact H. Qed.

Theorem same_groups_sound : forall a b, same_groups a b = true ->
  keys a = keys b /\ (forall k, In k (keys a) -> get a k = get b k) /\
  (forall k, In k (dkeys (content a)) <-> In k (dkeys (content b))).
Proof.
  intros a b H. unfold same_groups in H.
  apply andb_true_iff in H. destruct H as [H H4].
  apply andb_true_iff in H. destruct H as [H H3].
  apply andb_true_iff in H. destruct H as [H1 H2].
  split; [apply vlist_eqb_eq; exact H1|]. split.
  - intros k Hk. rewrite forallb_forall in H2. apply vlist_eqb_eq. apply H2; exact Hk.
  - intro k. split; intro Hi; [apply (proj1 (subset_incl _ _) H3) | apply (proj1 (subset_incl _ _) H4)]; exact Hi.
Qed.

(* ---- closed witnesses: each hypothesis of the trip is necessary ------------------------------ *)

(* CPython on the numbers used below: json key of 1 is "1", of 2.5 is "2.5" (value scaled by 2) *)
Definition w_jk (v : val) : string :=
  match v with VNum 2 => "1" | VNum 5 => "2.5" | VNum 4 => "2" | _ => "?" end.

(* leaders 1 and "1" of one feature get the same JSON key: load_discretizer raises *)
Definition w_collision : gl :=
  mkGL [VNum 2; VStr "1"] [(VNum 2, [VNum 2]); (VStr "1", [VStr "1"])].

Lemma witness_key_collision :
  WF w_collision /\ Forall clean (values w_collision) /\
  (forall z, In (VNum z) (keys w_collision) -> w_jk (VNum z) <> sentinel /\ w_jk (VNum z) = w_jk (VNum z)) /\
  roundtrip_gl w_jk w_jk w_collision = AssertErr.
Proof.
  split; [apply wf_b_spec; vm_compute; reflexivity|].
  split; [repeat constructor; discriminate|].
  split; [|vm_compute; reflexivity].
  intros z [E|[E|[]]]; inversion E; subst. split; [discriminate | reflexivity].
Qed.

(* a category literally named "numpy.inf" comes back as +inf *)
Definition w_sentinel : gl :=
  mkGL [VStr "a"; VStr "numpy.inf"] [(VStr "a", [VStr "a"]); (VStr "numpy.inf", [VStr "numpy.inf"])].

Lemma witness_sentinel_category :
  WF w_sentinel /\ trip_ok_b w_jk w_jk (mkGL [VStr "a"] [(VStr "a", [VStr "a"])]) = true /\
  roundtrip_gl w_jk w_jk w_sentinel =
    Ok (mkGL [VStr "a"; VPInf] [(VStr "a", [VStr "a"]); (VPInf, [VPInf])]) /\
  roundtrip_gl w_jk w_jk w_sentinel <> Ok (normalise w_sentinel).
Proof.
  split; [apply wf_b_spec; vm_compute; reflexivity|].
  split; [vm_compute; reflexivity|].
  split; [vm_compute; reflexivity|].
  vm_compute. discriminate.
Qed.

(* a -inf boundary comes back as +inf and collides with the +inf boundary *)
Definition w_neginf : gl :=
  mkGL [VNInf; VNum 5; VPInf] [(VNInf, [VNInf]); (VNum 5, [VNum 2; VNum 5]); (VPInf, [VPInf])].

Lemma witness_neg_inf :
  WF w_neginf /\
  roundtrip_gl w_jk w_jk w_neginf = Ok (mkGL [VPInf; VNum 5] [(VPInf, [VPInf]); (VNum 5, [VNum 2; VNum 5])]) /\
  roundtrip_gl w_jk w_jk w_neginf <> Ok (normalise w_neginf).
Proof.
  split; [apply wf_b_spec; vm_compute; reflexivity|].
  split; [vm_compute; reflexivity|].
  vm_compute. discriminate.
Qed.

(* str() of the reloaded number differs from the key json.dumps wrote: KeyError *)
Lemma witness_str_differs_from_key :
  roundtrip_gl w_jk (fun _ => "2.50") (mkGL [VNum 5] [(VNum 5, [VNum 5])]) = InternalErr.
Proof. vm_compute. reflexivity. Qed.

(* content dict not in list order (after replace_group_leader): everything survives, the text is
   the same again, only the order of the reloaded content dict differs from the original one:
   `ordered` is necessary for  st_vo s' = st_vo s  and for nothing else *)
Definition w_unordered : gl :=
  mkGL [VStr "b"; VStr "c"] [(VStr "c", [VStr "c"]); (VStr "b", [VStr "a"; VStr "b"])].

Lemma witness_unordered_content :
  trip_ok_b w_jk w_jk w_unordered = true /\
  roundtrip_gl w_jk w_jk w_unordered = Ok (normalise w_unordered) /\
  normalise w_unordered <> w_unordered /\
  dumps w_jk (serialize_feature (normalise w_unordered)) = dumps w_jk (serialize_feature w_unordered).
Proof.
  split; [vm_compute; reflexivity|].
  split; [vm_compute; reflexivity|].
  split; [vm_compute; discriminate | vm_compute; reflexivity].
Qed.

(* ---- non-vacuity: a quantitative and a qualitative feature, Discretizer and carver ----------- *)
Definition ex_quant : gl :=
  mkGL [VNum 2; VNum 5; VPInf; VStr "__NAN__"]
       [(VNum 2, [VNum 2]); (VNum 5, [VNum 4; VNum 5]); (VPInf, [VPInf]); (VStr "__NAN__", [VStr "__NAN__"])].
Definition ex_qual : gl :=
  mkGL [VStr "b"; VStr "__OTHER__"]
       [(VStr "b", [VStr "a"; VNum 2; VStr "1"; VStr "b"]); (VStr "__OTHER__", [VStr "c"; VStr "__OTHER__"])].
Definition ex_meta : jv :=
  JDict [(VStr "output_dtype", JAtom (VStr "str")); (VStr "dropna", JAtom (VNum 1));
         (VStr "input_dtypes", JDict [(VStr "q", JAtom (VStr "float")); (VStr "c", JAtom (VStr "str"))])].
Definition ex_state (k : klass) : state :=
  mkState k [VStr "q"; VStr "c"] [(VStr "q", ex_quant); (VStr "c", ex_qual)] ex_meta
          (JDict [(VStr "q", JList [JDict [(VStr "viable", JAtom (VNum 1))]])]).

Lemma ex_state_ok : forall k, state_ok w_jk w_jk (ex_state k).
Proof.
  intro k. split.
  - split; [|split].
    + simpl. repeat constructor; simpl; intuition discriminate.
    + simpl. intros f [E|[E|[]]]; subst; eexists; split; try reflexivity; discriminate.
    + simpl. intros f g [E|[E|[]]]; inversion E; subst; apply trip_ok_b_sound; vm_compute; reflexivity.
  - simpl. intros f H; exact H.
Qed.

Lemma ex_meta_clean : json_clean ex_meta.
Proof.
  unfold ex_meta. constructor.
  - simpl. repeat constructor; simpl; intuition discriminate.
  - repeat constructor; cbn [fst snd]; eauto; try (simpl; repeat constructor; simpl; intuition discriminate).
Qed.

Lemma ex_ordered : forall k f g, In (f, g) (st_vo (ex_state k)) -> ordered g.
Proof. intros k f g [E|[E|[]]]; inversion E; subst; reflexivity. Qed.

Lemma ex_history_clean : json_clean (st_history (ex_state KCarver)).
Proof.
  simpl. constructor; [simpl; repeat constructor; simpl; intuition discriminate|].
  repeat constructor; cbn [fst snd]; eauto; try (simpl; repeat constructor; simpl; intuition discriminate).
Qed.

Lemma example_nonvacuous :
  state_ok w_jk w_jk (ex_state KDiscretizer) /\ json_clean (st_meta (ex_state KDiscretizer)) /\
  load w_jk (file_trip w_jk (to_json w_jk (ex_state KDiscretizer))) =
    Ok (ex_state KDiscretizer) /\
  state_ok w_jk w_jk (ex_state KCarver) /\ json_clean (st_history (ex_state KCarver)) /\
  st_history (ex_state KCarver) <> JNone /\
  (exists s', load w_jk (file_trip w_jk (to_json w_jk (ex_state KCarver))) = Ok s' /\
              st_vo s' = st_vo (ex_state KCarver) /\ st_history s' = st_history (ex_state KCarver) /\
              to_json w_jk s' = to_json w_jk (ex_state KCarver)).
Proof.
  split; [apply ex_state_ok|]. split; [apply ex_meta_clean|].
  split; [vm_compute; reflexivity|]. split; [apply ex_state_ok|]. split; [apply ex_history_clean|].
  split; [simpl; discriminate|].
  eexists. split; [vm_compute; reflexivity|]. split; [reflexivity|]. split; reflexivity.
Qed.
