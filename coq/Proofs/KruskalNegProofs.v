(* KruskalNegProofs.v — kruskal_neg (left open in Properties/C15.v): the Kruskal-Wallis H statistic of a
   quantitative feature against a grouping is unchanged when the feature is negated, and more generally
   under any strictly decreasing map, for every sample size, any ties, any number of groups.

   Vocabulary: Model/CheckC15.v (rank2 / ranks2 = twice the mid-ranks, tie_counts, group_stat,
   kruskal_stat = the sufficient statistics of H) and Proofs/SelectorProofs.v (decreasing,
   ranks_antitone).  CheckC15.v only names H in a comment
       H = (12/(n(n+1)) sum_g (R_g/2)^2/n_g - 3(n+1)) / (1 - sum(t^3-t)/(n^3-n))
   so `kruskal_H` below writes that formula down as a function of `kruskal_stat`, with exactly the
   shape (and the None cases) of Model/Measures.v `kruskal`; the two are compared by vm_compute on
   samples with ties at the end of the file.

   Proof: by ranks_antitone every doubled mid-rank r becomes c - r, c = 2n + 2, and the tie counts
   do not move.  Hence S_g' = n_g c - S_g and
       sum_g S_g'^2/(4 n_g) = sum_g S_g^2/(4 n_g) - (c/2) sum_g S_g + (c^2/4) sum_g n_g .
   When the groups partition the sample, sum_g n_g = n and sum_g S_g = sum of all doubled mid-ranks
   = n (n + 1) (zsum_ranks2), and (c/2) n (n+1) = (c^2/4) n : the between-groups term is unchanged.

   The hypotheses "lab labels every observation, groups lists every label once" are necessary:
   see kruskal_neg_needs_partition. *)
From Coq Require Import QArith Qreduction Lia.
From AC.Model Require Import Base Selector CheckC14 CheckC15.
From AC.Model Require Measures.
From AC.Proofs Require Import SelectorProofs.
Open Scope Z_scope.

(* ---------------------------------------------------------------------------------------- *)
(* H as a function of the sufficient statistics                                               *)
(* ---------------------------------------------------------------------------------------- *)

(* sum_g S_g^2 / (4 n_g)   (S_g = sum of the doubled mid-ranks of group g) *)
Definition ssbn (gs : list (Z * Z)) : Q :=
  fold_right (fun g acc => Qplus (Qmake (fst g * fst g) (Z.to_pos (4 * snd g))) acc) 0%Q gs.

(* st = (per group (S_g, n_g), tie count of every observation).  sum over the distinct values of
   t^3 - t  =  sum over the observations of t^2 - 1.  None: n <= 1, all values identical, or an
   empty group (scipy: nan / error) — the same cases as Measures.kruskal. *)
Definition kruskal_H (st : list (Z * Z) * list Z) : option Q :=
  let gs := fst st in
  let tc := snd st in
  let n := Z.of_nat (List.length tc) in
  let tsum := zsum (map (fun t => t * t - 1) tc) in
  let denom := n * n * n - n in
  if (n <=? 1) || (denom - tsum =? 0) || existsb (fun g => snd g =? 0) gs then None
  else
    let h := Qminus (Qmult (Qmake 12 (Z.to_pos (n * (n + 1)))) (ssbn gs)) (inject_Z (3 * (n + 1))) in
    let ties := Qmake (denom - tsum) (Z.to_pos denom) in
    Some (Qred (Qdiv h ties)).

(* ---------------------------------------------------------------------------------------- *)
(* the doubled mid-ranks of a sample of size n add up to n (n + 1)                            *)
(* ---------------------------------------------------------------------------------------- *)
Lemma count_cons p a l : count p (a :: l) = (if p a then 1 else 0) + count p l.
Proof.
  unfold count. cbn [filter]. destruct (p a); cbn [List.length]; rewrite ?Nat2Z.inj_succ; lia.
Qed.

Lemma rank2_cons a xs x :
  rank2 (a :: xs) x = rank2 xs x + (if a <? x then 2 else 0) + (if a =? x then 1 else 0).
Proof. unfold rank2. rewrite !count_cons. destruct (a <? x), (a =? x); lia. Qed.

Lemma zsum_rank2_cons a xs l :
  zsum (map (rank2 (a :: xs)) l)
  = zsum (map (rank2 xs) l) + 2 * count (fun x => a <? x) l + count (fun x => x =? a) l.
Proof.
  induction l as [|x t IH]; cbn [map zsum]; [reflexivity|].
  rewrite IH, rank2_cons, !count_cons, (Z.eqb_sym x a).
  destruct (a <? x), (a =? x); lia.
Qed.

Theorem zsum_ranks2 xs :
  zsum (ranks2 xs) = Z.of_nat (List.length xs) * (Z.of_nat (List.length xs) + 1).
Proof.
  unfold ranks2. induction xs as [|a t IH]; [reflexivity|].
  cbn [map zsum List.length]. rewrite zsum_rank2_cons, IH, Nat2Z.inj_succ.
  unfold rank2 at 1. rewrite !count_cons, Z.ltb_irrefl, Z.eqb_refl.
  pose proof (count3 t a). lia.
Qed.

(* ---------------------------------------------------------------------------------------- *)
(* group totals: when the groups partition the labels, summing over the groups = summing over *)
(* the sample                                                                                 *)
(* ---------------------------------------------------------------------------------------- *)
Lemma zsum_map_add {A} (f h : A -> Z) l :
  zsum (map (fun x => f x + h x) l) = zsum (map f l) + zsum (map h l).
Proof. induction l as [|x t IH]; cbn [map zsum]; [reflexivity|]. rewrite IH. ring. Qed.

Lemma zsum_indicator_out v lbl groups :
  ~ In lbl groups -> zsum (map (fun g => if Nat.eqb lbl g then v else 0) groups) = 0.
Proof.
  induction groups as [|g t IH]; intros Hn; cbn [map zsum]; [reflexivity|].
  rewrite IH by (intros H; apply Hn; right; exact H).
  destruct (Nat.eqb_spec lbl g) as [->|_]; [exfalso; apply Hn; left; reflexivity|reflexivity].
Qed.

Lemma zsum_indicator v lbl groups :
  NoDup groups -> In lbl groups ->
  zsum (map (fun g => if Nat.eqb lbl g then v else 0) groups) = v.
Proof.
  induction 1 as [|g t Hnin Hnd IH]; intros Hin; [destruct Hin|].
  cbn [map zsum]. destruct (Nat.eqb_spec lbl g) as [->|Hne].
  - rewrite zsum_indicator_out by exact Hnin. ring.
  - destruct Hin as [E|Hin]; [congruence|]. rewrite IH by exact Hin. ring.
Qed.

(* total of the weight w over the members of group g *)
Definition gsum (w : Z * nat -> Z) (l : list (Z * nat)) (g : nat) : Z :=
  zsum (map w (filter (fun p => Nat.eqb (snd p) g) l)).

Lemma gsum_total w l groups :
  NoDup groups -> (forall p, In p l -> In (snd p) groups) ->
  zsum (map (gsum w l) groups) = zsum (map w l).
Proof.
  intros Hnd. induction l as [|p t IH]; intros Hin.
  - clear Hnd Hin. unfold gsum. induction groups as [|g s IHg]; cbn [filter map zsum] in *; [reflexivity|].
    rewrite IHg. reflexivity.
  - cbn [map zsum]. rewrite <- IH by (intros q Hq; apply Hin; right; exact Hq).
    rewrite <- (zsum_indicator (w p) (snd p) groups Hnd) at 1 by (apply Hin; left; reflexivity).
    rewrite <- zsum_map_add. f_equal. apply map_ext. intros g.
    unfold gsum. cbn [filter]. destruct (Nat.eqb (snd p) g); cbn [map zsum]; ring.
Qed.

Lemma length_zsum {A} (l : list A) : Z.of_nat (List.length l) = zsum (map (fun _ => 1) l).
Proof. induction l as [|x t IH]; cbn [List.length map zsum]; [reflexivity|]. rewrite <- IH. lia. Qed.

Lemma group_stat_gsum xs lab g :
  group_stat xs lab g
  = (gsum fst (combine (ranks2 xs) lab) g, gsum (fun _ => 1) (combine (ranks2 xs) lab) g).
Proof. unfold group_stat, gsum. rewrite length_zsum. reflexivity. Qed.

Lemma zsum_fst_combine (rs : list Z) : forall (lab : list nat),
  List.length lab = List.length rs -> zsum (map fst (combine rs lab)) = zsum rs.
Proof.
  induction rs as [|r t IH]; intros [|b lab] Hl; cbn [combine map zsum fst] in *; try discriminate;
    [reflexivity|]. injection Hl as Hl. rewrite (IH lab Hl). reflexivity.
Qed.

Lemma in_combine_lab (rs : list Z) (lab : list nat) p : In p (combine rs lab) -> In (snd p) lab.
Proof. destruct p as [r b]. intros H. exact (in_combine_r _ _ _ _ H). Qed.

(* sum_g S_g = n (n + 1)  and  sum_g n_g = n *)
Lemma group_totals xs lab groups :
  List.length lab = List.length xs -> NoDup groups -> incl lab groups ->
  zsum (map fst (map (group_stat xs lab) groups))
    = Z.of_nat (List.length xs) * (Z.of_nat (List.length xs) + 1)
  /\ zsum (map snd (map (group_stat xs lab) groups)) = Z.of_nat (List.length xs).
Proof.
  intros Hl Hnd Hincl.
  assert (Hlr : List.length lab = List.length (ranks2 xs)) by (unfold ranks2; rewrite map_length; exact Hl).
  assert (Hin : forall p, In p (combine (ranks2 xs) lab) -> In (snd p) groups)
    by (intros p Hp; apply Hincl; eapply in_combine_lab; exact Hp).
  rewrite !map_map. split.
  - rewrite (map_ext _ (gsum fst (combine (ranks2 xs) lab)))
      by (intros g; rewrite group_stat_gsum; reflexivity).
    rewrite (gsum_total _ _ _ Hnd Hin), (zsum_fst_combine _ _ Hlr). apply zsum_ranks2.
  - rewrite (map_ext _ (gsum (fun _ => 1) (combine (ranks2 xs) lab)))
      by (intros g; rewrite group_stat_gsum; reflexivity).
    rewrite (gsum_total _ _ _ Hnd Hin), <- length_zsum, combine_length, <- Hlr, Hl. lia.
Qed.

(* ---------------------------------------------------------------------------------------- *)
(* a strictly decreasing map reflects the group rank sums: S_g -> n_g (2n + 2) - S_g           *)
(* ---------------------------------------------------------------------------------------- *)
Lemma combine_map_l {A B C} (f : A -> B) (a : list A) : forall (b : list C),
  combine (map f a) b = map (fun p => (f (fst p), snd p)) (combine a b).
Proof.
  induction a as [|x t IH]; intros [|y b]; cbn [map combine fst snd]; try reflexivity.
  rewrite IH. reflexivity.
Qed.

Lemma filter_map_snd {A B C} (f : A -> B) (q : C -> bool) (l : list (A * C)) :
  filter (fun p => q (snd p)) (map (fun p => (f (fst p), snd p)) l)
  = map (fun p => (f (fst p), snd p)) (filter (fun p => q (snd p)) l).
Proof.
  induction l as [|p t IH]; cbn [map filter snd]; [reflexivity|].
  destruct (q (snd p)); cbn [map]; rewrite IH; reflexivity.
Qed.

Definition reflect_stat (c : Z) (g : Z * Z) : Z * Z := (snd g * c - fst g, snd g).

Lemma group_stat_antitone psi xs lab g :
  decreasing psi ->
  group_stat (map psi xs) lab g
  = reflect_stat (2 * Z.of_nat (List.length xs) + 2) (group_stat xs lab g).
Proof.
  intros H. unfold group_stat, reflect_stat. destruct (ranks_antitone psi xs H) as [-> _].
  cbn [fst snd]. rewrite combine_map_l.
  rewrite (filter_map_snd _ (fun b => Nat.eqb b g)).
  rewrite !map_length, map_map. cbn [fst].
  rewrite <- (map_map fst (fun r => 2 * Z.of_nat (List.length xs) + 2 - r)), zsum_map_sub, map_length.
  f_equal. ring.
Qed.

(* ---------------------------------------------------------------------------------------- *)
(* the algebra over Q                                                                         *)
(* ---------------------------------------------------------------------------------------- *)
Lemma term_reflect c S m : 0 < m ->
  (((m * c - S) * (m * c - S)) # Z.to_pos (4 * m)) ==
  ((S * S) # Z.to_pos (4 * m)) - (c # 2) * inject_Z S + ((c * c) # 4) * inject_Z m.
Proof.
  intros Hm. unfold Qeq, Qminus, Qplus, Qmult, Qopp, inject_Z. cbn [Qnum Qden].
  rewrite !Pos2Z.inj_mul. rewrite !Z2Pos.id by lia. ring.
Qed.

(* key algebraic lemma: sum_g (n_g c - S_g)^2/(4 n_g)
                        = sum_g S_g^2/(4 n_g) - (c/2) sum_g S_g + (c^2/4) sum_g n_g *)
Lemma ssbn_reflect c gs : (forall g, In g gs -> 0 < snd g) ->
  ssbn (map (reflect_stat c) gs) ==
  ssbn gs - (c # 2) * inject_Z (zsum (map fst gs)) + ((c * c) # 4) * inject_Z (zsum (map snd gs)).
Proof.
  unfold reflect_stat. induction gs as [|[S m] t IH]; intros Hpos.
  - cbn. ring.
  - cbn [map ssbn fold_right fst snd zsum]. fold (ssbn t).
    fold (ssbn (map (fun g => (snd g * c - fst g, snd g)) t)).
    rewrite IH by (intros g Hg; apply Hpos; right; exact Hg).
    rewrite term_reflect by (apply (Hpos (S, m)); left; reflexivity).
    rewrite !inject_Z_plus. ring.
Qed.

(* with sum_g S_g = n (n + 1), sum_g n_g = n and c = 2n + 2 the two corrections cancel *)
Lemma ssbn_reflect_partition n gs :
  (forall g, In g gs -> 0 < snd g) ->
  zsum (map fst gs) = n * (n + 1) -> zsum (map snd gs) = n ->
  ssbn (map (reflect_stat (2 * n + 2)) gs) == ssbn gs.
Proof.
  intros Hpos HS Hn. rewrite (ssbn_reflect _ _ Hpos), HS, Hn.
  assert (E : ((2 * n + 2) # 2) * inject_Z (n * (n + 1))
              == (((2 * n + 2) * (2 * n + 2)) # 4) * inject_Z n).
  { unfold Qeq, Qmult, inject_Z. cbn [Qnum Qden]. rewrite !Pos2Z.inj_mul. ring. }
  rewrite E. ring.
Qed.

Lemma existsb_reflect c gs :
  existsb (fun g => snd g =? 0) (map (reflect_stat c) gs) = existsb (fun g => snd g =? 0) gs.
Proof. induction gs as [|g t IH]; cbn [map existsb reflect_stat snd]; [reflexivity|]. rewrite IH. reflexivity. Qed.

Lemma group_stat_size_nonneg xs lab g : 0 <= snd (group_stat xs lab g).
Proof. unfold group_stat. cbn [snd]. lia. Qed.

(* ---------------------------------------------------------------------------------------- *)
(* kruskal_neg                                                                                *)
(* ---------------------------------------------------------------------------------------- *)
Theorem kruskal_neg psi xs lab groups :
  decreasing psi ->
  List.length lab = List.length xs ->   (* every observation carries a label *)
  NoDup groups -> incl lab groups ->    (* the groups partition the labels *)
  kruskal_H (kruskal_stat (map psi xs) lab groups) = kruskal_H (kruskal_stat xs lab groups).
Proof.
  intros Hdec Hl Hnd Hincl. unfold kruskal_H, kruskal_stat. cbn [fst snd].
  destruct (ranks_antitone psi xs Hdec) as [_ ->].
  rewrite (map_ext _ _ (fun g => group_stat_antitone psi xs lab g Hdec)).
  rewrite <- (map_map (group_stat xs lab) (reflect_stat (2 * Z.of_nat (List.length xs) + 2))).
  rewrite existsb_reflect.
  set (gs := map (group_stat xs lab) groups).
  set (n := Z.of_nat (List.length (tie_counts xs))).
  assert (En : Z.of_nat (List.length xs) = n) by (unfold n, tie_counts; rewrite map_length; reflexivity).
  rewrite En.
  destruct ((n <=? 1) || (n * n * n - n - zsum (map (fun t => t * t - 1) (tie_counts xs)) =? 0)
            || existsb (fun g => snd g =? 0) gs) eqn:Hc; [reflexivity|].
  apply orb_false_iff in Hc. destruct Hc as [_ Hex].
  f_equal. apply Qred_complete.
  assert (Hpos : forall g, In g gs -> 0 < snd g).
  { intros g Hg. pose proof (existsb_exists (fun g => snd g =? 0) gs) as [_ Hx].
    destruct (Z.eqb_spec (snd g) 0) as [E0|Hne].
    - rewrite Hx in Hex; [discriminate|]. exists g. split; [exact Hg|]. rewrite E0. reflexivity.
    - unfold gs in Hg. apply in_map_iff in Hg. destruct Hg as [k [<- _]].
      pose proof (group_stat_size_nonneg xs lab k).
      assert (snd (group_stat xs lab k) <> 0) by exact Hne. lia. }
  destruct (group_totals xs lab groups Hl Hnd Hincl) as [HS Hn]. fold gs in HS, Hn. rewrite En in HS, Hn.
  rewrite (ssbn_reflect_partition n gs Hpos HS Hn). reflexivity.
Qed.

(* the instance named in Properties/C15.v: negating the feature *)
Corollary kruskal_neg_opp xs lab groups :
  List.length lab = List.length xs -> NoDup groups -> incl lab groups ->
  kruskal_H (kruskal_stat (map Z.opp xs) lab groups) = kruskal_H (kruskal_stat xs lab groups).
Proof. apply kruskal_neg. intros a b H. lia. Qed.

(* ---------------------------------------------------------------------------------------- *)
(* sanity: kruskal_H is the H of Model/Measures.v; samples with ties; the partition hypotheses *)
(* are necessary                                                                              *)
(* ---------------------------------------------------------------------------------------- *)
Definition to_ymsets (xs : list Z) (lab groups : list nat) : list Measures.ymset :=
  map (fun g => map (fun p => (fst p, 1)) (filter (fun p => Nat.eqb (snd p) g) (combine xs lab))) groups.

Example kruskal_H_is_measures_kruskal :
  let xs1 := [5; 1; 5; 2; 7; 7; 7; 3; 1; 9] in
  let lab1 := [0; 1; 2; 0; 1; 2; 0; 1; 2; 0]%nat in
  let xs2 := [4; 4; 4; 2; 2; 8; 1; 1; 1; 1; 0; 6; 6] in
  let lab2 := [3; 1; 3; 0; 1; 5; 0; 1; 3; 0; 5; 5; 1]%nat in
  kruskal_H (kruskal_stat xs1 lab1 [0; 1; 2]%nat) = Some (423 # 424)%Q /\
  Measures.kruskal (to_ymsets xs1 lab1 [0; 1; 2]%nat) = Some (423 # 424)%Q /\
  kruskal_H (kruskal_stat (map Z.opp xs1) lab1 [0; 1; 2]%nat) = Some (423 # 424)%Q /\
  kruskal_H (kruskal_stat xs2 lab2 [5; 0; 3; 1]%nat) = Some (1303 # 696)%Q /\
  Measures.kruskal (to_ymsets xs2 lab2 [5; 0; 3; 1]%nat) = Some (1303 # 696)%Q /\
  kruskal_H (kruskal_stat (map (fun x => 3 - x * x * x) xs2) lab2 [5; 0; 3; 1]%nat) = Some (1303 # 696)%Q /\
  kruskal_H (kruskal_stat [3; 3; 3] [0; 1; 0]%nat [0; 1]%nat) = None /\
  Measures.kruskal (to_ymsets [3; 3; 3] [0; 1; 0]%nat [0; 1]%nat) = None /\
  kruskal_H (kruskal_stat [3; 4; 3] [0; 1; 0]%nat [0; 1; 2]%nat) = None /\
  Measures.kruskal (to_ymsets [3; 4; 3] [0; 1; 0]%nat [0; 1; 2]%nat) = None.
Proof. repeat split; vm_compute; reflexivity. Qed.

(* groups that do not cover every label (H of a sub-collection of groups with the ranks of the
   whole sample) are NOT invariant: the hypothesis `incl lab groups` cannot be dropped *)
Example kruskal_neg_needs_partition :
  let xs := [4; 4; 4; 2; 2; 8; 1; 1; 1; 1; 0; 6; 6] in
  let lab := [3; 1; 3; 0; 1; 5; 0; 1; 3; 0; 5; 5; 1]%nat in
  kruskal_H (kruskal_stat xs lab [0; 1]%nat) = Some (-5499 # 232)%Q /\
  kruskal_H (kruskal_stat (map Z.opp xs) lab [0; 1]%nat) = Some (-3259 # 232)%Q.
Proof. split; vm_compute; reflexivity. Qed.

Print Assumptions zsum_ranks2.
Print Assumptions ssbn_reflect.
Print Assumptions kruskal_neg.
Print Assumptions kruskal_neg_opp.
Print Assumptions kruskal_H_is_measures_kruskal.
Print Assumptions kruskal_neg_needs_partition.
