(* MulticlassProofs.v — string order facts and the one-vs-rest structure of the multiclass model *)
From Coq Require Import List String Bool Ascii NArith Permutation Sorted Lia.
Import ListNotations.
From AC.Model Require Import Float Combos Measures Carve Multiclass.

(* ---- String.compare is a strict total order -------------------------------------------- *)
Lemma ascii_compare_lt_trans a b c :
  Ascii.compare a b = Lt -> Ascii.compare b c = Lt -> Ascii.compare a c = Lt.
Proof.
  unfold Ascii.compare. rewrite !N.compare_lt_iff. apply N.lt_trans.
Qed.

Lemma ascii_compare_refl a : Ascii.compare a a = Eq.
Proof. unfold Ascii.compare. apply N.compare_refl. Qed.

Lemma string_compare_refl s : String.compare s s = Eq.
Proof. induction s as [|a s IH]; cbn; [reflexivity|]. rewrite ascii_compare_refl. exact IH. Qed.

Lemma string_compare_lt_trans : forall s1 s2 s3,
  String.compare s1 s2 = Lt -> String.compare s2 s3 = Lt -> String.compare s1 s3 = Lt.
Proof.
  induction s1 as [|a s1 IH]; intros [|b s2] [|c s3] H12 H23; cbn in *; try discriminate; try reflexivity.
  destruct (Ascii.compare a b) eqn:Eab; try discriminate.
  - apply Ascii.compare_eq_iff in Eab. subst b.
    destruct (Ascii.compare a c) eqn:Eac; try discriminate; try reflexivity.
    eapply IH; eassumption.
  - destruct (Ascii.compare b c) eqn:Ebc; try discriminate.
    + apply Ascii.compare_eq_iff in Ebc. subst c. rewrite Eab. reflexivity.
    + rewrite (ascii_compare_lt_trans _ _ _ Eab Ebc). reflexivity.
Qed.

Lemma leb_trans s1 s2 s3 : String.leb s1 s2 = true -> String.leb s2 s3 = true -> String.leb s1 s3 = true.
Proof.
  unfold String.leb. intros H12 H23.
  destruct (String.compare s1 s2) eqn:E12; try discriminate.
  - apply String.compare_eq_iff in E12. subst s2. exact H23.
  - destruct (String.compare s2 s3) eqn:E23; try discriminate.
    + apply String.compare_eq_iff in E23. subst s3. rewrite E12. reflexivity.
    + rewrite (string_compare_lt_trans _ _ _ E12 E23). reflexivity.
Qed.

Lemma leb_refl s : String.leb s s = true.
Proof. unfold String.leb. rewrite string_compare_refl. reflexivity. Qed.

(* ---- sort_strings is a sorted permutation ------------------------------------------------ *)
Definition sle (a b : string) : Prop := String.leb a b = true.

Lemma ins_str_perm s l : Permutation (ins_str s l) (s :: l).
Proof.
  induction l as [|x t IH]; cbn; [apply Permutation_refl|].
  destruct (String.leb s x); [apply Permutation_refl|].
  eapply Permutation_trans; [apply perm_skip; exact IH|apply perm_swap].
Qed.

Lemma sort_strings_perm l : Permutation (sort_strings l) l.
Proof.
  induction l as [|x t IH]; cbn; [apply Permutation_refl|].
  eapply Permutation_trans; [apply ins_str_perm|apply perm_skip; exact IH].
Qed.

Lemma ins_str_sorted s l : Sorted sle l -> Sorted sle (ins_str s l).
Proof.
  induction l as [|x t IH]; intros Hs; cbn.
  - constructor; constructor.
  - destruct (String.leb s x) eqn:E.
    + constructor; [exact Hs|constructor; exact E].
    + inversion Hs as [|? ? Ht Hhd]; subst.
      constructor; [apply IH; exact Ht|].
      assert (Hxs : sle x s).
      { unfold sle. destruct (String.leb_total s x) as [H|H]; [congruence|exact H]. }
      destruct t as [|y t']; cbn.
      * constructor; exact Hxs.
      * destruct (String.leb s y); constructor; [exact Hxs|].
        inversion Hhd; assumption.
Qed.

Lemma sort_strings_sorted l : Sorted sle (sort_strings l).
Proof. induction l as [|x t IH]; cbn; [constructor|apply ins_str_sorted; exact IH]. Qed.

Lemma sorted_head_min : forall l x t, Sorted sle l -> l = x :: t -> forall y, In y l -> sle x y.
Proof.
  intros l x t Hs -> y Hy.
  apply Sorted_StronglySorted in Hs.
  - inversion Hs as [|? ? _ Hall]; subst. destruct Hy as [<-|Hy]; [apply leb_refl|].
    rewrite Forall_forall in Hall. apply Hall; exact Hy.
  - intros a b c. apply leb_trans.
Qed.

(* the one-vs-rest classes are all the classes except one that is minimal in string order *)
Theorem ovr_classes_spec : forall classes, classes <> [] ->
  exists c0, Permutation (c0 :: ovr_classes classes) classes /\
             forall c, In c classes -> String.leb c0 c = true.
Proof.
  intros classes Hne. unfold ovr_classes.
  destruct (sort_strings classes) as [|c0 rest] eqn:E.
  - exfalso. apply Hne. apply Permutation_nil. rewrite <- E. apply sort_strings_perm.
  - exists c0. cbn [tl]. split.
    + rewrite <- E. apply sort_strings_perm.
    + intros c Hc. apply (sorted_head_min (c0 :: rest) c0 rest).
      * rewrite <- E. apply sort_strings_sorted.
      * reflexivity.
      * rewrite <- E. eapply Permutation_in; [apply Permutation_sym, sort_strings_perm|exact Hc].
Qed.

(* every column of the multiclass model is exactly the binary carving of the indicator of its class *)
Theorem multiclass_ovr : forall cf feature classes data_of name o,
  In (name, o) (multiclass_feature cf feature classes data_of) <->
  exists c, In c (ovr_classes classes) /\ name = cast_name feature c /\ o = carve cf (data_of c).
Proof.
  intros cf feature classes data_of name o. unfold multiclass_feature. rewrite in_map_iff. split.
  - intros [c [Heq Hin]]. injection Heq as <- <-. exists c. repeat split; assumption.
  - intros [c [Hin [-> ->]]]. exists c. split; [reflexivity|exact Hin].
Qed.

(* a column is kept iff that binary carving keeps the feature *)
Theorem multiclass_kept_iff : forall cf feature classes data_of name,
  In name (kept_columns (multiclass_feature cf feature classes data_of)) <->
  exists c g, In c (ovr_classes classes) /\ name = cast_name feature c /\ carve cf (data_of c) = Kept g.
Proof.
  intros cf feature classes data_of name. unfold kept_columns. rewrite in_map_iff. split.
  - intros [[n o] [Hn Hf]]. cbn in Hn. subst n. apply filter_In in Hf. destruct Hf as [Hin Hk].
    apply multiclass_ovr in Hin. destruct Hin as [c [Hc [-> ->]]]. cbn in Hk.
    destruct (carve cf (data_of c)) as [|g] eqn:E; [discriminate|]. exists c, g. repeat split; assumption.
  - intros [c [g [Hc [-> Hk]]]]. exists (cast_name feature c, Kept g). split; [reflexivity|].
    apply filter_In. split; [|reflexivity]. apply multiclass_ovr. exists c. repeat split; [exact Hc|symmetry; exact Hk].
Qed.
