(* FitEndToEndProofs.v — C08 END TO END on the composed models, for ALL inputs:

     Part A  the invariant [feature_ok] (Model/CheckC08.v) from gl-level facts;
     Part B  quantitative pipeline [quantitative_fit true] (ContinuousDiscretizer, then the rare-bucket
             pass of QuantitativeDiscretizer): clean failure, or a well-formed order whose leaders are
             strictly increasing finite numbers, +inf, then the sentinel iff values are missing,
             and [feature_ok] of the corresponding record holds whatever the training values;
     Part C  qualitative pipelines [ordinal_fit] / [categorical_fit]: dropped, AssertionError, or a
             well-formed order covering every observed value, sentinel separate iff values missing;
     Part D  grouping a well-formed order by ANY family of disjoint groups of leaders
             ([apply_groups] = repeated [group_list]): succeeds, well formed, same values, leaders =
             the old leaders minus the discarded ones, in the same order;
     Part E  the groupings enumerated by Model/Combos.v, and therefore the [Kept] result of
             Model/Carve.v's [carve], are such families;
     Part F  the carver's write-back on one feature.  NOTE: [order_apply_combination],
             [convert_to_values] and [carver_fit_order] below are DEFINED HERE (there is no Model/
             definition of that step): they transcribe AutoCarver/carvers/base_carver.py
             (order_apply_combination, _update_orders) and base_discretizers.py (convert_to_values)
             with labels identified with leaders; they are NOT exercised by the correspondence harness;
     Part G  base fit followed by the carver, one feature.

   Stdlib only, no axioms (see the [Print Assumptions] at the end). *)
From Coq Require Import ZArith List Bool Lia Permutation Sorted SpecFloat String.
From AC.Model Require Import Base Float GroupedList CheckC13 CheckC08 Quantiles Ordinal Categorical
  CheckC09 Combos Measures Carve CheckC01.
From AC.Proofs Require Import BaseLemmas GroupedListSpec GroupedListProofs CheckC13Proofs
  DiscretizeProofs QuantFitProofs CategoricalOrderProofs CombosProofs CarveProofs.
Import ListNotations.
Open Scope Z_scope.
Open Scope list_scope.

(* ============================================================================================ *)
(* Part A — [feature_ok] from gl-level facts                                                     *)
(* ============================================================================================ *)

(* the leaders of a fitted quantitative feature, the sentinel left aside: strictly increasing
   finite numbers followed by +inf *)
Definition quant_keys (K : list val) : Prop :=
  exists ls, non_missing K = map VNum ls ++ [VPInf] /\ Sorted Z.lt ls.

Lemma val_le_pinf : forall v, val_le v VPInf = true.
Proof. intros [z| | |s|]; reflexivity. Qed.

Lemma strictly_increasing_shape : forall ls, Sorted Z.lt ls ->
  CheckC08.strictly_increasing (map VNum ls ++ [VPInf]) = true.
Proof.
  induction ls as [|x t IH]; intros Hs; [reflexivity|].
  inversion Hs as [|? ? Hs' Hhd]; subst. specialize (IH Hs').
  destruct t as [|y t'].
  - reflexivity.
  - inversion Hhd as [|? ? Hxy]; subst.
    change (CheckC08.strictly_increasing (map VNum (x :: y :: t') ++ [VPInf]))
      with (val_le (VNum x) (VNum y) && negb (val_eqb (VNum x) (VNum y))
            && CheckC08.strictly_increasing (map VNum (y :: t') ++ [VPInf])).
    rewrite IH. cbn [val_le val_eqb].
    replace (x <=? y) with true by (symmetry; apply Z.leb_le; lia).
    replace (x =? y) with false by (symmetry; apply Z.eqb_neq; lia). reflexivity.
Qed.

Lemma feature_ok_quant : forall g train hn,
  WF g -> quant_keys (keys g) -> (hn = true -> In str_nan (values g)) ->
  feature_ok (mkC08f true g train hn str_nan) = true.
Proof.
  intros g train hn Hwf (ls & Hk & Hs) Hn.
  assert (Hinf : In VPInf (keys g)).
  { assert (H : In VPInf (non_missing (keys g))).
    { rewrite Hk. apply in_or_app. right. left. reflexivity. }
    unfold non_missing in H. apply filter_In in H. tauto. }
  unfold feature_ok, covers, quant_leaders_ok.
  cbn [f_quant f_order f_train f_has_nan f_str_nan negb orb].
  rewrite (proj2 (wf_b_spec g) Hwf). cbn [andb].
  apply andb_true_iff. split; [apply andb_true_iff; split|].
  - apply forallb_forall. intros v _. apply existsb_exists. exists VPInf.
    split; [exact Hinf|apply val_le_pinf].
  - destruct hn; [|reflexivity]. cbn [negb orb]. apply contains_spec. apply Hn. reflexivity.
  - fold (non_missing (keys g)). rewrite Hk, (strictly_increasing_shape ls Hs).
    rewrite rev_app_distr. reflexivity.
Qed.

Lemma feature_ok_qual : forall g train hn,
  WF g -> (forall v, In v train -> In v (values g)) -> (hn = true -> In str_nan (values g)) ->
  feature_ok (mkC08f false g train hn str_nan) = true.
Proof.
  intros g train hn Hwf Hc Hn.
  unfold feature_ok, covers, quant_leaders_ok.
  cbn [f_quant f_order f_train f_has_nan f_str_nan negb orb].
  rewrite (proj2 (wf_b_spec g) Hwf). cbn [andb].
  rewrite andb_true_r. apply andb_true_iff. split.
  - apply forallb_forall. intros v Hv. apply contains_spec. auto.
  - destruct hn; [|reflexivity]. cbn [negb orb]. apply contains_spec. apply Hn. reflexivity.
Qed.

Lemma In_keys_values : forall g k, WF g -> In k (keys g) -> In k (values g).
Proof. intros g k Hwf Hk. eapply In_get_values. apply WF_key_get; eassumption. Qed.

(* ============================================================================================ *)
(* Part B — the quantitative pipeline                                                            *)
(* ============================================================================================ *)

Lemma non_missing_quant_shape : forall ls nan_cnt,
  non_missing (map VNum ls ++ [VPInf] ++ nan_keys nan_cnt) = map VNum ls ++ [VPInf].
Proof.
  intros ls nan_cnt. rewrite app_assoc. apply non_missing_keys.
  intro Hin. apply in_app_or in Hin. destruct Hin as [Hin|[Hin|[]]]; [|discriminate Hin].
  apply in_map_iff in Hin. destruct Hin as [z [Hz _]]. discriminate Hz.
Qed.

Theorem quantitative_fit_end_to_end : forall mf nan_cnt d,
  (exists g ls,
      quantitative_fit true mf nan_cnt d = QFit g
      /\ WF g
      (* leaders: increasing observed values, +inf, then the sentinel iff values are missing *)
      /\ keys g = map VNum ls ++ [VPInf] ++ nan_keys nan_cnt
      /\ Sorted Z.lt ls
      /\ (forall x, In x ls -> In x (qvalues d))
      /\ (In str_nan (keys g) <-> 0 < nan_cnt)
      /\ (0 < nan_cnt -> In (str_nan, [str_nan]) (content g))
      (* every number is below some leader: transform finds a bucket for every training value *)
      /\ (forall x, exists k, In k (keys g) /\ val_le (VNum x) k = true)
      (* the invariant evaluated by the harness, whatever the training values handed to it *)
      /\ forall train, feature_ok (mkC08f true g train (0 <? nan_cnt) str_nan) = true)
  \/ quantitative_fit true mf nan_cnt d = QFail QFloat
  \/ quantitative_fit true mf nan_cnt d = QFail QIndex.
Proof.
  intros mf nan_cnt d.
  destruct (quantitative_fit_ok mf nan_cnt d) as [(g & Hfit & Hwf)|H]; [left|right; exact H].
  destruct (quantitative_fit_leaders _ _ _ _ Hfit)
    as (q & qs & ls & runs & Hq & Hfq & Hs & Hk & Hls & Hsub & Hnan & Hcont & _).
  destruct (find_quantiles_spec true _ _ _ _ Hfq) as (Hobs & _).
  assert (Hinf : In VPInf (keys g)).
  { rewrite Hk. apply in_or_app. right. left. reflexivity. }
  exists g, ls. split; [exact Hfit|]. split; [exact Hwf|]. split; [exact Hk|].
  split; [exact Hls|]. split.
  { intros x Hx. specialize (Hobs x (Hsub x Hx)). unfold observed_values, vcs_of in Hobs.
    rewrite map_map in Hobs. exact Hobs. }
  split; [exact Hnan|]. split.
  { intros Hn. rewrite Hcont. apply in_or_app. right. unfold nan_group.
    apply Z.ltb_lt in Hn. rewrite Hn. left. reflexivity. }
  split.
  { intros x. exists VPInf. split; [exact Hinf|reflexivity]. }
  intros train. apply feature_ok_quant; [exact Hwf| |].
  - exists ls. split; [|exact Hls]. rewrite Hk. apply non_missing_quant_shape.
  - intros Hn. apply In_keys_values; [exact Hwf|]. apply Hnan. apply Z.ltb_lt. exact Hn.
Qed.

(* ============================================================================================ *)
(* Part C — the qualitative pipelines                                                            *)
(* ============================================================================================ *)

Lemma NoDup_map_inside : forall (A B : Type) (f : A -> list B) (h : A -> B) l,
  NoDup (flat_map f l) -> (forall x, In x l -> In (h x) (f x)) -> NoDup (map h l).
Proof.
  intros A B f h. induction l as [|a t IH]; intros Hn Hin; cbn [map]; [constructor|].
  cbn [flat_map] in Hn. apply NoDup_app_iff in Hn. destruct Hn as (_ & Ht & Hd).
  constructor.
  - intro Hm. apply in_map_iff in Hm. destruct Hm as (x & Hx & Hxt).
    apply (Hd (h a)); [apply Hin; left; reflexivity|].
    apply in_flat_map. exists x. split; [exact Hxt|]. rewrite <- Hx. apply Hin. right. exact Hxt.
  - apply IH; [exact Ht|]. intros x Hx. apply Hin. right. exact Hx.
Qed.

Lemma flat_map_perm_each : forall (A B : Type) (f f' : A -> list B) l,
  (forall x, In x l -> Permutation (f x) (f' x)) -> Permutation (flat_map f l) (flat_map f' l).
Proof.
  intros A B f f'. induction l as [|a t IH]; intros H; cbn [flat_map]; [constructor|].
  apply Permutation_app; [apply H; left; reflexivity|]. apply IH. intros x Hx. apply H. right. exact Hx.
Qed.

Definition vgroup (b : bucket) : val * list val := value_group (b_lead b) (b_mem b).

Lemma ordinal_fit_inv : forall mf nan_cnt order d g,
  ordinal_fit mf nan_cnt order d = Ok (Some g) ->
  (forall v, In v (observed d) -> In v order)
  /\ exists bs,
       find_common_modalities (nan_cnt + count_rows d) (min_freq_f mf) (map (init_bucket d) order) = Ok bs
       /\ g = gl_of_groups (map vgroup bs) (0 <? nan_cnt).
Proof.
  intros mf nan_cnt order d g H. unfold ordinal_fit in H.
  destruct (all_rare _ _ _); [discriminate|].
  destruct (forallb (fun p => mem (fst (fst p)) order) d) eqn:Hr; cbn [negb] in H; [|discriminate].
  destruct (find_common_modalities _ _ _) as [bs| |] eqn:E; try discriminate.
  injection H as <-. split.
  - intros v Hv. unfold observed in Hv. apply in_map_iff in Hv. destruct Hv as (p & <- & Hp).
    rewrite forallb_forall in Hr. apply mem_In. apply Hr. exact Hp.
  - exists bs. split; reflexivity.
Qed.

(* the fitted order of an ordinal feature, whatever the sample: nothing lost, nothing invented *)
Theorem ordinal_fit_wf : forall mf nan_cnt order d g,
  NoDup order -> ~ In str_nan order ->
  ordinal_fit mf nan_cnt order d = Ok (Some g) ->
  WF g
  /\ Permutation (values g) (order ++ nan_keys nan_cnt)
  /\ (forall v, In v (observed d) -> In v (values g))
  /\ (exists ks, keys g = ks ++ nan_keys nan_cnt /\ (forall k, In k ks -> In k order))
  /\ (In str_nan (keys g) <-> 0 < nan_cnt)
  /\ (0 < nan_cnt -> In (str_nan, [str_nan]) (content g))
  /\ feature_ok (mkC08f false g (observed d) (0 <? nan_cnt) str_nan) = true.
Proof.
  intros mf nan_cnt order d g Hnd Hnan H.
  destruct (ordinal_fit_inv _ _ _ _ _ H) as (Hobs & bs & E & ->).
  destruct (find_common_modalities_post d _ _ _ _ E) as (_ & _ & Hperm & _).
  rewrite members_init in Hperm by apply init_bucket_mem.
  assert (Hli : leader_inside bs).
  { unfold find_common_modalities in E.
    eapply (fcm_preserves leader_inside merge_leader_inside); eauto. apply leader_inside_init. }
  unfold leader_inside in Hli. rewrite Forall_forall in Hli.
  assert (Hndm : NoDup (members bs)).
  { eapply Permutation_NoDup; [apply Permutation_sym; exact Hperm|exact Hnd]. }
  assert (Heach : forall b, In b bs -> Permutation (snd (vgroup b)) (b_mem b)).
  { intros b Hb. unfold vgroup. apply value_group_perm; [|apply Hli; exact Hb].
    unfold members in Hndm. eapply NoDup_flat_map_each; eauto. }
  assert (Hvals : Permutation (flat_map snd (map vgroup bs)) order).
  { rewrite flat_map_concat_map, map_map, <- flat_map_concat_map.
    etransitivity; [apply flat_map_perm_each; exact Heach|exact Hperm]. }
  assert (Hfst : map fst (map vgroup bs) = map b_lead bs).
  { rewrite map_map. reflexivity. }
  assert (Hsub : forall k, In k (map b_lead bs) -> In k order).
  { intros k Hk. apply in_map_iff in Hk. destruct Hk as (b & <- & Hb).
    eapply Permutation_in; [exact Hperm|]. eapply In_members; eauto. }
  assert (Hwf : WF (gl_of_groups (map vgroup bs) (0 <? nan_cnt))).
  { apply wf_gl_of_groups.
    - rewrite Hfst. apply (NoDup_map_inside _ _ b_mem b_lead); [exact Hndm|exact Hli].
    - eapply Permutation_NoDup; [apply Permutation_sym; exact Hvals|exact Hnd].
    - intros k vs Hin. apply in_map_iff in Hin. destruct Hin as (b & Eb & _).
      unfold vgroup, value_group in Eb. injection Eb as <- <-.
      apply in_or_app. right. left. reflexivity.
    - intro Hin. apply Hnan. eapply Permutation_in; eauto. }
  assert (Hv : Permutation (values (gl_of_groups (map vgroup bs) (0 <? nan_cnt)))
                           (order ++ nan_keys nan_cnt)).
  { unfold values, dvalues. rewrite gl_of_groups_content, flat_map_app.
    apply Permutation_app; [exact Hvals|].
    unfold nan_group, nan_keys. destruct (0 <? nan_cnt); reflexivity. }
  assert (Hk : In str_nan (keys (gl_of_groups (map vgroup bs) (0 <? nan_cnt))) <-> 0 < nan_cnt).
  { rewrite gl_of_groups_keys, Hfst, in_app_iff. unfold nan_keys. split.
    - intros [Hin|Hin]; [destruct (Hnan (Hsub _ Hin))|].
      destruct (0 <? nan_cnt) eqn:En; [apply Z.ltb_lt; exact En|destruct Hin].
    - intros Hn. apply Z.ltb_lt in Hn. rewrite Hn. right. left. reflexivity. }
  assert (Hcov : forall v, In v (observed d) ->
                           In v (values (gl_of_groups (map vgroup bs) (0 <? nan_cnt)))).
  { intros v Hv'. eapply Permutation_in; [apply Permutation_sym; exact Hv|].
    apply in_or_app. left. auto. }
  split; [exact Hwf|]. split; [exact Hv|]. split; [exact Hcov|]. split.
  { exists (map b_lead bs). split; [rewrite gl_of_groups_keys, Hfst; reflexivity|exact Hsub]. }
  split; [exact Hk|]. split.
  { intros Hn. rewrite gl_of_groups_content. apply in_or_app. right. unfold nan_group.
    apply Z.ltb_lt in Hn. rewrite Hn. left. reflexivity. }
  apply feature_ok_qual; [exact Hwf|exact Hcov|].
  intros Hn. apply In_keys_values; [exact Hwf|]. apply Hk. apply Z.ltb_lt. exact Hn.
Qed.

(* every way the ordinal fit can end *)
Theorem ordinal_fit_end_to_end : forall mf nan_cnt order d,
  NoDup order -> ~ In str_nan order ->
  ordinal_fit mf nan_cnt order d = Ok None
  \/ ordinal_fit mf nan_cnt order d = AssertErr
  \/ exists g, ordinal_fit mf nan_cnt order d = Ok (Some g)
       /\ WF g
       /\ Permutation (values g) (order ++ nan_keys nan_cnt)
       /\ (forall v, In v (observed d) -> In v (values g))
       /\ (In str_nan (keys g) <-> 0 < nan_cnt)
       /\ (0 < nan_cnt -> In (str_nan, [str_nan]) (content g))
       /\ feature_ok (mkC08f false g (observed d) (0 <? nan_cnt) str_nan) = true.
Proof.
  intros mf nan_cnt order d Hnd Hnan.
  destruct (ordinal_fit_total mf nan_cnt order d) as [[_ H]|[(_ & _ & g & H)|(_ & _ & H)]];
    [left; exact H| |right; left; exact H].
  right. right. exists g. split; [exact H|].
  destruct (ordinal_fit_wf _ _ _ _ _ Hnd Hnan H) as (H1 & H2 & H3 & _ & H5 & H6 & H7).
  split; [exact H1|]. split; [exact H2|]. split; [exact H3|]. split; [exact H5|].
  split; [exact H6|exact H7].
Qed.

(* ---- categorical ----------------------------------------------------------------------------- *)
Lemma NoDup_map_filter : forall (A B : Type) (f : A -> B) (p : A -> bool) l,
  NoDup (map f l) -> NoDup (map f (filter p l)).
Proof.
  intros A B f p. induction l as [|a t IH]; intros H; cbn [filter map]; [constructor|].
  cbn [map] in H. inversion H as [|? ? Hn Ht]; subst.
  destruct (p a); cbn [map]; [|apply IH; exact Ht].
  constructor; [|apply IH; exact Ht].
  intro Hin. apply Hn. apply in_map_iff in Hin. destruct Hin as (x & Hx & Hxf).
  apply filter_In in Hxf. apply in_map_iff. exists x. tauto.
Qed.

Lemma flat_map_map : forall (A B C : Type) (f : B -> list C) (h : A -> B) l,
  flat_map f (map h l) = flat_map (fun x => f (h x)) l.
Proof. intros A B C f h. induction l as [|a t IH]; cbn; [reflexivity|]. rewrite IH. reflexivity. Qed.

Definition cat_gl (st : cat_state) : gl := mkGL (cs_keys st) (cs_content st).

Lemma In_observed_p : forall (p : val * Z * Z) d, In p d -> In (fst (fst p)) (observed d).
Proof. intros p d H. unfold observed. apply in_map_iff. exists p. split; [reflexivity|exact H]. Qed.

Section CategoricalWf.
  Context (mf : Z * Z) (nan_cnt : Z) (order : list val) (d : odata).
  Context (Hobs_nd : NoDup (observed d)) (Hord_nd : NoDup order).
  Context (Hdef : ~ In str_default (observed d ++ order)).
  Context (Hnan : ~ In str_nan (observed d ++ order)).

  Let TG := cat_to_group mf nan_cnt order d.
  Let G := existsb truthy TG.
  Let KEPT := cat_kept mf nan_cnt order d.
  Let MOVED := cat_moved mf nan_cnt order d.
  Let TR := cat_training_rates mf nan_cnt order d.
  Let kept_vals := map (fun p : val * Z * Z => fst (fst p)) KEPT.
  Let default_part := match MOVED with [] => [] | _ => rev TG ++ [str_default] end.
  Let tag := fun kr : val * fl =>
    if val_eqb (fst kr) str_default then (str_default, rev TG ++ [str_default]) else (fst kr, [fst kr]).

  Lemma cat_tg_sub : forall v, In v TG -> In v (observed d ++ order).
  Proof.
    intros v Hv. unfold TG, cat_to_group in Hv. apply in_app_or in Hv. apply in_or_app.
    destruct Hv as [Hv|Hv].
    - left. apply In_rare_observed in Hv. destruct Hv as (c & s & Hin & _). eapply In_observed; eauto.
    - right. unfold never_observed in Hv. apply filter_In in Hv. tauto.
  Qed.

  Lemma cat_tg_nodup : NoDup TG.
  Proof.
    unfold TG, cat_to_group. apply NoDup_app_iff. split; [|split].
    - unfold rare_observed. apply NoDup_map_filter. exact Hobs_nd.
    - unfold never_observed. apply NoDup_filter. exact Hord_nd.
    - intros v Hr Hn. apply In_rare_observed in Hr. destruct Hr as (c & s & Hin & _).
      unfold never_observed in Hn. apply filter_In in Hn. destruct Hn as [_ Hn].
      apply andb_true_iff in Hn. destruct Hn as [Hn _]. apply negb_true_iff, mem_false in Hn.
      apply Hn. eapply In_observed; eauto.
  Qed.

  Lemma cat_kept_vals_sub : forall v, In v kept_vals -> In v (observed d) /\ cat_grouped mf nan_cnt order d v = false.
  Proof.
    intros v Hv. unfold kept_vals in Hv. apply in_map_iff in Hv. destruct Hv as (p & <- & Hp).
    unfold KEPT, cat_kept in Hp. apply filter_In in Hp. destruct Hp as [Hp Hg].
    apply negb_true_iff in Hg. split; [|exact Hg].
    apply In_observed_p. exact Hp.
  Qed.

  Lemma cat_kept_vals_nodup : NoDup kept_vals.
  Proof. unfold kept_vals, KEPT, cat_kept. apply NoDup_map_filter. exact Hobs_nd. Qed.

  Lemma cat_tr_keys : map fst TR = kept_vals ++ match MOVED with [] => [] | _ => [str_default] end.
  Proof.
    unfold TR, cat_training_rates. rewrite map_app, map_map. cbn [fst]. fold KEPT. fold kept_vals.
    f_equal. fold MOVED. destruct MOVED; reflexivity.
  Qed.

  Lemma cat_tag_fst : forall kr, fst (tag kr) = fst kr.
  Proof.
    intros kr. unfold tag. destruct (val_eqb (fst kr) str_default) eqn:E; [|reflexivity].
    apply val_eqb_eq in E. cbn [fst]. congruence.
  Qed.

  Lemma cat_tr_values : flat_map (fun kr => snd (tag kr)) TR = kept_vals ++ default_part.
  Proof.
    unfold TR, cat_training_rates. rewrite flat_map_app. fold KEPT MOVED. f_equal.
    - rewrite flat_map_map. unfold kept_vals.
      assert (Hk : forall p, In p KEPT -> fst (fst p) <> str_default).
      { intros p Hp E. apply Hdef. apply in_or_app. left. rewrite <- E.
        unfold KEPT, cat_kept in Hp. apply filter_In in Hp. apply In_observed_p. tauto. }
      induction KEPT as [|p t IH]; [reflexivity|]. cbn [flat_map map].
      rewrite IH by (intros q Hq; apply Hk; right; exact Hq). unfold tag at 1. cbn [fst].
      rewrite (proj2 (val_eqb_neq _ _) (Hk p (or_introl eq_refl))). reflexivity.
    - unfold default_part. destruct MOVED; [reflexivity|]. cbn [flat_map]. unfold tag. cbn [fst].
      rewrite val_eqb_refl. cbn [snd]. apply app_nil_r.
  Qed.

  Lemma cat_str_nan_default : str_nan <> str_default.
  Proof. discriminate. Qed.

  (* when rows are moved to the default group, "something truthy to group" holds (this is the
     model's consistency test; otherwise the fit raises) *)
  Lemma cat_values_nodup : G = match MOVED with [] => false | _ => true end ->
    NoDup (kept_vals ++ default_part).
  Proof.
    intros HG. apply NoDup_app_iff. split; [apply cat_kept_vals_nodup|]. split.
    - unfold default_part. destruct MOVED; [constructor|]. apply NoDup_snoc.
      + apply NoDup_rev. apply cat_tg_nodup.
      + rewrite <- in_rev. intro Hin. apply Hdef. apply cat_tg_sub. exact Hin.
    - intros v Hk Hd. destruct (cat_kept_vals_sub v Hk) as [Hobs Hg].
      unfold default_part in Hd. destruct MOVED as [|p t] eqn:Em; [destruct Hd|].
      apply in_app_or in Hd. destruct Hd as [Hd|[Hd|[]]].
      + apply in_rev in Hd. unfold cat_grouped in Hg. fold TG in Hg. fold G in Hg. rewrite HG in Hg.
        cbn [andb] in Hg. apply mem_false in Hg. contradiction.
      + subst v. apply Hdef. apply in_or_app. left. exact Hobs.
  Qed.

  Theorem categorical_fit_wf : forall st,
    categorical_fit mf nan_cnt order d = Ok (Some st) ->
    let g := cat_gl st in
    WF g
    /\ Permutation (values g) (kept_vals ++ default_part ++ nan_keys nan_cnt)
    /\ (forall v, In v (observed d) -> In v (values g))
    /\ (forall v, In v (values g) -> In v (observed d ++ order) \/ v = str_default \/ v = str_nan)
    /\ (In str_nan (keys g) <-> 0 < nan_cnt)
    /\ (0 < nan_cnt -> In (str_nan, [str_nan]) (content g))
    /\ feature_ok (mkC08f false g (observed d) (0 <? nan_cnt) str_nan) = true.
  Proof.
    intros st H g. rewrite categorical_fit_unfold in H. cbv zeta in H.
    destruct (all_rare _ _ _); [discriminate|].
    destruct (negb (forallb (fun v => mem v order) (observed d))); [discriminate|].
    match type of H with (if ?c then _ else _) = _ => destruct c; [discriminate|] end.
    match type of H with (if ?c then _ else _) = _ => destruct c eqn:HG; [|discriminate] end.
    apply eqb_prop in HG. fold TG in HG. fold G in HG. fold MOVED in HG. fold TR in H. fold TG in H.
    injection H as Hst. subst g. unfold cat_gl. rewrite <- Hst. cbn [cs_keys cs_content].
    set (R := sort_rates TR) in *.
    assert (HR : Permutation R TR) by apply sort_rates_perm.
    fold tag.
    set (NK := cat_nan_tail nan_cnt).
    set (NC := if cat_has_nan nan_cnt then [(str_nan, [str_nan])] else []).
    assert (ENK : NK = nan_keys nan_cnt) by reflexivity.
    assert (Hdk : dkeys (map tag R ++ NC) = map fst R ++ NK).
    { unfold dkeys. rewrite map_app, map_map. f_equal.
      - apply map_ext. apply cat_tag_fst.
      - unfold NC, NK, cat_nan_tail. destruct (cat_has_nan nan_cnt); reflexivity. }
    assert (Hdv : dvalues (map tag R ++ NC) = flat_map (fun kr => snd (tag kr)) R ++ NK).
    { unfold dvalues. rewrite flat_map_app, flat_map_map. f_equal.
      unfold NC, NK, cat_nan_tail. destruct (cat_has_nan nan_cnt); reflexivity. }
    assert (Hpv : Permutation (flat_map (fun kr => snd (tag kr)) R) (kept_vals ++ default_part)).
    { rewrite <- cat_tr_values. apply Permutation_flat_map. exact HR. }
    assert (Hpk : Permutation (map fst R) (map fst TR)) by (apply Permutation_map; exact HR).
    assert (Hvsub : forall v, In v (kept_vals ++ default_part) ->
                              In v (observed d ++ order) \/ v = str_default).
    { intros v Hv. apply in_app_or in Hv. destruct Hv as [Hv|Hv].
      - left. apply in_or_app. left. apply cat_kept_vals_sub. exact Hv.
      - unfold default_part in Hv. destruct MOVED; [destruct Hv|].
        apply in_app_or in Hv. destruct Hv as [Hv|[Hv|[]]]; [|right; auto].
        left. apply cat_tg_sub. apply in_rev. exact Hv. }
    assert (Hnn : ~ In str_nan (kept_vals ++ default_part)).
    { intro Hin. destruct (Hvsub _ Hin) as [Hc|Hc]; [exact (Hnan Hc)|exact (cat_str_nan_default Hc)]. }
    assert (Hksub : forall k, In k (map fst R) -> In k (kept_vals ++ default_part)).
    { intros k Hk. apply (Permutation_in _ Hpk) in Hk. rewrite cat_tr_keys in Hk.
      apply in_app_or in Hk. apply in_or_app. destruct Hk as [Hk|Hk]; [left; exact Hk|right].
      unfold default_part. destruct MOVED; [destruct Hk|]. destruct Hk as [<-|[]].
      apply in_or_app. right. left. reflexivity. }
    assert (Hkn : NoDup (map fst R ++ NK)).
    { assert (Hn1 : NoDup (map fst R)).
      { eapply Permutation_NoDup; [apply Permutation_sym; exact Hpk|]. rewrite cat_tr_keys.
        apply NoDup_app_iff. split; [apply cat_kept_vals_nodup|]. split.
        - destruct MOVED; constructor; [intros []|constructor].
        - intros v Hk Hd. destruct MOVED; [destruct Hd|]. destruct Hd as [<-|[]].
          apply Hdef. apply in_or_app. left. apply cat_kept_vals_sub. exact Hk. }
      rewrite ENK. unfold nan_keys. destruct (0 <? nan_cnt); [|rewrite app_nil_r; exact Hn1].
      apply NoDup_snoc; [exact Hn1|]. intro Hin. apply Hnn. apply Hksub. exact Hin. }
    assert (Hwf : WF (mkGL (map fst R ++ NK) (map tag R ++ NC))).
    { apply WF_intro.
      - exact Hkn.
      - rewrite Hdk. exact Hkn.
      - intros k. rewrite Hdk. reflexivity.
      - rewrite Hdv. rewrite ENK.
        eapply Permutation_NoDup; [apply Permutation_app; [apply Permutation_sym; exact Hpv|reflexivity]|].
        unfold nan_keys. destruct (0 <? nan_cnt); [|rewrite app_nil_r; exact (cat_values_nodup HG)].
        apply NoDup_snoc; [exact (cat_values_nodup HG)|exact Hnn].
      - intros k vs Hin. apply in_app_or in Hin. destruct Hin as [Hin|Hin].
        + apply in_map_iff in Hin. destruct Hin as (kr & Ek & _). unfold tag in Ek.
          destruct (val_eqb (fst kr) str_default); injection Ek as <- <-.
          * apply in_or_app. right. left. reflexivity.
          * left. reflexivity.
        + unfold NC in Hin. destruct (cat_has_nan nan_cnt); [|destruct Hin].
          destruct Hin as [Ek|[]]. injection Ek as <- <-. left. reflexivity. }
    assert (Hv : Permutation (values (mkGL (map fst R ++ NK) (map tag R ++ NC)))
                             (kept_vals ++ default_part ++ nan_keys nan_cnt)).
    { unfold values. cbn [content]. rewrite Hdv, ENK, app_assoc.
      apply Permutation_app; [exact Hpv|reflexivity]. }
    assert (Hcov : forall v, In v (observed d) ->
                     In v (values (mkGL (map fst R ++ NK) (map tag R ++ NC)))).
    { intros v Hvo. eapply Permutation_in; [apply Permutation_sym; exact Hv|].
      unfold observed in Hvo. apply in_map_iff in Hvo. destruct Hvo as (p & <- & Hp).
      destruct (cat_grouped mf nan_cnt order d (fst (fst p))) eqn:Eg.
      - assert (Hm : In p MOVED).
        { unfold MOVED, cat_moved. apply filter_In. split; [exact Hp|exact Eg]. }
        apply in_or_app. right. apply in_or_app. left. unfold default_part.
        destruct MOVED as [|p0 t]; [destruct Hm|]. apply in_or_app. left. rewrite <- in_rev.
        unfold cat_grouped in Eg. apply andb_true_iff in Eg. apply mem_In. apply Eg.
      - apply in_or_app. left. unfold kept_vals. apply in_map_iff. exists p. split; [reflexivity|].
        unfold KEPT, cat_kept. apply filter_In. split; [exact Hp|]. rewrite Eg. reflexivity. }
    assert (Hkn' : In str_nan (map fst R ++ NK) <-> 0 < nan_cnt).
    { rewrite in_app_iff, ENK. unfold nan_keys. split.
      - intros [Hin|Hin]; [destruct (Hnn (Hksub _ Hin))|].
        destruct (0 <? nan_cnt) eqn:En; [apply Z.ltb_lt; exact En|destruct Hin].
      - intros Hn. apply Z.ltb_lt in Hn. rewrite Hn. right. left. reflexivity. }
    split; [exact Hwf|]. split; [exact Hv|]. split; [exact Hcov|]. split.
    { intros v Hin. apply (Permutation_in _ Hv) in Hin. rewrite app_assoc in Hin.
      apply in_app_or in Hin. destruct Hin as [Hin|Hin].
      - destruct (Hvsub _ Hin); auto.
      - right. right. unfold nan_keys in Hin. destruct (0 <? nan_cnt); [|destruct Hin].
        destruct Hin as [<-|[]]. reflexivity. }
    split; [exact Hkn'|]. split.
    { intros Hn. cbn [content]. apply in_or_app. right. unfold NC, cat_has_nan.
      apply Z.ltb_lt in Hn. rewrite Hn. left. reflexivity. }
    apply feature_ok_qual; [exact Hwf|exact Hcov|].
    intros Hn. apply In_keys_values; [exact Hwf|]. apply Hkn'. apply Z.ltb_lt. exact Hn.
  Qed.
End CategoricalWf.

(* every way the categorical fit can end *)
Theorem categorical_fit_end_to_end : forall mf nan_cnt order d,
  NoDup (observed d) -> NoDup order ->
  ~ In str_default (observed d ++ order) -> ~ In str_nan (observed d ++ order) ->
  categorical_fit mf nan_cnt order d = Ok None
  \/ categorical_fit mf nan_cnt order d = AssertErr
  \/ exists st, categorical_fit mf nan_cnt order d = Ok (Some st)
       /\ WF (cat_gl st)
       /\ (forall v, In v (observed d) -> In v (values (cat_gl st)))
       /\ (forall v, In v (values (cat_gl st)) ->
             In v (observed d ++ order) \/ v = str_default \/ v = str_nan)
       /\ (In str_nan (keys (cat_gl st)) <-> 0 < nan_cnt)
       /\ (0 < nan_cnt -> In (str_nan, [str_nan]) (content (cat_gl st)))
       /\ feature_ok (mkC08f false (cat_gl st) (observed d) (0 <? nan_cnt) str_nan) = true.
Proof.
  intros mf nan_cnt order d H1 H2 H3 H4.
  destruct (categorical_fit_total mf nan_cnt order d) as [H|[[st H]|H]];
    [left; exact H| |right; left; exact H].
  right. right. exists st. split; [exact H|].
  destruct (categorical_fit_wf mf nan_cnt order d H1 H2 H3 H4 st H) as (A & _ & B & C & D & E & F).
  split; [exact A|]. split; [exact B|]. split; [exact C|]. split; [exact D|]. split; [exact E|exact F].
Qed.

(* ============================================================================================ *)
(* Part D — grouping a well-formed order by disjoint groups of leaders                           *)
(* ============================================================================================ *)

(* for (kept, members) in groups: order.group_list(members, kept) *)
Fixpoint apply_groups (g : gl) (gs : list (val * list val)) : res gl :=
  match gs with
  | [] => Ok g
  | kd :: t => do g' <- group_list g (snd kd) (fst kd) ; apply_groups g' t
  end.

(* the members that are not the kept leader *)
Definition dropped_of (kd : val * list val) : list val :=
  filter (fun x => negb (val_eqb x (fst kd))) (snd kd).
Definition discarded (gs : list (val * list val)) : list val := flat_map dropped_of gs.

Definition keep_keys (drop : list val) (ks : list val) : list val :=
  filter (fun x => negb (mem x drop)) ks.

Lemma keep_keys_nil : forall ks, keep_keys [] ks = ks.
Proof. intros ks. unfold keep_keys. apply filter_all. intros; reflexivity. Qed.

Lemma keep_keys_app : forall a b ks, keep_keys b (keep_keys a ks) = keep_keys (a ++ b) ks.
Proof.
  intros a b. induction ks as [|x t IH]; [reflexivity|]. unfold keep_keys in *. cbn [filter].
  destruct (mem x a) eqn:Ea; cbn [negb].
  - rewrite IH. replace (mem x (a ++ b)) with true; [reflexivity|].
    symmetry. apply mem_In. apply in_or_app. left. apply mem_In. exact Ea.
  - cbn [filter]. rewrite IH. destruct (mem x b) eqn:Eb.
    + replace (mem x (a ++ b)) with true; [reflexivity|].
      symmetry. apply mem_In. apply in_or_app. right. apply mem_In. exact Eb.
    + replace (mem x (a ++ b)) with false; [reflexivity|].
      symmetry. apply mem_false. intro Hin. apply in_app_or in Hin.
      destruct Hin as [Hin|Hin]; apply mem_In in Hin; congruence.
Qed.

Lemma In_keep_keys : forall drop ks x, In x (keep_keys drop ks) <-> In x ks /\ ~ In x drop.
Proof.
  intros drop ks x. unfold keep_keys. rewrite filter_In, negb_true_iff, mem_false. reflexivity.
Qed.

Lemma keep_keys_single : forall d ks, keep_keys [d] ks = filter (fun x => negb (val_eqb d x)) ks.
Proof.
  intros d ks. unfold keep_keys. apply filter_ext. intros x. cbn [mem]. rewrite orb_false_r.
  rewrite val_eqb_sym. reflexivity.
Qed.

(* group_list, with the leaders that remain *)
Lemma group_list_keys : forall k ds g, WF g -> In k (keys g) ->
  (forall d, In d ds -> In d (keys g)) ->
  NoDup (filter (fun d => negb (val_eqb d k)) ds) ->
  exists g', group_list g ds k = Ok g' /\ WF g' /\ Permutation (values g') (values g)
    /\ keys g' = keep_keys (filter (fun d => negb (val_eqb d k)) ds) (keys g).
Proof.
  intros k ds; induction ds as [|d t IH]; intros g Hwf Hk Hds Hnd.
  - exists g. split; [reflexivity|]. split; [exact Hwf|]. split; [reflexivity|].
    cbn [filter]. symmetry. apply keep_keys_nil.
  - cbn [group_list]. cbn [filter] in Hnd |- *.
    destruct (val_eq_dec d k) as [E|E].
    + subst d. rewrite val_eqb_refl in Hnd |- *. cbn [negb] in Hnd |- *.
      assert (Hg : group g k k = Ok g) by (unfold group, is_equal; rewrite val_eqb_refl; reflexivity).
      rewrite Hg. cbn [bind]. apply IH; auto. intros d Hd; apply Hds; right; exact Hd.
    + assert (E' : val_eqb d k = false) by (apply val_eqb_neq; exact E).
      rewrite E' in Hnd |- *. cbn [negb] in Hnd |- *. inversion Hnd as [|x l Hnotin Hnd']; subst.
      destruct (group_spec g d k Hwf E (Hds d (or_introl eq_refl)) Hk)
        as (g1 & Hg1 & Hwf1 & Hk1 & _ & Hp1).
      rewrite Hg1. cbn [bind].
      destruct (IH g1 Hwf1) as (g' & Hg' & Hwf' & Hp' & Hk'); auto.
      * rewrite Hk1. apply In_filter_neq. split; auto.
      * intros d' Hd'. rewrite Hk1. apply In_filter_neq. split; [apply Hds; right; exact Hd'|].
        intro; subst d'. apply Hnotin. apply filter_In. split; auto. rewrite E'; reflexivity.
      * exists g'. split; [exact Hg'|]. split; [exact Hwf'|]. split; [rewrite Hp'; exact Hp1|].
        rewrite Hk', Hk1, <- keep_keys_single, keep_keys_app. reflexivity.
Qed.

(* a family of groups that can be applied to [g]: every group contains its kept leader, groups are
   duplicate-free and pairwise disjoint, every member is a leader of [g] *)
Definition groups_ok (g : gl) (gs : list (val * list val)) : Prop :=
  (forall kd, In kd gs -> In (fst kd) (snd kd))
  /\ NoDup (flat_map snd gs)
  /\ (forall v, In v (flat_map snd gs) -> In v (keys g)).

Theorem apply_groups_spec : forall gs g, WF g -> groups_ok g gs ->
  exists g', apply_groups g gs = Ok g' /\ WF g' /\ Permutation (values g') (values g)
    /\ keys g' = keep_keys (discarded gs) (keys g).
Proof.
  induction gs as [|[k ds] t IH]; intros g Hwf (Hown & Hnd & Hsub).
  - exists g. split; [reflexivity|]. split; [exact Hwf|]. split; [reflexivity|].
    symmetry. apply keep_keys_nil.
  - cbn [apply_groups fst snd]. cbn [flat_map snd] in Hnd, Hsub.
    apply NoDup_app_iff in Hnd. destruct Hnd as (Hnd1 & Hnd2 & Hdisj).
    assert (Hkin : In k ds) by (apply (Hown (k, ds)); left; reflexivity).
    destruct (group_list_keys k ds g Hwf) as (g1 & Hg1 & Hwf1 & Hp1 & Hk1).
    + apply Hsub. apply in_or_app. left. exact Hkin.
    + intros d Hd. apply Hsub. apply in_or_app. left. exact Hd.
    + apply NoDup_filter. exact Hnd1.
    + rewrite Hg1. cbn [bind].
      destruct (IH g1 Hwf1) as (g' & Hg' & Hwf' & Hp' & Hk').
      * split; [intros kd Hkd; apply Hown; right; exact Hkd|]. split; [exact Hnd2|].
        intros v Hv. rewrite Hk1. apply In_keep_keys. split.
        -- apply Hsub. apply in_or_app. right. exact Hv.
        -- intro Hin. apply filter_In in Hin. destruct Hin as [Hin _]. exact (Hdisj v Hin Hv).
      * exists g'. split; [exact Hg'|]. split; [exact Hwf'|]. split; [rewrite Hp'; exact Hp1|].
        rewrite Hk', Hk1, keep_keys_app. reflexivity.
Qed.

(* what remains: the kept leaders stay, in their original relative order *)
Lemma kept_not_discarded : forall gs kd, NoDup (flat_map snd gs) -> In kd gs -> In (fst kd) (snd kd) ->
  ~ In (fst kd) (discarded gs).
Proof.
  induction gs as [|kd0 t IH]; intros kd Hnd Hin Hown Hd; [destruct Hin|].
  cbn [flat_map] in Hnd. apply NoDup_app_iff in Hnd. destruct Hnd as (Hn1 & Hn2 & Hdisj).
  unfold discarded in Hd. cbn [flat_map] in Hd. apply in_app_or in Hd.
  destruct Hin as [->|Hin]; destruct Hd as [Hd|Hd].
  - unfold dropped_of in Hd. apply filter_In in Hd. destruct Hd as [_ Hd].
    rewrite val_eqb_refl in Hd. discriminate.
  - apply in_flat_map in Hd. destruct Hd as (kd1 & Hkd1 & Hd). unfold dropped_of in Hd.
    apply filter_In in Hd. destruct Hd as [Hd _]. apply (Hdisj (fst kd) Hown).
    apply in_flat_map. exists kd1. split; assumption.
  - unfold dropped_of in Hd. apply filter_In in Hd. destruct Hd as [Hd _].
    apply (Hdisj (fst kd) Hd). apply in_flat_map. exists kd. split; assumption.
  - apply (IH kd Hn2 Hin Hown). exact Hd.
Qed.

(* ============================================================================================ *)
(* Part E — the groupings enumerated by Combos / kept by carve                                   *)
(* ============================================================================================ *)

(* groups of unit numbers that can be turned into groups of leaders: no number twice, no empty
   group, every number below [n] *)
Definition good_grouping (n : nat) (c : grouping) : Prop :=
  NoDup (List.concat c) /\ Forall (fun g => g <> []) c /\ (forall i, In i (List.concat c) -> (i < n)%nat).

Lemma good_grouping_mono : forall n n' c, (n <= n')%nat -> good_grouping n c -> good_grouping n' c.
Proof. intros n n' c Hle (H1 & H2 & H3). split; [exact H1|]. split; [exact H2|]. intros i Hi. specialize (H3 i Hi). lia. Qed.

Lemma compositions_good : forall m k c,
  In c (consecutive_combinations (seq 0 m) k) -> good_grouping m c.
Proof.
  intros m k c H. apply compositions_spec in H. destruct H as (Hc & Hne & _).
  split; [rewrite Hc; apply seq_NoDup|]. split; [exact Hne|].
  intros i Hi. rewrite Hc in Hi. apply in_seq in Hi. lia.
Qed.

Lemma add_to_nth_concat_perm : forall (A : Type) i (x : A) c, (i < List.length c)%nat ->
  Permutation (List.concat (add_to_nth i x c)) (x :: List.concat c).
Proof.
  intros A i x c. revert i. induction c as [|g t IH]; intros i Hi; [cbn in Hi; lia|].
  destruct i as [|i]; cbn [add_to_nth List.concat].
  - rewrite <- app_assoc. cbn [app]. apply Permutation_sym. apply Permutation_middle.
  - cbn [List.length] in Hi. rewrite (IH i) by lia. apply Permutation_sym. apply Permutation_middle.
Qed.

Lemma add_to_nth_nonempty : forall (A : Type) i (x : A) c,
  Forall (fun g => g <> []) c -> Forall (fun g => g <> []) (add_to_nth i x c).
Proof.
  intros A i x c. revert i. induction c as [|g t IH]; intros i H; [destruct i; constructor|].
  inversion H as [|? ? Hg Ht]; subst. destruct i as [|i]; cbn [add_to_nth]; constructor; auto.
  intro E. apply app_eq_nil in E. destruct E as [_ E]. discriminate.
Qed.

Lemma nan_combinations_good : forall k maxg c,
  In c (nan_combinations (seq 0 k) k maxg) -> good_grouping (S k) c.
Proof.
  intros k maxg c H. apply nan_combinations_spec in H. destruct H as (c0 & H0 & Hc).
  apply compositions_spec in H0. destruct H0 as (Hcat & Hne & _).
  assert (Hp : Permutation (List.concat c) (k :: seq 0 k)).
  { destruct Hc as [(i & Hi & ->)|(_ & ->)].
    - rewrite add_to_nth_concat_perm by exact Hi. rewrite Hcat. reflexivity.
    - rewrite concat_app, Hcat. cbn [List.concat]. rewrite app_nil_r.
      apply Permutation_sym. apply Permutation_cons_append. }
  split; [|split].
  - eapply Permutation_NoDup; [apply Permutation_sym; exact Hp|].
    constructor; [|apply seq_NoDup]. intro Hin. apply in_seq in Hin. lia.
  - destruct Hc as [(i & Hi & ->)|(_ & ->)].
    + apply add_to_nth_nonempty. exact Hne.
    + apply Forall_app. split; [exact Hne|]. constructor; [discriminate|constructor].
  - intros i Hi. apply (Permutation_in _ Hp) in Hi. destruct Hi as [<-|Hi]; [lia|].
    apply in_seq in Hi. lia.
Qed.

Lemma concat_map_flat_map : forall (A B : Type) (f : A -> list B) (c : list (list A)),
  List.concat (map (flat_map f) c) = flat_map f (List.concat c).
Proof.
  intros A B f. induction c as [|g t IH]; [reflexivity|]. cbn [map List.concat].
  rewrite IH, flat_map_app. reflexivity.
Qed.

Lemma nth_group_In_concat : forall (A : Type) (c : list (list A)) i x,
  In x (nth i c []) -> In x (List.concat c).
Proof.
  intros A. induction c as [|g t IH]; intros i x H; [destruct i; destruct H|].
  cbn [List.concat]. apply in_or_app. destruct i as [|i]; [left; exact H|right; eapply IH; exact H].
Qed.

Lemma nth_group_disjoint : forall (A : Type) (c : list (list A)) i j x,
  NoDup (List.concat c) -> In x (nth i c []) -> In x (nth j c []) -> i = j.
Proof.
  intros A. induction c as [|g t IH]; intros i j x Hn Hi Hj; [destruct i; destruct Hi|].
  cbn [List.concat] in Hn. apply NoDup_app_iff in Hn. destruct Hn as (_ & Ht & Hd).
  destruct i as [|i]; destruct j as [|j]; cbn [nth] in Hi, Hj.
  - reflexivity.
  - destruct (Hd x Hi). eapply nth_group_In_concat; exact Hj.
  - destruct (Hd x Hj). eapply nth_group_In_concat; exact Hi.
  - f_equal. eapply IH; eauto.
Qed.

Lemma nth_group_NoDup : forall (A : Type) (c : list (list A)) i,
  NoDup (List.concat c) -> NoDup (nth i c []).
Proof.
  intros A. induction c as [|g t IH]; intros i Hn; [destruct i; constructor|].
  cbn [List.concat] in Hn. apply NoDup_app_iff in Hn. destruct Hn as (Hg & Ht & _).
  destruct i as [|i]; cbn [nth]; auto.
Qed.

(* the grouping kept after the second stage: groups of stage-1 groups, the missing-value unit
   [m] added to one of them or left alone *)
Lemma expand_good : forall m (c1 c2 : grouping),
  List.concat c1 = seq 0 m -> Forall (fun g => g <> []) c1 ->
  good_grouping (S (List.length c1)) c2 ->
  good_grouping (S m) (expand c1 m c2).
Proof.
  intros m c1 c2 Hcat Hne (Hn2 & Hne2 & Hb2).
  set (f := fun i => if Nat.eqb i (List.length c1) then [m] else nth i c1 []).
  assert (Hex : expand c1 m c2 = map (flat_map f) c2) by reflexivity.
  assert (Hnd1 : NoDup (List.concat c1)) by (rewrite Hcat; apply seq_NoDup).
  assert (Hin1 : forall i x, In x (nth i c1 []) -> (x < m)%nat).
  { intros i x Hx. apply nth_group_In_concat in Hx. rewrite Hcat in Hx. apply in_seq in Hx. lia. }
  assert (Hfne : forall i, (i < S (List.length c1))%nat -> f i <> []).
  { intros i Hi. unfold f. destruct (Nat.eqb i (List.length c1)) eqn:E; [discriminate|].
    apply Nat.eqb_neq in E. rewrite Forall_forall in Hne. apply Hne. apply nth_In. lia. }
  rewrite Hex. split; [|split].
  - rewrite concat_map_flat_map. apply NoDup_flat_map_intro; [exact Hn2| |].
    + intros i _. unfold f. destruct (Nat.eqb i (List.length c1)).
      * constructor; [intros []|constructor].
      * apply nth_group_NoDup. exact Hnd1.
    + intros i j x _ _ Hi Hj. unfold f in Hi, Hj.
      destruct (Nat.eqb i (List.length c1)) eqn:Ei; destruct (Nat.eqb j (List.length c1)) eqn:Ej.
      * apply Nat.eqb_eq in Ei. apply Nat.eqb_eq in Ej. congruence.
      * destruct Hi as [<-|[]]. apply Hin1 in Hj. lia.
      * destruct Hj as [<-|[]]. apply Hin1 in Hi. lia.
      * eapply nth_group_disjoint; eauto.
  - apply Forall_forall. intros g Hg. apply in_map_iff in Hg. destruct Hg as (g2 & <- & Hg2).
    rewrite Forall_forall in Hne2. specialize (Hne2 g2 Hg2).
    destruct g2 as [|i t]; [congruence|]. cbn [flat_map]. intro E. apply app_eq_nil in E.
    destruct E as [E _]. revert E. apply Hfne. apply Hb2. apply in_concat. exists (i :: t).
    split; [exact Hg2|left; reflexivity].
  - intros x Hx. rewrite concat_map_flat_map in Hx. apply in_flat_map in Hx.
    destruct Hx as (i & _ & Hx). unfold f in Hx. destruct (Nat.eqb i (List.length c1)).
    + destruct Hx as [<-|[]]. lia.
    + apply Hin1 in Hx. lia.
Qed.

(* the grouping kept by [carve], whatever the data: unit numbers 0..m-1 are the non-missing
   modalities in order, m is the missing-value modality (only when it takes part: dropna and
   missing values at fit) *)
Theorem carve_kept_good : forall cf d c, carve cf d = Kept c ->
  let m := List.length (d_train d) in
  (two_stage cf d = false -> good_grouping m c)
  /\ (two_stage cf d = true -> good_grouping (S m) c).
Proof.
  intros cf d c H m. split; intros T.
  - destruct (carve_kept_one_stage cf d c T H) as (Hcat & Hne & _).
    split; [rewrite Hcat; apply seq_NoDup|]. split; [exact Hne|].
    intros i Hi. rewrite Hcat in Hi. apply in_seq in Hi. unfold m. lia.
  - destruct (carve_kept_two_stage cf d c T H) as (c1 & c2 & -> & S1 & S2).
    destruct (stage1_some_spec cf d c1 S1) as (Hcat & Hne & _).
    destruct (stage2_inputs d c1) as [t2 d2]. destruct S2 as (Hin2 & _).
    apply expand_good; [exact Hcat|exact Hne|]. eapply nan_combinations_good. exact Hin2.
Qed.

Corollary carve_kept_good_any : forall cf d c, carve cf d = Kept c ->
  good_grouping (S (List.length (d_train d))) c
  /\ (d_train_nan d = None -> good_grouping (List.length (d_train d)) c).
Proof.
  intros cf d c H. destruct (carve_kept_good cf d c H) as [H0 H1].
  destruct (two_stage cf d) eqn:T.
  - split; [apply H1; reflexivity|]. intros Hn. unfold two_stage in T. rewrite Hn in T.
    rewrite andb_false_r in T. discriminate.
  - split; [|intros _; apply H0; reflexivity].
    eapply good_grouping_mono; [|apply H0; reflexivity]. lia.
Qed.

(* ============================================================================================ *)
(* Part F — the carver's write-back on one feature (definitions of THIS file, see the header)    *)
(* ============================================================================================ *)

(* the leaders a unit number stands for: the non-missing leaders in order, then the sentinel *)
Definition units_of (g : gl) : list val := non_missing (keys g) ++ [str_nan].
Definition leaders_of (units : list val) (c : grouping) : list (list val) :=
  map (map (fun i => nth i units VNaN)) c.

(* base_carver.order_apply_combination:  for combi in combination: order.group_list(combi, combi[0]) *)
Fixpoint order_apply_combination (lo : gl) (comb : list (list val)) : res gl :=
  match comb with
  | [] => Ok lo
  | combi :: t =>
      match combi with
      | [] => InternalErr                                   (* combi[0]: IndexError *)
      | k :: _ => do lo' <- group_list lo combi k ; order_apply_combination lo' t
      end
  end.

(* convert_to_labels(dropna=False), labels identified with the leaders they name: the non-missing
   leaders, then the sentinel when the feature has one *)
Definition label_order (g : gl) : gl :=
  of_list (non_missing (keys g) ++ (if mem str_nan (keys g) then [str_nan] else [])).

(* convert_to_values: the leader kept for one group of the label order *)
Definition kept_value (quant : bool) (kept_label : val) (group : list val) : val :=
  if quant then
    match filter (fun v => negb (val_eqb v str_nan)) group with
    | [] => hd kept_label group                             (* group_to_discard[0] *)
    | w => vmax w VNInf                                     (* max(which_to_keep) *)
    end
  else kept_label.

Definition value_groups (quant : bool) (lo : gl) : list (val * list val) :=
  map (fun kv => (kept_value quant (fst kv) (snd kv), snd kv)) (content lo).

(* for kept_value, group_to_discard in label_orders[feature].content.items():
       order.group_list(group_to_discard, kept_value) *)
Definition convert_to_values (quant : bool) (g lo : gl) : res gl := apply_groups g (value_groups quant lo).

(* _get_best_association + _update_orders for a kept grouping [c] of unit numbers *)
Definition carver_fit_order (quant : bool) (g : gl) (c : grouping) : res gl :=
  do lo <- order_apply_combination (label_order g) (leaders_of (units_of g) c) ;
  convert_to_values quant g lo.

(* the two-stage path of _get_best_combination as the code runs it: [c1] on the label order,
   then [c2] (unit numbers = leaders left by [c1], then the sentinel) on the result *)
Definition carver_fit_order2 (quant : bool) (g : gl) (c1 c2 : grouping) : res gl :=
  do lo1 <- order_apply_combination (label_order g) (leaders_of (units_of g) c1) ;
  do lo2 <- order_apply_combination lo1 (leaders_of (units_of lo1) c2) ;
  convert_to_values quant g lo2.

Definition head_groups (comb : list (list val)) : list (val * list val) :=
  map (fun combi => (hd VNaN combi, combi)) comb.

Lemma order_apply_combination_groups : forall comb lo, Forall (fun g => g <> []) comb ->
  order_apply_combination lo comb = apply_groups lo (head_groups comb).
Proof.
  induction comb as [|combi t IH]; intros lo H; [reflexivity|].
  inversion H as [|? ? Hc Ht]; subst. destruct combi as [|k r]; [congruence|].
  cbn [order_apply_combination head_groups map apply_groups fst snd hd].
  destruct (group_list lo (k :: r) k) as [lo'| |]; cbn [bind]; [|reflexivity|reflexivity].
  apply IH. exact Ht.
Qed.

Lemma flat_map_snd_head_groups : forall comb, flat_map snd (head_groups comb) = List.concat comb.
Proof.
  induction comb as [|c t IH]; [reflexivity|].
  change (head_groups (c :: t)) with ((hd VNaN c, c) :: head_groups t).
  cbn [flat_map snd List.concat]. rewrite IH. reflexivity.
Qed.

Lemma concat_leaders_of : forall units c,
  List.concat (leaders_of units c) = map (fun i => nth i units VNaN) (List.concat c).
Proof. intros units c. unfold leaders_of. rewrite <- concat_map. reflexivity. Qed.

Lemma NoDup_map_nth : forall (units : list val) l, NoDup units -> NoDup l ->
  (forall i, In i l -> (i < List.length units)%nat) -> NoDup (map (fun i => nth i units VNaN) l).
Proof.
  intros units. induction l as [|i t IH]; intros Hu Hl Hb; cbn [map]; [constructor|].
  inversion Hl as [|? ? Hi Ht]; subst. constructor.
  - intro Hin. apply in_map_iff in Hin. destruct Hin as (j & Ej & Hj). apply Hi.
    assert (E : j = i); [|subst; exact Hj].
    apply (proj1 (NoDup_nth units VNaN) Hu); [apply Hb; right; exact Hj|apply Hb; left; reflexivity|exact Ej].
  - apply IH; auto. intros j Hj. apply Hb. right. exact Hj.
Qed.

(* Goal 3, generic form: a good grouping of unit numbers, read through ANY duplicate-free table of
   leaders of a well-formed order, is applied without error and keeps the order well formed *)
Theorem order_apply_combination_wf : forall lo units c,
  WF lo -> NoDup units -> good_grouping (List.length units) c ->
  (forall i, In i (List.concat c) -> In (nth i units VNaN) (keys lo)) ->
  exists lo', order_apply_combination lo (leaders_of units c) = Ok lo'
    /\ WF lo' /\ Permutation (values lo') (values lo)
    /\ keys lo' = keep_keys (discarded (head_groups (leaders_of units c))) (keys lo).
Proof.
  intros lo units c Hwf Hu (Hnd & Hne & Hb) Hin.
  assert (Hne' : Forall (fun g => g <> []) (leaders_of units c)).
  { unfold leaders_of. apply Forall_forall. intros g Hg. apply in_map_iff in Hg.
    destruct Hg as (g0 & <- & Hg0). rewrite Forall_forall in Hne. specialize (Hne g0 Hg0).
    destruct g0; [congruence|discriminate]. }
  rewrite (order_apply_combination_groups _ _ Hne').
  apply apply_groups_spec; [exact Hwf|]. split; [|split].
  - intros kd Hkd. unfold head_groups in Hkd. apply in_map_iff in Hkd. destruct Hkd as (combi & <- & Hc).
    rewrite Forall_forall in Hne'. specialize (Hne' combi Hc). destruct combi; [congruence|].
    left. reflexivity.
  - rewrite flat_map_snd_head_groups, concat_leaders_of. apply NoDup_map_nth; assumption.
  - intros v Hv. rewrite flat_map_snd_head_groups, concat_leaders_of in Hv.
    apply in_map_iff in Hv. destruct Hv as (i & <- & Hi). apply Hin. exact Hi.
Qed.

Lemma non_missing_In : forall K v, In v (non_missing K) <-> In v K /\ v <> str_nan.
Proof.
  intros K v. unfold non_missing. rewrite filter_In, negb_true_iff, val_eqb_neq. reflexivity.
Qed.

Lemma units_of_NoDup : forall g, WF g -> NoDup (units_of g).
Proof.
  intros g Hwf. unfold units_of. apply NoDup_snoc.
  - unfold non_missing. apply NoDup_filter. apply Hwf.
  - intro H. apply non_missing_In in H. destruct H as [_ H]. congruence.
Qed.

Lemma units_of_length : forall g, List.length (units_of g) = S (List.length (non_missing (keys g))).
Proof. intros g. unfold units_of. rewrite app_length. cbn [List.length]. lia. Qed.

(* which unit numbers name a leader of [g] *)
Lemma units_of_In : forall g i,
  (i < List.length (non_missing (keys g)))%nat
  \/ (i = List.length (non_missing (keys g)) /\ In str_nan (keys g)) ->
  In (nth i (units_of g) VNaN) (keys g).
Proof.
  intros g i [Hi|[-> Hn]]; unfold units_of.
  - rewrite app_nth1 by exact Hi.
    assert (H : In (nth i (non_missing (keys g)) VNaN) (non_missing (keys g))) by (apply nth_In; exact Hi).
    apply non_missing_In in H. tauto.
  - rewrite app_nth2 by lia. rewrite Nat.sub_diag. exact Hn.
Qed.

(* the candidates of both stages, as enumerated by Model/Combos.v, on a well-formed order *)
Corollary stage1_candidates_apply_wf : forall lo maxg c, WF lo ->
  In c (consecutive_combinations (seq 0 (List.length (non_missing (keys lo)))) maxg) ->
  exists lo', order_apply_combination lo (leaders_of (units_of lo) c) = Ok lo'
    /\ WF lo' /\ Permutation (values lo') (values lo).
Proof.
  intros lo maxg c Hwf Hc. apply compositions_good in Hc.
  destruct (order_apply_combination_wf lo (units_of lo) c Hwf (units_of_NoDup lo Hwf))
    as (lo' & H1 & H2 & H3 & _).
  - rewrite units_of_length. eapply good_grouping_mono; [|exact Hc]. lia.
  - intros i Hi. apply units_of_In. left. apply Hc. exact Hi.
  - exists lo'. auto.
Qed.

Corollary stage2_candidates_apply_wf : forall lo maxg c, WF lo -> In str_nan (keys lo) ->
  let k := List.length (non_missing (keys lo)) in
  In c (nan_combinations (seq 0 k) k maxg) ->
  exists lo', order_apply_combination lo (leaders_of (units_of lo) c) = Ok lo'
    /\ WF lo' /\ Permutation (values lo') (values lo).
Proof.
  intros lo maxg c Hwf Hn k Hc. apply nan_combinations_good in Hc.
  destruct (order_apply_combination_wf lo (units_of lo) c Hwf (units_of_NoDup lo Hwf))
    as (lo' & H1 & H2 & H3 & _).
  - rewrite units_of_length. exact Hc.
  - intros i Hi. apply units_of_In. destruct Hc as (_ & _ & Hb). specialize (Hb i Hi).
    fold k. destruct (Nat.eq_dec i k) as [->|Hne]; [right; auto|left; lia].
  - exists lo'. auto.
Qed.

(* ---- the label order and the way back to values ---------------------------------------------- *)
Definition label_keys (g : gl) : list val :=
  non_missing (keys g) ++ (if mem str_nan (keys g) then [str_nan] else []).

Lemma values_of_list : forall l, NoDup l -> values (of_list l) = l.
Proof.
  intros l H. unfold of_list, values. cbn [content].
  rewrite dict_of_keys_map, dvalues_map, flat_map_singleton. apply keep_first_NoDup_id. exact H.
Qed.

Lemma label_keys_In : forall g v, In v (label_keys g) <-> In v (keys g).
Proof.
  intros g v. unfold label_keys. rewrite in_app_iff, non_missing_In.
  destruct (mem str_nan (keys g)) eqn:E.
  - apply mem_In in E. split.
    + intros [[H _]|[<-|[]]]; assumption.
    + intros H. destruct (val_eq_dec v str_nan) as [->|Hne]; [right; left; reflexivity|left; auto].
  - apply mem_false in E. split.
    + intros [[H _]|[]]. exact H.
    + intros H. left. split; [exact H|]. intros ->. contradiction.
Qed.

Lemma label_keys_NoDup : forall g, WF g -> NoDup (label_keys g).
Proof.
  intros g Hwf. unfold label_keys. destruct (mem str_nan (keys g)).
  - apply (units_of_NoDup g Hwf).
  - rewrite app_nil_r. unfold non_missing. apply NoDup_filter. apply Hwf.
Qed.

Lemma label_order_spec : forall g, WF g ->
  WF (label_order g) /\ keys (label_order g) = label_keys g /\ values (label_order g) = label_keys g.
Proof.
  intros g Hwf. pose proof (label_keys_NoDup g Hwf) as Hn. unfold label_order. fold (label_keys g).
  split; [apply wf_of_list; exact Hn|]. split; [reflexivity|apply values_of_list; exact Hn].
Qed.

Lemma vmax_In_cons : forall l d, In (vmax l d) (d :: l).
Proof.
  induction l as [|x t IH]; intros d; [left; reflexivity|]. cbn [vmax].
  specialize (IH x). destruct (val_leb (vmax t x) x); right; [left; reflexivity|exact IH].
Qed.

Lemma kept_value_In : forall quant k vs, In k vs -> In (kept_value quant k vs) vs.
Proof.
  intros quant k vs Hk. unfold kept_value. destruct quant; [|exact Hk].
  destruct (filter (fun v => negb (val_eqb v str_nan)) vs) as [|x t] eqn:E.
  - destruct vs; [destruct Hk|left; reflexivity].
  - assert (Hin : In (vmax (x :: t) VNInf) (x :: t)).
    { cbn [vmax]. pose proof (vmax_In_cons t x) as H. destruct (val_leb (vmax t x) x); [left; reflexivity|exact H]. }
    rewrite <- E in Hin |- *. apply filter_In in Hin. apply Hin.
Qed.

Lemma value_groups_values : forall quant lo, flat_map snd (value_groups quant lo) = values lo.
Proof. intros quant lo. unfold value_groups. rewrite flat_map_map. reflexivity. Qed.

(* convert_to_values on a well-formed label order that holds exactly leaders of [g] *)
Theorem convert_to_values_wf : forall quant g lo, WF g -> WF lo ->
  (forall v, In v (values lo) -> In v (keys g)) ->
  exists g', convert_to_values quant g lo = Ok g' /\ WF g' /\ Permutation (values g') (values g)
    /\ keys g' = keep_keys (discarded (value_groups quant lo)) (keys g).
Proof.
  intros quant g lo Hwf Hlo Hsub. unfold convert_to_values.
  apply apply_groups_spec; [exact Hwf|]. split; [|split].
  - intros kd Hkd. unfold value_groups in Hkd. apply in_map_iff in Hkd.
    destruct Hkd as ([k vs] & <- & Hkv). cbn [fst snd]. apply kept_value_In.
    destruct Hlo as (_ & _ & _ & _ & Hown). eapply Hown; eauto.
  - rewrite value_groups_values. apply Hlo.
  - intros v Hv. rewrite value_groups_values in Hv. auto.
Qed.

(* ---- quantitative leaders survive the write-back --------------------------------------------- *)
Lemma filter_comm : forall (A : Type) (p q : A -> bool) l, filter p (filter q l) = filter q (filter p l).
Proof.
  intros A p q. induction l as [|x t IH]; [reflexivity|]. cbn [filter].
  destruct (q x) eqn:Eq; destruct (p x) eqn:Ep; cbn [filter]; rewrite ?Eq, ?Ep, IH; reflexivity.
Qed.

Lemma filter_map_comm : forall (A B : Type) (f : A -> B) (p : B -> bool) l,
  filter p (map f l) = map f (filter (fun x => p (f x)) l).
Proof.
  intros A B f p. induction l as [|x t IH]; [reflexivity|]. cbn [map filter].
  destruct (p (f x)); cbn [map]; rewrite IH; reflexivity.
Qed.

Lemma Sorted_lt_filter : forall (p : Z -> bool) l, Sorted Z.lt l -> Sorted Z.lt (filter p l).
Proof.
  intros p l H. apply Sorted_StronglySorted in H; [|intros a b c; apply Z.lt_trans].
  apply StronglySorted_Sorted. induction H as [|a l Hs IH Hall]; cbn [filter]; [constructor|].
  destruct (p a); [|exact IH]. constructor; [exact IH|].
  rewrite Forall_forall in Hall |- *. intros x Hx. apply filter_In in Hx. apply Hall. tauto.
Qed.

Lemma quant_keys_after_write_back : forall g lo, WF lo ->
  (forall v, In v (values lo) -> In v (keys g)) ->
  quant_keys (keys g) ->
  quant_keys (keep_keys (discarded (value_groups true lo)) (keys g)).
Proof.
  intros g lo Hlo Hsub (ls & Hk & Hs).
  set (D := discarded (value_groups true lo)).
  pose proof (boundaries_sorted ls Hs) as Hss. unfold boundaries in Hss.
  assert (Hinf : ~ In VPInf D).
  { intro Hin. unfold D, discarded in Hin. apply in_flat_map in Hin. destruct Hin as (kd & Hkd & Hd).
    unfold value_groups in Hkd. apply in_map_iff in Hkd. destruct Hkd as ([k vs] & <- & Hkv).
    unfold dropped_of in Hd. cbn [fst snd] in Hd. apply filter_In in Hd. destruct Hd as [Hvs Hne].
    apply negb_true_iff, val_eqb_neq in Hne. apply Hne. clear Hne.
    unfold kept_value.
    destruct (filter (fun v => negb (val_eqb v str_nan)) vs) as [|x t] eqn:E.
    - exfalso. assert (Hf : In VPInf (filter (fun v => negb (val_eqb v str_nan)) vs)).
      { apply filter_In. split; [exact Hvs|reflexivity]. }
      rewrite E in Hf. destruct Hf.
    - rewrite <- E. set (w := filter (fun v => negb (val_eqb v str_nan)) vs).
      assert (Hw : forall v, In v w -> In v (map VNum ls ++ [VPInf])).
      { intros v Hv. unfold w in Hv. apply filter_In in Hv. destruct Hv as [Hv Hn].
        apply negb_true_iff, val_eqb_neq in Hn. rewrite <- Hk. apply non_missing_In.
        split; [|exact Hn]. apply Hsub. apply In_dvalues. exists k, vs. split; assumption. }
      assert (Hne : w <> []) by (unfold w; rewrite E; discriminate).
      destruct (vmax_spec w VNInf Hne) as [_ Hmax].
      { intros a b Ha Hb. apply (ss_total _ a b Hss); auto. }
      assert (Hpw : In VPInf w) by (apply filter_In; split; [exact Hvs|reflexivity]).
      destruct (Hmax VPInf Hpw) as [Eq|L]; [exact Eq|destruct L]. }
  exists (filter (fun z => negb (mem (VNum z) D)) ls). split; [|apply Sorted_lt_filter; exact Hs].
  unfold non_missing, keep_keys. rewrite filter_comm. fold (non_missing (keys g)). rewrite Hk.
  rewrite filter_app, filter_map_comm. f_equal. cbn [filter].
  rewrite (proj2 (mem_false _ _) Hinf). reflexivity.
Qed.

(* Goal 3 on one feature: the kept grouping is applied to the label order and written back to the
   values order without error; the result is well formed, holds the same values, its leaders are
   leaders of [g] in the same relative order, and a quantitative scale stays a quantitative scale *)
Theorem carver_fit_order_wf : forall quant g c, WF g ->
  let m := List.length (non_missing (keys g)) in
  good_grouping (S m) c -> (In m (List.concat c) -> In str_nan (keys g)) ->
  exists g', carver_fit_order quant g c = Ok g' /\ WF g' /\ Permutation (values g') (values g)
    /\ (exists D, keys g' = keep_keys D (keys g))
    /\ (quant = true -> quant_keys (keys g) -> quant_keys (keys g')).
Proof.
  intros quant g c Hwf m Hc Hm.
  destruct (label_order_spec g Hwf) as (Hlwf & Hlk & Hlv).
  destruct (order_apply_combination_wf (label_order g) (units_of g) c Hlwf (units_of_NoDup g Hwf))
    as (lo & Hlo & Hlowf & Hlop & _).
  - rewrite units_of_length. exact Hc.
  - intros i Hi. rewrite Hlk. apply label_keys_In. apply units_of_In.
    destruct Hc as (_ & _ & Hb). specialize (Hb i Hi). fold m.
    destruct (Nat.eq_dec i m) as [->|Hne]; [right; auto|left; lia].
  - assert (Hsub : forall v, In v (values lo) -> In v (keys g)).
    { intros v Hv. apply label_keys_In. rewrite <- Hlv. eapply Permutation_in; eauto. }
    destruct (convert_to_values_wf quant g lo Hwf Hlowf Hsub) as (g' & Hg' & Hwf' & Hp' & Hk').
    exists g'. unfold carver_fit_order. rewrite Hlo. cbn [bind].
    split; [exact Hg'|]. split; [exact Hwf'|]. split; [exact Hp'|]. split; [eexists; exact Hk'|].
    intros -> Hq. rewrite Hk'. apply quant_keys_after_write_back; assumption.
Qed.

(* ... in particular for the grouping kept by [carve] *)
Theorem carve_kept_order_wf : forall quant g cf fd c, WF g ->
  List.length (d_train fd) = List.length (non_missing (keys g)) ->
  (d_train_nan fd <> None -> In str_nan (keys g)) ->
  carve cf fd = Kept c ->
  exists g', carver_fit_order quant g c = Ok g' /\ WF g' /\ Permutation (values g') (values g)
    /\ (exists D, keys g' = keep_keys D (keys g))
    /\ (quant = true -> quant_keys (keys g) -> quant_keys (keys g')).
Proof.
  intros quant g cf fd c Hwf Hlen Hnan Hc.
  destruct (carve_kept_good_any cf fd c Hc) as [H1 H2]. rewrite Hlen in H1, H2.
  apply carver_fit_order_wf; [exact Hwf|exact H1|].
  intros Hin. destruct (d_train_nan fd) as [tn|] eqn:E; [apply Hnan; discriminate|].
  destruct (H2 eq_refl) as (_ & _ & Hb). specialize (Hb _ Hin). lia.
Qed.

(* ---- the two-stage path as the code runs it: c1 on the label order, then c2 on the result ------ *)
Lemma discarded_sub : forall gs x, In x (discarded gs) -> In x (flat_map snd gs).
Proof.
  intros gs x H. unfold discarded in H. apply in_flat_map in H. destruct H as (kd & Hkd & Hx).
  unfold dropped_of in Hx. apply filter_In in Hx. apply in_flat_map. exists kd. tauto.
Qed.

Lemma keep_keys_notin : forall D1 D2 l, (forall x, In x l -> ~ In x D1) ->
  keep_keys (D1 ++ D2) l = keep_keys D2 l.
Proof.
  intros D1 D2 l H. unfold keep_keys. apply filter_ext_in. intros x Hx. f_equal.
  destruct (mem x D2) eqn:E2.
  - apply mem_In. apply in_or_app. right. apply mem_In. exact E2.
  - apply mem_false. intro Hin. apply in_app_or in Hin. destruct Hin as [Hin|Hin].
    + exact (H x Hx Hin).
    + apply mem_In in Hin. congruence.
Qed.

(* after order_apply_combination, what is left of the grouped leaders is the first of each group *)
Lemma heads_keep : forall comb, NoDup (List.concat comb) -> Forall (fun g => g <> []) comb ->
  keep_keys (discarded (head_groups comb)) (List.concat comb) = map (hd VNaN) comb.
Proof.
  induction comb as [|combi t IH]; intros Hnd Hne; [reflexivity|].
  inversion Hne as [|? ? Hc Ht]; subst. destruct combi as [|k r]; [congruence|].
  cbn [List.concat] in Hnd. apply NoDup_app_iff in Hnd. destruct Hnd as (Hkr & Hnt & Hdisj).
  inversion Hkr as [|? ? Hk Hr]; subst.
  change (head_groups ((k :: r) :: t)) with ((k, k :: r) :: head_groups t).
  unfold discarded. cbn [flat_map]. fold (discarded (head_groups t)).
  assert (Hd : dropped_of (k, k :: r) = r).
  { unfold dropped_of. cbn [fst snd filter]. rewrite val_eqb_refl. cbn [negb].
    apply filter_all. intros x Hx. apply negb_true_iff, val_eqb_neq. intros ->. contradiction. }
  rewrite Hd. cbn [List.concat map hd]. unfold keep_keys at 1. rewrite filter_app.
  fold (keep_keys (r ++ discarded (head_groups t)) (k :: r)).
  fold (keep_keys (r ++ discarded (head_groups t)) (List.concat t)).
  assert (Hsubt : forall x, In x (discarded (head_groups t)) -> In x (List.concat t)).
  { intros x Hx. apply discarded_sub in Hx. rewrite flat_map_snd_head_groups in Hx. exact Hx. }
  assert (H1 : keep_keys (r ++ discarded (head_groups t)) (k :: r) = [k]).
  { unfold keep_keys. cbn [filter].
    replace (mem k (r ++ discarded (head_groups t))) with false.
    2:{ symmetry. apply mem_false. intro Hin. apply in_app_or in Hin. destruct Hin as [Hin|Hin]; [contradiction|].
        apply (Hdisj k); [left; reflexivity|apply Hsubt; exact Hin]. }
    cbn [negb]. f_equal.
    assert (G : forall l, (forall x, In x l -> In x r) ->
                filter (fun x => negb (mem x (r ++ discarded (head_groups t)))) l = []).
    { induction l as [|x l IHl]; intros Hl; [reflexivity|]. cbn [filter].
      replace (mem x (r ++ discarded (head_groups t))) with true.
      - cbn [negb]. apply IHl. intros y Hy. apply Hl. right. exact Hy.
      - symmetry. apply mem_In. apply in_or_app. left. apply Hl. left. reflexivity. }
    apply G. auto. }
  rewrite H1. cbn [app]. f_equal.
  rewrite keep_keys_notin; [apply IH; assumption|].
  intros x Hx Hin. apply (Hdisj x); [right; exact Hin|exact Hx].
Qed.

Lemma map_nth_seq : forall (l r : list val) d,
  map (fun i => nth i (l ++ r) d) (seq 0 (List.length l)) = l.
Proof.
  induction l as [|a l IH]; intros r d; [reflexivity|].
  cbn [List.length seq map app nth]. f_equal. rewrite <- seq_shift, map_map. cbn [nth]. apply IH.
Qed.

Theorem carver_fit_order2_wf : forall quant g c1 c2, WF g -> In str_nan (keys g) ->
  let m := List.length (non_missing (keys g)) in
  List.concat c1 = seq 0 m -> Forall (fun g => g <> []) c1 ->
  good_grouping (S (List.length c1)) c2 ->
  exists g', carver_fit_order2 quant g c1 c2 = Ok g' /\ WF g' /\ Permutation (values g') (values g)
    /\ (exists D, keys g' = keep_keys D (keys g))
    /\ (quant = true -> quant_keys (keys g) -> quant_keys (keys g')).
Proof.
  intros quant g c1 c2 Hwf Hnan m Hcat Hne Hc2.
  set (NM := non_missing (keys g)) in *.
  destruct (label_order_spec g Hwf) as (Hlwf & Hlk & Hlv).
  assert (Elk : label_keys g = NM ++ [str_nan]).
  { unfold label_keys. rewrite (proj2 (mem_In _ _) Hnan). reflexivity. }
  assert (Hc1 : good_grouping m c1).
  { split; [rewrite Hcat; apply seq_NoDup|]. split; [exact Hne|].
    intros i Hi. rewrite Hcat in Hi. apply in_seq in Hi. lia. }
  (* stage 1 *)
  destruct (order_apply_combination_wf (label_order g) (units_of g) c1 Hlwf (units_of_NoDup g Hwf))
    as (lo1 & Hlo1 & Hwf1 & Hp1 & Hk1).
  { rewrite units_of_length. eapply good_grouping_mono; [|exact Hc1]. fold NM. fold m. lia. }
  { intros i Hi. rewrite Hlk. apply label_keys_In. apply units_of_In. left. apply Hc1. exact Hi. }
  set (comb := leaders_of (units_of g) c1) in *.
  assert (Hcomb : List.concat comb = NM).
  { unfold comb. rewrite concat_leaders_of, Hcat. unfold units_of. fold NM. apply map_nth_seq. }
  assert (HnmN : NoDup NM) by (unfold NM, non_missing; apply NoDup_filter; apply Hwf).
  assert (Hcne : Forall (fun g => g <> []) comb).
  { unfold comb, leaders_of. apply Forall_forall. intros x Hx. apply in_map_iff in Hx.
    destruct Hx as (x0 & <- & Hx0). rewrite Forall_forall in Hne. specialize (Hne x0 Hx0).
    destruct x0; [congruence|discriminate]. }
  assert (Hkeys1 : keys lo1 = map (hd VNaN) comb ++ [str_nan]).
  { rewrite Hk1, Hlk, Elk. unfold keep_keys. rewrite filter_app.
    fold (keep_keys (discarded (head_groups comb)) NM).
    replace (keep_keys (discarded (head_groups comb)) NM)
      with (keep_keys (discarded (head_groups comb)) (List.concat comb)) by (rewrite Hcomb; reflexivity).
    rewrite heads_keep; [|rewrite Hcomb; exact HnmN|exact Hcne]. f_equal. cbn [filter].
    replace (mem str_nan (discarded (head_groups comb))) with false; [reflexivity|].
    symmetry. apply mem_false. intro Hin. apply discarded_sub in Hin.
    rewrite flat_map_snd_head_groups, Hcomb in Hin. apply non_missing_In in Hin. destruct Hin as [_ Hin].
    congruence. }
  assert (Hheads : forall x, In x (map (hd VNaN) comb) -> x <> str_nan).
  { intros x Hx. apply in_map_iff in Hx. destruct Hx as (cb & <- & Hcb).
    assert (Hin : In (hd VNaN cb) NM).
    { rewrite <- Hcomb. apply in_concat. exists cb. split; [exact Hcb|].
      rewrite Forall_forall in Hcne. specialize (Hcne cb Hcb). destruct cb; [congruence|left; reflexivity]. }
    apply non_missing_In in Hin. tauto. }
  assert (Hnm1 : non_missing (keys lo1) = map (hd VNaN) comb).
  { rewrite Hkeys1. unfold non_missing. rewrite filter_app. cbn [filter]. rewrite val_eqb_refl. cbn [negb].
    rewrite app_nil_r. apply filter_all. intros x Hx. apply negb_true_iff, val_eqb_neq. auto. }
  assert (Hlen1 : List.length (non_missing (keys lo1)) = List.length c1).
  { rewrite Hnm1, map_length. unfold comb, leaders_of. apply map_length. }
  assert (Hnan1 : In str_nan (keys lo1)).
  { rewrite Hkeys1. apply in_or_app. right. left. reflexivity. }
  (* stage 2 *)
  destruct (order_apply_combination_wf lo1 (units_of lo1) c2 Hwf1 (units_of_NoDup lo1 Hwf1))
    as (lo2 & Hlo2 & Hwf2 & Hp2 & _).
  { rewrite units_of_length, Hlen1. exact Hc2. }
  { intros i Hi. apply units_of_In. destruct Hc2 as (_ & _ & Hb). specialize (Hb i Hi). rewrite Hlen1.
    destruct (Nat.eq_dec i (List.length c1)) as [->|Hni]; [right; auto|left; lia]. }
  (* write-back *)
  assert (Hsub : forall v, In v (values lo2) -> In v (keys g)).
  { intros v Hv. apply label_keys_In. rewrite <- Hlv.
    eapply Permutation_in; [exact Hp1|]. eapply Permutation_in; [exact Hp2|exact Hv]. }
  destruct (convert_to_values_wf quant g lo2 Hwf Hwf2 Hsub) as (g' & Hg' & Hwf' & Hp' & Hk').
  exists g'. unfold carver_fit_order2. fold comb. rewrite Hlo1. cbn [bind]. rewrite Hlo2. cbn [bind].
  split; [exact Hg'|]. split; [exact Hwf'|]. split; [exact Hp'|]. split; [eexists; exact Hk'|].
  intros -> Hq. rewrite Hk'. apply quant_keys_after_write_back; assumption.
Qed.

(* the two-stage winner of [carve] is such a pair (c1, c2) *)
Theorem carve_two_stage_order_wf : forall quant g cf fd c, WF g ->
  List.length (d_train fd) = List.length (non_missing (keys g)) -> In str_nan (keys g) ->
  two_stage cf fd = true -> carve cf fd = Kept c ->
  exists c1 c2, c = expand c1 (List.length (d_train fd)) c2
    /\ stage cf (d_train fd) (d_dev fd) (cands1 cf fd) = Some c1
    /\ In c2 (cands2 cf c1)
    /\ exists g', carver_fit_order2 quant g c1 c2 = Ok g' /\ WF g' /\ Permutation (values g') (values g)
         /\ (quant = true -> quant_keys (keys g) -> quant_keys (keys g')).
Proof.
  intros quant g cf fd c Hwf Hlen Hnan T Hc.
  destruct (carve_kept_two_stage cf fd c T Hc) as (c1 & c2 & -> & S1 & S2).
  destruct (stage1_some_spec cf fd c1 S1) as (Hcat & Hne & _).
  destruct (stage2_inputs fd c1) as [t2 d2]. destruct S2 as (Hin2 & _).
  exists c1, c2. split; [reflexivity|]. split; [exact S1|]. split; [exact Hin2|].
  rewrite Hlen in Hcat.
  destruct (carver_fit_order2_wf quant g c1 c2 Hwf Hnan Hcat Hne) as (g' & H1 & H2 & H3 & _ & H5).
  - eapply nan_combinations_good. exact Hin2.
  - exists g'. auto.
Qed.

(* ============================================================================================ *)
(* Part G — base fit, then the carver, on one feature                                            *)
(* ============================================================================================ *)

(* what is known about one feature before fit: its kind, parameters and training aggregate *)
Inductive base_input :=
| BQuant (mf : Z * Z) (nan_cnt : Z) (d : qdata)
| BOrd (mf : Z * Z) (nan_cnt : Z) (order : list val) (d : odata)
| BCat (mf : Z * Z) (nan_cnt : Z) (order : list val) (d : odata).

Inductive pipe_out :=
| PFitted (g : gl)          (* values_orders[feature] after fit *)
| PDropped                  (* feature removed (too rare / no viable combination): fit completes *)
| PAssert                   (* AssertionError *)
| PNumeric (e : qerr)       (* the float model of the quantile search cannot follow (overflow / index) *)
| PInternal.                (* any other failure *)

Definition is_quant (i : base_input) : bool := match i with BQuant _ _ _ => true | _ => false end.
Definition nan_cnt_of (i : base_input) : Z :=
  match i with BQuant _ n _ | BOrd _ n _ _ | BCat _ n _ _ => n end.
Definition train_of (i : base_input) : list val :=
  match i with
  | BQuant _ _ d => map VNum (qvalues d)
  | BOrd _ _ _ d | BCat _ _ _ d => observed d
  end.

(* Discretizer on one feature: Model/Ordinal.v's [quantitative_fit] (repaired quantile search),
   [ordinal_fit], Model/Categorical.v's [categorical_fit] *)
Definition base_fit (i : base_input) : pipe_out :=
  match i with
  | BQuant mf n d =>
      match quantitative_fit true mf n d with
      | QFit g => PFitted g
      | QFail e => PNumeric e
      | QDuplicates | QInternal => PInternal
      end
  | BOrd mf n order d =>
      match ordinal_fit mf n order d with
      | Ok (Some g) => PFitted g | Ok None => PDropped | AssertErr => PAssert | InternalErr => PInternal
      end
  | BCat mf n order d =>
      match categorical_fit mf n order d with
      | Ok (Some st) => PFitted (cat_gl st) | Ok None => PDropped | AssertErr => PAssert
      | InternalErr => PInternal
      end
  end.

(* then, optionally, a carver: Model/Carve.v's [carve] on the feature's crosstab, the kept grouping
   written back with [carver_fit_order] (defined in this file) *)
Definition fit_pipeline (i : base_input) (carver : option (cfg * feature_data)) : pipe_out :=
  match base_fit i with
  | PFitted g =>
      match carver with
      | None => PFitted g
      | Some (cf, fd) =>
          match carve cf fd with
          | Dropped => PDropped
          | Kept c =>
              match carver_fit_order (is_quant i) g c with
              | Ok g' => PFitted g' | AssertErr => PAssert | InternalErr => PInternal
              end
          end
      end
  | o => o
  end.

(* well-formed input: a ranking without duplicates nor sentinel; distinct observed categories, no
   sentinel among the data or the known categories *)
Definition input_ok (i : base_input) : Prop :=
  match i with
  | BQuant _ _ _ => True
  | BOrd _ _ order _ => NoDup order /\ ~ In str_nan order
  | BCat _ _ order d =>
      NoDup (observed d) /\ NoDup order
      /\ ~ In str_default (observed d ++ order) /\ ~ In str_nan (observed d ++ order)
  end.

(* the crosstab handed to the carver has one row per non-missing leader of the base order, and a
   missing-value row only if the column has missing values *)
Definition carver_aligned (i : base_input) (carver : option (cfg * feature_data)) : Prop :=
  match carver with
  | None => True
  | Some (_, fd) =>
      forall g, base_fit i = PFitted g ->
        List.length (d_train fd) = List.length (non_missing (keys g))
        /\ (d_train_nan fd <> None -> 0 < nan_cnt_of i)
  end.

(* the fitted state of one feature is coherent *)
Definition fitted_ok (i : base_input) (g : gl) : Prop :=
  WF g
  /\ (forall v, In v (train_of i) ->
        if is_quant i then exists k, In k (keys g) /\ val_le v k = true else In v (values g))
  /\ (0 < nan_cnt_of i -> In str_nan (values g))
  /\ (is_quant i = true -> quant_keys (keys g))
  /\ feature_ok (mkC08f (is_quant i) g (train_of i) (0 <? nan_cnt_of i) str_nan) = true.

Lemma base_fit_ok : forall i, input_ok i ->
  match base_fit i with
  | PFitted g => fitted_ok i g /\ (In str_nan (keys g) <-> 0 < nan_cnt_of i)
  | PDropped | PAssert => is_quant i = false
  | PNumeric e => is_quant i = true /\ (e = QFloat \/ e = QIndex)
  | PInternal => False
  end.
Proof.
  intros [mf n d|mf n order d|mf n order d] Hok; cbn [base_fit].
  - destruct (quantitative_fit_end_to_end mf n d)
      as [(g & ls & -> & Hwf & Hk & Hs & _ & Hn & _ & Hcov & Hf)|[->| ->]]; [|auto|auto].
    assert (Hq : quant_keys (keys g)).
    { exists ls. split; [rewrite Hk; apply non_missing_quant_shape|exact Hs]. }
    split; [|exact Hn]. unfold fitted_ok. cbn [is_quant nan_cnt_of train_of].
    split; [exact Hwf|]. split; [intros v _; exists VPInf; split; [|apply val_le_pinf]|].
    { rewrite Hk. apply in_or_app. right. left. reflexivity. }
    split; [intros H; apply In_keys_values; [exact Hwf|apply Hn; exact H]|].
    split; [intros _; exact Hq|apply Hf].
  - destruct Hok as [Hnd Hnan].
    destruct (ordinal_fit_end_to_end mf n order d Hnd Hnan)
      as [-> |[-> |(g & -> & Hwf & _ & Hcov & Hn & _ & Hf)]]; [reflexivity|reflexivity|].
    split; [|exact Hn]. unfold fitted_ok. cbn [is_quant nan_cnt_of train_of].
    split; [exact Hwf|]. split; [exact Hcov|].
    split; [intros H; apply In_keys_values; [exact Hwf|apply Hn; exact H]|].
    split; [discriminate|exact Hf].
  - destruct Hok as (H1 & H2 & H3 & H4).
    destruct (categorical_fit_end_to_end mf n order d H1 H2 H3 H4)
      as [-> |[-> |(st & -> & Hwf & Hcov & _ & Hn & _ & Hf)]]; [reflexivity|reflexivity|].
    split; [|exact Hn]. unfold fitted_ok. cbn [is_quant nan_cnt_of train_of].
    split; [exact Hwf|]. split; [exact Hcov|].
    split; [intros H; apply In_keys_values; [exact Hwf|apply Hn; exact H]|].
    split; [discriminate|exact Hf].
Qed.

(* coherence is kept by the carver's write-back *)
Lemma fitted_ok_carved : forall i g g', fitted_ok i g ->
  WF g' -> Permutation (values g') (values g) ->
  (is_quant i = true -> quant_keys (keys g')) ->
  fitted_ok i g'.
Proof.
  intros i g g' (Hwf & Hcov & Hn & Hq & _) Hwf' Hp Hq'.
  assert (Hn' : 0 < nan_cnt_of i -> In str_nan (values g')).
  { intros H. eapply Permutation_in; [apply Permutation_sym; exact Hp|auto]. }
  assert (Hn'' : (0 <? nan_cnt_of i) = true -> In str_nan (values g')).
  { intros H. apply Hn'. apply Z.ltb_lt. exact H. }
  unfold fitted_ok. split; [exact Hwf'|]. destruct (is_quant i) eqn:Eq.
  - pose proof (Hq' eq_refl) as Hqk.
    assert (Hinf : In VPInf (keys g')).
    { destruct Hqk as (ls & Hk & _).
      assert (H : In VPInf (non_missing (keys g'))) by (rewrite Hk; apply in_or_app; right; left; reflexivity).
      apply non_missing_In in H. tauto. }
    split; [intros v _; exists VPInf; split; [exact Hinf|apply val_le_pinf]|].
    split; [exact Hn'|]. split; [intros _; exact Hqk|].
    apply feature_ok_quant; assumption.
  - assert (Hc' : forall v, In v (train_of i) -> In v (values g')).
    { intros v Hv. eapply Permutation_in; [apply Permutation_sym; exact Hp|auto]. }
    split; [exact Hc'|]. split; [exact Hn'|]. split; [discriminate|].
    apply feature_ok_qual; assumption.
Qed.

(* Goal 4: Discretizer then carver on one feature, for ALL inputs: fit completes with a coherent
   order (or drops the feature), or raises AssertionError (qualitative features only), or the float
   model of the quantile search gives up (quantitative features only; never by lack of fuel);
   never any other failure *)
Theorem fit_pipeline_wf_end_to_end : forall i carver,
  input_ok i -> carver_aligned i carver ->
  match fit_pipeline i carver with
  | PFitted g => fitted_ok i g
  | PDropped => is_quant i = false \/ carver <> None
  | PAssert => is_quant i = false
  | PNumeric e => is_quant i = true /\ (e = QFloat \/ e = QIndex)
  | PInternal => False
  end.
Proof.
  intros i carver Hok Hal. pose proof (base_fit_ok i Hok) as Hb. unfold fit_pipeline.
  destruct (base_fit i) as [g| | |e|] eqn:Eb; [|left; exact Hb|exact Hb|exact Hb|exact Hb].
  destruct Hb as [Hfit Hnan]. destruct carver as [[cf fd]|]; [|exact Hfit].
  destruct (carve cf fd) as [|c] eqn:Ec; [right; discriminate|].
  destruct (Hal g Eb) as [Hlen Hn].
  destruct (carve_kept_order_wf (is_quant i) g cf fd c (proj1 Hfit) Hlen) as (g' & -> & Hwf' & Hp & _ & Hq); auto.
  { intros H. apply Hnan. apply Hn. exact H. }
  apply (fitted_ok_carved i g g' Hfit Hwf' Hp).
  intros Eq. apply Hq; [exact Eq|]. destruct Hfit as (_ & _ & _ & Hqk & _). auto.
Qed.

Print Assumptions quantitative_fit_end_to_end.
Print Assumptions ordinal_fit_end_to_end.
Print Assumptions categorical_fit_end_to_end.
Print Assumptions apply_groups_spec.
Print Assumptions order_apply_combination_wf.
Print Assumptions carve_kept_good.
Print Assumptions carve_kept_order_wf.
Print Assumptions carve_two_stage_order_wf.
Print Assumptions fit_pipeline_wf_end_to_end.
