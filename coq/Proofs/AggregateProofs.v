(* AggregateProofs.v — carving is invariant under information-preserving re-encodings.
   The carving model reads its input only through the count function of each unit's multiset of
   target values:
     - [aggregate_perm]          permuting (or re-indexing) the rows of a sample gives equivalent units;
     - [ms_n_equiv] ...          every multiset statistic depends only on the count function;
     - [viable_ms_equiv], [measure_ms_equiv], [stage_ms_equiv], [carve_ms_equiv]
                                 viability, the three association measures (chi2-based and
                                 Kruskal-Wallis), the search and the two-stage carving give equal
                                 results on equivalent inputs;
     - [carve_row_permutation], [carve_sample_permutation]   the corollaries on samples;
     - [unit_index_monotone_map], [aggregate_monotone_map], [carve_monotone_map]
                                 a strictly increasing re-encoding of a quantitative feature (with
                                 its boundaries) leaves every row's unit, hence the carving, unchanged.
   No positivity hypothesis on the multiplicities is needed. *)
From Coq Require Import ZArith QArith List Bool Lia Permutation.
Import ListNotations.
From AC.Model Require Import Float Combos Measures Carve Aggregate.
Local Open Scope Z_scope.

(* ---- generic list lemmas ------------------------------------------------------------------ *)

Lemma Forall2_len : forall A B (R : A -> B -> Prop) l l', Forall2 R l l' -> length l = length l'.
Proof. intros A B R l l' H. induction H; simpl; congruence. Qed.

Lemma Forall2_map_same : forall A B C (R : B -> C -> Prop) (f : A -> B) (g : A -> C) l,
  (forall a, R (f a) (g a)) -> Forall2 R (map f l) (map g l).
Proof. intros A B C R f g l H. induction l; simpl; constructor; auto. Qed.

Lemma find_ext_all : forall A (f g : A -> bool) l, (forall x, f x = g x) -> find f l = find g l.
Proof. intros A f g l H. induction l as [|a t IH]; simpl; [reflexivity|]. rewrite H, IH. reflexivity. Qed.

Lemma filter_Permutation : forall A (f : A -> bool) l l',
  Permutation l l' -> Permutation (filter f l) (filter f l').
Proof.
  intros A f l l' H. induction H; simpl.
  - constructor.
  - destruct (f x); [constructor|]; assumption.
  - destruct (f x), (f y); try apply Permutation_refl. apply perm_swap.
  - eapply Permutation_trans; eassumption.
Qed.

(* ---- weighted sums: every statistic is a weighted sum of multiplicities --------------------- *)

Definition ms_w (f : Z -> Z) (u : ymset) : Z :=
  fold_right (fun vc acc => f (fst vc) * snd vc + acc) 0 u.
Definition zsum (g : Z -> Z) (L : list Z) : Z := fold_right (fun x acc => g x + acc) 0 L.

Lemma ms_w_cons : forall f a c u, ms_w f ((a, c) :: u) = f a * c + ms_w f u.
Proof. reflexivity. Qed.

Lemma ms_count_cons : forall x a c u,
  ms_count x ((a, c) :: u) = (if a =? x then c else 0) + ms_count x u.
Proof. intros. unfold ms_count. cbn [fold_right fst snd]. destruct (a =? x); lia. Qed.

Lemma ms_less_cons : forall x a c u,
  ms_less x ((a, c) :: u) = (if a <? x then c else 0) + ms_less x u.
Proof. intros. unfold ms_less. cbn [fold_right fst snd]. destruct (a <? x); lia. Qed.

Lemma ms_n_w : forall u, ms_n u = ms_w (fun _ => 1) u.
Proof.
  induction u as [|[a c] u IH]; [reflexivity|]. rewrite ms_w_cons, <- IH.
  unfold ms_n. cbn [fold_right fst snd]. lia.
Qed.

Lemma ms_sum_w : forall u, ms_sum u = ms_w (fun v => v) u.
Proof. reflexivity. Qed.

Lemma ms_count_w : forall x u, ms_count x u = ms_w (fun v => if v =? x then 1 else 0) u.
Proof.
  intros x. induction u as [|[a c] u IH]; [reflexivity|]. rewrite ms_w_cons, ms_count_cons, <- IH.
  destruct (a =? x); lia.
Qed.

Lemma ms_less_w : forall x u, ms_less x u = ms_w (fun v => if v <? x then 1 else 0) u.
Proof.
  intros x. induction u as [|[a c] u IH]; [reflexivity|]. rewrite ms_w_cons, ms_less_cons, <- IH.
  destruct (a <? x); lia.
Qed.

Lemma zsum_ext : forall g h L, (forall x, In x L -> g x = h x) -> zsum g L = zsum h L.
Proof.
  intros g h L. induction L as [|a t IH]; intro H; [reflexivity|]. unfold zsum in *.
  cbn [fold_right]. rewrite (H a) by (left; reflexivity). rewrite IH; [reflexivity|].
  intros x Hx. apply H. right; exact Hx.
Qed.

Lemma zsum_add : forall g h L, zsum (fun x => g x + h x) L = zsum g L + zsum h L.
Proof.
  intros g h L. induction L as [|a t IH]; [reflexivity|]. unfold zsum in *.
  cbn [fold_right]. rewrite IH. lia.
Qed.

Lemma zsum_zero : forall g L, (forall x, In x L -> g x = 0) -> zsum g L = 0.
Proof.
  intros g L. induction L as [|a t IH]; intro H; [reflexivity|]. unfold zsum in *.
  cbn [fold_right]. rewrite (H a) by (left; reflexivity). rewrite IH; [reflexivity|].
  intros x Hx. apply H. right; exact Hx.
Qed.

Lemma zsum_single : forall (f : Z -> Z) a c L, NoDup L -> In a L ->
  zsum (fun x => f x * (if a =? x then c else 0)) L = f a * c.
Proof.
  intros f a c L Hnd. induction Hnd as [|b t Hb Hnd IH]; intro Hin; [destruct Hin|].
  unfold zsum in *. cbn [fold_right]. destruct Hin as [->|Hin].
  - rewrite Z.eqb_refl.
    fold (zsum (fun x => f x * (if a =? x then c else 0)) t).
    rewrite zsum_zero; [lia|]. intros x Hx.
    destruct (Z.eqb_spec a x) as [->|_]; [contradiction|lia].
  - rewrite (IH Hin). destruct (Z.eqb_spec a b) as [->|_]; [contradiction|lia].
Qed.

(* the weighted sum, over any duplicate-free list covering the support *)
Lemma ms_w_as_zsum : forall f u L, NoDup L -> incl (map fst u) L ->
  ms_w f u = zsum (fun x => f x * ms_count x u) L.
Proof.
  intros f u L Hnd. induction u as [|[a c] u IH]; intro Hincl.
  - symmetry. apply zsum_zero. intros x _. unfold ms_count. simpl. lia.
  - rewrite ms_w_cons.
    rewrite (zsum_ext _ (fun x => f x * (if a =? x then c else 0) + f x * ms_count x u)).
    + rewrite zsum_add, zsum_single; [|exact Hnd|apply Hincl; left; reflexivity].
      rewrite <- IH; [reflexivity|]. intros x Hx. apply Hincl. right; exact Hx.
    + intros x _. rewrite ms_count_cons. lia.
Qed.

Lemma ms_w_equiv : forall f u v, ms_equiv u v -> ms_w f u = ms_w f v.
Proof.
  intros f u v H.
  set (L := nodup Z.eq_dec (map fst u ++ map fst v)).
  assert (Hnd : NoDup L) by apply NoDup_nodup.
  rewrite (ms_w_as_zsum f u L Hnd), (ms_w_as_zsum f v L Hnd).
  - apply zsum_ext. intros x _. rewrite (H x). reflexivity.
  - intros x Hx. apply nodup_In, in_or_app. right; exact Hx.
  - intros x Hx. apply nodup_In, in_or_app. left; exact Hx.
Qed.

(* ---- item 2: multiset semantics ------------------------------------------------------------ *)

Theorem ms_n_equiv : forall u v, ms_equiv u v -> ms_n u = ms_n v.
Proof. intros u v H. rewrite !ms_n_w. apply ms_w_equiv, H. Qed.

Theorem ms_sum_equiv : forall u v, ms_equiv u v -> ms_sum u = ms_sum v.
Proof. intros u v H. rewrite !ms_sum_w. apply ms_w_equiv, H. Qed.

Theorem ms_count_equiv : forall x u v, ms_equiv u v -> ms_count x u = ms_count x v.
Proof. intros x u v H. apply H. Qed.

Theorem ms_less_equiv : forall x u v, ms_equiv u v -> ms_less x u = ms_less x v.
Proof. intros x u v H. rewrite !ms_less_w. apply ms_w_equiv, H. Qed.

Example ms_equiv_split : ms_equiv [(1, 2)] [(1, 1); (1, 1)].
Proof. intro x. rewrite !ms_count_cons. destruct (1 =? x); reflexivity. Qed.

Lemma ms_equiv_refl : forall u, ms_equiv u u.
Proof. intros u x. reflexivity. Qed.

Lemma ms_equiv_sym : forall u v, ms_equiv u v -> ms_equiv v u.
Proof. intros u v H x. symmetry. apply H. Qed.

Lemma ms_equiv_trans : forall u v w, ms_equiv u v -> ms_equiv v w -> ms_equiv u w.
Proof. intros u v w H1 H2 x. rewrite H1. apply H2. Qed.

Lemma ms_count_app : forall x u v, ms_count x (u ++ v) = ms_count x u + ms_count x v.
Proof.
  intros x u v. induction u as [|[a c] u IH]; [reflexivity|].
  rewrite <- app_comm_cons, !ms_count_cons, IH. lia.
Qed.

Lemma ms_equiv_app : forall u u' v v', ms_equiv u u' -> ms_equiv v v' -> ms_equiv (u ++ v) (u' ++ v').
Proof. intros u u' v v' H1 H2 x. rewrite !ms_count_app, H1, H2. reflexivity. Qed.

Lemma ms_equiv_concat : forall us us', Forall2 ms_equiv us us' -> ms_equiv (concat us) (concat us').
Proof.
  intros us us' H. induction H; simpl; [apply ms_equiv_refl|]. apply ms_equiv_app; assumption.
Qed.

Lemma Permutation_ms_equiv : forall u v : ymset, Permutation u v -> ms_equiv u v.
Proof.
  intros u v H x. induction H as [|[a c] u v _ IH|[a c] [b e] u|u v w _ IH1 _ IH2].
  - reflexivity.
  - rewrite !ms_count_cons, IH. reflexivity.
  - rewrite !ms_count_cons. lia.
  - congruence.
Qed.

(* ---- item 1: permuting the rows ---------------------------------------------------------------- *)

Theorem aggregate_perm : forall m rows rows', Permutation rows rows' ->
  Forall2 ms_equiv (aggregate m rows) (aggregate m rows').
Proof.
  intros m rows rows' H. unfold aggregate. apply Forall2_map_same. intro i.
  apply Permutation_ms_equiv, Permutation_map, filter_Permutation, H.
Qed.

Lemma aggregate_o_perm : forall m rows rows', Permutation rows rows' ->
  Forall2 ms_equiv (aggregate_o m rows) (aggregate_o m rows').
Proof.
  intros m rows rows' H. unfold aggregate_o. apply Forall2_map_same. intro i.
  apply Permutation_ms_equiv, Permutation_map, filter_Permutation, H.
Qed.

Lemma aggregate_nan_perm : forall rows rows', Permutation rows rows' ->
  opt_rel ms_equiv (aggregate_nan rows) (aggregate_nan rows').
Proof.
  intros rows rows' H. unfold aggregate_nan.
  apply (filter_Permutation _ is_missing) in H.
  destruct (filter is_missing rows) as [|a t] eqn:E, (filter is_missing rows') as [|b s] eqn:E'; simpl.
  - exact I.
  - apply Permutation_nil in H. discriminate.
  - apply Permutation_sym, Permutation_nil in H. discriminate.
  - apply Permutation_ms_equiv. apply (Permutation_map (fun r => (snd r, 1))) in H. exact H.
Qed.

(* ---- item 3: units, groups, rows --------------------------------------------------------------- *)

Lemma unit_of_equiv : forall us us', Forall2 ms_equiv us us' ->
  forall i, ms_equiv (unit_of us i) (unit_of us' i).
Proof.
  intros us us' H. unfold unit_of. induction H as [|u u' us us' Hu _ IH]; intro i.
  - destruct i; apply ms_equiv_refl.
  - destruct i; simpl; [exact Hu|apply IH].
Qed.

Lemma group_ms_equiv : forall us us', Forall2 ms_equiv us us' ->
  forall g, ms_equiv (group_ms us g) (group_ms us' g).
Proof.
  intros us us' H g. unfold group_ms, ms_union. apply ms_equiv_concat.
  apply Forall2_map_same. apply unit_of_equiv, H.
Qed.

Lemma rows_of_equiv : forall us us', Forall2 ms_equiv us us' ->
  forall c, Forall2 ms_equiv (rows_of us c) (rows_of us' c).
Proof.
  intros us us' H c. unfold rows_of. apply Forall2_map_same. apply group_ms_equiv, H.
Qed.

(* functions of a list of rows that read each row through an equivalence-respecting function *)
Lemma map_equiv : forall B (F F' : ymset -> B) rs rs',
  (forall u v, ms_equiv u v -> F u = F' v) -> Forall2 ms_equiv rs rs' -> map F rs = map F' rs'.
Proof. intros B F F' rs rs' HF H. induction H; simpl; [reflexivity|]. f_equal; auto. Qed.

Lemma fold_right_equiv : forall B (F F' : ymset -> B -> B) b rs rs',
  (forall u v x, ms_equiv u v -> F u x = F' v x) -> Forall2 ms_equiv rs rs' ->
  fold_right F b rs = fold_right F' b rs'.
Proof. intros B F F' b rs rs' HF H. induction H; simpl; [reflexivity|]. rewrite IHForall2. auto. Qed.

Lemma forallb_equiv : forall (f f' : ymset -> bool) rs rs',
  (forall u v, ms_equiv u v -> f u = f' v) -> Forall2 ms_equiv rs rs' -> forallb f rs = forallb f' rs'.
Proof. intros f f' rs rs' HF H. induction H; simpl; [reflexivity|]. f_equal; auto. Qed.

Lemma existsb_equiv : forall (f f' : ymset -> bool) rs rs',
  (forall u v, ms_equiv u v -> f u = f' v) -> Forall2 ms_equiv rs rs' -> existsb f rs = existsb f' rs'.
Proof. intros f f' rs rs' HF H. induction H; simpl; [reflexivity|]. f_equal; auto. Qed.

Lemma rate_equiv : forall u v, ms_equiv u v -> rate u = rate v.
Proof. intros u v H. unfold rate. rewrite (ms_sum_equiv u v H), (ms_n_equiv u v H). reflexivity. Qed.

Lemma freq_equiv : forall total u v, ms_equiv u v -> freq total u = freq total v.
Proof. intros total u v H. unfold freq. rewrite (ms_n_equiv u v H). reflexivity. Qed.

Lemma row01_equiv : forall u v, ms_equiv u v -> row01 u = row01 v.
Proof. intros u v H. unfold row01. rewrite !(H _). reflexivity. Qed.

Lemma total_equiv : forall rs rs', Forall2 ms_equiv rs rs' ->
  fold_right (fun u acc => ms_n u + acc) 0 rs = fold_right (fun u acc => ms_n u + acc) 0 rs'.
Proof.
  intros rs rs' H. apply fold_right_equiv; [|exact H].
  intros u v x Huv. rewrite (ms_n_equiv u v Huv). reflexivity.
Qed.

Lemma rates_equiv : forall rs rs', Forall2 ms_equiv rs rs' -> map rate rs = map rate rs'.
Proof. intros rs rs' H. apply map_equiv; [apply rate_equiv|exact H]. Qed.

Lemma rows_ok_equiv : forall mfm rs rs', Forall2 ms_equiv rs rs' -> rows_ok mfm rs = rows_ok mfm rs'.
Proof.
  intros mfm rs rs' H. unfold rows_ok. cbv zeta.
  rewrite (total_equiv rs rs' H), (rates_equiv rs rs' H). f_equal.
  apply forallb_equiv; [|exact H]. intros u v Huv. rewrite (freq_equiv _ u v Huv). reflexivity.
Qed.

(* same_ranks reads the rows through their rates only *)
Lemma same_ranks_equiv : forall rt rt' rd rd',
  Forall2 ms_equiv rt rt' -> Forall2 ms_equiv rd rd' ->
  same_ranks (map rate rt) (map rate rd) = same_ranks (map rate rt') (map rate rd').
Proof. intros rt rt' rd rd' Ht Hd. rewrite (rates_equiv _ _ Ht), (rates_equiv _ _ Hd). reflexivity. Qed.

Theorem viable_ms_equiv : forall cf train train' dev dev' c,
  Forall2 ms_equiv train train' -> opt_rel (Forall2 ms_equiv) dev dev' ->
  viable cf train dev c = viable cf train' dev' c.
Proof.
  intros cf train train' dev dev' c Ht Hd. unfold viable. cbv zeta.
  pose proof (rows_of_equiv _ _ Ht c) as Hrt.
  rewrite (rows_ok_equiv _ _ _ Hrt). f_equal.
  destruct dev as [d|], dev' as [d'|]; simpl in Hd; try contradiction; [|reflexivity].
  pose proof (rows_of_equiv _ _ Hd c) as Hrd.
  rewrite (same_ranks_equiv _ _ _ _ Hrt Hrd), (rows_ok_equiv _ _ _ Hrd). reflexivity.
Qed.

(* chi2 inputs *)
Lemma chi2_rows_equiv : forall rs rs', Forall2 ms_equiv rs rs' -> map row01 rs = map row01 rs'.
Proof. intros rs rs' H. apply map_equiv; [apply row01_equiv|exact H]. Qed.

(* ---- Kruskal-Wallis ---------------------------------------------------------------------------- *)

Definition ktsum (pool : ymset) : Z :=
  fold_right (fun v acc => let t := ms_count v pool in t * t * t - t + acc) 0 (zdistinct (map fst pool)).
Definition kssbn (pool : ymset) (groups : list ymset) : Q :=
  fold_right (fun g acc => let s := rank2_sum pool g in Qplus (Qmake (s * s) (Z.to_pos (4 * ms_n g))) acc)
             0%Q groups.

Lemma kruskal_unfold : forall groups,
  kruskal groups =
  let pool := ms_union groups in
  let n := ms_n pool in
  let tsum := ktsum pool in
  let denom := n * n * n - n in
  if (n <=? 1) || (denom - tsum =? 0) || existsb (fun g => ms_n g =? 0) groups then None
  else
    let ssbn := kssbn pool groups in
    let h := Qminus (Qmult (Qmake 12 (Z.to_pos (n * (n + 1)))) ssbn) (inject_Z (3 * (n + 1))) in
    let ties := Qmake (denom - tsum) (Z.to_pos denom) in
    Some (Qred (Qdiv h ties)).
Proof. reflexivity. Qed.

Lemma zmem_In : forall v l, zmem v l = true <-> In v l.
Proof.
  intros v l. induction l as [|x t IH]; simpl; [split; [discriminate|tauto]|].
  rewrite orb_true_iff, IH, Z.eqb_eq. split; intros [H|H]; auto.
Qed.

Lemma zdistinct_In : forall l x, In x (zdistinct l) <-> In x l.
Proof.
  intros l x. induction l as [|a t IH]; simpl; [tauto|].
  destruct (zmem a t) eqn:E.
  - rewrite IH. apply zmem_In in E. split; [auto|]. intros [<-|H]; auto.
  - simpl. rewrite IH. tauto.
Qed.

Lemma zdistinct_NoDup : forall l, NoDup (zdistinct l).
Proof.
  induction l as [|a t IH]; simpl; [constructor|].
  destruct (zmem a t) eqn:E; [exact IH|]. constructor; [|exact IH].
  rewrite zdistinct_In. intro H. apply zmem_In in H. congruence.
Qed.

(* a sum over a duplicate-free list only depends on the elements where the summand is non-zero *)
Lemma zsum_shrink : forall h L' L, NoDup L -> incl L' L -> NoDup L' ->
  (forall x, In x L -> ~ In x L' -> h x = 0) -> zsum h L = zsum h L'.
Proof.
  intros h L'. induction L' as [|a t IH]; intros L HL Hincl HL' Hz.
  - apply zsum_zero. intros x Hx. apply Hz; auto.
  - assert (Ha : In a L) by (apply Hincl; left; reflexivity).
    apply in_split in Ha. destruct Ha as [l1 [l2 ->]].
    inversion HL' as [|a' t' Hat HNt]; subst a' t'.
    assert (E : zsum h (l1 ++ a :: l2) = h a + zsum h (l1 ++ l2)).
    { clear. unfold zsum. induction l1 as [|b l1 IH1]; simpl; [reflexivity|]. rewrite IH1. lia. }
    rewrite E. unfold zsum at 2. cbn [fold_right]. fold (zsum h t). f_equal.
    pose proof (NoDup_remove_1 _ _ _ HL) as HL1. pose proof (NoDup_remove_2 _ _ _ HL) as HL2.
    apply IH; [exact HL1| |exact HNt|].
    + intros x Hx. assert (Hx' : In x (l1 ++ a :: l2)) by (apply Hincl; right; exact Hx).
      apply in_app_or in Hx'. apply in_or_app. destruct Hx' as [H1|[H2|H2]]; auto.
      subst x. contradiction.
    + intros x Hx Hnx. apply Hz.
      * apply in_app_or in Hx. apply in_or_app. destruct Hx; [left|right; right]; assumption.
      * intros [<-|H]; [apply HL2; exact Hx|apply Hnx; exact H].
Qed.

Lemma ms_count_notin : forall x u, ~ In x (map fst u) -> ms_count x u = 0.
Proof.
  intros x u. induction u as [|[a c] u IH]; intro H; [reflexivity|].
  rewrite ms_count_cons, IH; [|intro; apply H; right; assumption].
  destruct (Z.eqb_spec a x) as [->|_]; [|reflexivity]. exfalso. apply H. left; reflexivity.
Qed.

Lemma ktsum_as_zsum : forall pool L, NoDup L -> incl (map fst pool) L ->
  ktsum pool = zsum (fun v => let t := ms_count v pool in t * t * t - t) L.
Proof.
  intros pool L HL Hincl. unfold ktsum.
  change (fold_right (fun v acc => let t := ms_count v pool in t * t * t - t + acc) 0
            (zdistinct (map fst pool)))
    with (zsum (fun v => let t := ms_count v pool in t * t * t - t) (zdistinct (map fst pool))).
  symmetry. apply zsum_shrink; [exact HL| |apply zdistinct_NoDup|].
  - intros x Hx. apply Hincl. apply zdistinct_In. exact Hx.
  - intros x _ Hnx. cbv zeta. rewrite ms_count_notin; [reflexivity|].
    intro H. apply Hnx. apply zdistinct_In. exact H.
Qed.

Lemma ktsum_equiv : forall p p', ms_equiv p p' -> ktsum p = ktsum p'.
Proof.
  intros p p' H.
  set (L := nodup Z.eq_dec (map fst p ++ map fst p')).
  assert (Hnd : NoDup L) by apply NoDup_nodup.
  rewrite (ktsum_as_zsum p L Hnd), (ktsum_as_zsum p' L Hnd).
  - apply zsum_ext. intros x _. cbv zeta. rewrite (H x). reflexivity.
  - intros x Hx. apply nodup_In, in_or_app. right; exact Hx.
  - intros x Hx. apply nodup_In, in_or_app. left; exact Hx.
Qed.

Lemma rank2_equiv : forall p p' v, ms_equiv p p' -> rank2 p v = rank2 p' v.
Proof. intros p p' v H. unfold rank2. rewrite (ms_less_equiv v p p' H), (H v). reflexivity. Qed.

Lemma rank2_sum_w : forall p u, rank2_sum p u = ms_w (rank2 p) u.
Proof.
  intros p. induction u as [|[a c] u IH]; [reflexivity|]. rewrite ms_w_cons, <- IH.
  unfold rank2_sum. cbn [fold_right fst snd]. lia.
Qed.

Lemma rank2_sum_equiv : forall p p' u u', ms_equiv p p' -> ms_equiv u u' ->
  rank2_sum p u = rank2_sum p' u'.
Proof.
  intros p p' u u' Hp Hu. rewrite !rank2_sum_w. rewrite (ms_w_equiv _ u u' Hu).
  clear Hu. induction u' as [|[a c] u' IH]; [reflexivity|].
  rewrite !ms_w_cons, IH, (rank2_equiv p p' a Hp). reflexivity.
Qed.

Theorem kruskal_equiv : forall gs gs', Forall2 ms_equiv gs gs' -> kruskal gs = kruskal gs'.
Proof.
  intros gs gs' H. rewrite !kruskal_unfold. cbv zeta.
  assert (Hp : ms_equiv (ms_union gs) (ms_union gs')) by (apply ms_equiv_concat, H).
  rewrite (ms_n_equiv _ _ Hp), (ktsum_equiv _ _ Hp).
  assert (He : existsb (fun g => ms_n g =? 0) gs = existsb (fun g => ms_n g =? 0) gs').
  { apply existsb_equiv; [|exact H]. intros u v Huv. rewrite (ms_n_equiv u v Huv). reflexivity. }
  assert (Hs : kssbn (ms_union gs) gs = kssbn (ms_union gs') gs').
  { unfold kssbn. apply fold_right_equiv; [|exact H]. intros u v x Huv. cbv zeta.
    rewrite (rank2_sum_equiv _ _ u v Hp Huv), (ms_n_equiv u v Huv). reflexivity. }
  rewrite He, Hs. reflexivity.
Qed.

Theorem measure_ms_equiv : forall cf train train' n c,
  Forall2 ms_equiv train train' -> measure cf train n c = measure cf train' n c.
Proof.
  intros cf train train' n c Ht. unfold measure. cbv zeta.
  pose proof (rows_of_equiv _ _ Ht c) as Hr.
  destruct (sort_by cf).
  - rewrite (chi2_rows_equiv _ _ Hr). reflexivity.
  - rewrite (chi2_rows_equiv _ _ Hr). reflexivity.
  - apply kruskal_equiv, Hr.
Qed.

(* ---- item 4: the search and the two-stage carving ---------------------------------------------- *)

Theorem stage_ms_equiv : forall cf train train' dev dev' cands,
  Forall2 ms_equiv train train' -> opt_rel (Forall2 ms_equiv) dev dev' ->
  stage cf train dev cands = stage cf train' dev' cands.
Proof.
  intros cf train train' dev dev' cands Ht Hd. unfold stage. cbv zeta.
  rewrite (total_equiv _ _ Ht).
  rewrite (map_ext (fun c => (c, measure cf train (fold_right (fun u acc => ms_n u + acc) 0 train') c))
                   (fun c => (c, measure cf train' (fold_right (fun u acc => ms_n u + acc) 0 train') c)))
    by (intro c; rewrite (measure_ms_equiv cf train train' _ c Ht); reflexivity).
  rewrite (find_ext_all _ (fun cm => viable cf train dev (fst cm))
                          (fun cm => viable cf train' dev' (fst cm)))
    by (intro cm; apply viable_ms_equiv; assumption).
  reflexivity.
Qed.

Lemma regroup_nan_equiv : forall us us' c tn tn', Forall2 ms_equiv us us' -> ms_equiv tn tn' ->
  Forall2 ms_equiv (regroup us c ++ [tn]) (regroup us' c ++ [tn']).
Proof.
  intros us us' c tn tn' H Hn. apply Forall2_app; [apply rows_of_equiv, H|].
  constructor; [exact Hn|constructor].
Qed.

Theorem carve_ms_equiv : forall cf d d', data_equiv d d' -> carve cf d = carve cf d'.
Proof.
  intros cf [t tn dv dn] [t' tn' dv' dn'] [Ht Htn Hdv Hdn]. simpl in *.
  unfold carve. cbn [d_train d_train_nan d_dev d_dev_nan]. cbv zeta.
  rewrite (Forall2_len _ _ _ _ _ Ht).
  rewrite (stage_ms_equiv cf t t' dv dv' _ Ht Hdv).
  destruct (length t' <=? 1)%nat; [reflexivity|].
  destruct (stage cf t' dv' _) as [c1|]; [|reflexivity].
  destruct tn as [n|], tn' as [n'|]; simpl in Htn; try contradiction; [|reflexivity].
  destruct (dropna cf); [|reflexivity].
  match goal with
  | |- match stage cf ?a ?b ?c with _ => _ end = match stage cf ?a' ?b' ?c with _ => _ end =>
      assert (E : stage cf a b c = stage cf a' b' c)
  end.
  { apply stage_ms_equiv; [apply regroup_nan_equiv; assumption|].
    destruct dv as [v|], dv' as [v'|]; simpl in Hdv; try contradiction; [|exact I].
    simpl. apply regroup_nan_equiv; [exact Hdv|].
    destruct dn as [x|], dn' as [x'|]; simpl in Hdn; try contradiction;
      [exact Hdn|apply ms_equiv_refl]. }
  rewrite E. reflexivity.
Qed.

(* ---- item 5: permuting the rows of the sample(s) ----------------------------------------------- *)

Theorem carve_row_permutation : forall cf m rows rows', Permutation rows rows' ->
  carve cf (mkData (aggregate m rows) None None None) =
  carve cf (mkData (aggregate m rows') None None None).
Proof.
  intros cf m rows rows' H. apply carve_ms_equiv. constructor; simpl; try exact I.
  apply aggregate_perm, H.
Qed.

(* general version: missing values, and a dev sample permuted independently *)
Theorem carve_sample_permutation : forall cf m train train' dev dev',
  Permutation train train' -> opt_rel (@Permutation _) dev dev' ->
  carve cf (sample_data m train dev) = carve cf (sample_data m train' dev').
Proof.
  intros cf m train train' dev dev' Ht Hd. apply carve_ms_equiv. unfold sample_data.
  constructor; cbn [d_train d_train_nan d_dev d_dev_nan].
  - apply aggregate_o_perm, Ht.
  - apply aggregate_nan_perm, Ht.
  - destruct dev, dev'; simpl in *; try contradiction; [apply aggregate_o_perm, Hd|exact I].
  - destruct dev, dev'; simpl in *; try contradiction; [apply aggregate_nan_perm, Hd|exact I].
Qed.

(* ---- item 6: strictly increasing re-encoding of a quantitative feature ------------------------- *)

Theorem unit_index_monotone_map : forall (phi : Z -> Z), (forall a b, a < b -> phi a < phi b) ->
  forall bs x, unit_index (map phi bs) (phi x) = unit_index bs x.
Proof.
  intros phi Hphi bs x. unfold unit_index. induction bs as [|b bs IH]; [reflexivity|].
  cbn [map filter].
  assert (E : (phi b <? phi x) = (b <? x)).
  { destruct (Z.ltb_spec b x) as [Hlt|Hge].
    - apply Z.ltb_lt, Hphi, Hlt.
    - apply Z.ltb_ge. destruct (Z.eq_dec x b) as [->|Hne]; [lia|].
      apply Z.lt_le_incl, Hphi. lia. }
  rewrite E. destruct (b <? x); simpl; rewrite IH; reflexivity.
Qed.

Theorem aggregate_monotone_map : forall (phi : Z -> Z), (forall a b, a < b -> phi a < phi b) ->
  forall m bs (rows : list (Z * Z)),
  aggregate m (map (fun r => (unit_index (map phi bs) (phi (fst r)), snd r)) rows) =
  aggregate m (map (fun r => (unit_index bs (fst r), snd r)) rows).
Proof.
  intros phi Hphi m bs rows. f_equal. apply map_ext. intro r.
  rewrite (unit_index_monotone_map phi Hphi). reflexivity.
Qed.

(* the re-encoded sample (values and boundaries mapped through phi, rows permuted) carves alike *)
Theorem carve_monotone_map : forall cf (phi : Z -> Z), (forall a b, a < b -> phi a < phi b) ->
  forall m bs (rows rows' : list (Z * Z)), Permutation rows rows' ->
  carve cf (mkData (aggregate m (quant_rows (map phi bs) (map (fun r => (phi (fst r), snd r)) rows')))
                   None None None) =
  carve cf (mkData (aggregate m (quant_rows bs rows)) None None None).
Proof.
  intros cf phi Hphi m bs rows rows' H. unfold quant_rows. rewrite map_map. cbn [fst snd].
  rewrite (aggregate_monotone_map phi Hphi). symmetry. apply carve_row_permutation.
  apply Permutation_map, H.
Qed.

(* ---- small instances ---------------------------------------------------------------------------- *)

Example ex_rows : list (nat * Z) :=
  [(0%nat,1);(1%nat,0);(0%nat,0);(2%nat,1);(1%nat,0);(2%nat,1);(0%nat,1);(1%nat,1);(2%nat,0);(0%nat,3);(1%nat,2);(2%nat,1)].
Example ex_carve_rev : forall k,
  carve (mkCfg 3 (f_of_dyadic 1 (-4)) true k) (mkData (aggregate 3 ex_rows) None None None) =
  carve (mkCfg 3 (f_of_dyadic 1 (-4)) true k) (mkData (aggregate 3 (rev ex_rows)) None None None).
Proof. intros []; vm_compute; reflexivity. Qed.
Example ex_unit_index :
  unit_index (map (fun z => z * z * z) [3; 7; 10]) (8 * 8 * 8) = unit_index [3; 7; 10] 8.
Proof. reflexivity. Qed.

Print Assumptions aggregate_perm.
Print Assumptions ms_n_equiv.
Print Assumptions ms_sum_equiv.
Print Assumptions ms_less_equiv.
Print Assumptions viable_ms_equiv.
Print Assumptions measure_ms_equiv.
Print Assumptions carve_ms_equiv.
Print Assumptions carve_row_permutation.
Print Assumptions carve_sample_permutation.
Print Assumptions unit_index_monotone_map.
Print Assumptions aggregate_monotone_map.
Print Assumptions carve_monotone_map.
