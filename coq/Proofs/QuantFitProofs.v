(* QuantFitProofs.v — end-to-end, gl-level statements for the QUANTITATIVE pipeline
   [quantitative_fit] (Model/Ordinal.v): quantile boundaries -> one bucket per boundary -> rare-bucket
   pass with min_freq/2 -> groups whose leader is the maximum member (+ the missing-value sentinel).
   Repaired quantile search ([dedup = true]: numpy.unique).  The statements hold for EVERY aggregate
   [d], min_freq and number of missing rows: neither sortedness of the values nor positivity of the
   counts is required (so they hold in particular on the harness' domain, CheckC09.in_domain). *)
From Coq Require Import ZArith List Bool Lia Permutation Sorted SpecFloat String.
From AC.Model Require Import Base Float GroupedList Quantiles Ordinal Categorical CheckC09.
From AC.Proofs Require Import BaseLemmas GroupedListSpec DiscretizeProofs.
Import ListNotations.
Open Scope Z_scope.
Open Scope list_scope.

(* ============================================================================================ *)
(* A — the order of quantitative leaders: finite numbers by value, all of them below +inf          *)
(* ============================================================================================ *)
Definition qlt (a b : val) : Prop :=
  match a with
  | VNum x => match b with VNum y => x < y | VPInf => True | _ => False end
  | _ => False
  end.

Lemma qlt_trans : forall a b c, qlt a b -> qlt b c -> qlt a c.
Proof. intros [x| | |s|] [y| | |t|] [z| | |u|]; cbn; try tauto; lia. Qed.

Lemma qlt_irrefl : forall a, ~ qlt a a.
Proof. intros [x| | |s|]; cbn; try tauto; lia. Qed.

Lemma qlt_leb : forall a b, qlt a b -> val_leb a b = true.
Proof.
  intros [x| | |s|] [y| | |t|]; cbn; try tauto; intros H; try reflexivity. apply Z.leb_le; lia.
Qed.

Lemma qlt_not_leb : forall a b, qlt a b -> val_leb b a = false.
Proof.
  intros [x| | |s|] [y| | |t|]; cbn; try tauto; intros H; try reflexivity. apply Z.leb_gt; lia.
Qed.

Lemma val_leb_refl : forall a, val_leb a a = true.
Proof.
  intros [x| | |s|]; cbn; try reflexivity; [apply Z.leb_refl|].
  destruct (String.leb_total s s); assumption.
Qed.

Lemma ss_app_inv : forall (A : Type) (R : A -> A -> Prop) a b, StronglySorted R (a ++ b) ->
  StronglySorted R a /\ StronglySorted R b /\ (forall x y, In x a -> In y b -> R x y).
Proof.
  induction a as [|h a IH]; intros b H; cbn [app] in H.
  - repeat split; [constructor|exact H|intros x y []].
  - inversion H as [|? ? Hs Hf]; subst. destruct (IH _ Hs) as (Ha & Hb & Hab).
    apply Forall_app in Hf. destruct Hf as [Hfa Hfb]. repeat split.
    + constructor; assumption.
    + exact Hb.
    + intros x y [<-|Hx] Hy; [|auto]. rewrite Forall_forall in Hfb. auto.
Qed.

Lemma ss_total : forall l a b, StronglySorted qlt l -> In a l -> In b l -> a = b \/ qlt a b \/ qlt b a.
Proof.
  induction l as [|h t IH]; intros a b H Ha Hb; [contradiction|].
  inversion H as [|? ? Hs Hf]; subst. rewrite Forall_forall in Hf.
  destruct Ha as [<-|Ha]; destruct Hb as [<-|Hb].
  - left; reflexivity.
  - right; left; auto.
  - right; right; auto.
  - apply IH; assumption.
Qed.

Lemma ss_nodup : forall l, StronglySorted qlt l -> NoDup l.
Proof.
  induction 1 as [|a l Hs IH Hf]; constructor; [|exact IH].
  intro Hin. rewrite Forall_forall in Hf. exact (qlt_irrefl a (Hf a Hin)).
Qed.

(* the last element of a sorted run is its maximum *)
Lemma ss_last_max : forall r d, StronglySorted qlt r -> r <> [] ->
  In (last r d) r /\ forall v, In v r -> v = last r d \/ qlt v (last r d).
Proof.
  induction r as [|h t IH]; intros d H Hne; [congruence|].
  inversion H as [|? ? Hs Hf]; subst. destruct t as [|y t'].
  - cbn. split; [left; reflexivity|]. intros v [<-|[]]. left; reflexivity.
  - destruct (IH d Hs) as [Hin Hmax]; [discriminate|].
    change (last (h :: y :: t') d) with (last (y :: t') d). split; [right; exact Hin|].
    intros v [<-|Hv]; [|apply Hmax; exact Hv].
    right. rewrite Forall_forall in Hf. apply Hf. exact Hin.
Qed.

(* max(which_to_keep): on a totally ordered non-empty list, [vmax] is the maximum *)
Lemma vmax_spec : forall l d, l <> [] ->
  (forall a b, In a l -> In b l -> a = b \/ qlt a b \/ qlt b a) ->
  In (vmax l d) l /\ forall v, In v l -> v = vmax l d \/ qlt v (vmax l d).
Proof.
  induction l as [|x t IH]; intros d Hne Htot; [congruence|].
  cbn [vmax]. destruct t as [|y t'].
  - cbn [vmax]. destruct (val_leb x x); (split; [left; reflexivity|]);
      intros v [<-|[]]; left; reflexivity.
  - destruct (IH x) as [Hin Hmax]; [discriminate|intros; apply Htot; right; assumption|].
    set (m := vmax (y :: t') x) in *. clearbody m.
    assert (Hcmp : m = x \/ qlt m x \/ qlt x m).
    { apply Htot; [right; exact Hin|left; reflexivity]. }
    destruct (val_leb m x) eqn:Eleb.
    + assert (Hmx : m = x \/ qlt m x).
      { destruct Hcmp as [E|[L|L]]; auto. apply qlt_not_leb in L. congruence. }
      split; [left; reflexivity|]. intros v [<-|Hv]; [left; reflexivity|].
      destruct (Hmax v Hv) as [Ev|Hv']; destruct Hmx as [Em|Hmx]; subst; auto.
      right. eapply qlt_trans; eauto.
    + assert (Hmx : m = x \/ qlt x m).
      { destruct Hcmp as [E|[L|L]]; auto. apply qlt_leb in L. congruence. }
      split; [right; exact Hin|]. intros v [<-|Hv]; [|apply Hmax; exact Hv].
      destruct Hmx as [Em|Hmx]; auto.
Qed.

(* one fitted group: members = a permutation of a run, leader = last (greatest) boundary of the run *)
Definition group_of_run (kv : val * list val) (r : list val) : Prop :=
  fst kv = last r VNInf
  /\ Permutation (snd kv) r
  /\ In (fst kv) (snd kv)
  /\ (forall v, In v (snd kv) -> val_leb v (fst kv) = true).

Lemma quant_group_run : forall ms r,
  Permutation ms r -> StronglySorted qlt r -> r <> [] -> group_of_run (quant_group ms) r.
Proof.
  intros ms r Hp Hs Hne.
  assert (Hms : ms <> []).
  { intro E. subst ms. apply Permutation_nil in Hp. congruence. }
  assert (Htot : forall a b, In a ms -> In b ms -> a = b \/ qlt a b \/ qlt b a).
  { intros a b Ha Hb. apply (ss_total r); auto; eapply Permutation_in; eauto. }
  destruct (vmax_spec ms VNInf Hms Htot) as [Hin Hmax].
  destruct (ss_last_max r VNInf Hs Hne) as [Hlin Hlmax].
  set (m := vmax ms VNInf) in *.
  assert (Em : m = last r VNInf).
  { destruct (Hlmax m (Permutation_in _ Hp Hin)) as [E|L1]; [exact E|].
    destruct (Hmax (last r VNInf) (Permutation_in _ (Permutation_sym Hp) Hlin)) as [E|L2]; [auto|].
    destruct (qlt_irrefl m). eapply qlt_trans; eauto. }
  assert (Hnd : NoDup ms).
  { eapply Permutation_NoDup; [apply Permutation_sym; exact Hp|apply ss_nodup; exact Hs]. }
  pose proof (value_group_perm m ms Hnd Hin) as Hvp.
  unfold group_of_run, quant_group. fold m.
  assert (Hfst : fst (value_group m ms) = m) by reflexivity. rewrite Hfst.
  split; [exact Em|]. split; [rewrite Hvp; exact Hp|]. split.
  - unfold value_group. cbn [snd]. apply in_or_app. right. left. reflexivity.
  - intros v Hv. apply (Permutation_in _ Hvp) in Hv.
    destruct (Hmax v Hv) as [->|L]; [apply val_leb_refl|apply qlt_leb; exact L].
Qed.

Lemma boundaries_sorted : forall qs, Sorted Z.lt qs -> StronglySorted qlt (boundaries qs).
Proof.
  intros qs H. apply Sorted_StronglySorted in H; [|intros a b c; apply Z.lt_trans].
  unfold boundaries. induction H as [|a l Hs IH Hf]; cbn [map app].
  - repeat constructor.
  - constructor; [exact IH|]. apply Forall_app. split.
    + rewrite Forall_forall in *. intros v Hv. apply in_map_iff in Hv.
      destruct Hv as [z [<- Hz]]. cbn. auto.
    + repeat constructor.
Qed.

Lemma In_boundaries : forall qs v, In v (boundaries qs) <-> (exists z, v = VNum z /\ In z qs) \/ v = VPInf.
Proof.
  intros qs v. unfold boundaries. rewrite in_app_iff, in_map_iff. cbn [In]. split.
  - intros [[z [<- Hz]]|[<-|[]]]; eauto.
  - intros [[z [-> Hz]]| ->]; eauto.
Qed.

(* ============================================================================================ *)
(* B — the merging loop keeps a segmentation of the INITIAL bucket list (counts included)         *)
(* ============================================================================================ *)
Definition segmented (bs0 bs : list bucket) : Prop :=
  exists segs, List.concat segs = bs0 /\
    Forall2 (fun b seg => seg <> [] /\ b_cnt b = cnt_sum seg /\ Permutation (b_mem b) (members seg))
            bs segs.

Lemma segmented_init : forall bs0, segmented bs0 bs0.
Proof.
  intros bs0. exists (map (fun b => [b]) bs0). split; [apply concat_singletons|].
  induction bs0 as [|b t IH]; cbn [map]; constructor; [|exact IH].
  split; [discriminate|]. unfold cnt_sum, members. cbn. rewrite app_nil_r. split; [lia|reflexivity].
Qed.

Lemma app_not_nil_l : forall (A : Type) (a b : list A), a <> [] -> a ++ b <> [].
Proof. intros A [|x a] b H; [congruence|discriminate]. Qed.

Lemma merge_segmented : forall bs0 bs bs',
  merge_adjacent bs bs' -> segmented bs0 bs -> segmented bs0 bs'.
Proof.
  intros bs0 bs bs' H [segs [Hc Hf]].
  destruct H as [pre x y post|pre x y post];
    apply Forall2_app_inv_l in Hf; destruct Hf as [spre [srest [Hpre [Hrest ->]]]];
    inversion Hrest as [|? s1 ? r1 (N1 & C1 & P1) Hr1]; subst;
    inversion Hr1 as [|? s2 ? spost (N2 & C2 & P2) Hpost]; subst;
    exists (spre ++ (s1 ++ s2) :: spost); (split;
      [try rewrite <- Hc; rewrite !concat_app; cbn [List.concat];
       rewrite <- ?app_assoc; reflexivity|]);
    (apply Forall2_app; [exact Hpre|]); (constructor; [|exact Hpost]);
    cbn [absorb b_cnt b_mem]; rewrite cnt_sum_app, members_app;
    (split; [apply app_not_nil_l; assumption|]); (split; [lia|]).
  - apply Permutation_app; assumption.
  - rewrite Permutation_app_comm. apply Permutation_app; assumption.
Qed.

Lemma rare_pass_segmented : forall n half nan_cnt bs bs',
  rare_pass n half nan_cnt bs = Ok bs' -> segmented bs bs'.
Proof.
  intros n half nan_cnt bs bs' H. unfold rare_pass in H.
  destruct (has_rare n half nan_cnt bs).
  - unfold find_common_modalities in H.
    eapply (fcm_preserves (segmented bs) (merge_segmented bs)); [exact H|apply segmented_init].
  - injection H as <-. apply segmented_init.
Qed.

(* ============================================================================================ *)
(* C — counting rows between two leaders is additive over consecutive leaders                     *)
(* ============================================================================================ *)
Definition cnt (d : qdata) (prev : option val) (l : val) : Z :=
  qcount_rows (filter (fun p => in_bucket prev l (fst (fst p))) d).

Definition below (prev : option val) (a : val) : Prop :=
  match prev with None => True | Some p => qlt p a end.

Lemma in_bucket_split : forall prev a b x, qlt a b -> below prev a ->
  Z.b2z (in_bucket prev b x) = Z.b2z (in_bucket prev a x) + Z.b2z (in_bucket (Some a) b x).
Proof.
  intros prev a b x Hab Hp.
  destruct a as [ya| | |sa|]; try contradiction.
  destruct b as [yb| | |sb|]; try contradiction;
    destruct prev as [[p| | |sp|]|]; try contradiction; cbn in Hab, Hp;
    unfold in_bucket, val_ltb; cbn [val_leb val_eqb num_rank];
    repeat match goal with
           | |- context [Z.leb ?u ?v] => destruct (Z.leb_spec u v)
           | |- context [Z.eqb ?u ?v] => destruct (Z.eqb_spec u v)
           end; cbn; lia.
Qed.

Lemma cnt_split : forall d prev a b, qlt a b -> below prev a ->
  cnt d prev b = cnt d prev a + cnt d (Some a) b.
Proof.
  intros d prev a b Hab Hp. unfold cnt.
  induction d as [|[[x c] s] t IH]; [reflexivity|]. cbn [filter fst].
  pose proof (in_bucket_split prev a b x Hab Hp) as E.
  destruct (in_bucket prev b x), (in_bucket prev a x), (in_bucket (Some a) b x);
    cbn [Z.b2z] in E; try lia; unfold qcount_rows in *; cbn [fold_right fst snd]; lia.
Qed.

(* last leader seen so far *)
Definition olast (prev : option val) (l : list val) : option val :=
  fold_left (fun _ v => Some v) l prev.

Lemma olast_last : forall l prev d, l <> [] -> olast prev l = Some (last l d).
Proof.
  induction l as [|x t IH]; intros prev d H; [congruence|].
  destruct t as [|y t']; [reflexivity|].
  change (olast prev (x :: y :: t')) with (olast (Some x) (y :: t')).
  change (last (x :: y :: t') d) with (last (y :: t') d). apply IH. discriminate.
Qed.

Definition osorted (prev : option val) (l : list val) : Prop :=
  StronglySorted qlt (match prev with None => l | Some p => p :: l end).

Lemma osorted_tail : forall prev x t, osorted prev (x :: t) -> osorted (Some x) t /\ below prev x.
Proof.
  intros [p|] x t H; unfold osorted in *; cbn [below].
  - inversion H as [|? ? Hs Hf]; subst. split; [exact Hs|]. inversion Hf; assumption.
  - split; [exact H|exact I].
Qed.

Lemma osorted_app : forall prev a b, a <> [] -> osorted prev (a ++ b) ->
  osorted prev a /\ osorted (Some (last a VNInf)) b.
Proof.
  intros prev a b Hne H. unfold osorted in *.
  assert (H' : StronglySorted qlt ((match prev with None => a | Some p => p :: a end) ++ b)).
  { destruct prev; exact H. }
  destruct (ss_app_inv _ _ _ _ H') as (Ha & Hb & Hab). split; [exact Ha|].
  constructor; [exact Hb|]. apply Forall_forall. intros y Hy. apply Hab; [|exact Hy].
  assert (Hs : StronglySorted qlt a).
  { destruct prev; [inversion Ha; assumption|exact Ha]. }
  destruct (ss_last_max a VNInf Hs Hne) as [Hin _].
  destruct prev; [right|]; exact Hin.
Qed.

(* telescoping: the buckets of a run of leaders add up to the rows between its ends *)
Lemma cnt_sum_run : forall d r prev, r <> [] -> osorted prev r ->
  cnt_sum (qbuckets prev r d) = cnt d prev (last r VNInf).
Proof.
  intros d. induction r as [|x t IH]; intros prev Hne Hs; [congruence|].
  destruct (osorted_tail _ _ _ Hs) as [Hs' Hb].
  cbn [qbuckets]. unfold cnt_sum at 1. cbn [fold_right b_cnt]. fold (cnt_sum (qbuckets (Some x) t d)).
  fold (cnt d prev x).
  destruct t as [|y t'].
  - cbn [qbuckets]. unfold cnt_sum. cbn [fold_right last]. lia.
  - rewrite IH by (discriminate || exact Hs').
    change (last (x :: y :: t') VNInf) with (last (y :: t') VNInf).
    rewrite (cnt_split d prev x (last (y :: t') VNInf)); [reflexivity| |exact Hb].
    unfold osorted in Hs'. inversion Hs' as [|? ? Hss Hf]; subst.
    rewrite Forall_forall in Hf. apply Hf.
    apply (ss_last_max (y :: t') VNInf Hss). discriminate.
Qed.

Lemma qbuckets_split : forall d s rest prev init,
  s ++ rest = qbuckets prev init d ->
  exists i1 i2, init = i1 ++ i2 /\ s = qbuckets prev i1 d /\ rest = qbuckets (olast prev i1) i2 d.
Proof.
  intros d. induction s as [|b s IH]; intros rest prev init H.
  - exists [], init. cbn in *. auto.
  - destruct init as [|l t]; [discriminate|]. cbn [qbuckets app] in H.
    injection H as Hb Ht. destruct (IH _ _ _ Ht) as (i1 & i2 & -> & Hs & Hr).
    exists (l :: i1), i2. cbn [qbuckets app]. rewrite <- Hb, <- Hs. auto.
Qed.

Definition lasts (runs : list (list val)) : list val := map (fun r => last r VNInf) runs.

(* a segmentation of the initial buckets is a segmentation of the leaders into runs, and every
   segment holds exactly the rows between the greatest leader of the previous run and its own *)
Lemma qbuckets_segs : forall d segs prev init,
  List.concat segs = qbuckets prev init d -> Forall (fun s => s <> []) segs -> osorted prev init ->
  List.concat (map members segs) = init
  /\ Forall (fun r => r <> []) (map members segs)
  /\ map b_cnt (qbuckets prev (lasts (map members segs)) d) = map cnt_sum segs.
Proof.
  intros d. induction segs as [|s ss IH]; intros prev init Hc Hne Hs.
  - cbn in *. destruct init; [|discriminate]. repeat split. constructor.
  - cbn [List.concat] in Hc. inversion Hne as [|? ? Hs1 Hss]; subst.
    destruct (qbuckets_split d _ _ _ _ Hc) as (i1 & i2 & -> & Es & Er).
    assert (Hm : members s = i1).
    { rewrite Es. apply members_of_mem. apply qbuckets_mem. }
    assert (Hi1 : i1 <> []) by (intro E; rewrite E in Es; cbn in Es; congruence).
    destruct (osorted_app _ _ _ Hi1 Hs) as [Hsa Hsb].
    rewrite (olast_last i1 prev VNInf Hi1) in Er.
    destruct (IH _ _ Er Hss Hsb) as (H1 & H2 & H3).
    cbn [map List.concat lasts]. rewrite Hm. repeat split.
    + rewrite H1. reflexivity.
    + constructor; assumption.
    + cbn [qbuckets map b_cnt]. f_equal; [|exact H3].
      rewrite Es. symmetry. apply cnt_sum_run; assumption.
Qed.

Lemma ss_concat_each : forall runs, StronglySorted qlt (List.concat runs) -> Forall (StronglySorted qlt) runs.
Proof.
  induction runs as [|r rs IH]; intros H; constructor; cbn [List.concat] in H;
    destruct (ss_app_inv _ _ _ _ H) as (Hr & Hrs & _); auto.
Qed.

(* the leaders of the runs are increasing too *)
Lemma lasts_sorted : forall runs, StronglySorted qlt (List.concat runs) -> Forall (fun r => r <> []) runs ->
  StronglySorted qlt (lasts runs) /\ (forall v, In v (lasts runs) -> In v (List.concat runs)).
Proof.
  induction runs as [|r rs IH]; intros H Hne; cbn [lasts map List.concat] in *.
  - split; [constructor|intros v []].
  - inversion Hne as [|? ? Hr Hrs]; subst.
    destruct (ss_app_inv _ _ _ _ H) as (Sr & Srs & Hcross).
    destruct (IH Srs Hrs) as [IH1 IH2]. destruct (ss_last_max r VNInf Sr Hr) as [Hin _]. split.
    + constructor; [exact IH1|]. apply Forall_forall. intros v Hv. apply Hcross; auto.
    + intros v [<-|Hv]; apply in_or_app; [left; exact Hin|right; auto].
Qed.

(* increasing leaders drawn from boundaries, +inf among them: finite numbers, then +inf *)
Lemma leaders_shape : forall qs K, StronglySorted qlt K -> (forall v, In v K -> In v (boundaries qs)) ->
  In VPInf K ->
  exists ls, K = map VNum ls ++ [VPInf] /\ Sorted Z.lt ls /\ (forall x, In x ls -> In x qs).
Proof.
  intros qs K Hs Hsub Hinf. apply in_split in Hinf. destruct Hinf as (K1 & K2 & ->).
  destruct (ss_app_inv _ _ _ _ Hs) as (S1 & S2 & Hcross).
  assert (K2 = []) as ->.
  { destruct K2 as [|y K2]; [reflexivity|]. inversion S2 as [|? ? _ Hf]; subst.
    inversion Hf as [|? ? Hy _]; subst. destruct Hy. }
  assert (Hnum : forall v, In v K1 -> exists z, v = VNum z /\ In z qs).
  { intros v Hv. assert (L : qlt v VPInf) by (apply Hcross; [exact Hv|left; reflexivity]).
    destruct (proj1 (In_boundaries qs v) (Hsub v (in_or_app _ _ _ (or_introl Hv)))) as [Hz| ->];
      [exact Hz|destruct L]. }
  clear Hs S2 Hcross Hsub.
  induction K1 as [|v K1 IH].
  - exists []. repeat split; [constructor|intros x []].
  - inversion S1 as [|? ? S1' Hf]; subst.
    destruct IH as (ls & E & Hls & Hin); [exact S1'|intros; apply Hnum; right; assumption|].
    destruct (Hnum v (or_introl eq_refl)) as (z & -> & Hz).
    apply app_inj_tail in E. destruct E as [E _]. subst K1.
    exists (z :: ls). repeat split.
    + constructor; [exact Hls|]. destruct ls as [|y ls']; constructor.
      inversion Hf as [|? ? Hy _]; subst. exact Hy.
    + intros x [<-|Hx]; auto.
Qed.

(* ============================================================================================ *)
(* D — from buckets to the fitted GroupedList                                                     *)
(* ============================================================================================ *)
Definition qgroups (bs : list bucket) : list (val * list val) := map (fun b => quant_group (b_mem b)) bs.

Lemma qgroups_runs : forall bs runs,
  Forall2 (fun b r => Permutation (b_mem b) r) bs runs ->
  Forall (StronglySorted qlt) runs -> Forall (fun r => r <> []) runs ->
  Forall2 group_of_run (qgroups bs) runs.
Proof.
  intros bs runs H. induction H as [|b r bs rs Hp _ IH]; intros Hs Hne; cbn [qgroups map]; constructor;
    inversion Hs; inversion Hne; subst.
  - apply quant_group_run; assumption.
  - apply IH; assumption.
Qed.

Lemma groups_fst : forall groups runs, Forall2 group_of_run groups runs -> map fst groups = lasts runs.
Proof.
  intros groups runs H. induction H as [|kv r gs rs (E & _) _ IH]; cbn [map lasts]; [reflexivity|].
  f_equal; [exact E|exact IH].
Qed.

Lemma groups_values : forall groups runs, Forall2 group_of_run groups runs ->
  Permutation (flat_map snd groups) (List.concat runs).
Proof.
  intros groups runs H. induction H as [|kv r gs rs (_ & P & _) _ IH]; cbn [flat_map List.concat];
    [reflexivity|]. apply Permutation_app; assumption.
Qed.

Lemma groups_own : forall groups runs, Forall2 group_of_run groups runs ->
  forall k vs, In (k, vs) groups -> In k vs /\ forall v, In v vs -> val_leb v k = true.
Proof.
  intros groups runs H. induction H as [|kv r gs rs (_ & _ & I1 & I2) _ IH]; intros k vs Hin;
    [contradiction|]. destruct Hin as [->|Hin]; [split; assumption|auto].
Qed.

Lemma groups_buckets : forall bs runs,
  Forall2 group_of_run (qgroups bs) runs -> Forall2 (fun b r => Permutation (b_mem b) r) bs runs ->
  Forall2 (fun kv b => Permutation (snd kv) (b_mem b)) (qgroups bs) bs.
Proof.
  induction bs as [|b t IH]; intros runs Hg Hbr; cbn [qgroups map] in *; [constructor|].
  inversion Hg as [|? r ? rs (_ & P & _) Hg']; subst. inversion Hbr as [|? ? ? ? P' Hbr']; subst.
  constructor; [|eapply IH; eauto]. rewrite P. symmetry. exact P'.
Qed.

Definition nan_keys (nan_cnt : Z) : list val := if 0 <? nan_cnt then [str_nan] else [].
Definition nan_group (nan_cnt : Z) : dict := if 0 <? nan_cnt then [(str_nan, [str_nan])] else [].

Lemma gl_of_groups_keys : forall groups nan_cnt,
  keys (gl_of_groups groups (0 <? nan_cnt)) = map fst groups ++ nan_keys nan_cnt.
Proof.
  intros. unfold gl_of_groups, nan_keys. destruct (0 <? nan_cnt); cbn [keys]; [reflexivity|].
  rewrite app_nil_r. reflexivity.
Qed.

Lemma gl_of_groups_content : forall groups nan_cnt,
  content (gl_of_groups groups (0 <? nan_cnt)) = groups ++ nan_group nan_cnt.
Proof.
  intros. unfold gl_of_groups, nan_group. destruct (0 <? nan_cnt); cbn [content]; [reflexivity|].
  rewrite app_nil_r. reflexivity.
Qed.

Lemma non_missing_groups_gl : forall groups nan_cnt,
  ~ In str_nan (map fst groups) ->
  non_missing_groups (gl_of_groups groups (0 <? nan_cnt)) = groups.
Proof.
  intros groups nan_cnt Hn. unfold non_missing_groups. rewrite gl_of_groups_content, filter_app.
  rewrite (filter_all _ _ groups).
  - unfold nan_group. destruct (0 <? nan_cnt); cbn [filter fst]; [|apply app_nil_r].
    rewrite val_eqb_refl. apply app_nil_r.
  - intros kv Hkv. apply negb_true_iff, val_eqb_neq. intro E. apply Hn. rewrite <- E.
    apply in_map. exact Hkv.
Qed.

Lemma non_missing_keys : forall K nan_cnt, ~ In str_nan K -> non_missing (K ++ nan_keys nan_cnt) = K.
Proof.
  intros K nan_cnt Hn. unfold non_missing. rewrite filter_app, (filter_all _ _ K).
  - unfold nan_keys. destruct (0 <? nan_cnt); cbn [filter]; [|apply app_nil_r].
    rewrite val_eqb_refl. apply app_nil_r.
  - intros k Hk. apply negb_true_iff, val_eqb_neq. intro E. apply Hn. rewrite <- E. exact Hk.
Qed.

Lemma wf_gl_of_groups : forall groups nan_cnt,
  NoDup (map fst groups) -> NoDup (flat_map snd groups) ->
  (forall k vs, In (k, vs) groups -> In k vs) -> ~ In str_nan (flat_map snd groups) ->
  WF (gl_of_groups groups (0 <? nan_cnt)).
Proof.
  intros groups nan_cnt Hk Hv Hown Hnan.
  assert (Hnk : ~ In str_nan (map fst groups)).
  { intro Hin. apply in_map_iff in Hin. destruct Hin as [[k vs] [E Hin]]. cbn in E. subst k.
    apply Hnan. apply in_flat_map. exists (str_nan, vs). split; [exact Hin|apply (Hown _ _ Hin)]. }
  assert (Hkeys : dkeys (content (gl_of_groups groups (0 <? nan_cnt)))
                  = keys (gl_of_groups groups (0 <? nan_cnt))).
  { rewrite gl_of_groups_keys, gl_of_groups_content. unfold dkeys. rewrite map_app.
    unfold nan_group, nan_keys. destruct (0 <? nan_cnt); reflexivity. }
  assert (Hnd : NoDup (keys (gl_of_groups groups (0 <? nan_cnt)))).
  { rewrite gl_of_groups_keys. unfold nan_keys. destruct (0 <? nan_cnt).
    - apply NoDup_snoc; assumption.
    - rewrite app_nil_r. exact Hk. }
  unfold WF. rewrite Hkeys. repeat split; auto.
  - unfold dvalues. rewrite gl_of_groups_content, flat_map_app. unfold nan_group.
    destruct (0 <? nan_cnt); cbn [flat_map snd app].
    + apply NoDup_snoc; assumption.
    + rewrite app_nil_r. exact Hv.
  - intros k vs Hin. rewrite gl_of_groups_content in Hin. apply in_app_or in Hin.
    destruct Hin as [Hin|Hin]; [eapply Hown; eauto|].
    unfold nan_group in Hin. destruct (0 <? nan_cnt); [|contradiction].
    destruct Hin as [E|[]]. injection E as <- <-. left. reflexivity.
Qed.

(* ============================================================================================ *)
(* E — the pipeline                                                                               *)
(* ============================================================================================ *)
Definition nrows (nan_cnt : Z) (d : qdata) : Z := nan_cnt + qcount_rows d.

(* every way [quantitative_fit true] can end *)
Lemma quantitative_fit_cases : forall mf nan_cnt d,
  match q_of_min_freq mf with
  | None => quantitative_fit true mf nan_cnt d = QFail QFloat
  | Some q =>
      match find_quantiles_v true q (nrows nan_cnt d) (vcs_of d) with
      | QErr e => quantitative_fit true mf nan_cnt d = QFail e /\ e <> QFuel
      | QOk qs =>
          Sorted Z.lt qs /\
          exists bs', rare_pass (nrows nan_cnt d) (half_min_freq mf) nan_cnt
                                (qbuckets None (boundaries qs) d) = Ok bs'
                      /\ quantitative_fit true mf nan_cnt d
                         = QFit (gl_of_groups (qgroups bs') (0 <? nan_cnt))
      end
  end.
Proof.
  intros mf nan_cnt d. unfold quantitative_fit. fold (nrows nan_cnt d).
  destruct (q_of_min_freq mf) as [q|]; [|reflexivity].
  destruct (find_quantiles_v true q (nrows nan_cnt d) (vcs_of d)) as [qs|e] eqn:E.
  - destruct (find_quantiles_spec true _ _ _ _ E) as (_ & _ & _ & Hs & _). specialize (Hs eq_refl).
    split; [exact Hs|].
    rewrite (proj2 (strictly_increasing_spec qs) Hs). cbn [negb].
    destruct (quantitative_buckets (nrows nan_cnt d) (half_min_freq mf) nan_cnt (boundaries qs) d)
      as (bs' & Hr & _).
    exists bs'. split; [exact Hr|]. rewrite Hr. reflexivity.
  - split; [reflexivity|]. intros ->. exact (find_quantiles_no_fuel_error _ _ _ _ E).
Qed.

Lemma quantitative_fit_inv : forall mf nan_cnt d g,
  quantitative_fit true mf nan_cnt d = QFit g ->
  exists q qs bs',
    q_of_min_freq mf = Some q
    /\ find_quantiles_v true q (nrows nan_cnt d) (vcs_of d) = QOk qs
    /\ Sorted Z.lt qs
    /\ rare_pass (nrows nan_cnt d) (half_min_freq mf) nan_cnt (qbuckets None (boundaries qs) d) = Ok bs'
    /\ g = gl_of_groups (qgroups bs') (0 <? nan_cnt).
Proof.
  intros mf nan_cnt d g H. pose proof (quantitative_fit_cases mf nan_cnt d) as C.
  destruct (q_of_min_freq mf) as [q|] eqn:Eq; [|congruence].
  destruct (find_quantiles_v true q (nrows nan_cnt d) (vcs_of d)) as [qs|e] eqn:Ef.
  - destruct C as (Hs & bs' & Hr & E). exists q, qs, bs'. rewrite E in H. injection H as <-. repeat split; assumption || reflexivity.
  - destruct C as [C _]. congruence.
Qed.

(* what the rare pass leaves, in terms of runs of boundaries *)
Lemma fitted_runs : forall n half nan_cnt qs d bs', Sorted Z.lt qs ->
  rare_pass n half nan_cnt (qbuckets None (boundaries qs) d) = Ok bs' ->
  exists runs,
    List.concat runs = boundaries qs
    /\ Forall (fun r => r <> []) runs
    /\ Forall2 (fun b r => Permutation (b_mem b) r) bs' runs
    /\ Forall2 group_of_run (qgroups bs') runs
    /\ map b_cnt bs' = map b_cnt (qbuckets None (lasts runs) d).
Proof.
  intros n half nan_cnt qs d bs' Hs Hr.
  destruct (rare_pass_segmented _ _ _ _ _ Hr) as (segs & Hc & Hf).
  assert (Hne : Forall (fun s : list bucket => s <> []) segs).
  { clear -Hf. induction Hf as [|b s bs ss (N & _) _ IH]; constructor; assumption. }
  pose proof (boundaries_sorted qs Hs) as Hss.
  destruct (qbuckets_segs d segs None (boundaries qs) Hc Hne Hss) as (H1 & H2 & H3).
  assert (Hbr : Forall2 (fun b r => Permutation (b_mem b) r) bs' (map members segs)).
  { clear -Hf. induction Hf as [|b s bs ss (_ & _ & P) _ IH]; cbn [map]; constructor; assumption. }
  exists (map members segs). split; [exact H1|]. split; [exact H2|]. split; [exact Hbr|]. split.
  - apply qgroups_runs.
    + exact Hbr.
    + apply ss_concat_each. rewrite H1. exact Hss.
    + exact H2.
  - rewrite H3. clear -Hf. induction Hf as [|b s bs ss (_ & C & _) _ IH]; cbn [map]; [reflexivity|].
    f_equal; assumption.
Qed.

Lemma str_nan_not_boundary : forall qs, ~ In str_nan (boundaries qs).
Proof. intros qs H. apply In_boundaries in H. destruct H as [[z [E _]]|E]; discriminate E. Qed.

(* ---- 1. outcomes and well-formedness ------------------------------------------------------- *)
Theorem quantitative_fit_ok : forall mf nan_cnt d,
  (exists g, quantitative_fit true mf nan_cnt d = QFit g /\ WF g)
  \/ quantitative_fit true mf nan_cnt d = QFail QFloat
  \/ quantitative_fit true mf nan_cnt d = QFail QIndex.
Proof.
  intros mf nan_cnt d. pose proof (quantitative_fit_cases mf nan_cnt d) as C.
  destruct (q_of_min_freq mf) as [q|]; [|auto].
  destruct (find_quantiles_v true q (nrows nan_cnt d) (vcs_of d)) as [qs|e].
  - left. destruct C as (Hs & bs' & Hr & E). eexists. split; [exact E|].
    destruct (fitted_runs _ _ _ _ _ _ Hs Hr) as (runs & Hc & Hne & _ & Hg & _).
    pose proof (boundaries_sorted qs Hs) as Hss.
    pose proof (groups_values _ _ Hg) as Hv. rewrite Hc in Hv.
    apply wf_gl_of_groups.
    + rewrite (groups_fst _ _ Hg). apply ss_nodup. apply lasts_sorted; [rewrite Hc; exact Hss|exact Hne].
    + eapply Permutation_NoDup; [apply Permutation_sym; exact Hv|apply ss_nodup; exact Hss].
    + intros k vs Hin. apply (groups_own _ _ Hg k vs Hin).
    + intro Hin. apply (str_nan_not_boundary qs). eapply Permutation_in; eauto.
  - right. destruct C as [C Hf]. rewrite C. destruct e; [congruence|auto|auto].
Qed.

(* the three outcomes do occur (the last one on an aggregate with a negative count; whether
   [QFail] is reachable with positive counts and a sane min_freq is a question about binary64
   rounding in [q_position] that is NOT settled here).  In the first one the rare value 7 has been
   merged into the +inf group. *)
Example quantitative_fit_outcomes_witnessed :
  quantitative_fit true (1, -3) 2
      [(0, 7, 1); (1, 3, 1); (2, 3, 0); (3, 4, 2); (4, 6, 1); (5, 6, 3); (6, 7, 2); (7, 7, 0)]
    = QFit (mkGL [VNum 0; VNum 2; VNum 4; VNum 5; VNum 6; VPInf; str_nan]
                 [(VNum 0, [VNum 0]); (VNum 2, [VNum 2]); (VNum 4, [VNum 4]); (VNum 5, [VNum 5]);
                  (VNum 6, [VNum 6]); (VPInf, [VNum 7; VPInf]); (str_nan, [str_nan])])
  /\ quantitative_fit true (0, 0) 0 [(0, 3, 1)] = QFail QFloat
  /\ quantitative_fit true (1, -3) 0 [(0, -5, 0); (1, 3, 0)] = QFail QIndex.
Proof. repeat split; vm_compute; reflexivity. Qed.

(* ---- 2. leaders, maxima, contiguity, nothing lost ------------------------------------------ *)
Theorem quantitative_fit_leaders : forall mf nan_cnt d g,
  quantitative_fit true mf nan_cnt d = QFit g ->
  exists q qs ls runs,
    q_of_min_freq mf = Some q
    /\ find_quantiles_v true q (nrows nan_cnt d) (vcs_of d) = QOk qs
    /\ Sorted Z.lt qs
    (* leaders: increasing finite boundaries, +inf, then the sentinel iff there are missing values *)
    /\ keys g = map VNum ls ++ [VPInf] ++ nan_keys nan_cnt
    /\ Sorted Z.lt ls /\ (forall x, In x ls -> In x qs)
    /\ (In str_nan (keys g) <-> 0 < nan_cnt)
    /\ content g = non_missing_groups g ++ nan_group nan_cnt
    /\ map fst (non_missing_groups g) = map VNum ls ++ [VPInf]
    (* every leader belongs to its group and is its maximum *)
    /\ (forall k vs, In (k, vs) (content g) -> In k vs /\ forall v, In v vs -> val_leb v k = true)
    (* contiguity: the non-missing groups are, in order, consecutive non-empty runs of the boundaries,
       each led by the last (greatest) boundary of its run *)
    /\ List.concat runs = boundaries qs
    /\ Forall (fun r => r <> []) runs
    /\ Forall2 (fun kv r => Permutation (snd kv) r /\ fst kv = last r VNInf) (non_missing_groups g) runs
    (* nothing lost, nothing invented *)
    /\ Permutation (flat_map snd (non_missing_groups g)) (boundaries qs).
Proof.
  intros mf nan_cnt d g H.
  destruct (quantitative_fit_inv _ _ _ _ H) as (q & qs & bs' & Hq & Hfq & Hs & Hr & ->).
  destruct (fitted_runs _ _ _ _ _ _ Hs Hr) as (runs & Hc & Hne & _ & Hg & _).
  pose proof (boundaries_sorted qs Hs) as Hss.
  assert (Hcs : StronglySorted qlt (List.concat runs)) by (rewrite Hc; exact Hss).
  destruct (lasts_sorted runs Hcs Hne) as [HK HKsub]. rewrite Hc in HKsub.
  pose proof (groups_fst _ _ Hg) as Hfst.
  (* +inf is a leader *)
  assert (Hinf : In VPInf (lasts runs)).
  { assert (Hin : In VPInf (List.concat runs)).
    { rewrite Hc. apply In_boundaries. right. reflexivity. }
    apply in_concat in Hin. destruct Hin as (r & Hr1 & Hr2).
    assert (Sr : StronglySorted qlt r).
    { pose proof (ss_concat_each runs Hcs) as F. rewrite Forall_forall in F. auto. }
    assert (Nr : r <> []) by (rewrite Forall_forall in Hne; auto).
    destruct (ss_last_max r VNInf Sr Nr) as [_ Hmax].
    destruct (Hmax VPInf Hr2) as [E|L]; [|destruct L].
    unfold lasts. rewrite E. apply in_map_iff. exists r. split; [reflexivity|exact Hr1]. }
  destruct (leaders_shape qs (lasts runs) HK HKsub Hinf) as (ls & EK & Hls & Hlsub).
  assert (HnK : ~ In str_nan (map fst (qgroups bs'))).
  { rewrite Hfst. intro Hin. apply (str_nan_not_boundary qs). auto. }
  exists q, qs, ls, runs.
  rewrite (non_missing_groups_gl _ _ HnK), gl_of_groups_keys, gl_of_groups_content, Hfst, EK.
  split; [exact Hq|]. split; [exact Hfq|]. split; [exact Hs|].
  split; [rewrite <- app_assoc; reflexivity|]. split; [exact Hls|]. split; [exact Hlsub|].
  split.
  { rewrite <- EK. rewrite in_app_iff. unfold nan_keys. split.
    - intros [Hin|Hin]; [destruct (str_nan_not_boundary qs (HKsub _ Hin))|].
      destruct (0 <? nan_cnt) eqn:E; [apply Z.ltb_lt; exact E|destruct Hin].
    - intros Hn. apply Z.ltb_lt in Hn. rewrite Hn. right. left. reflexivity. }
  split; [reflexivity|]. split; [reflexivity|].
  split.
  { intros k vs Hin. apply in_app_or in Hin. destruct Hin as [Hin|Hin].
    - apply (groups_own _ _ Hg k vs Hin).
    - unfold nan_group in Hin. destruct (0 <? nan_cnt); [|destruct Hin].
      destruct Hin as [E|[]]. injection E as <- <-. split; [left; reflexivity|].
      intros v [<-|[]]. apply val_leb_refl. }
  split; [exact Hc|]. split; [exact Hne|]. split.
  { clear -Hg. induction Hg as [|kv r gs rs (E & P & _) _ IH]; constructor; auto. }
  rewrite <- Hc. apply groups_values. exact Hg.
Qed.

(* ---- 3. frequencies ------------------------------------------------------------------------- *)
Lemma buckets_ok_counts : forall n m bs1 bs2,
  map b_cnt bs1 = map b_cnt bs2 -> buckets_ok n m bs1 = buckets_ok n m bs2.
Proof.
  intros n m bs1 bs2 H.
  assert (G : forall bs, buckets_ok n m bs
              = (forallb (fun c => negb (fltb (fdivZ c n) m)) (map b_cnt bs)
                 || (List.length (map b_cnt bs) <=? 1)%nat)).
  { intros bs. unfold buckets_ok. rewrite map_length. f_equal.
    induction bs as [|b t IH]; cbn [map forallb]; [reflexivity|]. rewrite IH. reflexivity. }
  rewrite !G, H. reflexivity.
Qed.

(* rows held by the group of a leader: those x with  previous leader < x <= leader  (the rows that
   transform sends to that leader); [fitted_buckets] recomputes them from the fitted leaders alone,
   as the harness' checker [quant_b] does *)
Definition fitted_buckets (g : gl) (d : qdata) : list bucket := qbuckets None (non_missing (keys g)) d.

Lemma cnt_sum_counts : forall bs1 bs2, map b_cnt bs1 = map b_cnt bs2 -> cnt_sum bs1 = cnt_sum bs2.
Proof.
  assert (G : forall bs, cnt_sum bs = fold_right Z.add 0 (map b_cnt bs)).
  { induction bs as [|b t IH]; unfold cnt_sum in *; cbn [map fold_right]; [reflexivity|]. rewrite IH. reflexivity. }
  intros bs1 bs2 H. rewrite !G, H. reflexivity.
Qed.

(* every row with a (non-missing) value falls in exactly one initial bucket: +inf closes the scale *)
Lemma initial_buckets_cover : forall qs d, Sorted Z.lt qs ->
  cnt_sum (qbuckets None (boundaries qs) d) = qcount_rows d.
Proof.
  intros qs d Hs. rewrite cnt_sum_run.
  - unfold boundaries. rewrite last_last. unfold cnt. rewrite filter_all; [reflexivity|].
    intros p _. reflexivity.
  - unfold boundaries. intro E. apply app_eq_nil in E. destruct E; discriminate.
  - apply boundaries_sorted. exact Hs.
Qed.

Theorem quantitative_fit_frequencies : forall mf nan_cnt d g,
  quantitative_fit true mf nan_cnt d = QFit g ->
  let n := nrows nan_cnt d in
  let half := half_min_freq mf in
  exists q qs bs',
    q_of_min_freq mf = Some q
    /\ find_quantiles_v true q n (vcs_of d) = QOk qs
    (* the bucket-level run of [quantitative_buckets] the fitted order comes from *)
    /\ rare_pass n half nan_cnt (qbuckets None (boundaries qs) d) = Ok bs'
    /\ buckets_ok n half bs' = true
    /\ cnt_sum bs' = cnt_sum (qbuckets None (boundaries qs) d)
    (* gl-level groups = bucket-level buckets: same leaders' order, same members, same rows *)
    /\ Forall2 (fun kv b => Permutation (snd kv) (b_mem b)) (non_missing_groups g) bs'
    /\ map b_cnt (fitted_buckets g d) = map b_cnt bs'
    /\ map b_lead (fitted_buckets g d) = map fst (non_missing_groups g)
    (* hence the frequency bound on the fitted order itself; no row is lost or counted twice *)
    /\ buckets_ok n half (fitted_buckets g d) = true
    /\ cnt_sum (fitted_buckets g d) = qcount_rows d.
Proof.
  intros mf nan_cnt d g H n half.
  destruct (quantitative_fit_inv _ _ _ _ H) as (q & qs & bs' & Hq & Hfq & Hs & Hr & ->).
  fold n half in Hr. fold n in Hfq.
  destruct (quantitative_buckets n half nan_cnt (boundaries qs) d) as (bs2 & Hr2 & Hok & Hsum & Hperm & _).
  rewrite Hr in Hr2. injection Hr2 as <-.
  destruct (fitted_runs _ _ _ _ _ _ Hs Hr) as (runs & Hc & Hne & Hbr & Hg & Hcnt).
  pose proof (boundaries_sorted qs Hs) as Hss.
  assert (Hcs : StronglySorted qlt (List.concat runs)) by (rewrite Hc; exact Hss).
  destruct (lasts_sorted runs Hcs Hne) as [HK HKsub]. rewrite Hc in HKsub.
  pose proof (groups_fst _ _ Hg) as Hfst.
  assert (HnK : ~ In str_nan (lasts runs)).
  { intro Hin. apply (str_nan_not_boundary qs). auto. }
  assert (Hfb : fitted_buckets (gl_of_groups (qgroups bs') (0 <? nan_cnt)) d = qbuckets None (lasts runs) d).
  { unfold fitted_buckets. rewrite gl_of_groups_keys, Hfst, (non_missing_keys _ _ HnK). reflexivity. }
  exists q, qs, bs'. rewrite Hfb, non_missing_groups_gl by (rewrite Hfst; exact HnK).
  split; [exact Hq|]. split; [exact Hfq|].
  split; [exact Hr|]. split; [exact Hok|]. split; [exact Hsum|]. split.
  { eapply groups_buckets; eauto. }
  split; [symmetry; exact Hcnt|]. split.
  { rewrite Hfst. clear. generalize (@None val). induction (lasts runs) as [|l t IH]; intros prev;
      cbn [qbuckets map b_lead]; [reflexivity|]. f_equal. apply IH. }
  split.
  - rewrite (buckets_ok_counts n half _ bs'); [exact Hok|symmetry; exact Hcnt].
  - rewrite (cnt_sum_counts _ bs') by (symmetry; exact Hcnt).
    rewrite Hsum. apply initial_buckets_cover. exact Hs.
Qed.

(* "not rarer than fl(min_freq/2)" read as ">=": with [buckets_ok_ge] *)
Corollary quantitative_fit_frequencies_ge : forall mf nan_cnt d g,
  quantitative_fit true mf nan_cnt d = QFit g ->
  let n := nrows nan_cnt d in
  let half := half_min_freq mf in
  f_is_nan half = false ->
  (List.length (fitted_buckets g d) <= 1)%nat
  \/ (forall b, In b (fitted_buckets g d) -> f_is_nan (b_freq n b) = false -> fgeb (b_freq n b) half = true).
Proof.
  intros mf nan_cnt d g H n half Hnan.
  destruct (quantitative_fit_frequencies _ _ _ _ H) as (q & qs & bs' & _ & _ & _ & _ & _ & _ & _ & _ & Hok & _).
  apply buckets_ok_ge; assumption.
Qed.

(* ---- the model's fit satisfies the predicate the harness evaluates on the implementation ---- *)
Lemma finite_then_inf_shape : forall ls, finite_then_inf (map VNum ls ++ [VPInf]) = Some ls.
Proof.
  induction ls as [|z t IH]; [reflexivity|]. cbn [map app].
  change (finite_then_inf (VNum z :: map VNum t ++ [VPInf]))
    with (match finite_then_inf (map VNum t ++ [VPInf]) with Some l => Some (z :: l) | None => None end).
  rewrite IH. reflexivity.
Qed.

Corollary quantitative_fit_passes_checker : forall mf nan_cnt d g,
  quantitative_fit true mf nan_cnt d = QFit g ->
  exists q qs, q_of_min_freq mf = Some q
    /\ find_quantiles_v true q (nrows nan_cnt d) (vcs_of d) = QOk qs
    /\ quant_b mf nan_cnt d qs (keys g) (content g) = true.
Proof.
  intros mf nan_cnt d g H.
  destruct (quantitative_fit_leaders _ _ _ _ H)
    as (q & qs & ls & runs & Hq & Hfq & Hs & Hk & Hls & Hsub & _ & Hcont & Hfst & _ & _ & _ & _ & Hperm).
  destruct (quantitative_fit_frequencies _ _ _ _ H) as (q' & qs' & bs' & _ & _ & _ & _ & _ & _ & _ & _ & Hok & _).
  exists q, qs. split; [exact Hq|]. split; [exact Hfq|].
  assert (HnK : ~ In str_nan (map VNum ls ++ [VPInf])).
  { intro Hin. apply in_app_or in Hin. destruct Hin as [Hin|[Hin|[]]]; [|discriminate Hin].
    apply in_map_iff in Hin. destruct Hin as [z [Hz _]]. discriminate Hz. }
  assert (Hnv : ~ In str_nan (flat_map snd (non_missing_groups g))).
  { intro Hin. apply (str_nan_not_boundary qs). eapply Permutation_in; eauto. }
  unfold fitted_buckets, nrows in Hok.
  unfold quant_b. cbv zeta. rewrite (proj2 (strictly_increasing_spec qs) Hs). cbn [andb].
  rewrite Hk, app_assoc, (non_missing_keys _ _ HnK) in *. rewrite finite_then_inf_shape.
  rewrite (proj2 (strictly_increasing_spec ls) Hls), Hok. cbn [andb].
  replace (forallb (fun x => memZ x qs) ls) with true.
  2:{ symmetry. apply forallb_forall. intros x Hx. apply memZ_In. auto. }
  cbn [andb]. unfold nan_separate, has_nan_b. rewrite Hcont. unfold nan_keys, nan_group.
  destruct (0 <? nan_cnt).
  - rewrite (proj2 (mem_In _ _)) by (apply in_or_app; right; left; reflexivity). cbn [andb].
    rewrite dget_app.
    replace (dget str_nan (non_missing_groups g)) with (@None (list val)).
    2:{ symmetry. apply dget_None. unfold dkeys. rewrite Hfst. exact HnK. }
    cbn [dget]. rewrite val_eqb_refl. rewrite val_eqb_refl. cbn [andb].
    apply negb_true_iff, mem_false. intro Hin. apply Hnv.
    apply in_flat_map in Hin. destruct Hin as (kv & Hkv & Hin). apply in_flat_map. exists kv.
    destruct (val_eqb (fst kv) str_nan) eqn:E; [destruct Hin|].
    split; [|exact Hin]. apply in_app_or in Hkv. destruct Hkv as [Hkv|[<-|[]]]; [exact Hkv|].
    cbn [fst] in E. rewrite val_eqb_refl in E. discriminate.
  - rewrite !app_nil_r. rewrite (proj2 (mem_false _ _) HnK). cbn [negb andb].
    apply negb_true_iff, mem_false. exact Hnv.
Qed.

Print Assumptions quantitative_fit_ok.
Print Assumptions quantitative_fit_leaders.
Print Assumptions quantitative_fit_frequencies.
Print Assumptions quantitative_fit_frequencies_ge.
Print Assumptions quantitative_fit_passes_checker.
