(* CheckC04Proofs.v — soundness of the booleans the C04/C05 checkers evaluate on the
   IMPLEMENTATION's state: a state accepted by premises_b satisfies the hypotheses of the
   theorems of Proofs/TransformProofs.v. *)
From Coq Require Import Lia.
From AC.Model Require Import Base GroupedList CheckC13 Labels Transform FormatRule CheckC04 CheckC05.
From AC.Proofs Require Import BaseLemmas GroupedListSpec CheckC13Proofs TransformSpec.

Lemma is_finite_VNum : forall l, forallb is_finite l = true -> exists zs, l = map VNum zs.
Proof.
  induction l as [|a l IH]; intros H.
  - exists []. reflexivity.
  - cbn [forallb] in H. apply andb_true_iff in H. destruct H as [Ha Hl].
    destruct (IH Hl) as [zs Hzs]. destruct a; try discriminate Ha.
    exists (z :: zs). cbn [map]. rewrite Hzs. reflexivity.
Qed.

Theorem premises_sound : forall c,
  premises_b c = true ->
  coherent (t_fmt c) (t_state c) /\ nan_ok (t_state c) /\ sentinel (t_state c).
Proof.
  intros c H. unfold premises_b in H.
  apply andb_true_iff in H. destruct H as [H Htruthy].
  apply andb_true_iff in H. destruct H as [H Hstr].
  apply andb_true_iff in H. destruct H as [Hwf Hsent].
  split; [|split].
  - split.
    + unfold t_state, fitted_state_auto, fitted_state. cbn [st_order]. apply wf_b_spec. exact Hwf.
    + reflexivity.
  - unfold nan_ok, t_state, fitted_state_auto, fitted_state. cbn [st_nan].
    destruct (t_nan c) as [z| | |s|]; try discriminate Hstr.
    exists s. split; [reflexivity|].
    intro Hs. subst s. cbn in Htruthy. discriminate Htruthy.
  - unfold sentinel, t_state, fitted_state_auto, fitted_state. cbn [st_kind]. intro Hk.
    unfold sentinel_b in Hsent. rewrite Hk in Hsent.
    unfold quant_leaders. cbn [st_nan st_order keys t_gl].
    destruct (rev (filter (fun v => py_neq v (t_nan c)) (t_keys c))) as [|a fs] eqn:Hrev;
      [discriminate Hsent|].
    destruct a; try discriminate Hsent.
    destruct (is_finite_VNum fs Hsent) as [zs Hzs].
    exists (rev zs).
    rewrite <- (rev_involutive (filter (fun v => py_neq v (t_nan c)) (t_keys c))).
    rewrite Hrev. cbn [rev]. rewrite Hzs. rewrite map_rev. reflexivity.
Qed.
