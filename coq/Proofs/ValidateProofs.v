(* ValidateProofs.v — lemmas about the validation pipeline model (property C19). *)
From Coq Require Import List Bool Arith Lia.
Import ListNotations.
From AC.Model Require Import Validate CheckC19.

(* ------------------------------------------------------------------------------------------ *)
(* generic frame lemmas, by induction on the step list                                          *)
(* ------------------------------------------------------------------------------------------ *)

Lemma run_all_writes : forall (S : Type) (l : list (step S)) (o : obj S) (i : input),
  forallb is_write l = true -> fst (run_call l o i) = ROk.
Proof.
  intros S l; induction l as [|s r IH]; intros o i Hw; [reflexivity|].
  cbn [forallb] in Hw. apply andb_prop in Hw. destruct Hw as [Hs Hr].
  destruct s as [p|p| |w|b]; cbn [is_write] in Hs; try discriminate Hs; cbn [run_call]; apply IH; exact Hr.
Qed.

(* every fallible step precedes every write: a call that does not end in Ok changed nothing *)
Lemma reject_frame_checks_first :
  forall (S : Type) (l : list (step S)) (o o' : obj S) (i : input) (r : result),
  checks_first l = true -> run_call l o i = (r, o') -> r <> ROk -> o' = o.
Proof.
  intros S l; induction l as [|s rest IH]; intros o o' i r Hcf Hrun Hne.
  - cbn in Hrun. inversion Hrun; subst. exfalso; apply Hne; reflexivity.
  - destruct s as [p|p| |w|b]; cbn [checks_first is_write] in Hcf; cbn [run_call] in Hrun.
    + destruct (p (fitted o) i) eqn:Hp.
      * eapply IH; eauto.
      * inversion Hrun; reflexivity.
    + destruct (p (fitted o) i) eqn:Hp.
      * eapply IH; eauto.
      * inversion Hrun; reflexivity.
    + destruct (fitted o) eqn:Hf.
      * inversion Hrun; reflexivity.
      * eapply IH; eauto.
    + exfalso. apply Hne.
      pose proof (run_all_writes S rest (mkObj (fitted o) (w (state o) i)) i Hcf) as Hok.
      rewrite Hrun in Hok. exact Hok.
    + exfalso. apply Hne.
      pose proof (run_all_writes S rest (mkObj b (state o)) i Hcf) as Hok.
      rewrite Hrun in Hok. exact Hok.
Qed.

(* nothing is written before the first guard: NO call, whatever its outcome, changes a fitted
   object, and a call that contains a guard is rejected *)
Lemma frame_writes_guarded :
  forall (S : Type) (l : list (step S)) (o o' : obj S) (i : input) (r : result),
  writes_guarded l = true -> fitted o = true -> run_call l o i = (r, o') -> o' = o.
Proof.
  intros S l; induction l as [|s rest IH]; intros o o' i r Hwg Hf Hrun.
  - cbn in Hrun. inversion Hrun; reflexivity.
  - destruct s as [p|p| |w|b]; cbn [writes_guarded is_guard is_write] in Hwg; cbn [run_call] in Hrun;
      try discriminate Hwg.
    + destruct (p (fitted o) i); [eapply IH; eauto | inversion Hrun; reflexivity].
    + destruct (p (fitted o) i); [eapply IH; eauto | inversion Hrun; reflexivity].
    + rewrite Hf in Hrun. inversion Hrun; reflexivity.
Qed.

Lemma guard_first_rejects :
  forall (S : Type) (l : list (step S)) (o : obj S) (i : input),
  fitted o = true -> run_call (Guard :: l) o i = (RAssert, o).
Proof. intros S l o i Hf. cbn [run_call]. rewrite Hf. reflexivity. Qed.

(* ------------------------------------------------------------------------------------------ *)
(* a small decision procedure for the boolean side conditions                                   *)
(* ------------------------------------------------------------------------------------------ *)
Ltac bsolve :=
  repeat match goal with
  | H : true = true |- _ => clear H
  | H : false = false |- _ => clear H
  | H : false = true |- _ => discriminate H
  | H : true = false |- _ => discriminate H
  | H : andb _ _ = true |- _ => apply andb_prop in H; destruct H
  | H : orb _ _ = false |- _ => apply orb_false_elim in H; destruct H
  | H : negb _ = true |- _ => apply negb_true_iff in H
  | H : negb _ = false |- _ => apply negb_false_iff in H
  | H : ?v = true |- _ => is_var v; subst v; cbn [andb orb negb] in *
  | H : ?v = false |- _ => is_var v; subst v; cbn [andb orb negb] in *
  | H : orb _ _ = true |- _ => apply orb_prop in H; destruct H
  | H : andb _ _ = false |- _ => apply andb_false_iff in H; destruct H
  end; try congruence.

Ltac unfold_model :=
  cbv [steps fit_current pd pd_dev base_fit transform_current init_current app cls_eqb
       crash_free forallb exhibits dev_side is_carver entry_eqb has_quant_features has_ordinal_features
       c_x_frame k_cast c_cols c_y_series c_y_nan k_idx_len c_idx c_idx_len y_checked
       c_xdev_frame k_cast_dev c_dev_cols c_ydev_series c_ydev_nan c_dev_idx
       ydev_checked c_ydev_series' c_ydev_nan' c_dev_idx_len c_dev_idx' c_ydev_classes k_ydev_given k_ydev_no_str
       c_y_given c_y_01 c_two_classes c_many_classes k_y_sortable c_y_no_str c_sort_by c_no_overlap
       k_x_usable k_x_frame k_cols c_quant_numeric c_ordinal_known c_ordinal_known_fit c_multiclass_inner_orders
       gap_free mal_eqb ordinal_id_like
       x_is_frame x_is_none y_given y_is_series y_has_nan index_matches index_same_len columns_present
       dev_given xdev_is_frame ydev_is_series ydev_has_nan dev_index_matches dev_columns_present
       n_classes y_is_01 y_has_str y_all_str feature_overlap quant_has_str ordinal_unknown_value
       sort_by_ok has_ordinal ydev_given dev_index_same_len ydev_classes_ok ydev_has_str
       fitted state fitted_at] in *.

(* walks down the ifs of a run: the failing branch of a Check closes by reflexivity, the failing
   branch of a Crash and the all-passed end contradict the hypotheses *)
Ltac walk :=
  repeat match goal with
  | |- fst (if ?b then _ else _) = RAssert =>
      let E := fresh "E" in destruct b eqn:E; [| first [reflexivity | exfalso; bsolve]]
  end;
  first [reflexivity | exfalso; bsolve].

(* every guarded (class, entry point, malformed class): whatever else is wrong with the input,
   as long as it avoids the non-assertion failure points of the list, the call ends in
   AssertionError *)
Lemma reject_guarded :
  forall (S : Type) (w : S -> input -> S) (c : cls) (e : entry) (m : mal) (o : obj S) (i : input),
  guarded c e m = true ->
  fitted o = fitted_at e ->
  exhibits c e m (fitted o) i = true ->
  crash_free (steps w Current c e) (fitted o) i = true ->
  gap_free e m i = true ->
  fst (run_call (steps w Current c e) o i) = RAssert.
Proof.
  intros S w c e m o i Hg Hf Hex Hcf Hgf.
  destruct o as [f s]. cbn [fitted] in Hf, Hex, Hcf. subst f.
  destruct i as [xf xn yg ys yn im il cp dg dxf dys dyn dim dcp n y01 yhs yas fo qs ou sb ho dyg dil dco dhs oid].
  destruct e.
  - (* init *)
    destruct c, m; cbv in Hg; try discriminate Hg; clear Hg;
      unfold_model; cbn [run_call fitted state andb orb negb] in *; walk.
  - (* first fit *)
    destruct c, m; cbv in Hg; try discriminate Hg; clear Hg;
      unfold_model;
      remember (Nat.eqb n 2) as n_is_2; remember (Nat.ltb 2 n) as n_gt_2;
      cbn [run_call fitted state andb orb negb] in *; walk.
  - (* second fit: the guard *)
    destruct c; reflexivity.
  - (* transform *)
    destruct c, m; cbv in Hg; try discriminate Hg; clear Hg;
      unfold_model; cbn [run_call fitted state andb orb negb] in *; walk.
Qed.

(* ------------------------------------------------------------------------------------------ *)
(* the concrete entry points of the Current tree                                                *)
(* ------------------------------------------------------------------------------------------ *)

(* the boolean side conditions do not depend on the state type: they are evaluated on the lists
   instantiated with any write *)
Lemma current_fit_writes_guarded : forall (S : Type) (w : S -> input -> S) (c : cls),
  writes_guarded (steps w Current c ERefit) = true.
Proof. intros S w c. destruct c; reflexivity. Qed.

Lemma transform_writes_guarded : forall (S : Type) (w : S -> input -> S) (t : tree) (c : cls),
  writes_guarded (steps w t c ETransform) = true.
Proof. intros S w t c. destruct t, c; reflexivity. Qed.

Lemma transform_checks_first : forall (S : Type) (w : S -> input -> S) (t : tree) (c : cls),
  checks_first (steps w t c ETransform) = true.
Proof. intros S w t c. destruct t, c; reflexivity. Qed.

Lemma init_checks_first : forall (S : Type) (w : S -> input -> S) (t : tree) (c : cls),
  checks_first (steps w t c EInit) = true.
Proof. intros S w t c. destruct t, c; reflexivity. Qed.

(* before a2fb996 every fit list wrote before its guard *)
Lemma before_fit_not_guarded : forall (S : Type) (w : S -> input -> S) (c : cls),
  writes_guarded (steps w Before c ERefit) = false.
Proof. intros S w c. destruct c; reflexivity. Qed.

(* a fitted object is left unchanged by ANY fit or transform call, and the fit call is rejected
   with AssertionError *)
Lemma reject_frame_current :
  forall (S : Type) (w : S -> input -> S) (c : cls) (e : entry) (o o' : obj S) (i : input) (r : result),
  e = ERefit \/ e = ETransform ->
  fitted o = true ->
  run_call (steps w Current c e) o i = (r, o') ->
  o' = o /\ (e = ERefit -> r = RAssert).
Proof.
  intros S w c e o o' i r He Hf Hrun. split.
  - destruct He as [He|He]; subst e.
    + eapply frame_writes_guarded; [apply current_fit_writes_guarded | exact Hf | exact Hrun].
    + eapply frame_writes_guarded; [apply transform_writes_guarded | exact Hf | exact Hrun].
  - intros He'. subst e.
    assert (Hg : exists l, steps w Current c ERefit = Guard :: l)
      by (destruct c; eexists; reflexivity).
    destruct Hg as [l Hl]. rewrite Hl in Hrun.
    rewrite guard_first_rejects in Hrun by exact Hf. inversion Hrun; reflexivity.
Qed.

(* transform and the constructors: a rejected call changed nothing, fitted or not *)
Lemma reject_frame_transform_init :
  forall (S : Type) (w : S -> input -> S) (t : tree) (c : cls) (e : entry) (o o' : obj S) (i : input) (r : result),
  e = ETransform \/ e = EInit ->
  run_call (steps w t c e) o i = (r, o') -> r <> ROk -> o' = o.
Proof.
  intros S w t c e o o' i r He Hrun Hne.
  destruct He as [He|He]; subst e.
  - eapply reject_frame_checks_first; [apply transform_checks_first | exact Hrun | exact Hne].
  - eapply reject_frame_checks_first; [apply init_checks_first | exact Hrun | exact Hne].
Qed.

(* transform never writes: the state after ANY transform call is the state before *)
Lemma transform_never_writes :
  forall (S : Type) (w : S -> input -> S) (t : tree) (c : cls) (o o' : obj S) (i : input) (r : result),
  run_call (steps w t c ETransform) o i = (r, o') -> o' = o.
Proof.
  intros S w t c o o' i r Hrun.
  assert (Hnw : forall (l : list (step S)) (a a' : obj S) (r0 : result),
             forallb (fun s => negb (is_write s)) l = true -> run_call l a i = (r0, a') -> a' = a).
  { induction l as [|s rest IH]; intros a a' r0 Hn Hr.
    - cbn in Hr. inversion Hr; reflexivity.
    - cbn [forallb] in Hn. apply andb_prop in Hn. destruct Hn as [Hs Hrest].
      destruct s as [p|p| |w0|b]; cbn [is_write negb] in Hs; try discriminate Hs; cbn [run_call] in Hr.
      + destruct (p (fitted a) i); [eapply IH; eauto | inversion Hr; reflexivity].
      + destruct (p (fitted a) i); [eapply IH; eauto | inversion Hr; reflexivity].
      + destruct (fitted a); [inversion Hr; reflexivity | eapply IH; eauto]. }
  eapply Hnw; [| exact Hrun]. destruct t, c; reflexivity.
Qed.

(* ------------------------------------------------------------------------------------------ *)
(* the places where the current code has no assertion (in scope, not guarded)                   *)
(* ------------------------------------------------------------------------------------------ *)
Definition all_triples : list (cls * entry * mal) :=
  flat_map (fun c => flat_map (fun e => map (fun m => (c, e, m)) all_mals) all_entries) all_cls.

Lemma all_triples_complete : forall c e m, m <> MNone -> In (c, e, m) all_triples.
Proof.
  intros c e m Hm. unfold all_triples.
  apply in_flat_map. exists c. split; [destruct c; cbn; tauto|].
  apply in_flat_map. exists e. split; [destruct e; cbn; tauto|].
  apply in_map. destruct m; cbn; try tauto.
Qed.

Lemma unguarded_all_refuted_b :
  forallb (fun t => let '(c, e, m) := t in
             implb (in_scope c e m && negb (guarded c e m))
                   (exhibits c e m (fitted_at e) (inject m (valid_input c false true)) &&
                    negb (result_eqb (gap_result c e m) RAssert))) all_triples = true.
Proof. vm_compute. reflexivity. Qed.

(* every in-scope triple that is not guarded has a single-fault input which the call does not
   reject with AssertionError *)
Lemma unguarded_refuted : forall c e m,
  in_scope c e m = true -> guarded c e m = false ->
  exists i : input,
    exhibits c e m (fitted_at e) i = true /\
    fst (run_call (csteps Current c e) (mkObj (fitted_at e) 0) i) <> RAssert.
Proof.
  intros c e m Hs Hg.
  assert (Hm : m <> MNone) by (intro; subst m; destruct e; cbn in Hs; discriminate Hs).
  pose proof (proj1 (forallb_forall _ _) unguarded_all_refuted_b (c, e, m) (all_triples_complete c e m Hm)) as H.
  cbn beta iota in H. rewrite Hs, Hg in H. cbn [negb andb implb] in H.
  apply andb_prop in H. destruct H as [H1 H2].
  exists (inject m (valid_input c false true)). split; [exact H1|].
  unfold gap_result in H2. intro Heq. rewrite Heq in H2. cbn in H2. discriminate H2.
Qed.

(* known findings: OrdinalDiscretizer.fit accepts a value absent from the ranking; a str cell in
   a quantitative column at transform raises from numpy *)
Lemma unguarded_list :
  filter (fun t => let '(c, e, m) := t in in_scope c e m && negb (guarded c e m)) all_triples =
  [(KDiscretizer, ETransform, MQuantStr); (KQuantitative, ETransform, MQuantStr);
   (KOrdinal, EFit, MOrdinalUnknown); (KContinuous, ETransform, MQuantStr);
   (KBinary, ETransform, MQuantStr); (KContinuousCarver, ETransform, MQuantStr);
   (KMulticlass, ETransform, MQuantStr)].
Proof. vm_compute. reflexivity. Qed.

(* inside guarded triples one variant still hits a non-assertion failure point: X is None
   (known finding), for every class *)
Lemma crash_gaps_refuted :
  forallb (fun t => let '(c, e, m, i) := t in
             guarded c e m && exhibits c e m false i &&
             result_eqb (fst (run_call (csteps Current c e) (mkObj false 0) i)) ROther)
          crash_gap_witnesses = true /\ length crash_gap_witnesses = 9.
Proof. split; vm_compute; reflexivity. Qed.

(* known finding O48: the value absent from the ranking of an id-like ordinal feature is accepted
   by the first fit of every class that prepares its qualitative features with
   QualitativeDiscretizer (the hypothesis gap_free of reject_guarded is necessary) *)
Lemma id_like_gap_refuted :
  forallb (fun c =>
     let i := set_ordinal_unknown_id_like (valid_input c false true) in
     guarded c EFit MOrdinalUnknown && exhibits c EFit MOrdinalUnknown false i &&
     crash_free (csteps Current c EFit) false i && negb (gap_free EFit MOrdinalUnknown i) &&
     result_eqb (fst (run_call (csteps Current c EFit) (mkObj false 0) i)) ROk) id_like_classes = true.
Proof. vm_compute. reflexivity. Qed.

(* the dev-target variants repaired by 9e3db28 are rejected with AssertionError *)
Lemma dev_target_rejected :
  forallb (fun t => let '(c, e, m, i) := t in
             guarded c e m && exhibits c e m false i &&
             crash_free (csteps Current c e) false i && gap_free e m i &&
             result_eqb (fst (run_call (csteps Current c e) (mkObj false 0) i)) RAssert)
          dev_target_witnesses = true.
Proof. vm_compute. reflexivity. Qed.

(* ------------------------------------------------------------------------------------------ *)
(* historical records: the tree BEFORE the fix commits                                          *)
(* ------------------------------------------------------------------------------------------ *)
(* O5: a valid second fit of a fitted BinaryCarver was rejected AFTER the object was rewritten *)
Lemma before_fix_refit_refuted :
  exists (i : input) (o o' : obj nat),
    fitted o = true /\
    run_call (csteps Before KBinary ERefit) o i = (RAssert, o') /\
    state o' <> state o.
Proof.
  exists (valid_input KBinary false true), (mkObj true 0), (mkObj true 2).
  split; [reflexivity|]. split; [vm_compute; reflexivity | cbn; discriminate].
Qed.

(* ... and so for every class; MulticlassCarver without ordinal feature accepted it (the
   constructor call inside fit reset is_fitted) *)
Lemma before_fix_refit_all_classes_refuted : forall c : cls,
  exists (o' : obj nat) (r : result),
    run_call (csteps Before c ERefit) (mkObj true 0) (valid_input c false false) = (r, o') /\
    state o' <> 0 /\ (r = ROk <-> c = KMulticlass).
Proof.
  intros c; destruct c;
    match goal with
    | |- exists o' r, ?run = _ /\ _ =>
        let v := eval vm_compute in run in
        exists (snd v), (fst v); split; [vm_compute; reflexivity | split; [cbn; discriminate |]]
    end; split; intro H; try discriminate H; reflexivity.
Qed.

(* what the fix commits repaired: the triples guarded now on whose single-fault input (object
   without ordinal feature) the Before tree did not answer "AssertionError, object unchanged" *)
Definition repaired_by_fix (t : cls * entry * mal) : bool :=
  let '(c, e, m) := t in
  guarded c e m &&
  let '(r, o') := gap_result_before c e m in
  negb (result_eqb r RAssert && (negb (fitted_at e) || Nat.eqb (state o') 0)).

Lemma before_fix_repaired_triples :
  filter repaired_by_fix all_triples =
  [(KDiscretizer, EInit, MFeatureOverlap); (KDiscretizer, ERefit, MQuantStr);
   (KDiscretizer, ERefit, MSecondFit); (KQuantitative, ERefit, MSecondFit);
   (KQualitative, ERefit, MOrdinalUnknown); (KQualitative, ERefit, MSecondFit);
   (KOrdinal, ERefit, MOrdinalUnknown); (KOrdinal, ERefit, MSecondFit);
   (KCategorical, ERefit, MSecondFit);
   (KContinuous, EFit, MXNotFrame); (KContinuous, EFit, MYNotSeries); (KContinuous, EFit, MYNaN);
   (KContinuous, EFit, MIndexMismatch); (KContinuous, EFit, MMissingCol); (KContinuous, EFit, MQuantStr);
   (KContinuous, ERefit, MXNotFrame); (KContinuous, ERefit, MYNotSeries); (KContinuous, ERefit, MYNaN);
   (KContinuous, ERefit, MIndexMismatch); (KContinuous, ERefit, MMissingCol); (KContinuous, ERefit, MQuantStr);
   (KContinuous, ERefit, MSecondFit); (KBinary, ERefit, MSecondFit); (KContinuousCarver, ERefit, MSecondFit);
   (KMulticlass, ERefit, MMissingCol); (KMulticlass, ERefit, MSecondFit);
   (KMulticlass, ETransform, MMissingCol)].
Proof. vm_compute. reflexivity. Qed.

(* ... and the variants that raised something else inside guarded triples: y shorter than X, a
   continuous target mixing str and numbers (X is None still does, see crash_gaps_refuted) *)
Lemma before_fix_crash_gaps :
  forallb (fun t => let '(c, e, m, i) := t in
             exhibits c e m false i &&
             result_eqb (fst (run_call (csteps Before c e) (mkObj false 0) i)) ROther)
          crash_gap_witnesses_before = true /\
  forallb (fun t => let '(c, e, m, i) := t in
             negb (mal_eqb m MXNotFrame) ||
             result_eqb (fst (run_call (csteps Current c e) (mkObj false 0) i)) ROther)
          crash_gap_witnesses_before = true /\
  forallb (fun t => let '(c, e, m, i) := t in
             mal_eqb m MXNotFrame ||
             result_eqb (fst (run_call (csteps Current c e) (mkObj false 0) i)) RAssert)
          crash_gap_witnesses_before = true.
Proof. repeat split; vm_compute; reflexivity. Qed.

(* ------------------------------------------------------------------------------------------ *)
(* non-vacuity: a valid call passes every check                                                 *)
(* ------------------------------------------------------------------------------------------ *)
Lemma accept_valid : forall (c : cls) (dev ordinal : bool) (t : tree),
  run_call (csteps t c EInit) (mkObj false 0) (valid_input c dev ordinal) = (ROk, mkObj false 1) /\
  (exists n, run_call (csteps t c EFit) (mkObj false 0) (valid_input c dev ordinal) = (ROk, mkObj true n)) /\
  run_call (csteps t c ETransform) (mkObj true 5) (valid_input c dev ordinal) = (ROk, mkObj true 5) /\
  crash_free (csteps t c EFit) false (valid_input c dev ordinal) = true /\
  forallb (fun m => negb (exhibits c EFit m false (valid_input c dev ordinal))) all_mals = true.
Proof.
  intros c dev ordinal t.
  destruct c, dev, ordinal, t; (split; [vm_compute; reflexivity|]);
    (split; [eexists; vm_compute; reflexivity|]); repeat split; vm_compute; reflexivity.
Qed.

(* ------------------------------------------------------------------------------------------ *)
(* the checker                                                                                  *)
(* ------------------------------------------------------------------------------------------ *)
Lemma verdict19_zero_sound : forall k : case19,
  verdict19 k = 0 ->
  in_domain k = true /\ prop19 k = true /\ agree Current k = true.
Proof.
  intros k H. unfold verdict19 in H.
  destruct (in_domain k); cbn [negb] in H; [|discriminate H].
  destruct (prop19 k); cbn [negb] in H; [|discriminate H].
  destruct (agree Current k); [tauto | discriminate H].
Qed.

(* prop19 says what C19 says: a malformed call was answered with AssertionError and an object
   fitted before the call is observably what it was *)
Lemma prop19_spec : forall k : case19,
  prop19 k = true -> k_mal k <> MNone ->
  k_result k = RAssert /\ (k_fitted k = true -> k_unchanged k = true).
Proof.
  intros k H Hm. unfold prop19 in H.
  destruct (k_mal k); try (exfalso; apply Hm; reflexivity);
    apply andb_prop in H; destruct H as [H1 H2];
    (split; [destruct (k_result k); cbn in H1; try discriminate H1; reflexivity
            | intro Hf; rewrite Hf in H2; exact H2]).
Qed.
