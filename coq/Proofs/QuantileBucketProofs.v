(* QuantileBucketProofs.v — how many training rows a quantile bucket of ContinuousDiscretizer can hold
   (property C09, clause "no bucket free of over-represented values holds more than 2.5*min_freq of
   the rows").  Model: Model/Quantiles.v (np_find_quantiles / find_quantiles).

   A — counting rows of a (value, count) aggregate below a value / inside a bucket (lo, hi]
   B — nth_sorted: the j-th smallest row has value v  ->  #rows < v  <=  j  <  #rows <= v
   C — a run of sorted positions free of picked positions is not longer than the largest gap
   D — one leaf (no over-represented value): rows of every bucket ending at a picked quantile
   E — lifting through the segments between over-represented values, sort and unique
   F — closed forms in len_df and q, the literal 2.5*min_freq statement and its counterexample *)
From Coq Require Import ZArith List Bool Lia ZifyBool Sorted Permutation SpecFloat.
From AC.Model Require Import Base Float GroupedList Quantiles.
From AC.Proofs Require Import DiscretizeProofs.
Import ListNotations.
Open Scope Z_scope.
Open Scope list_scope.

(* ============================================================================================ *)
(* A — counting                                                                                   *)
(* ============================================================================================ *)
Definition above (lo : option Z) (x : Z) : bool := match lo with None => true | Some l => l <? x end.
Definition upto (hi : option Z) (x : Z) : bool := match hi with None => true | Some h => x <=? h end.

(* rows whose value lies in (lo, hi]; lo = None: no lower end, hi = None: the bucket closed by +inf *)
Definition bucket_count (vc : vcs) (lo hi : option Z) : Z :=
  total (filter (fun p => above lo (fst p) && upto hi (fst p)) vc).

Definition cnt_le (vc : vcs) (x : Z) : Z := total (filter (fun p => fst p <=? x) vc).
Definition cnt_lt (vc : vcs) (x : Z) : Z := total (filter (fun p => fst p <? x) vc).

(* numpy.unique: values strictly increasing, counts positive *)
Definition wf_vc (vc : vcs) : Prop := StronglySorted Z.lt (map fst vc) /\ Forall (fun p => 0 < snd p) vc.

Lemma total_cons : forall p t, total (p :: t) = snd p + total t.
Proof. reflexivity. Qed.

Lemma total_app : forall a b, total (a ++ b) = total a + total b.
Proof. induction a as [|p a IH]; intros b; [reflexivity|]. cbn [app]. rewrite !total_cons, IH. lia. Qed.

Lemma pos_filter : forall (f : Z * Z -> bool) vc,
  Forall (fun p => 0 < snd p) vc -> Forall (fun p => 0 < snd p) (filter f vc).
Proof.
  intros f vc H. apply Forall_forall. intros p Hp. apply filter_In in Hp.
  rewrite Forall_forall in H. apply H. tauto.
Qed.

Lemma total_nonneg : forall vc, Forall (fun p => 0 < snd p) vc -> 0 <= total vc.
Proof. induction 1 as [|p t Hp _ IH]; [cbn; lia|]. rewrite total_cons. lia. Qed.

Lemma total_pos : forall vc, Forall (fun p => 0 < snd p) vc -> vc <> [] -> 0 < total vc.
Proof.
  intros vc H Hne. destruct vc as [|p t]; [congruence|]. inversion H as [|? ? Hp Ht]; subst.
  rewrite total_cons. pose proof (total_nonneg t Ht). lia.
Qed.

(* monotonicity in the predicate *)
Lemma total_filter_mono : forall (f g : Z * Z -> bool) vc,
  Forall (fun p => 0 < snd p) vc -> (forall p, In p vc -> f p = true -> g p = true) ->
  total (filter f vc) <= total (filter g vc).
Proof.
  intros f g vc H. induction H as [|p t Hp Ht IH]; intros Hfg; [cbn; lia|].
  assert (IH' : total (filter f t) <= total (filter g t)).
  { apply IH. intros; apply Hfg; [right|]; assumption. }
  cbn [filter]. destruct (f p) eqn:Ef.
  - rewrite (Hfg p (or_introl eq_refl) Ef). rewrite !total_cons. lia.
  - destruct (g p); rewrite ?total_cons; lia.
Qed.

Lemma total_filter_ext : forall (f g : Z * Z -> bool) vc,
  (forall p, In p vc -> f p = g p) -> total (filter f vc) = total (filter g vc).
Proof.
  intros f g. induction vc as [|p t IH]; intros H; [reflexivity|]. cbn [filter].
  rewrite (H p (or_introl eq_refl)).
  assert (IH' : total (filter f t) = total (filter g t)) by (apply IH; intros; apply H; right; assumption).
  destruct (g p); rewrite ?total_cons; lia.
Qed.

Lemma total_filter_le_total : forall (f : Z * Z -> bool) vc,
  Forall (fun p => 0 < snd p) vc -> total (filter f vc) <= total vc.
Proof.
  intros f vc H. induction H as [|p t Hp _ IH]; [cbn; lia|]. cbn [filter].
  destruct (f p); rewrite ?total_cons; lia.
Qed.

(* disjoint union *)
Lemma total_filter_split : forall (f g h : Z * Z -> bool) vc,
  (forall p, In p vc -> Z.b2z (h p) = Z.b2z (f p) + Z.b2z (g p)) ->
  total (filter h vc) = total (filter f vc) + total (filter g vc).
Proof.
  intros f g h. induction vc as [|p t IH]; intros H; [reflexivity|].
  assert (IH' : total (filter h t) = total (filter f t) + total (filter g t)).
  { apply IH. intros; apply H; right; assumption. }
  pose proof (H p (or_introl eq_refl)) as E. cbn [filter].
  destruct (h p), (f p), (g p); cbn [Z.b2z] in E; try lia; rewrite ?total_cons; lia.
Qed.

Lemma filter_filter : forall (A : Type) (f g : A -> bool) l,
  filter f (filter g l) = filter (fun x => f x && g x) l.
Proof.
  intros A f g. induction l as [|x t IH]; [reflexivity|]. cbn [filter].
  destruct (g x); cbn [filter]; rewrite IH; [|rewrite andb_false_r; reflexivity].
  rewrite andb_true_r. reflexivity.
Qed.

Lemma cnt_lt_le : forall vc x, Forall (fun p => 0 < snd p) vc -> cnt_lt vc x <= cnt_le vc x.
Proof. intros vc x H. apply total_filter_mono; [exact H|]. intros p _ E. lia. Qed.

Lemma cnt_le_mono : forall vc x y, Forall (fun p => 0 < snd p) vc -> x <= y -> cnt_le vc x <= cnt_le vc y.
Proof. intros vc x y H Hxy. apply total_filter_mono; [exact H|]. intros p _ E. lia. Qed.

Lemma cnt_lt_mono : forall vc x y, Forall (fun p => 0 < snd p) vc -> x <= y -> cnt_lt vc x <= cnt_lt vc y.
Proof. intros vc x y H Hxy. apply total_filter_mono; [exact H|]. intros p _ E. lia. Qed.

Lemma cnt_le_lt : forall vc x y, Forall (fun p => 0 < snd p) vc -> x < y -> cnt_le vc x <= cnt_lt vc y.
Proof. intros vc x y H Hxy. apply total_filter_mono; [exact H|]. intros p _ E. lia. Qed.

Lemma cnt_le_total : forall vc x, Forall (fun p => 0 < snd p) vc -> cnt_le vc x <= total vc.
Proof. intros. apply total_filter_le_total. assumption. Qed.

Lemma cnt_lt_nonneg : forall vc x, Forall (fun p => 0 < snd p) vc -> 0 <= cnt_lt vc x.
Proof. intros. apply total_nonneg, pos_filter. assumption. Qed.

Lemma cnt_le_nonneg : forall vc x, Forall (fun p => 0 < snd p) vc -> 0 <= cnt_le vc x.
Proof. intros. apply total_nonneg, pos_filter. assumption. Qed.

(* the rows of one value *)
Lemma cnt_le_eq_lt_plus : forall vc x c, NoDup (map fst vc) -> In (x, c) vc ->
  cnt_le vc x = cnt_lt vc x + c.
Proof.
  induction vc as [|[w k] t IH]; intros x c Hnd Hin; [contradiction|].
  cbn [map fst] in Hnd. inversion Hnd as [|? ? Hw Hnd']; subst.
  unfold cnt_le, cnt_lt in *. cbn [filter fst]. destruct Hin as [E|Hin].
  - injection E as -> ->.
    assert (Hne : forall p, In p t -> fst p <> x).
    { intros p Hp E. apply Hw. rewrite <- E. apply in_map. exact Hp. }
    rewrite Z.leb_refl, Z.ltb_irrefl, total_cons. cbn [snd].
    rewrite (total_filter_ext (fun p => fst p <=? x) (fun p => fst p <? x) t); [lia|].
    intros p Hp. specialize (Hne p Hp). lia.
  - specialize (IH x c Hnd' Hin).
    assert (w <> x). { intro E. subst w. apply Hw. change x with (fst (x, c)). apply in_map. exact Hin. }
    destruct (w <=? x) eqn:E1, (w <? x) eqn:E2; try lia; rewrite ?total_cons; cbn [snd]; lia.
Qed.

Lemma ss_lt_nodup : forall l, StronglySorted Z.lt l -> NoDup l.
Proof.
  induction 1 as [|a l _ IH Hf]; constructor; [|exact IH].
  intro Hin. rewrite Forall_forall in Hf. specialize (Hf a Hin). lia.
Qed.

Lemma bucket_count_diff : forall vc a b, a <= b ->
  bucket_count vc (Some a) (Some b) = cnt_le vc b - cnt_le vc a.
Proof.
  intros vc a b Hab. unfold bucket_count, cnt_le.
  rewrite (total_filter_split (fun p => fst p <=? a) (fun p => above (Some a) (fst p) && upto (Some b) (fst p))
                              (fun p => fst p <=? b) vc); [lia|].
  intros p _. cbn [above upto]. destruct (fst p <=? a) eqn:E1, (fst p <=? b) eqn:E2, (a <? fst p) eqn:E3;
    cbn; lia.
Qed.

Lemma bucket_count_first : forall vc b, bucket_count vc None (Some b) = cnt_le vc b.
Proof. intros. unfold bucket_count, cnt_le. apply total_filter_ext. intros p _. reflexivity. Qed.

Lemma bucket_count_last : forall vc a, bucket_count vc (Some a) None = total vc - cnt_le vc a.
Proof.
  intros vc a. unfold bucket_count, cnt_le.
  assert (E : total vc = total (filter (fun _ => true) vc)).
  { f_equal. symmetry. apply filter_all. reflexivity. }
  rewrite E.
  rewrite (total_filter_split (fun p => fst p <=? a) (fun p => above (Some a) (fst p) && upto None (fst p))
                              (fun _ => true) vc); [lia|].
  intros p _. cbn [above upto]. destruct (fst p <=? a) eqn:E1, (a <? fst p) eqn:E3; cbn; lia.
Qed.

Lemma bucket_count_all : forall vc, bucket_count vc None None = total vc.
Proof. intros. unfold bucket_count. f_equal. apply filter_all. reflexivity. Qed.

Lemma bucket_count_nonneg : forall vc lo hi, Forall (fun p => 0 < snd p) vc -> 0 <= bucket_count vc lo hi.
Proof. intros. apply total_nonneg, pos_filter. assumption. Qed.

(* a lower left end gives a bigger bucket *)
Lemma bucket_count_antitone : forall vc a a' hi, Forall (fun p => 0 < snd p) vc -> a' <= a ->
  bucket_count vc (Some a) hi <= bucket_count vc (Some a') hi.
Proof.
  intros vc a a' hi H Ha. apply total_filter_mono; [exact H|]. intros p _. cbn [above].
  destruct (upto hi (fst p)); lia.
Qed.

Lemma bucket_count_antitone_none : forall vc a hi, Forall (fun p => 0 < snd p) vc ->
  bucket_count vc (Some a) hi <= bucket_count vc None hi.
Proof.
  intros vc a hi H. apply total_filter_mono; [exact H|]. intros p _. cbn [above].
  destruct (upto hi (fst p)); lia.
Qed.

(* ============================================================================================ *)
(* B — nth_sorted                                                                                 *)
(* ============================================================================================ *)
Lemma wf_vc_tail : forall p t, wf_vc (p :: t) -> wf_vc t.
Proof.
  intros p t [Hs Hp]. cbn [map] in Hs. inversion Hs; inversion Hp; subst. split; assumption.
Qed.

Lemma nth_sorted_spec : forall vc j v, wf_vc vc -> 0 <= j -> nth_sorted vc j = Some v ->
  cnt_lt vc v <= j < cnt_le vc v.
Proof.
  induction vc as [|[w c] t IH]; intros j v Hwf Hj H; cbn [nth_sorted] in H; [discriminate|].
  pose proof (wf_vc_tail _ _ Hwf) as Hwt. destruct Hwf as [Hs Hp].
  cbn [map fst] in Hs. inversion Hs as [|? ? Hs' Hlt]; subst. inversion Hp as [|? ? Hc Hp']; subst.
  cbn [snd] in Hc. rewrite Forall_forall in Hlt.
  unfold cnt_lt, cnt_le in *. cbn [filter fst].
  destruct (j <? c) eqn:Ejc.
  - injection H as <-. rewrite Z.ltb_irrefl, Z.leb_refl, total_cons. cbn [snd].
    rewrite (total_filter_ext (fun p => fst p <? w) (fun _ => false) t).
    2:{ intros p Hp0. specialize (Hlt (fst p) (in_map fst _ _ Hp0)). lia. }
    rewrite (total_filter_ext (fun p => fst p <=? w) (fun _ => false) t).
    2:{ intros p Hp0. specialize (Hlt (fst p) (in_map fst _ _ Hp0)). lia. }
    assert (E : filter (fun _ : Z * Z => false) t = []).
    { clear. induction t; [reflexivity|]. cbn. assumption. }
    rewrite E. cbn [total fold_right]. lia.
  - assert (Hv : In v (map fst t)) by (eapply nth_sorted_In; eauto).
    specialize (Hlt v Hv). specialize (IH (j - c) v Hwt ltac:(lia) H).
    assert (E1 : (w <? v) = true) by lia. assert (E2 : (w <=? v) = true) by lia.
    rewrite E1, E2, !total_cons. cbn [snd]. lia.
Qed.

Lemma nth_sorted_total : forall vc j, wf_vc vc -> 0 <= j < total vc -> exists v, nth_sorted vc j = Some v.
Proof.
  induction vc as [|[w c] t IH]; intros j Hwf Hj; [cbn in Hj; lia|].
  cbn [nth_sorted]. destruct (j <? c) eqn:E; [eauto|].
  apply IH; [eapply wf_vc_tail; eauto|]. rewrite total_cons in Hj. cbn [snd] in Hj. lia.
Qed.

(* the value sitting at a position between #rows<=a and #rows<b is strictly between a and b *)
Lemma nth_sorted_between : forall vc j v a b, wf_vc vc -> 0 <= j -> nth_sorted vc j = Some v ->
  cnt_le vc a <= j -> j < cnt_lt vc b -> a < v < b.
Proof.
  intros vc j v a b Hwf Hj H Ha Hb. destruct (nth_sorted_spec vc j v Hwf Hj H) as [H1 H2].
  destruct Hwf as [_ Hp]. split.
  - destruct (Z.lt_ge_cases a v) as [L|G]; [exact L|].
    pose proof (cnt_le_mono vc v a Hp G). lia.
  - destruct (Z.lt_ge_cases v b) as [L|G]; [exact L|].
    pose proof (cnt_lt_mono vc b v Hp G). lia.
Qed.

Lemma nth_sorted_lt : forall vc j v b, wf_vc vc -> 0 <= j -> nth_sorted vc j = Some v ->
  j < cnt_lt vc b -> v < b.
Proof.
  intros vc j v b Hwf Hj H Hb. destruct (nth_sorted_spec vc j v Hwf Hj H) as [H1 H2].
  destruct Hwf as [_ Hp]. destruct (Z.lt_ge_cases v b) as [L|G]; [exact L|].
  pose proof (cnt_lt_mono vc b v Hp G). lia.
Qed.

Lemma nth_sorted_gt : forall vc j v a, wf_vc vc -> 0 <= j -> nth_sorted vc j = Some v ->
  cnt_le vc a <= j -> a < v.
Proof.
  intros vc j v a Hwf Hj H Ha. destruct (nth_sorted_spec vc j v Hwf Hj H) as [H1 H2].
  destruct Hwf as [_ Hp]. destruct (Z.lt_ge_cases a v) as [L|G]; [exact L|].
  pose proof (cnt_le_mono vc v a Hp G). lia.
Qed.

(* ============================================================================================ *)
(* C — runs of positions free of picked positions                                                 *)
(* ============================================================================================ *)
(* pos 1 .. pos m are the picked positions (in any order); a run [s, e) of positions that contains
   none of them is not longer than D as soon as D bounds the number of positions before pos 1,
   strictly between two consecutive picks, and (when the last pick lies before the run) after it *)
Lemma free_run_bound : forall (m : Z) (pos : Z -> Z) (s e D : Z),
  1 <= m -> 0 <= s ->
  (forall i, 1 <= i <= m -> ~ (s <= pos i < e)) ->
  pos 1 <= D ->
  (forall i, 1 <= i < m -> pos (i + 1) - pos i - 1 <= D) ->
  (pos m < s -> e - 1 - pos m <= D) ->
  e - s <= D.
Proof.
  intros m pos s e D Hm Hs Hfree H1 Hmid Htail.
  assert (Aux : forall k : nat, forall i, 1 <= i <= m -> m - i <= Z.of_nat k -> pos i < s -> e - s <= D).
  { induction k as [|k IH]; intros i Hi Hk Hp.
    - assert (i = m) by lia. subst i. specialize (Htail Hp). lia.
    - destruct (Z.eq_dec i m) as [->|Hne]; [specialize (Htail Hp); lia|].
      destruct (Z.lt_ge_cases (pos (i + 1)) s) as [L|G].
      + apply (IH (i + 1)); [lia|lia|exact L].
      + assert (Hi1 : 1 <= i + 1 <= m) by lia. specialize (Hfree (i + 1) Hi1).
        assert (Hi2 : 1 <= i < m) by lia. specialize (Hmid i Hi2). lia. }
  destruct (Z.lt_ge_cases (pos 1) s) as [L|G].
  - apply (Aux (Z.to_nat m) 1); [lia|lia|exact L].
  - assert (Hi1 : 1 <= 1 <= m) by lia. specialize (Hfree 1 Hi1). lia.
Qed.

(* the computed position j of the i-th of nq quantiles among n sorted rows is within e of
   floor((n-1)*i/nq); e = 0: exactly the floor *)
Definition near (e n nq i j : Z) : Prop :=
  nq * j <= (n - 1) * i + e * nq /\ (n - 1) * i < nq * (j + 1 + e).

Lemma div_spec : forall a b, 0 < b -> b * (a / b) <= a < b * (a / b + 1).
Proof.
  intros a b Hb. pose proof (Z.div_mod a b ltac:(lia)) as E.
  pose proof (Z.mod_pos_bound a b Hb). lia.
Qed.

Lemma lt_of_mul_lt : forall k x y, 0 < k -> k * x < k * y -> x < y.
Proof. intros k x y Hk H. apply (Z.mul_lt_mono_pos_l k); assumption. Qed.

Lemma near_first : forall e n nq j, 0 < nq -> 0 <= e -> near e n nq 1 j -> j <= (n - 1) / nq + e.
Proof.
  intros e n nq j Hnq He [H1 _]. destruct (div_spec (n - 1) nq Hnq) as [_ G2].
  set (G := (n - 1) / nq) in *.
  assert (L : nq * j < nq * (G + 1 + e)) by lia. apply lt_of_mul_lt in L; lia.
Qed.

Lemma near_mid : forall e n nq i j j', 0 < nq -> 0 <= e -> near e n nq i j -> near e n nq (i + 1) j' ->
  j' - j - 1 <= (n - 1) / nq + 2 * e.
Proof.
  intros e n nq i j j' Hnq He [_ H2] [H1 _]. destruct (div_spec (n - 1) nq Hnq) as [_ G2].
  set (G := (n - 1) / nq) in *.
  assert (L : nq * (j' - j - 1) < nq * (G + 1 + 2 * e)) by lia. apply lt_of_mul_lt in L; lia.
Qed.

Lemma near_last : forall e n nq j, 0 < nq -> 0 <= e -> near e n nq (nq - 1) j ->
  n - 1 - j <= (n - 1) / nq + 1 + e.
Proof.
  intros e n nq j Hnq He [_ H2]. destruct (div_spec (n - 1) nq Hnq) as [_ G2].
  set (G := (n - 1) / nq) in *.
  assert (L : nq * (n - 1 - j) < nq * (G + 2 + e)) by lia. apply lt_of_mul_lt in L; lia.
Qed.

(* ============================================================================================ *)
(* D — one leaf                                                                                   *)
(* ============================================================================================ *)
Lemma In_range1 : forall k i, In i (range1 k) <-> 1 <= i <= k.
Proof.
  intros k i. unfold range1. rewrite in_map_iff. split.
  - intros [x [<- Hx]]. apply in_seq in Hx. lia.
  - intros H. exists (Z.to_nat i). split; [lia|]. apply in_seq. lia.
Qed.

Lemma Forall2_in_l : forall (A B : Type) (P : A -> B -> Prop) l r x,
  Forall2 P l r -> In x l -> exists y, In y r /\ P x y.
Proof.
  intros A B P l r x H. induction H as [|a b l r Hab _ IH]; intros Hx; [contradiction|].
  destruct Hx as [<-|Hx]; [exists b; split; [left; reflexivity|exact Hab]|].
  destruct (IH Hx) as [y [Hy Hp]]. exists y. split; [right; exact Hy|exact Hp].
Qed.

Lemma Forall2_in_r : forall (A B : Type) (P : A -> B -> Prop) l r y,
  Forall2 P l r -> In y r -> exists x, In x l /\ P x y.
Proof.
  intros A B P l r y H. induction H as [|a b l r Hab _ IH]; intros Hy; [contradiction|].
  destruct Hy as [<-|Hy]; [exists a; split; [left; reflexivity|exact Hab]|].
  destruct (IH Hy) as [x [Hx Hp]]. exists x. split; [right; exact Hx|exact Hp].
Qed.

Lemma pick_inv : forall vc n nq i v, pick vc n nq i = QOk v ->
  exists j, q_position n nq i = Some j /\ 0 <= j /\ nth_sorted vc j = Some v.
Proof.
  intros vc n nq i v H. unfold pick in H. destruct (q_position n nq i) as [j|]; [|discriminate].
  destruct (j <? 0) eqn:Ej; [discriminate|].
  destruct (nth_sorted vc j) as [w|] eqn:E; [|discriminate]. injection H as <-.
  exists j. repeat split; [lia|exact E].
Qed.

(* a leaf that cuts: every i in 1..nq-1 yields a pick, every boundary is a pick *)
Lemma leaf_picks : forall q N seg r nq,
  new_q_of q N (total seg) = Some nq -> 1 < nq -> leaf q N seg = QOk r ->
  (forall i, 1 <= i <= nq - 1 -> exists j v,
      q_position (total seg) nq i = Some j /\ 0 <= j /\ nth_sorted seg j = Some v /\ In v r)
  /\ (forall v, In v r -> exists i j,
      1 <= i <= nq - 1 /\ q_position (total seg) nq i = Some j /\ 0 <= j /\ nth_sorted seg j = Some v).
Proof.
  intros q N seg r nq Hq Hnq H. unfold leaf in H. rewrite Hq in H.
  assert (E : (1 <? nq) = true) by lia. rewrite E in H. apply mapM_ok in H. split.
  - intros i Hi. apply In_range1 in Hi. destruct (Forall2_in_l _ _ _ _ _ _ H Hi) as [v [Hv Hp]].
    destruct (pick_inv _ _ _ _ _ Hp) as [j (H1 & H2 & H3)]. exists j, v. auto.
  - intros v Hv. destruct (Forall2_in_r _ _ _ _ _ _ H Hv) as [i [Hi Hp]]. apply In_range1 in Hi.
    destruct (pick_inv _ _ _ _ _ Hp) as [j (H1 & H2 & H3)]. exists i, j. auto.
Qed.

Definition posf (n nq i : Z) : Z := match q_position n nq i with Some j => j | None => 0 end.

Definition lo_rows (vc : vcs) (lo : option Z) : Z := match lo with None => 0 | Some a => cnt_le vc a end.

Lemma bucket_count_some : forall vc lo b, above lo b = true ->
  bucket_count vc lo (Some b) = cnt_le vc b - lo_rows vc lo.
Proof.
  intros vc [a|] b H; cbn [above lo_rows] in *.
  - apply bucket_count_diff. lia.
  - rewrite bucket_count_first. lia.
Qed.

Lemma bucket_count_empty : forall vc a b, b <= a -> bucket_count vc (Some a) (Some b) = 0.
Proof.
  intros vc a b H. unfold bucket_count.
  rewrite (total_filter_ext _ (fun _ => false) vc).
  - induction vc as [|p t IH]; [reflexivity|]. cbn [filter]. exact IH.
  - intros p _. cbn [above upto]. lia.
Qed.

Lemma In_wf_count_pos : forall vc v c, wf_vc vc -> In (v, c) vc -> 0 < c.
Proof. intros vc v c [_ Hp] Hin. rewrite Forall_forall in Hp. apply (Hp (v, c) Hin). Qed.

Lemma wf_nodup : forall vc, wf_vc vc -> NoDup (map fst vc).
Proof. intros vc [Hs _]. apply ss_lt_nodup. exact Hs. Qed.

(* rows of a bucket ending at a picked quantile b (count c) whose left end lo leaves no pick
   strictly between lo and b *)
Lemma leaf_bucket_interior : forall e q N seg r nq lo b c,
  wf_vc seg -> 0 <= e ->
  new_q_of q N (total seg) = Some nq -> 1 < nq -> leaf q N seg = QOk r ->
  (forall i j, 1 <= i < nq -> q_position (total seg) nq i = Some j -> near e (total seg) nq i j) ->
  In b r -> In (b, c) seg ->
  (forall v, In v r -> above lo v && (v <? b) = false) ->
  bucket_count seg lo (Some b) <= (total seg - 1) / nq + 2 * e + c.
Proof.
  intros e q N seg r nq lo b c Hwf He Hq Hnq Hleaf Hnear Hb Hbc Hfree.
  pose proof (In_wf_count_pos _ _ _ Hwf Hbc) as Hc.
  assert (Hpos : Forall (fun p => 0 < snd p) seg) by (destruct Hwf; assumption).
  assert (Hn : 0 < total seg).
  { apply total_pos; [exact Hpos|]. intro E. rewrite E in Hbc. contradiction. }
  set (n := total seg) in *.
  destruct (div_spec (n - 1) nq ltac:(lia)) as [G1 G2]. set (G := (n - 1) / nq) in *.
  assert (HG : 0 <= G). { destruct (Z.lt_ge_cases G 0) as [L|]; [|assumption]. nia. }
  destruct (above lo b) eqn:Eab.
  2:{ destruct lo as [a|]; [|discriminate]. cbn [above] in Eab. rewrite bucket_count_empty by lia. lia. }
  rewrite (bucket_count_some _ _ _ Eab).
  rewrite (cnt_le_eq_lt_plus seg b c (wf_nodup _ Hwf) Hbc).
  destruct (leaf_picks _ _ _ _ _ Hq Hnq Hleaf) as [Hall Hinv]. change (total seg) with n in Hall, Hinv.
  destruct (Hinv b Hb) as (k0 & j0 & Hk0 & Hqk0 & Hj0 & Hnth0).
  destruct (nth_sorted_spec seg j0 b Hwf Hj0 Hnth0) as [Hlo0 Hhi0].
  assert (Hs : 0 <= lo_rows seg lo).
  { destruct lo; cbn [lo_rows]; [apply cnt_le_nonneg; exact Hpos|lia]. }
  assert (Hposf : forall i, 1 <= i <= nq - 1 -> exists v,
             q_position n nq i = Some (posf n nq i) /\ 0 <= posf n nq i
             /\ nth_sorted seg (posf n nq i) = Some v /\ In v r).
  { intros i Hi. destruct (Hall i Hi) as (j & v & H1 & H2 & H3 & H4). exists v.
    unfold posf. rewrite H1. auto. }
  assert (Hnearf : forall i, 1 <= i <= nq - 1 -> near e n nq i (posf n nq i)).
  { intros i Hi. destruct (Hposf i Hi) as (v & H1 & _). apply Hnear; [lia|exact H1]. }
  assert (Ek0 : posf n nq k0 = j0) by (unfold posf; rewrite Hqk0; reflexivity).
  assert (Goal : cnt_lt seg b - lo_rows seg lo <= G + 2 * e).
  { apply (free_run_bound k0 (posf n nq)); [lia|exact Hs| | | |].
    - intros i Hi [Hi1 Hi2]. destruct (Hposf i ltac:(lia)) as (v & _ & Hj & Hnth & Hv).
      specialize (Hfree v Hv).
      pose proof (nth_sorted_lt seg _ v b Hwf Hj Hnth Hi2) as Hvb.
      destruct lo as [a|]; cbn [above lo_rows] in *.
      + pose proof (nth_sorted_gt seg _ v a Hwf Hj Hnth Hi1). lia.
      + lia.
    - pose proof (near_first e n nq _ ltac:(lia) He (Hnearf 1 ltac:(lia))). lia.
    - intros i Hi. apply (near_mid e n nq i); [lia|exact He| |]; apply Hnearf; lia.
    - rewrite Ek0. lia. }
  lia.
Qed.

(* rows of the bucket above the last picked quantile *)
Lemma leaf_bucket_tail : forall e q N seg r nq lo,
  wf_vc seg -> 0 <= e -> seg <> [] ->
  new_q_of q N (total seg) = Some nq -> 1 < nq -> leaf q N seg = QOk r ->
  (forall i j, 1 <= i < nq -> q_position (total seg) nq i = Some j -> near e (total seg) nq i j) ->
  (forall v, In v r -> above lo v = false) ->
  bucket_count seg lo None <= (total seg - 1) / nq + 1 + 2 * e.
Proof.
  intros e q N seg r nq lo Hwf He Hne Hq Hnq Hleaf Hnear Hfree.
  assert (Hpos : Forall (fun p => 0 < snd p) seg) by (destruct Hwf; assumption).
  pose proof (total_pos seg Hpos Hne) as Hn. set (n := total seg) in *.
  destruct (div_spec (n - 1) nq ltac:(lia)) as [G1 G2]. set (G := (n - 1) / nq) in *.
  destruct (leaf_picks _ _ _ _ _ Hq Hnq Hleaf) as [Hall _]. change (total seg) with n in Hall.
  assert (Hposf : forall i, 1 <= i <= nq - 1 -> exists v,
             q_position n nq i = Some (posf n nq i) /\ 0 <= posf n nq i
             /\ nth_sorted seg (posf n nq i) = Some v /\ In v r).
  { intros i Hi. destruct (Hall i Hi) as (j & v & H1 & H2 & H3 & H4). exists v.
    unfold posf. rewrite H1. auto. }
  assert (Hnearf : forall i, 1 <= i <= nq - 1 -> near e n nq i (posf n nq i)).
  { intros i Hi. destruct (Hposf i Hi) as (v & H1 & _). apply Hnear; [lia|exact H1]. }
  destruct lo as [a|].
  2:{ destruct (Hposf 1 ltac:(lia)) as (v & _ & _ & _ & Hv). specialize (Hfree v Hv). discriminate. }
  rewrite bucket_count_last. fold n.
  assert (Goal : n - cnt_le seg a <= G + 1 + 2 * e).
  { apply (free_run_bound (nq - 1) (posf n nq)); [lia|apply cnt_le_nonneg; exact Hpos| | | |].
    - intros i Hi [Hi1 Hi2]. destruct (Hposf i ltac:(lia)) as (v & _ & Hj & Hnth & Hv).
      specialize (Hfree v Hv). cbn [above] in Hfree.
      pose proof (nth_sorted_gt seg _ v a Hwf Hj Hnth Hi1). lia.
    - pose proof (near_first e n nq _ ltac:(lia) He (Hnearf 1 ltac:(lia))). lia.
    - intros i Hi. pose proof (near_mid e n nq i _ _ ltac:(lia) He (Hnearf i ltac:(lia)) (Hnearf (i + 1) ltac:(lia))).
      lia.
    - intros _. pose proof (near_last e n nq _ ltac:(lia) He (Hnearf (nq - 1) ltac:(lia))). lia. }
  lia.
Qed.

(* a leaf that does not cut returns the largest value: one bucket with all its rows *)
Lemma max_value_ge : forall vc m, max_value vc = Some m -> forall p, In p vc -> fst p <= m.
Proof.
  induction vc as [|[w c] t IH]; intros m H p Hp; [contradiction|]. cbn [max_value] in H.
  destruct (max_value t) as [u|] eqn:E.
  - injection H as <-. destruct Hp as [<-|Hp]; cbn [fst]; [lia|]. specialize (IH u eq_refl p Hp). lia.
  - injection H as <-. destruct Hp as [<-|Hp]; cbn [fst]; [lia|].
    destruct t as [|[w' c'] t']; [contradiction|]. cbn [max_value] in E. destruct (max_value t'); discriminate.
Qed.

Lemma leaf_single : forall q N seg r nq,
  new_q_of q N (total seg) = Some nq -> nq <= 1 -> leaf q N seg = QOk r ->
  exists m, r = [m] /\ forall p, In p seg -> fst p <= m.
Proof.
  intros q N seg r nq Hq Hnq H. unfold leaf in H. rewrite Hq in H.
  assert (E : (1 <? nq) = false) by lia. rewrite E in H.
  destruct (max_value seg) as [m|] eqn:Em; [|discriminate]. injection H as <-.
  exists m. split; [reflexivity|]. apply max_value_ge. exact Em.
Qed.

Lemma bucket_count_le_total : forall vc lo hi, Forall (fun p => 0 < snd p) vc -> bucket_count vc lo hi <= total vc.
Proof. intros. apply total_filter_le_total. assumption. Qed.

Lemma bucket_count_above_max : forall vc lo hi m,
  (forall p, In p vc -> fst p <= m) -> above lo m = false -> bucket_count vc lo hi = 0.
Proof.
  intros vc lo hi m Hm Hlo. unfold bucket_count. rewrite (total_filter_ext _ (fun _ => false) vc).
  - induction vc as [|p t IH]; [reflexivity|]. cbn [filter]. apply IH. intros; apply Hm; right; assumption.
  - intros p Hp. specialize (Hm p Hp). destruct lo as [a|]; cbn [above] in *; [|discriminate].
    destruct (upto hi (fst p)); lia.
Qed.

(* ============================================================================================ *)
(* E — from the leaves to find_quantiles                                                          *)
(* ============================================================================================ *)
(* x strictly between the two ends of a bucket *)
Definition between (lo hi : option Z) (x : Z) : bool :=
  above lo x && match hi with None => true | Some h => x <? h end.

Definition ole (prev : option Z) (x : Z) : Prop := match prev with None => True | Some p => p <= x end.

(* consecutive pairs of a sorted list: both ends belong to the list (or are the outer ends) and no
   element of the list lies strictly between them *)
Lemma bounds_spec : forall l prev lo hi,
  StronglySorted Z.le l -> (forall x, In x l -> ole prev x) -> In (lo, hi) (bounds prev l) ->
  (lo = prev \/ exists a, lo = Some a /\ In a l)
  /\ (hi = None \/ exists b, hi = Some b /\ In b l)
  /\ (forall x, In x l -> between lo hi x = false).
Proof.
  induction l as [|v t IH]; intros prev lo hi Hs Hprev Hin; cbn [bounds] in Hin.
  - destruct Hin as [E|[]]. injection E as <- <-. repeat split; auto. intros x [].
  - inversion Hs as [|? ? Hs' Hv]; subst. rewrite Forall_forall in Hv.
    destruct Hin as [E|Hin].
    + injection E as <- <-. split; [left; reflexivity|]. split; [right; exists v; split; [reflexivity|left; reflexivity]|].
      intros x [<-|Hx]; unfold between; [rewrite Z.ltb_irrefl; apply andb_false_r|].
      specialize (Hv x Hx). assert (E : (x <? v) = false) by lia. rewrite E. apply andb_false_r.
    + destruct (IH (Some v) lo hi Hs' (fun x Hx => Hv x Hx) Hin) as (H1 & H2 & H3).
      split; [right; destruct H1 as [->|(a & -> & Ha)]; [exists v|exists a]; split; auto; [left|right]; auto|].
      split; [destruct H2 as [->|(b & -> & Hb)]; [left; reflexivity|right; exists b; split; [reflexivity|right; exact Hb]]|].
      intros x [<-|Hx]; [|apply H3; exact Hx]. unfold between.
      destruct H1 as [->|(a & -> & Ha)]; cbn [above]; [rewrite Z.ltb_irrefl; reflexivity|].
      specialize (Hv a Ha). assert (E : (a <? v) = false) by lia. rewrite E. reflexivity.
Qed.

Lemma bounds_last : forall l prev, exists flo, In (flo, None) (bounds prev l)
  /\ (flo = prev \/ exists f, flo = Some f /\ In f l).
Proof.
  induction l as [|v t IH]; intros prev; cbn [bounds].
  - exists prev. split; [left; reflexivity|left; reflexivity].
  - destruct (IH (Some v)) as (flo & H1 & H2). exists flo. split; [right; exact H1|].
    right. destruct H2 as [->|(f & -> & Hf)]; [exists v|exists f]; split; auto; [left|right]; auto.
Qed.

Lemma ss_map_filter : forall (f : Z * Z -> bool) vc,
  StronglySorted Z.lt (map fst vc) -> StronglySorted Z.lt (map fst (filter f vc)).
Proof.
  intros f. induction vc as [|p t IH]; intros H; [constructor|]. cbn [map] in H.
  inversion H as [|? ? Hs Hf]; subst. cbn [filter]. destruct (f p); [|apply IH; exact Hs].
  cbn [map]. constructor; [apply IH; exact Hs|]. rewrite Forall_forall in *. intros x Hx.
  apply Hf. apply in_map_iff in Hx. destruct Hx as [p' [<- Hp']]. apply filter_In in Hp'.
  apply in_map. tauto.
Qed.

Lemma wf_filter : forall (f : Z * Z -> bool) vc, wf_vc vc -> wf_vc (filter f vc).
Proof. intros f vc [Hs Hp]. split; [apply ss_map_filter; exact Hs|apply pos_filter; exact Hp]. Qed.

Lemma ss_lt_le : forall l, StronglySorted Z.lt l -> StronglySorted Z.le l.
Proof.
  induction 1 as [|a l _ IH Hf]; constructor; [exact IH|].
  rewrite Forall_forall in *. intros x Hx. specialize (Hf x Hx). lia.
Qed.

Lemma freq_values_sorted : forall t vc, wf_vc vc -> StronglySorted Z.le (freq_values t vc).
Proof. intros t vc [Hs _]. apply ss_lt_le. unfold freq_values, freq_entries. apply ss_map_filter. exact Hs. Qed.

Lemma In_freq_values_inv : forall t vc v, In v (freq_values t vc) -> exists c, In (v, c) vc /\ is_freq t c = true.
Proof.
  intros t vc v H. unfold freq_values, freq_entries in H. apply in_map_iff in H.
  destruct H as [[w c] [<- Hp]]. apply filter_In in Hp. exists c. cbn [fst snd] in *. tauto.
Qed.

Lemma bucket_count_filter : forall (S : Z * Z -> bool) vc lo hi,
  (forall p, In p vc -> above lo (fst p) && upto hi (fst p) = true -> S p = true) ->
  bucket_count (filter S vc) lo hi = bucket_count vc lo hi.
Proof.
  intros S vc lo hi H. unfold bucket_count. rewrite filter_filter. apply total_filter_ext.
  intros p Hp. specialize (H p Hp). destruct (above lo (fst p) && upto hi (fst p)); [|reflexivity].
  rewrite H; reflexivity.
Qed.

Lemma In_fst_exists : forall (vc : vcs) v, In v (map fst vc) -> exists c, In (v, c) vc.
Proof. intros vc v H. apply in_map_iff in H. destruct H as [[w c] [<- Hp]]. exists c. exact Hp. Qed.

(* the positions computed for the sub-samples that can occur (at most [tot] rows, cut in
   nq = new_q_of q N n > 1 quantiles) are floor-like up to e *)
Definition positions_near (e q N tot : Z) : Prop :=
  forall n nq i j, 0 < n <= tot -> new_q_of q N n = Some nq -> 1 < nq -> 1 <= i < nq ->
    q_position n nq i = Some j -> near e n nq i j.

(* what is known of a bucket: it lies inside one sub-sample [seg] without over-represented value,
   cut in nq quantiles; c = rows of the value closing the bucket (1 for the bucket closed by +inf) *)
Definition bucket_in_leaf (e q N : Z) (t : fl) (vc : vcs) (rows : Z) (hi : option Z) : Prop :=
  exists seg c nq,
    (forall p, In p seg -> In p vc /\ is_freq t (snd p) = false)
    /\ seg <> [] /\ wf_vc seg
    /\ new_q_of q N (total seg) = Some nq
    /\ match hi with Some b => In (b, c) seg | None => c = 1 end
    /\ rows <= if 1 <? nq then (total seg - 1) / nq + 2 * e + c else total seg.

Lemma seg_bucket : forall e q N seg r lo hi c,
  wf_vc seg -> 0 <= e -> seg <> [] -> leaf q N seg = QOk r -> positions_near e q N (total seg) ->
  (forall v, In v r -> between lo hi v = false) ->
  match hi with Some b => In b r /\ In (b, c) seg | None => c = 1 end ->
  exists nq, new_q_of q N (total seg) = Some nq
    /\ bucket_count seg lo hi <= if 1 <? nq then (total seg - 1) / nq + 2 * e + c else total seg.
Proof.
  intros e q N seg r lo hi c Hwf He Hne Hleaf Hnear Hfree Hhi.
  assert (Hpos : Forall (fun p => 0 < snd p) seg) by (destruct Hwf; assumption).
  pose proof (total_pos seg Hpos Hne) as Hn.
  destruct (new_q_of q N (total seg)) as [nq|] eqn:Hq.
  2:{ unfold leaf in Hleaf. rewrite Hq in Hleaf. discriminate. }
  exists nq. split; [reflexivity|]. destruct (1 <? nq) eqn:Enq.
  - assert (Hnear' : forall i j, 1 <= i < nq -> q_position (total seg) nq i = Some j -> near e (total seg) nq i j).
    { intros i j Hi Hj. apply Hnear; try assumption; lia. }
    destruct hi as [b|].
    + destruct Hhi as [Hb Hbc]. eapply leaf_bucket_interior; eauto; lia.
    + subst c. pose proof (leaf_bucket_tail e q N seg r nq lo Hwf He Hne Hq ltac:(lia) Hleaf Hnear') as H.
      assert (Hf : forall v, In v r -> above lo v = false).
      { intros v Hv. specialize (Hfree v Hv). unfold between in Hfree. rewrite andb_true_r in Hfree. exact Hfree. }
      specialize (H Hf). lia.
  - apply bucket_count_le_total. exact Hpos.
Qed.

Lemma fq_top : forall q N vc l0, fq np_fuel q N vc = QOk l0 -> vc <> [] ->
  let t := thr N q in
  ((forall p, In p vc -> is_freq t (snd p) = false) /\ leaf q N vc = QOk l0)
  \/ (exists rs, Forall2 (fun seg r => match seg with [] => r = [] | _ => leaf q N seg = QOk r end)
                         (segments t vc) rs
                 /\ l0 = List.concat rs ++ freq_values t vc /\ freq_values t vc <> []).
Proof.
  intros q N vc l0 H Hne t. unfold np_fuel in H. rewrite fq_S in H.
  destruct vc as [|p0 t0]; [congruence|]. set (vc := p0 :: t0) in *. fold t in H.
  destruct (existsb (fun p => is_freq t (snd p)) vc) eqn:Ex.
  - right. destruct (mapM (fq 2 q N) (segments t vc)) as [rs|err] eqn:Em; [|discriminate].
    injection H as <-. exists rs. split; [|split; [reflexivity|]].
    + apply mapM_ok in Em.
      assert (Hseg : forall seg, In seg (segments t vc) -> forall p, In p seg -> is_freq (thr N q) (snd p) = false).
      { intros seg Hs. apply (segments_spec _ _ _ Hs). }
      revert Hseg. induction Em as [|seg r segs rs Hsr _ IH]; intros Hseg; constructor.
      * rewrite fq_nonfreq in Hsr by (apply Hseg; left; reflexivity).
        destruct seg; [injection Hsr as <-; reflexivity|exact Hsr].
      * apply IH. intros s Hs. apply Hseg. right. exact Hs.
    + apply existsb_exists in Ex. destruct Ex as [[v c] [Hin Hf]]. cbn [snd] in Hf.
      intro E. pose proof (freq_values_complete t vc v c Hin Hf) as Hv. rewrite E in Hv. contradiction.
  - left. split; [|exact H]. intros p Hp. destruct (is_freq t (snd p)) eqn:E; [|reflexivity].
    assert (existsb (fun p => is_freq t (snd p)) vc = true) by (apply existsb_exists; eauto). congruence.
Qed.

Lemma find_quantiles_v_inv : forall dedup q N vc l, find_quantiles_v dedup q N vc = QOk l ->
  exists l0, fq np_fuel q N vc = QOk l0 /\ (forall x, In x l <-> In x l0) /\ StronglySorted Z.le l.
Proof.
  intros dedup q N vc l H.
  pose proof (find_quantiles_spec dedup q N vc l H) as (_ & _ & Hs & _).
  apply Sorted_StronglySorted in Hs; [|intros a b c; apply Z.le_trans].
  unfold find_quantiles_v, find_quantiles, find_quantiles_dedup in H.
  destruct dedup; destruct (fq np_fuel q N vc) as [l0|err]; try discriminate; injection H as <-;
    exists l0; (split; [reflexivity|]); (split; [|exact Hs]); intros x.
  - rewrite dedup_sorted_In. split; apply Permutation_in; [|apply Permutation_sym]; apply sortZ_perm.
  - split; apply Permutation_in; [|apply Permutation_sym]; apply sortZ_perm.
Qed.

Lemma segment_sub : forall t vc seg, In seg (segments t vc) -> wf_vc vc ->
  wf_vc seg /\ total seg <= total vc /\ (forall p, In p seg -> In p vc /\ is_freq t (snd p) = false).
Proof.
  intros t vc seg H Hwf. destruct (segments_spec _ _ _ H) as [H1 H2].
  unfold segments in H. apply in_map_iff in H. destruct H as [b [<- _]].
  split; [apply wf_filter; exact Hwf|]. split; [apply total_filter_le_total; destruct Hwf; assumption|].
  intros p Hp. split; [apply H1|apply H2]; exact Hp.
Qed.

Lemma positions_near_le : forall e q N a b, a <= b -> positions_near e q N b -> positions_near e q N a.
Proof. intros e q N a b Hab H n nq i j Hn. apply H. lia. Qed.

(* every bucket whose right end is not an over-represented value is empty or lies in one leaf *)
Theorem bucket_leaf_bound : forall e dedup q N vc l,
  wf_vc vc -> 0 <= e -> positions_near e q N (total vc) ->
  find_quantiles_v dedup q N vc = QOk l ->
  forall lo hi, In (lo, hi) (bounds None l) ->
  (forall b c, hi = Some b -> In (b, c) vc -> is_freq (thr N q) c = false) ->
  bucket_count vc lo hi = 0 \/ bucket_in_leaf e q N (thr N q) vc (bucket_count vc lo hi) hi.
Proof.
  intros e dedup q N vc l Hwf He Hnear Hfq lo hi Hin Hnf.
  destruct (find_quantiles_v_inv _ _ _ _ _ Hfq) as (l0 & Hl0 & Hiff & Hsorted).
  destruct (bounds_spec l None lo hi Hsorted (fun _ _ => I) Hin) as (_ & Hhi & Hfree).
  destruct vc as [|p0 t0] eqn:Evc; [left; reflexivity|]. rewrite <- Evc in *.
  assert (Hne : vc <> []) by (rewrite Evc; discriminate). clear Evc p0 t0.
  set (t := thr N q) in *.
  assert (Hpos : Forall (fun p => 0 < snd p) vc) by (destruct Hwf; assumption).
  destruct (fq_top q N vc l0 Hl0 Hne) as [[Hnofreq Hleaf]|(rs & Hrs & El0 & Hfv)]; fold t in Hnofreq || fold t in Hrs, El0, Hfv.
  - (* no over-represented value: the sample itself is the leaf *)
    right.
    assert (Hfree' : forall v, In v l0 -> between lo hi v = false) by (intros v Hv; apply Hfree, Hiff; exact Hv).
    assert (Hc : exists c, match hi with Some b => In b l0 /\ In (b, c) vc | None => c = 1 end).
    { destruct hi as [b|]; [|exists 1; reflexivity].
      destruct Hhi as [E|(b' & E & Hb)]; [discriminate|]. injection E as <-.
      apply Hiff in Hb. destruct (In_fst_exists vc b (leaf_In _ _ _ _ _ Hleaf Hb)) as [c Hc]. exists c. auto. }
    destruct Hc as [c Hc].
    destruct (seg_bucket e q N vc l0 lo hi c Hwf He Hne Hleaf Hnear Hfree' Hc) as (nq & Hq & Hb).
    exists vc, c, nq. split; [intros p Hp; split; [exact Hp|apply Hnofreq; exact Hp]|].
    split; [exact Hne|]. split; [exact Hwf|]. split; [exact Hq|]. split; [|exact Hb].
    destruct hi; [tauto|exact Hc].
  - (* over-represented values fv: the bucket lies in one segment *)
    set (fv := freq_values t vc) in *.
    assert (Hfvl : forall f, In f fv -> In f l).
    { intros f Hf. apply Hiff. rewrite El0. apply in_or_app. right. exact Hf. }
    pose proof (freq_values_sorted t vc Hwf) as Hfvs. fold fv in Hfvs.
    destruct hi as [b|].
    + destruct Hhi as [E|(b' & E & Hb)]; [discriminate|]. injection E as <-.
      assert (Hbfv : ~ In b fv).
      { intro Hb'. destruct (In_freq_values_inv _ _ _ Hb') as (c & Hc1 & Hc2).
        rewrite (Hnf b c eq_refl Hc1) in Hc2. discriminate. }
      apply Hiff in Hb. rewrite El0 in Hb. apply in_app_or in Hb. destruct Hb as [Hb|Hb]; [|contradiction].
      apply in_concat in Hb. destruct Hb as (r & Hr & Hbr).
      destruct (Forall2_in_r _ _ _ _ _ _ Hrs Hr) as (seg & Hseg & Hsr).
      destruct seg as [|s0 s1] eqn:Eseg; [subst r; contradiction|]. rewrite <- Eseg in *.
      assert (Hsne : seg <> []) by (rewrite Eseg; discriminate). clear Eseg s0 s1.
      destruct (segment_sub _ _ _ Hseg Hwf) as (Hswf & Hstot & Hsub).
      destruct (In_fst_exists seg b (leaf_In _ _ _ _ _ Hsr Hbr)) as [c Hbc].
      assert (Hrl : forall v, In v r -> between lo (Some b) v = false).
      { intros v Hv. apply Hfree, Hiff. rewrite El0. apply in_or_app. left. apply in_concat. eauto. }
      destruct (seg_bucket e q N seg r lo (Some b) c Hswf He Hsne Hsr
                  (positions_near_le _ _ _ _ _ Hstot Hnear) Hrl (conj Hbr Hbc)) as (nq & Hq & Hbound).
      right. exists seg, c, nq. split; [exact Hsub|]. split; [exact Hsne|]. split; [exact Hswf|].
      split; [exact Hq|]. split; [exact Hbc|].
      replace (bucket_count vc lo (Some b)) with (bucket_count seg lo (Some b)); [exact Hbound|].
      unfold segments in Hseg. apply in_map_iff in Hseg. destruct Hseg as ([flo fhi] & Es & Hbd). cbn [fst snd] in Es.
      rewrite <- Es. apply bucket_count_filter. intros p Hp Hrange.
      assert (HS : In (b, c) (filter (fun p => in_seg flo fhi (fst p) && negb (memZ (fst p) (freq_values t vc))) vc))
        by (rewrite Es; exact Hbc).
      apply filter_In in HS. destruct HS as [_ HS]. cbn [fst] in HS. fold fv in HS |- *.
      apply andb_true_iff in HS. destruct HS as [HS1 _].
      apply andb_true_iff in Hrange. destruct Hrange as [Hr1 Hr2]. cbn [upto] in Hr2.
      destruct (bounds_spec fv None flo fhi Hfvs (fun _ _ => I) Hbd) as (Hflo & _ & _).
      apply andb_true_iff. split.
      * unfold in_seg in *. apply andb_true_iff in HS1. destruct HS1 as [HS1 HS2]. apply andb_true_iff. split.
        -- destruct flo as [f|]; [|reflexivity].
           destruct Hflo as [E|(f' & E & Hf)]; [discriminate|]. injection E as <-.
           assert (f <> b) by (intro; subst f; contradiction).
           pose proof (Hfree f (Hfvl f Hf)) as Hbt. unfold between in Hbt.
           assert (Efb : (f <? b) = true) by lia. rewrite Efb, andb_true_r in Hbt.
           destruct lo as [a|]; cbn [above] in *; [lia|discriminate].
        -- destruct fhi as [h|]; [lia|reflexivity].
      * apply negb_true_iff. destruct (memZ (fst p) fv) eqn:Em; [|reflexivity].
        apply memZ_In in Em. pose proof (Hfree _ (Hfvl _ Em)) as Hbt. unfold between in Hbt. rewrite Hr1 in Hbt.
        cbn [andb] in Hbt. assert (fst p = b) by lia. rewrite H in Em. contradiction.
    + (* the bucket closed by +inf lies in the last segment *)
      destruct (bounds_last fv None) as (flo & Hbd & Hflo).
      set (S := fun p : Z * Z => in_seg flo None (fst p) && negb (memZ (fst p) fv)).
      assert (Hseg : In (filter S vc) (segments t vc)).
      { unfold segments. fold fv. apply in_map_iff. exists (flo, None). split; [reflexivity|exact Hbd]. }
      destruct (Forall2_in_l _ _ _ _ _ _ Hrs Hseg) as (r & Hr & Hsr).
      destruct (segment_sub _ _ _ Hseg Hwf) as (Hswf & Hstot & Hsub).
      assert (Ecount : bucket_count (filter S vc) lo None = bucket_count vc lo None).
      { apply bucket_count_filter. intros p Hp Hrange. cbn [upto] in Hrange. rewrite andb_true_r in Hrange.
        unfold S. apply andb_true_iff. split.
        - unfold in_seg. rewrite andb_true_r. destruct flo as [f|]; [|reflexivity].
          destruct Hflo as [E|(f' & E & Hf)]; [discriminate|]. injection E as <-.
          pose proof (Hfree f (Hfvl f Hf)) as Hbt. unfold between in Hbt. rewrite andb_true_r in Hbt.
          destruct lo as [a|]; cbn [above] in *; [lia|discriminate].
        - apply negb_true_iff. destruct (memZ (fst p) fv) eqn:Em; [|reflexivity].
          apply memZ_In in Em. pose proof (Hfree _ (Hfvl _ Em)) as Hbt. unfold between in Hbt.
          rewrite Hrange in Hbt. discriminate. }
      rewrite <- Ecount.
      destruct (filter S vc) as [|s0 s1] eqn:Eseg; [left; reflexivity|]. rewrite <- Eseg in *.
      assert (Hsne : filter S vc <> []) by (rewrite Eseg; discriminate). clear Eseg s0 s1.
      set (seg := filter S vc) in *.
      assert (Hsr' : leaf q N seg = QOk r) by (destruct seg; [congruence|exact Hsr]).
      assert (Hrl : forall v, In v r -> between lo None v = false).
      { intros v Hv. apply Hfree, Hiff. rewrite El0. apply in_or_app. left. apply in_concat. eauto. }
      destruct (seg_bucket e q N seg r lo None 1 Hswf He Hsne Hsr'
                  (positions_near_le _ _ _ _ _ Hstot Hnear) Hrl eq_refl) as (nq & Hq & Hbound).
      right. exists seg, 1, nq. split; [exact Hsub|]. split; [exact Hsne|]. split; [exact Hswf|].
      split; [exact Hq|]. split; [reflexivity|exact Hbound].
Qed.

(* ============================================================================================ *)
(* F — closed forms                                                                               *)
(* ============================================================================================ *)
(* the three facts about binary64 the closed form rests on (exact arithmetic would give them with
   e = 0 and K arbitrarily large):
   - a count c compared as a float:  not (c >= fl(N/q))  ->  c < N/q
   - new_q = round(fl(fl(n/N)*q)) is not below  n*q/N - 1/2  up to a relative 1/K
   - positions_near *)
Definition thr_exact (q N : Z) (vc : vcs) : Prop :=
  forall v c, In (v, c) vc -> is_freq (thr N q) c = false -> c * q < N.

Definition newq_near (K q N tot : Z) : Prop :=
  forall n nq, 0 < n <= tot -> new_q_of q N n = Some nq -> 2 * n * q * K <= (2 * nq + 1) * N * (K + 1).

Lemma leaf_rows_closed : forall e K q N n nq c G,
  0 < q -> 0 < K -> 0 < N <= K -> 0 <= e -> 2 <= nq -> 0 < n ->
  nq * G <= n - 1 -> 2 * n * q * K <= (2 * nq + 1) * N * (K + 1) -> c * q < N ->
  4 * q * (G + 2 * e + c) <= 9 * N + 8 * e * q.
Proof.
  intros e K q N n nq c G Hq HK HN He Hnq Hn HG HB Hc.
  assert (HX : 4 * (q * G) <= 5 * N + 4).
  { destruct (Z.le_gt_cases (4 * (q * G)) (5 * N + 4)) as [L|L]; [exact L|exfalso].
    set (X := q * G) in *.
    assert (A1 : nq * X <= q * n - q).
    { unfold X. replace (nq * (q * G)) with (q * (nq * G)) by ring.
      replace (q * n - q) with (q * (n - 1)) by ring. apply Z.mul_le_mono_nonneg_l; lia. }
    assert (A2 : 4 * K * (nq * X) <= 4 * K * (q * n - q)) by (apply Z.mul_le_mono_nonneg_l; lia).
    assert (A3 : K * nq * (5 * N + 5) <= K * nq * (4 * X)).
    { apply Z.mul_le_mono_nonneg_l; [apply Z.mul_nonneg_nonneg; lia|lia]. }
    assert (A4 : 2 * (K * N) <= nq * (K * N)).
    { apply Z.mul_le_mono_nonneg_r; [apply Z.mul_nonneg_nonneg; lia|lia]. }
    assert (A5 : nq * N <= nq * K) by (apply Z.mul_le_mono_nonneg_l; lia).
    assert (A6 : K * 1 <= K * q) by (apply Z.mul_le_mono_nonneg_l; lia).
    assert (A7 : K * 2 <= K * nq) by (apply Z.mul_le_mono_nonneg_l; lia).
    set (KN := K * N) in *. set (nqK := nq * K) in *. set (nqN := nq * N) in *.
    set (nqX := nq * X) in *.
    replace (K * nq * (5 * N + 5)) with (5 * (nq * KN) + 5 * nqK) in A3 by (unfold KN, nqK; ring).
    replace (K * nq * (4 * X)) with (4 * K * nqX) in A3 by (unfold nqX; ring).
    replace (4 * K * (q * n - q)) with (2 * (2 * n * q * K) - 4 * (K * q)) in A2 by ring.
    replace ((2 * nq + 1) * N * (K + 1)) with (2 * (nq * KN) + 2 * nqN + KN + N) in HB by (unfold KN, nqN; ring).
    replace (K * nq) with nqK in A7 by (unfold nqK; ring).
    lia. }
  replace (4 * q * (G + 2 * e + c)) with (4 * (q * G) + 8 * e * q + 4 * (c * q)) by ring. lia.
Qed.

Lemma single_rows_closed : forall K q N n nq,
  0 < q -> 0 < K -> 0 < N <= K -> q < N -> nq <= 1 -> 0 < n ->
  2 * n * q * K <= (2 * nq + 1) * N * (K + 1) -> 4 * q * n <= 9 * N.
Proof.
  intros K q N n nq Hq HK HN HqN Hnq Hn HB.
  assert (A1 : (2 * nq + 1) * (N * (K + 1)) <= 3 * (N * (K + 1))).
  { apply Z.mul_le_mono_nonneg_r; [apply Z.mul_nonneg_nonneg; lia|lia]. }
  assert (A2 : 2 * K <= N * K) by (apply Z.mul_le_mono_nonneg_r; lia).
  destruct (Z.le_gt_cases (4 * q * n) (9 * N)) as [L|L]; [exact L|exfalso].
  assert (A3 : K * (9 * N + 1) <= K * (4 * q * n)) by (apply Z.mul_le_mono_nonneg_l; lia).
  set (KN := N * K) in *.
  replace ((2 * nq + 1) * N * (K + 1)) with ((2 * nq + 1) * (N * (K + 1))) in HB by ring.
  replace (N * (K + 1)) with (KN + N) in * by (unfold KN; ring).
  replace (K * (9 * N + 1)) with (9 * KN + K) in A3 by (unfold KN; ring).
  replace (K * (4 * q * n)) with (2 * (2 * n * q * K)) in A3 by ring.
  lia.
Qed.

(* every bucket free of over-represented values holds at most 2.25*N/q + 2e rows *)
Theorem bucket_bound_closed : forall e K dedup q N vc l,
  wf_vc vc -> total vc <= N -> 0 < q -> 0 <= e -> 0 < K -> N <= K ->
  thr_exact q N vc -> newq_near K q N (total vc) -> positions_near e q N (total vc) ->
  find_quantiles_v dedup q N vc = QOk l ->
  forall lo hi, In (lo, hi) (bounds None l) ->
  (forall b c, hi = Some b -> In (b, c) vc -> is_freq (thr N q) c = false) ->
  4 * q * bucket_count vc lo hi <= 9 * N + 8 * e * q.
Proof.
  intros e K dedup q N vc l Hwf Htot Hq He HK HNK Hthr Hnewq Hnear Hfq lo hi Hin Hnf.
  assert (Hpos : Forall (fun p => 0 < snd p) vc) by (destruct Hwf; assumption).
  pose proof (total_nonneg vc Hpos) as Htn.
  assert (H8 : 0 <= 8 * e * q) by (apply Z.mul_nonneg_nonneg; lia).
  destruct (bucket_leaf_bound e dedup q N vc l Hwf He Hnear Hfq lo hi Hin Hnf)
    as [E|(seg & c & nq & Hsub & Hsne & Hswf & Hnq & Hc & Hrows)].
  - rewrite E. lia.
  - assert (Hspos : Forall (fun p => 0 < snd p) seg) by (destruct Hswf; assumption).
    pose proof (total_pos seg Hspos Hsne) as Hn.
    assert (Hstot : total seg <= total vc).
    { destruct seg as [|p0 s0] eqn:Es; [congruence|]. rewrite <- Es in *. clear Es.
      (* seg is a sub-aggregate of vc: compare through bucket_leaf_bound's witness *)
      assert (Hincl : forall p, In p seg -> In p vc) by (intros p Hp; apply Hsub; exact Hp).
      clear -Hincl Hswf Hwf Hpos.
      assert (G : forall (s v : vcs), NoDup s -> (forall p, In p s -> In p v) ->
                  Forall (fun p => 0 < snd p) v -> total s <= total v).
      { induction s as [|p s IH]; intros v Hnd Hi Hp; [cbn; apply total_nonneg; exact Hp|].
        inversion Hnd as [|? ? Hnotin Hnd']; subst.
        destruct (in_split p v (Hi p (or_introl eq_refl))) as (v1 & v2 & ->).
        rewrite total_cons, total_app, total_cons.
        assert (Hp' : Forall (fun p => 0 < snd p) (v1 ++ v2)).
        { apply Forall_app in Hp. destruct Hp as [P1 P2]. inversion P2; subst. apply Forall_app. split; assumption. }
        specialize (IH (v1 ++ v2) Hnd').
        rewrite total_app in IH. enough (total s <= total v1 + total v2) by lia. apply IH; [|exact Hp'].
        intros x Hx. specialize (Hi x (or_intror Hx)). apply in_app_or in Hi.
        apply in_or_app. destruct Hi as [Hi|[Hi|Hi]]; [left; exact Hi| |right; exact Hi].
        subst x. contradiction. }
      apply G; [|exact Hincl|exact Hpos].
      apply (NoDup_map_inv fst). apply wf_nodup. exact Hswf. }
    (* some entry of seg is not over-represented: q < N *)
    assert (HqN : q < N).
    { destruct seg as [|[v0 c0] s0]; [congruence|].
      destruct (Hsub (v0, c0) (or_introl eq_refl)) as [Hin0 Hf0]. cbn [snd] in Hf0.
      specialize (Hthr v0 c0 Hin0 Hf0). inversion Hspos as [|? ? Hc0 _]; subst. cbn [snd] in Hc0. nia. }
    assert (Hcq : c * q < N).
    { destruct hi as [b|]; [|subst c; lia].
      destruct (Hsub (b, c) Hc) as [Hin0 Hf0]. exact (Hthr b c Hin0 Hf0). }
    specialize (Hnewq (total seg) nq ltac:(lia) Hnq).
    destruct (1 <? nq) eqn:Enq.
    + destruct (div_spec (total seg - 1) nq ltac:(lia)) as [G1 _].
      pose proof (leaf_rows_closed e K q N (total seg) nq c _ Hq HK ltac:(lia) He ltac:(lia) Hn G1 Hnewq Hcq) as Hcl.
      assert (4 * q * bucket_count vc lo hi <= 4 * q * ((total seg - 1) / nq + 2 * e + c)).
      { apply Z.mul_le_mono_nonneg_l; lia. }
      lia.
    + pose proof (single_rows_closed K q N (total seg) nq Hq HK ltac:(lia) HqN ltac:(lia) Hn Hnewq) as Hcl.
      assert (4 * q * bucket_count vc lo hi <= 4 * q * total seg).
      { apply Z.mul_le_mono_nonneg_l; lia. }
      lia.
Qed.

(* hence the 2.5*N/q of the property as soon as N/q >= 8e (any N when the positions are exact) *)
Corollary bucket_bound_2_5 : forall e K dedup q N vc l,
  wf_vc vc -> total vc <= N -> 0 < q -> 0 <= e -> 0 < K -> N <= K -> 8 * e * q <= N ->
  thr_exact q N vc -> newq_near K q N (total vc) -> positions_near e q N (total vc) ->
  find_quantiles_v dedup q N vc = QOk l ->
  forall lo hi, In (lo, hi) (bounds None l) ->
  (forall b c, hi = Some b -> In (b, c) vc -> is_freq (thr N q) c = false) ->
  2 * q * bucket_count vc lo hi <= 5 * N.
Proof.
  intros e K dedup q N vc l Hwf Htot Hq He HK HNK HeN Hthr Hnewq Hnear Hfq lo hi Hin Hnf.
  pose proof (bucket_bound_closed e K dedup q N vc l Hwf Htot Hq He HK HNK Hthr Hnewq Hnear Hfq lo hi Hin Hnf).
  lia.
Qed.

(* in terms of min_freq = m * 2^x itself (q = round(1/min_freq) is not 1/min_freq): the 2.5*min_freq of
   the property follows when min_freq is not below (0.9 + 0.8*e*q/N) / q *)
Corollary bucket_bound_min_freq : forall e K dedup mf q N vc l,
  wf_vc vc -> total vc <= N -> 0 < q -> 0 <= e -> 0 < K -> N <= K ->
  snd mf <= 0 -> (9 * N + 8 * e * q) * 2 ^ (- snd mf) <= 10 * q * fst mf * N ->
  thr_exact q N vc -> newq_near K q N (total vc) -> positions_near e q N (total vc) ->
  find_quantiles_v dedup q N vc = QOk l ->
  forall lo hi, In (lo, hi) (bounds None l) ->
  (forall b c, hi = Some b -> In (b, c) vc -> is_freq (thr N q) c = false) ->
  2 * bucket_count vc lo hi * 2 ^ (- snd mf) <= 5 * fst mf * N.
Proof.
  intros e K dedup [m x] q N vc l Hwf Htot Hq He HK HNK Hx Hmf Hthr Hnewq Hnear Hfq lo hi Hin Hnf.
  cbn [fst snd] in *.
  pose proof (bucket_bound_closed e K dedup q N vc l Hwf Htot Hq He HK HNK Hthr Hnewq Hnear Hfq lo hi Hin Hnf) as H.
  set (P := 2 ^ (- x)) in *. assert (HP : 0 < P) by (apply Z.pow_pos_nonneg; lia).
  set (R := bucket_count vc lo hi) in *.
  assert (A : 4 * q * R * P <= (9 * N + 8 * e * q) * P) by (apply Z.mul_le_mono_nonneg_r; lia).
  assert (B : 2 * q * (2 * R * P) <= 2 * q * (5 * m * N)).
  { replace (2 * q * (2 * R * P)) with (4 * q * R * P) by ring.
    replace (2 * q * (5 * m * N)) with (10 * q * m * N) by ring. lia. }
  apply (Z.mul_le_mono_pos_l _ _ (2 * q)); lia.
Qed.

(* ---- boolean versions of the three hypotheses (finite checks, for concrete instances) -------- *)
Definition near_b (e n nq i j : Z) : bool :=
  (nq * j <=? (n - 1) * i + e * nq) && ((n - 1) * i <? nq * (j + 1 + e)).

Definition positions_check (e q N tot : Z) : bool :=
  forallb (fun n =>
    match new_q_of q N n with
    | Some nq =>
        if 1 <? nq then
          forallb (fun i => match q_position n nq i with Some j => near_b e n nq i j | None => true end)
                  (range1 (nq - 1))
        else true
    | None => true
    end) (range1 tot).

Definition newq_check (K q N tot : Z) : bool :=
  forallb (fun n => match new_q_of q N n with
                    | Some nq => 2 * n * q * K <=? (2 * nq + 1) * N * (K + 1)
                    | None => true
                    end) (range1 tot).

Definition thr_check (q N : Z) (vc : vcs) : bool :=
  forallb (fun p => is_freq (thr N q) (snd p) || (snd p * q <? N)) vc.

Lemma positions_check_sound : forall e q N tot, positions_check e q N tot = true -> positions_near e q N tot.
Proof.
  intros e q N tot H n nq i j Hn Hq Hnq Hi Hj. unfold positions_check in H.
  rewrite forallb_forall in H. specialize (H n (proj2 (In_range1 tot n) ltac:(lia))).
  rewrite Hq in H. assert (E : (1 <? nq) = true) by lia. rewrite E in H.
  rewrite forallb_forall in H. specialize (H i (proj2 (In_range1 (nq - 1) i) ltac:(lia))).
  rewrite Hj in H. unfold near_b in H. unfold near. lia.
Qed.

Lemma newq_check_sound : forall K q N tot, newq_check K q N tot = true -> newq_near K q N tot.
Proof.
  intros K q N tot H n nq Hn Hq. unfold newq_check in H.
  rewrite forallb_forall in H. specialize (H n (proj2 (In_range1 tot n) ltac:(lia))).
  rewrite Hq in H. lia.
Qed.

Lemma thr_check_sound : forall q N vc, thr_check q N vc = true -> thr_exact q N vc.
Proof.
  intros q N vc H v c Hin Hf. unfold thr_check in H. rewrite forallb_forall in H.
  specialize (H (v, c) Hin). cbn [snd] in H. rewrite Hf in H. cbn [orb] in H. lia.
Qed.

(* ---- the statement with 2.5*min_freq in place of 2.5/q is FALSE -------------------------------- *)
(* min_freq = 0.29 = 5224175567749775 * 2^-54, q = round(1/0.29) = 3; 120 rows, 20 of them missing:
   values 1,2,3,4 with 39,10,39,12 rows.  No count reaches 120/3 = 40, round(100/120*3) = round(2.5) = 2,
   one quantile at position floor(99*0.5) = 49: the value 3.  The bucket (-inf, 3] holds 88 rows:
   88/120 = 0.7333 > 2.5*0.29 = 0.725 (while 88 <= 2.5*120/3 = 100). *)
Definition mf_witness : Z * Z := (5224175567749775, -54).
Definition vc_witness : vcs := [(1, 39); (2, 10); (3, 39); (4, 12)].

Theorem bucket_bound_min_freq_refuted :
  exists mf q N vc l lo b,
    Sorted Z.lt (observed_values vc) /\ Forall (fun p => 0 < snd p) vc /\ total vc <= N
    /\ q_of_min_freq mf = Some q
    /\ (forall dedup, find_quantiles_v dedup q N vc = QOk l)
    /\ In (lo, Some b) (bounds None l)
    /\ (forall p, In p vc -> is_freq (thr N q) (snd p) = false)
    /\ thr_check q N vc = true /\ newq_check (2 ^ 51) q N (total vc) = true
    /\ positions_check 0 q N (total vc) = true
    (* more than 2.5 * min_freq of the rows *)
    /\ 5 * fst mf * N < 2 * bucket_count vc lo (Some b) * 2 ^ (- snd mf)
    (* not more than 2.5 / q of the rows *)
    /\ 2 * q * bucket_count vc lo (Some b) <= 5 * N
    (* and a value whose frequency 39/120 is above min_freq is not a boundary *)
    /\ (exists v c, In (v, c) vc /\ fst mf * N <= c * 2 ^ (- snd mf) /\ ~ In v l).
Proof.
  exists mf_witness, 3, 120, vc_witness, [3], None, 3.
  split; [repeat constructor|]. split; [repeat constructor|].
  split; [vm_compute; discriminate|]. split; [vm_compute; reflexivity|].
  split; [intros [|]; vm_compute; reflexivity|]. split; [left; reflexivity|].
  split.
  { intros p Hp. repeat (destruct Hp as [<-|Hp]; [vm_compute; reflexivity|]). destruct Hp. }
  split; [vm_compute; reflexivity|]. split; [vm_compute; reflexivity|]. split; [vm_compute; reflexivity|].
  split; [vm_compute; reflexivity|]. split; [vm_compute; discriminate|].
  exists 1, 39. split; [left; reflexivity|]. split; [vm_compute; discriminate|].
  intros [E|[]]. discriminate E.
Qed.

(* the hypotheses of the bound are satisfiable: the same sample with min_freq = 1/3 *)
Example bucket_bound_example :
  let vc := vc_witness in
  wf_vc vc /\ total vc <= 120 /\ thr_exact 3 120 vc /\ newq_near (2 ^ 51) 3 120 (total vc)
  /\ positions_near 0 3 120 (total vc)
  /\ find_quantiles_v true 3 120 vc = QOk [3]
  /\ bounds None [3] = [(None, Some 3); (Some 3, None)]
  /\ bucket_count vc None (Some 3) = 88 /\ bucket_count vc (Some 3) None = 12.
Proof.
  cbv zeta. split.
  { split; [cbn; repeat constructor; lia|repeat constructor]. }
  split; [vm_compute; discriminate|].
  split; [apply thr_check_sound; vm_compute; reflexivity|].
  split; [apply newq_check_sound; vm_compute; reflexivity|].
  split; [apply positions_check_sound; vm_compute; reflexivity|].
  repeat split; vm_compute; reflexivity.
Qed.

(* ============================================================================================ *)
(* G — the statements of Properties/C09.v (well-formedness as numpy.unique guarantees it)          *)
(* ============================================================================================ *)
Lemma wf_of_unique : forall vc,
  Sorted Z.lt (observed_values vc) -> Forall (fun p => 0 < snd p) vc -> wf_vc vc.
Proof.
  intros vc Hs Hp. split; [|exact Hp]. apply Sorted_StronglySorted; [intros a b c; apply Z.lt_trans|exact Hs].
Qed.

Theorem C09_bucket_in_leaf : forall e dedup q len_df vc l,
  Sorted Z.lt (observed_values vc) -> Forall (fun p => 0 < snd p) vc -> 0 <= e ->
  positions_near e q len_df (total vc) ->
  find_quantiles_v dedup q len_df vc = QOk l ->
  forall lo hi, In (lo, hi) (bounds None l) ->
  (forall b c, hi = Some b -> In (b, c) vc -> is_freq (thr len_df q) c = false) ->
  bucket_count vc lo hi = 0 \/
  exists seg c nq,
    (forall p, In p seg -> In p vc /\ is_freq (thr len_df q) (snd p) = false)
    /\ seg <> [] /\ new_q_of q len_df (total seg) = Some nq
    /\ match hi with Some b => In (b, c) seg | None => c = 1 end
    /\ bucket_count vc lo hi <= if 1 <? nq then (total seg - 1) / nq + 2 * e + c else total seg.
Proof.
  intros e dedup q N vc l Hs Hp He Hnear Hfq lo hi Hin Hnf.
  destruct (bucket_leaf_bound e dedup q N vc l (wf_of_unique vc Hs Hp) He Hnear Hfq lo hi Hin Hnf)
    as [E|(seg & c & nq & H1 & H2 & _ & H3 & H4 & H5)]; [left; exact E|right].
  exists seg, c, nq. auto.
Qed.

Theorem C09_bucket_bound : forall e K dedup q len_df vc l,
  Sorted Z.lt (observed_values vc) -> Forall (fun p => 0 < snd p) vc -> total vc <= len_df ->
  0 < q -> 0 <= e -> 0 < K -> len_df <= K ->
  thr_exact q len_df vc -> newq_near K q len_df (total vc) -> positions_near e q len_df (total vc) ->
  find_quantiles_v dedup q len_df vc = QOk l ->
  forall lo hi, In (lo, hi) (bounds None l) ->
  (forall b c, hi = Some b -> In (b, c) vc -> is_freq (thr len_df q) c = false) ->
  4 * q * bucket_count vc lo hi <= 9 * len_df + 8 * e * q.
Proof. intros e K dedup q N vc l Hs Hp. apply bucket_bound_closed. apply wf_of_unique; assumption. Qed.

Theorem C09_bucket_bound_2_5 : forall e K dedup q len_df vc l,
  Sorted Z.lt (observed_values vc) -> Forall (fun p => 0 < snd p) vc -> total vc <= len_df ->
  0 < q -> 0 <= e -> 0 < K -> len_df <= K -> 8 * e * q <= len_df ->
  thr_exact q len_df vc -> newq_near K q len_df (total vc) -> positions_near e q len_df (total vc) ->
  find_quantiles_v dedup q len_df vc = QOk l ->
  forall lo hi, In (lo, hi) (bounds None l) ->
  (forall b c, hi = Some b -> In (b, c) vc -> is_freq (thr len_df q) c = false) ->
  2 * q * bucket_count vc lo hi <= 5 * len_df.
Proof. intros e K dedup q N vc l Hs Hp. apply bucket_bound_2_5. apply wf_of_unique; assumption. Qed.

Theorem C09_bucket_bound_min_freq : forall e K dedup mf q len_df vc l,
  Sorted Z.lt (observed_values vc) -> Forall (fun p => 0 < snd p) vc -> total vc <= len_df ->
  0 < q -> 0 <= e -> 0 < K -> len_df <= K ->
  snd mf <= 0 -> (9 * len_df + 8 * e * q) * 2 ^ (- snd mf) <= 10 * q * fst mf * len_df ->
  thr_exact q len_df vc -> newq_near K q len_df (total vc) -> positions_near e q len_df (total vc) ->
  find_quantiles_v dedup q len_df vc = QOk l ->
  forall lo hi, In (lo, hi) (bounds None l) ->
  (forall b c, hi = Some b -> In (b, c) vc -> is_freq (thr len_df q) c = false) ->
  2 * bucket_count vc lo hi * 2 ^ (- snd mf) <= 5 * fst mf * len_df.
Proof. intros e K dedup mf q N vc l Hs Hp. apply bucket_bound_min_freq. apply wf_of_unique; assumption. Qed.

Print Assumptions bucket_leaf_bound.
Print Assumptions bucket_bound_closed.
Print Assumptions bucket_bound_2_5.
Print Assumptions bucket_bound_min_freq.
Print Assumptions bucket_bound_min_freq_refuted.
