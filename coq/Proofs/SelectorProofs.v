(* SelectorProofs.v — lemmas about Model/Selector.v (sorts, greedy filters, n_best cut, union over
   measures) and the theorems packaged by Properties/C14.v and Properties/C15.v. *)
From Coq Require Import Permutation Sorted Lia.
From AC.Model Require Import Base Selector CheckC14.

Definition desc {A} (k : A -> Z) (a b : A) : Prop := k b <= k a.

(* ---------------------------------------------------------------------------------------- *)
(* stable decreasing sort                                                                     *)
(* ---------------------------------------------------------------------------------------- *)
Lemma insert_desc_perm {A} (k : A -> Z) x l : Permutation (insert_desc k x l) (x :: l).
Proof.
  induction l as [|y t IH]; cbn [insert_desc].
  - apply Permutation_refl.
  - destruct (k x <? k y).
    + eapply Permutation_trans; [apply perm_skip, IH | apply perm_swap].
    + apply Permutation_refl.
Qed.

Lemma sort_desc_perm {A} (k : A -> Z) l : Permutation (sort_desc k l) l.
Proof.
  induction l as [|a t IH]; cbn [sort_desc fold_right].
  - constructor.
  - eapply Permutation_trans; [apply insert_desc_perm | apply perm_skip, IH].
Qed.

Lemma insert_desc_sorted {A} (k : A -> Z) x l :
  StronglySorted (desc k) l -> StronglySorted (desc k) (insert_desc k x l).
Proof.
  induction 1 as [|y t Hs IH Hall]; cbn [insert_desc].
  - constructor; constructor.
  - destruct (k x <? k y) eqn:E.
    + constructor; [exact IH|].
      apply Forall_forall. intros z Hz.
      apply (Permutation_in _ (insert_desc_perm k x t)) in Hz.
      destruct Hz as [<-|Hz].
      * unfold desc. apply Z.ltb_lt in E. lia.
      * rewrite Forall_forall in Hall. apply Hall, Hz.
    + apply Z.ltb_ge in E. constructor.
      * constructor; assumption.
      * constructor; [unfold desc; lia|].
        rewrite Forall_forall in *. intros z Hz. specialize (Hall z Hz). unfold desc in *. lia.
Qed.

Lemma sort_desc_sorted {A} (k : A -> Z) l : StronglySorted (desc k) (sort_desc k l).
Proof.
  induction l as [|a t IH]; cbn [sort_desc fold_right].
  - constructor.
  - apply insert_desc_sorted, IH.
Qed.

(* ---------------------------------------------------------------------------------------- *)
(* subsequences                                                                               *)
(* ---------------------------------------------------------------------------------------- *)
Inductive subseq {A} : list A -> list A -> Prop :=
| ss_nil : forall l, subseq [] l
| ss_cons : forall x a b, subseq a b -> subseq (x :: a) (x :: b)
| ss_skip : forall x a b, subseq a b -> subseq a (x :: b).

Lemma subseq_refl {A} (l : list A) : subseq l l.
Proof. induction l; constructor; assumption. Qed.

Lemma subseq_In {A} (a b : list A) x : subseq a b -> In x a -> In x b.
Proof.
  induction 1 as [l|y a b H IH|y a b H IH]; intros Hin.
  - contradiction.
  - destruct Hin as [->|Hin]; [left; reflexivity|right; auto].
  - right; auto.
Qed.

Lemma subseq_trans {A} (a b c : list A) : subseq a b -> subseq b c -> subseq a c.
Proof.
  intros H1 H2. revert a H1.
  induction H2 as [l|y b c H IH|y b c H IH]; intros a H1.
  - inversion H1; subst; constructor.
  - inversion H1; subst.
    + constructor.
    + constructor. apply IH; assumption.
    + apply ss_skip. apply IH; assumption.
  - apply ss_skip. apply IH; assumption.
Qed.

Lemma subseq_sorted {A} (R : A -> A -> Prop) (a b : list A) :
  subseq a b -> StronglySorted R b -> StronglySorted R a.
Proof.
  induction 1 as [l|y a b H IH|y a b H IH]; intros Hs.
  - constructor.
  - inversion Hs as [|? ? Hs' Hall]; subst. constructor; [apply IH, Hs'|].
    rewrite Forall_forall in *. intros z Hz. apply Hall. eapply subseq_In; eauto.
  - inversion Hs; subst. apply IH; assumption.
Qed.

Lemma subseq_NoDup {A} (a b : list A) : subseq a b -> NoDup b -> NoDup a.
Proof.
  induction 1 as [l|y a b H IH|y a b H IH]; intros Hn.
  - constructor.
  - inversion Hn as [|? ? Hni Hn']; subst. constructor; [|apply IH, Hn'].
    intro Hin. apply Hni. eapply subseq_In; eauto.
  - inversion Hn; subst. apply IH; assumption.
Qed.

Lemma subseq_map {A B} (f : A -> B) (a b : list A) : subseq a b -> subseq (map f a) (map f b).
Proof. induction 1; cbn [map]; constructor; assumption. Qed.

Lemma subseq_pairs {A} (R : A -> A -> Prop) (a b : list A) :
  subseq a b -> ForallOrdPairs R b -> ForallOrdPairs R a.
Proof.
  induction 1 as [l|y a b H IH|y a b H IH]; intros Hp.
  - constructor.
  - inversion Hp as [|? ? Hall Hp']; subst. constructor; [|apply IH, Hp'].
    rewrite Forall_forall in *. intros z Hz. apply Hall. eapply subseq_In; eauto.
  - inversion Hp; subst. apply IH; assumption.
Qed.

Lemma filter_subseq {A} (p : A -> bool) l : subseq (filter p l) l.
Proof. induction l as [|a t IH]; cbn [filter]; [constructor|]. destruct (p a); constructor; exact IH. Qed.

Lemma firstn_subseq {A} n (l : list A) : subseq (firstn n l) l.
Proof.
  revert l. induction n as [|n IH]; intros l; cbn [firstn]; [constructor|].
  destruct l; constructor. apply IH.
Qed.

Lemma greedy_subseq {A} (bad : A -> A -> bool) l : forall kept, subseq (greedy bad kept l) l.
Proof.
  induction l as [|a t IH]; intros kept; cbn [greedy]; [constructor|].
  destruct (existsb (bad a) kept); constructor; apply IH.
Qed.

Lemma apply_filters_subseq {A} (bads : list (A -> A -> bool)) : forall l, subseq (apply_filters bads l) l.
Proof.
  induction bads as [|b bs IH]; intros l; unfold apply_filters; cbn [fold_left].
  - apply subseq_refl.
  - eapply subseq_trans; [apply IH | apply greedy_subseq].
Qed.

(* ---------------------------------------------------------------------------------------- *)
(* greedy filter: independence and maximality                                                 *)
(* ---------------------------------------------------------------------------------------- *)
Lemma greedy_kept_false {A} (bad : A -> A -> bool) l :
  forall kept x, In x (greedy bad kept l) -> forall g, In g kept -> bad x g = false.
Proof.
  induction l as [|a t IH]; intros kept x Hx g Hg; cbn [greedy] in Hx; [contradiction|].
  destruct (existsb (bad a) kept) eqn:E.
  - eapply IH; eauto.
  - destruct Hx as [<-|Hx].
    + destruct (bad a g) eqn:B; [|reflexivity].
      assert (existsb (bad a) kept = true) by (apply existsb_exists; exists g; auto). congruence.
    + eapply IH; [exact Hx | right; exact Hg].
Qed.

Lemma greedy_pairs {A} (bad : A -> A -> bool) l :
  forall kept, ForallOrdPairs (fun a b => bad b a = false) (greedy bad kept l).
Proof.
  induction l as [|a t IH]; intros kept; cbn [greedy]; [constructor|].
  destruct (existsb (bad a) kept); [apply IH|].
  constructor; [|apply IH].
  apply Forall_forall. intros y Hy. eapply greedy_kept_false; [exact Hy | left; reflexivity].
Qed.

Lemma greedy_maximal {A} (k : A -> Z) (bad : A -> A -> bool) l :
  forall kept x, StronglySorted (desc k) l -> In x l -> ~ In x (greedy bad kept l) ->
  exists g, (In g kept \/ (In g (greedy bad kept l) /\ k x <= k g)) /\ bad x g = true.
Proof.
  induction l as [|a t IH]; intros kept x Hs Hin Hout; [contradiction|].
  inversion Hs as [|? ? Hs' Hall]; subst. cbn [greedy] in *.
  destruct (existsb (bad a) kept) eqn:E.
  - destruct Hin as [->|Hin].
    + apply existsb_exists in E. destruct E as [g [Hg Hb]]. exists g. split; [left; exact Hg|exact Hb].
    + destruct (IH kept x Hs' Hin Hout) as [g [Hg Hb]]. exists g. split; assumption.
  - destruct Hin as [->|Hin]; [exfalso; apply Hout; left; reflexivity|].
    assert (Hout' : ~ In x (greedy bad (a :: kept) t)) by (intro H; apply Hout; right; exact H).
    destruct (IH (a :: kept) x Hs' Hin Hout') as [g [[[<-|Hg]|[Hg Hk]] Hb]].
    + exists a. split; [|exact Hb]. right. split; [left; reflexivity|].
      rewrite Forall_forall in Hall. apply (Hall x Hin).
    + exists g. split; [left; exact Hg|exact Hb].
    + exists g. split; [|exact Hb]. right. split; [right; exact Hg|exact Hk].
Qed.

Lemma apply_filters_pairs {A} (bads : list (A -> A -> bool)) :
  forall l b, In b bads -> ForallOrdPairs (fun a c => b c a = false) (apply_filters bads l).
Proof.
  induction bads as [|b0 bs IH]; intros l b Hb; [contradiction|].
  unfold apply_filters; cbn [fold_left]. destruct Hb as [<-|Hb].
  - eapply subseq_pairs; [apply (apply_filters_subseq bs) | apply greedy_pairs].
  - apply IH, Hb.
Qed.

(* why a feature was dropped by the chain of filters *)
Fixpoint drop_reason {A} (k : A -> Z) (bads : list (A -> A -> bool)) (l : list A) (x : A) : Prop :=
  match bads with
  | [] => False
  | b :: bs =>
      (exists g, In g (greedy b [] l) /\ k x <= k g /\ b x g = true)
      \/ (In x (greedy b [] l) /\ drop_reason k bs (greedy b [] l) x)
  end.

Lemma apply_filters_maximal {A} (dec : forall a b : A, {a = b} + {a <> b}) (k : A -> Z)
      (bads : list (A -> A -> bool)) :
  forall l x, StronglySorted (desc k) l -> In x l -> ~ In x (apply_filters bads l) ->
  drop_reason k bads l x.
Proof.
  induction bads as [|b bs IH]; intros l x Hs Hin Hout.
  - exfalso. apply Hout. exact Hin.
  - unfold apply_filters in Hout; cbn [fold_left] in Hout. cbn [drop_reason].
    destruct (in_dec dec x (greedy b [] l)) as [Hk|Hk].
    + right. split; [exact Hk|]. apply IH; [|exact Hk|exact Hout].
      eapply subseq_sorted; [apply greedy_subseq | exact Hs].
    + left. destruct (greedy_maximal k b l [] x Hs Hin Hk) as [g [[Hg|[Hg Hkg]] Hb]]; [contradiction|].
      exists g. auto.
Qed.

Lemma firstn_maximal {A} (k : A -> Z) n :
  forall l x, StronglySorted (desc k) l -> In x l -> ~ In x (firstn n l) ->
  List.length (firstn n l) = n /\ forall g, In g (firstn n l) -> k x <= k g.
Proof.
  induction n as [|n IH]; intros l x Hs Hin Hout; cbn [firstn] in *.
  - split; [reflexivity|intros g []].
  - destruct l as [|a t]; [contradiction|].
    inversion Hs as [|? ? Hs' Hall]; subst.
    destruct Hin as [->|Hin]; [exfalso; apply Hout; left; reflexivity|].
    assert (Hout' : ~ In x (firstn n t)) by (intro H; apply Hout; right; exact H).
    destruct (IH t x Hs' Hin Hout') as [Hl Hg]. split; [cbn [List.length]; lia|].
    intros g [<-|Hg']; [|apply Hg, Hg'].
    rewrite Forall_forall in Hall. apply (Hall x Hin).
Qed.

(* ---------------------------------------------------------------------------------------- *)
(* select_core                                                                                *)
(* ---------------------------------------------------------------------------------------- *)
Lemma initial_order_perm {A} (keyf : A -> nat -> Z) cols comp :
  Permutation (initial_order keyf cols comp) comp.
Proof.
  induction cols as [|j t IH]; unfold initial_order; cbn [fold_right].
  - apply Permutation_refl.
  - eapply Permutation_trans; [apply sort_desc_perm | exact IH].
Qed.

Lemma initial_order_sorted {A} (keyf : A -> nat -> Z) j rest comp :
  StronglySorted (desc (fun r => keyf r j)) (initial_order keyf (j :: rest) comp).
Proof. unfold initial_order; cbn [fold_right]. apply sort_desc_sorted. Qed.

Lemma selected_for_subseq {A} (keyf : A -> nat -> Z) bads nbest initial j :
  subseq (selected_for keyf bads nbest initial j) (sort_desc (fun r => keyf r j) initial).
Proof.
  unfold selected_for. eapply subseq_trans; [apply firstn_subseq | apply apply_filters_subseq].
Qed.

Lemma selected_for_In {A} (keyf : A -> nat -> Z) bads nbest initial j x :
  In x (selected_for keyf bads nbest initial j) -> In x initial.
Proof.
  intros H. apply (Permutation_in _ (sort_desc_perm (fun r => keyf r j) initial)).
  eapply subseq_In; [apply selected_for_subseq | exact H].
Qed.


(* membership in the union over measures *)
Lemma select_core_In {A} (ideq : A -> A -> bool) (keyf : A -> nat -> Z) bads nbest cols comp x :
  (forall a, ideq a a = true) ->
  (forall a b, In a comp -> In b comp -> ideq a b = true -> a = b) ->
  (In x (select_core ideq keyf bads nbest cols comp) <->
   In x comp /\ exists j, In j cols /\
     In x (selected_for keyf bads nbest (initial_order keyf cols comp) j)).
Proof.
  intros Hrefl Hinj. unfold select_core. rewrite filter_In. split.
  - intros [Hin Hex]. pose proof (Permutation_in _ (initial_order_perm keyf cols comp) Hin) as Hc.
    split; [exact Hc|].
    apply existsb_exists in Hex. destruct Hex as [s [Hs Hm]].
    apply in_map_iff in Hs. destruct Hs as [j [<- Hj]].
    unfold memb in Hm. apply existsb_exists in Hm. destruct Hm as [y [Hy He]].
    exists j. split; [exact Hj|].
    assert (Hyc : In y comp).
    { apply (Permutation_in _ (initial_order_perm keyf cols comp)). eapply selected_for_In, Hy. }
    rewrite (Hinj x y Hc Hyc He). exact Hy.
  - intros [Hc [j [Hj Hs]]]. split.
    + apply (Permutation_in _ (Permutation_sym (initial_order_perm keyf cols comp)) Hc).
    + apply existsb_exists. exists (selected_for keyf bads nbest (initial_order keyf cols comp) j).
      split; [apply in_map, Hj|]. unfold memb. apply existsb_exists. exists x. auto.
Qed.

Lemma select_core_subseq {A} (ideq : A -> A -> bool) (keyf : A -> nat -> Z) bads nbest cols comp :
  subseq (select_core ideq keyf bads nbest cols comp) (initial_order keyf cols comp).
Proof. unfold select_core. apply filter_subseq. Qed.

(* sorted by decreasing key of the most significant ranking column *)
Theorem select_core_sorted {A} (ideq : A -> A -> bool) (keyf : A -> nat -> Z) bads nbest j rest comp :
  StronglySorted (desc (fun r => keyf r j)) (select_core ideq keyf bads nbest (j :: rest) comp).
Proof. eapply subseq_sorted; [apply select_core_subseq | apply initial_order_sorted]. Qed.

Theorem selected_for_length {A} (keyf : A -> nat -> Z) bads nbest initial j :
  (List.length (selected_for keyf bads nbest initial j) <= nbest)%nat.
Proof. unfold selected_for. apply firstn_le_length. Qed.

Theorem selected_for_independent {A} (keyf : A -> nat -> Z) bads nbest initial j b :
  In b bads -> ForallOrdPairs (fun a c => b c a = false) (selected_for keyf bads nbest initial j).
Proof.
  intros Hb. unfold selected_for.
  eapply subseq_pairs; [apply firstn_subseq | apply apply_filters_pairs, Hb].
Qed.

Theorem selected_for_sorted {A} (keyf : A -> nat -> Z) bads nbest initial j :
  StronglySorted (desc (fun r => keyf r j)) (selected_for keyf bads nbest initial j).
Proof. eapply subseq_sorted; [apply selected_for_subseq | apply sort_desc_sorted]. Qed.

(* every complete feature that is not selected for measure j has a reason *)
Theorem selected_for_maximal {A} (dec : forall a b : A, {a = b} + {a <> b})
        (keyf : A -> nat -> Z) bads nbest initial j x :
  In x initial -> ~ In x (selected_for keyf bads nbest initial j) ->
  let kj := fun r => keyf r j in
  let ranked := sort_desc kj initial in
  drop_reason kj bads ranked x
  \/ (In x (apply_filters bads ranked)
      /\ List.length (selected_for keyf bads nbest initial j) = nbest
      /\ forall g, In g (selected_for keyf bads nbest initial j) -> keyf x j <= keyf g j).
Proof.
  intros Hin Hout kj ranked.
  assert (Hr : In x ranked).
  { apply (Permutation_in _ (Permutation_sym (sort_desc_perm kj initial)) Hin). }
  assert (Hs : StronglySorted (desc kj) ranked) by apply sort_desc_sorted.
  destruct (in_dec dec x (apply_filters bads ranked)) as [Hk|Hk].
  - right. split; [exact Hk|]. unfold selected_for in *. fold kj in Hout. fold ranked in Hout.
    fold kj. fold ranked.
    apply (firstn_maximal kj nbest (apply_filters bads ranked) x); [|exact Hk|exact Hout].
    eapply subseq_sorted; [apply apply_filters_subseq | exact Hs].
  - left. apply (apply_filters_maximal dec); assumption.
Qed.

(* the best-ranked feature of a measure is always returned *)
Lemma sorted_head_max {A} (dec : forall a b : A, {a = b} + {a <> b}) (k : A -> Z) l x :
  StronglySorted (desc k) l -> In x l -> (forall y, In y l -> y <> x -> k y < k x) ->
  exists t, l = x :: t.
Proof.
  intros Hs Hin Hmax. destruct l as [|h t]; [contradiction|].
  inversion Hs as [|? ? _ Hall]; subst.
  destruct (dec h x) as [->|Hne]; [exists t; reflexivity|].
  exfalso. destruct Hin as [->|Hin]; [apply Hne; reflexivity|].
  rewrite Forall_forall in Hall. pose proof (Hall x Hin) as Hle. unfold desc in Hle.
  pose proof (Hmax h (or_introl eq_refl) Hne). lia.
Qed.

Lemma greedy_head {A} (bad : A -> A -> bool) x t : exists t', greedy bad [] (x :: t) = x :: t'.
Proof. cbn [greedy existsb]. eexists. reflexivity. Qed.

Lemma apply_filters_head {A} (bads : list (A -> A -> bool)) :
  forall x t, exists t', apply_filters bads (x :: t) = x :: t'.
Proof.
  induction bads as [|b bs IH]; intros x t; unfold apply_filters; cbn [fold_left].
  - eexists. reflexivity.
  - destruct (greedy_head b x t) as [t' ->]. apply IH.
Qed.

Theorem best_feature_selected {A} (dec : forall a b : A, {a = b} + {a <> b})
        (keyf : A -> nat -> Z) bads nbest initial j x :
  (1 <= nbest)%nat -> In x initial ->
  (forall y, In y initial -> y <> x -> keyf y j < keyf x j) ->
  In x (selected_for keyf bads nbest initial j).
Proof.
  intros Hn Hin Hmax. unfold selected_for.
  destruct (sorted_head_max dec (fun r => keyf r j) (sort_desc (fun r => keyf r j) initial) x) as [t Ht].
  - apply sort_desc_sorted.
  - apply (Permutation_in _ (Permutation_sym (sort_desc_perm _ initial)) Hin).
  - intros y Hy Hne. apply Hmax; [|exact Hne].
    apply (Permutation_in _ (sort_desc_perm _ initial) Hy).
  - rewrite Ht. destruct (apply_filters_head bads x t) as [t' ->].
    destruct nbest as [|n]; [lia|]. cbn [firstn]. left. reflexivity.
Qed.

(* ---------------------------------------------------------------------------------------- *)
(* C15: the selection depends on the features only through the tables                         *)
(* ---------------------------------------------------------------------------------------- *)
Lemma existsb_map_comp {A B} (f : B -> bool) (phi : A -> B) l :
  existsb f (map phi l) = existsb (fun a => f (phi a)) l.
Proof. induction l as [|a t IH]; cbn [map existsb]; [reflexivity|]. rewrite IH. reflexivity. Qed.

Lemma existsb_ext_eq {A} (f g : A -> bool) l : (forall a, f a = g a) -> existsb f l = existsb g l.
Proof. intros H. induction l as [|a t IH]; cbn [existsb]; [reflexivity|]. rewrite H, IH. reflexivity. Qed.

Lemma filter_map_comp {A B} (p : B -> bool) (phi : A -> B) l :
  filter p (map phi l) = map phi (filter (fun a => p (phi a)) l).
Proof.
  induction l as [|a t IH]; cbn [map filter]; [reflexivity|].
  destruct (p (phi a)); cbn [map]; rewrite IH; reflexivity.
Qed.

Lemma insert_desc_map {A B} (phi : A -> B) (kA : A -> Z) (kB : B -> Z) :
  (forall a, kB (phi a) = kA a) ->
  forall x l, insert_desc kB (phi x) (map phi l) = map phi (insert_desc kA x l).
Proof.
  intros Hk x l. induction l as [|y t IH]; cbn [map insert_desc]; [reflexivity|].
  rewrite !Hk. destruct (kA x <? kA y); cbn [map]; [rewrite IH|]; reflexivity.
Qed.

Lemma sort_desc_map {A B} (phi : A -> B) (kA : A -> Z) (kB : B -> Z) :
  (forall a, kB (phi a) = kA a) ->
  forall l, sort_desc kB (map phi l) = map phi (sort_desc kA l).
Proof.
  intros Hk l. induction l as [|a t IH]; cbn [map sort_desc fold_right]; [reflexivity|].
  change (fold_right (insert_desc kB) [] (map phi t)) with (sort_desc kB (map phi t)).
  change (fold_right (insert_desc kA) [] t) with (sort_desc kA t).
  rewrite IH. apply insert_desc_map, Hk.
Qed.

Lemma greedy_map {A B} (phi : A -> B) (bA : A -> A -> bool) (bB : B -> B -> bool) :
  (forall a b, bB (phi a) (phi b) = bA a b) ->
  forall l kept, greedy bB (map phi kept) (map phi l) = map phi (greedy bA kept l).
Proof.
  intros Hb l. induction l as [|a t IH]; intros kept; cbn [map greedy]; [reflexivity|].
  rewrite existsb_map_comp. rewrite (existsb_ext_eq _ (bA a)) by (intros; apply Hb).
  destruct (existsb (bA a) kept).
  - apply IH.
  - cbn [map]. f_equal. apply (IH (a :: kept)).
Qed.

Definition bads_rel {A B} (phi : A -> B) (bA : A -> A -> bool) (bB : B -> B -> bool) : Prop :=
  forall a b, bB (phi a) (phi b) = bA a b.

Lemma apply_filters_map {A B} (phi : A -> B) badsA badsB :
  Forall2 (bads_rel phi) badsA badsB ->
  forall l, apply_filters badsB (map phi l) = map phi (apply_filters badsA l).
Proof.
  induction 1 as [|bA bB ta tb Hb _ IH]; intros l; unfold apply_filters; cbn [fold_left]; [reflexivity|].
  change (greedy bB [] (map phi l)) with (greedy bB (map phi []) (map phi l)).
  rewrite (greedy_map phi bA bB Hb). apply IH.
Qed.

Lemma initial_order_map {A B} (phi : A -> B) (keyA : A -> nat -> Z) (keyB : B -> nat -> Z) :
  (forall a j, keyB (phi a) j = keyA a j) ->
  forall cols comp, initial_order keyB cols (map phi comp) = map phi (initial_order keyA cols comp).
Proof.
  intros Hk cols comp. induction cols as [|j t IH]; unfold initial_order; cbn [fold_right]; [reflexivity|].
  change (fold_right (fun j acc => sort_desc (fun r => keyB r j) acc) (map phi comp) t)
    with (initial_order keyB t (map phi comp)).
  rewrite IH. apply sort_desc_map. intros a. apply Hk.
Qed.

Lemma selected_for_map {A B} (phi : A -> B) keyA keyB badsA badsB nbest :
  (forall a j, keyB (phi a) j = keyA a j) -> Forall2 (bads_rel phi) badsA badsB ->
  forall initial j, selected_for keyB badsB nbest (map phi initial) j
                    = map phi (selected_for keyA badsA nbest initial j).
Proof.
  intros Hk Hb initial j. unfold selected_for.
  rewrite (sort_desc_map phi (fun r => keyA r j)) by (intros; apply Hk).
  rewrite (apply_filters_map phi badsA badsB Hb). apply firstn_map.
Qed.

Theorem select_core_map {A B} (phi : A -> B) ideqA ideqB keyA keyB badsA badsB nbest cols comp :
  (forall a b, ideqB (phi a) (phi b) = ideqA a b) ->
  (forall a j, keyB (phi a) j = keyA a j) ->
  Forall2 (bads_rel phi) badsA badsB ->
  select_core ideqB keyB badsB nbest cols (map phi comp)
  = map phi (select_core ideqA keyA badsA nbest cols comp).
Proof.
  intros Hi Hk Hb. unfold select_core.
  rewrite (initial_order_map phi keyA keyB Hk).
  rewrite filter_map_comp. f_equal. apply filter_ext. intros r.
  rewrite !existsb_map_comp. apply existsb_ext_eq. intros j.
  rewrite (selected_for_map phi keyA keyB badsA badsB nbest Hk Hb).
  unfold memb. rewrite existsb_map_comp. apply existsb_ext_eq. intros y. apply Hi.
Qed.

(* permuting the input features does not change the selection when no measure is tied *)
Lemma sorted_perm_unique {A} (k : A -> Z) :
  forall l l', StronglySorted (desc k) l -> StronglySorted (desc k) l' -> Permutation l l' ->
  (forall a b, In a l -> In b l -> k a = k b -> a = b) -> l = l'.
Proof.
  induction l as [|a t IH]; intros l' Hs Hs' Hp Hinj.
  - apply Permutation_nil in Hp. subst. reflexivity.
  - destruct l' as [|a' t']; [apply Permutation_sym, Permutation_nil in Hp; discriminate|].
    inversion Hs as [|? ? Hst Hall]; subst. inversion Hs' as [|? ? Hst' Hall']; subst.
    rewrite Forall_forall in Hall, Hall'.
    assert (Ha : In a (a' :: t')) by (apply (Permutation_in _ Hp); left; reflexivity).
    assert (Ha' : In a' (a :: t)) by (apply (Permutation_in _ (Permutation_sym Hp)); left; reflexivity).
    assert (E : a = a').
    { apply Hinj; [left; reflexivity | exact Ha' |].
      assert (k a <= k a') by (destruct Ha as [->|Ha]; [lia | apply (Hall' a Ha)]).
      assert (k a' <= k a) by (destruct Ha' as [->|Ha']; [lia | apply (Hall a' Ha')]).
      lia. }
    subst a'. f_equal. apply IH; try assumption.
    + eapply Permutation_cons_inv, Hp.
    + intros x y Hx Hy. apply Hinj; right; assumption.
Qed.

Lemma sort_desc_perm_eq {A} (k : A -> Z) l l' :
  Permutation l l' -> (forall a b, In a l -> In b l -> k a = k b -> a = b) ->
  sort_desc k l = sort_desc k l'.
Proof.
  intros Hp Hinj. apply (sorted_perm_unique k); try apply sort_desc_sorted.
  - eapply Permutation_trans; [apply sort_desc_perm|].
    eapply Permutation_trans; [exact Hp | apply Permutation_sym, sort_desc_perm].
  - intros a b Ha Hb. apply Hinj; apply (Permutation_in _ (sort_desc_perm k l)); assumption.
Qed.

Lemma filter_none {A} (l : list A) : filter (fun _ => false) l = [].
Proof. induction l; cbn [filter]; auto. Qed.

Lemma select_core_nocols {A} (ideq : A -> A -> bool) keyf bads nbest comp :
  select_core ideq keyf bads nbest [] comp = [].
Proof. unfold select_core. cbn [map existsb]. apply filter_none. Qed.

Theorem select_core_perm {A} (ideq : A -> A -> bool) keyf bads nbest cols comp comp' :
  Permutation comp comp' ->
  (forall j a b, In j cols -> In a comp -> In b comp -> keyf a j = keyf b j -> a = b) ->
  select_core ideq keyf bads nbest cols comp = select_core ideq keyf bads nbest cols comp'.
Proof.
  intros Hp Hinj. destruct cols as [|j rest]; [rewrite !select_core_nocols; reflexivity|].
  assert (E : initial_order keyf (j :: rest) comp = initial_order keyf (j :: rest) comp').
  { unfold initial_order; cbn [fold_right]. apply sort_desc_perm_eq.
    - eapply Permutation_trans; [apply (initial_order_perm keyf rest comp)|].
      eapply Permutation_trans; [exact Hp | apply Permutation_sym, (initial_order_perm keyf rest comp')].
    - intros a b Ha Hb. apply (Hinj j); [left; reflexivity| |];
        apply (Permutation_in _ (initial_order_perm keyf rest comp)); assumption. }
  unfold select_core. rewrite E. reflexivity.
Qed.

(* ---------------------------------------------------------------------------------------- *)
(* from select_core to select_type                                                            *)
(* ---------------------------------------------------------------------------------------- *)
Lemma cell_eq_dec (a b : cell) : {a = b} + {a <> b}.
Proof. decide equality. apply Z.eq_dec. Defined.

Lemma row_eq_dec (a b : row) : {a = b} + {a <> b}.
Proof. decide equality; [apply list_eq_dec, cell_eq_dec | apply bool_dec | apply Nat.eq_dec]. Defined.

Lemma rows_of_ids n tn tm ms : forall fs rows,
  rows_of n tn tm ms fs = Ok rows -> map rid rows = map f_id fs.
Proof.
  induction fs as [|f t IH]; intros rows H; cbn [rows_of] in H.
  - injection H as <-. reflexivity.
  - destruct (pipeline (base_ok n tn tm f) ms (f_raw f)) as [cs| |]; cbn [bind] in H; try discriminate.
    destruct (rows_of n tn tm ms t) as [rest| |]; cbn [bind] in H; try discriminate.
    injection H as <-. cbn [map rid]. f_equal. apply IH. reflexivity.
Qed.

Definition comp_of (t : tin) (rows : list row) : list row :=
  filter (complete (List.length (t_ms t)) rows) rows.

Definition core_of (t : tin) (rows : list row) : list row :=
  select_core row_ideq key (map bad_of (t_filters t)) (t_nbest t) (rank_cols (t_ms t) rows) (comp_of t rows).

Lemma select_rows_core t rows sel : select_rows t rows = Ok sel -> sel = core_of t rows.
Proof.
  unfold select_rows, core_of, comp_of. intros H.
  destruct (rank_cols (t_ms t) rows) as [|j rest] eqn:E.
  - injection H as <-. rewrite select_core_nocols. reflexivity.
  - destruct (filter (complete (List.length (t_ms t)) rows) rows) as [|r comp];
      [destruct (t_filters t) as [|f1 [|f2 fr]]|]; try discriminate; injection H as <-; reflexivity.
Qed.

Lemma select_type_core t out :
  select_type t = Ok out ->
  exists rows, table_of t = Ok rows /\ map rid rows = map f_id (t_feats t) /\ out = map rid (core_of t rows).
Proof.
  unfold select_type. intros H.
  destruct (table_of t) as [rows| |] eqn:Et; cbn [bind] in H; try discriminate.
  destruct (select_rows t rows) as [sel| |] eqn:Es; cbn [bind] in H; try discriminate.
  injection H as <-. exists rows. split; [reflexivity|]. split.
  - unfold table_of in Et. eapply rows_of_ids, Et.
  - rewrite (select_rows_core _ _ _ Es). reflexivity.
Qed.

Lemma NoDup_map_inj {A B} (f : A -> B) l a b :
  NoDup (map f l) -> In a l -> In b l -> f a = f b -> a = b.
Proof.
  induction l as [|x t IH]; intros Hn Ha Hb E; [contradiction|].
  cbn [map] in Hn. inversion Hn as [|? ? Hni Hn']; subst.
  destruct Ha as [->|Ha], Hb as [->|Hb]; auto.
  - exfalso. apply Hni. rewrite E. apply in_map, Hb.
  - exfalso. apply Hni. rewrite <- E. apply in_map, Ha.
Qed.

Lemma row_ideq_refl a : row_ideq a a = true.
Proof. unfold row_ideq. apply Nat.eqb_refl. Qed.

Lemma core_subseq_rows t rows :
  exists l, subseq (core_of t rows) l /\ Permutation l (comp_of t rows).
Proof.
  exists (initial_order key (rank_cols (t_ms t) rows) (comp_of t rows)). split.
  - apply select_core_subseq.
  - apply initial_order_perm.
Qed.

Theorem select_type_distinct t out :
  NoDup (map f_id (t_feats t)) -> select_type t = Ok out ->
  NoDup out /\ incl out (map f_id (t_feats t)).
Proof.
  intros Hn H. destruct (select_type_core t out H) as [rows [_ [Hids ->]]].
  rewrite <- Hids in *. destruct (core_subseq_rows t rows) as [l [Hss Hp]].
  assert (Hc : subseq (comp_of t rows) rows) by apply filter_subseq.
  split.
  - eapply subseq_NoDup; [apply subseq_map, Hss|].
    eapply Permutation_NoDup; [apply Permutation_map, Permutation_sym, Hp|].
    eapply subseq_NoDup; [apply subseq_map, Hc | exact Hn].
  - intros x Hx. apply in_map_iff in Hx. destruct Hx as [r [<- Hr]]. apply in_map.
    eapply subseq_In; [exact Hc|]. apply (Permutation_in _ Hp). eapply subseq_In; eauto.
Qed.

(* ---------------------------------------------------------------------------------------- *)
(* C14 packaged on the dtype level                                                            *)
(* ---------------------------------------------------------------------------------------- *)
Definition cols_of (t : tin) (rows : list row) : list nat := rank_cols (t_ms t) rows.
Definition bads_of (t : tin) : list (row -> row -> bool) := map bad_of (t_filters t).
Definition initial_of (t : tin) (rows : list row) : list row :=
  initial_order key (cols_of t rows) (comp_of t rows).
Definition sel_of (t : tin) (rows : list row) (j : nat) : list row :=
  selected_for key (bads_of t) (t_nbest t) (initial_of t rows) j.

Lemma rows_inj t rows a b :
  NoDup (map rid rows) -> In a (comp_of t rows) -> In b (comp_of t rows) -> row_ideq a b = true -> a = b.
Proof.
  intros Hn Ha Hb E. unfold row_ideq in E. apply Nat.eqb_eq in E.
  assert (Hs : subseq (comp_of t rows) rows) by apply filter_subseq.
  apply (NoDup_map_inj rid rows); auto; eapply subseq_In; eauto.
Qed.

Lemma core_In t rows x :
  NoDup (map rid rows) ->
  (In x (core_of t rows) <-> In x (comp_of t rows) /\ exists j, In j (cols_of t rows) /\ In x (sel_of t rows j)).
Proof.
  intros Hn. unfold core_of, sel_of, initial_of, cols_of, bads_of.
  apply select_core_In; [apply row_ideq_refl|]. intros a b. apply rows_inj, Hn.
Qed.

Theorem select_type_sorted t out :
  select_type t = Ok out ->
  exists rows sel, table_of t = Ok rows /\ out = map rid sel /\
    forall j rest, rank_cols (t_ms t) rows = j :: rest ->
                   StronglySorted (fun a b => key b j <= key a j) sel.
Proof.
  intros H. destruct (select_type_core t out H) as [rows [Ht [_ ->]]].
  exists rows, (core_of t rows). split; [exact Ht|]. split; [reflexivity|].
  intros j rest E. unfold core_of. rewrite E. apply (select_core_sorted row_ideq key).
Qed.

Lemma filter_split_length {A} (p : A -> bool) l :
  (List.length (filter p l) + List.length (filter (fun x => negb (p x)) l) = List.length l)%nat.
Proof. induction l as [|a t IH]; cbn [filter List.length]; [reflexivity|]. destruct (p a); cbn [negb List.length]; lia. Qed.

Lemma cover_length {A} (dec : forall a b : A, {a = b} + {a <> b}) (n : nat) :
  forall (ss : list (list A)) (l : list A), NoDup l ->
  (forall x, In x l -> exists s, In s ss /\ In x s) ->
  (forall s, In s ss -> (List.length s <= n)%nat) ->
  (List.length l <= n * List.length ss)%nat.
Proof.
  induction ss as [|s ss IH]; intros l Hn Hc Hl.
  - destruct l as [|x t]; [cbn; lia|]. destruct (Hc x (or_introl eq_refl)) as [s [[] _]].
  - set (p := fun x => if in_dec dec x s then true else false).
    pose proof (filter_split_length p l) as Hsplit.
    assert (H1 : (List.length (filter p l) <= n)%nat).
    { etransitivity; [|apply (Hl s); left; reflexivity].
      apply NoDup_incl_length; [apply NoDup_filter, Hn|].
      intros x Hx. apply filter_In in Hx. destruct Hx as [_ Hp]. unfold p in Hp.
      destruct (in_dec dec x s); [assumption|discriminate]. }
    assert (H2 : (List.length (filter (fun x => negb (p x)) l) <= n * List.length ss)%nat).
    { apply IH; [apply NoDup_filter, Hn| |intros s' Hs'; apply Hl; right; exact Hs'].
      intros x Hx. apply filter_In in Hx. destruct Hx as [Hx Hp]. unfold p in Hp.
      destruct (in_dec dec x s) as [|Hns]; [discriminate|].
      destruct (Hc x Hx) as [s' [[<-|Hs'] Hxs]]; [contradiction|]. exists s'. auto. }
    cbn [List.length]. rewrite Nat.mul_succ_r. lia.
Qed.

Theorem select_type_nbest t out :
  NoDup (map f_id (t_feats t)) -> select_type t = Ok out ->
  exists rows, table_of t = Ok rows /\
    (forall j, (List.length (sel_of t rows j) <= t_nbest t)%nat) /\
    (forall i, In i out -> exists r j, In j (cols_of t rows) /\ In r (sel_of t rows j) /\ rid r = i) /\
    (List.length out <= t_nbest t * List.length (cols_of t rows))%nat.
Proof.
  intros Hn H. destruct (select_type_core t out H) as [rows [Ht [Hids ->]]].
  rewrite <- Hids in Hn. exists rows. split; [exact Ht|]. split; [|split].
  - intros j. apply selected_for_length.
  - intros i Hi. apply in_map_iff in Hi. destruct Hi as [r [<- Hr]].
    apply (core_In t rows r Hn) in Hr. destruct Hr as [_ [j [Hj Hs]]]. exists r, j. auto.
  - rewrite map_length.
    replace (List.length (cols_of t rows)) with (List.length (map (sel_of t rows) (cols_of t rows)))
      by apply map_length.
    apply (cover_length row_eq_dec).
    + destruct (core_subseq_rows t rows) as [l [Hss Hp]].
      eapply subseq_NoDup; [exact Hss|]. eapply Permutation_NoDup; [apply Permutation_sym, Hp|].
      eapply subseq_NoDup; [apply filter_subseq|]. eapply NoDup_map_inv, Hn.
    + intros x Hx. apply (core_In t rows x Hn) in Hx. destruct Hx as [_ [j [Hj Hs]]].
      exists (sel_of t rows j). split; [apply in_map, Hj|exact Hs].
    + intros s Hs. apply in_map_iff in Hs. destruct Hs as [j [<- _]]. apply selected_for_length.
Qed.

Lemma bad_of_false f a c :
  bad_of f a c = false -> fst (assoc_at f (rid a) (rid c)) <= fl_thresh f.
Proof.
  unfold bad_of. destruct (assoc_at f (rid a) (rid c)) as [v gt]. cbn [fst].
  intros H. apply orb_false_iff in H. destruct H as [H _]. apply Z.ltb_ge in H. exact H.
Qed.

Theorem select_type_independent t rows :
  (forall j f, In f (t_filters t) ->
     ForallOrdPairs (fun a c => fst (assoc_at f (rid c) (rid a)) <= fl_thresh f) (sel_of t rows j)) /\
  (NoDup (map rid rows) -> forall j, cols_of t rows = [j] ->
     forall f a c, In f (t_filters t) -> In a (core_of t rows) -> In c (core_of t rows) -> a <> c ->
       fst (assoc_at f (rid a) (rid c)) <= fl_thresh f \/ fst (assoc_at f (rid c) (rid a)) <= fl_thresh f).
Proof.
  assert (P : forall j f, In f (t_filters t) ->
     ForallOrdPairs (fun a c => fst (assoc_at f (rid c) (rid a)) <= fl_thresh f) (sel_of t rows j)).
  { intros j f Hf.
    assert (Hb : In (bad_of f) (bads_of t)) by (apply in_map, Hf).
    pose proof (selected_for_independent key (bads_of t) (t_nbest t) (initial_of t rows) j _ Hb) as Hp.
    fold (sel_of t rows j) in Hp. induction Hp as [|a l Hall Hp IH]; constructor; [|exact IH].
    rewrite Forall_forall in *. intros c Hc. apply bad_of_false, Hall, Hc. }
  split; [exact P|].
  intros Hn j Ecols f a c Hf Ha Hc Hne.
  apply (core_In t rows a Hn) in Ha. apply (core_In t rows c Hn) in Hc.
  destruct Ha as [_ [ja [Hja Ha]]]. destruct Hc as [_ [jc [Hjc Hc]]].
  rewrite Ecols in Hja, Hjc. destruct Hja as [<-|[]]. destruct Hjc as [<-|[]].
  destruct (ForallOrdPairs_In (P j f Hf) a c Ha Hc) as [E|[H|H]]; [contradiction|right; exact H|left; exact H].
Qed.

Lemma forallb_false_ex {A} (p : A -> bool) l : forallb p l = false -> exists x, In x l /\ p x = false.
Proof.
  induction l as [|a t IH]; cbn [forallb]; [discriminate|].
  destruct (p a) eqn:E; cbn [andb]; intros H.
  - destruct (IH H) as [x [Hx Hp]]. exists x. split; [right; exact Hx|exact Hp].
  - exists a. split; [left; reflexivity|exact E].
Qed.

(* every input feature that is not returned has a reason *)
Theorem select_type_maximal t rows r :
  NoDup (map rid rows) -> In r rows -> ~ In (rid r) (map rid (core_of t rows)) ->
  (rbase r = false \/ exists j, col_exists rows j = true /\ is_val (cell_at r j) = false)
  \/ (In r (comp_of t rows) /\ forall j, In j (cols_of t rows) ->
        let kj := fun x => key x j in
        let ranked := sort_desc kj (initial_of t rows) in
        drop_reason kj (bads_of t) ranked r
        \/ (In r (apply_filters (bads_of t) ranked)
            /\ List.length (sel_of t rows j) = t_nbest t
            /\ forall g, In g (sel_of t rows j) -> key r j <= key g j)).
Proof.
  intros Hn Hr Hout.
  destruct (complete (List.length (t_ms t)) rows r) eqn:Ec.
  - right. assert (Hc : In r (comp_of t rows)) by (apply filter_In; auto).
    split; [exact Hc|]. intros j Hj.
    apply (selected_for_maximal row_eq_dec).
    + apply (Permutation_in _ (Permutation_sym (initial_order_perm key (cols_of t rows) (comp_of t rows))) Hc).
    + intros Hs. apply Hout. apply in_map. apply (core_In t rows r Hn). split; [exact Hc|].
      exists j. split; assumption.
  - left. unfold complete in Ec. apply andb_false_iff in Ec. destruct Ec as [Eb|Ef]; [left; exact Eb|].
    right. destruct (forallb_false_ex _ _ Ef) as [j [_ Hj]]. exists j.
    apply orb_false_iff in Hj. destruct Hj as [H1 H2]. apply negb_false_iff in H1. auto.
Qed.

Theorem select_type_best t rows j x :
  NoDup (map rid rows) -> In j (cols_of t rows) -> In x (comp_of t rows) ->
  (forall y, In y (comp_of t rows) -> y <> x -> key y j < key x j) -> (1 <= t_nbest t)%nat ->
  In x (core_of t rows).
Proof.
  intros Hn Hj Hx Hmax Hnb. apply (core_In t rows x Hn). split; [exact Hx|]. exists j. split; [exact Hj|].
  pose proof (initial_order_perm key (cols_of t rows) (comp_of t rows)) as Hp.
  apply (best_feature_selected row_eq_dec); [exact Hnb| |].
  - apply (Permutation_in _ (Permutation_sym Hp) Hx).
  - intros y Hy. apply Hmax. apply (Permutation_in _ Hp Hy).
Qed.

(* the union over two measures can return two features that are too associated *)
Definition union_witness : tin :=
  mkTin 10 (999, 1000) (999, 1000) 1%nat
    [mkM true false false 100 100; mkM true false false 100 100]
    [mkFeat 0 0 1 [mkRaw false false false 5; mkRaw false false false 1] [Some 5; Some 1];
     mkFeat 1 0 1 [mkRaw false false false 1; mkRaw false false false 5] [Some 1; Some 5]]
    [mkFilter 5 [[(0, false); (9, false)]; [(9, false); (0, false)]]].

Theorem union_not_independent :
  exists t out a c f, select_type t = Ok out /\ In a out /\ In c out /\ a <> c /\ In f (t_filters t)
    /\ fl_thresh f < fst (assoc_at f a c) /\ fl_thresh f < fst (assoc_at f c a).
Proof.
  exists union_witness, [1%nat; 0%nat], 0%nat, 1%nat,
         (mkFilter 5 [[(0, false); (9, false)]; [(9, false); (0, false)]]).
  split; [vm_compute; reflexivity|].
  split; [right; left; reflexivity|]. split; [left; reflexivity|]. split; [discriminate|].
  split; [left; reflexivity|]. split; vm_compute; reflexivity.
Qed.

(* ---------------------------------------------------------------------------------------- *)
(* the checker's boolean predicate (evaluated on the implementation's output)                 *)
(* ---------------------------------------------------------------------------------------- *)
Lemma memn_In x l : memn x l = true <-> In x l.
Proof.
  induction l as [|y t IH]; cbn [memn In]; [split; [discriminate|tauto]|].
  rewrite orb_true_iff, Nat.eqb_eq, IH. split; intros [H|H]; auto.
Qed.

Lemma nodupn_NoDup l : nodupn l = true <-> NoDup l.
Proof.
  induction l as [|x t IH]; cbn [nodupn]; [split; [constructor|reflexivity]|].
  rewrite andb_true_iff, negb_true_iff, IH. split.
  - intros [Hm Hn]. constructor; [|exact Hn]. intros Hin. apply memn_In in Hin. congruence.
  - intros H. inversion H as [|? ? Hni Hn]; subst. split; [|exact Hn].
    destruct (memn x t) eqn:E; [|reflexivity]. exfalso. apply Hni, memn_In, E.
Qed.

Lemma pairwise_ok_pairs (ok : nat -> nat -> bool) out :
  pairwise_ok ok out = true -> ForallOrdPairs (fun a b => ok a b = true) out.
Proof.
  induction out as [|a t IH]; cbn [pairwise_ok]; intros H; [constructor|].
  apply andb_true_iff in H. destruct H as [H1 H2]. constructor; [|apply IH, H2].
  apply Forall_forall. intros b Hb. rewrite forallb_forall in H1. apply H1, Hb.
Qed.

Lemma pairs_impl {A} (R S : A -> A -> Prop) l :
  (forall a b, R a b -> S a b) -> ForallOrdPairs R l -> ForallOrdPairs S l.
Proof.
  intros HRS Hp. induction Hp as [|a t Hall Hp IH]; constructor; [|exact IH].
  rewrite Forall_forall in *. intros b Hb. apply HRS, Hall, Hb.
Qed.

Theorem type_ok_sound tc :
  type_ok tc = true ->
  let t := tc_in tc in let out := tc_out tc in
  NoDup out /\ incl out (map f_id (t_feats t)) /\
  (last_assoc (t_ms t) <> None ->
     (List.length out <= t_nbest t * List.length (assoc_idx (t_ms t)))%nat /\
     forall f, In f (t_filters t) ->
       ForallOrdPairs (fun a b => fst (assoc_at f a b) <= fl_thresh f) out).
Proof.
  intros H. cbv zeta. unfold type_ok in H. cbv zeta in H.
  set (t := tc_in tc) in *. set (out := tc_out tc) in *.
  apply andb_true_iff in H. destruct H as [H H3]. apply andb_true_iff in H. destruct H as [H1 H2].
  split; [apply nodupn_NoDup, H1|]. split.
  - intros i Hi. rewrite forallb_forall in H2. apply memn_In, H2, Hi.
  - intros Hms. destruct (last_assoc (t_ms t)) as [jl|] eqn:E; [|contradiction].
    apply andb_true_iff in H3. destruct H3 as [H3 _].
    apply andb_true_iff in H3. destruct H3 as [H3 Hind].
    apply andb_true_iff in H3. destruct H3 as [_ Hlen].
    split; [apply Nat.leb_le, Hlen|].
    intros f Hf. unfold independent_b in Hind. rewrite forallb_forall in Hind.
    pose proof (pairwise_ok_pairs _ _ (Hind f Hf)) as Hp.
    eapply pairs_impl; [|exact Hp]. intros a b Hab. apply Z.leb_le, Hab.
Qed.

(* ---------------------------------------------------------------------------------------- *)
(* C15: rank statistics                                                                       *)
(* ---------------------------------------------------------------------------------------- *)
From AC.Model Require Import CheckC15.

Definition increasing (phi : Z -> Z) : Prop := forall a b, a < b -> phi a < phi b.
Definition decreasing (psi : Z -> Z) : Prop := forall a b, a < b -> psi b < psi a.

Lemma count_map p (phi : Z -> Z) l : count p (map phi l) = count (fun y => p (phi y)) l.
Proof. unfold count. rewrite filter_map_comp, map_length. reflexivity. Qed.

Lemma count_ext p q l : (forall y, p y = q y) -> count p l = count q l.
Proof. intros H. unfold count. rewrite (filter_ext p q H). reflexivity. Qed.

Lemma inc_ltb phi : increasing phi -> forall a b, (phi a <? phi b) = (a <? b).
Proof.
  intros H a b. destruct (Z.ltb_spec a b) as [L|L].
  - apply Z.ltb_lt, H, L.
  - apply Z.ltb_ge. destruct (Z.eq_dec b a) as [->|Hne]; [lia|].
    assert (b < a) by lia. pose proof (H b a H0). lia.
Qed.

Lemma inc_eqb phi : increasing phi -> forall a b, (phi a =? phi b) = (a =? b).
Proof.
  intros H a b. destruct (Z.eqb_spec a b) as [->|Hne]; [apply Z.eqb_refl|].
  apply Z.eqb_neq. destruct (Z.lt_total a b) as [L|[E|L]]; [|contradiction|];
    pose proof (H _ _ L); lia.
Qed.

Lemma dec_ltb psi : decreasing psi -> forall a b, (psi a <? psi b) = (b <? a).
Proof.
  intros H a b. destruct (Z.ltb_spec b a) as [L|L].
  - apply Z.ltb_lt, H, L.
  - apply Z.ltb_ge. destruct (Z.eq_dec b a) as [->|Hne]; [lia|].
    assert (a < b) by lia. pose proof (H a b H0). lia.
Qed.

Lemma dec_eqb psi : decreasing psi -> forall a b, (psi a =? psi b) = (a =? b).
Proof.
  intros H a b. destruct (Z.eqb_spec a b) as [->|Hne]; [apply Z.eqb_refl|].
  apply Z.eqb_neq. destruct (Z.lt_total a b) as [L|[E|L]]; [|contradiction|];
    pose proof (H _ _ L); lia.
Qed.

Lemma rank2_inc phi xs x : increasing phi -> rank2 (map phi xs) (phi x) = rank2 xs x.
Proof.
  intros H. unfold rank2. rewrite !count_map.
  rewrite (count_ext (fun y => phi y <? phi x) (fun y => y <? x)) by (intros; apply inc_ltb, H).
  rewrite (count_ext (fun y => phi y =? phi x) (fun y => y =? x)) by (intros; apply inc_eqb, H).
  reflexivity.
Qed.

Theorem ranks_monotone phi xs :
  increasing phi -> ranks2 (map phi xs) = ranks2 xs /\ tie_counts (map phi xs) = tie_counts xs.
Proof.
  intros H. unfold ranks2, tie_counts. rewrite !map_map. split; apply map_ext; intros x.
  - apply rank2_inc, H.
  - rewrite count_map. apply count_ext. intros y. apply inc_eqb, H.
Qed.

Lemma count3 xs x :
  count (fun y => y <? x) xs + count (fun y => y =? x) xs + count (fun y => x <? y) xs
  = Z.of_nat (List.length xs).
Proof.
  unfold count. induction xs as [|a t IH]; cbn [filter List.length]; [reflexivity|].
  destruct (Z.ltb_spec a x), (Z.eqb_spec a x), (Z.ltb_spec x a); cbn [List.length];
    rewrite ?Nat2Z.inj_succ; lia.
Qed.

Theorem ranks_antitone psi xs :
  decreasing psi ->
  ranks2 (map psi xs) = map (fun r => 2 * Z.of_nat (List.length xs) + 2 - r) (ranks2 xs)
  /\ tie_counts (map psi xs) = tie_counts xs.
Proof.
  intros H. unfold ranks2, tie_counts. rewrite !map_map. split; apply map_ext; intros x.
  - unfold rank2. rewrite !count_map.
    rewrite (count_ext (fun y => psi y <? psi x) (fun y => x <? y)) by (intros; apply dec_ltb, H).
    rewrite (count_ext (fun y => psi y =? psi x) (fun y => y =? x)) by (intros; apply dec_eqb, H).
    pose proof (count3 xs x). lia.
  - rewrite count_map. apply count_ext. intros y. apply dec_eqb, H.
Qed.

(* H and rho are functions of the rank vector and the tie counts: invariant under any strictly
   increasing re-encoding of the feature (positive rescaling, x^3, log, ...) *)
Theorem kruskal_spearman_monotone phi xs ys lab groups :
  increasing phi ->
  kruskal_stat (map phi xs) lab groups = kruskal_stat xs lab groups
  /\ spearman_stat (map phi xs) ys = spearman_stat xs ys
  /\ spearman_stat ys (map phi xs) = spearman_stat ys xs.
Proof.
  intros H. destruct (ranks_monotone phi xs H) as [Hr Ht].
  unfold kruskal_stat, group_stat, spearman_stat. rewrite Hr, Ht. auto.
Qed.

(* negation: the covariance term changes sign, the variances do not: rho^2 is invariant *)
Lemma zsum_map_sub c xs : zsum (map (fun r => c - r) xs) = c * Z.of_nat (List.length xs) - zsum xs.
Proof.
  induction xs as [|a t IH]; cbn [map zsum List.length]; [ring|].
  rewrite IH, Nat2Z.inj_succ. ring.
Qed.

Lemma zsum_mul_sub c xs : forall ys, List.length xs = List.length ys ->
  zsum (map2 Z.mul (map (fun r => c - r) xs) ys) = c * zsum ys - zsum (map2 Z.mul xs ys).
Proof.
  induction xs as [|a t IH]; intros [|b ys] Hl; cbn [map map2 zsum] in *; try discriminate; [ring|].
  injection Hl as Hl. rewrite (IH ys Hl). ring.
Qed.

Lemma zsum_sq_sub c xs :
  zsum (map2 Z.mul (map (fun r => c - r) xs) (map (fun r => c - r) xs))
  = c * c * Z.of_nat (List.length xs) - 2 * c * zsum xs + zsum (map2 Z.mul xs xs).
Proof.
  induction xs as [|a t IH]; cbn [map map2 zsum List.length]; [ring|].
  rewrite IH, Nat2Z.inj_succ. ring.
Qed.

Theorem pearson_reflect c xs ys :
  List.length xs = List.length ys ->
  pearson_stat (map (fun r => c - r) xs) ys
  = (let '(cv, vx, vy) := pearson_stat xs ys in (- cv, vx, vy)).
Proof.
  intros Hl. unfold pearson_stat.
  rewrite map_length, zsum_map_sub, (zsum_mul_sub c xs ys Hl), zsum_sq_sub.
  cbv beta iota zeta.
  apply pair_equal_spec; split; [apply pair_equal_spec; split|]; rewrite ?Hl; ring.
Qed.

Theorem spearman_negation psi xs ys :
  decreasing psi -> List.length xs = List.length ys ->
  spearman_stat (map psi xs) ys = (let '(cv, vx, vy) := spearman_stat xs ys in (- cv, vx, vy)).
Proof.
  intros H Hl. unfold spearman_stat. destruct (ranks_antitone psi xs H) as [-> _].
  apply pearson_reflect. unfold ranks2. rewrite !map_length. exact Hl.
Qed.

(* RegressionSelector's default (distance_measure = 1 - r, `if d_corr:`): model-level witnesses *)
Definition copy_witness : tin :=   (* one feature, exact copy of the target: r = 1, key = 1 - r^2 = 0 *)
  mkTin 10 (999, 1000) (999, 1000) 1%nat [mkM true true false 0 0]
        [mkFeat 0 0 1 [mkRaw false false true 0] [Some 1]] [mkFilter 1 [[(0, false)]]].

Theorem regression_copy_dropped :
  exists t, t_nbest t = 1%nat /\ map f_spec (t_feats t) = [[Some 1]] /\ select_type t = Ok [].
Proof. exists copy_witness. repeat split; vm_compute; reflexivity. Qed.

(* key = 100 - sign(r) * 100 r^2: feature 0 has r = 0.9, feature 1 has r = -0.5; negating
   feature 0 (r = -0.9) changes the order although the strengths r^2 are unchanged *)
Definition neg_witness (k0 : Z) : tin :=
  mkTin 10 (999, 1000) (999, 1000) 2%nat [mkM true true false 0 0]
        [mkFeat 0 0 1 [mkRaw false false false k0] [Some 81];
         mkFeat 1 0 1 [mkRaw false false false 125] [Some 25]]
        [mkFilter 100 [[(0, false); (1, false)]; [(1, false); (0, false)]]].

Theorem regression_negation_changes_order :
  select_type (neg_witness (100 - 81)) = Ok [1%nat; 0%nat] /\
  select_type (neg_witness (100 + 81)) = Ok [0%nat; 1%nat] /\
  map f_spec (t_feats (neg_witness (100 - 81))) = map f_spec (t_feats (neg_witness (100 + 81))).
Proof. repeat split; vm_compute; reflexivity. Qed.

(* ---------------------------------------------------------------------------------------- *)
(* colsample < 1: the samples are a partition of the shuffled feature list                     *)
(* ---------------------------------------------------------------------------------------- *)
Lemma firstn_plus {A} a b (l : list A) : firstn (a + b) l = firstn a l ++ firstn b (skipn a l).
Proof.
  revert l. induction a as [|a IH]; intros l; [reflexivity|].
  destruct l as [|x t]; cbn [Nat.add firstn skipn app].
  - rewrite firstn_nil. reflexivity.
  - f_equal. apply IH.
Qed.

Lemma slices_concat {A} c m (l : list A) :
  List.concat (map (fun i => firstn c (skipn (c * i) l)) (seq 0 m)) = firstn (c * m) l.
Proof.
  induction m as [|m IH].
  - rewrite Nat.mul_0_r. reflexivity.
  - rewrite seq_S, map_app, concat_app, IH. cbn [map List.concat Nat.add].
    rewrite app_nil_r, Nat.mul_succ_r. symmetry. apply firstn_plus.
Qed.

Theorem col_samples_partition {A} c k (l : list A) : List.concat (col_samples c k l) = l.
Proof.
  unfold col_samples. rewrite concat_app, slices_concat. cbn [List.concat].
  rewrite app_nil_r. apply firstn_skipn.
Qed.

Theorem col_samples_count {A} c k (l : list A) : List.length (col_samples c k l) = S (k - 1).
Proof. unfold col_samples. rewrite app_length, map_length, seq_length. cbn [List.length]. lia. Qed.
