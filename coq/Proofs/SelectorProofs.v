(* SelectorProofs.v — lemmas about Model/Selector.v (sorts, greedy filters, n_best cut, union over
   measures) and the theorems packaged by Properties/C14.v and Properties/C15.v. *)
From Coq Require Import Permutation Sorted Lia.
From AC.Model Require Import Base Selector CheckC14.

Definition desc {A} (k : A -> Z) (a b : A) : Prop := k b <= k a.

(* ---------------------------------------------------------------------------------------- *)
(* stable decreasing sort                                                                     *)
(* ---------------------------------------------------------------------------------------- *)
Lemma insert_desc_perm {A} (k : A -> Z) x l : Permutation (insert_desc k x l) (x :: l).
Proof.
  induction l as [|y t IH]; cbn [insert_desc].
  - apply Permutation_refl.
  - destruct (k x <? k y).
    + eapply Permutation_trans; [apply perm_skip, IH | apply perm_swap].
    + apply Permutation_refl.
Qed.

Lemma sort_desc_perm {A} (k : A -> Z) l : Permutation (sort_desc k l) l.
Proof.
  induction l as [|a t IH]; cbn [sort_desc fold_right].
  - constructor.
  - eapply Permutation_trans; [apply insert_desc_perm | apply perm_skip, IH].
Qed.

Lemma insert_desc_sorted {A} (k : A -> Z) x l :
  StronglySorted (desc k) l -> StronglySorted (desc k) (insert_desc k x l).
Proof.
  induction 1 as [|y t Hs IH Hall]; cbn [insert_desc].
  - constructor; constructor.
  - destruct (k x <? k y) eqn:E.
    + constructor; [exact IH|].
      apply Forall_forall. intros z Hz.
      apply (Permutation_in _ (insert_desc_perm k x t)) in Hz.
      destruct Hz as [<-|Hz].
      * unfold desc. apply Z.ltb_lt in E. lia.
      * rewrite Forall_forall in Hall. apply Hall, Hz.
    + apply Z.ltb_ge in E. constructor.
      * constructor; assumption.
      * constructor; [unfold desc; lia|].
        rewrite Forall_forall in *. intros z Hz. specialize (Hall z Hz). unfold desc in *. lia.
Qed.

Lemma sort_desc_sorted {A} (k : A -> Z) l : StronglySorted (desc k) (sort_desc k l).
Proof.
  induction l as [|a t IH]; cbn [sort_desc fold_right].
  - constructor.
  - apply insert_desc_sorted, IH.
Qed.

(* ---------------------------------------------------------------------------------------- *)
(* subsequences                                                                               *)
(* ---------------------------------------------------------------------------------------- *)
Inductive subseq {A} : list A -> list A -> Prop :=
| ss_nil : forall l, subseq [] l
| ss_cons : forall x a b, subseq a b -> subseq (x :: a) (x :: b)
| ss_skip : forall x a b, subseq a b -> subseq a (x :: b).

Lemma subseq_refl {A} (l : list A) : subseq l l.
Proof. induction l; constructor; assumption. Qed.

Lemma subseq_In {A} (a b : list A) x : subseq a b -> In x a -> In x b.
Proof.
  induction 1 as [l|y a b H IH|y a b H IH]; intros Hin.
  - contradiction.
  - destruct Hin as [->|Hin]; [left; reflexivity|right; auto].
  - right; auto.
Qed.

Lemma subseq_trans {A} (a b c : list A) : subseq a b -> subseq b c -> subseq a c.
Proof.
  intros H1 H2. revert a H1.
  induction H2 as [l|y b c H IH|y b c H IH]; intros a H1.
  - inversion H1; subst; constructor.
  - inversion H1; subst.
    + constructor.
    + constructor. apply IH; assumption.
    + apply ss_skip. apply IH; assumption.
  - apply ss_skip. apply IH; assumption.
Qed.

Lemma subseq_sorted {A} (R : A -> A -> Prop) (a b : list A) :
  subseq a b -> StronglySorted R b -> StronglySorted R a.
Proof.
  induction 1 as [l|y a b H IH|y a b H IH]; intros Hs.
  - constructor.
  - inversion Hs as [|? ? Hs' Hall]; subst. constructor; [apply IH, Hs'|].
    rewrite Forall_forall in *. intros z Hz. apply Hall. eapply subseq_In; eauto.
  - inversion Hs; subst. apply IH; assumption.
Qed.

Lemma subseq_NoDup {A} (a b : list A) : subseq a b -> NoDup b -> NoDup a.
Proof.
  induction 1 as [l|y a b H IH|y a b H IH]; intros Hn.
  - constructor.
  - inversion Hn as [|? ? Hni Hn']; subst. constructor; [|apply IH, Hn'].
    intro Hin. apply Hni. eapply subseq_In; eauto.
  - inversion Hn; subst. apply IH; assumption.
Qed.

Lemma subseq_map {A B} (f : A -> B) (a b : list A) : subseq a b -> subseq (map f a) (map f b).
Proof. induction 1; cbn [map]; constructor; assumption. Qed.

Lemma subseq_pairs {A} (R : A -> A -> Prop) (a b : list A) :
  subseq a b -> ForallOrdPairs R b -> ForallOrdPairs R a.
Proof.
  induction 1 as [l|y a b H IH|y a b H IH]; intros Hp.
  - constructor.
  - inversion Hp as [|? ? Hall Hp']; subst. constructor; [|apply IH, Hp'].
    rewrite Forall_forall in *. intros z Hz. apply Hall. eapply subseq_In; eauto.
  - inversion Hp; subst. apply IH; assumption.
Qed.

Lemma filter_subseq {A} (p : A -> bool) l : subseq (filter p l) l.
Proof. induction l as [|a t IH]; cbn [filter]; [constructor|]. destruct (p a); constructor; exact IH. Qed.

Lemma firstn_subseq {A} n (l : list A) : subseq (firstn n l) l.
Proof.
  revert l. induction n as [|n IH]; intros l; cbn [firstn]; [constructor|].
  destruct l; constructor. apply IH.
Qed.

Lemma greedy_subseq {A} (bad : A -> A -> bool) l : forall kept, subseq (greedy bad kept l) l.
Proof.
  induction l as [|a t IH]; intros kept; cbn [greedy]; [constructor|].
  destruct (existsb (bad a) kept); constructor; apply IH.
Qed.

Lemma apply_filters_subseq {A} (bads : list (A -> A -> bool)) : forall l, subseq (apply_filters bads l) l.
Proof.
  induction bads as [|b bs IH]; intros l; unfold apply_filters; cbn [fold_left].
  - apply subseq_refl.
  - eapply subseq_trans; [apply IH | apply greedy_subseq].
Qed.

(* ---------------------------------------------------------------------------------------- *)
(* greedy filter: independence and maximality                                                 *)
(* ---------------------------------------------------------------------------------------- *)
Lemma greedy_kept_false {A} (bad : A -> A -> bool) l :
  forall kept x, In x (greedy bad kept l) -> forall g, In g kept -> bad x g = false.
Proof.
  induction l as [|a t IH]; intros kept x Hx g Hg; cbn [greedy] in Hx; [contradiction|].
  destruct (existsb (bad a) kept) eqn:E.
  - eapply IH; eauto.
  - destruct Hx as [<-|Hx].
    + destruct (bad a g) eqn:B; [|reflexivity].
      assert (existsb (bad a) kept = true) by (apply existsb_exists; exists g; auto). congruence.
    + eapply IH; [exact Hx | right; exact Hg].
Qed.

Lemma greedy_pairs {A} (bad : A -> A -> bool) l :
  forall kept, ForallOrdPairs (fun a b => bad b a = false) (greedy bad kept l).
Proof.
  induction l as [|a t IH]; intros kept; cbn [greedy]; [constructor|].
  destruct (existsb (bad a) kept); [apply IH|].
  constructor; [|apply IH].
  apply Forall_forall. intros y Hy. eapply greedy_kept_false; [exact Hy | left; reflexivity].
Qed.

Lemma greedy_maximal {A} (k : A -> Z) (bad : A -> A -> bool) l :
  forall kept x, StronglySorted (desc k) l -> In x l -> ~ In x (greedy bad kept l) ->
  exists g, (In g kept \/ (In g (greedy bad kept l) /\ k x <= k g)) /\ bad x g = true.
Proof.
  induction l as [|a t IH]; intros kept x Hs Hin Hout; [contradiction|].
  inversion Hs as [|? ? Hs' Hall]; subst. cbn [greedy] in *.
  destruct (existsb (bad a) kept) eqn:E.
  - destruct Hin as [->|Hin].
    + apply existsb_exists in E. destruct E as [g [Hg Hb]]. exists g. split; [left; exact Hg|exact Hb].
    + destruct (IH kept x Hs' Hin Hout) as [g [Hg Hb]]. exists g. split; assumption.
  - destruct Hin as [->|Hin]; [exfalso; apply Hout; left; reflexivity|].
    assert (Hout' : ~ In x (greedy bad (a :: kept) t)) by (intro H; apply Hout; right; exact H).
    destruct (IH (a :: kept) x Hs' Hin Hout') as [g [[[<-|Hg]|[Hg Hk]] Hb]].
    + exists a. split; [|exact Hb]. right. split; [left; reflexivity|].
      rewrite Forall_forall in Hall. apply (Hall x Hin).
    + exists g. split; [left; exact Hg|exact Hb].
    + exists g. split; [|exact Hb]. right. split; [right; exact Hg|exact Hk].
Qed.

Lemma apply_filters_pairs {A} (bads : list (A -> A -> bool)) :
  forall l b, In b bads -> ForallOrdPairs (fun a c => b c a = false) (apply_filters bads l).
Proof.
  induction bads as [|b0 bs IH]; intros l b Hb; [contradiction|].
  unfold apply_filters; cbn [fold_left]. destruct Hb as [<-|Hb].
  - eapply subseq_pairs; [apply (apply_filters_subseq bs) | apply greedy_pairs].
  - apply IH, Hb.
Qed.

(* why a feature was dropped by the chain of filters *)
Fixpoint drop_reason {A} (k : A -> Z) (bads : list (A -> A -> bool)) (l : list A) (x : A) : Prop :=
  match bads with
  | [] => False
  | b :: bs =>
      (exists g, In g (greedy b [] l) /\ k x <= k g /\ b x g = true)
      \/ (In x (greedy b [] l) /\ drop_reason k bs (greedy b [] l) x)
  end.

Lemma apply_filters_maximal {A} (dec : forall a b : A, {a = b} + {a <> b}) (k : A -> Z)
      (bads : list (A -> A -> bool)) :
  forall l x, StronglySorted (desc k) l -> In x l -> ~ In x (apply_filters bads l) ->
  drop_reason k bads l x.
Proof.
  induction bads as [|b bs IH]; intros l x Hs Hin Hout.
  - exfalso. apply Hout. exact Hin.
  - unfold apply_filters in Hout; cbn [fold_left] in Hout. cbn [drop_reason].
    destruct (in_dec dec x (greedy b [] l)) as [Hk|Hk].
    + right. split; [exact Hk|]. apply IH; [|exact Hk|exact Hout].
      eapply subseq_sorted; [apply greedy_subseq | exact Hs].
    + left. destruct (greedy_maximal k b l [] x Hs Hin Hk) as [g [[Hg|[Hg Hkg]] Hb]]; [contradiction|].
      exists g. auto.
Qed.

Lemma firstn_maximal {A} (k : A -> Z) n :
  forall l x, StronglySorted (desc k) l -> In x l -> ~ In x (firstn n l) ->
  List.length (firstn n l) = n /\ forall g, In g (firstn n l) -> k x <= k g.
Proof.
  induction n as [|n IH]; intros l x Hs Hin Hout; cbn [firstn] in *.
  - split; [reflexivity|intros g []].
  - destruct l as [|a t]; [contradiction|].
    inversion Hs as [|? ? Hs' Hall]; subst.
    destruct Hin as [->|Hin]; [exfalso; apply Hout; left; reflexivity|].
    assert (Hout' : ~ In x (firstn n t)) by (intro H; apply Hout; right; exact H).
    destruct (IH t x Hs' Hin Hout') as [Hl Hg]. split; [cbn [List.length]; lia|].
    intros g [<-|Hg']; [|apply Hg, Hg'].
    rewrite Forall_forall in Hall. apply (Hall x Hin).
Qed.

(* ---------------------------------------------------------------------------------------- *)
(* select_core                                                                                *)
(* ---------------------------------------------------------------------------------------- *)
Lemma initial_order_perm {A} (keyf : A -> nat -> Z) cols comp :
  Permutation (initial_order keyf cols comp) comp.
Proof.
  induction cols as [|j t IH]; unfold initial_order; cbn [fold_right].
  - apply Permutation_refl.
  - eapply Permutation_trans; [apply sort_desc_perm | exact IH].
Qed.

Lemma initial_order_sorted {A} (keyf : A -> nat -> Z) j rest comp :
  StronglySorted (desc (fun r => keyf r j)) (initial_order keyf (j :: rest) comp).
Proof. unfold initial_order; cbn [fold_right]. apply sort_desc_sorted. Qed.

Lemma selected_for_subseq {A} (keyf : A -> nat -> Z) bads nbest initial j :
  subseq (selected_for keyf bads nbest initial j) (sort_desc (fun r => keyf r j) initial).
Proof.
  unfold selected_for. eapply subseq_trans; [apply firstn_subseq | apply apply_filters_subseq].
Qed.

Lemma selected_for_In {A} (keyf : A -> nat -> Z) bads nbest initial j x :
  In x (selected_for keyf bads nbest initial j) -> In x initial.
Proof.
  intros H. apply (Permutation_in _ (sort_desc_perm (fun r => keyf r j) initial)).
  eapply subseq_In; [apply selected_for_subseq | exact H].
Qed.


(* membership in the union over measures *)
Lemma select_core_In {A} (ideq : A -> A -> bool) (keyf : A -> nat -> Z) bads nbest cols comp x :
  (forall a, ideq a a = true) ->
  (forall a b, In a comp -> In b comp -> ideq a b = true -> a = b) ->
  (In x (select_core ideq keyf bads nbest cols comp) <->
   In x comp /\ exists j, In j cols /\
     In x (selected_for keyf bads nbest (initial_order keyf cols comp) j)).
Proof.
  intros Hrefl Hinj. unfold select_core. rewrite filter_In. split.
  - intros [Hin Hex]. pose proof (Permutation_in _ (initial_order_perm keyf cols comp) Hin) as Hc.
    split; [exact Hc|].
    apply existsb_exists in Hex. destruct Hex as [s [Hs Hm]].
    apply in_map_iff in Hs. destruct Hs as [j [<- Hj]].
    unfold memb in Hm. apply existsb_exists in Hm. destruct Hm as [y [Hy He]].
    exists j. split; [exact Hj|].
    assert (Hyc : In y comp).
    { apply (Permutation_in _ (initial_order_perm keyf cols comp)). eapply selected_for_In, Hy. }
    rewrite (Hinj x y Hc Hyc He). exact Hy.
  - intros [Hc [j [Hj Hs]]]. split.
    + apply (Permutation_in _ (Permutation_sym (initial_order_perm keyf cols comp)) Hc).
    + apply existsb_exists. exists (selected_for keyf bads nbest (initial_order keyf cols comp) j).
      split; [apply in_map, Hj|]. unfold memb. apply existsb_exists. exists x. auto.
Qed.

Lemma select_core_subseq {A} (ideq : A -> A -> bool) (keyf : A -> nat -> Z) bads nbest cols comp :
  subseq (select_core ideq keyf bads nbest cols comp) (initial_order keyf cols comp).
Proof. unfold select_core. apply filter_subseq. Qed.

(* sorted by decreasing key of the most significant ranking column *)
Theorem select_core_sorted {A} (ideq : A -> A -> bool) (keyf : A -> nat -> Z) bads nbest j rest comp :
  StronglySorted (desc (fun r => keyf r j)) (select_core ideq keyf bads nbest (j :: rest) comp).
Proof. eapply subseq_sorted; [apply select_core_subseq | apply initial_order_sorted]. Qed.

Theorem selected_for_length {A} (keyf : A -> nat -> Z) bads nbest initial j :
  (List.length (selected_for keyf bads nbest initial j) <= nbest)%nat.
Proof. unfold selected_for. apply firstn_le_length. Qed.

Theorem selected_for_independent {A} (keyf : A -> nat -> Z) bads nbest initial j b :
  In b bads -> ForallOrdPairs (fun a c => b c a = false) (selected_for keyf bads nbest initial j).
Proof.
  intros Hb. unfold selected_for.
  eapply subseq_pairs; [apply firstn_subseq | apply apply_filters_pairs, Hb].
Qed.

Theorem selected_for_sorted {A} (keyf : A -> nat -> Z) bads nbest initial j :
  StronglySorted (desc (fun r => keyf r j)) (selected_for keyf bads nbest initial j).
Proof. eapply subseq_sorted; [apply selected_for_subseq | apply sort_desc_sorted]. Qed.

(* every complete feature that is not selected for measure j has a reason *)
Theorem selected_for_maximal {A} (dec : forall a b : A, {a = b} + {a <> b})
        (keyf : A -> nat -> Z) bads nbest initial j x :
  In x initial -> ~ In x (selected_for keyf bads nbest initial j) ->
  let kj := fun r => keyf r j in
  let ranked := sort_desc kj initial in
  drop_reason kj bads ranked x
  \/ (In x (apply_filters bads ranked)
      /\ List.length (selected_for keyf bads nbest initial j) = nbest
      /\ forall g, In g (selected_for keyf bads nbest initial j) -> keyf x j <= keyf g j).
Proof.
  intros Hin Hout kj ranked.
  assert (Hr : In x ranked).
  { apply (Permutation_in _ (Permutation_sym (sort_desc_perm kj initial)) Hin). }
  assert (Hs : StronglySorted (desc kj) ranked) by apply sort_desc_sorted.
  destruct (in_dec dec x (apply_filters bads ranked)) as [Hk|Hk].
  - right. split; [exact Hk|]. unfold selected_for in *. fold kj in Hout. fold ranked in Hout.
    fold kj. fold ranked.
    apply (firstn_maximal kj nbest (apply_filters bads ranked) x); [|exact Hk|exact Hout].
    eapply subseq_sorted; [apply apply_filters_subseq | exact Hs].
  - left. apply (apply_filters_maximal dec); assumption.
Qed.

(* the best-ranked feature of a measure is always returned *)
Lemma sorted_head_max {A} (dec : forall a b : A, {a = b} + {a <> b}) (k : A -> Z) l x :
  StronglySorted (desc k) l -> In x l -> (forall y, In y l -> y <> x -> k y < k x) ->
  exists t, l = x :: t.
Proof.
  intros Hs Hin Hmax. destruct l as [|h t]; [contradiction|].
  inversion Hs as [|? ? _ Hall]; subst.
  destruct (dec h x) as [->|Hne]; [exists t; reflexivity|].
  exfalso. destruct Hin as [->|Hin]; [apply Hne; reflexivity|].
  rewrite Forall_forall in Hall. pose proof (Hall x Hin) as Hle. unfold desc in Hle.
  pose proof (Hmax h (or_introl eq_refl) Hne). lia.
Qed.

Lemma greedy_head {A} (bad : A -> A -> bool) x t : exists t', greedy bad [] (x :: t) = x :: t'.
Proof. cbn [greedy existsb]. eexists. reflexivity. Qed.

Lemma apply_filters_head {A} (bads : list (A -> A -> bool)) :
  forall x t, exists t', apply_filters bads (x :: t) = x :: t'.
Proof.
  induction bads as [|b bs IH]; intros x t; unfold apply_filters; cbn [fold_left].
  - eexists. reflexivity.
  - destruct (greedy_head b x t) as [t' ->]. apply IH.
Qed.

Theorem best_feature_selected {A} (dec : forall a b : A, {a = b} + {a <> b})
        (keyf : A -> nat -> Z) bads nbest initial j x :
  (1 <= nbest)%nat -> In x initial ->
  (forall y, In y initial -> y <> x -> keyf y j < keyf x j) ->
  In x (selected_for keyf bads nbest initial j).
Proof.
  intros Hn Hin Hmax. unfold selected_for.
  destruct (sorted_head_max dec (fun r => keyf r j) (sort_desc (fun r => keyf r j) initial) x) as [t Ht].
  - apply sort_desc_sorted.
  - apply (Permutation_in _ (Permutation_sym (sort_desc_perm _ initial)) Hin).
  - intros y Hy Hne. apply Hmax; [|exact Hne].
    apply (Permutation_in _ (sort_desc_perm _ initial) Hy).
  - rewrite Ht. destruct (apply_filters_head bads x t) as [t' ->].
    destruct nbest as [|n]; [lia|]. cbn [firstn]. left. reflexivity.
Qed.
