(* TransformSpec.v — what C03(transform half)/C04/C05 mean on the model.  Definitions only. *)
From Coq Require Import Sorting.Sorted.
From AC.Model Require Import Base GroupedList Labels Transform.
From AC.Proofs Require Import GroupedListSpec.

(* the labels list that _get_labels_per_values zips with the leaders *)
Definition labels_of (fmt : fmt_table) (st : state) : list label :=
  get_labels (st_kind st) (st_odt st) fmt (st_nan st) (keys (st_order st)).

(* label paired with the i-th leader by zip(values, labels) *)
Definition label_at (fmt : fmt_table) (st : state) (i : nat) : option label :=
  nth_error (labels_of fmt st) i.

(* the state BaseDiscretizer.fit leaves: a well-formed order (C13) and the label table computed
   from it *)
Definition coherent (fmt : fmt_table) (st : state) : Prop :=
  WF (st_order st) /\
  st_lpv st = labels_per_values (st_kind st) (st_odt st) fmt (st_nan st) (st_order st).

(* str_nan is a non-empty string *)
Definition nan_ok (st : state) : Prop := exists s, st_nan st = VStr s /\ s <> EmptyString.

(* quantitative leaders (str_nan aside): finite numbers, then the +inf sentinel *)
Definition sentinel (st : state) : Prop :=
  st_kind st = Quant -> exists zs, quant_leaders st = map VNum zs ++ [VPInf].

(* ... strictly increasing (C03 item 3) *)
Definition leaders_sorted (st : state) : Prop :=
  exists zs, quant_leaders st = map VNum zs ++ [VPInf] /\ StronglySorted Z.lt zs.

(* the NaN reinstatement cannot hit the label of a number: NaN kept, or NaN is its own leader,
   or NaN unknown *)
Definition nan_separate (st : state) : Prop :=
  st_dropna st = true \/ In (st_nan st) (keys (st_order st)) \/ ~ In (st_nan st) (values (st_order st)).

(* a cell that entitles transform to raise AssertionError *)
Definition reject (st : state) (c : val) : Prop :=
  (c = VNaN /\ ~ In (st_nan st) (values (st_order st))) \/
  (st_kind st = Qual /\ c <> VNaN /\ ~ In c (values (st_order st)) /\
   (c = st_nan st \/ ~ In (st_default st) (values (st_order st)))).

(* an output cell that is a fitted label (or a reinstated missing value, dropna=False only) *)
Definition in_label_set (fmt : fmt_table) (st : state) (o : out) : Prop :=
  match o with
  | OLab l => In l (labels_of fmt st)
  | OMissing => st_dropna st = false
  | ORaw _ => False
  end.

(* interval labels as pairs of formatted bounds *)
Definition bounds (ss : list string) : list (option string * option string) :=
  combine (None :: map Some ss) (map Some ss ++ [None]).

Definition render (b : option string * option string) : string :=
  match b with
  | (None, Some u) => ("x <= " ++ u)%string
  | (Some l, None) => (l ++ " < x")%string
  | (Some l, Some u) => (l ++ " < x <= " ++ u)%string
  | (None, None) => "x <= nan"%string
  end.

Fixpoint no_space (s : string) : bool :=
  match s with
  | EmptyString => true
  | String c r => negb (Ascii.eqb c " "%char) && no_space r
  end.
