(* CombosProofs.v — specification of the candidate enumerations of Model/Combos.v:
   [consecutive_combinations l k] lists exactly (and once each) the order-contiguous groupings
   of [l] into 2..k non-empty groups; [nan_combinations] adds the missing-value modality to one
   of the groups, or as a group of its own when the bound allows. *)
From Coq Require Import List Arith Bool Lia.
Import ListNotations.
From AC.Model Require Import Combos.

(* ---- generic list facts ---------------------------------------------------------------- *)

Lemma NoDup_app_intro : forall (B : Type) (a b : list B),
  NoDup a -> NoDup b -> (forall x, In x a -> In x b -> False) -> NoDup (a ++ b).
Proof.
  intros B a b Ha Hb Hd. induction a as [|x a IH]; simpl; auto.
  inversion Ha as [|x' a' Hnx Hna]; subst. constructor.
  - rewrite in_app_iff. intros [H|H]; [tauto|]. apply (Hd x); simpl; auto.
  - apply IH; auto. intros y Hy; apply Hd; simpl; auto.
Qed.

Lemma NoDup_flat_map_intro : forall (B C : Type) (f : B -> list C) (l : list B),
  NoDup l ->
  (forall x, In x l -> NoDup (f x)) ->
  (forall x y c, In x l -> In y l -> In c (f x) -> In c (f y) -> x = y) ->
  NoDup (flat_map f l).
Proof.
  intros B C f l Hl. induction Hl as [|x l Hnx Hl IH]; intros Hf Hd; simpl.
  - constructor.
  - apply NoDup_app_intro.
    + apply Hf; simpl; auto.
    + apply IH.
      * intros y Hy; apply Hf; simpl; auto.
      * intros y z c Hy Hz; apply Hd; simpl; auto.
    + intros c Hc1 Hc2. apply in_flat_map in Hc2. destruct Hc2 as [y [Hy Hcy]].
      assert (E : x = y) by (apply (Hd x y c); simpl; auto).
      subst y. contradiction.
Qed.

Lemma concat_nonempty_nil : forall (B : Type) (tl : list (list B)),
  concat tl = [] -> Forall (fun g => g <> []) tl -> tl = [].
Proof.
  intros B tl Hc Hf. destruct tl as [|g tl]; auto.
  inversion Hf as [|g' tl' Hg Htl]; subst. simpl in Hc.
  apply app_eq_nil in Hc. destruct Hc as [Hg0 _]. contradiction.
Qed.


(* ---- splits_from / next_groups ---------------------------------------------------------- *)

Lemma splits_from_spec {A : Type} : forall (rest pre g r : list A),
  In (g, r) (splits_from pre rest) <->
  exists g', g' <> [] /\ g = pre ++ g' /\ rest = g' ++ r.
Proof.
  induction rest as [|x t IH]; intros pre g r; simpl.
  - split; [tauto|]. intros [g' [Hne [_ Hr]]].
    symmetry in Hr. apply app_eq_nil in Hr. tauto.
  - rewrite IH. split.
    + intros [H|[g' [Hne [Hg Hr]]]].
      * inversion H; subst. exists [x]. split; [discriminate|]. auto.
      * exists (x :: g'). split; [discriminate|]. subst.
        rewrite <- app_assoc. simpl. auto.
    + intros [g' [Hne [Hg Hr]]]. destruct g' as [|y g']; [congruence|].
      simpl in Hr. inversion Hr; subst y t. destruct g' as [|z g'].
      * left. subst g. reflexivity.
      * right. exists (z :: g'). split; [discriminate|]. subst g.
        rewrite <- app_assoc. simpl. auto.
Qed.

Lemma splits_from_fst_inj {A : Type} : forall (rest pre g r r' : list A),
  In (g, r) (splits_from pre rest) -> In (g, r') (splits_from pre rest) -> r = r'.
Proof.
  intros rest pre g r r' H1 H2.
  apply splits_from_spec in H1. apply splits_from_spec in H2.
  destruct H1 as [g1 [_ [Hg1 Hr1]]]. destruct H2 as [g2 [_ [Hg2 Hr2]]].
  subst g. apply app_inv_head in Hg2. subst g2 rest.
  apply app_inv_head in Hr2. auto.
Qed.

Lemma splits_from_longer {A : Type} : forall (rest pre g r : list A),
  In (g, r) (splits_from pre rest) -> length pre < length g.
Proof.
  intros rest pre g r H. apply splits_from_spec in H.
  destruct H as [g' [Hne [Hg _]]]. subst g. rewrite app_length.
  destruct g'; [congruence|simpl; lia].
Qed.

Lemma splits_from_NoDup {A : Type} : forall (rest pre : list A), NoDup (splits_from pre rest).
Proof.
  induction rest as [|x t IH]; intros pre; simpl; constructor; auto.
  intro H. apply splits_from_longer in H. lia.
Qed.

Lemma next_groups_spec {A : Type} : forall (rest : list A) nb g r,
  In (g, r) (next_groups rest nb) <->
  (g <> [] /\ rest = g ++ r /\ (1 < nb \/ r = [])).
Proof.
  intros rest nb g r. unfold next_groups. rewrite filter_In, splits_from_spec. simpl.
  rewrite orb_true_iff, Nat.ltb_lt. split.
  - intros [[g' [Hne [Hg Hr]]] Hc]. simpl in Hg. subst g'. repeat split; auto.
    destruct Hc as [Hc|Hc]; auto. right. destruct r; [reflexivity|discriminate].
  - intros [Hne [Hr Hc]]. split.
    + exists g. auto.
    + destruct Hc as [Hc|Hc]; auto. right. subst r. reflexivity.
Qed.

Lemma next_groups_nil {A : Type} : forall (rest : list A) nb, next_groups rest nb = [] <-> rest = [].
Proof.
  intros rest nb. split.
  - intro H. destruct rest as [|x t]; auto. exfalso.
    assert (Hin : In (x :: t, []) (next_groups (x :: t) nb)).
    { apply next_groups_spec. split; [discriminate|]. rewrite app_nil_r. auto. }
    rewrite H in Hin. exact Hin.
  - intros ->. reflexivity.
Qed.

Lemma next_groups_NoDup {A : Type} : forall (rest : list A) nb, NoDup (next_groups rest nb).
Proof. intros. unfold next_groups. apply NoDup_filter, splits_from_NoDup. Qed.

(* ---- cc --------------------------------------------------------------------------------- *)

Definition nonempty {A : Type} (g : list A) : Prop := g <> [].

Lemma cc_spec {A : Type} : forall fuel (rest : list A) nb maxg cur c,
  length rest < fuel ->
  (In c (cc fuel rest nb maxg cur) <->
   exists tl, c = cur ++ tl /\ concat tl = rest /\ Forall nonempty tl /\
              length tl <= Nat.max nb 1 /\ 1 < length c <= maxg).
Proof.
  induction fuel as [|f IH]; intros rest nb maxg cur c Hfuel; [lia|].
  cbn [cc]. rewrite in_app_iff. split.
  - intros [Hin|Hin].
    + destruct (is_nil (next_groups rest nb)) eqn:En; simpl in Hin; [|tauto].
      destruct (1 <? length cur) eqn:E1; simpl in Hin; [|tauto].
      destruct (length cur <=? maxg) eqn:E2; simpl in Hin; [|tauto].
      destruct Hin as [Hin|[]]. subst c.
      assert (Hr : rest = []).
      { apply (next_groups_nil rest nb). destruct (next_groups rest nb); [auto|discriminate]. }
      apply Nat.ltb_lt in E1. apply Nat.leb_le in E2.
      exists []. rewrite app_nil_r. simpl. repeat split; auto; lia.
    + apply in_flat_map in Hin. destruct Hin as [[g r] [Hgr Hc]]. simpl in Hc.
      apply next_groups_spec in Hgr. destruct Hgr as [Hne [Hr Hnb]].
      assert (Hlen : length r < f).
      { subst rest. rewrite app_length in Hfuel. destruct g; [congruence|simpl in Hfuel; lia]. }
      apply (IH r (nb - 1) maxg (cur ++ [g]) c Hlen) in Hc.
      destruct Hc as [tl [Hc [Hcat [Hall [Hlt Hlc]]]]].
      exists (g :: tl). rewrite <- app_assoc in Hc. simpl in Hc.
      split; [exact Hc|]. split; [simpl; congruence|]. split; [constructor; auto|].
      split; [|exact Hlc]. simpl. destruct Hnb as [Hnb|Hnb].
      * lia.
      * subst r. apply concat_nonempty_nil in Hcat; auto. subst tl. simpl. lia.
  - intros [tl [Hc [Hcat [Hall [Hlt Hlc]]]]]. destruct tl as [|g tl].
    + left. simpl in Hcat. subst rest. rewrite app_nil_r in Hc. subst c. simpl.
      destruct Hlc as [H1 H2]. apply Nat.ltb_lt in H1. apply Nat.leb_le in H2.
      rewrite H1, H2. simpl. auto.
    + right. apply in_flat_map. exists (g, concat tl).
      inversion Hall as [|g' tl' Hg Htl]; subst g' tl'. simpl in Hcat. split.
      * apply next_groups_spec. split; [exact Hg|]. split; [auto|].
        destruct tl as [|g2 tl]; [right; reflexivity|]. left. simpl in Hlt. lia.
      * simpl.
        assert (Hlen : length (concat tl) < f).
        { subst rest. rewrite app_length in Hfuel.
          unfold nonempty in Hg. destruct g; [congruence|simpl in Hfuel; lia]. }
        apply (IH (concat tl) (nb - 1) maxg (cur ++ [g]) c Hlen).
        exists tl. rewrite <- app_assoc. simpl.
        split; [exact Hc|]. split; [reflexivity|]. split; [exact Htl|].
        split; [|exact Hlc]. simpl in Hlt. lia.
Qed.

Lemma cc_prefix {A : Type} : forall fuel (rest : list A) nb maxg cur c,
  In c (cc fuel rest nb maxg cur) -> exists tl, c = cur ++ tl.
Proof.
  induction fuel as [|f IH]; intros rest nb maxg cur c Hin; [simpl in Hin; tauto|].
  cbn [cc] in Hin. apply in_app_or in Hin. destruct Hin as [Hin|Hin].
  - destruct (is_nil (next_groups rest nb) && (1 <? length cur) && (length cur <=? maxg));
      simpl in Hin; [|tauto].
    destruct Hin as [Hin|[]]. exists []. rewrite app_nil_r. auto.
  - apply in_flat_map in Hin. destruct Hin as [[g r] [_ Hc]]. simpl in Hc.
    apply IH in Hc. destruct Hc as [tl Hc]. exists (g :: tl).
    rewrite <- app_assoc in Hc. exact Hc.
Qed.

Lemma cc_NoDup {A : Type} : forall fuel (rest : list A) nb maxg cur, NoDup (cc fuel rest nb maxg cur).
Proof.
  induction fuel as [|f IH]; intros rest nb maxg cur; [constructor|].
  cbn [cc]. destruct (is_nil (next_groups rest nb)) eqn:En.
  - destruct (next_groups rest nb); [|discriminate]. simpl. rewrite app_nil_r.
    destruct ((1 <? length cur) && (length cur <=? maxg)); repeat constructor. simpl; tauto.
  - simpl. apply NoDup_flat_map_intro.
    + apply next_groups_NoDup.
    + intros gr _. apply IH.
    + intros [g1 r1] [g2 r2] c H1 H2 Hc1 Hc2. simpl in Hc1, Hc2.
      apply cc_prefix in Hc1. apply cc_prefix in Hc2.
      destruct Hc1 as [tl1 Hc1]. destruct Hc2 as [tl2 Hc2].
      rewrite <- app_assoc in Hc1, Hc2. rewrite Hc1 in Hc2.
      apply app_inv_head in Hc2. simpl in Hc2. inversion Hc2; subst g2.
      unfold next_groups in H1, H2. apply filter_In in H1. apply filter_In in H2.
      destruct H1 as [H1 _]. destruct H2 as [H2 _].
      rewrite (splits_from_fst_inj _ _ _ _ _ H1 H2). reflexivity.
Qed.

(* ---- the three theorems ----------------------------------------------------------------- *)

Theorem compositions_spec_sec {A : Type} : forall (l : list A) (k : nat) (c : list (list A)),
  In c (consecutive_combinations l k) <->
  (concat c = l /\ Forall (fun g => g <> []) c /\ 2 <= length c <= k).
Proof.
  intros l k c. unfold consecutive_combinations.
  rewrite cc_spec by lia. simpl. split.
  - intros [tl [Hc [Hcat [Hall [_ Hlen]]]]]. subst tl. repeat split; auto; lia.
  - intros [Hcat [Hall Hlen]]. exists c. repeat split; auto; lia.
Qed.

Theorem compositions_nodup_sec {A : Type} : forall (l : list A) k,
  NoDup l -> NoDup (consecutive_combinations l k).
Proof. intros l k _. apply cc_NoDup. Qed.

Lemma nan_variants_spec {A : Type} : forall (nan : A) k c0 c,
  In c (nan_variants nan k c0) <->
  ((exists i, i < length c0 /\ c = add_to_nth i nan c0) \/ (length c0 < k /\ c = c0 ++ [[nan]])).
Proof.
  intros nan k c0 c. unfold nan_variants. rewrite in_app_iff, in_map_iff. split.
  - intros [[i [Hi Hin]]|H].
    + left. exists i. apply in_seq in Hin. split; [lia|auto].
    + right. destruct (length c0 <? k) eqn:E; simpl in H; [|tauto].
      apply Nat.ltb_lt in E. destruct H as [H|[]]. auto.
  - intros [[i [Hi Hc]]|[Hlt Hc]].
    + left. exists i. split; [auto|]. apply in_seq. lia.
    + right. apply Nat.ltb_lt in Hlt. rewrite Hlt. simpl. auto.
Qed.

Theorem nan_combinations_spec_sec {A : Type} : forall (l : list A) (nan : A) (k : nat) (c : list (list A)),
  In c (nan_combinations l nan k) <->
  exists c0, In c0 (consecutive_combinations l k) /\
    ((exists i, i < length c0 /\ c = add_to_nth i nan c0) \/ (length c0 < k /\ c = c0 ++ [[nan]])).
Proof.
  intros l nan k c. unfold nan_combinations. rewrite in_flat_map.
  split; intros [c0 [H0 H]]; exists c0; (split; [exact H0|]); apply nan_variants_spec; exact H.
Qed.

(* ---- add_to_nth ------------------------------------------------------------------------- *)

Lemma add_to_nth_length {A : Type} : forall i (x : A) c, length (add_to_nth i x c) = length c.
Proof.
  intros i x c. revert i. induction c as [|g t IH]; intros [|i]; simpl; auto.
Qed.

Lemma add_to_nth_concat_In {A : Type} : forall i (x y : A) c,
  In y (concat (add_to_nth i x c)) -> y = x \/ In y (concat c).
Proof.
  intros i x y c. revert i. induction c as [|g t IH]; intros [|i]; simpl; auto.
  - rewrite !in_app_iff. simpl. intuition.
  - rewrite !in_app_iff. intros [H|H]; auto. apply IH in H. tauto.
Qed.


(* the statements with [A] explicit *)
Theorem compositions_spec : forall (A : Type) (l : list A) (k : nat) (c : list (list A)),
  In c (consecutive_combinations l k) <->
  (concat c = l /\ Forall (fun g => g <> []) c /\ 2 <= length c <= k).
Proof. intros A. exact (@compositions_spec_sec A). Qed.

Theorem compositions_nodup : forall (A : Type) (l : list A) k,
  NoDup l -> NoDup (consecutive_combinations l k).
Proof. intros A. exact (@compositions_nodup_sec A). Qed.

Theorem nan_combinations_spec : forall (A : Type) (l : list A) (nan : A) (k : nat) (c : list (list A)),
  In c (nan_combinations l nan k) <->
  exists c0, In c0 (consecutive_combinations l k) /\
    ((exists i, i < length c0 /\ c = add_to_nth i nan c0) \/ (length c0 < k /\ c = c0 ++ [[nan]])).
Proof. intros A. exact (@nan_combinations_spec_sec A). Qed.

Print Assumptions compositions_spec.
Print Assumptions compositions_nodup.
Print Assumptions nan_combinations_spec.
