(* Chi2BoundProofs.v — extremal properties of the chi2 family of Model/Measures.v on k x 2 tables
   (binary target):  chi2 <= n  (Pearson, and a fortiori with Yates' correction), hence V^2 <= 1;
   a table in which every row has an empty cell (the feature determines the class) reaches
   chi2 = n, V^2 = 1 when Yates' correction does not apply (k <> 2).  The exact copy of a binary
   target is a 2 x 2 table: Yates applies and it is NOT maximal (copy_not_maximal).

   Row by row, with D = a c1 - b c0, rs = a + b, n = c0 + c1:
     (a - rs c0/n)^2/(rs c0/n) + (b - rs c1/n)^2/(rs c1/n) = D^2/(rs c0 c1)
                                                           = a c1/c0 + b c0/c1 - a b n^2/(rs c0 c1)
   and  sum_r (a_r c1/c0 + b_r c0/c1) = c1 + c0 = n. *)
From Coq Require Import ZArith QArith Qreduction Qfield List Bool Lia Lqa.
From AC.Model Require Import Measures.
Import ListNotations.
Open Scope Z_scope.

Definition col0 (rows : list (Z * Z)) : Z := fold_right (fun r acc => fst r + acc) 0 rows.
Definition col1 (rows : list (Z * Z)) : Z := fold_right (fun r acc => snd r + acc) 0 rows.

Definition chi2_sum (yates : bool) (c0 c1 : Z) (rows : list (Z * Z)) : Q :=
  fold_right
    (fun r acc =>
       Qplus (Qplus (chi2_cell yates (fst r) (Qmake ((fst r + snd r) * c0) (Z.to_pos (c0 + c1))))
                    (chi2_cell yates (snd r) (Qmake ((fst r + snd r) * c1) (Z.to_pos (c0 + c1)))))
             acc)
    0%Q rows.

Lemma chi2_unfold rows :
  chi2 rows =
  if (col0 rows + col1 rows =? 0) || (col0 rows =? 0) || (col1 rows =? 0)
     || existsb (fun r => (fst r + snd r) =? 0) rows
  then None
  else Some (Qred (chi2_sum (Nat.eqb (List.length rows) 2) (col0 rows) (col1 rows) rows)).
Proof. reflexivity. Qed.

(* ---------------------------------------------------------------------------------------- *)
(* one row, Pearson                                                                           *)
(* ---------------------------------------------------------------------------------------- *)
Lemma inj_nz z : z <> 0 -> ~ (inject_Z z == 0)%Q.
Proof. intros H E. unfold Qeq, inject_Z in E. cbn in E. lia. Qed.

Lemma pearson_alg (a b c0 c1 : Q) :
  ~ a + b == 0 -> ~ c0 == 0 -> ~ c1 == 0 -> ~ c0 + c1 == 0 ->
  ((a - (a + b) * c0 / (c0 + c1)) * (a - (a + b) * c0 / (c0 + c1)) / ((a + b) * c0 / (c0 + c1))
   + (b - (a + b) * c1 / (c0 + c1)) * (b - (a + b) * c1 / (c0 + c1)) / ((a + b) * c1 / (c0 + c1))
   == a * (c1 / c0) + b * (c0 / c1) - a * b * ((c0 + c1) * (c0 + c1)) / ((a + b) * c0 * c1))%Q.
Proof. intros H1 H2 H3 H4. field. repeat split; assumption. Qed.

Lemma expected_as_div rs c c0 c1 : 0 < c0 + c1 ->
  (Qmake (rs * c) (Z.to_pos (c0 + c1)) == inject_Z rs * inject_Z c / (inject_Z c0 + inject_Z c1))%Q.
Proof.
  intros Hn. rewrite Qmake_Qdiv, Z2Pos.id by exact Hn. rewrite inject_Z_mult, inject_Z_plus. reflexivity.
Qed.

Definition row_bound (c0 c1 : Z) (r : Z * Z) : Q :=
  (inject_Z (fst r) * (inject_Z c1 / inject_Z c0) + inject_Z (snd r) * (inject_Z c0 / inject_Z c1))%Q.

Definition row_gap (c0 c1 : Z) (r : Z * Z) : Q :=
  (inject_Z (fst r) * inject_Z (snd r) * ((inject_Z c0 + inject_Z c1) * (inject_Z c0 + inject_Z c1))
   / ((inject_Z (fst r) + inject_Z (snd r)) * inject_Z c0 * inject_Z c1))%Q.

Lemma pearson_row c0 c1 r :
  0 < fst r + snd r -> 0 < c0 -> 0 < c1 ->
  (chi2_cell false (fst r) (Qmake ((fst r + snd r) * c0) (Z.to_pos (c0 + c1)))
   + chi2_cell false (snd r) (Qmake ((fst r + snd r) * c1) (Z.to_pos (c0 + c1)))
   == row_bound c0 c1 r - row_gap c0 c1 r)%Q.
Proof.
  intros Hrs H0 H1. destruct r as [a b]. cbn [fst snd] in *. unfold chi2_cell, row_bound, row_gap.
  cbn [fst snd]. rewrite !expected_as_div by lia. rewrite !inject_Z_plus.
  apply pearson_alg; rewrite <- ?inject_Z_plus; apply inj_nz; lia.
Qed.

Lemma row_gap_nonneg c0 c1 r :
  0 <= fst r -> 0 <= snd r -> 0 < fst r + snd r -> 0 < c0 -> 0 < c1 -> (0 <= row_gap c0 c1 r)%Q.
Proof.
  intros Ha Hb Hrs H0 H1. unfold row_gap. rewrite <- !inject_Z_plus, <- !inject_Z_mult.
  unfold Qdiv. apply Qmult_le_0_compat.
  - change 0%Q with (inject_Z 0). rewrite <- Zle_Qle. nia.
  - apply Qinv_le_0_compat. change 0%Q with (inject_Z 0). rewrite <- Zle_Qle. nia.
Qed.

Lemma row_gap_zero c0 c1 r : fst r * snd r = 0 -> (row_gap c0 c1 r == 0)%Q.
Proof.
  intros H. unfold row_gap. rewrite <- (inject_Z_mult (fst r) (snd r)), H.
  unfold Qdiv. change (inject_Z 0) with 0%Q. ring.
Qed.

(* ---------------------------------------------------------------------------------------- *)
(* Yates' correction only shrinks a cell                                                      *)
(* ---------------------------------------------------------------------------------------- *)
Lemma yates_cell_le o e : (0 < e)%Q -> (chi2_cell true o e <= chi2_cell false o e)%Q.
Proof.
  intros He. unfold chi2_cell. set (oq := inject_Z o). unfold Qdiv.
  apply Qmult_le_compat_r; [|apply Qlt_le_weak, Qinv_lt_0_compat, He].
  unfold qmin, qabs, qsign.
  destruct (Qle_bool 0 (e - oq)) eqn:E1; destruct (Qle_bool (e - oq) 0) eqn:E2;
    try (apply Qle_bool_iff in E1); try (apply Qle_bool_iff in E2);
    try (apply not_true_iff_false in E1; rewrite Qle_bool_iff in E1);
    try (apply not_true_iff_false in E2; rewrite Qle_bool_iff in E2).
  - destruct (Qle_bool (1 # 2) (e - oq)) eqn:E3;
      [apply Qle_bool_iff in E3|apply not_true_iff_false in E3; rewrite Qle_bool_iff in E3]; nra.
  - destruct (Qle_bool (1 # 2) (e - oq)) eqn:E3;
      [apply Qle_bool_iff in E3|apply not_true_iff_false in E3; rewrite Qle_bool_iff in E3]; nra.
  - destruct (Qle_bool (1 # 2) (- (e - oq))) eqn:E3;
      [apply Qle_bool_iff in E3|apply not_true_iff_false in E3; rewrite Qle_bool_iff in E3]; nra.
  - exfalso. nra.
Qed.

Lemma expected_pos rs c n : 0 < rs -> 0 < c -> (0 < Qmake (rs * c) n)%Q.
Proof. intros H1 H2. unfold Qlt. cbn [Qnum Qden]. nia. Qed.

Lemma row_le yates c0 c1 r :
  0 <= fst r -> 0 <= snd r -> 0 < fst r + snd r -> 0 < c0 -> 0 < c1 ->
  (chi2_cell yates (fst r) (Qmake ((fst r + snd r) * c0) (Z.to_pos (c0 + c1)))
   + chi2_cell yates (snd r) (Qmake ((fst r + snd r) * c1) (Z.to_pos (c0 + c1)))
   <= row_bound c0 c1 r)%Q.
Proof.
  intros Ha Hb Hrs H0 H1.
  apply Qle_trans with
    (chi2_cell false (fst r) (Qmake ((fst r + snd r) * c0) (Z.to_pos (c0 + c1)))
     + chi2_cell false (snd r) (Qmake ((fst r + snd r) * c1) (Z.to_pos (c0 + c1))))%Q.
  - destruct yates; [|apply Qle_refl].
    apply Qplus_le_compat; apply yates_cell_le, expected_pos; assumption.
  - rewrite (pearson_row c0 c1 r Hrs H0 H1). pose proof (row_gap_nonneg c0 c1 r Ha Hb Hrs H0 H1). lra.
Qed.

(* ---------------------------------------------------------------------------------------- *)
(* sums over the rows                                                                         *)
(* ---------------------------------------------------------------------------------------- *)
Definition rows_ok (rows : list (Z * Z)) : Prop :=
  Forall (fun r : Z * Z => 0 <= fst r /\ 0 <= snd r /\ 0 < fst r + snd r) rows.

Definition bound_sum (c0 c1 : Z) (rows : list (Z * Z)) : Q :=
  fold_right (fun r acc => Qplus (row_bound c0 c1 r) acc) 0%Q rows.

Lemma bound_sum_value c0 c1 rows :
  (bound_sum c0 c1 rows
   == inject_Z (col0 rows) * (inject_Z c1 / inject_Z c0)
      + inject_Z (col1 rows) * (inject_Z c0 / inject_Z c1))%Q.
Proof.
  induction rows as [|r rows IH].
  - cbn [bound_sum col0 col1 fold_right]. change (inject_Z 0) with 0%Q. ring.
  - cbn [bound_sum col0 col1 fold_right]. fold (bound_sum c0 c1 rows). fold (col0 rows). fold (col1 rows).
    rewrite IH, !inject_Z_plus. unfold row_bound. ring.
Qed.

Lemma bound_sum_total rows :
  0 < col0 rows -> 0 < col1 rows ->
  (bound_sum (col0 rows) (col1 rows) rows == inject_Z (col0 rows + col1 rows))%Q.
Proof.
  intros H0 H1. rewrite bound_sum_value, inject_Z_plus. field. split; apply inj_nz; lia.
Qed.

Lemma chi2_sum_le yates c0 c1 rows :
  rows_ok rows -> 0 < c0 -> 0 < c1 -> (chi2_sum yates c0 c1 rows <= bound_sum c0 c1 rows)%Q.
Proof.
  intros Hok H0 H1. induction Hok as [|r rows [Ha [Hb Hrs]] _ IH].
  - apply Qle_refl.
  - cbn [chi2_sum bound_sum fold_right]. fold (chi2_sum yates c0 c1 rows). fold (bound_sum c0 c1 rows).
    apply Qplus_le_compat; [apply row_le; assumption|exact IH].
Qed.

Lemma chi2_sum_perfect c0 c1 rows :
  rows_ok rows -> 0 < c0 -> 0 < c1 -> Forall (fun r : Z * Z => fst r * snd r = 0) rows ->
  (chi2_sum false c0 c1 rows == bound_sum c0 c1 rows)%Q.
Proof.
  intros Hok H0 H1 Hp. induction Hok as [|r rows [Ha [Hb Hrs]] _ IH].
  - reflexivity.
  - inversion Hp as [|? ? Hr Hp']; subst.
    cbn [chi2_sum bound_sum fold_right]. fold (chi2_sum false c0 c1 rows). fold (bound_sum c0 c1 rows).
    rewrite (IH Hp'), (pearson_row c0 c1 r Hrs H0 H1), (row_gap_zero c0 c1 r Hr). ring.
Qed.

Lemma col_nonneg rows : rows_ok rows -> 0 <= col0 rows /\ 0 <= col1 rows.
Proof.
  induction 1 as [|r rows [Ha [Hb _]] _ [I0 I1]]; [cbn; lia|].
  cbn [col0 col1 fold_right]. fold (col0 rows). fold (col1 rows). lia.
Qed.

(* ---------------------------------------------------------------------------------------- *)
(* Theorems                                                                                   *)
(* ---------------------------------------------------------------------------------------- *)
Theorem chi2_upper_bound rows c :
  rows_ok rows -> chi2 rows = Some c -> (c <= inject_Z (col0 rows + col1 rows))%Q.
Proof.
  intros Hok Hc. rewrite chi2_unfold in Hc.
  destruct ((col0 rows + col1 rows =? 0) || (col0 rows =? 0) || (col1 rows =? 0)
            || existsb (fun r => (fst r + snd r) =? 0) rows) eqn:Hcond; [discriminate|].
  assert (Ec : c = Qred (chi2_sum (Nat.eqb (List.length rows) 2) (col0 rows) (col1 rows) rows))
    by congruence.
  rewrite Ec, Qred_correct. clear Hc Ec.
  apply orb_false_iff in Hcond. destruct Hcond as [Hcond _].
  apply orb_false_iff in Hcond. destruct Hcond as [Hcond H1].
  apply orb_false_iff in Hcond. destruct Hcond as [_ H0].
  destruct (col_nonneg rows Hok) as [N0 N1].
  assert (P0 : 0 < col0 rows) by lia. assert (P1 : 0 < col1 rows) by lia.
  rewrite <- (bound_sum_total rows P0 P1). apply chi2_sum_le; assumption.
Qed.

Theorem cramerv2_le_one rows n_obs v :
  rows_ok rows -> col0 rows + col1 rows <= n_obs -> cramerv2 rows n_obs = Some v -> (v <= 1)%Q.
Proof.
  intros Hok Hn Hv. unfold cramerv2 in Hv. destruct (chi2 rows) as [c|] eqn:Hc; [|discriminate].
  destruct (n_obs <=? 0) eqn:Hpos; [discriminate|].
  assert (Ev : v = Qred (c / inject_Z n_obs)) by congruence. rewrite Ev, Qred_correct. clear Hv Ev.
  pose proof (chi2_upper_bound rows c Hok Hc) as Hle.
  apply Qle_shift_div_r; [change 0%Q with (inject_Z 0); rewrite <- Zlt_Qlt; lia|].
  rewrite Qmult_1_l. eapply Qle_trans; [exact Hle|]. rewrite <- Zle_Qle. exact Hn.
Qed.

(* the feature determines the class (every row has an empty cell), both classes occur and the
   feature has k <> 2 categories: chi2 = n and V^2 = 1, the maximum *)
Theorem chi2_perfect rows :
  rows_ok rows -> Forall (fun r : Z * Z => fst r * snd r = 0) rows ->
  0 < col0 rows -> 0 < col1 rows -> List.length rows <> 2%nat ->
  exists c, chi2 rows = Some c /\ (c == inject_Z (col0 rows + col1 rows))%Q.
Proof.
  intros Hok Hp P0 P1 Hlen. rewrite chi2_unfold.
  assert (Hex : existsb (fun r => (fst r + snd r) =? 0) rows = false).
  { destruct (existsb (fun r => (fst r + snd r) =? 0) rows) eqn:E; [|reflexivity].
    apply existsb_exists in E. destruct E as [r [Hr E]]. apply Z.eqb_eq in E.
    unfold rows_ok in Hok. rewrite Forall_forall in Hok. pose proof (Hok r Hr). lia. }
  replace (col0 rows + col1 rows =? 0) with false by (symmetry; apply Z.eqb_neq; lia).
  replace (col0 rows =? 0) with false by (symmetry; apply Z.eqb_neq; lia).
  replace (col1 rows =? 0) with false by (symmetry; apply Z.eqb_neq; lia).
  rewrite Hex. cbn [orb].
  replace (Nat.eqb (List.length rows) 2) with false by (symmetry; apply Nat.eqb_neq; exact Hlen).
  eexists. split; [reflexivity|]. rewrite Qred_correct.
  rewrite (chi2_sum_perfect _ _ rows Hok P0 P1 Hp). apply bound_sum_total; assumption.
Qed.

Theorem cramerv2_perfect rows :
  rows_ok rows -> Forall (fun r : Z * Z => fst r * snd r = 0) rows ->
  0 < col0 rows -> 0 < col1 rows -> List.length rows <> 2%nat ->
  exists v, cramerv2 rows (col0 rows + col1 rows) = Some v /\ (v == 1)%Q.
Proof.
  intros Hok Hp P0 P1 Hlen. destruct (chi2_perfect rows Hok Hp P0 P1 Hlen) as [c [Hc Ec]].
  unfold cramerv2. rewrite Hc.
  replace (col0 rows + col1 rows <=? 0) with false by (symmetry; apply Z.leb_gt; lia).
  eexists. split; [reflexivity|]. rewrite Qred_correct, Ec. field. apply inj_nz. lia.
Qed.

(* the exact copy of a binary target is a 2 x 2 table: Yates' correction applies, it does not
   reach the maximum, and a feature with three categories nested in the classes is ranked before
   it, by V^2 and (on this sample) by T^4 *)
Theorem copy_not_maximal :
  cramerv2 [(6, 0); (0, 6)] 12 = Some (25 # 36)%Q /\
  cramerv2 [(6, 0); (0, 3); (0, 3)] 12 = Some 1%Q /\
  tschuprowt4 [(6, 0); (0, 6)] 12 = Some (625 # 1296)%Q /\
  tschuprowt4 [(6, 0); (0, 3); (0, 3)] 12 = Some (1 # 2)%Q /\
  (625 # 1296 < 1 # 2)%Q.
Proof. repeat split; vm_compute; reflexivity. Qed.

Print Assumptions chi2_upper_bound.
Print Assumptions cramerv2_le_one.
Print Assumptions chi2_perfect.
Print Assumptions cramerv2_perfect.
Print Assumptions copy_not_maximal.
