(* CheckC01Proofs.v — packaging of the carving theorems for Properties/C01.v and C02.v *)
From Coq Require Import ZArith QArith List Bool Lia.
Import ListNotations.
From AC.Model Require Import Float Combos Measures Carve CheckC01.
From AC.Proofs Require Import CombosProofs CarveProofs.

Lemma dev_aligned_b_spec : forall d, dev_aligned_b d = true <-> dev_aligned d.
Proof.
  intros d. unfold dev_aligned_b, dev_aligned. destruct (d_dev d) as [dv|]; [|tauto].
  apply Nat.eqb_eq.
Qed.

(* the final units the kept grouping is measured on: all modalities, the missing one last *)
Definition final_units (d : feature_data) : list ymset :=
  d_train d ++ match d_train_nan d with Some tn => [tn] | None => [] end.
Definition final_dev_units (d : feature_data) : option (list ymset) :=
  match d_dev d with
  | Some dv => Some (dv ++ [match d_dev_nan d with Some x => x | None => [] end])
  | None => None
  end.

Theorem carve_bounds : forall cf d c, dev_aligned d -> carve cf d = Kept c ->
  (length c <= max_n_mod cf)%nat /\ viable cf (final_units d) (final_dev_units d) c = true.
Proof.
  intros cf d c Hal Hk. pose proof (carve_satisfies_C02_b_partial cf d Hal) as H.
  rewrite Hk in H. unfold C02_b in H. apply andb_true_iff in H. destruct H as [H1 H2].
  split; [apply Nat.leb_le; exact H1|exact H2].
Qed.

(* what `viable` means, unfolded one level: the three clauses of the property *)
Theorem viable_unfold : forall cf train dev c, viable cf train dev c = true <->
  rows_ok (min_freq_mod cf) (rows_of train c) = true /\
  match dev with
  | None => True
  | Some d => same_ranks (map rate (rows_of train c)) (map rate (rows_of d c)) = true /\
              rows_ok (min_freq_mod cf) (rows_of d c) = true
  end.
Proof.
  intros cf train dev c. unfold viable. destruct dev as [d|].
  - rewrite !andb_true_iff. tauto.
  - rewrite andb_true_r. tauto.
Qed.

Theorem rows_ok_unfold : forall mfm rows, rows_ok mfm rows = true <->
  (forall u, In u rows -> fgeb (freq (total_n rows) u) mfm = true) /\
  no_close_adjacent (map rate rows) = true.
Proof.
  intros mfm rows. unfold rows_ok, total_n. rewrite andb_true_iff, forallb_forall. tauto.
Qed.
