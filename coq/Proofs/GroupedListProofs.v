(* GroupedListProofs.v — property C13 on the model: the invariant WF is established by the
   constructors and preserved by every valid operation, every valid operation refines the plain
   reference model, lookups agree with the content, and no value disappears except through
   remove/pop.  All statements are for arbitrary inputs. *)
From Coq Require Import Permutation Lia.
From AC.Model Require Import Base GroupedList.
From AC.Proofs Require Import BaseLemmas GroupedListSpec.

(* ---- consequences of WF ----------------------------------------------------------------- *)

Lemma copy_id : forall g, copy g = g.
Proof. intros [ks c]; reflexivity. Qed.

Lemma abs_keys : forall g, map fst (abs g) = keys g.
Proof. intro g. apply (dkeys_map (get g) (keys g)). Qed.

Lemma get_dget : forall g k vs, dget k (content g) = Some vs -> get g k = vs.
Proof. intros g k vs H. unfold get. rewrite H. reflexivity. Qed.

Lemma WF_key_dget : forall g k, WF g -> In k (keys g) ->
  exists vs, dget k (content g) = Some vs /\ In k vs.
Proof.
  intros g k (Hk & Hdk & Hkd & Hv & Hl) Hi.
  apply Hkd in Hi. destruct (In_dkeys_dget _ _ Hi) as [vs Hg].
  exists vs; split; auto. eapply Hl, dget_In; eauto.
Qed.

Lemma WF_key_get : forall g k, WF g -> In k (keys g) -> In k (get g k).
Proof.
  intros g k Hwf Hi. destruct (WF_key_dget g k Hwf Hi) as (vs & Hg & Hin).
  rewrite (get_dget _ _ _ Hg). exact Hin.
Qed.

Lemma WF_get_notin : forall g k, WF g -> ~ In k (keys g) -> get g k = [].
Proof.
  intros g k (Hk & Hdk & Hkd & Hv & Hl) Hn. unfold get.
  replace (dget k (content g)) with (@None (list val)); auto.
  symmetry. apply dget_None. rewrite <- Hkd. exact Hn.
Qed.

Lemma In_get_values : forall g k v, In v (get g k) -> In v (values g).
Proof.
  intros g k v H. unfold get in H. destruct (dget k (content g)) as [vs|] eqn:E; [|destruct H].
  apply In_dvalues. exists k, vs. split; auto. apply dget_In; exact E.
Qed.

Lemma WF_keys_perm : forall g, WF g -> Permutation (keys g) (dkeys (content g)).
Proof. intros g (Hk & Hdk & Hkd & Hv & Hl). apply NoDup_Permutation; auto. Qed.

Lemma values_flat_map_get : forall g, WF g -> Permutation (values g) (flat_map (get g) (keys g)).
Proof.
  intros g Hwf. rewrite (Permutation_flat_map (get g) (WF_keys_perm g Hwf)).
  unfold values, get. destruct Hwf as (Hk & Hdk & _).
  rewrite (flat_map_dget_dkeys _ Hdk). reflexivity.
Qed.

(* a member other than the leader is not itself a leader *)
Lemma WF_member_not_key : forall g l m, WF g -> In l (keys g) -> In m (get g l) -> m <> l ->
  ~ In m (keys g).
Proof.
  intros g l m Hwf Hl Hm Hn Hmk.
  destruct (WF_key_dget g l Hwf Hl) as (cl & Hgl & _).
  destruct (WF_key_dget g m Hwf Hmk) as (cm & Hgm & Hmm).
  rewrite (get_dget _ _ _ Hgl) in Hm.
  destruct Hwf as (_ & _ & _ & Hv & _).
  assert (E : (l, cl) = (m, cm)).
  { eapply NoDup_dvalues_unique; eauto using dget_In. }
  inversion E; congruence.
Qed.

(* a gl whose content lists its keys in order *)
Lemma WF_map : forall (f : val -> list val) L,
  NoDup L -> NoDup (flat_map f L) -> (forall k, In k L -> In k (f k)) ->
  WF (mkGL L (map (fun k => (k, f k)) L)).
Proof.
  intros f L H1 H2 H3. unfold WF; simpl. rewrite dkeys_map, dvalues_map.
  repeat split; auto.
  intros k vs H. apply in_map_iff in H. destruct H as (x & E & Hx). inversion E; subst. auto.
Qed.

Lemma get_map : forall (f : val -> list val) L k, In k L ->
  get (mkGL L (map (fun x => (x, f x)) L)) k = f k.
Proof.
  intros f L k H. unfold get; simpl. rewrite dget_map.
  apply mem_In in H. rewrite H. reflexivity.
Qed.

(* ---- constructors ----------------------------------------------------------------------- *)

Theorem wf_of_list : forall l, NoDup l -> WF (of_list l).
Proof.
  intros l H. unfold of_list. rewrite dict_of_keys_map, (keep_first_NoDup_id l H).
  apply WF_map; auto.
  - rewrite flat_map_singleton; exact H.
  - intros k _; left; reflexivity.
Qed.

Lemma In_other_values : forall key d v,
  In v (other_values key d) <-> exists k vs, In (k, vs) d /\ py_eq key k = false /\ In v vs.
Proof.
  intros key d v. unfold other_values. rewrite in_flat_map. split.
  - intros [[k vs] [H1 H2]]. simpl in H2. destruct (py_eq key k) eqn:E; simpl in H2; [destruct H2|].
    exists k, vs; auto.
  - intros (k & vs & H1 & H2 & H3). exists (k, vs); split; auto. simpl. rewrite H2. exact H3.
Qed.

Lemma not_in_dvalues : forall key d own, NoDup (dkeys d) -> dget key d = Some own ->
  ~ In key (other_values key d) -> ~ In key own -> ~ In key (dvalues d).
Proof.
  intros key d own Hd Hg Ho Hown Hi.
  apply In_dvalues in Hi. destruct Hi as (k & vs & H1 & H2).
  destruct (py_eq key k) eqn:E.
  - apply py_eq_true in E; subst k. rewrite (In_dget _ _ _ Hd H1) in Hg. inversion Hg; subst. tauto.
  - apply Ho. apply In_other_values. eauto.
Qed.

Definition loop_inv (orig : dict) (todo ks : list val) (c : dict) : Prop :=
  NoDup todo /\ NoDup ks /\ NoDup (dkeys c) /\ (forall k, In k ks <-> In k (dkeys c)) /\
  (forall k, In k todo -> In k ks) /\
  NoDup (dvalues c) /\
  (forall v, In v (dvalues c) -> In v (dvalues orig) \/ ~ In v todo) /\
  (forall k vs, In (k, vs) c ->
     (In k todo /\ dget k orig = Some vs) \/ (~ In k todo /\ In k vs)).

Lemma of_dict_loop_wf : forall orig, NoDup (dkeys orig) ->
  forall todo ks c, loop_inv orig todo ks c ->
  exists ks' c', of_dict_loop orig todo ks c = Ok (ks', c') /\ WF (mkGL ks' c').
Proof.
  intros orig Hod todo; induction todo as [|key rest IH];
    intros ks c (Ht & Hks & Hdk & Hkd & Hsub & Hv & Hvo & Hent).
  - exists ks, c; split; [reflexivity|]. unfold WF; simpl. repeat split; try apply Hkd; auto.
    intros k vs Hi. destruct (Hent k vs Hi) as [[[] _]|[_ H]]; exact H.
  - inversion Ht as [|x l Hnr Hrest]; subst.
    assert (Hkey_ks : In key ks) by (apply Hsub; left; reflexivity).
    assert (Hkey_c : In key (dkeys c)) by (apply Hkd; exact Hkey_ks).
    cbn [of_dict_loop].
    destruct (mem key (other_values key orig)) eqn:Eo; cbn [negb].
    + (* key belongs to another group: dropped *)
      destruct (In_dpop_Some _ _ Hkey_c) as [c' Hc'].
      destruct (In_lremove _ _ Hkey_ks) as [ks' Hks'].
      rewrite Hc', Hks'. apply IH.
      pose proof (dpop_keys _ _ _ Hc') as Hlr.
      destruct (dvalues_dpop_perm _ _ _ Hc') as (old & _ & Hperm).
      assert (Hv' : NoDup (old ++ dvalues c')) by (eapply Permutation_NoDup; eauto).
      apply NoDup_app_iff in Hv'. destruct Hv' as (_ & Hv' & _).
      unfold loop_inv. repeat split.
      * exact Hrest.
      * apply (lremove_NoDup _ _ _ Hks Hks').
      * apply (lremove_NoDup _ _ _ Hdk Hlr).
      * intro Hi. apply (lremove_In_iff _ _ _ k Hks Hks') in Hi.
        apply (lremove_In_iff _ _ _ k Hdk Hlr). rewrite <- Hkd. exact Hi.
      * intro Hi. apply (lremove_In_iff _ _ _ k Hdk Hlr) in Hi.
        apply (lremove_In_iff _ _ _ k Hks Hks'). rewrite Hkd. exact Hi.
      * intros k Hi. apply (lremove_In_iff _ _ _ k Hks Hks'). split.
        -- apply Hsub; right; exact Hi.
        -- intro; subst; tauto.
      * exact Hv'.
      * intros v Hi.
        assert (Hi' : In v (dvalues c)).
        { eapply Permutation_in; [apply Permutation_sym; exact Hperm|]. apply in_or_app; auto. }
        destruct (Hvo v Hi') as [H|H]; [left; exact H | right; intro; apply H; right; assumption].
      * intros k vs Hi.
        assert (Hne : k <> key).
        { intro; subst k. apply In_dkeys in Hi.
          apply (lremove_NoDup _ _ _ Hdk Hlr). exact Hi. }
        apply (In_dpop _ _ _ _ Hc') in Hi.
        destruct (Hent k vs Hi) as [[[H|H] H']|[H H']].
        -- congruence.
        -- left; auto.
        -- right; split; auto. intro; apply H; right; assumption.
    + (* key is in no other group *)
      destruct (In_dkeys_dget _ _ Hkey_c) as [cur Hcur].
      assert (Horig : dget key orig = Some cur).
      { destruct (Hent key cur (dget_In _ _ _ Hcur)) as [[_ H]|[H _]]; [exact H|].
        exfalso; apply H; left; reflexivity. }
      rewrite Horig, Hcur.
      destruct (mem key cur) eqn:Ec; cbn [negb].
      * (* already a member of its own group *)
        apply IH. unfold loop_inv. repeat split; auto; try apply Hkd.
        -- intros k Hi. apply Hsub; right; exact Hi.
        -- intros v Hi. destruct (Hvo v Hi) as [H|H]; [left; exact H | right; intro; apply H; right; assumption].
        -- intros k vs Hi. destruct (Hent k vs Hi) as [[[H|H] H']|[H H']].
           ++ subst k. right. split; [exact Hnr|].
              rewrite Horig in H'. inversion H'; subst. apply mem_In; exact Ec.
           ++ left; auto.
           ++ right; split; auto. intro; apply H; right; assumption.
      * (* the leader is added to its own group *)
        apply mem_false in Eo. apply mem_false in Ec.
        pose proof (not_in_dvalues _ _ _ Hod Horig Eo Ec) as Hnv.
        assert (Hnc : ~ In key (dvalues c)).
        { intro Hi. destruct (Hvo key Hi) as [H|H]; [tauto | apply H; left; reflexivity]. }
        pose proof (dvalues_dset_extend key cur [key] c Hcur) as Hperm.
        assert (Hdk' : dkeys (dset key (cur ++ [key]) c) = dkeys c) by (apply dkeys_dset_in; exact Hkey_c).
        apply IH. unfold loop_inv. rewrite Hdk'. repeat split; auto; try apply Hkd.
        -- intros k Hi. apply Hsub; right; exact Hi.
        -- eapply Permutation_NoDup; [apply Permutation_sym; exact Hperm|].
           simpl. constructor; auto.
        -- intros v Hi. apply (Permutation_in _ Hperm) in Hi. simpl in Hi.
           destruct Hi as [Hi|Hi]; [subst v; right; exact Hnr|].
           destruct (Hvo v Hi) as [H|H]; [left; exact H | right; intro; apply H; right; assumption].
        -- intros k vs Hi. veq k key.
           ++ subst k. right. split; [exact Hnr|].
              assert (Hg : dget key (dset key (cur ++ [key]) c) = Some vs).
              { apply In_dget; [rewrite Hdk'; exact Hdk | exact Hi]. }
              rewrite dget_dset_same in Hg. inversion Hg; subst.
              apply in_or_app; right; left; reflexivity.
           ++ apply In_dset in Hi. destruct Hi as [[H _]|Hi]; [congruence|].
              destruct (Hent k vs Hi) as [[[H|H] H']|[H H']].
              ** congruence.
              ** left; auto.
              ** right; split; auto. intro; apply H; right; assumption.
Qed.

Lemma loop_inv_init : forall d, NoDup (dkeys d) -> NoDup (dvalues d) ->
  loop_inv d (dkeys d) (dkeys d) d.
Proof.
  intros d Hd Hv. unfold loop_inv. repeat split; auto.
  intros k vs Hi. left. split; [eapply In_dkeys; eauto | apply In_dget; auto].
Qed.

(* on a dict with unique keys and unique values the constructor succeeds, with a WF result *)
Lemma of_dict_ok : forall d, NoDup (dkeys d) -> NoDup (dvalues d) ->
  exists g, of_dict d = Ok g /\ WF g.
Proof.
  intros d Hd Hv. unfold of_dict.
  apply nodupb_NoDup in Hv as Hb. rewrite Hb. cbn [negb].
  destruct (of_dict_loop_wf d Hd _ _ _ (loop_inv_init d Hd Hv)) as (ks' & c' & Hl & Hwf).
  rewrite Hl. simpl. eauto.
Qed.

Theorem of_dict_total : forall d, NoDup (dkeys d) -> of_dict d <> InternalErr.
Proof.
  intros d Hd. destruct (nodupb (dvalues d)) eqn:Hb.
  - apply nodupb_NoDup in Hb. destruct (of_dict_ok d Hd Hb) as (g & -> & _). discriminate.
  - unfold of_dict. rewrite Hb. discriminate.
Qed.

Theorem wf_of_dict : forall d g, NoDup (dkeys d) -> of_dict d = Ok g -> WF g.
Proof.
  intros d g Hd H. destruct (nodupb (dvalues d)) eqn:Hb.
  - apply nodupb_NoDup in Hb. destruct (of_dict_ok d Hd Hb) as (g' & Hg' & Hwf).
    rewrite Hg' in H. inversion H; subst; exact Hwf.
  - unfold of_dict in H. rewrite Hb in H. discriminate.
Qed.

(* a dict that is already well formed, without NaN leader, is taken as it is *)
Lemma of_dict_loop_id : forall d,
  NoDup (dvalues d) -> (forall k vs, In (k, vs) d -> In k vs) -> ~ In VNaN (dkeys d) ->
  forall todo ks c, (forall k, In k todo -> In k (dkeys d)) ->
  of_dict_loop d todo ks c = Ok (ks, c).
Proof.
  intros d Hv Hl Hnan todo; induction todo as [|key rest IH]; intros ks c Hsub; [reflexivity|].
  cbn [of_dict_loop].
  assert (Hk : In key (dkeys d)) by (apply Hsub; left; reflexivity).
  destruct (In_dkeys_dget _ _ Hk) as [own Hown]. pose proof (dget_In _ _ _ Hown) as Hin.
  assert (Eo : mem key (other_values key d) = false).
  { apply mem_false. intro Hi. apply In_other_values in Hi. destruct Hi as (k & vs & H1 & H2 & H3).
    assert (E : (k, vs) = (key, own)) by (eapply NoDup_dvalues_unique; eauto).
    inversion E; subst. rewrite py_eq_notnan, val_eqb_refl in H2; [discriminate|].
    intro; subst; tauto. }
  rewrite Eo, Hown. cbn [negb].
  assert (Ec : mem key own = true) by (apply mem_In; eauto).
  rewrite Ec. cbn [negb]. apply IH. intros k Hi; apply Hsub; right; exact Hi.
Qed.

Lemma of_dict_id : forall d,
  NoDup (dvalues d) -> (forall k vs, In (k, vs) d -> In k vs) -> ~ In VNaN (dkeys d) ->
  of_dict d = Ok (mkGL (dkeys d) d).
Proof.
  intros d Hv Hl Hnan. unfold of_dict.
  apply nodupb_NoDup in Hv as Hb. rewrite Hb. cbn [negb].
  rewrite (of_dict_loop_id d Hv Hl Hnan) by auto. reflexivity.
Qed.

(* ---- lookups agree with content --------------------------------------------------------- *)

Theorem get_group_spec : forall g k vs v,
  WF g -> In (k, vs) (content g) -> In v vs -> get_group g v = k.
Proof.
  intros g k vs v (_ & _ & _ & Hv & _) Hi Hvs. unfold get_group, found_groups.
  set (F := filter (fun kv => existsb (is_equal v) (snd kv)) (content g)).
  assert (HF : forall e, In e F -> e = (k, vs)).
  { intros [k' vs'] He. apply filter_In in He. destruct He as [He Hm]. cbn [snd] in Hm.
    rewrite existsb_is_equal in Hm. apply mem_In in Hm.
    eapply NoDup_dvalues_unique; eauto. }
  assert (Hin : In (k, vs) F).
  { apply filter_In. split; auto. cbn [snd]. rewrite existsb_is_equal. apply mem_In; exact Hvs. }
  destruct F as [|e F']; [destruct Hin|].
  rewrite (HF e) by (left; reflexivity). reflexivity.
Qed.

Theorem get_group_none : forall g v,
  (forall k vs, In (k, vs) (content g) -> ~ In v vs) -> get_group g v = v.
Proof.
  intros g v H. unfold get_group, found_groups.
  destruct (filter (fun kv => existsb (is_equal v) (snd kv)) (content g)) as [|[k vs] F'] eqn:E;
    [reflexivity|].
  assert (Hi : In (k, vs) (filter (fun kv => existsb (is_equal v) (snd kv)) (content g)))
    by (rewrite E; left; reflexivity).
  apply filter_In in Hi. destruct Hi as [Hi Hm]. cbn [snd] in Hm.
  rewrite existsb_is_equal in Hm. apply mem_In in Hm. exfalso; eapply H; eauto.
Qed.

Theorem contains_spec : forall g v, contains g v = true <-> In v (values g).
Proof. intros g v. unfold contains. rewrite existsb_is_equal. apply mem_In. Qed.

Theorem get_abs : forall g k, WF g -> get g k = s_members (abs g) k.
Proof.
  intros g k Hwf. unfold s_members, abs. rewrite dget_map.
  destruct (mem k (keys g)) eqn:E; [reflexivity|].
  apply WF_get_notin; auto. apply mem_false; exact E.
Qed.

Theorem values_abs : forall g, WF g -> Permutation (values g) (flat_map snd (abs g)).
Proof.
  intros g Hwf. unfold abs. change (flat_map snd) with dvalues. rewrite dvalues_map.
  apply values_flat_map_get; exact Hwf.
Qed.

(* ---- remove / pop ----------------------------------------------------------------------- *)

Lemma WF_intro : forall ks c,
  NoDup ks -> NoDup (dkeys c) -> (forall k, In k ks <-> In k (dkeys c)) ->
  NoDup (dvalues c) -> (forall k vs, In (k, vs) c -> In k vs) -> WF (mkGL ks c).
Proof. intros; unfold WF; simpl; auto. Qed.

Lemma s_remove_map : forall (f : val -> list val) v l,
  s_remove v (map (fun x => (x, f x)) l)
  = map (fun x => (x, f x)) (filter (fun x => negb (val_eqb v x)) l).
Proof.
  intros f v l. unfold s_remove. induction l as [|a t IH]; simpl; [reflexivity|].
  destruct (val_eqb v a); simpl; [exact IH | f_equal; exact IH].
Qed.

Lemma remove_gen : forall ks c v,
  NoDup ks -> NoDup (dkeys c) -> (forall k, In k ks <-> In k (dkeys c)) -> In v ks ->
  exists c', dpop v c = Some c' /\
    remove (mkGL ks c) v = Ok (mkGL (filter (fun x => negb (val_eqb v x)) ks) c') /\
    NoDup (filter (fun x => negb (val_eqb v x)) ks) /\ NoDup (dkeys c') /\
    (forall k, In k (filter (fun x => negb (val_eqb v x)) ks) <-> In k (dkeys c')) /\
    ~ In v (dkeys c').
Proof.
  intros ks c v Hks Hdk Hkd Hv.
  assert (Hvc : In v (dkeys c)) by (apply Hkd; exact Hv).
  destruct (In_dpop_Some _ _ Hvc) as [c' Hc']. exists c'.
  pose proof (dpop_keys _ _ _ Hc') as Hlr.
  split; [exact Hc'|]. split.
  - unfold remove; cbn [keys content]. rewrite (lremove_filter v ks Hks Hv), Hc'. reflexivity.
  - split; [apply NoDup_filter; exact Hks|].
    split; [apply (lremove_NoDup _ _ _ Hdk Hlr)|]. split.
    + intro k. rewrite In_filter_neq, (lremove_In_iff _ _ _ k Hdk Hlr), Hkd. tauto.
    + apply (lremove_NoDup _ _ _ Hdk Hlr).
Qed.

Lemma remove_spec : forall g v, WF g -> In v (keys g) ->
  exists g', remove g v = Ok g' /\ WF g' /\ abs g' = s_remove v (abs g) /\
    Permutation (values g) (get g v ++ values g').
Proof.
  intros [ks c] v Hwf Hv. pose proof Hwf as (Hk & Hdk & Hkd & Hvals & Hl).
  cbn [keys content] in *.
  destruct (remove_gen ks c v Hk Hdk Hkd Hv) as (c' & Hc' & Hr & Hk' & Hdk' & Hkd' & Hnv).
  exists (mkGL (filter (fun x => negb (val_eqb v x)) ks) c'). split; [exact Hr|].
  destruct (dvalues_dpop_perm _ _ _ Hc') as (old & Hold & Hperm).
  split; [|split].
  - apply WF_intro; auto.
    + apply (Permutation_NoDup Hperm) in Hvals. apply NoDup_app_iff in Hvals. tauto.
    + intros k vs Hi. apply Hl. eapply In_dpop; eauto.
  - unfold abs; cbn [keys]. rewrite s_remove_map. apply map_ext_in.
    intros x Hx. apply In_filter_neq in Hx. f_equal. unfold get; cbn [content].
    rewrite (dget_dpop_other _ _ _ _ Hc'); tauto.
  - unfold values, get; cbn [content]. rewrite Hold. exact Hperm.
Qed.

Theorem values_remove : forall g v g', WF g -> In v (keys g) -> remove g v = Ok g' ->
  Permutation (values g) (get g v ++ values g').
Proof.
  intros g v g' Hwf Hv Hr. destruct (remove_spec g v Hwf Hv) as (g1 & Hr1 & _ & _ & Hp).
  rewrite Hr1 in Hr. inversion Hr; subst. exact Hp.
Qed.

(* ---- group / group_list ----------------------------------------------------------------- *)

Lemma group_spec : forall g d k, WF g -> d <> k -> In d (keys g) -> In k (keys g) ->
  exists g', group g d k = Ok g' /\ WF g' /\
    keys g' = filter (fun x => negb (val_eqb d x)) (keys g) /\
    abs g' = s_group (abs g) d k /\ Permutation (values g') (values g).
Proof.
  intros [ks c] d k Hwf Hne Hd Hkk. pose proof Hwf as (Hk & Hdk & Hkd & Hvals & Hl).
  destruct (WF_key_dget _ d Hwf Hd) as (cd & Hcd & _).
  destruct (WF_key_dget _ k Hwf Hkk) as (ck & Hck & Hkck).
  cbn [keys content] in *.
  set (c1 := dset k (cd ++ ck) c). set (c2 := dset d [] c1).
  assert (Hdk1 : dkeys c1 = dkeys c) by (apply dkeys_dset_in, Hkd, Hkk).
  assert (Hdk2 : dkeys c2 = dkeys c).
  { unfold c2. rewrite dkeys_dset_in; [exact Hdk1 | rewrite Hdk1; apply Hkd, Hd]. }
  assert (Hdk2n : NoDup (dkeys c2)) by (rewrite Hdk2; exact Hdk).
  assert (Hkd2 : forall x, In x ks <-> In x (dkeys c2)) by (rewrite Hdk2; exact Hkd).
  destruct (remove_gen ks c2 d Hk Hdk2n Hkd2 Hd) as (c3 & Hc3 & Hr & Hk' & Hdk' & Hkd' & Hnd).
  assert (E1 : val_eqb d k = false) by (apply val_eqb_neq; exact Hne).
  assert (E2 : mem d ks = true) by (apply mem_In; exact Hd).
  assert (E3 : mem k ks = true) by (apply mem_In; exact Hkk).
  exists (mkGL (filter (fun x => negb (val_eqb d x)) ks) c3).
  assert (Hp : Permutation (dvalues c3) (dvalues c)).
  { destruct (dvalues_dpop_perm _ _ _ Hc3) as (old & Hold & Hp3).
    unfold c2 in Hold. rewrite dget_dset_same in Hold. inversion Hold; subst old.
    cbn [app] in Hp3.
    assert (Hd1 : dget d c1 = Some cd) by (unfold c1; rewrite dget_dset_other; auto).
    pose proof (dvalues_dset_perm d [] c1 cd Hd1) as Hp2. cbn [app] in Hp2. fold c2 in Hp2.
    pose proof (dvalues_dset_perm k (cd ++ ck) c ck Hck) as Hp1. fold c1 in Hp1.
    apply (Permutation_app_inv_l (cd ++ ck)).
    transitivity (ck ++ cd ++ dvalues c3);
      [rewrite <- app_assoc; apply Permutation_app_swap_app|].
    transitivity (ck ++ dvalues c1); [|exact Hp1].
    apply Permutation_app_head. rewrite <- Hp3. exact Hp2. }
  assert (Hget : forall x, x <> d ->
            dget x c3 = if val_eqb x k then Some (cd ++ ck) else dget x c).
  { intros x Hx. rewrite (dget_dpop_other _ _ _ _ Hc3 Hx). unfold c2.
    rewrite dget_dset_other by exact Hx. unfold c1. veq x k.
    - subst; apply dget_dset_same.
    - apply dget_dset_other; exact E. }
  split; [|split; [|split; [|split]]].
  - unfold group, is_equal; cbn [keys content]. rewrite E1, E2, E3. cbn [negb].
    rewrite Hcd, Hck. exact Hr.
  - apply WF_intro; auto.
    + eapply Permutation_NoDup; [apply Permutation_sym; exact Hp | exact Hvals].
    + intros x vs Hi.
      assert (Hx : x <> d) by (intro; subst x; apply Hnd; eapply In_dkeys; eauto).
      apply (In_dget _ _ _ Hdk') in Hi. rewrite (Hget x Hx) in Hi.
      destruct (val_eqb x k) eqn:E.
      * apply val_eqb_eq in E; subst x. inversion Hi; subst. apply in_or_app; right; exact Hkck.
      * apply (Hl x vs). apply dget_In; exact Hi.
  - reflexivity.
  - unfold s_group. rewrite E1, <- (get_abs _ d Hwf), (get_dget (mkGL ks c) d cd Hcd).
    unfold abs; cbn [keys]. rewrite s_remove_map, map_map. apply map_ext_in.
    intros x Hx. apply In_filter_neq in Hx. destruct Hx as [Hx Hxd]. cbn [fst snd].
    unfold get; cbn [content]. rewrite (Hget x Hxd), (val_eqb_sym k x).
    destruct (val_eqb x k) eqn:E; [|reflexivity].
    apply val_eqb_eq in E; subst x. rewrite Hck. reflexivity.
  - exact Hp.
Qed.

Lemma s_group_list_cons : forall s d t k,
  s_group_list s (d :: t) k = s_group_list (s_group s d k) t k.
Proof. reflexivity. Qed.

Lemma group_list_spec : forall k ds g, WF g -> In k (keys g) ->
  (forall d, In d ds -> In d (keys g)) ->
  NoDup (filter (fun d => negb (val_eqb d k)) ds) ->
  exists g', group_list g ds k = Ok g' /\ WF g' /\
    abs g' = s_group_list (abs g) ds k /\ Permutation (values g') (values g).
Proof.
  intros k ds; induction ds as [|d t IH]; intros g Hwf Hk Hds Hnd.
  - exists g. split; [reflexivity|]. split; [exact Hwf|]. split; reflexivity.
  - cbn [group_list]. rewrite s_group_list_cons. cbn [filter] in Hnd.
    destruct (val_eq_dec d k) as [E|E].
    + subst d. rewrite val_eqb_refl in Hnd. cbn [negb] in Hnd.
      assert (Hg : group g k k = Ok g) by (unfold group, is_equal; rewrite val_eqb_refl; reflexivity).
      rewrite Hg. cbn [bind]. unfold s_group at 1. rewrite val_eqb_refl.
      apply IH; auto. intros d Hd; apply Hds; right; exact Hd.
    + assert (E' : val_eqb d k = false) by (apply val_eqb_neq; exact E).
      rewrite E' in Hnd. cbn [negb] in Hnd. inversion Hnd as [|x l Hnotin Hnd']; subst.
      destruct (group_spec g d k Hwf E (Hds d (or_introl eq_refl)) Hk)
        as (g1 & Hg1 & Hwf1 & Hk1 & Habs1 & Hp1).
      rewrite Hg1. cbn [bind]. rewrite <- Habs1.
      destruct (IH g1 Hwf1) as (g' & Hg' & Hwf' & Habs' & Hp'); auto.
      * rewrite Hk1. apply In_filter_neq. split; auto.
      * intros d' Hd'. rewrite Hk1. apply In_filter_neq. split; [apply Hds; right; exact Hd'|].
        intro; subst d'. apply Hnotin. apply filter_In. split; auto. rewrite E'; reflexivity.
      * exists g'. split; [exact Hg'|]. split; [exact Hwf'|]. split; [exact Habs'|].
        rewrite Hp'. exact Hp1.
Qed.

(* ---- append / update -------------------------------------------------------------------- *)

Lemma append_spec : forall g v, WF g -> ~ In v (values g) ->
  WF (append g v) /\ abs (append g v) = abs g ++ [(v, [v])] /\
  values (append g v) = values g ++ [v].
Proof.
  intros [ks c] v Hwf Hv. pose proof Hwf as (Hk & Hdk & Hkd & Hvals & Hl).
  unfold values in *. cbn [keys content] in *.
  assert (Hnk : ~ In v (dkeys c)).
  { intro Hi. destruct (In_dkeys_dget _ _ Hi) as [vs Hg]. apply dget_In in Hg.
    apply Hv. apply In_dvalues. exists v, vs. split; [exact Hg | apply (Hl v vs Hg)]. }
  assert (Hnks : ~ In v ks) by (rewrite Hkd; exact Hnk).
  unfold append; cbn [keys content]. split; [|split].
  - apply WF_intro.
    + apply NoDup_snoc; auto.
    + rewrite dkeys_dset_notin by exact Hnk. apply NoDup_snoc; auto.
    + intro k. rewrite dkeys_dset_notin by exact Hnk. rewrite !in_app_iff, Hkd. tauto.
    + rewrite dvalues_dset_notin by exact Hnk. apply NoDup_snoc; auto.
    + intros k vs Hi. apply In_dset in Hi. destruct Hi as [[-> ->]|Hi]; [left; reflexivity | eauto].
  - unfold abs; cbn [keys]. rewrite map_app. cbn [map]. f_equal.
    + apply map_ext_in. intros x Hx. f_equal. unfold get; cbn [content].
      rewrite dget_dset_other; auto. intro; subst; tauto.
    + unfold get; cbn [content]. rewrite dget_dset_same. reflexivity.
  - apply dvalues_dset_notin; exact Hnk.
Qed.

Theorem values_append : forall g v, WF g -> ~ In v (values g) ->
  Permutation (values (append g v)) (v :: values g).
Proof.
  intros g v Hwf Hv. destruct (append_spec g v Hwf Hv) as (_ & _ & ->).
  apply Permutation_sym, Permutation_cons_append.
Qed.

Lemma update_spec : forall g d, WF g -> dict_ok d -> NoDup (dvalues (dupdate (content g) d)) ->
  WF (update g d) /\ abs (update g d) = s_step (abs g) (OUpdate d).
Proof.
  intros [ks c] d Hwf [Hdd Hdl] Hnv. pose proof Hwf as (Hk & Hdk & Hkd & Hvals & Hl).
  cbn [keys content] in *. unfold update; cbn [keys content].
  assert (Hget : forall x, get (mkGL (ks ++ filter (fun k => negb (mem k ks)) (dkeys d)) (dupdate c d)) x
                 = match dget x d with Some v => v | None => get (mkGL ks c) x end).
  { intro x. unfold get; cbn [content]. rewrite (dget_dupdate x d c Hdd).
    destruct (dget x d); reflexivity. }
  split.
  - apply WF_intro.
    + apply NoDup_app_filter; auto.
    + rewrite (dkeys_dupdate d c Hdd). apply NoDup_app_filter; auto.
    + intro k. rewrite (dkeys_dupdate d c Hdd), !In_app_filter, Hkd. tauto.
    + exact Hnv.
    + intros k vs Hi. apply In_dupdate in Hi. destruct Hi as [Hi|Hi]; eauto.
  - unfold abs at 1; cbn [keys]. cbn [s_step]. rewrite map_app. f_equal.
    + unfold abs; cbn [keys]. rewrite map_map. apply map_ext. intro x. cbn [fst].
      rewrite Hget. destruct (dget x d); reflexivity.
    + rewrite (map_filter_dkeys _ (fun k => negb (mem k ks)) d).
      * apply filter_ext. intros [k v]. cbn [fst]. rewrite dhas_mem.
        change (dkeys (abs (mkGL ks c))) with (map fst (abs (mkGL ks c))).
        rewrite abs_keys. reflexivity.
      * intros k v Hi. rewrite Hget, (In_dget _ _ _ Hdd Hi). reflexivity.
Qed.

Lemma pop_spec : forall g i, WF g ->
  (- Z.of_nat (List.length (keys g)) <= i < Z.of_nat (List.length (keys g)))%Z ->
  exists g', pop g i = Ok g' /\ WF g' /\ abs g' = s_step (abs g) (OPop i).
Proof.
  intros g i Hwf Hi. destruct (py_index_In _ (keys g) i Hi) as (v & Hv & Hin).
  destruct (remove_spec g v Hwf Hin) as (g' & Hr & Hwf' & Habs & _).
  exists g'. split; [|split; [exact Hwf'|]].
  - unfold pop. rewrite Hv. exact Hr.
  - cbn [s_step]. rewrite abs_keys, Hv. exact Habs.
Qed.

(* ---- sort / sort_by --------------------------------------------------------------------- *)

Lemma sort_keys_perm : forall l, Permutation (sort_keys l) l.
Proof.
  intro l. unfold sort_keys. rewrite !sort_vals_perm. apply filter_partition_perm.
Qed.

(* the leaders listed in the order L, the groups unchanged *)
Definition reordered (g : gl) (L : list val) : gl := mkGL L (map (fun x => (x, get g x)) L).

Lemma reorder_spec : forall g L, WF g -> ~ In VNaN (keys g) -> NoDup L ->
  (forall x, In x L <-> In x (keys g)) ->
  of_dict (map (fun x => (x, get g x)) L) = Ok (reordered g L) /\ WF (reordered g L) /\
  abs (reordered g L) = map (fun x => (x, s_members (abs g) x)) L /\
  Permutation (values (reordered g L)) (values g).
Proof.
  intros g L Hwf Hnan HL Hin. pose proof Hwf as (Hk & Hdk & Hkd & Hv & Hl).
  assert (HP : Permutation L (keys g)) by (apply NoDup_Permutation; auto).
  assert (Hvals : Permutation (flat_map (get g) L) (values g)).
  { rewrite (Permutation_flat_map (get g) HP).
    apply Permutation_sym, values_flat_map_get; exact Hwf. }
  assert (Hwf' : WF (reordered g L)).
  { apply WF_map; auto.
    - eapply Permutation_NoDup; [apply Permutation_sym; exact Hvals | exact Hv].
    - intros k Hi. apply WF_key_get; auto. apply Hin; exact Hi. }
  pose proof Hwf' as (Hk' & Hdk' & Hkd' & Hv' & Hl'). unfold reordered in *. cbn [keys content] in *.
  split; [|split; [exact Hwf'|split]].
  - rewrite of_dict_id; auto.
    + rewrite dkeys_map. reflexivity.
    + rewrite dkeys_map. intro Hi. apply Hnan, Hin, Hi.
  - unfold abs; cbn [keys]. apply map_ext_in. intros x Hx. f_equal.
    rewrite get_map by exact Hx. apply get_abs; exact Hwf.
  - unfold values at 1; cbn [content]. rewrite dvalues_map. exact Hvals.
Qed.

Lemma sort_spec : forall g, WF g -> ~ In VNaN (keys g) ->
  exists g', sort g = Ok g' /\ WF g' /\ abs g' = s_step (abs g) OSort /\
    Permutation (values g') (values g).
Proof.
  intros g Hwf Hnan. pose proof (sort_keys_perm (keys g)) as HP.
  assert (HL : NoDup (sort_keys (keys g))).
  { eapply Permutation_NoDup; [apply Permutation_sym; exact HP | apply Hwf]. }
  destruct (reorder_spec g (sort_keys (keys g)) Hwf Hnan HL) as (H1 & H2 & H3 & H4).
  { intro x; split; apply Permutation_in; [exact HP | apply Permutation_sym; exact HP]. }
  exists (reordered g (sort_keys (keys g))). split; [|split; [exact H2 | split; [|exact H4]]].
  - unfold sort. rewrite dict_of_keys_map, (keep_first_NoDup_id _ HL). exact H1.
  - rewrite H3. cbn [s_step]. unfold s_reorder. rewrite abs_keys.
    change (nodup_keep_first (sort_keys (keys g))) with (keep_first (sort_keys (keys g)) []).
    rewrite (keep_first_NoDup_id _ HL). reflexivity.
Qed.

Lemma sort_by_spec : forall g o, WF g ->
  (forall x, In x o -> In x (keys g)) -> (forall x, In x (keys g) -> In x o) ->
  ~ In VNaN (keys g) ->
  exists g', sort_by g o = Ok g' /\ WF g' /\ abs g' = s_step (abs g) (OSortBy o) /\
    Permutation (values g') (values g).
Proof.
  intros g o Hwf H1 H2 Hnan.
  set (L := keep_first o []).
  assert (HL : NoDup L) by (apply NoDup_keep_first; constructor).
  assert (HinL : forall x, In x L <-> In x (keys g)).
  { intro x. unfold L. rewrite In_keep_first. simpl. split; [intros [[]|H]; auto | auto]. }
  destruct (reorder_spec g L Hwf Hnan HL HinL) as (R1 & R2 & R3 & R4).
  exists (reordered g L). split; [|split; [exact R2 | split; [|exact R4]]].
  - unfold sort_by.
    assert (F1 : forallb (fun x => mem x (keys g)) o = true) by (apply forallb_mem_incl; exact H1).
    assert (F2 : forallb (fun s => mem s o) (keys g) = true) by (apply forallb_mem_incl; exact H2).
    rewrite F1, F2. cbn [negb]. rewrite dict_of_keys_map. exact R1.
  - rewrite R3. reflexivity.
Qed.

(* ---- replace_group_leader --------------------------------------------------------------- *)

Lemma replace_first_map : forall a b l, NoDup l ->
  replace_first a b l = map (fun x => if val_eqb a x then b else x) l.
Proof.
  intros a b l; induction l as [|x t IH]; intro Hd; [reflexivity|].
  inversion Hd as [|y l' Hn Hd']; subst. cbn [replace_first map].
  veq a x.
  - subst x. f_equal. rewrite <- (map_id t) at 1. apply map_ext_in. intros y Hy.
    veq a y; [subst; tauto | reflexivity].
  - f_equal. apply IH; exact Hd'.
Qed.

Lemma replace_first_perm : forall a b l, NoDup l -> In a l ->
  Permutation (replace_first a b l) (b :: filter (fun x => negb (val_eqb a x)) l).
Proof.
  intros a b l; induction l as [|x t IH]; intros Hd Hi; [destruct Hi|].
  inversion Hd as [|y l' Hn Hd']; subst. cbn [replace_first filter].
  veq a x; cbn [negb].
  - subst x. rewrite filter_neq_notin by exact Hn. reflexivity.
  - destruct Hi as [Hi|Hi]; [congruence|]. rewrite (IH Hd' Hi). apply perm_swap.
Qed.

Lemma replace_leader_spec : forall g l m, WF g -> In l (keys g) -> In m (get g l) ->
  exists g', replace_group_leader g l m = Ok g' /\ WF g' /\
    abs g' = s_step (abs g) (OReplaceLeader l m) /\ Permutation (values g') (values g).
Proof.
  intros g l m Hwf Hl Hm0.
  destruct (WF_key_dget g l Hwf Hl) as (cl & Hcl & Hlcl).
  pose proof Hm0 as Hm. rewrite (get_dget _ _ _ Hcl) in Hm.
  assert (Em : mem m cl = true) by (apply mem_In; exact Hm).
  destruct (val_eq_dec m l) as [E|E].
  - subst m. exists g. split; [|split; [exact Hwf|split; [|reflexivity]]].
    + unfold replace_group_leader, is_equal. rewrite Hcl, Em, val_eqb_refl. reflexivity.
    + cbn [s_step]. rewrite <- (map_id (abs g)) at 1. apply map_ext. intros [k vs].
      cbn [fst snd]. veq l k; [subst; reflexivity | reflexivity].
  - assert (Hmk : ~ In m (keys g)) by (apply (WF_member_not_key g l m); auto).
    destruct g as [ks c]. pose proof Hwf as (Hk & Hdk & Hkd & Hvals & Hlead).
    cbn [keys content] in *.
    assert (Hmc : ~ In m (dkeys c)) by (rewrite <- Hkd; exact Hmk).
    set (ks' := replace_first l m ks). set (c1 := dset m cl c).
    assert (Hdk1 : dkeys c1 = dkeys c ++ [m]) by (apply dkeys_dset_notin; exact Hmc).
    assert (Hl1 : In l (dkeys c1)).
    { rewrite Hdk1; apply in_or_app; left; apply Hkd; exact Hl. }
    destruct (In_dpop_Some _ _ Hl1) as [c2 Hc2].
    pose proof (dpop_keys _ _ _ Hc2) as Hlr.
    assert (Hnd1 : NoDup (dkeys c1)) by (rewrite Hdk1; apply NoDup_snoc; auto).
    pose proof (replace_first_perm l m ks Hk Hl) as Hpk. fold ks' in Hpk.
    assert (Hin' : forall x, In x ks' <-> x = m \/ (In x ks /\ x <> l)).
    { intro x. split.
      - intro Hx. apply (Permutation_in _ Hpk) in Hx.
        destruct Hx as [Hx|Hx]; [left; auto | right; apply In_filter_neq; exact Hx].
      - intro Hx. apply (Permutation_in _ (Permutation_sym Hpk)).
        destruct Hx as [Hx|Hx]; [left; auto | right; apply In_filter_neq; exact Hx]. }
    assert (Hget : forall x, x <> l -> dget x c2 = if val_eqb x m then Some cl else dget x c).
    { intros x Hx. rewrite (dget_dpop_other _ _ _ _ Hc2 Hx). unfold c1.
      veq x m; [subst; apply dget_dset_same | apply dget_dset_other; assumption]. }
    assert (Hp : Permutation (dvalues c2) (dvalues c)).
    { destruct (dvalues_dpop_perm _ _ _ Hc2) as (old & Hold & Hp2).
      unfold c1 in Hold. rewrite dget_dset_other in Hold by congruence.
      rewrite Hcl in Hold. inversion Hold; subst old.
      unfold c1 in Hp2. rewrite dvalues_dset_notin in Hp2 by exact Hmc.
      apply (Permutation_app_inv_l cl). rewrite <- Hp2. apply Permutation_app_comm. }
    assert (Hwf' : WF (mkGL ks' c2)).
    { apply WF_intro.
      - eapply Permutation_NoDup; [apply Permutation_sym; exact Hpk|].
        constructor; [rewrite In_filter_neq; tauto | apply NoDup_filter; exact Hk].
      - apply (lremove_NoDup _ _ _ Hnd1 Hlr).
      - intro x. rewrite Hin', (lremove_In_iff _ _ _ x Hnd1 Hlr), Hdk1, in_app_iff, <- Hkd.
        simpl. split.
        + intros [->|[H1 H2]]; split; auto.
        + intros [[H1|[H1|[]]] H2]; [right; auto | left; auto].
      - eapply Permutation_NoDup; [apply Permutation_sym; exact Hp | exact Hvals].
      - intros x vs Hi. apply (In_dpop _ _ _ _ Hc2) in Hi. unfold c1 in Hi.
        apply In_dset in Hi. destruct Hi as [[-> ->]|Hi]; [exact Hm | eauto]. }
    exists (mkGL ks' c2). split; [|split; [exact Hwf'|split; [|exact Hp]]].
    + unfold replace_group_leader, is_equal; cbn [keys content]. rewrite Hcl, Em. cbn [negb].
      assert (E1 : val_eqb m l = false) by (apply val_eqb_neq; exact E). rewrite E1.
      assert (E2 : mem l ks = true) by (apply mem_In; exact Hl). rewrite E2. cbn [negb].
      fold c1. rewrite Hc2. fold ks'.
      assert (Hs : exists r, sort_by (mkGL ks' c2) ks' = Ok r).
      { unfold sort_by; cbn [keys].
        assert (F : forallb (fun o => mem o ks') ks' = true) by (apply forallb_mem_incl; auto).
        rewrite F. cbn [negb].
        pose proof Hwf' as (Hk' & _ & _ & Hv' & _). cbn [keys content] in *.
        rewrite dict_of_keys_map, (keep_first_NoDup_id _ Hk').
        destruct (of_dict_ok (map (fun k => (k, get (mkGL ks' c2) k)) ks')) as (r & Hr & _).
        - rewrite dkeys_map; exact Hk'.
        - rewrite dvalues_map.
          eapply Permutation_NoDup; [apply (values_flat_map_get _ Hwf') | exact Hv'].
        - eauto. }
      destruct Hs as [r Hr]. rewrite Hr. reflexivity.
    + unfold abs at 1; cbn [keys]. unfold ks'. rewrite (replace_first_map l m ks Hk), map_map.
      cbn [s_step]. unfold abs; cbn [keys]. rewrite map_map. apply map_ext_in.
      intros x Hx. cbn [fst snd]. veq l x.
      * subst x. f_equal. unfold get; cbn [content].
        rewrite (Hget m E), val_eqb_refl, Hcl. reflexivity.
      * f_equal. unfold get; cbn [content]. rewrite Hget by congruence.
        assert (Exm : val_eqb x m = false) by (apply val_eqb_neq; intro; subst; tauto).
        rewrite Exm. reflexivity.
Qed.

(* ---- every valid operation: success, invariant, refinement, values ------------------------ *)

Definition preserving (o : op) : Prop :=
  match o with
  | OGroup _ _ | OGroupList _ _ | OSort | OSortBy _ | OReplaceLeader _ _ | OCopy => True
  | _ => False
  end.

Lemma step_full : forall g o, WF g -> valid g o ->
  exists g', step g o = Ok g' /\ WF g' /\ abs g' = s_step (abs g) o /\
    (preserving o -> Permutation (values g') (values g)).
Proof.
  intros g o Hwf Hv. destruct o as [d k|ds k|v|d|v|i| |o|l m| ]; cbn [step valid preserving] in *.
  - (* group *)
    destruct (val_eq_dec d k) as [E|E].
    + subst d. exists g. split; [|split; [exact Hwf|split; [|reflexivity]]].
      * unfold group, is_equal. rewrite val_eqb_refl. reflexivity.
      * cbn [s_step]. unfold s_group. rewrite val_eqb_refl. reflexivity.
    + destruct Hv as [Hv|[Hd Hk]]; [congruence|].
      destruct (group_spec g d k Hwf E Hd Hk) as (g' & H1 & H2 & _ & H3 & H4).
      exists g'. auto.
  - (* group_list *)
    destruct Hv as (Hk & Hds & Hnd).
    destruct (group_list_spec k ds g Hwf Hk Hds Hnd) as (g' & H1 & H2 & H3 & H4).
    exists g'. auto.
  - (* append *)
    destruct (append_spec g v Hwf Hv) as (H1 & H2 & _).
    exists (append g v). split; [reflexivity|]. split; [exact H1|]. split; [exact H2|]. intros [].
  - (* update *)
    destruct Hv as [Hd Hnv]. destruct (update_spec g d Hwf Hd Hnv) as (H1 & H2).
    exists (update g d). split; [reflexivity|]. split; [exact H1|]. split; [exact H2|]. intros [].
  - (* remove *)
    destruct (remove_spec g v Hwf Hv) as (g' & H1 & H2 & H3 & _).
    exists g'. split; [exact H1|]. split; [exact H2|]. split; [exact H3|]. intros [].
  - (* pop *)
    destruct (pop_spec g i Hwf Hv) as (g' & H1 & H2 & H3).
    exists g'. split; [exact H1|]. split; [exact H2|]. split; [exact H3|]. intros [].
  - (* sort *)
    destruct (sort_spec g Hwf Hv) as (g' & H1 & H2 & H3 & H4). exists g'. auto.
  - (* sort_by *)
    destruct Hv as (Ha & Hb & Hnan).
    destruct (sort_by_spec g o Hwf Ha Hb Hnan) as (g' & H1 & H2 & H3 & H4). exists g'. auto.
  - (* replace_group_leader *)
    destruct Hv as [Hl Hm].
    destruct (replace_leader_spec g l m Hwf Hl Hm) as (g' & H1 & H2 & H3 & H4). exists g'. auto.
  - (* copy *)
    exists g. rewrite copy_id. split; [reflexivity|]. split; [exact Hwf|]. split; reflexivity.
Qed.

Theorem wf_step : forall g o, WF g -> valid g o -> exists g', step g o = Ok g' /\ WF g'.
Proof.
  intros g o Hwf Hv. destruct (step_full g o Hwf Hv) as (g' & H1 & H2 & _). eauto.
Qed.

Fixpoint valid_run (g : gl) (ops : list op) : Prop :=
  match ops with
  | [] => True
  | o :: t => valid g o /\ forall g', step g o = Ok g' -> valid_run g' t
  end.

Theorem wf_run : forall ops g, WF g -> valid_run g ops ->
  exists g', run_final g ops = Ok g' /\ WF g'.
Proof.
  induction ops as [|o t IH]; intros g Hwf Hv.
  - exists g; split; [reflexivity | exact Hwf].
  - destruct Hv as [Hv Hrest]. destruct (wf_step g o Hwf Hv) as (g1 & Hs & Hwf1).
    cbn [run_final]. rewrite Hs. cbn [bind]. apply IH; auto.
Qed.

(* refinement to the plain reference model *)
Theorem abs_step : forall g o g', WF g -> valid g o -> step g o = Ok g' ->
  abs g' = s_step (abs g) o.
Proof.
  intros g o g' Hwf Hv Hs. destruct (step_full g o Hwf Hv) as (g1 & H1 & _ & H3 & _).
  rewrite H1 in Hs. inversion Hs; subst. exact H3.
Qed.

(* no value disappears except through remove/pop *)
Theorem values_preserved : forall g o g', WF g -> valid g o -> preserving o ->
  step g o = Ok g' -> Permutation (values g') (values g).
Proof.
  intros g o g' Hwf Hv Hp Hs. destruct (step_full g o Hwf Hv) as (g1 & H1 & _ & _ & H4).
  rewrite H1 in Hs. inversion Hs; subst. exact (H4 Hp).
Qed.

Print Assumptions wf_run.
Print Assumptions abs_step.
Print Assumptions values_preserved.
Print Assumptions get_group_spec.
