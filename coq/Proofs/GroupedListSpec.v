(* GroupedListSpec.v — what C13 means on the model: well-formedness, validity of an operation,
   and the plain reference model (ordered leader -> members).  Definitions only. *)
From Coq Require Import Permutation.
From AC.Model Require Import Base GroupedList.

(* The invariant of property C13 *)
Definition WF (g : gl) : Prop :=
  NoDup (keys g) /\
  NoDup (dkeys (content g)) /\
  (forall k, In k (keys g) <-> In k (dkeys (content g))) /\
  NoDup (dvalues (content g)) /\
  (forall k vs, In (k, vs) (content g) -> In k vs).

(* a well formed argument dict (a Python dict has unique keys) *)
Definition dict_ok (d : dict) : Prop :=
  NoDup (dkeys d) /\ (forall k vs, In (k, vs) d -> In k vs).

(* valid calls: the documented preconditions of each method *)
Definition valid (g : gl) (o : op) : Prop :=
  match o with
  | OGroup d k => d = k \/ (In d (keys g) /\ In k (keys g))
  | OGroupList ds k =>
      In k (keys g) /\ (forall d, In d ds -> In d (keys g)) /\
      NoDup (filter (fun d => negb (val_eqb d k)) ds)
  | OAppend v => ~ In v (values g)
  | OUpdate d => dict_ok d /\ NoDup (dvalues (dupdate (content g) d))
  | ORemove v => In v (keys g)
  | OPop i => (- Z.of_nat (List.length (keys g)) <= i < Z.of_nat (List.length (keys g)))%Z
  (* sort / sort_by rebuild the object through the dict constructor, whose test
     `key != iter_key` is True for a NaN leader against itself: a NaN leader is then dropped
     (of_list [VNaN] --sort--> empty).  Hence: no NaN leader. *)
  | OSort => ~ In VNaN (keys g)
  | OSortBy o => (forall x, In x o -> In x (keys g)) /\ (forall x, In x (keys g) -> In x o) /\
                 ~ In VNaN (keys g)
  | OReplaceLeader l m => In l (keys g) /\ In m (get g l)
  | OCopy => True
  end.

(* ---- reference model: an ordered association list leader -> members ------------------- *)
Definition spec := list (val * list val).

Definition abs (g : gl) : spec := map (fun k => (k, get g k)) (keys g).

Definition s_members (s : spec) (k : val) : list val :=
  match dget k s with Some v => v | None => [] end.

Definition s_remove (k : val) (s : spec) : spec :=
  filter (fun kv => negb (val_eqb k (fst kv))) s.

Definition s_group (s : spec) (d k : val) : spec :=
  if val_eqb d k then s
  else map (fun kv => if val_eqb k (fst kv) then (fst kv, s_members s d ++ snd kv) else kv)
           (s_remove d s).

Definition s_group_list (s : spec) (ds : list val) (k : val) : spec :=
  fold_left (fun acc d => s_group acc d k) ds s.

Definition nodup_keep_first (l : list val) : list val :=
  fold_left (fun acc x => if mem x acc then acc else acc ++ [x]) l [].

Definition s_reorder (s : spec) (order : list val) : spec :=
  map (fun k => (k, s_members s k)) (nodup_keep_first order).

Definition s_step (s : spec) (o : op) : spec :=
  match o with
  | OGroup d k => s_group s d k
  | OGroupList ds k => s_group_list s ds k
  | OAppend v => s ++ [(v, [v])]
  | OUpdate d =>
      map (fun kv => match dget (fst kv) d with Some v => (fst kv, v) | None => kv end) s
      ++ filter (fun kv => negb (dhas (fst kv) s)) d
  | ORemove v => s_remove v s
  | OPop i => match py_index (map fst s) i with Some v => s_remove v s | None => s end
  | OSort => s_reorder s (sort_keys (map fst s))
  | OSortBy o => s_reorder s o
  | OReplaceLeader l m =>
      map (fun kv => if val_eqb l (fst kv) then (m, snd kv) else kv) s
  | OCopy => s
  end.
