(* UpdateProofs.v — property C17 on the model (Model/Update.v): a valid update_discretizer call
   completes, keeps the order a consistent partition (C13's WF), has exactly the documented effect
   on the groups, and leaves the state equal to the one BaseDiscretizer.fit() / load_discretizer
   would build from the new order (so C04's transform theorems, and everything that is a function
   of order + flags, apply after every edit) — for all states and, by induction, all finite
   histories.  Witnesses (vm_compute) for the edits that are NOT coherent. *)
From Coq Require Import Permutation Lia.
From AC.Model Require Import Base GroupedList Labels Transform FormatRule Update.
From AC.Proofs Require Import BaseLemmas GroupedListSpec GroupedListProofs TransformSpec
  LabelsProofs TransformProofs.

(* ---- vocabulary -------------------------------------------------------------------------- *)

(* the state BaseDiscretizer.fit() (hence load_discretizer) builds from the order and the flags *)
Definition fitted (tables : list fmt_table) (st : state) : Prop := st = refresh tables st.

(* a valid edit (on the CURRENT order): kept is never missing;
   'group'   : kept is a leader or a NEW name (appended as a new last group); discarded (str_nan when missing) is a leader or unknown;
   'replace' : discarded is a leader; kept is unknown or a member of discarded's group *)
Definition valid_edit (st : state) (m : umode) (d k : val) : Prop :=
  let g := st_order st in
  let d' := eff_d st d in
  k <> VNaN /\
  match m with
  | MGroup => (In k (keys g) \/ ~ In k (values g)) /\ (In d' (keys g) \/ ~ In d' (values g))
  | MReplace => In d' (keys g) /\ (~ In k (values g) \/ In k (get g d'))
  | MBad => False
  end.

(* the groups after a completed edit, in the reference model of C13 *)
Definition expected_abs (m : umode) (g : gl) (d k : val) : spec :=
  match m with
  | MGroup => s_group (abs (ensure g k) ++ (if mem d (keys (ensure g k)) then [] else [(d, [d])])) d k
  | MReplace =>
      map (fun kv => if val_eqb d (fst kv)
                     then (k, if mem k (snd kv) then snd kv else k :: snd kv) else kv) (abs g)
  | MBad => abs g
  end.

(* ---- reference-model lemmas ----------------------------------------------------------------- *)

Lemma dget_s_remove : forall d x (s : spec),
  dget x (s_remove d s) = if val_eqb x d then None else dget x s.
Proof.
  intros d x s. unfold s_remove. induction s as [|[a v] t IH]; cbn [filter fst dget].
  - destruct (val_eqb x d); reflexivity.
  - veq d a; cbn [negb].
    + subst a. rewrite IH. destruct (val_eqb x d); reflexivity.
    + cbn [dget]. rewrite IH. veq x a; [|reflexivity].
      subst a. assert (E1 : val_eqb x d = false) by (apply val_eqb_neq; congruence).
      rewrite E1. reflexivity.
Qed.

Lemma dget_map_app : forall k pre x (s : spec),
  dget x (map (fun kv => if val_eqb k (fst kv) then (fst kv, pre ++ snd kv) else kv) s)
  = if val_eqb x k then option_map (app pre) (dget x s) else dget x s.
Proof.
  intros k pre x s. induction s as [|[a v] t IH]; cbn [map fst snd].
  - cbn [dget]. destruct (val_eqb x k); reflexivity.
  - veq k a.
    + subst a. cbn [dget]. veq x k; [reflexivity|]. exact IH.
    + cbn [dget]. veq x a.
      * subst a. assert (E1 : val_eqb x k = false) by (apply val_eqb_neq; congruence).
        rewrite E1. reflexivity.
      * exact IH.
Qed.

Lemma keys_s_group : forall (s : spec) d k, d <> k ->
  map fst (s_group s d k) = filter (fun x => negb (val_eqb d x)) (map fst s).
Proof.
  intros s d k Hne. unfold s_group.
  assert (E : val_eqb d k = false) by (apply val_eqb_neq; exact Hne). rewrite E.
  rewrite map_map. unfold s_remove. generalize (s_members s d). intro pre.
  induction s as [|[a v] t IH]; cbn [filter map fst]; [reflexivity|].
  destruct (val_eqb d a); cbn [negb map fst]; [exact IH|].
  f_equal; [destruct (val_eqb k a); reflexivity | exact IH].
Qed.

Lemma members_s_group_kept : forall (s : spec) d k ck, d <> k -> dget k s = Some ck ->
  s_members (s_group s d k) k = s_members s d ++ ck.
Proof.
  intros s d k ck Hne Hk. unfold s_group.
  assert (E : val_eqb d k = false) by (apply val_eqb_neq; exact Hne). rewrite E.
  unfold s_members at 1. rewrite dget_map_app, val_eqb_refl, dget_s_remove.
  assert (E1 : val_eqb k d = false) by (apply val_eqb_neq; congruence).
  rewrite E1, Hk. reflexivity.
Qed.

Lemma members_s_group_other : forall (s : spec) d k x, d <> k -> x <> k -> x <> d ->
  s_members (s_group s d k) x = s_members s x.
Proof.
  intros s d k x Hne Hxk Hxd. unfold s_group.
  assert (E : val_eqb d k = false) by (apply val_eqb_neq; exact Hne). rewrite E.
  unfold s_members. rewrite dget_map_app, dget_s_remove.
  assert (E1 : val_eqb x k = false) by (apply val_eqb_neq; exact Hxk).
  assert (E2 : val_eqb x d = false) by (apply val_eqb_neq; exact Hxd).
  rewrite E1, E2. reflexivity.
Qed.

Lemma members_s_group_discarded : forall (s : spec) d k, d <> k -> s_members (s_group s d k) d = [].
Proof.
  intros s d k Hne. unfold s_group.
  assert (E : val_eqb d k = false) by (apply val_eqb_neq; exact Hne). rewrite E.
  unfold s_members. rewrite dget_map_app, dget_s_remove, E, val_eqb_refl. reflexivity.
Qed.

Lemma dget_app_notin : forall k (s t : spec), ~ In k (map fst s) -> dget k (s ++ t) = dget k t.
Proof.
  intros k s t. induction s as [|[a v] r IH]; intro Hn; [reflexivity|].
  cbn [app dget]. cbn [map fst] in Hn.
  assert (E : val_eqb k a = false) by (apply val_eqb_neq; intro; subst; apply Hn; left; reflexivity).
  rewrite E. apply IH. intro Hi. apply Hn. right. exact Hi.
Qed.

Lemma dget_app_in : forall k (s t : spec) v, dget k s = Some v -> dget k (s ++ t) = Some v.
Proof.
  intros k s t v. induction s as [|[a w] r IH]; intro H; [discriminate H|].
  cbn [app dget] in *. destruct (val_eqb k a); [exact H | apply IH; exact H].
Qed.

Lemma dget_app_none : forall k (s t : spec), dget k s = None -> dget k (s ++ t) = dget k t.
Proof.
  intros k s t. induction s as [|[a w] r IH]; intro H; [reflexivity|].
  cbn [app dget] in *. destruct (val_eqb k a); [discriminate H | apply IH; exact H].
Qed.

Lemma s_remove_notin : forall k (s : spec), ~ In k (map fst s) -> s_remove k s = s.
Proof.
  intros k s. unfold s_remove. induction s as [|[a v] r IH]; intro Hn; [reflexivity|].
  cbn [filter fst]. cbn [map fst] in Hn.
  assert (E : val_eqb k a = false) by (apply val_eqb_neq; intro; subst; apply Hn; left; reflexivity).
  rewrite E. cbn [negb]. f_equal. apply IH. intro Hi. apply Hn. right. exact Hi.
Qed.

(* grouping a freshly appended singleton k into d : k is prepended to d's members *)
Lemma s_group_fresh_into : forall (s : spec) k d, ~ In k (map fst s) -> k <> d ->
  s_group (s ++ [(k, [k])]) k d
  = map (fun kv => if val_eqb d (fst kv) then (fst kv, [k] ++ snd kv) else kv) s.
Proof.
  intros s k d Hn Hne. unfold s_group.
  assert (E : val_eqb k d = false) by (apply val_eqb_neq; exact Hne). rewrite E.
  assert (Hm : s_members (s ++ [(k, [k])]) k = [k]).
  { unfold s_members. rewrite dget_app_notin by exact Hn. cbn [dget]. rewrite val_eqb_refl. reflexivity. }
  rewrite Hm. f_equal. unfold s_remove. rewrite filter_app. cbn [filter fst].
  rewrite val_eqb_refl. cbn [negb]. rewrite app_nil_r. apply s_remove_notin. exact Hn.
Qed.

(* ---- lookups on a well-formed order ---------------------------------------------------------- *)

Lemma leader_in_values : forall g k, WF g -> In k (keys g) -> In k (values g).
Proof. intros g k Hwf Hk. apply (In_get_values g k k). apply WF_key_get; assumption. Qed.

Lemma contains_true : forall g v, In v (values g) -> contains g v = true.
Proof. intros g v H. apply contains_spec. exact H. Qed.

Lemma contains_false : forall g v, ~ In v (values g) -> contains g v = false.
Proof.
  intros g v H. destruct (contains g v) eqn:E; [|reflexivity].
  apply contains_spec in E. contradiction.
Qed.

Lemma get_group_member : forall g l v, WF g -> In l (keys g) -> In v (get g l) -> get_group g v = l.
Proof.
  intros g l v Hwf Hl Hv. destruct (WF_key_dget g l Hwf Hl) as (vs & Hg & _).
  rewrite (get_dget _ _ _ Hg) in Hv. apply (get_group_spec g l vs v Hwf); [apply dget_In; exact Hg | exact Hv].
Qed.

Lemma get_group_leader : forall g k, WF g -> In k (keys g) -> get_group g k = k.
Proof. intros g k Hwf Hk. apply get_group_member; auto. apply WF_key_get; auto. Qed.

Lemma get_group_unknown : forall g v, ~ In v (values g) -> get_group g v = v.
Proof.
  intros g v Hn. apply get_group_none. intros k vs Hi Hv. apply Hn.
  apply In_dvalues. exists k, vs. split; assumption.
Qed.

Lemma abs_dget : forall g k, WF g -> In k (keys g) -> dget k (abs g) = Some (get g k).
Proof.
  intros g k Hwf Hk. unfold abs. rewrite dget_map.
  assert (E : mem k (keys g) = true) by (apply mem_In; exact Hk). rewrite E. reflexivity.
Qed.

(* ---- the order part of an edit ---------------------------------------------------------------- *)

Lemma edit_order_group : forall g d k, WF g -> In k (keys g) -> d <> k ->
  (In d (keys g) \/ ~ In d (values g)) ->
  exists g', edit_order g MGroup d k = (g', UDone) /\ WF g' /\ abs g' = expected_abs MGroup g d k.
Proof.
  intros g d k Hwf Hk Hne Hd. unfold edit_order, expected_abs, ensure.
  rewrite (contains_true g k) by (apply leader_in_values; auto). cbv iota.
  destruct Hd as [Hd|Hd].
  - rewrite (contains_true g d) by (apply leader_in_values; auto).
    destruct (group_spec g d k Hwf Hne Hd Hk) as (g' & H1 & H2 & _ & H3 & _).
    exists g'. rewrite H1. cbn [gl_try]. split; [reflexivity|]. split; [exact H2|].
    assert (E : mem d (keys g) = true) by (apply mem_In; exact Hd).
    rewrite E, app_nil_r. exact H3.
  - rewrite (contains_false g d Hd).
    destruct (append_spec g d Hwf Hd) as (Hw1 & Ha1 & _).
    assert (Hdk : In d (keys (append g d)))
      by (unfold append; cbn [keys]; apply in_or_app; right; left; reflexivity).
    assert (Hkk : In k (keys (append g d)))
      by (unfold append; cbn [keys]; apply in_or_app; left; exact Hk).
    destruct (group_spec (append g d) d k Hw1 Hne Hdk Hkk) as (g' & H1 & H2 & _ & H3 & _).
    exists g'. rewrite H1. cbn [gl_try]. split; [reflexivity|]. split; [exact H2|].
    assert (E : mem d (keys g) = false).
    { apply mem_false. intro Hi. apply Hd. apply leader_in_values; auto. }
    rewrite E, <- Ha1. exact H3.
Qed.

Lemma edit_order_group_new : forall g d k, WF g -> ~ In k (values g) -> d <> k ->
  (In d (keys g) \/ ~ In d (values g)) ->
  exists g', edit_order g MGroup d k = (g', UDone) /\ WF g' /\ abs g' = expected_abs MGroup g d k.
Proof.
  intros g d k Hwf Hk Hne Hd.
  destruct (append_spec g k Hwf Hk) as (Hw1 & _ & Hv1).
  assert (Hk1 : In k (keys (append g k)))
    by (unfold append; cbn [keys]; apply in_or_app; right; left; reflexivity).
  assert (Hc1 : contains (append g k) k = true) by (apply contains_true, leader_in_values; assumption).
  assert (He : edit_order g MGroup d k = edit_order (append g k) MGroup d k).
  { unfold edit_order, ensure. rewrite (contains_false g k Hk), Hc1. reflexivity. }
  assert (Hx : expected_abs MGroup g d k = expected_abs MGroup (append g k) d k).
  { unfold expected_abs, ensure. rewrite (contains_false g k Hk), Hc1. reflexivity. }
  rewrite He, Hx. apply edit_order_group; [exact Hw1 | exact Hk1 | exact Hne |].
  destruct Hd as [Hd|Hd].
  - left. unfold append; cbn [keys]. apply in_or_app. left. exact Hd.
  - right. rewrite Hv1. intro Hi. apply in_app_or in Hi. destruct Hi as [Hi|[Hi|[]]]; [tauto | congruence].
Qed.

Lemma edit_order_replace_member : forall g d k, WF g -> In d (keys g) -> In k (get g d) ->
  k <> d -> d <> VNaN ->
  exists g', edit_order g MReplace d k = (g', UDone) /\ WF g' /\ abs g' = expected_abs MReplace g d k.
Proof.
  intros g d k Hwf Hd Hk Hne Hnan. unfold edit_order, ensure, expected_abs.
  rewrite (contains_true g k) by (apply (In_get_values g d k); exact Hk).
  rewrite (get_group_member g d k Hwf Hd Hk).
  assert (Ep : py_eq d d = true) by (rewrite py_eq_notnan by exact Hnan; apply val_eqb_refl).
  rewrite Ep. rewrite (get_group_member g d k Hwf Hd Hk), Ep.
  destruct (replace_leader_spec g d k Hwf Hd Hk) as (g' & H1 & H2 & H3 & _).
  exists g'. rewrite H1. cbn [gl_try]. split; [reflexivity|]. split; [exact H2|].
  rewrite H3. cbn [s_step]. unfold abs. rewrite !map_map. apply map_ext_in.
  intros x Hx. cbn [fst snd]. veq d x; [|reflexivity].
  subst x. assert (E : mem k (get g d) = true) by (apply mem_In; exact Hk). rewrite E. reflexivity.
Qed.

Lemma edit_order_replace_fresh : forall g d k, WF g -> In d (keys g) -> ~ In k (values g) ->
  d <> VNaN ->
  exists g', edit_order g MReplace d k = (g', UDone) /\ WF g' /\ abs g' = expected_abs MReplace g d k.
Proof.
  intros g d k Hwf Hd Hk Hnan. unfold edit_order, ensure, expected_abs.
  assert (Hne : k <> d) by (intro; subst k; apply Hk; apply leader_in_values; auto).
  rewrite (contains_false g k Hk).
  destruct (append_spec g k Hwf Hk) as (Hw1 & Ha1 & _).
  set (g1 := append g k) in *.
  assert (Hk1 : In k (keys g1)) by (unfold g1, append; cbn [keys]; apply in_or_app; right; left; reflexivity).
  assert (Hd1 : In d (keys g1)) by (unfold g1, append; cbn [keys]; apply in_or_app; left; exact Hd).
  rewrite (get_group_leader g1 k Hw1 Hk1).
  assert (Ep1 : py_eq k d = false).
  { destruct (py_eq k d) eqn:E; [|reflexivity]. apply py_eq_true in E. contradiction. }
  rewrite Ep1.
  destruct (group_spec g1 k d Hw1 Hne Hk1 Hd1) as (g2 & H1 & Hw2 & Hkeys2 & Ha2 & _).
  rewrite H1.
  assert (Hnk : ~ In k (map fst (abs g))).
  { rewrite abs_keys. intro Hi. apply Hk. apply leader_in_values; auto. }
  assert (Ha2' : abs g2 = map (fun kv => if val_eqb d (fst kv) then (fst kv, [k] ++ snd kv) else kv) (abs g)).
  { rewrite Ha2, Ha1. apply s_group_fresh_into; assumption. }
  assert (Hd2 : In d (keys g2)).
  { rewrite Hkeys2. apply In_filter_neq. split; [exact Hd1 | congruence]. }
  assert (Hget2 : get g2 d = [k] ++ get g d).
  { rewrite (get_abs g2 d Hw2). unfold s_members. rewrite Ha2', dget_map_app, val_eqb_refl.
    rewrite (abs_dget g d Hwf Hd). reflexivity. }
  assert (Hkin : In k (get g2 d)) by (rewrite Hget2; left; reflexivity).
  rewrite (get_group_member g2 d k Hw2 Hd2 Hkin).
  assert (Ep : py_eq d d = true) by (rewrite py_eq_notnan by exact Hnan; apply val_eqb_refl).
  rewrite Ep.
  destruct (replace_leader_spec g2 d k Hw2 Hd2 Hkin) as (g3 & H3 & Hw3 & Ha3 & _).
  exists g3. rewrite H3. cbn [gl_try]. split; [reflexivity|]. split; [exact Hw3|].
  rewrite Ha3. cbn [s_step]. rewrite Ha2'. unfold abs. rewrite !map_map. apply map_ext_in.
  intros x Hx. cbn [fst snd]. veq d x.
  - subst x. cbn [fst snd]. rewrite val_eqb_refl.
    assert (E : mem k (get g d) = false).
    { apply mem_false. intro Hi. apply Hk. apply (In_get_values g d k). exact Hi. }
    rewrite E. reflexivity.
  - cbn [fst]. assert (E1 : val_eqb d x = false) by (apply val_eqb_neq; exact E). rewrite E1. reflexivity.
Qed.

(* ---- update_discretizer ------------------------------------------------------------------------ *)

Lemma eff_d_not_nan : forall st d, st_nan st <> VNaN -> eff_d st d <> VNaN.
Proof. intros st d H. unfold eff_d. destruct d; cbn [is_nan]; congruence. Qed.

Definition after_nan_test (st : state) (d : val) : state :=
  if is_nan d then set_dropna st true else st.

Lemma order_after_nan_test : forall st d, st_order (after_nan_test st d) = st_order st.
Proof. intros st d. unfold after_nan_test. destruct (is_nan d); reflexivity. Qed.

Lemma update_unfold : forall tables st m d k, m <> MBad -> k <> VNaN ->
  update tables st m d k =
  if py_eq (get_group (st_order st) (eff_d st d)) k then (after_nan_test st d, UWarn)
  else match edit_order (st_order st) m (eff_d st d) k with
       | (g', UDone) => (refresh tables (set_order (after_nan_test st d) g'), UDone)
       | (g', oc) => (set_order (after_nan_test st d) g', oc)
       end.
Proof.
  intros tables st m d k Hm Hk. unfold update, eff_d, after_nan_test.
  assert (Ek : is_nan k = false) by (destruct k; try reflexivity; congruence).
  destruct m; [| |congruence]; rewrite Ek; destruct (is_nan d); reflexivity.
Qed.

(* a valid edit either is a no-op with a warning (discarded already in kept's group) or completes
   with exactly the expected groups, on a well-formed order *)
Theorem update_valid : forall tables st m d k,
  WF (st_order st) -> st_nan st <> VNaN -> valid_edit st m d k ->
  (get_group (st_order st) (eff_d st d) = k /\
   update tables st m d k = (after_nan_test st d, UWarn))
  \/
  (get_group (st_order st) (eff_d st d) <> k /\
   exists g', WF g' /\ abs g' = expected_abs m (st_order st) (eff_d st d) k /\
     update tables st m d k = (refresh tables (set_order (after_nan_test st d) g'), UDone)).
Proof.
  intros tables st m d k Hwf Hnan (Hk & Hv).
  assert (Hm : m <> MBad) by (intro; subst m; exact Hv).
  rewrite (update_unfold tables st m d k Hm Hk).
  pose proof (eff_d_not_nan st d Hnan) as Hd'.
  set (d' := eff_d st d) in *. set (g := st_order st) in *.
  destruct (val_eq_dec (get_group g d') k) as [E|E].
  - left. split; [exact E|]. rewrite E.
    assert (Ep : py_eq k k = true) by (rewrite py_eq_notnan by exact Hk; apply val_eqb_refl).
    rewrite Ep. reflexivity.
  - right. split; [exact E|].
    assert (Ep : py_eq (get_group g d') k = false).
    { destruct (py_eq (get_group g d') k) eqn:Ep; [|reflexivity]. apply py_eq_true in Ep. contradiction. }
    rewrite Ep.
    destruct m; [| |contradiction].
    + destruct Hv as [[Hkk|Hkk] Hd].
      * assert (Hne : d' <> k).
        { intro; subst k. apply E. apply get_group_leader; assumption. }
        destruct (edit_order_group g d' k Hwf Hkk Hne Hd) as (g' & H1 & H2 & H3).
        exists g'. rewrite H1. auto.
      * assert (Hne : d' <> k).
        { intro; subst k. apply E. apply get_group_unknown; assumption. }
        destruct (edit_order_group_new g d' k Hwf Hkk Hne Hd) as (g' & H1 & H2 & H3).
        exists g'. rewrite H1. auto.
    + destruct Hv as [Hd [Hkf|Hkm]].
      * destruct (edit_order_replace_fresh g d' k Hwf Hd Hkf Hd') as (g' & H1 & H2 & H3).
        exists g'. rewrite H1. auto.
      * assert (Hne : k <> d').
        { intro; subst k. apply E. apply get_group_leader; assumption. }
        destruct (edit_order_replace_member g d' k Hwf Hd Hkm Hne Hd') as (g' & H1 & H2 & H3).
        exists g'. rewrite H1. auto.
Qed.

(* fields an edit never touches *)
Lemma update_fields : forall tables st m d k,
  let st' := fst (update tables st m d k) in
  st_kind st' = st_kind st /\ st_nan st' = st_nan st /\ st_default st' = st_default st /\
  st_odt st' = st_odt st /\ (st_dropna st' = st_dropna st \/ (d = VNaN /\ st_dropna st' = true)).
Proof.
  intros tables st m d k. unfold update.
  assert (Hn : forall b, (if is_nan d then b else st_dropna st) = st_dropna st \/ (d = VNaN /\ (if is_nan d then b else st_dropna st) = b)).
  { intro b. destruct d; cbn [is_nan]; auto. }
  destruct m; cbn [fst]; auto;
    destruct (is_nan k); cbn [fst];
    try match goal with |- context [py_eq ?a ?b] => destruct (py_eq a b) end; cbn [fst];
    try match goal with |- context [edit_order ?a ?b ?c ?e] => destruct (edit_order a b c e) as [g' []] end;
    cbn [fst]; destruct d; cbn [is_nan st_kind st_nan st_default st_odt st_dropna refresh
                                  fitted_state_auto fitted_state set_order set_dropna];
    repeat split; auto.
Qed.

Lemma refresh_idem : forall tables st, refresh tables (refresh tables st) = refresh tables st.
Proof. intros tables [k g n d dr o l]. reflexivity. Qed.

(* label refresh: whenever a call completes, the state is the freshly fitted state of the new
   order — for EVERY call, valid or not *)
Theorem labels_refresh_consistent : forall tables st m d k,
  snd (update tables st m d k) = UDone -> fitted tables (fst (update tables st m d k)).
Proof.
  intros tables st m d k. unfold update, fitted.
  destruct m; cbn [fst snd]; try discriminate;
    destruct (is_nan k); cbn [fst snd]; try discriminate;
    match goal with |- context [py_eq ?a ?b] => destruct (py_eq a b) end;
    cbn [fst snd]; try discriminate;
    match goal with |- context [edit_order ?a ?b ?c ?e] => destruct (edit_order a b c e) as [g' []] end;
    cbn [fst snd]; try discriminate; intros _; symmetry; apply refresh_idem.
Qed.

Lemma fitted_after_nan_test : forall tables st d, fitted tables st -> fitted tables (after_nan_test st d).
Proof.
  intros tables [k g n df dr o l] d H. unfold after_nan_test. destruct (is_nan d); [|exact H].
  unfold fitted, refresh, fitted_state_fix, set_dropna in *.
  cbn [st_kind st_order st_nan st_default st_dropna st_odt st_lpv] in *.
  injection H as Hl. f_equal. exact Hl.
Qed.

(* a fitted state with a well-formed order is `coherent` (premise of the C04 theorems) *)
(* str_nan is the last leader, or not a leader *)
Definition nan_is_last (st : state) : Prop :=
  nan_last (st_nan st) (keys (st_order st)) = keys (st_order st).

Lemma fitted_coherent : forall tables st, WF (st_order st) -> fitted tables st -> nan_is_last st ->
  coherent (fmt_of tables (st_nan st) (st_order st)) st.
Proof.
  intros tables st Hwf Hf Hl. split; [exact Hwf|]. rewrite Hf at 1.
  unfold refresh, fitted_state_fix, norm_gl. cbn [st_lpv]. unfold nan_is_last in Hl. rewrite Hl.
  destruct (st_order st); reflexivity.
Qed.

(* valid edit: completes (or warns), order stays well-formed, state stays fitted *)
Theorem update_preserves_wf : forall tables st m d k,
  WF (st_order st) -> st_nan st <> VNaN -> valid_edit st m d k ->
  (snd (update tables st m d k) = UDone \/ snd (update tables st m d k) = UWarn) /\
  WF (st_order (fst (update tables st m d k))) /\
  (fitted tables st -> fitted tables (fst (update tables st m d k))).
Proof.
  intros tables st m d k Hwf Hnan Hv.
  destruct (update_valid tables st m d k Hwf Hnan Hv) as [[_ H]|[_ (g' & Hw & _ & H)]]; rewrite H; cbn [fst snd].
  - split; [right; reflexivity|]. split; [rewrite order_after_nan_test; exact Hwf|].
    apply fitted_after_nan_test.
  - split; [left; reflexivity|]. split; [exact Hw|].
    intros _. unfold fitted. symmetry. apply refresh_idem.
Qed.

(* 'group': every member of the discarded group (or the new modality / the missing value) joins
   the kept group, every other group is unchanged, the discarded leader disappears *)
Theorem update_group_effect : forall tables st d k,
  WF (st_order st) -> st_nan st <> VNaN -> valid_edit st MGroup d k -> In k (keys (st_order st)) ->
  let g := st_order st in
  let d' := eff_d st d in
  let g' := st_order (fst (update tables st MGroup d k)) in
  get_group g d' <> k ->
  snd (update tables st MGroup d k) = UDone /\
  abs g' = expected_abs MGroup g d' k /\
  keys g' = filter (fun x => negb (val_eqb d' x)) (keys g) /\
  get g' k = (if mem d' (keys g) then get g d' else [d']) ++ get g k /\
  (forall x, x <> k -> x <> d' -> get g' x = get g x).
Proof.
  intros tables st d k Hwf Hnan Hv Hkk g d' g' Hne.
  destruct (update_valid tables st MGroup d k Hwf Hnan Hv) as [[H _]|[_ (g1 & Hw & Ha & H)]];
    [contradiction|].
  unfold g'. rewrite H. cbn [fst snd st_order refresh fitted_state_fix set_order].
  destruct Hv as (Hk & _ & Hd). fold g d' in Hkk, Hd, Ha.
  assert (Hens : ensure g k = g).
  { unfold ensure. rewrite contains_true; [reflexivity | apply leader_in_values; assumption]. }
  assert (Hdk : d' <> k).
  { intro; subst k. apply Hne. apply get_group_leader; assumption. }
  set (s := abs g ++ (if mem d' (keys g) then [] else [(d', [d'])])) in *.
  cbn [expected_abs] in Ha. rewrite Hens in Ha. fold s in Ha.
  assert (Hks : dget k s = Some (get g k)).
  { unfold s. apply dget_app_in. apply abs_dget; assumption. }
  assert (Hds : s_members s d' = if mem d' (keys g) then get g d' else [d']).
  { unfold s, s_members. destruct (mem d' (keys g)) eqn:E.
    - rewrite app_nil_r. apply mem_In in E. rewrite (abs_dget g d' Hwf E). reflexivity.
    - rewrite dget_app_notin by (rewrite abs_keys; apply mem_false; exact E).
      cbn [dget]. rewrite val_eqb_refl. reflexivity. }
  split; [reflexivity|]. split; [cbn [expected_abs]; rewrite Hens; exact Ha|]. split; [|split].
  - rewrite <- (abs_keys g1), Ha, (keys_s_group s d' k Hdk). unfold s. rewrite map_app, filter_app, abs_keys.
    destruct (mem d' (keys g)) eqn:E; cbn [map filter fst]; [apply app_nil_r|].
    rewrite val_eqb_refl. cbn [negb]. apply app_nil_r.
  - rewrite (get_abs g1 k Hw), Ha, (members_s_group_kept s d' k (get g k) Hdk Hks), Hds. reflexivity.
  - intros x Hxk Hxd. rewrite (get_abs g1 x Hw), Ha, (members_s_group_other s d' k x Hdk Hxk Hxd).
    unfold s, s_members. destruct (mem d' (keys g)) eqn:E.
    + rewrite app_nil_r. symmetry. apply get_abs. exact Hwf.
    + destruct (dget x (abs g)) as [v|] eqn:Ex.
      * rewrite (dget_app_in x (abs g) _ v Ex). rewrite (get_abs g x Hwf). unfold s_members. rewrite Ex. reflexivity.
      * rewrite (dget_app_none x (abs g) _ Ex). cbn [dget].
        assert (E1 : val_eqb x d' = false) by (apply val_eqb_neq; exact Hxd). rewrite E1.
        rewrite (get_abs g x Hwf). unfold s_members. rewrite Ex. reflexivity.
Qed.

(* 'replace' only renames: same groups in the same positions, the leader d is now k (k itself
   joins the group when it was unknown) *)
Theorem update_replace_only_renames : forall tables st d k,
  WF (st_order st) -> st_nan st <> VNaN -> valid_edit st MReplace d k ->
  let g := st_order st in
  let d' := eff_d st d in
  let g' := st_order (fst (update tables st MReplace d k)) in
  k <> d' ->
  snd (update tables st MReplace d k) = UDone /\
  abs g' = map (fun kv => if val_eqb d' (fst kv)
                          then (k, if mem k (snd kv) then snd kv else k :: snd kv) else kv) (abs g) /\
  keys g' = map (fun x => if val_eqb d' x then k else x) (keys g).
Proof.
  intros tables st d k Hwf Hnan Hv g d' g' Hne.
  destruct (update_valid tables st MReplace d k Hwf Hnan Hv) as [[H _]|[_ (g1 & Hw & Ha & H)]].
  - exfalso. destruct Hv as (_ & Hd & _). apply Hne. rewrite <- H.
    apply get_group_leader; assumption.
  - unfold g'. rewrite H. cbn [fst snd st_order refresh fitted_state_fix set_order].
    split; [reflexivity|]. split; [exact Ha|].
    rewrite <- (abs_keys g1), Ha. cbn [expected_abs]. unfold abs. rewrite !map_map.
    apply map_ext. intro x. cbn [fst]. fold d'. destruct (val_eqb d' x); reflexivity.
Qed.

(* ---- histories ----------------------------------------------------------------------------------- *)

Fixpoint valid_history (tables : list fmt_table) (st : state) (es : list edit) : Prop :=
  match es with
  | [] => True
  | e :: t => valid_edit st (e_mode e) (e_d e) (e_k e) /\
              valid_history tables (fst (update tables st (e_mode e) (e_d e) (e_k e))) t
  end.

Definition good (tables : list fmt_table) (r : state * outcome) : Prop :=
  (snd r = UDone \/ snd r = UWarn) /\ WF (st_order (fst r)) /\ fitted tables (fst r).

Theorem update_every_history : forall tables es st,
  WF (st_order st) -> st_nan st <> VNaN -> fitted tables st -> valid_history tables st es ->
  Forall (good tables) (run_edits tables st es) /\
  WF (st_order (final_state tables st es)) /\ fitted tables (final_state tables st es).
Proof.
  intros tables es. induction es as [|e t IH]; intros st Hwf Hnan Hf Hv.
  - cbn [run_edits final_state]. split; [constructor|]. split; assumption.
  - destruct Hv as [Hv Hrest]. cbn [run_edits final_state].
    destruct (update_preserves_wf tables st (e_mode e) (e_d e) (e_k e) Hwf Hnan Hv) as (Ho & Hw' & Hf').
    pose proof (update_fields tables st (e_mode e) (e_d e) (e_k e)) as (_ & Hn' & _).
    cbv zeta in Hn'.
    assert (Hnan' : st_nan (fst (update tables st (e_mode e) (e_d e) (e_k e))) <> VNaN)
      by (rewrite Hn'; exact Hnan).
    destruct (IH _ Hw' Hnan' (Hf' Hf) Hrest) as (H1 & H2 & H3).
    split; [|split; assumption].
    constructor; [|exact H1]. split; [exact Ho|]. split; [exact Hw' | exact (Hf' Hf)].
Qed.

(* ---- consequences for transform (C04 applies to the post-edit state) --------------------------- *)

Lemma nan_ok_not_VNaN : forall st, nan_ok st -> st_nan st <> VNaN.
Proof. intros st (s & Hs & _). rewrite Hs. discriminate. Qed.

(* qualitative 'group': every member of the discarded group and of the kept group is transformed
   to the label of the kept group's position; members of any other group x to x's label *)
Theorem transform_after_group_qual : forall tables st d k x i v,
  WF (st_order st) -> nan_ok st -> st_kind st = Qual -> valid_edit st MGroup d k ->
  In k (keys (st_order st)) ->
  get_group (st_order st) (eff_d st d) <> k ->
  let g := st_order st in
  let d' := eff_d st d in
  let st' := fst (update tables st MGroup d k) in
  nan_is_last st' ->
  nth_error (keys (st_order st')) i = Some x ->
  In v (if val_eqb x k then (if mem d' (keys g) then get g d' else [d']) ++ get g k else get g x) ->
  v <> VNaN ->
  exists l, label_at (fmt_of tables (st_nan st') (st_order st')) st' i = Some l /\
            transform_cell st' v = Ok (reinstate st' (OLab l)).
Proof.
  intros tables st d k x i v Hwf Hnok Hkind Hv Hkk Hne g d' st' Hlast Hnth Hin Hvn.
  pose proof (nan_ok_not_VNaN st Hnok) as Hnan.
  destruct (update_group_effect tables st d k Hwf Hnan Hv Hkk Hne) as (Hoc & _ & Hkeys & Hgk & Hother).
  destruct (update_preserves_wf tables st MGroup d k Hwf Hnan Hv) as (_ & Hwf' & _).
  pose proof (labels_refresh_consistent tables st MGroup d k Hoc) as Hfit.
  pose proof (update_fields tables st MGroup d k) as (Hk' & Hn' & _). cbv zeta in Hk', Hn'.
  fold st' in Hwf', Hfit, Hk', Hn', Hkeys, Hgk, Hother.
  apply (transform_is_lookup_qual (fmt_of tables (st_nan st') (st_order st')) st' i x v).
  - apply fitted_coherent; assumption.
  - rewrite Hk'. exact Hkind.
  - destruct Hnok as (s & Hs & Hs'). exists s. rewrite Hn'. split; assumption.
  - exact Hnth.
  - veq x k.
    + subst x. rewrite Hgk. exact Hin.
    + assert (Hx : In x (keys (st_order st'))) by (eapply nth_error_In; eauto).
      rewrite Hkeys in Hx. apply In_filter_neq in Hx. destruct Hx as [_ Hxd].
      rewrite (Hother x E Hxd). exact Hin.
  - exact Hvn.
Qed.

(* quantitative: after ANY completed call with a well-formed order, a number is sent to the label
   of the first leader >= it (C04 on the refreshed state) *)
Lemma first_leader_split : forall x ls l, first_leader x ls = Some l ->
  exists pre post, ls = pre ++ l :: post /\ (forall p, In p pre -> num_le x p = false) /\
                   num_le x l = true.
Proof.
  intros x ls. induction ls as [|a t IH]; intros l H; [discriminate H|].
  cbn [first_leader] in H. destruct (num_le x a) eqn:E.
  - injection H as <-. exists [], t. split; [reflexivity|]. split; [intros p []|exact E].
  - destruct (IH l H) as (pre & post & H1 & H2 & H3). exists (a :: pre), post.
    split; [rewrite H1; reflexivity|]. split; [|exact H3].
    intros p [<-|Hp]; [exact E | apply H2; exact Hp].
Qed.

Theorem transform_after_edit_quant : forall tables st m d k x l i,
  let st' := fst (update tables st m d k) in
  snd (update tables st m d k) = UDone -> WF (st_order st') -> nan_is_last st' ->
  st_kind st = Quant -> nan_ok st -> sentinel st' -> is_num x = true ->
  first_leader x (quant_leaders st') = Some l ->
  nth_error (keys (st_order st')) i = Some l ->
  exists lab, label_at (fmt_of tables (st_nan st') (st_order st')) st' i = Some lab /\
              transform_cell st' x = Ok (reinstate st' (OLab lab)).
Proof.
  intros tables st m d k x l i st' Hoc Hwf' Hlast Hkind Hnok Hsent Hx Hfl Hnth.
  pose proof (labels_refresh_consistent tables st m d k Hoc) as Hfit.
  pose proof (update_fields tables st m d k) as (Hk' & Hn' & _). cbv zeta in Hk', Hn'.
  fold st' in Hfit, Hk', Hn'.
  destruct (first_leader_split x _ l Hfl) as (pre & post & H1 & H2 & H3).
  apply (transform_is_lookup_quant (fmt_of tables (st_nan st') (st_order st')) st' x pre l post i).
  - apply fitted_coherent; assumption.
  - rewrite Hk'. exact Hkind.
  - destruct Hnok as (s & Hs & Hs'). exists s. rewrite Hn'. split; assumption.
  - exact Hsent.
  - exact Hx.
  - exact H1.
  - exact H2.
  - exact H3.
  - exact Hnth.
Qed.

(* ---- quantitative upward merge: the lookup consequence ----------------------------------------- *)

Lemma first_leader_In : forall x ls l, first_leader x ls = Some l -> In l ls /\ num_le x l = true.
Proof.
  intros x ls l H. destruct (first_leader_split x ls l H) as (pre & post & H1 & _ & H3).
  split; [rewrite H1; apply in_elt | exact H3].
Qed.

Lemma first_leader_upward_d : forall x pre d k post,
  ~ In d pre -> ~ In d (k :: post) -> num_le d k = true ->
  first_leader x (pre ++ d :: k :: post) = Some d -> first_leader x (pre ++ k :: post) = Some k.
Proof.
  intros x pre d k post Hpre Hpost Hdk. induction pre as [|a t IH]; intro H.
  - cbn [app first_leader] in *. destruct (num_le x d) eqn:E.
    + rewrite (num_le_trans _ _ _ E Hdk). reflexivity.
    + exfalso. apply Hpost. apply (first_leader_In x (k :: post) d). exact H.
  - cbn [app first_leader] in *. destruct (num_le x a).
    + exfalso. injection H as ->. apply Hpre. left. reflexivity.
    + apply IH; [intro Hi; apply Hpre; right; exact Hi | exact H].
Qed.

Lemma first_leader_upward_other : forall x pre d k post l, l <> d ->
  first_leader x (pre ++ d :: k :: post) = Some l -> first_leader x (pre ++ k :: post) = Some l.
Proof.
  intros x pre d k post l Hl. induction pre as [|a t IH]; intro H.
  - cbn [app first_leader] in *. destruct (num_le x d); [|exact H].
    exfalso. injection H as <-. apply Hl. reflexivity.
  - cbn [app first_leader] in *. destruct (num_le x a); [exact H | apply IH; exact H].
Qed.

Lemma first_leader_upward_none : forall x pre d k post,
  first_leader x (pre ++ d :: k :: post) = None -> first_leader x (pre ++ k :: post) = None.
Proof.
  intros x pre d k post. induction pre as [|a t IH]; intro H.
  - cbn [app first_leader] in *. destruct (num_le x d); [discriminate H | exact H].
  - cbn [app first_leader] in *. destruct (num_le x a); [exact H | apply IH; exact H].
Qed.

Lemma filter_comm : forall (A : Type) (p q : A -> bool) l,
  filter p (filter q l) = filter q (filter p l).
Proof.
  intros A p q l. induction l as [|a t IH]; [reflexivity|]. cbn [filter].
  destruct (q a) eqn:Eq, (p a) eqn:Ep; cbn [filter]; rewrite ?Eq, ?Ep, IH; reflexivity.
Qed.

Lemma filter_neq_mid : forall d pre rest, ~ In d pre -> ~ In d rest ->
  filter (fun x => negb (val_eqb d x)) (pre ++ d :: rest) = pre ++ rest.
Proof.
  intros d pre rest Hp Hr. rewrite filter_app, (filter_neq_notin d pre Hp). cbn [filter].
  rewrite val_eqb_refl. cbn [negb]. rewrite (filter_neq_notin d rest Hr). reflexivity.
Qed.

(* adjacent upward merge (d immediately before k among the leaders, d <= k): exactly the x whose
   first leader >= x was d are now sent to k; every other x keeps its leader *)
Theorem update_quant_upward : forall tables st d k pre post,
  WF (st_order st) -> st_nan st <> VNaN ->
  quant_leaders st = pre ++ d :: k :: post -> num_le d k = true ->
  let st' := fst (update tables st MGroup d k) in
  snd (update tables st MGroup d k) = UDone /\
  quant_leaders st' = pre ++ k :: post /\
  get (st_order st') k = get (st_order st) d ++ get (st_order st) k /\
  forall x,
    (first_leader x (quant_leaders st) = Some d -> first_leader x (quant_leaders st') = Some k) /\
    (forall l, l <> d -> first_leader x (quant_leaders st) = Some l ->
               first_leader x (quant_leaders st') = Some l) /\
    (first_leader x (quant_leaders st) = None -> first_leader x (quant_leaders st') = None).
Proof.
  intros tables st d k pre post Hwf Hnan Hq Hdk st'.
  assert (Hdn : is_nan d = false) by (destruct d; try reflexivity; discriminate Hdk).
  assert (Hkn : k <> VNaN) by (intro; subst k; destruct d; discriminate Hdk).
  assert (He : eff_d st d = d) by (unfold eff_d; rewrite Hdn; reflexivity).
  assert (Hnd : NoDup (pre ++ d :: k :: post)).
  { rewrite <- Hq. unfold quant_leaders. apply NoDup_filter. apply Hwf. }
  pose proof (NoDup_remove_2 _ _ _ Hnd) as Hd_out.
  assert (Hdpre : ~ In d pre) by (intro Hi; apply Hd_out; apply in_or_app; left; exact Hi).
  assert (Hdpost : ~ In d (k :: post)) by (intro Hi; apply Hd_out; apply in_or_app; right; exact Hi).
  assert (Hne : d <> k) by (intro; subst k; apply Hdpost; left; reflexivity).
  assert (Hdin : In d (keys (st_order st))).
  { assert (Hi : In d (quant_leaders st)) by (rewrite Hq; apply in_elt).
    unfold quant_leaders in Hi. apply filter_In in Hi. tauto. }
  assert (Hkin : In k (keys (st_order st))).
  { assert (Hi : In k (quant_leaders st)) by (rewrite Hq; apply in_or_app; right; right; left; reflexivity).
    unfold quant_leaders in Hi. apply filter_In in Hi. tauto. }
  assert (Hv : valid_edit st MGroup d k).
  { split; [exact Hkn|]. rewrite He. split; [left; exact Hkin | left; exact Hdin]. }
  assert (Hgg : get_group (st_order st) (eff_d st d) <> k).
  { rewrite He, (get_group_leader _ d Hwf Hdin). exact Hne. }
  destruct (update_group_effect tables st d k Hwf Hnan Hv Hkin Hgg) as (Hoc & _ & Hkeys & Hgk & _).
  pose proof (update_fields tables st MGroup d k) as (_ & Hn' & _). cbv zeta in Hn'.
  fold st' in Hkeys, Hgk, Hn'. rewrite He in Hkeys, Hgk.
  assert (Hq' : quant_leaders st' = pre ++ k :: post).
  { unfold quant_leaders. rewrite Hkeys, Hn', filter_comm. fold (quant_leaders st). rewrite Hq.
    apply filter_neq_mid; assumption. }
  split; [exact Hoc|]. split; [exact Hq'|]. split.
  - rewrite Hgk. assert (E : mem d (keys (st_order st)) = true) by (apply mem_In; exact Hdin).
    rewrite E. reflexivity.
  - intro x. rewrite Hq', Hq. split; [|split].
    + apply first_leader_upward_d; assumption.
    + intros l Hl. apply first_leader_upward_other. exact Hl.
    + apply first_leader_upward_none.
Qed.

(* ---- witnesses: edits that are NOT coherent (candidate defects of the code) --------------------- *)
From AC.Model Require Import CheckC13.
From AC.Proofs Require Import CheckC13Proofs.
Local Open Scope string_scope.

Definition ex_tables : list fmt_table :=
  [[(VNum 1, "1.000e+00"); (VNum 3, "3.000e+00"); (VNum 5, "5.000e+00"); (VNum 7, "7.000e+00")]].

Definition ex_quant : state :=
  fitted_state_auto Quant (of_list [VNum 1; VNum 3; VNum 5; VPInf]) (VStr "__NAN__") (VStr "__OTHER__")
                    true OStr ex_tables.

(* O8c: downward merge (kept < discarded).  Rows of the discarded interval (3, 5] do not join the
   kept group: they fall into the NEXT group *)
Theorem downward_merge_refuted :
  exists tables st d k x pre post,
    WF (st_order st) /\ fitted tables st /\
    quant_leaders st = (pre ++ k :: d :: post)%list /\ num_le k d = true /\ valid_edit st MGroup d k /\
    let st' := fst (update tables st MGroup d k) in
    snd (update tables st MGroup d k) = UDone /\
    first_leader x (quant_leaders st) = Some d /\
    first_leader x (quant_leaders st') <> Some k /\
    lget k (st_lpv st') = Some (LVal (VStr "1.000e+00 < x <= 3.000e+00")) /\
    transform_cell st' x = Ok (OLab (LVal (VStr "3.000e+00 < x"))).
Proof.
  exists ex_tables, ex_quant, (VNum 5), (VNum 3), (VNum 4), [VNum 1], [VPInf].
  split; [apply wf_b_spec; vm_compute; reflexivity|].
  split; [reflexivity|]. split; [reflexivity|]. split; [reflexivity|].
  split.
  { split; [discriminate|]. split; [left; right; left; reflexivity | left; right; right; left; reflexivity]. }
  cbv zeta. split; [vm_compute; reflexivity|]. split; [vm_compute; reflexivity|].
  split; [vm_compute; discriminate|]. split; vm_compute; reflexivity.
Qed.

Definition ex_qual : state :=
  fitted_state_auto Qual (mkGL [VStr "a"; VStr "b"]
                               [(VStr "a", [VStr "__NAN__"; VStr "a"]); (VStr "b", [VStr "b"])])
                    (VStr "__NAN__") (VStr "__OTHER__") true OStr [].

(* O8b: missing values cannot be moved to another group once they are merged somewhere *)
Theorem nan_regroup_refuted :
  exists tables st k,
    WF (st_order st) /\ fitted tables st /\ In k (keys (st_order st)) /\
    In (st_nan st) (values (st_order st)) /\
    snd (update tables st MGroup VNaN k) = UAssert.
Proof.
  exists [], ex_qual, (VStr "b").
  split; [apply wf_b_spec; vm_compute; reflexivity|]. split; [reflexivity|].
  split; [right; left; reflexivity|]. split; [left; reflexivity|]. vm_compute. reflexivity.
Qed.

(* a REJECTED call is not atomic: kept is appended before group() refuses the discarded value, the
   labels are not refreshed, and transform then fails (KeyError) *)
Theorem rejected_edit_can_break :
  exists tables st d k,
    WF (st_order st) /\ fitted tables st /\
    let st' := fst (update tables st MGroup d k) in
    snd (update tables st MGroup d k) = UAssert /\ ~ fitted tables st' /\
    transform_col st [VNum 4] = Ok [OLab (LVal (VStr "1.000e+00 < x <= 5.000e+00"))] /\
    transform_col st' [VNum 4] = InternalErr.
Proof.
  exists ex_tables, (fst (update ex_tables ex_quant MGroup (VNum 3) (VNum 5))), (VNum 3), (VNum 7).
  split; [apply wf_b_spec; vm_compute; reflexivity|].
  split; [apply labels_refresh_consistent; vm_compute; reflexivity|].
  cbv zeta. split; [vm_compute; reflexivity|]. split.
  - unfold fitted. intro H. apply (f_equal st_lpv) in H. vm_compute in H. discriminate H.
  - split; vm_compute; reflexivity.
Qed.

(* ---- boolean validity (used for concrete examples) ------------------------------------------------ *)
Definition valid_edit_b (st : state) (m : umode) (d k : val) : bool :=
  let g := st_order st in
  let d' := eff_d st d in
  negb (is_nan k) &&
  match m with
  | MGroup => mem k (keys g) && (mem d' (keys g) || negb (mem d' (values g)))
  | MReplace => mem d' (keys g) && (negb (mem k (values g)) || mem k (get g d'))
  | MBad => false
  end.

Lemma valid_edit_b_sound : forall st m d k, valid_edit_b st m d k = true -> valid_edit st m d k.
Proof.
  intros st m d k H. unfold valid_edit_b in H. cbv zeta in H.
  apply andb_true_iff in H. destruct H as [Hk H].
  split; [intro; subst k; discriminate Hk|].
  destruct m; [| |discriminate H]; apply andb_true_iff in H; destruct H as [H1 H2];
    apply mem_In in H1; apply orb_true_iff in H2.
  - split; [left; exact H1|]. destruct H2 as [H2|H2].
    + left. apply mem_In. exact H2.
    + right. apply mem_false. apply negb_true_iff. exact H2.
  - split; [exact H1|]. destruct H2 as [H2|H2].
    + left. apply mem_false. apply negb_true_iff. exact H2.
    + right. apply mem_In. exact H2.
Qed.

Fixpoint valid_history_b (tables : list fmt_table) (st : state) (es : list edit) : bool :=
  match es with
  | [] => true
  | e :: t => valid_edit_b st (e_mode e) (e_d e) (e_k e) &&
              valid_history_b tables (fst (update tables st (e_mode e) (e_d e) (e_k e))) t
  end.

Lemma valid_history_b_sound : forall tables es st,
  valid_history_b tables st es = true -> valid_history tables st es.
Proof.
  intros tables es. induction es as [|e t IH]; intros st H; [exact I|].
  cbn [valid_history_b] in H. apply andb_true_iff in H. destruct H as [H1 H2].
  split; [apply valid_edit_b_sound; exact H1 | apply IH; exact H2].
Qed.

Example new_name_with_nan_group :
  let st := refresh [] (mkState Qual (of_list [VStr "a"; VStr "b"; VStr "__NAN__"]) (VStr "__NAN__")
                                (VStr "__OTHER__") true OStr []) in
  let st' := fst (update [] st MGroup (VStr "a") (VStr "NEW")) in
  valid_edit st MGroup (VStr "a") (VStr "NEW") /\
  keys (st_order st') = [VStr "b"; VStr "__NAN__"; VStr "NEW"] /\
  transform_cell st' (VStr "a") = Ok (OLab (LVal (VStr "NEW"))) /\
  transform_cell st' VNaN = Ok (OLab (LVal (VStr "__NAN__"))).
Proof.
  cbv zeta. split.
  { split; [discriminate|]. split.
    - right. vm_compute. intuition discriminate.
    - left. vm_compute. left. reflexivity. }
  split; [|split]; vm_compute; reflexivity.
Qed.

(* ---- non-vacuity --------------------------------------------------------------------------------- *)
Example nonvacuous_example :
  let st := fitted_state_auto Qual (of_list [VStr "a"; VStr "b"; VStr "c"; VStr "__NAN__"])
              (VStr "__NAN__") (VStr "__OTHER__") false OStr [] in
  let es := [mkEdit MGroup (VStr "a") (VStr "b"); mkEdit MGroup VNaN (VStr "c");
             mkEdit MGroup (VStr "zz") (VStr "c"); mkEdit MReplace (VStr "b") (VStr "a");
             mkEdit MReplace (VStr "c") (VStr "C")] in
  WF (st_order st) /\ st_nan st <> VNaN /\ fitted [] st /\ valid_history [] st es /\
  map snd (run_edits [] st es) = [UDone; UDone; UDone; UDone; UDone] /\
  abs (st_order (final_state [] st es))
    = [(VStr "a", [VStr "a"; VStr "b"]); (VStr "C", [VStr "C"; VStr "zz"; VStr "__NAN__"; VStr "c"])] /\
  transform_cell (final_state [] st es) VNaN = Ok (OLab (LVal (VStr "C"))).
Proof.
  cbv zeta. split; [apply wf_b_spec; vm_compute; reflexivity|].
  split; [discriminate|]. split; [reflexivity|].
  split.
  { apply valid_history_b_sound. vm_compute. reflexivity. }
  split; [vm_compute; reflexivity|]. split; vm_compute; reflexivity.
Qed.
