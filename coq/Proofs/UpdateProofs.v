(* UpdateProofs.v — property C17 on the model (Model/Update.v). *)
From Coq Require Import Permutation Lia.
From AC.Model Require Import Base GroupedList Labels Transform FormatRule Update.
From AC.Proofs Require Import BaseLemmas GroupedListSpec GroupedListProofs TransformSpec
  LabelsProofs TransformProofs.

(* the state BaseDiscretizer.fit() (hence load_discretizer) builds from the order and the flags *)
Definition fitted (tables : list fmt_table) (st : state) : Prop := st = refresh tables st.

Lemma refresh_idem : forall tables st, refresh tables (refresh tables st) = refresh tables st.
Proof. intros tables [k g n d dr o l]. reflexivity. Qed.

Theorem labels_refresh_consistent : forall tables st m d k,
  snd (update tables st m d k) = UDone -> fitted tables (fst (update tables st m d k)).
Proof.
  intros tables st m d k. unfold update, fitted.
  destruct m; cbn [fst snd]; try discriminate;
    destruct (is_nan k); cbn [fst snd]; try discriminate;
    match goal with |- context [py_eq ?a ?b] => destruct (py_eq a b) end;
    cbn [fst snd]; try discriminate;
    match goal with |- context [edit_order ?a ?b ?c ?e] => destruct (edit_order a b c e) as [g' []] end;
    cbn [fst snd]; try discriminate; intros _; symmetry; apply refresh_idem.
Qed.
