(* CheckC13Proofs.v — soundness of the checker's boolean invariant and packaging of C13 *)
From Coq Require Import Permutation Lia.
From AC.Model Require Import Base GroupedList CheckC13.
From AC.Proofs Require Import BaseLemmas GroupedListSpec GroupedListProofs.

Lemma subset_incl : forall a b, subset a b = true <-> (forall x, In x a -> In x b).
Proof. intros a b. unfold subset. apply forallb_mem_incl. Qed.

Lemma forallb_leader_in : forall (c : dict),
  forallb (fun kv => mem (fst kv) (snd kv)) c = true <-> (forall k vs, In (k, vs) c -> In k vs).
Proof.
  intros c. rewrite forallb_forall. split.
  - intros H k vs Hin. apply mem_In. exact (H (k, vs) Hin).
  - intros H [k vs] Hin. apply mem_In. exact (H k vs Hin).
Qed.

Theorem wf_b_spec : forall g, wf_b g = true <-> WF g.
Proof.
  intros g. unfold wf_b, WF. cbn [keys content].
  rewrite !andb_true_iff, !nodupb_NoDup, !subset_incl, forallb_leader_in.
  split.
  - intros [[[[[H1 H2] H3] H4] H5] H6]. repeat split; auto.
  - intros [H1 [H2 [H3 [H4 H5]]]]. repeat split; auto; intros x Hx; apply H3; exact Hx.
Qed.

Theorem C13_constructors :
  (forall l, NoDup l -> WF (of_list l)) /\
  (forall d g, NoDup (dkeys d) -> of_dict d = Ok g -> WF g) /\
  (forall g, WF g -> WF (copy g)).
Proof.
  split; [exact wf_of_list|]. split; [exact wf_of_dict|].
  intros g H. rewrite copy_id. exact H.
Qed.

Theorem C13_lookups :
  (forall g k vs v, WF g -> In (k, vs) (content g) -> In v vs -> get_group g v = k) /\
  (forall g v, (forall k vs, In (k, vs) (content g) -> ~ In v vs) -> get_group g v = v) /\
  (forall g v, contains g v = true <-> In v (values g)) /\
  (forall g k, WF g -> get g k = s_members (abs g) k) /\
  (forall g, WF g -> Permutation (values g) (flat_map snd (abs g))).
Proof.
  repeat split.
  - exact get_group_spec.
  - exact get_group_none.
  - apply contains_spec.
  - apply contains_spec.
  - exact get_abs.
  - exact values_abs.
Qed.

Theorem C13_values :
  (forall g o g', WF g -> valid g o -> preserving o -> step g o = Ok g' ->
                  Permutation (values g') (values g)) /\
  (forall g v, WF g -> ~ In v (values g) -> Permutation (values (append g v)) (v :: values g)) /\
  (forall g v g', WF g -> In v (keys g) -> remove g v = Ok g' ->
                  Permutation (values g) (get g v ++ values g')).
Proof.
  split; [exact values_preserved|]. split; [exact values_append|]. exact values_remove.
Qed.

Open Scope string_scope.
Example C13_example :
  let g0 := of_list [VStr "a"; VStr "b"; VNum 0; VNum 5] in
  let ops := [OGroup (VStr "a") (VStr "b"); OAppend (VNum 7); OReplaceLeader (VStr "b") (VStr "a");
              OSort; OPop (-1)] in
  WF g0 /\ valid_run g0 ops /\ wf_b g0 = true.
Proof.
  cbv zeta. split; [apply wf_b_spec; vm_compute; reflexivity|].
  split; [|vm_compute; reflexivity].
  cbn [valid_run]. split.
  { right. split; apply mem_In; vm_compute; reflexivity. }
  intros g1 H1. vm_compute in H1. injection H1 as <-.
  split. { cbn [valid values content]. intro H. apply mem_In in H. vm_compute in H. discriminate. }
  intros g2 H2. vm_compute in H2. injection H2 as <-.
  split. { split; apply mem_In; vm_compute; reflexivity. }
  intros g3 H3. vm_compute in H3. injection H3 as <-.
  split. { cbn [valid keys]. intro H. apply mem_In in H. vm_compute in H. discriminate. }
  intros g4 H4. vm_compute in H4. injection H4 as <-.
  split. { cbn [valid keys List.length]. lia. }
  intros g5 H5. exact I.
Qed.
