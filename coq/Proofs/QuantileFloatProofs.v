(* QuantileFloatProofs.v — the three binary64 facts used by Proofs/QuantileBucketProofs.v
   (thr_exact, newq_near, positions_near), proved for the SpecFloat operations of Model/Float.v.
   Only a one-ulp enclosure of round-to-nearest is needed (the rounded mantissa is the truncated one or
   its successor), plus "an exact result is returned unchanged".

   A — digits, right shifts                      B — binary_round_aux
   C — values in Q, f_of_Z, fmul, fdiv           D — floor, round-half-even, comparison
   E — q_position, new_q_of, the threshold       F — the bucket bound without float premises *)
From Coq Require Import ZArith QArith Qpower Lqa List Bool Lia ZifyBool Sorted SpecFloat.
From AC.Model Require Import Base Float GroupedList Quantiles.
From AC.Proofs Require Import DiscretizeProofs QuantileBucketProofs.
Import ListNotations.
Open Scope Z_scope.

(* ============================================================================================ *)
(* A — digits and shifts                                                                          *)
(* ============================================================================================ *)
Lemma digits2_pos_spec : forall p,
  2 ^ (Z.pos (digits2_pos p) - 1) <= Z.pos p < 2 ^ Z.pos (digits2_pos p).
Proof.
  induction p as [p IH|p IH|]; cbn [digits2_pos].
  - rewrite Pos2Z.inj_succ. set (D := Z.pos (digits2_pos p)) in *.
    assert (E1 : 2 ^ (Z.succ D - 1) = 2 * 2 ^ (D - 1)).
    { replace (Z.succ D - 1) with (Z.succ (D - 1)) by lia. apply Z.pow_succ_r. unfold D. lia. }
    assert (E2 : 2 ^ Z.succ D = 2 * 2 ^ D) by (apply Z.pow_succ_r; unfold D; lia).
    rewrite E1, E2. lia.
  - rewrite Pos2Z.inj_succ. set (D := Z.pos (digits2_pos p)) in *.
    assert (E1 : 2 ^ (Z.succ D - 1) = 2 * 2 ^ (D - 1)).
    { replace (Z.succ D - 1) with (Z.succ (D - 1)) by lia. apply Z.pow_succ_r. unfold D. lia. }
    assert (E2 : 2 ^ Z.succ D = 2 * 2 ^ D) by (apply Z.pow_succ_r; unfold D; lia).
    rewrite E1, E2. lia.
  - cbn. lia.
Qed.

Lemma pow2_lt_inv : forall a b, 0 <= a -> 0 <= b -> 2 ^ a < 2 ^ b -> a < b.
Proof. intros a b Ha Hb H. apply (Z.pow_lt_mono_r_iff 2); lia. Qed.

Lemma digits_unique : forall p d, 2 ^ (d - 1) <= Z.pos p < 2 ^ d -> 0 < d -> Z.pos (digits2_pos p) = d.
Proof.
  intros p d [H1 H2] Hd. pose proof (digits2_pos_spec p) as [G1 G2].
  set (d' := Z.pos (digits2_pos p)) in *. assert (0 < d') by (unfold d'; lia).
  assert (d' - 1 < d) by (apply pow2_lt_inv; lia).
  assert (d - 1 < d') by (apply pow2_lt_inv; lia). lia.
Qed.

Definition inexact (x : shr_record) : bool := shr_r x || shr_s x.

Lemma shr_1_m : forall x, 0 <= shr_m x -> shr_m (shr_1 x) = shr_m x / 2.
Proof.
  intros [m r s] H. cbn [shr_m] in *. destruct m as [|p|p]; [reflexivity| |lia].
  destruct p as [p|p|]; cbn [shr_1 shr_m].
  - rewrite Pos2Z.inj_xI. apply (Z.div_unique _ _ _ 1); lia.
  - rewrite Pos2Z.inj_xO. apply (Z.div_unique _ _ _ 0); lia.
  - reflexivity.
Qed.

Lemma shr_1_exact : forall x, 0 <= shr_m x -> inexact x = false -> shr_m x mod 2 = 0 -> inexact (shr_1 x) = false.
Proof.
  intros [m r s] H Hi Hm. unfold inexact in *. cbn [shr_m shr_r shr_s] in *.
  apply orb_false_iff in Hi. destruct Hi as [-> ->].
  destruct m as [|p|p]; [reflexivity| |lia].
  destruct p as [p|p|]; cbn [shr_1 shr_r shr_s orb]; try reflexivity.
  - rewrite Pos2Z.inj_xI in Hm. exfalso. rewrite Z.add_comm, Z.mul_comm, Z.mod_add in Hm by lia. discriminate.
  - discriminate.
Qed.

Lemma mod_pow_split : forall m a b, 0 <= a -> 0 <= b -> m mod 2 ^ (a + b) = 0 ->
  m mod 2 ^ a = 0 /\ (m / 2 ^ a) mod 2 ^ b = 0.
Proof.
  intros m a b Ha Hb H. rewrite Z.pow_add_r in H by lia.
  assert (Pa : 0 < 2 ^ a) by (apply Z.pow_pos_nonneg; lia).
  assert (Pb : 0 < 2 ^ b) by (apply Z.pow_pos_nonneg; lia).
  apply Z.mod_divide in H; [|lia]. destruct H as [k ->]. split.
  - apply Z.mod_divide; [lia|]. exists (k * 2 ^ b). ring.
  - replace (k * (2 ^ a * 2 ^ b)) with (k * 2 ^ b * 2 ^ a) by ring. rewrite Z.div_mul by lia.
    apply Z.mod_mul. lia.
Qed.

(* p right shifts *)
Lemma iter_shr : forall p x, 0 <= shr_m x ->
  0 <= shr_m (SpecFloat.iter_pos shr_1 p x)
  /\ shr_m (SpecFloat.iter_pos shr_1 p x) = shr_m x / 2 ^ Z.pos p
  /\ (inexact x = false -> shr_m x mod 2 ^ Z.pos p = 0 -> inexact (SpecFloat.iter_pos shr_1 p x) = false).
Proof.
  assert (Step : forall x, 0 <= shr_m x -> 0 <= shr_m (shr_1 x)).
  { intros x H. rewrite shr_1_m by exact H. apply Z.div_pos; lia. }
  induction p as [p IH|p IH|]; intros x H; cbn [SpecFloat.iter_pos].
  - destruct (IH (shr_1 x) (Step x H)) as (A0 & A1 & A2).
    destruct (IH _ A0) as (B0 & B1 & B2). split; [exact B0|]. split.
    + rewrite B1, A1, shr_1_m by exact H. rewrite !Z.div_div by (try apply Z.pow_pos_nonneg; lia).
      f_equal. replace (Z.pos p~1) with (1 + Z.pos p + Z.pos p) by lia. rewrite !Z.pow_add_r by lia. change (2 ^ 1) with 2. ring.
    + intros Hi Hm. replace (Z.pos p~1) with (1 + (Z.pos p + Z.pos p)) in Hm by lia.
      destruct (mod_pow_split _ 1 (Z.pos p + Z.pos p) ltac:(lia) ltac:(lia) Hm) as [M1 M2]. change (2 ^ 1) with 2 in M1, M2.
      destruct (mod_pow_split _ (Z.pos p) (Z.pos p) ltac:(lia) ltac:(lia) M2) as [M3 M4].
      apply B2; [apply A2|].
      * apply shr_1_exact; assumption.
      * rewrite shr_1_m by exact H. exact M3.
      * rewrite A1, shr_1_m by exact H. exact M4.
  - destruct (IH x H) as (A0 & A1 & A2).
    destruct (IH _ A0) as (B0 & B1 & B2). split; [exact B0|]. split.
    + rewrite B1, A1. rewrite !Z.div_div by (try apply Z.pow_pos_nonneg; lia).
      f_equal. replace (Z.pos p~0) with (Z.pos p + Z.pos p) by lia. rewrite Z.pow_add_r by lia. reflexivity.
    + intros Hi Hm. replace (Z.pos p~0) with (Z.pos p + Z.pos p) in Hm by lia.
      destruct (mod_pow_split _ (Z.pos p) (Z.pos p) ltac:(lia) ltac:(lia) Hm) as [M3 M4].
      apply B2; [apply A2; assumption|]. rewrite A1. exact M4.
  - split; [apply Step; exact H|]. split; [rewrite shr_1_m by exact H; reflexivity|].
    intros Hi Hm. apply shr_1_exact; assumption.
Qed.

Lemma shr_spec : forall x e k, 0 <= shr_m x -> 0 <= k ->
  exists x', shr x e k = (x', e + k)
    /\ shr_m x' = shr_m x / 2 ^ k
    /\ (inexact x = false -> shr_m x mod 2 ^ k = 0 -> inexact x' = false)
    /\ (k = 0 -> x' = x).
Proof.
  intros x e k Hx Hk. destruct k as [|p|p]; [| |lia].
  - exists x. cbn [shr]. rewrite Z.add_0_r, Z.pow_0_r, Z.div_1_r. auto.
  - destruct (iter_shr p x Hx) as (_ & A1 & A2). exists (SpecFloat.iter_pos shr_1 p x). cbn [shr].
    repeat split; auto. discriminate.
Qed.

Lemma loc_exact_iff : forall x, inexact x = false -> loc_of_shr_record x = loc_Exact.
Proof. intros [m [|] [|]]; cbn; intros H; try discriminate; reflexivity. Qed.

Lemma record_of_loc_m : forall m l, shr_m (shr_record_of_loc m l) = m.
Proof. intros m [|[| |]]; reflexivity. Qed.

Lemma record_of_loc_exact : forall m, inexact (shr_record_of_loc m loc_Exact) = false.
Proof. reflexivity. Qed.

Lemma rne_cases : forall m l, round_nearest_even m l = m \/ round_nearest_even m l = m + 1.
Proof. intros m [|[| |]]; cbn; auto. destruct (Z.even m); auto. Qed.

(* ============================================================================================ *)
(* B — binary_round_aux on a mantissa of at least 53 digits, exponents far from the ends          *)
(* ============================================================================================ *)
Lemma fexp_normal : forall x, -1021 <= x -> fexp prec emax x = x - 53.
Proof. intros x H. unfold fexp, emin, prec, emax. lia. Qed.

Lemma pow2_pos : forall k, 0 <= k -> 0 < 2 ^ k.
Proof. intros. apply Z.pow_pos_nonneg; lia. Qed.

Lemma div_pow_bounds : forall P d, 2 ^ (d - 1) <= P < 2 ^ d -> 53 <= d ->
  2 ^ 52 <= P / 2 ^ (d - 53) < 2 ^ 53.
Proof.
  intros P d [H1 H2] Hd. pose proof (pow2_pos (d - 53) ltac:(lia)) as Hk.
  assert (E1 : 2 ^ (d - 1) = 2 ^ 52 * 2 ^ (d - 53)) by (rewrite <- Z.pow_add_r by lia; f_equal; lia).
  assert (E2 : 2 ^ d = 2 ^ 53 * 2 ^ (d - 53)) by (rewrite <- Z.pow_add_r by lia; f_equal; lia).
  split.
  - apply Z.div_le_lower_bound; [exact Hk|]. rewrite Z.mul_comm. lia.
  - apply Z.div_lt_upper_bound; [exact Hk|]. rewrite Z.mul_comm. lia.
Qed.

Lemma bra_spec : forall s p ex l,
  let d := Z.pos (digits2_pos p) in
  53 <= d -> -1000 <= ex -> ex + d <= 1000 ->
  exists m3 e3 m2,
    binary_round_aux prec emax s (Z.pos p) ex l = S754_finite s m3 e3
    /\ (m2 = Z.pos p / 2 ^ (d - 53) \/ m2 = Z.pos p / 2 ^ (d - 53) + 1)
    /\ (l = loc_Exact -> Z.pos p mod 2 ^ (d - 53) = 0 -> m2 = Z.pos p / 2 ^ (d - 53))
    /\ 2 ^ 52 <= Z.pos m3 < 2 ^ 53
    /\ (e3 = ex + (d - 53) /\ Z.pos m3 = m2 \/ e3 = ex + (d - 53) + 1 /\ 2 * Z.pos m3 = m2)
    /\ 2 ^ 52 <= Z.pos p / 2 ^ (d - 53) < 2 ^ 53.
Proof.
  intros s p ex l d Hd Hex1 Hex2.
  pose proof (div_pow_bounds (Z.pos p) d (digits2_pos_spec p) Hd) as Hm1.
  unfold binary_round_aux, shr_fexp. cbn [Zdigits2]. fold d.
  rewrite fexp_normal by lia. replace (d + ex - 53 - ex) with (d - 53) by lia.
  destruct (shr_spec (shr_record_of_loc (Z.pos p) l) ex (d - 53)) as (x' & E & Hm & Hexact & _);
    [rewrite record_of_loc_m; lia|lia|].
  rewrite E. cbv iota beta. rewrite record_of_loc_m in Hm, Hexact.
  set (m1 := Z.pos p / 2 ^ (d - 53)) in *. set (e1 := ex + (d - 53)) in *.
  set (m2 := round_nearest_even (shr_m x') (loc_of_shr_record x')).
  assert (Hm2 : m2 = m1 \/ m2 = m1 + 1) by (unfold m2; rewrite Hm; apply rne_cases).
  assert (Hm2e : l = loc_Exact -> Z.pos p mod 2 ^ (d - 53) = 0 -> m2 = m1).
  { intros -> Hmod. unfold m2. rewrite loc_exact_iff; [cbn; exact Hm|].
    apply Hexact; [reflexivity|exact Hmod]. }
  clearbody m2.
  destruct m2 as [|p2|p2]; [lia| |lia]. cbn [Zdigits2].
  destruct (Z.eq_dec (Z.pos p2) (2 ^ 53)) as [Etop|Ntop].
  - assert (Ed : Z.pos (digits2_pos p2) = 54) by (apply digits_unique; [rewrite Etop; cbn; lia|lia]).
    rewrite Ed, fexp_normal by lia. replace (54 + e1 - 53 - e1) with 1 by lia.
    destruct (shr_spec (shr_record_of_loc (Z.pos p2) loc_Exact) e1 1) as (x'' & E' & Hm' & _ & _);
      [cbn; lia|lia|].
    rewrite E'. cbv iota beta. cbn [shr_record_of_loc shr_m] in Hm'.
    assert (Hv : shr_m x'' = 2 ^ 52) by (rewrite Hm', Etop; reflexivity).
    destruct (shr_m x'') as [|m3|m3] eqn:E3; [cbn in Hv; lia| |cbn in Hv; lia].
    assert (Hle : Zle_bool (e1 + 1) (emax - prec) = true) by (unfold emax, prec, e1; apply Z.leb_le; lia).
    rewrite Hle. exists m3, (e1 + 1), (Z.pos p2). split; [reflexivity|]. split; [exact Hm2|].
    split; [exact Hm2e|]. split; [rewrite Hv; cbn; lia|]. split; [|exact Hm1].
    right. split; [reflexivity|]. rewrite Hv, Etop. reflexivity.
  - assert (Ed : Z.pos (digits2_pos p2) = 53) by (apply digits_unique; [change (53 - 1) with 52; lia|lia]).
    rewrite Ed, fexp_normal by lia. replace (53 + e1 - 53 - e1) with 0 by lia.
    cbn [shr shr_record_of_loc shr_m].
    assert (Hle : Zle_bool e1 (emax - prec) = true) by (unfold emax, prec, e1; apply Z.leb_le; lia).
    rewrite Hle. exists p2, e1, (Z.pos p2). split; [reflexivity|]. split; [exact Hm2|].
    split; [exact Hm2e|]. split; [lia|]. split; [left; split; reflexivity|exact Hm1].
Qed.

(* ============================================================================================ *)
(* C — values                                                                                     *)
(* ============================================================================================ *)
Definition fval (m : positive) (e : Z) : Q := (inject_Z (Z.pos m) * 2 ^ e)%Q.

(* a positive float with a 53-bit mantissa *)
Definition normal (f : fl) (m : positive) (e : Z) : Prop :=
  f = S754_finite false m e /\ 2 ^ 52 <= Z.pos m < 2 ^ 53.

Lemma two_neq0 : ~ (2 == 0)%Q.
Proof. discriminate. Qed.

Lemma qpow_pos : forall e, (0 < 2 ^ e)%Q.
Proof. intros. apply Qpower_0_lt. reflexivity. Qed.

Lemma qpow_inj : forall k, 0 <= k -> (2 ^ k == inject_Z (2 ^ k))%Q.
Proof. intros k Hk. rewrite Zpower_Qpower by exact Hk. reflexivity. Qed.

Lemma val_pos : forall m e, (0 < fval m e)%Q.
Proof.
  intros m e. unfold fval. apply Qmult_lt_0_compat; [|apply qpow_pos].
  change 0%Q with (inject_Z 0). rewrite <- Zlt_Qlt. lia.
Qed.

(* one-ulp enclosure: T * |v - x| <= x with T = 2^52 *)
Definition close (x v : Q) : Prop :=
  (4503599627370496 * (v - x) <= x /\ 4503599627370496 * (x - v) <= x)%Q.

Lemma bra_value : forall s p ex l (x : Q),
  let d := Z.pos (digits2_pos p) in
  53 <= d -> -1000 <= ex -> ex + d <= 1000 ->
  (inject_Z (Z.pos p) * 2 ^ ex <= x)%Q -> (x <= inject_Z (Z.pos p + 1) * 2 ^ ex)%Q ->
  exists m3 e3,
    binary_round_aux prec emax s (Z.pos p) ex l = S754_finite s m3 e3
    /\ 2 ^ 52 <= Z.pos m3 < 2 ^ 53
    /\ ex + d - 53 <= e3 <= ex + d - 52
    /\ close x (fval m3 e3).
Proof.
  intros s p ex l x d Hd Hex1 Hex2 Hlo Hhi.
  destruct (bra_spec s p ex l Hd Hex1 Hex2) as (m3 & e3 & m2 & E & Hm2 & _ & Hm3 & He3 & Hm1). fold d in Hm2, He3, Hm1.
  exists m3, e3. split; [exact E|]. split; [exact Hm3|]. split; [lia|].
  set (k := d - 53) in *. set (m1 := Z.pos p / 2 ^ k) in *. set (e1 := ex + k) in *.
  pose proof (pow2_pos k ltac:(unfold k; lia)) as Hk.
  destruct (div_spec (Z.pos p) (2 ^ k) Hk) as [D1 D2]. fold m1 in D1, D2.
  set (A := (2 ^ e1)%Q). set (W := (inject_Z m1 * A)%Q).
  assert (HA : (0 < A)%Q) by apply qpow_pos.
  assert (EA : (A == 2 ^ ex * inject_Z (2 ^ k))%Q).
  { unfold A, e1. rewrite Qpower_plus by apply two_neq0. rewrite (qpow_inj k) by (unfold k; lia). reflexivity. }
  assert (HW1 : (W <= x)%Q).
  { eapply Qle_trans; [|exact Hlo]. unfold W. rewrite EA.
    setoid_replace (inject_Z m1 * (2 ^ ex * inject_Z (2 ^ k)))%Q with (inject_Z (2 ^ k * m1) * 2 ^ ex)%Q
      by (rewrite inject_Z_mult; ring).
    apply Qmult_le_compat_r; [rewrite <- Zle_Qle; lia|apply Qlt_le_weak, qpow_pos]. }
  assert (HW2 : (x <= W + A)%Q).
  { eapply Qle_trans; [exact Hhi|]. unfold W. rewrite EA.
    setoid_replace (inject_Z m1 * (2 ^ ex * inject_Z (2 ^ k)) + 2 ^ ex * inject_Z (2 ^ k))%Q
      with (inject_Z (2 ^ k * (m1 + 1)) * 2 ^ ex)%Q
      by (rewrite inject_Z_mult, inject_Z_plus; ring).
    apply Qmult_le_compat_r; [rewrite <- Zle_Qle; lia|apply Qlt_le_weak, qpow_pos]. }
  assert (HT : (4503599627370496 * A <= W)%Q).
  { unfold W. apply Qmult_le_compat_r; [|apply Qlt_le_weak; exact HA].
    change 4503599627370496%Q with (inject_Z (2 ^ 52)). rewrite <- Zle_Qle. lia. }
  assert (Hv : (fval m3 e3 == inject_Z m2 * A)%Q).
  { unfold fval, A. destruct He3 as [[-> ->]|[-> <-]]; [reflexivity|].
    rewrite Qpower_plus by apply two_neq0. rewrite inject_Z_mult. change (2 ^ 1)%Q with 2%Q.
    change (inject_Z 2) with 2%Q. ring. }
  assert (Hv' : (fval m3 e3 == W \/ fval m3 e3 == W + A)%Q).
  { destruct Hm2 as [->| ->]; [left; exact Hv|right]. rewrite Hv, inject_Z_plus. unfold W.
    change (inject_Z 1) with 1%Q. ring. }
  unfold close. destruct Hv' as [Hv'|Hv']; rewrite Hv'; split; lra.
Qed.

(* ---- f_of_Z on 1 .. 2^53-1 is exact --------------------------------------------------------- *)
Lemma shl_align_spec : forall p e e', e' <= e ->
  exists mz, shl_align p e e' = (mz, e') /\ Z.pos mz = Z.pos p * 2 ^ (e - e').
Proof.
  intros p e e' H. unfold shl_align. destruct (e' - e) as [|k|k] eqn:E; [|lia|].
  - assert (e' = e) by lia. subst e'. exists p. rewrite Z.sub_diag, Z.pow_0_r. split; [reflexivity|lia].
  - exists (shift_pos k p). split; [reflexivity|]. rewrite Zpower.shift_pos_correct.
    replace (e - e') with (Z.pos k) by lia. change (Z.pow_pos 2 k) with (2 ^ Z.pos k). ring.
Qed.

Lemma f_of_Z_spec : forall z, 0 < z < 2 ^ 53 ->
  exists m e, normal (f_of_Z z) m e /\ -52 <= e <= 0 /\ Z.pos m = z * 2 ^ (- e)
              /\ (fval m e == inject_Z z)%Q.
Proof.
  intros z Hz. destruct z as [|p|p]; [lia| |lia].
  unfold f_of_Z, f_of_dyadic, binary_normalize, binary_round.
  pose proof (digits2_pos_spec p) as Hd. set (d := Z.pos (digits2_pos p)) in *.
  assert (Hd53 : d <= 53).
  { destruct (Z.le_gt_cases d 53) as [L|G]; [exact L|exfalso].
    assert (2 ^ 53 <= 2 ^ (d - 1)) by (apply Z.pow_le_mono_r; lia). lia. }
  assert (Hd1 : 1 <= d) by (unfold d; lia).
  rewrite Z.add_0_r, fexp_normal by lia.
  destruct (shl_align_spec p 0 (d - 53) ltac:(lia)) as (mz & Es & Hmz). rewrite Es. cbv iota beta.
  replace (0 - (d - 53)) with (53 - d) in Hmz by lia.
  assert (Hmzb : 2 ^ 52 <= Z.pos mz < 2 ^ 53).
  { rewrite Hmz. pose proof (pow2_pos (53 - d) ltac:(lia)) as Hk.
    assert (E1 : 2 ^ 52 = 2 ^ (d - 1) * 2 ^ (53 - d)) by (rewrite <- Z.pow_add_r by lia; f_equal; lia).
    assert (E2 : 2 ^ 53 = 2 ^ d * 2 ^ (53 - d)) by (rewrite <- Z.pow_add_r by lia; f_equal; lia).
    rewrite E1, E2. split; [apply Z.mul_le_mono_nonneg_r; lia|apply Z.mul_lt_mono_pos_r; lia]. }
  assert (Edz : Z.pos (digits2_pos mz) = 53) by (apply digits_unique; [change (53 - 1) with 52; lia|lia]).
  destruct (bra_spec false mz (d - 53) loc_Exact) as (m3 & e3 & m2 & E & _ & Hm2 & Hm3 & He3 & _);
    [lia|lia|lia|].
  rewrite Edz in Hm2, He3. change (53 - 53) with 0 in Hm2, He3. rewrite Z.pow_0_r, Z.div_1_r in Hm2.
  specialize (Hm2 eq_refl (Z.mod_1_r _)).
  assert (Hres : e3 = d - 53 /\ m3 = mz).
  { destruct He3 as [[-> Hm]|[_ Hm]]; [split; [lia|]; congruence|lia]. }
  destruct Hres as [-> ->]. exists mz, (d - 53). split; [split; [exact E|exact Hmzb]|].
  split; [lia|]. replace (- (d - 53)) with (53 - d) by lia. split; [exact Hmz|].
  unfold fval. rewrite Hmz, inject_Z_mult. replace (d - 53) with (- (53 - d)) by lia.
  rewrite Qpower_opp, <- (qpow_inj (53 - d)) by lia. field. apply Qpower_not_0, two_neq0.
Qed.

(* ---- fmul ---------------------------------------------------------------------------------- *)
Lemma Qle_of_eq : forall a b : Q, (a == b)%Q -> (a <= b)%Q.
Proof. intros a b E. rewrite E. apply Qle_refl. Qed.

Lemma fmul_spec : forall a b ma ea mb eb,
  normal a ma ea -> normal b mb eb -> -400 <= ea <= 400 -> -400 <= eb <= 400 ->
  exists m e, normal (fmul a b) m e /\ ea + eb + 52 <= e <= ea + eb + 54
              /\ close (fval ma ea * fval mb eb) (fval m e).
Proof.
  intros a b ma ea mb eb [-> Ha] [-> Hb] Hea Heb. unfold fmul, SFmul. cbn [xorb].
  assert (HP : 2 ^ 104 <= Z.pos (ma * mb) < 2 ^ 106).
  { rewrite Pos2Z.inj_mul. change (2 ^ 104) with (2 ^ 52 * 2 ^ 52). change (2 ^ 106) with (2 ^ 53 * 2 ^ 53).
    split; [apply Z.mul_le_mono_nonneg; lia|apply Z.mul_lt_mono_nonneg; lia]. }
  pose proof (digits2_pos_spec (ma * mb)) as Hd. set (d := Z.pos (digits2_pos (ma * mb))) in *.
  assert (Hd1 : 105 <= d <= 106).
  { assert (0 < d) by (unfold d; lia). split.
    - assert (104 < d) by (apply pow2_lt_inv; lia). lia.
    - assert (d - 1 < 106) by (apply pow2_lt_inv; lia). lia. }
  assert (Ex : (inject_Z (Z.pos (ma * mb)) * 2 ^ (ea + eb) == fval ma ea * fval mb eb)%Q).
  { unfold fval. rewrite Pos2Z.inj_mul, inject_Z_mult, Qpower_plus by apply two_neq0. ring. }
  destruct (bra_value false (ma * mb) (ea + eb) loc_Exact (fval ma ea * fval mb eb)%Q) as (m & e & E & Hm & He & Hc);
    fold d; try lia.
  - apply Qle_of_eq. exact Ex.
  - rewrite <- Ex. apply Qmult_le_compat_r; [rewrite <- Zle_Qle; lia|apply Qlt_le_weak, qpow_pos].
  - exists m, e. split; [split; [exact E|exact Hm]|]. split; [fold d in He; lia|exact Hc].
Qed.

(* ---- fdiv ---------------------------------------------------------------------------------- *)
Lemma new_location_0 : forall nb, new_location nb 0 = loc_Exact.
Proof. intros nb. unfold new_location, new_location_even, new_location_odd. destruct (Z.even nb); reflexivity. Qed.

Lemma normal_digits : forall m, 2 ^ 52 <= Z.pos m < 2 ^ 53 -> Z.pos (digits2_pos m) = 53.
Proof. intros m H. apply digits_unique; [change (53 - 1) with 52; exact H|lia]. Qed.

(* the quotient handed to binary_round_aux *)
Lemma fdiv_core : forall a b ma ea mb eb,
  normal a ma ea -> normal b mb eb -> -400 <= ea <= 400 -> -400 <= eb <= 400 ->
  exists pq r,
    Z.pos ma * 2 ^ 53 = Z.pos mb * Z.pos pq + r /\ 0 <= r < Z.pos mb
    /\ 2 ^ 52 <= Z.pos pq < 2 ^ 54
    /\ fdiv a b = binary_round_aux prec emax false (Z.pos pq) (ea - eb - 53) (new_location (Z.pos mb) r).
Proof.
  intros a b ma ea mb eb [-> Ha] [-> Hb] Hea Heb. unfold fdiv, SFdiv, SFdiv_core_binary. cbn [xorb Zdigits2].
  rewrite (normal_digits ma Ha), (normal_digits mb Hb).
  rewrite fexp_normal by lia.
  replace (Z.min (53 + ea - (53 + eb) - 53) (ea - eb)) with (ea - eb - 53) by lia.
  replace (ea - eb - (ea - eb - 53)) with 53 by lia. cbv zeta.
  change (match 53 with 0 => Z.pos ma | Z.pos _ => Z.shiftl (Z.pos ma) 53 | Z.neg _ => 0 end)
    with (Z.shiftl (Z.pos ma) 53).
  rewrite Z.shiftl_mul_pow2 by lia.
  pose proof (Z.div_eucl_eq (Z.pos ma * 2 ^ 53) (Z.pos mb) ltac:(lia)) as Eq.
  pose proof (Z.mod_pos_bound (Z.pos ma * 2 ^ 53) (Z.pos mb) ltac:(lia)) as Hr.
  unfold Z.modulo in Hr. destruct (Z.div_eucl (Z.pos ma * 2 ^ 53) (Z.pos mb)) as [qq r].
  assert (Hq : 2 ^ 52 <= qq < 2 ^ 54).
  { change (2 ^ 54) with (2 ^ 1 * 2 ^ 53) in *. change (2 ^ 53) with (2 ^ 1 * 2 ^ 52) in Ha, Hb, Eq |- *.
    set (T := 2 ^ 52) in *. change (2 ^ 1) with 2 in *. nia. }
  destruct qq as [|pq|pq]; [lia| |lia]. exists pq, r. repeat split; lia.
Qed.

Lemma fdiv_spec : forall a b ma ea mb eb,
  normal a ma ea -> normal b mb eb -> -400 <= ea <= 400 -> -400 <= eb <= 400 ->
  exists m e, normal (fdiv a b) m e /\ ea - eb - 53 <= e <= ea - eb - 51
              /\ close (fval ma ea / fval mb eb) (fval m e).
Proof.
  intros a b ma ea mb eb Na Nb Hea Heb.
  destruct (fdiv_core a b ma ea mb eb Na Nb Hea Heb) as (pq & r & Eq & Hr & Hq & E). rewrite E.
  destruct Na as [_ Ha]. destruct Nb as [_ Hb].
  pose proof (digits2_pos_spec pq) as Hd. set (d := Z.pos (digits2_pos pq)) in *.
  assert (Hd1 : 53 <= d <= 54).
  { assert (0 < d) by (unfold d; lia). split.
    - assert (52 < d) by (apply pow2_lt_inv; lia). lia.
    - assert (d - 1 < 54) by (apply pow2_lt_inv; lia). lia. }
  set (x := (fval ma ea / fval mb eb)%Q).
  assert (HB : (0 < inject_Z (Z.pos mb))%Q) by (change 0%Q with (inject_Z 0); rewrite <- Zlt_Qlt; lia).
  assert (Ex : (x == inject_Z (Z.pos ma * 2 ^ 53) / inject_Z (Z.pos mb) * 2 ^ (ea - eb - 53))%Q).
  { unfold x, fval. replace (ea - eb - 53) with (ea + (- eb + - (53))) by lia.
    rewrite !Qpower_plus, !Qpower_opp by apply two_neq0. rewrite inject_Z_mult, (qpow_inj 53) by lia.
    field. repeat split; try (apply Qpower_not_0, two_neq0); try (intro H0; rewrite H0 in HB; discriminate HB).
    rewrite <- (qpow_inj 53) by lia. apply Qpower_not_0, two_neq0. }
  destruct (bra_value false pq (ea - eb - 53) (new_location (Z.pos mb) r) x) as (m & e & E' & Hm & He & Hc);
    fold d; try lia.
  - rewrite Ex. apply Qmult_le_compat_r; [|apply Qlt_le_weak, qpow_pos].
    apply Qle_shift_div_l; [exact HB|]. rewrite <- inject_Z_mult, <- Zle_Qle. lia.
  - rewrite Ex. apply Qmult_le_compat_r; [|apply Qlt_le_weak, qpow_pos].
    apply Qle_shift_div_r; [exact HB|]. rewrite <- inject_Z_mult, <- Zle_Qle. lia.
  - exists m, e. split; [split; [exact E'|exact Hm]|]. split; [fold d in He; lia|exact Hc].
Qed.

(* ============================================================================================ *)
(* D — floor, round half even                                                                     *)
(* ============================================================================================ *)
Ltac push_inj H :=
  unfold Z.sub in H;
  repeat (rewrite inject_Z_plus in H || rewrite inject_Z_mult in H || rewrite inject_Z_opp in H);
  change (inject_Z 2) with 2%Q in H; change (inject_Z 1) with 1%Q in H.

Lemma val_neg_exp : forall m e, e < 0 -> (fval m e == inject_Z (Z.pos m) / inject_Z (2 ^ (- e)))%Q.
Proof.
  intros m e He. unfold fval. replace e with (- (- e)) at 1 by lia.
  rewrite Qpower_opp, (qpow_inj (- e)) by lia. reflexivity.
Qed.

Lemma val_pos_exp : forall m e, 0 <= e -> (fval m e == inject_Z (Z.pos m * 2 ^ e))%Q.
Proof. intros m e He. unfold fval. rewrite inject_Z_mult, (qpow_inj e) by lia. reflexivity. Qed.

Lemma f_floor_spec : forall m e, exists j,
  f_floor (S754_finite false m e) = Some j /\ (inject_Z j <= fval m e)%Q /\ (fval m e < inject_Z j + 1)%Q.
Proof.
  intros m e. unfold f_floor. destruct (0 <=? e) eqn:Ee.
  - exists (Z.pos m * 2 ^ e). split; [reflexivity|]. rewrite val_pos_exp by lia. split; [apply Qle_refl|lra].
  - exists (Z.pos m / 2 ^ (- e)). split; [reflexivity|]. rewrite val_neg_exp by lia.
    pose proof (pow2_pos (- e) ltac:(lia)) as HD. set (D := 2 ^ (- e)) in *.
    destruct (div_spec (Z.pos m) D HD) as [D1 D2]. set (j := Z.pos m / D) in *.
    assert (HDq : (0 < inject_Z D)%Q) by (change 0%Q with (inject_Z 0); rewrite <- Zlt_Qlt; lia).
    split.
    + apply Qle_shift_div_l; [exact HDq|]. rewrite <- inject_Z_mult, <- Zle_Qle. lia.
    + apply Qlt_shift_div_r; [exact HDq|]. change 1%Q with (inject_Z 1).
      rewrite <- inject_Z_plus, <- inject_Z_mult, <- Zlt_Qlt. lia.
Qed.

Lemma rhe_spec : forall m e, exists r,
  f_round_half_even (S754_finite false m e) = Some r
  /\ (fval m e <= inject_Z r + (1 # 2))%Q /\ (inject_Z r - (1 # 2) <= fval m e)%Q.
Proof.
  intros m e. unfold f_round_half_even. destruct (0 <=? e) eqn:Ee.
  - exists (Z.pos m * 2 ^ e). split; [reflexivity|]. rewrite val_pos_exp by lia. split; lra.
  - pose proof (pow2_pos (- e) ltac:(lia)) as HD. set (D := 2 ^ (- e)) in *.
    pose proof (Z.div_mod (Z.pos m) D ltac:(lia)) as Edm.
    pose proof (Z.mod_pos_bound (Z.pos m) D HD) as Hrem.
    set (qq := Z.pos m / D) in *. set (rem := Z.pos m mod D) in *.
    eexists. split; [reflexivity|]. cbv zeta.
    set (r := if 2 * rem <? D then qq else if D <? 2 * rem then qq + 1 else if Z.even qq then qq else qq + 1).
    assert (Hr : 2 * Z.pos m <= (2 * r + 1) * D /\ (2 * r - 1) * D <= 2 * Z.pos m).
    { unfold r. destruct (2 * rem <? D) eqn:E1; [nia|]. destruct (D <? 2 * rem) eqn:E2; [nia|].
      destruct (Z.even qq); nia. }
    clearbody r. rewrite val_neg_exp by lia. fold D.
    assert (HDq : (0 < inject_Z D)%Q) by (change 0%Q with (inject_Z 0); rewrite <- Zlt_Qlt; lia).
    destruct Hr as [H1 H2]. rewrite Zle_Qle in H1, H2. push_inj H1. push_inj H2.
    split.
    + apply Qle_shift_div_r; [exact HDq|]. lra.
    + apply Qle_shift_div_l; [exact HDq|]. lra.
Qed.

(* ---- relative enclosures compose ----------------------------------------------------------- *)
Definition within (cl ch x v : Q) : Prop := (cl * x <= v /\ v <= ch * x)%Q.

Definition c0 : Q := 4503599627370495 # 4503599627370496.   (* 1 - 2^-52 *)
Definition c1 : Q := 4503599627370497 # 4503599627370496.   (* 1 + 2^-52 *)

Lemma close_within : forall x v, close x v -> within c0 c1 x v.
Proof. intros x v [H1 H2]. unfold within, c0, c1. split; lra. Qed.

Lemma within_scale : forall cl ch x v k, within cl ch x v -> (0 <= k)%Q -> within cl ch (k * x) (k * v).
Proof.
  intros cl ch x v k [H1 H2] Hk. unfold within.
  assert (A1 : (cl * x * k <= v * k)%Q) by (apply Qmult_le_compat_r; assumption).
  assert (A2 : (v * k <= ch * x * k)%Q) by (apply Qmult_le_compat_r; assumption).
  split; lra.
Qed.

Lemma within_trans : forall a b c d x v w, within a b x v -> within c d v w ->
  (0 <= c)%Q -> (0 <= d)%Q -> within (a * c) (b * d) x w.
Proof.
  intros a b c d x v w [H1 H2] [H3 H4] Hc Hd. unfold within.
  assert (A1 : (a * x * c <= v * c)%Q) by (apply Qmult_le_compat_r; assumption).
  assert (A2 : (v * d <= b * x * d)%Q) by (apply Qmult_le_compat_r; assumption).
  split; lra.
Qed.

Lemma within_eq : forall cl ch x x' v, (x == x')%Q -> within cl ch x v -> within cl ch x' v.
Proof. intros cl ch x x' v E. unfold within. rewrite E. tauto. Qed.

Lemma injZ_pos : forall z, 0 < z -> (0 < inject_Z z)%Q.
Proof. intros z H. change 0%Q with (inject_Z 0). rewrite <- Zlt_Qlt. exact H. Qed.

Lemma injZ_nonneg : forall z, 0 <= z -> (0 <= inject_Z z)%Q.
Proof. intros z H. change 0%Q with (inject_Z 0). rewrite <- Zle_Qle. exact H. Qed.

(* ============================================================================================ *)
(* E — q_position, new_q_of                                                                       *)
(* ============================================================================================ *)
Lemma f_of_Z_0 : f_of_Z 0 = S754_zero false.
Proof. reflexivity. Qed.

(* fl(fl(i * fl(1/nq))): a positive float within (1 -+ 2^-52)^2 of i/nq *)
Lemma frac_spec : forall i nq, 0 < nq < 2 ^ 53 -> 0 < i < 2 ^ 53 ->
  exists m e, normal (fmul (f_of_Z i) (fdivZ 1 nq)) m e /\ -200 <= e <= 200
    /\ within (c0 * c0) (c1 * c1) (inject_Z i * (1 / inject_Z nq))%Q (fval m e).
Proof.
  intros i nq Hnq Hi.
  destruct (f_of_Z_spec 1 ltac:(cbn; lia)) as (m1 & e1 & N1 & He1 & _ & V1).
  destruct (f_of_Z_spec nq Hnq) as (mq & eq & Nq & Heq & _ & Vq).
  destruct (f_of_Z_spec i Hi) as (mi & ei & Ni & Hei & _ & Vi).
  unfold fdivZ.
  destruct (fdiv_spec _ _ _ _ _ _ N1 Nq ltac:(lia) ltac:(lia)) as (mr & er & Nr & Her & Cr).
  destruct (fmul_spec _ _ _ _ _ _ Ni Nr ltac:(lia) ltac:(lia)) as (mt & et & Nt & Het & Ct).
  exists mt, et. split; [exact Nt|]. split; [lia|].
  apply close_within in Cr. apply close_within in Ct.
  apply (within_eq _ _ _ (1 / inject_Z nq)%Q) in Cr; [|rewrite V1, Vq; reflexivity].
  apply (within_eq _ _ _ (inject_Z i * fval mr er)%Q) in Ct; [|rewrite Vi; reflexivity].
  pose proof (within_scale _ _ _ _ (inject_Z i) Cr (injZ_nonneg i ltac:(lia))) as S1.
  refine (within_trans _ _ _ _ _ _ _ S1 Ct _ _); unfold c0, c1; lra.
Qed.

Lemma q_position_near : forall n nq i j,
  1 <= n -> n - 1 < 2 ^ 50 -> 1 < nq < 2 ^ 53 -> 1 <= i < nq ->
  q_position n nq i = Some j -> near 1 n nq i j.
Proof.
  intros n nq i j Hn1 Hn2 Hnq Hi H. unfold q_position in H.
  destruct (frac_spec i nq ltac:(lia) ltac:(lia)) as (mt & et & Nt & Het & Wt).
  destruct (Z.eq_dec n 1) as [->|Hne].
  - (* a single row: position 0 *)
    destruct Nt as [Et _]. change (1 - 1) with 0 in H. rewrite f_of_Z_0, Et in H. cbn in H.
    injection H as <-. unfold near. lia.
  - destruct (f_of_Z_spec (n - 1) ltac:(change (2 ^ 53) with (8 * 2 ^ 50); lia)) as (ma & ea & Na & Hea & _ & Va).
    destruct (fmul_spec _ _ _ _ _ _ Na Nt ltac:(lia) ltac:(lia)) as (my & ey & [Ey _] & _ & Cy).
    rewrite Ey in H. destruct (f_floor_spec my ey) as (j' & Ej & J1 & J2). rewrite Ej in H. injection H as ->.
    apply close_within in Cy.
    apply (within_eq _ _ _ (inject_Z (n - 1) * fval mt et)%Q) in Cy; [|rewrite Va; reflexivity].
    pose proof (within_scale _ _ _ _ (inject_Z (n - 1)) Wt (injZ_nonneg (n - 1) ltac:(lia))) as S1.
    assert (W : within (c0 * c0 * c0) (c1 * c1 * c1)
                       (inject_Z (n - 1) * (inject_Z i * (1 / inject_Z nq)))%Q (fval my ey)).
    { refine (within_trans _ _ _ _ _ _ _ S1 Cy _ _); unfold c0, c1; lra. }
    clear S1 Cy Wt. set (v := fval my ey) in *.
    pose proof (injZ_pos nq ltac:(lia)) as HNQ.
    set (X := (inject_Z (n - 1) * (inject_Z i * (1 / inject_Z nq)))%Q) in *.
    assert (EX : (X * inject_Z nq == inject_Z ((n - 1) * i))%Q).
    { unfold X. rewrite inject_Z_mult. field. intro E0. rewrite E0 in HNQ. discriminate HNQ. }
    assert (HX0 : (0 <= X)%Q).
    { unfold X. apply Qmult_le_0_compat; [apply injZ_nonneg; lia|].
      apply Qmult_le_0_compat; [apply injZ_nonneg; lia|]. apply Qlt_le_weak, Qlt_shift_div_l; [exact HNQ|lra]. }
    assert (HX1 : (X <= 1125899906842624)%Q).
    { (* X * nq = (n-1)*i <= (n-1)*nq *)
      apply (Qmult_le_r _ _ (inject_Z nq) HNQ). rewrite EX.
      change 1125899906842624%Q with (inject_Z (2 ^ 50)). rewrite <- inject_Z_mult, <- Zle_Qle. nia. }
    destruct W as [W1 W2]. unfold c0, c1 in W1, W2.
    assert (U1 : (inject_Z j < X + 1)%Q) by lra.
    assert (U2 : (X < inject_Z j + 2)%Q) by lra.
    apply (Qmult_lt_r _ _ (inject_Z nq) HNQ) in U1. apply (Qmult_lt_r _ _ (inject_Z nq) HNQ) in U2.
    setoid_replace ((X + 1) * inject_Z nq)%Q with (X * inject_Z nq + inject_Z nq)%Q in U1 by ring.
    rewrite EX in U1, U2. change 2%Q with (inject_Z 2) in U2.
    rewrite <- inject_Z_plus, <- inject_Z_mult, <- Zlt_Qlt in U1, U2.
    unfold near. lia.
Qed.

(* new_q = round(fl(fl(n/N) * q)) *)
Lemma new_q_spec : forall q N n nq,
  0 < q <= 2 ^ 50 -> 0 < n <= N -> N <= 2 ^ 50 -> new_q_of q N n = Some nq ->
  2 * n * q * 2 ^ 50 <= (2 * nq + 1) * N * (2 ^ 50 + 1) /\ nq < 2 ^ 53.
Proof.
  intros q N n nq Hq Hn HN H. unfold new_q_of, fdivZ in H.
  destruct (f_of_Z_spec n ltac:(change (2 ^ 53) with (8 * 2 ^ 50); lia)) as (mn & en & Nn & Hen & _ & Vn).
  destruct (f_of_Z_spec N ltac:(change (2 ^ 53) with (8 * 2 ^ 50); lia)) as (mN & eN & NN & HeN & _ & VN).
  destruct (f_of_Z_spec q ltac:(change (2 ^ 53) with (8 * 2 ^ 50); lia)) as (mq & eq & Nq & Heq & _ & Vq).
  destruct (fdiv_spec _ _ _ _ _ _ Nn NN ltac:(lia) ltac:(lia)) as (md & ed & Nd & Hed & Cd).
  destruct (fmul_spec _ _ _ _ _ _ Nd Nq ltac:(lia) ltac:(lia)) as (my & ey & [Ey _] & _ & Cy).
  rewrite Ey in H. destruct (rhe_spec my ey) as (r & Er & R1 & R2). rewrite Er in H. injection H as ->.
  apply close_within in Cd. apply close_within in Cy.
  apply (within_eq _ _ _ (inject_Z n / inject_Z N)%Q) in Cd; [|rewrite Vn, VN; reflexivity].
  apply (within_eq _ _ _ (inject_Z q * fval md ed)%Q) in Cy; [|rewrite Vq; ring].
  pose proof (within_scale _ _ _ _ (inject_Z q) Cd (injZ_nonneg q ltac:(lia))) as S1.
  assert (W : within (c0 * c0) (c1 * c1) (inject_Z q * (inject_Z n / inject_Z N))%Q (fval my ey)).
  { refine (within_trans _ _ _ _ _ _ _ S1 Cy _ _); unfold c0, c1; lra. }
  clear S1 Cd Cy. set (v := fval my ey) in *.
  pose proof (injZ_pos N ltac:(lia)) as HNN.
  set (X := (inject_Z q * (inject_Z n / inject_Z N))%Q) in *.
  assert (EX : (X * inject_Z N == inject_Z (q * n))%Q).
  { unfold X. rewrite inject_Z_mult. field. intro E0. rewrite E0 in HNN. discriminate HNN. }
  assert (HX0 : (0 <= X)%Q).
  { unfold X. apply Qmult_le_0_compat; [apply injZ_nonneg; lia|].
    apply Qlt_le_weak, Qlt_shift_div_l; [exact HNN|]. rewrite Qmult_0_l. apply injZ_pos. lia. }
  assert (HX1 : (X <= 1125899906842624)%Q).
  { apply (Qmult_le_r _ _ (inject_Z N) HNN). rewrite EX.
    change 1125899906842624%Q with (inject_Z (2 ^ 50)). rewrite <- inject_Z_mult, <- Zle_Qle. nia. }
  destruct W as [W1 W2]. unfold c0, c1 in W1, W2. split.
  - assert (U : (2 * X * 1125899906842624 <= (2 * inject_Z nq + 1) * 1125899906842625)%Q) by lra.
    apply (Qmult_le_r _ _ (inject_Z N) HNN) in U.
    setoid_replace (2 * X * 1125899906842624 * inject_Z N)%Q
      with (2 * (X * inject_Z N) * 1125899906842624)%Q in U by ring.
    rewrite EX in U. change 1125899906842624%Q with (inject_Z (2 ^ 50)) in U.
    change 1125899906842625%Q with (inject_Z (2 ^ 50 + 1)) in U.
    change 2%Q with (inject_Z 2) in U. change 1%Q with (inject_Z 1) in U.
    rewrite <- ?inject_Z_mult, <- ?inject_Z_plus, <- ?inject_Z_mult in U.
    rewrite <- Zle_Qle in U. lia.
  - assert (U : (inject_Z nq < 9007199254740992)%Q) by lra.
    change 9007199254740992%Q with (inject_Z (2 ^ 53)) in U. rewrite <- Zlt_Qlt in U. exact U.
Qed.

(* ---- the threshold comparison --------------------------------------------------------------- *)
Lemma scale_eq : forall a e e0, e0 <= e -> (inject_Z a * 2 ^ e == inject_Z (a * 2 ^ (e - e0)) * 2 ^ e0)%Q.
Proof.
  intros a e e0 H. replace e with ((e - e0) + e0) at 1 by lia.
  rewrite Qpower_plus by apply two_neq0. rewrite inject_Z_mult, (qpow_inj (e - e0)) by lia. ring.
Qed.

Lemma cmp_le_common : forall a b ea eb e0, e0 <= ea -> e0 <= eb ->
  (inject_Z a * 2 ^ ea <= inject_Z b * 2 ^ eb)%Q -> a * 2 ^ (ea - e0) <= b * 2 ^ (eb - e0).
Proof.
  intros a b ea eb e0 Ha Hb H. rewrite (scale_eq a ea e0 Ha), (scale_eq b eb e0 Hb) in H.
  apply (proj1 (Qmult_le_r _ _ _ (qpow_pos e0))) in H. rewrite <- Zle_Qle in H. exact H.
Qed.

Lemma cmp_lt_common : forall a b ea eb e0, e0 <= ea -> e0 <= eb ->
  (inject_Z a * 2 ^ ea < inject_Z b * 2 ^ eb)%Q -> a * 2 ^ (ea - e0) < b * 2 ^ (eb - e0).
Proof.
  intros a b ea eb e0 Ha Hb H. rewrite (scale_eq a ea e0 Ha), (scale_eq b eb e0 Hb) in H.
  apply (proj1 (Qmult_lt_r _ _ _ (qpow_pos e0))) in H. rewrite <- Zlt_Qlt in H. exact H.
Qed.

Lemma le_common_cmp : forall a b ea eb e0, e0 <= ea -> e0 <= eb ->
  a * 2 ^ (ea - e0) <= b * 2 ^ (eb - e0) -> (inject_Z a * 2 ^ ea <= inject_Z b * 2 ^ eb)%Q.
Proof.
  intros a b ea eb e0 Ha Hb H. rewrite (scale_eq a ea e0 Ha), (scale_eq b eb e0 Hb).
  apply Qmult_le_compat_r; [rewrite <- Zle_Qle; exact H|apply Qlt_le_weak, qpow_pos].
Qed.

Lemma pow2_ge2 : forall k, 1 <= k -> 2 <= 2 ^ k.
Proof. intros k H. change 2 with (2 ^ 1) at 1. apply Z.pow_le_mono_r; lia. Qed.

(* comparison of two positive floats with 53-bit mantissas *)
Lemma fleb_of_val_le : forall a b ma ea mb eb,
  normal a ma ea -> normal b mb eb -> (fval ma ea <= fval mb eb)%Q -> fleb a b = true.
Proof.
  intros a b ma ea mb eb [-> Ha] [-> Hb] H. unfold fleb, SFleb, SFcompare, fval in *.
  destruct (Z.compare_spec ea eb) as [E|L|G].
  - subst eb. apply (cmp_le_common _ _ ea ea ea) in H; [|lia|lia]. rewrite Z.sub_diag, Z.pow_0_r in H.
    change (Pos.compare_cont Eq ma mb) with (Pos.compare ma mb).
    destruct (Pos.compare_spec ma mb); try reflexivity. lia.
  - reflexivity.
  - exfalso. apply (cmp_le_common _ _ ea eb eb) in H; [|lia|lia]. rewrite Z.sub_diag, Z.pow_0_r in H.
    pose proof (pow2_ge2 (ea - eb) ltac:(lia)) as HP. change (2 ^ 53) with (2 ^ 52 * 2) in *. nia.
Qed.

(* the next float after m1*2^e1 *)
Lemma grid_succ : forall m1 e1 mc ec, 2 ^ 52 <= m1 < 2 ^ 53 -> 2 ^ 52 <= mc < 2 ^ 53 ->
  (inject_Z m1 * 2 ^ e1 < inject_Z mc * 2 ^ ec)%Q -> (inject_Z (m1 + 1) * 2 ^ e1 <= inject_Z mc * 2 ^ ec)%Q.
Proof.
  intros m1 e1 mc ec H1 Hc H. destruct (Z.lt_trichotomy ec e1) as [L|[E|G]].
  - exfalso. apply (cmp_lt_common _ _ e1 ec ec) in H; [|lia|lia]. rewrite Z.sub_diag, Z.pow_0_r in H.
    pose proof (pow2_ge2 (e1 - ec) ltac:(lia)) as HP. change (2 ^ 53) with (2 ^ 52 * 2) in *. nia.
  - subst ec. apply (cmp_lt_common _ _ e1 e1 e1) in H; [|lia|lia]. rewrite Z.sub_diag, Z.pow_0_r in H.
    apply (le_common_cmp _ _ e1 e1 e1); [lia|lia|]. rewrite Z.sub_diag, Z.pow_0_r. lia.
  - apply (le_common_cmp _ _ e1 ec e1); [lia|lia|]. rewrite Z.sub_diag, Z.pow_0_r.
    pose proof (pow2_ge2 (ec - e1) ltac:(lia)) as HP. change (2 ^ 53) with (2 ^ 52 * 2) in *. nia.
Qed.

Lemma quot_value : forall ma ea mb eb,
  (fval ma ea / fval mb eb == inject_Z (Z.pos ma * 2 ^ 53) / inject_Z (Z.pos mb) * 2 ^ (ea - eb - 53))%Q.
Proof.
  intros ma ea mb eb. unfold fval.
  assert (HB : (0 < inject_Z (Z.pos mb))%Q) by (apply injZ_pos; lia).
  replace (ea - eb - 53) with (ea + (- eb + - (53))) by lia.
  rewrite !Qpower_plus, !Qpower_opp by apply two_neq0. rewrite inject_Z_mult, (qpow_inj 53) by lia.
  field. repeat split; try (apply Qpower_not_0, two_neq0); try (intro H0; rewrite H0 in HB; discriminate HB).
  rewrite <- (qpow_inj 53) by lia. apply Qpower_not_0, two_neq0.
Qed.

(* a count that is not >= fl(N/q) is < N/q *)
Lemma thr_spec : forall N q c, 0 < N < 2 ^ 53 -> 0 < q < 2 ^ 53 -> 0 < c < 2 ^ 53 ->
  is_freq (thr N q) c = false -> c * q < N.
Proof.
  intros N q c HN Hq Hc H. destruct (Z.lt_ge_cases (c * q) N) as [L|G]; [exact L|exfalso].
  unfold is_freq, thr, fdivZ in H.
  destruct (f_of_Z_spec N HN) as (mN & eN & NN & HeN & _ & VN).
  destruct (f_of_Z_spec q Hq) as (mq & eq & Nq & Heq & _ & Vq).
  destruct (f_of_Z_spec c Hc) as (mc & ec & Nc & Hec & _ & Vc).
  destruct (fdiv_core _ _ _ _ _ _ NN Nq ltac:(lia) ltac:(lia)) as (pq & r & Eq & Hr & Hpq & E).
  rewrite E in H. clear E.
  pose proof (digits2_pos_spec pq) as Hd. set (d := Z.pos (digits2_pos pq)) in *.
  assert (Hd1 : 53 <= d <= 54).
  { assert (0 < d) by (unfold d; lia). split.
    - assert (52 < d) by (apply pow2_lt_inv; lia). lia.
    - assert (d - 1 < 54) by (apply pow2_lt_inv; lia). lia. }
  destruct (bra_spec false pq (eN - eq - 53) (new_location (Z.pos mq) r)) as (m3 & e3 & m2 & E & Hm2 & Hex & Hm3 & He3 & Hm1);
    fold d; try lia. fold d in Hm2, Hex, He3, Hm1.
  rewrite E in H.
  set (e' := eN - eq - 53) in *. set (k := d - 53) in *. set (m1 := Z.pos pq / 2 ^ k) in *. set (e1 := e' + k) in *.
  pose proof (pow2_pos k ltac:(unfold k; lia)) as Hk.
  destruct (div_spec (Z.pos pq) (2 ^ k) Hk) as [D1 D2]. fold m1 in D1, D2.
  set (A := (2 ^ e1)%Q).
  assert (EA : (A == 2 ^ e' * inject_Z (2 ^ k))%Q).
  { unfold A, e1. rewrite Qpower_plus by apply two_neq0. rewrite (qpow_inj k) by (unfold k; lia). reflexivity. }
  set (x := (inject_Z N / inject_Z q)%Q).
  pose proof (injZ_pos q ltac:(lia)) as HQ. pose proof (injZ_pos (Z.pos mq) ltac:(lia)) as HMQ.
  assert (Ex : (x == inject_Z (Z.pos mN * 2 ^ 53) / inject_Z (Z.pos mq) * 2 ^ e')%Q).
  { unfold x, e'. rewrite <- VN, <- Vq. apply quot_value. }
  (* W = m1*A <= pq*2^e' <= x <= c, one of the first two strict unless the quotient is exact *)
  assert (F1 : (inject_Z m1 * A <= inject_Z (Z.pos pq) * 2 ^ e')%Q).
  { rewrite EA. setoid_replace (inject_Z m1 * (2 ^ e' * inject_Z (2 ^ k)))%Q with (inject_Z (2 ^ k * m1) * 2 ^ e')%Q
      by (rewrite inject_Z_mult; ring).
    apply Qmult_le_compat_r; [rewrite <- Zle_Qle; lia|apply Qlt_le_weak, qpow_pos]. }
  assert (F2 : (inject_Z (Z.pos pq) * 2 ^ e' <= x)%Q).
  { rewrite Ex. apply Qmult_le_compat_r; [|apply Qlt_le_weak, qpow_pos].
    apply Qle_shift_div_l; [exact HMQ|]. rewrite <- inject_Z_mult, <- Zle_Qle. lia. }
  assert (F3 : (x <= fval mc ec)%Q).
  { rewrite Vc. unfold x. apply Qle_shift_div_r; [exact HQ|]. rewrite <- inject_Z_mult, <- Zle_Qle. lia. }
  assert (Hv : (fval m3 e3 == inject_Z m2 * A)%Q).
  { unfold fval, A. destruct He3 as [[-> ->]|[-> <-]]; [reflexivity|].
    rewrite Qpower_plus by apply two_neq0. rewrite inject_Z_mult. change (2 ^ 1)%Q with 2%Q.
    change (inject_Z 2) with 2%Q. ring. }
  assert (Goal : (fval m3 e3 <= fval mc ec)%Q).
  { rewrite Hv. destruct Hm2 as [->|Em2].
    - eapply Qle_trans; [exact F1|]. eapply Qle_trans; [exact F2|exact F3].
    - rewrite Em2. destruct Nc as [_ Hmc]. apply grid_succ; [exact Hm1|exact Hmc|]. fold A.
      destruct (Z.eq_dec r 0) as [Er|Nr].
      + destruct (Z.eq_dec (Z.pos pq mod 2 ^ k) 0) as [Em|Nm].
        * exfalso. subst r. specialize (Hex (new_location_0 _) Em). lia.
        * (* pq is not a multiple of 2^k: W < pq*2^e' *)
          assert (Hlt : 2 ^ k * m1 < Z.pos pq).
          { pose proof (Z.div_mod (Z.pos pq) (2 ^ k) ltac:(lia)) as Edm. fold m1 in Edm.
            pose proof (Z.mod_pos_bound (Z.pos pq) (2 ^ k) Hk). lia. }
          eapply Qlt_le_trans; [|eapply Qle_trans; [exact F2|exact F3]].
          rewrite EA. setoid_replace (inject_Z m1 * (2 ^ e' * inject_Z (2 ^ k)))%Q with (inject_Z (2 ^ k * m1) * 2 ^ e')%Q
            by (rewrite inject_Z_mult; ring).
          apply Qmult_lt_compat_r; [apply qpow_pos|rewrite <- Zlt_Qlt; exact Hlt].
      + (* non-zero remainder: pq*2^e' < x *)
        eapply Qle_lt_trans; [exact F1|]. eapply Qlt_le_trans; [|exact F3].
        rewrite Ex. apply Qmult_lt_compat_r; [apply qpow_pos|].
        apply Qlt_shift_div_l; [exact HMQ|]. rewrite <- inject_Z_mult, <- Zlt_Qlt. lia. }
  assert (Nt : normal (S754_finite false m3 e3) m3 e3) by (split; [reflexivity|exact Hm3]).
  destruct Nc as [Ec Hmc]. rewrite Ec in H.
  rewrite (fleb_of_val_le _ _ m3 e3 mc ec Nt (conj eq_refl Hmc) Goal) in H. discriminate.
Qed.

(* ============================================================================================ *)
(* F — the three premises hold in binary64 for len_df <= 2^50 and q <= 2^50                        *)
(* ============================================================================================ *)
Theorem positions_near_binary64 : forall q N tot,
  0 < q <= 2 ^ 50 -> tot <= N -> N <= 2 ^ 50 -> positions_near 1 q N tot.
Proof.
  intros q N tot Hq Htot HN n nq i j Hn Hnq Hnq1 Hi Hj.
  destruct (new_q_spec q N n nq Hq ltac:(lia) HN Hnq) as [_ Hlt].
  apply q_position_near; try lia. exact Hj.
Qed.

Theorem newq_near_binary64 : forall q N tot,
  0 < q <= 2 ^ 50 -> tot <= N -> N <= 2 ^ 50 -> newq_near (2 ^ 50) q N tot.
Proof.
  intros q N tot Hq Htot HN n nq Hn Hnq.
  destruct (new_q_spec q N n nq Hq ltac:(lia) HN Hnq) as [H _]. exact H.
Qed.

Lemma In_count_le_total : forall vc v c, Forall (fun p => 0 < snd p) vc -> In (v, c) vc -> c <= total vc.
Proof.
  induction vc as [|p t IH]; intros v c Hp Hin; [contradiction|]. inversion Hp as [|? ? Hp0 Hpt]; subst.
  rewrite total_cons. pose proof (total_nonneg t Hpt). destruct Hin as [->|Hin]; [cbn [snd]; lia|].
  specialize (IH v c Hpt Hin). lia.
Qed.

Theorem thr_exact_binary64 : forall q N vc,
  Forall (fun p => 0 < snd p) vc -> 0 < q <= 2 ^ 50 -> total vc <= N -> N <= 2 ^ 50 -> thr_exact q N vc.
Proof.
  intros q N vc Hp Hq Htot HN v c Hin Hf.
  pose proof (In_count_le_total vc v c Hp Hin) as Hc.
  assert (0 < c) by (rewrite Forall_forall in Hp; apply (Hp (v, c) Hin)).
  change (2 ^ 50) with 1125899906842624 in *.
  apply thr_spec; try (change (2 ^ 53) with 9007199254740992; lia); exact Hf.
Qed.

(* no premise about floats left: at most 2.25*len_df/q + 2 rows *)
Theorem bucket_bound_binary64 : forall dedup q len_df vc l,
  Sorted Z.lt (observed_values vc) -> Forall (fun p => 0 < snd p) vc -> total vc <= len_df ->
  len_df <= 2 ^ 50 -> 0 < q <= 2 ^ 50 ->
  find_quantiles_v dedup q len_df vc = QOk l ->
  forall lo hi, In (lo, hi) (bounds None l) ->
  (forall b c, hi = Some b -> In (b, c) vc -> is_freq (thr len_df q) c = false) ->
  4 * q * bucket_count vc lo hi <= 9 * len_df + 8 * q.
Proof.
  intros dedup q N vc l Hs Hp Htot HN Hq Hfq lo hi Hin Hnf.
  pose proof (C09_bucket_bound 1 (2 ^ 50) dedup q N vc l Hs Hp Htot ltac:(lia) ltac:(lia) ltac:(lia) HN
                (thr_exact_binary64 q N vc Hp Hq Htot HN)
                (newq_near_binary64 q N (total vc) Hq Htot HN)
                (positions_near_binary64 q N (total vc) Hq Htot HN) Hfq lo hi Hin Hnf) as H.
  lia.
Qed.

Corollary bucket_bound_2_5_binary64 : forall dedup q len_df vc l,
  Sorted Z.lt (observed_values vc) -> Forall (fun p => 0 < snd p) vc -> total vc <= len_df ->
  len_df <= 2 ^ 50 -> 0 < q -> 8 * q <= len_df ->
  find_quantiles_v dedup q len_df vc = QOk l ->
  forall lo hi, In (lo, hi) (bounds None l) ->
  (forall b c, hi = Some b -> In (b, c) vc -> is_freq (thr len_df q) c = false) ->
  2 * q * bucket_count vc lo hi <= 5 * len_df.
Proof.
  intros dedup q N vc l Hs Hp Htot HN Hq H8 Hfq lo hi Hin Hnf.
  pose proof (bucket_bound_binary64 dedup q N vc l Hs Hp Htot HN ltac:(lia) Hfq lo hi Hin Hnf). lia.
Qed.

Corollary bucket_bound_min_freq_binary64 : forall dedup mf q len_df vc l,
  Sorted Z.lt (observed_values vc) -> Forall (fun p => 0 < snd p) vc -> total vc <= len_df ->
  len_df <= 2 ^ 50 -> 0 < q <= 2 ^ 50 ->
  snd mf <= 0 -> (9 * len_df + 8 * q) * 2 ^ (- snd mf) <= 10 * q * fst mf * len_df ->
  find_quantiles_v dedup q len_df vc = QOk l ->
  forall lo hi, In (lo, hi) (bounds None l) ->
  (forall b c, hi = Some b -> In (b, c) vc -> is_freq (thr len_df q) c = false) ->
  2 * bucket_count vc lo hi * 2 ^ (- snd mf) <= 5 * fst mf * len_df.
Proof.
  intros dedup mf q N vc l Hs Hp Htot HN Hq Hx Hmf Hfq lo hi Hin Hnf.
  apply (C09_bucket_bound_min_freq 1 (2 ^ 50) dedup mf q N vc l Hs Hp Htot); try lia; try assumption.
  - apply thr_exact_binary64; assumption.
  - apply newq_near_binary64; assumption.
  - apply positions_near_binary64; assumption.
Qed.

Print Assumptions bucket_bound_binary64.
Print Assumptions bucket_bound_2_5_binary64.
Print Assumptions bucket_bound_min_freq_binary64.

(* ============================================================================================ *)
(* G — find_quantiles never fails on a well-formed aggregate (len_df, q <= 2^50)                   *)
(* ============================================================================================ *)
Lemma new_q_total : forall q N n, 0 < q <= 2 ^ 50 -> 0 < n <= N -> N <= 2 ^ 50 ->
  exists nq, new_q_of q N n = Some nq.
Proof.
  intros q N n Hq Hn HN. unfold new_q_of, fdivZ.
  destruct (f_of_Z_spec n ltac:(change (2 ^ 53) with (8 * 2 ^ 50); lia)) as (mn & en & Nn & Hen & _ & Vn).
  destruct (f_of_Z_spec N ltac:(change (2 ^ 53) with (8 * 2 ^ 50); lia)) as (mN & eN & NN & HeN & _ & VN).
  destruct (f_of_Z_spec q ltac:(change (2 ^ 53) with (8 * 2 ^ 50); lia)) as (mq & eq & Nq & Heq & _ & Vq).
  destruct (fdiv_spec _ _ _ _ _ _ Nn NN ltac:(lia) ltac:(lia)) as (md & ed & Nd & Hed & Cd).
  destruct (fmul_spec _ _ _ _ _ _ Nd Nq ltac:(lia) ltac:(lia)) as (my & ey & [Ey _] & _ & Cy).
  rewrite Ey. destruct (rhe_spec my ey) as (r & Er & _). exists r. exact Er.
Qed.

Lemma q_position_total : forall n nq i,
  1 <= n -> n - 1 < 2 ^ 50 -> 1 < nq < 2 ^ 53 -> 1 <= i < nq ->
  exists j, q_position n nq i = Some j /\ 0 <= j < n.
Proof.
  intros n nq i Hn1 Hn2 Hnq Hi.
  assert (Hex : exists j, q_position n nq i = Some j /\ 0 <= j).
  { unfold q_position.
    destruct (frac_spec i nq ltac:(lia) ltac:(lia)) as (mt & et & Nt & Het & Wt).
    destruct (Z.eq_dec n 1) as [->|Hne].
    - destruct Nt as [Et _]. change (1 - 1) with 0. rewrite f_of_Z_0, Et. cbn. exists 0. split; [reflexivity|lia].
    - destruct (f_of_Z_spec (n - 1) ltac:(change (2 ^ 53) with (8 * 2 ^ 50); lia)) as (ma & ea & Na & Hea & _ & Va).
      destruct (fmul_spec _ _ _ _ _ _ Na Nt ltac:(lia) ltac:(lia)) as (my & ey & [Ey _] & _ & Cy).
      rewrite Ey. destruct (f_floor_spec my ey) as (j & Ej & J1 & J2). exists j. split; [exact Ej|].
      pose proof (val_pos my ey) as Hv.
      assert (U : (inject_Z (-1) < inject_Z j)%Q) by (change (inject_Z (-1)) with (-1)%Q; lra).
      rewrite <- Zlt_Qlt in U. lia. }
  destruct Hex as (j & Ej & Hj). exists j. split; [exact Ej|]. split; [exact Hj|].
  destruct (q_position_near n nq i j Hn1 Hn2 Hnq Hi Ej) as [N1 _].
  destruct (Z.eq_dec n 1) as [->|Hne].
  - assert (nq * j <= nq * 1) by lia. assert (nq * j < nq * 1 \/ j = 1) as [L| ->] by nia.
    + apply lt_of_mul_lt in L; lia.
    + (* j = 1 is excluded by the computation: position 0 *)
      unfold q_position in Ej. destruct (frac_spec i nq ltac:(lia) ltac:(lia)) as (mt & et & [Et _] & _).
      change (1 - 1) with 0 in Ej. rewrite f_of_Z_0, Et in Ej. cbn in Ej. discriminate Ej.
  - assert (L : nq * j < nq * n) by nia. apply lt_of_mul_lt in L; lia.
Qed.

Lemma mapM_total : forall (A B : Type) (f : A -> qres B) l,
  (forall x, In x l -> exists y, f x = QOk y) -> exists ys, mapM f l = QOk ys.
Proof.
  intros A B f. induction l as [|x t IH]; intros H; [exists []; reflexivity|].
  destruct (H x (or_introl eq_refl)) as [y Ey]. destruct IH as [ys Eys]; [intros; apply H; right; assumption|].
  exists (y :: ys). cbn [mapM]. rewrite Ey, Eys. reflexivity.
Qed.

Lemma leaf_total : forall q N seg, wf_vc seg -> seg <> [] ->
  0 < q <= 2 ^ 50 -> total seg <= N -> N <= 2 ^ 50 -> exists r, leaf q N seg = QOk r.
Proof.
  intros q N seg Hwf Hne Hq Htot HN.
  assert (Hpos : Forall (fun p => 0 < snd p) seg) by (destruct Hwf; assumption).
  pose proof (total_pos seg Hpos Hne) as Hn.
  destruct (new_q_total q N (total seg) Hq ltac:(lia) HN) as [nq Enq].
  destruct (new_q_spec q N (total seg) nq Hq ltac:(lia) HN Enq) as [_ Hlt].
  unfold leaf. rewrite Enq. destruct (1 <? nq) eqn:E1.
  - apply mapM_total. intros i Hi. apply In_range1 in Hi.
    destruct (q_position_total (total seg) nq i ltac:(lia) ltac:(lia) ltac:(lia) ltac:(lia)) as (j & Ej & Hj).
    destruct (nth_sorted_total seg j Hwf Hj) as [v Ev]. exists v. unfold pick. rewrite Ej.
    assert (E : (j <? 0) = false) by lia. rewrite E, Ev. reflexivity.
  - destruct seg as [|[v c] t]; [congruence|]. cbn [max_value]. destruct (max_value t); eauto.
Qed.

Theorem find_quantiles_total : forall dedup q N vc,
  Sorted Z.lt (observed_values vc) -> Forall (fun p => 0 < snd p) vc ->
  0 < q <= 2 ^ 50 -> total vc <= N -> N <= 2 ^ 50 ->
  exists l, find_quantiles_v dedup q N vc = QOk l.
Proof.
  intros dedup q N vc Hs Hp Hq Htot HN. pose proof (wf_of_unique vc Hs Hp) as Hwf.
  assert (Hfq : exists l0, fq np_fuel q N vc = QOk l0).
  { unfold np_fuel. rewrite fq_S. destruct vc as [|p0 t0] eqn:Evc; [eauto|]. rewrite <- Evc in *.
    assert (Hne : vc <> []) by (rewrite Evc; discriminate). clear Evc p0 t0.
    destruct (existsb (fun p => is_freq (thr N q) (snd p)) vc).
    - destruct (mapM_total _ _ (fq 2 q N) (segments (thr N q) vc)) as [rs Ers].
      + intros seg Hseg. destruct (segment_sub _ _ _ Hseg Hwf) as (Hswf & Hstot & Hsub).
        rewrite fq_nonfreq by (intros p Hp'; apply Hsub; exact Hp').
        destruct seg as [|s0 s1] eqn:Es; [eauto|]. rewrite <- Es in *.
        apply leaf_total; try assumption; [rewrite Es; discriminate|lia].
      + rewrite Ers. eauto.
    - apply leaf_total; assumption. }
  destruct Hfq as [l0 E]. unfold find_quantiles_v, find_quantiles, find_quantiles_dedup.
  destruct dedup; rewrite E; eauto.
Qed.

Print Assumptions find_quantiles_total.

(* the search succeeds and its buckets obey the bound *)
Theorem bucket_bound_total_binary64 : forall dedup q len_df vc,
  Sorted Z.lt (observed_values vc) -> Forall (fun p => 0 < snd p) vc ->
  0 < q <= 2 ^ 50 -> total vc <= len_df -> len_df <= 2 ^ 50 ->
  exists l, find_quantiles_v dedup q len_df vc = QOk l
    /\ forall lo hi, In (lo, hi) (bounds None l) ->
       (forall b c, hi = Some b -> In (b, c) vc -> is_freq (thr len_df q) c = false) ->
       4 * q * bucket_count vc lo hi <= 9 * len_df + 8 * q.
Proof.
  intros dedup q N vc Hs Hp Hq Htot HN.
  destruct (find_quantiles_total dedup q N vc Hs Hp Hq Htot HN) as [l El]. exists l. split; [exact El|].
  apply (bucket_bound_binary64 dedup q N vc l); assumption.
Qed.
Print Assumptions bucket_bound_total_binary64.
