(* KruskalBoundProofs.v — extremal properties of the Kruskal-Wallis statistic of Model/Measures.v
   (`kruskal` = scipy.stats.kruskal with tie correction, exact, on (value, multiplicity) multisets):

     kruskal_upper_bound :  kruskal groups = Some h  ->  h <= N - 1        (N = number of rows)
     kruskal_perfect     :  every class holds one value, the values of different classes differ,
                            at least two classes  ->  kruskal groups = Some h  with  h == N - 1

   Proof.  With d(v) = 2 less(v) + count(v) - N  (twice the mid-rank of v, centred: rank2 - (N+1)):
     (A)  sum_j d_j = 0                          (sum of the mid-ranks = N (N + 1) / 2)
     (B)  3 sum_j d_j^2 = N^3 - sum_j t_j        (rank variance with ties; t_j = #ties of row j, so
                                                  sum_j t_j = sum over distinct values of t^2 ... )
          i.e.  3 sum_j d_j^2 = (N^3 - N) - sum_distinct (t^3 - t)
     (C)  (sum_{j in g} d_j)^2 <= n_g sum_{j in g} d_j^2         (Cauchy-Schwarz)
   and  H = 3 (N - 1) sum_g C_g^2 / n_g / ((N^3 - N) - sum (t^3 - t)),  C_g = sum_{j in g} d_j.
   (A) and (B) are proved by induction on the pooled multiset (one (value, multiplicity) entry is
   added anywhere in the order), using the partial-sum identity
          sum_{j : p(x_j)} (2 less(x_j) + count(x_j)) = #{j : p(x_j)}^2     for downward closed p. *)
From Coq Require Import ZArith QArith Qreduction List Bool Lia.
From AC.Model Require Import Measures.
Import ListNotations.
Open Scope Z_scope.

(* ---------------------------------------------------------------------------------------- *)
(* weighted sums over a multiset                                                              *)
(* ---------------------------------------------------------------------------------------- *)
Definition wsum (f : Z -> Z) (u : ymset) : Z :=
  fold_right (fun vc acc => snd vc * f (fst vc) + acc) 0 u.

Definition ind (b : bool) : Z := if b then 1 else 0.

Lemma wsum_cons f x c u : wsum f ((x, c) :: u) = c * f x + wsum f u.
Proof. reflexivity. Qed.

Lemma wsum_ext f g u : (forall v, f v = g v) -> wsum f u = wsum g u.
Proof.
  intros H. induction u as [|[x c] u IH]; [reflexivity|]. rewrite !wsum_cons, IH, H. reflexivity.
Qed.

Lemma wsum_add f g u : wsum (fun v => f v + g v) u = wsum f u + wsum g u.
Proof. induction u as [|[x c] u IH]; [reflexivity|]. rewrite !wsum_cons, IH. ring. Qed.

Lemma wsum_scal a f u : wsum (fun v => a * f v) u = a * wsum f u.
Proof. induction u as [|[x c] u IH]; [cbn; ring|]. rewrite !wsum_cons, IH. ring. Qed.

Lemma wsum_app f u v : wsum f (u ++ v) = wsum f u + wsum f v.
Proof. induction u as [|[x c] u IH]; [reflexivity|]. cbn [app]. rewrite !wsum_cons, IH. ring. Qed.

Lemma wsum_zero u : wsum (fun _ => 0) u = 0.
Proof. induction u as [|[x c] u IH]; [reflexivity|]. rewrite wsum_cons, IH. ring. Qed.

Lemma ms_n_wsum u : ms_n u = wsum (fun _ => 1) u.
Proof. induction u as [|[x c] u IH]; [reflexivity|]. rewrite wsum_cons, <- IH. unfold ms_n. cbn [fold_right snd]. ring. Qed.

Lemma ms_count_wsum v u : ms_count v u = wsum (fun w => ind (w =? v)) u.
Proof.
  induction u as [|[x c] u IH]; [reflexivity|]. rewrite wsum_cons, <- IH. unfold ms_count, ind.
  cbn [fold_right fst snd]. destruct (x =? v); ring.
Qed.

Lemma ms_less_wsum v u : ms_less v u = wsum (fun w => ind (w <? v)) u.
Proof.
  induction u as [|[x c] u IH]; [reflexivity|]. rewrite wsum_cons, <- IH. unfold ms_less, ind.
  cbn [fold_right fst snd]. destruct (x <? v); ring.
Qed.

Lemma rank2_sum_wsum pool u : rank2_sum pool u = wsum (rank2 pool) u.
Proof. reflexivity. Qed.

Lemma ms_n_cons x c u : ms_n ((x, c) :: u) = c + ms_n u.
Proof. reflexivity. Qed.

Lemma ms_count_cons v x c u : ms_count v ((x, c) :: u) = c * ind (x =? v) + ms_count v u.
Proof. unfold ms_count, ind. cbn [fold_right fst snd]. destruct (x =? v); ring. Qed.

Lemma ms_less_cons v x c u : ms_less v ((x, c) :: u) = c * ind (x <? v) + ms_less v u.
Proof. unfold ms_less, ind. cbn [fold_right fst snd]. destruct (x <? v); ring. Qed.

(* ---------------------------------------------------------------------------------------- *)
(* (A) partial sums of the (doubled, shifted) mid-ranks                                       *)
(* ---------------------------------------------------------------------------------------- *)
(* rank2 - 1 *)
Definition r2c (P : ymset) (w : Z) : Z := 2 * ms_less w P + ms_count w P.

Lemma r2c_cons x c P w :
  r2c ((x, c) :: P) w = r2c P w + c * (2 * ind (x <? w) + ind (x =? w)).
Proof. unfold r2c. rewrite ms_less_cons, ms_count_cons. ring. Qed.

Lemma r2c_cons_self x c P : r2c ((x, c) :: P) x = r2c P x + c.
Proof. rewrite r2c_cons, Z.ltb_irrefl, Z.eqb_refl. unfold ind. ring. Qed.

Lemma partial_rank_sum (p : Z -> bool) :
  (forall a b, a <= b -> p b = true -> p a = true) ->
  forall P, wsum (fun w => ind (p w) * r2c P w) P
            = wsum (fun w => ind (p w)) P * wsum (fun w => ind (p w)) P.
Proof.
  intros Hp. induction P as [|[x c] P IH]; [reflexivity|].
  rewrite !wsum_cons, r2c_cons_self.
  rewrite (wsum_ext _ (fun w => ind (p w) * r2c P w
                                + c * (ind (p w) * (2 * ind (x <? w) + ind (x =? w)))))
    by (intros w; rewrite r2c_cons; ring).
  rewrite wsum_add, wsum_scal, IH.
  set (cnt := wsum (fun w => ind (p w)) P).
  set (W := wsum (fun w => ind (p w) * (2 * ind (x <? w) + ind (x =? w))) P).
  destruct (p x) eqn:Epx; change (ind true) with 1; change (ind false) with 0.
  - assert (K : r2c P x + W = 2 * cnt).
    { unfold r2c, W, cnt. rewrite ms_less_wsum, ms_count_wsum.
      rewrite <- !wsum_scal, <- !wsum_add. apply wsum_ext. intros w.
      assert (Hpw : w <= x -> p w = true) by (intros Hle; apply (Hp w x Hle Epx)).
      unfold ind. destruct (p w) eqn:Epw, (Z.ltb_spec w x), (Z.eqb_spec w x), (Z.ltb_spec x w),
        (Z.eqb_spec x w); try lia; rewrite Hpw in Epw by lia; discriminate. }
    replace W with (2 * cnt - r2c P x) by lia. ring.
  - assert (K : W = 0).
    { unfold W. rewrite <- (wsum_zero P). apply wsum_ext. intros w.
      unfold ind. destruct (p w) eqn:Epw; [|ring].
      destruct (Z.ltb_spec x w), (Z.eqb_spec x w); try lia;
        rewrite (Hp x w) in Epx by (assumption || lia); discriminate. }
    rewrite K. ring.
Qed.

(* all rows: sum of (rank2 - 1) = N^2 *)
Lemma total_rank_sum P : wsum (r2c P) P = ms_n P * ms_n P.
Proof.
  pose proof (partial_rank_sum (fun _ => true) (fun _ _ _ _ => eq_refl) P) as H.
  unfold ind in H. rewrite ms_n_wsum, <- H. apply wsum_ext. intros w. ring.
Qed.

(* rows below x: sum of (rank2 - 1) = less(x)^2 *)
Lemma below_rank_sum x P : wsum (fun w => ind (w <? x) * r2c P w) P = ms_less x P * ms_less x P.
Proof.
  rewrite ms_less_wsum. apply (partial_rank_sum (fun w => w <? x)).
  intros a b Hab Hb. apply Z.ltb_lt in Hb. apply Z.ltb_lt. lia.
Qed.

(* centred doubled mid-rank: rank2 - (N + 1) *)
Definition dc (P : ymset) (w : Z) : Z := r2c P w - ms_n P.

Lemma rank2_dc P w : rank2 P w = dc P w + (ms_n P + 1).
Proof. unfold rank2, dc, r2c. ring. Qed.

Lemma dc_sum_zero P : wsum (dc P) P = 0.
Proof.
  unfold dc.
  rewrite (wsum_ext _ (fun w => r2c P w + (- ms_n P) * 1)) by (intros w; ring).
  rewrite wsum_add, wsum_scal, total_rank_sum, <- ms_n_wsum. ring.
Qed.

Lemma dc_sum_below x P :
  wsum (fun w => ind (w <? x) * dc P w) P = ms_less x P * ms_less x P - ms_n P * ms_less x P.
Proof.
  unfold dc.
  rewrite (wsum_ext _ (fun w => ind (w <? x) * r2c P w + (- ms_n P) * ind (w <? x)))
    by (intros w; ring).
  rewrite wsum_add, wsum_scal, below_rank_sum, <- ms_less_wsum. ring.
Qed.

Lemma dc_sum_at x P : wsum (fun w => ind (w =? x) * dc P w) P = ms_count x P * dc P x.
Proof.
  rewrite ms_count_wsum, Z.mul_comm, <- wsum_scal. apply wsum_ext. intros w.
  unfold ind. destruct (Z.eqb_spec w x) as [->|_]; ring.
Qed.
