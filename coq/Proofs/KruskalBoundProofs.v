(* KruskalBoundProofs.v — extremal properties of the Kruskal-Wallis statistic of Model/Measures.v
   (`kruskal` = scipy.stats.kruskal with tie correction, exact, on (value, multiplicity) multisets):

     kruskal_upper_bound :  kruskal groups = Some h  ->  h <= N - 1        (N = number of rows)
     kruskal_perfect     :  every class holds one value, the values of different classes differ,
                            at least two classes  ->  kruskal groups = Some h  with  h == N - 1

   Proof.  With d(v) = 2 less(v) + count(v) - N  (twice the mid-rank of v, centred: rank2 - (N+1)):
     (A)  sum_j d_j = 0                          (sum of the mid-ranks = N (N + 1) / 2)
     (B)  3 sum_j d_j^2 = N^3 - sum_j t_j        (rank variance with ties; t_j = #ties of row j, so
                                                  sum_j t_j = sum over distinct values of t^2 ... )
          i.e.  3 sum_j d_j^2 = (N^3 - N) - sum_distinct (t^3 - t)
     (C)  (sum_{j in g} d_j)^2 <= n_g sum_{j in g} d_j^2         (Cauchy-Schwarz)
   and  H = 3 (N - 1) sum_g C_g^2 / n_g / ((N^3 - N) - sum (t^3 - t)),  C_g = sum_{j in g} d_j.
   (A) and (B) are proved by induction on the pooled multiset (one (value, multiplicity) entry is
   added anywhere in the order), using the partial-sum identity
          sum_{j : p(x_j)} (2 less(x_j) + count(x_j)) = #{j : p(x_j)}^2     for downward closed p. *)
From Coq Require Import ZArith QArith Qreduction List Bool Lia.
From AC.Model Require Import Measures.
Import ListNotations.
Open Scope Z_scope.

(* ---------------------------------------------------------------------------------------- *)
(* weighted sums over a multiset                                                              *)
(* ---------------------------------------------------------------------------------------- *)
Definition wsum (f : Z -> Z) (u : ymset) : Z :=
  fold_right (fun vc acc => snd vc * f (fst vc) + acc) 0 u.

Definition ind (b : bool) : Z := if b then 1 else 0.

Lemma wsum_cons f x c u : wsum f ((x, c) :: u) = c * f x + wsum f u.
Proof. reflexivity. Qed.

Lemma wsum_ext f g u : (forall v, f v = g v) -> wsum f u = wsum g u.
Proof.
  intros H. induction u as [|[x c] u IH]; [reflexivity|]. rewrite !wsum_cons, IH, H. reflexivity.
Qed.

Lemma wsum_add f g u : wsum (fun v => f v + g v) u = wsum f u + wsum g u.
Proof. induction u as [|[x c] u IH]; [reflexivity|]. rewrite !wsum_cons, IH. ring. Qed.

Lemma wsum_scal a f u : wsum (fun v => a * f v) u = a * wsum f u.
Proof. induction u as [|[x c] u IH]; [cbn; ring|]. rewrite !wsum_cons, IH. ring. Qed.

Lemma wsum_app f u v : wsum f (u ++ v) = wsum f u + wsum f v.
Proof. induction u as [|[x c] u IH]; [reflexivity|]. cbn [app]. rewrite !wsum_cons, IH. ring. Qed.

Lemma wsum_zero u : wsum (fun _ => 0) u = 0.
Proof. induction u as [|[x c] u IH]; [reflexivity|]. rewrite wsum_cons, IH. ring. Qed.

Lemma ms_n_wsum u : ms_n u = wsum (fun _ => 1) u.
Proof. induction u as [|[x c] u IH]; [reflexivity|]. rewrite wsum_cons, <- IH. unfold ms_n. cbn [fold_right snd]. ring. Qed.

Lemma ms_count_wsum v u : ms_count v u = wsum (fun w => ind (w =? v)) u.
Proof.
  induction u as [|[x c] u IH]; [reflexivity|]. rewrite wsum_cons, <- IH. unfold ms_count, ind.
  cbn [fold_right fst snd]. destruct (x =? v); ring.
Qed.

Lemma ms_less_wsum v u : ms_less v u = wsum (fun w => ind (w <? v)) u.
Proof.
  induction u as [|[x c] u IH]; [reflexivity|]. rewrite wsum_cons, <- IH. unfold ms_less, ind.
  cbn [fold_right fst snd]. destruct (x <? v); ring.
Qed.

Lemma rank2_sum_wsum pool u : rank2_sum pool u = wsum (rank2 pool) u.
Proof. reflexivity. Qed.

Lemma ms_n_cons x c u : ms_n ((x, c) :: u) = c + ms_n u.
Proof. reflexivity. Qed.

Lemma ms_count_cons v x c u : ms_count v ((x, c) :: u) = c * ind (x =? v) + ms_count v u.
Proof. unfold ms_count, ind. cbn [fold_right fst snd]. destruct (x =? v); ring. Qed.

Lemma ms_less_cons v x c u : ms_less v ((x, c) :: u) = c * ind (x <? v) + ms_less v u.
Proof. unfold ms_less, ind. cbn [fold_right fst snd]. destruct (x <? v); ring. Qed.

(* ---------------------------------------------------------------------------------------- *)
(* (A) partial sums of the (doubled, shifted) mid-ranks                                       *)
(* ---------------------------------------------------------------------------------------- *)
(* rank2 - 1 *)
Definition r2c (P : ymset) (w : Z) : Z := 2 * ms_less w P + ms_count w P.

Lemma r2c_cons x c P w :
  r2c ((x, c) :: P) w = r2c P w + c * (2 * ind (x <? w) + ind (x =? w)).
Proof. unfold r2c. rewrite ms_less_cons, ms_count_cons. ring. Qed.

Lemma r2c_cons_self x c P : r2c ((x, c) :: P) x = r2c P x + c.
Proof. rewrite r2c_cons, Z.ltb_irrefl, Z.eqb_refl. unfold ind. ring. Qed.

Lemma partial_rank_sum (p : Z -> bool) :
  (forall a b, a <= b -> p b = true -> p a = true) ->
  forall P, wsum (fun w => ind (p w) * r2c P w) P
            = wsum (fun w => ind (p w)) P * wsum (fun w => ind (p w)) P.
Proof.
  intros Hp. induction P as [|[x c] P IH]; [reflexivity|].
  rewrite !wsum_cons, r2c_cons_self.
  rewrite (wsum_ext _ (fun w => ind (p w) * r2c P w
                                + c * (ind (p w) * (2 * ind (x <? w) + ind (x =? w)))))
    by (intros w; rewrite r2c_cons; ring).
  rewrite wsum_add, wsum_scal, IH.
  set (cnt := wsum (fun w => ind (p w)) P).
  set (W := wsum (fun w => ind (p w) * (2 * ind (x <? w) + ind (x =? w))) P).
  destruct (p x) eqn:Epx; change (ind true) with 1; change (ind false) with 0.
  - assert (K : r2c P x + W = 2 * cnt).
    { unfold r2c, W, cnt. rewrite ms_less_wsum, ms_count_wsum.
      rewrite <- !wsum_scal, <- !wsum_add. apply wsum_ext. intros w.
      assert (Hpw : w <= x -> p w = true) by (intros Hle; apply (Hp w x Hle Epx)).
      unfold ind. destruct (p w) eqn:Epw, (Z.ltb_spec w x), (Z.eqb_spec w x), (Z.ltb_spec x w),
        (Z.eqb_spec x w); try lia; rewrite Hpw in Epw by lia; discriminate. }
    replace W with (2 * cnt - r2c P x) by lia. ring.
  - assert (K : W = 0).
    { unfold W. rewrite <- (wsum_zero P). apply wsum_ext. intros w.
      unfold ind. destruct (p w) eqn:Epw; [|ring].
      destruct (Z.ltb_spec x w), (Z.eqb_spec x w); try lia;
        rewrite (Hp x w) in Epx by (assumption || lia); discriminate. }
    rewrite K. ring.
Qed.

(* all rows: sum of (rank2 - 1) = N^2 *)
Lemma total_rank_sum P : wsum (r2c P) P = ms_n P * ms_n P.
Proof.
  pose proof (partial_rank_sum (fun _ => true) (fun _ _ _ _ => eq_refl) P) as H.
  unfold ind in H. rewrite ms_n_wsum, <- H. apply wsum_ext. intros w. ring.
Qed.

(* rows below x: sum of (rank2 - 1) = less(x)^2 *)
Lemma below_rank_sum x P : wsum (fun w => ind (w <? x) * r2c P w) P = ms_less x P * ms_less x P.
Proof.
  rewrite ms_less_wsum. apply (partial_rank_sum (fun w => w <? x)).
  intros a b Hab Hb. apply Z.ltb_lt in Hb. apply Z.ltb_lt. lia.
Qed.

(* centred doubled mid-rank: rank2 - (N + 1) *)
Definition dc (P : ymset) (w : Z) : Z := r2c P w - ms_n P.

Lemma rank2_dc P w : rank2 P w = dc P w + (ms_n P + 1).
Proof. unfold rank2, dc, r2c. ring. Qed.

Lemma dc_sum_zero P : wsum (dc P) P = 0.
Proof.
  unfold dc.
  rewrite (wsum_ext _ (fun w => r2c P w + (- ms_n P) * 1)) by (intros w; ring).
  rewrite wsum_add, wsum_scal, total_rank_sum, <- ms_n_wsum. ring.
Qed.

Lemma dc_sum_below x P :
  wsum (fun w => ind (w <? x) * dc P w) P = ms_less x P * ms_less x P - ms_n P * ms_less x P.
Proof.
  unfold dc.
  rewrite (wsum_ext _ (fun w => ind (w <? x) * r2c P w + (- ms_n P) * ind (w <? x)))
    by (intros w; ring).
  rewrite wsum_add, wsum_scal, below_rank_sum, <- ms_less_wsum. ring.
Qed.

Lemma dc_sum_at x P : wsum (fun w => ind (w =? x) * dc P w) P = ms_count x P * dc P x.
Proof.
  rewrite ms_count_wsum, Z.mul_comm, <- wsum_scal. apply wsum_ext. intros w.
  unfold ind. destruct (Z.eqb_spec w x) as [->|_]; ring.
Qed.

Lemma wsum_at (f : Z -> Z) x P : wsum (fun w => ind (w =? x) * f w) P = ms_count x P * f x.
Proof.
  rewrite ms_count_wsum, Z.mul_comm, <- wsum_scal. apply wsum_ext. intros w.
  unfold ind. destruct (Z.eqb_spec w x) as [->|_]; ring.
Qed.

(* ---------------------------------------------------------------------------------------- *)
(* (B) the variance of the mid-ranks, with ties                                               *)
(* ---------------------------------------------------------------------------------------- *)
Lemma dc_cons x c P w :
  dc ((x, c) :: P) w = dc P w + c * (1 - ind (w =? x) - 2 * ind (w <? x)).
Proof.
  unfold dc. rewrite r2c_cons, ms_n_cons. unfold ind.
  destruct (Z.ltb_spec x w), (Z.eqb_spec x w), (Z.eqb_spec w x), (Z.ltb_spec w x);
    try (exfalso; lia); ring.
Qed.

Lemma dc_cons_self x c P : dc ((x, c) :: P) x = dc P x.
Proof. rewrite dc_cons, Z.eqb_refl, Z.ltb_irrefl. unfold ind. ring. Qed.

Theorem rank_variance P :
  3 * wsum (fun w => dc P w * dc P w) P
  = ms_n P * ms_n P * ms_n P - wsum (fun w => ms_count w P * ms_count w P) P.
Proof.
  induction P as [|[x c] P IH]; [reflexivity|].
  rewrite !wsum_cons, dc_cons_self, ms_n_cons.
  rewrite (wsum_ext (fun w => dc ((x, c) :: P) w * dc ((x, c) :: P) w)
     (fun w => dc P w * dc P w
               + ((2 * c) * (dc P w + ((-1) * (ind (w =? x) * dc P w) + (-2) * (ind (w <? x) * dc P w)))
                  + (c * c) * (1 + (-1) * ind (w =? x))))).
  2:{ intros w. rewrite dc_cons. unfold ind.
      destruct (Z.ltb_spec w x), (Z.eqb_spec w x); try (exfalso; lia); ring. }
  rewrite (wsum_ext (fun w => ms_count w ((x, c) :: P) * ms_count w ((x, c) :: P))
     (fun w => ms_count w P * ms_count w P
               + ((2 * c) * (ind (w =? x) * ms_count w P) + (c * c) * ind (w =? x)))).
  2:{ intros w. rewrite ms_count_cons, (Z.eqb_sym x w). unfold ind.
      destruct (Z.eqb_spec w x); ring. }
  rewrite !wsum_add, !wsum_scal, !wsum_add, !wsum_scal.
  rewrite dc_sum_zero, dc_sum_at, dc_sum_below, (wsum_at (fun w => ms_count w P)).
  rewrite <- ms_n_wsum, <- ms_count_wsum, ms_count_cons, Z.eqb_refl.
  change (ind true) with 1.
  set (V := wsum (fun w => dc P w * dc P w) P) in *.
  set (U := wsum (fun w => ms_count w P * ms_count w P) P) in *.
  replace U with (ms_n P * ms_n P * ms_n P - 3 * V) by lia.
  unfold dc, r2c. ring.
Qed.

(* the tie term of scipy: sum over the distinct values of t^3 - t, as a sum over the rows *)
Lemma zmem_false_count x u : zmem x (map fst u) = false -> ms_count x u = 0.
Proof.
  induction u as [|[y c] u IH]; [reflexivity|]. cbn [map fst zmem]. intros H.
  apply orb_false_iff in H. destruct H as [H1 H2]. rewrite ms_count_cons, IH by exact H2.
  rewrite Z.eqb_sym, H1. unfold ind. ring.
Qed.

Lemma distinct_at_out (g : Z -> Z) x k l : zmem x l = false ->
  fold_right (fun v acc => g v * (k * ind (x =? v)) + acc) 0 (zdistinct l) = 0.
Proof.
  induction l as [|y l IH]; [reflexivity|]. cbn [zmem zdistinct]. intros H.
  apply orb_false_iff in H. destruct H as [H1 H2].
  destruct (zmem y l); [apply IH, H2|]. cbn [fold_right]. rewrite IH by exact H2.
  rewrite H1. unfold ind. ring.
Qed.

Lemma distinct_at_in (g : Z -> Z) x k l : zmem x l = true ->
  fold_right (fun v acc => g v * (k * ind (x =? v)) + acc) 0 (zdistinct l) = k * g x.
Proof.
  induction l as [|y l IH]; [discriminate|]. cbn [zmem zdistinct]. intros H.
  destruct (Z.eqb_spec x y) as [->|Hne]; cbn [orb] in H.
  - destruct (zmem y l) eqn:Ey; [apply IH; reflexivity|].
    cbn [fold_right]. rewrite (distinct_at_out g y k l Ey), Z.eqb_refl. unfold ind. ring.
  - destruct (zmem y l) eqn:Ey; [apply IH, H|].
    cbn [fold_right]. rewrite (IH H). destruct (Z.eqb_spec x y); [contradiction|]. unfold ind. ring.
Qed.

Lemma distinct_sum (g : Z -> Z) u :
  fold_right (fun v acc => g v * ms_count v u + acc) 0 (zdistinct (map fst u)) = wsum g u.
Proof.
  induction u as [|[x k] u IH]; [reflexivity|].
  rewrite wsum_cons, <- IH. cbn [map fst].
  assert (E : forall l,
    fold_right (fun v acc => g v * ms_count v ((x, k) :: u) + acc) 0 l
    = fold_right (fun v acc => g v * ms_count v u + acc) 0 l
      + fold_right (fun v acc => g v * (k * ind (x =? v)) + acc) 0 l).
  { induction l as [|v l IHl]; [reflexivity|]. cbn [fold_right]. rewrite IHl, ms_count_cons. ring. }
  cbn [zdistinct]. destruct (zmem x (map fst u)) eqn:Ex.
  - rewrite E, (distinct_at_in g x k _ Ex). ring.
  - cbn [fold_right]. rewrite E, (distinct_at_out g x k _ Ex), ms_count_cons, Z.eqb_refl,
      (zmem_false_count x u Ex). unfold ind. ring.
Qed.

Lemma tie_sum_rows P :
  fold_right (fun v acc => let t := ms_count v P in t * t * t - t + acc) 0 (zdistinct (map fst P))
  = wsum (fun w => ms_count w P * ms_count w P) P - ms_n P.
Proof.
  rewrite ms_n_wsum.
  replace (wsum (fun w => ms_count w P * ms_count w P) P - wsum (fun _ => 1) P)
    with (wsum (fun w => ms_count w P * ms_count w P - 1) P).
  2:{ rewrite (wsum_ext _ (fun w => ms_count w P * ms_count w P + (-1) * 1)) by (intros w; ring).
      rewrite wsum_add, wsum_scal. ring. }
  rewrite <- distinct_sum. cbn zeta. generalize (zdistinct (map fst P)) as l.
  induction l as [|v l IHl]; [reflexivity|]. cbn [fold_right]. rewrite IHl. ring.
Qed.

(* N^3 - N - sum (t^3 - t) = 3 sum_j d_j^2 *)
Corollary tie_denominator P :
  (ms_n P * ms_n P * ms_n P - ms_n P)
  - fold_right (fun v acc => let t := ms_count v P in t * t * t - t + acc) 0 (zdistinct (map fst P))
  = 3 * wsum (fun w => dc P w * dc P w) P.
Proof. rewrite tie_sum_rows, rank_variance. ring. Qed.

Lemma tie_denominator' P :
  (ms_n P * ms_n P * ms_n P - ms_n P)
  - fold_right (fun v acc => ms_count v P * ms_count v P * ms_count v P - ms_count v P + acc) 0
               (zdistinct (map fst P))
  = 3 * wsum (fun w => dc P w * dc P w) P.
Proof. exact (tie_denominator P). Qed.

(* ---------------------------------------------------------------------------------------- *)
(* (C) Cauchy-Schwarz with non-negative weights                                               *)
(* ---------------------------------------------------------------------------------------- *)
Definition nonneg_ms (u : ymset) : Prop := Forall (fun e => 0 <= snd e) u.

Lemma wsum_mono f g u : nonneg_ms u -> (forall v, f v <= g v) -> wsum f u <= wsum g u.
Proof.
  intros Hu Hfg. induction Hu as [|[x c] u Hc _ IH]; [cbn; lia|].
  rewrite !wsum_cons. cbn [snd] in Hc. pose proof (Hfg x). nia.
Qed.

Lemma wsum_nonneg f u : nonneg_ms u -> (forall v, 0 <= f v) -> 0 <= wsum f u.
Proof. intros Hu Hf. rewrite <- (wsum_zero u). apply wsum_mono; assumption. Qed.

Lemma ms_n_nonneg u : nonneg_ms u -> 0 <= ms_n u.
Proof. intros Hu. rewrite ms_n_wsum. apply wsum_nonneg; [exact Hu|]. intros _. lia. Qed.

Lemma wsum_square_expand f a b u :
  wsum (fun v => (a - b * f v) * (a - b * f v)) u
  = a * a * wsum (fun _ => 1) u - 2 * a * b * wsum f u + b * b * wsum (fun v => f v * f v) u.
Proof. induction u as [|[x c] u IH]; [cbn; ring|]. rewrite !wsum_cons, IH. ring. Qed.

Lemma cauchy_schwarz f u : nonneg_ms u -> 0 < ms_n u ->
  wsum f u * wsum f u <= ms_n u * wsum (fun v => f v * f v) u.
Proof.
  intros Hu Hn.
  pose proof (wsum_nonneg (fun v => (wsum f u - ms_n u * f v) * (wsum f u - ms_n u * f v)) u Hu
                          (fun v => Z.square_nonneg _)) as H.
  rewrite wsum_square_expand, <- ms_n_wsum in H.
  set (C := wsum f u) in *. set (n := ms_n u) in *. set (Q := wsum (fun v => f v * f v) u) in *.
  destruct (Z.le_gt_cases (C * C) (n * Q)) as [Hle|Hgt]; [exact Hle|exfalso].
  assert (Hneg : n * (n * Q - C * C) < 0) by (apply Z.mul_pos_neg; lia).
  replace (C * C * n - 2 * C * n * C + n * n * Q) with (n * (n * Q - C * C)) in H by ring. lia.
Qed.

(* ---------------------------------------------------------------------------------------- *)
(* sums over the groups                                                                       *)
(* ---------------------------------------------------------------------------------------- *)
Definition gsum (F : ymset -> Z) (gs : list ymset) : Z := fold_right (fun g acc => F g + acc) 0 gs.
Definition qsum (F : ymset -> Q) (gs : list ymset) : Q :=
  fold_right (fun g acc => Qplus (F g) acc) 0%Q gs.

Lemma wsum_union f gs : wsum f (ms_union gs) = gsum (wsum f) gs.
Proof.
  unfold ms_union. induction gs as [|g gs IH]; [reflexivity|].
  cbn [concat gsum fold_right]. rewrite wsum_app, IH. reflexivity.
Qed.

Lemma gsum_ext F G gs : (forall g, In g gs -> F g = G g) -> gsum F gs = gsum G gs.
Proof.
  induction gs as [|g gs IH]; intros H; [reflexivity|]. cbn [gsum fold_right].
  rewrite (H g (or_introl eq_refl)). f_equal. apply IH. intros k Hk. apply H. right. exact Hk.
Qed.

Lemma ms_n_union gs : ms_n (ms_union gs) = gsum ms_n gs.
Proof. rewrite ms_n_wsum, wsum_union. apply gsum_ext. intros g _. symmetry. apply ms_n_wsum. Qed.

(* ---------------------------------------------------------------------------------------- *)
(* algebra over Q                                                                             *)
(* ---------------------------------------------------------------------------------------- *)
Lemma q4_add a b : ((a + b) # 4) == (a # 4) + (b # 4).
Proof. unfold Qeq, Qplus. cbn [Qnum Qden]. rewrite Pos2Z.inj_mul. ring. Qed.

Lemma term_center S C K m : 0 < m -> S = C + K * m ->
  ((S * S) # Z.to_pos (4 * m)) ==
  ((C * C) # Z.to_pos (4 * m)) + (K # 2) * inject_Z C + ((K * K) # 4) * inject_Z m.
Proof.
  intros Hm ->. unfold Qeq, Qplus, Qmult, inject_Z. cbn [Qnum Qden].
  rewrite !Pos2Z.inj_mul. rewrite !Z2Pos.id by lia. ring.
Qed.

Lemma term_le C m Qg : 0 < m -> C * C <= m * Qg -> (((C * C) # Z.to_pos (4 * m)) <= (Qg # 4))%Q.
Proof. intros Hm H. unfold Qle. cbn [Qnum Qden]. rewrite Z2Pos.id by lia. lia. Qed.

Lemma term_eq C m Qg : 0 < m -> C * C = m * Qg -> ((C * C) # Z.to_pos (4 * m)) == (Qg # 4).
Proof. intros Hm H. unfold Qeq. cbn [Qnum Qden]. rewrite Z2Pos.id by lia. lia. Qed.

Lemma qsum_center (S C n : ymset -> Z) K gs :
  (forall g, In g gs -> 0 < n g /\ S g = C g + K * n g) ->
  qsum (fun g => (S g * S g) # Z.to_pos (4 * n g)) gs ==
  qsum (fun g => (C g * C g) # Z.to_pos (4 * n g)) gs
  + (K # 2) * inject_Z (gsum C gs) + ((K * K) # 4) * inject_Z (gsum n gs).
Proof.
  induction gs as [|g gs IH]; intros H.
  - cbn [qsum gsum fold_right]. change (inject_Z 0) with 0%Q. ring.
  - cbn [qsum gsum fold_right]. fold (qsum (fun g => (S g * S g) # Z.to_pos (4 * n g)) gs).
    fold (qsum (fun g => (C g * C g) # Z.to_pos (4 * n g)) gs). fold (gsum C gs). fold (gsum n gs).
    rewrite IH by (intros k Hk; apply H; right; exact Hk).
    destruct (H g (or_introl eq_refl)) as [Hm HS].
    rewrite (term_center (S g) (C g) K (n g) Hm HS), !inject_Z_plus. ring.
Qed.

Lemma qsum_le (C n Qf : ymset -> Z) gs :
  (forall g, In g gs -> 0 < n g /\ C g * C g <= n g * Qf g) ->
  (qsum (fun g => (C g * C g) # Z.to_pos (4 * n g)) gs <= (gsum Qf gs # 4))%Q.
Proof.
  induction gs as [|g gs IH]; intros H.
  - cbn [qsum gsum fold_right]. unfold Qle. cbn. lia.
  - cbn [qsum gsum fold_right]. fold (qsum (fun g => (C g * C g) # Z.to_pos (4 * n g)) gs).
    fold (gsum Qf gs). rewrite q4_add. destruct (H g (or_introl eq_refl)) as [Hm HC].
    apply Qplus_le_compat; [apply term_le; assumption|].
    apply IH. intros k Hk. apply H. right. exact Hk.
Qed.

Lemma qsum_eq (C n Qf : ymset -> Z) gs :
  (forall g, In g gs -> 0 < n g /\ C g * C g = n g * Qf g) ->
  qsum (fun g => (C g * C g) # Z.to_pos (4 * n g)) gs == (gsum Qf gs # 4).
Proof.
  induction gs as [|g gs IH]; intros H.
  - cbn [qsum gsum fold_right]. unfold Qeq. reflexivity.
  - cbn [qsum gsum fold_right]. fold (qsum (fun g => (C g * C g) # Z.to_pos (4 * n g)) gs).
    fold (gsum Qf gs). rewrite q4_add. destruct (H g (or_introl eq_refl)) as [Hm HC].
    rewrite (term_eq _ _ _ Hm HC), IH by (intros k Hk; apply H; right; exact Hk). reflexivity.
Qed.

(* ---------------------------------------------------------------------------------------- *)
(* the shape of Measures.kruskal                                                              *)
(* ---------------------------------------------------------------------------------------- *)
Definition sq_dev (P : ymset) : Z := wsum (fun w => dc P w * dc P w) P.

Definition kruskal_value (gs : list ymset) : Q :=
  let P := ms_union gs in
  let N := ms_n P in
  Qdiv (Qminus (Qmult (Qmake 12 (Z.to_pos (N * (N + 1))))
                      (qsum (fun g => (rank2_sum P g * rank2_sum P g) # Z.to_pos (4 * ms_n g)) gs))
               (inject_Z (3 * (N + 1))))
       (Qmake (3 * sq_dev P) (Z.to_pos (N * N * N - N))).

Lemma kruskal_unfold gs :
  kruskal gs =
  if (ms_n (ms_union gs) <=? 1) || (3 * sq_dev (ms_union gs) =? 0)
     || existsb (fun g => ms_n g =? 0) gs
  then None else Some (Qred (kruskal_value gs)).
Proof. unfold kruskal, kruskal_value, sq_dev. cbn zeta. rewrite tie_denominator'. reflexivity. Qed.

Lemma existsb_zero_false gs :
  existsb (fun g => ms_n g =? 0) gs = false -> forall g, In g gs -> ms_n g <> 0.
Proof.
  intros H g Hg E. assert (X : existsb (fun g => ms_n g =? 0) gs = true).
  { apply existsb_exists. exists g. split; [exact Hg|]. apply Z.eqb_eq, E. }
  rewrite X in H. discriminate.
Qed.

Lemma existsb_zero_intro gs :
  (forall g, In g gs -> ms_n g <> 0) -> existsb (fun g => ms_n g =? 0) gs = false.
Proof.
  intros H. destruct (existsb (fun g => ms_n g =? 0) gs) eqn:E; [|reflexivity].
  apply existsb_exists in E. destruct E as [g [Hg E]]. apply Z.eqb_eq in E. destruct (H g Hg E).
Qed.

(* ---------------------------------------------------------------------------------------- *)
(* the common part: H as a function of the centred rank sums                                  *)
(* ---------------------------------------------------------------------------------------- *)
Lemma rank2_sum_centred gs g :
  rank2_sum (ms_union gs) g
  = wsum (dc (ms_union gs)) g + (ms_n (ms_union gs) + 1) * ms_n g.
Proof.
  rewrite rank2_sum_wsum,
    (wsum_ext _ (fun w => dc (ms_union gs) w + (ms_n (ms_union gs) + 1) * 1))
    by (intros w; rewrite rank2_dc; ring).
  rewrite wsum_add, wsum_scal, <- ms_n_wsum. reflexivity.
Qed.

Lemma centred_total gs : gsum (fun g => wsum (dc (ms_union gs)) g) gs = 0.
Proof.
  change (gsum (wsum (dc (ms_union gs))) gs = 0). rewrite <- wsum_union. apply dc_sum_zero.
Qed.

Lemma sq_dev_groups gs :
  gsum (fun g => wsum (fun w => dc (ms_union gs) w * dc (ms_union gs) w) g) gs
  = sq_dev (ms_union gs).
Proof. unfold sq_dev. rewrite (wsum_union _ gs). reflexivity. Qed.

(* numerator of H *)
Lemma kruskal_numerator gs :
  1 < ms_n (ms_union gs) -> (forall g, In g gs -> 0 < ms_n g) ->
  (Qminus (Qmult (Qmake 12 (Z.to_pos (ms_n (ms_union gs) * (ms_n (ms_union gs) + 1))))
                 (qsum (fun g => (rank2_sum (ms_union gs) g * rank2_sum (ms_union gs) g)
                                 # Z.to_pos (4 * ms_n g)) gs))
          (inject_Z (3 * (ms_n (ms_union gs) + 1)))
   == Qmult (Qmake 12 (Z.to_pos (ms_n (ms_union gs) * (ms_n (ms_union gs) + 1))))
            (qsum (fun g => (wsum (dc (ms_union gs)) g * wsum (dc (ms_union gs)) g)
                            # Z.to_pos (4 * ms_n g)) gs))%Q.
Proof.
  intros HN Hpos.
  rewrite (qsum_center (rank2_sum (ms_union gs)) (fun g => wsum (dc (ms_union gs)) g) ms_n
                       (ms_n (ms_union gs) + 1) gs)
    by (intros g Hg; split; [apply Hpos, Hg | apply rank2_sum_centred]).
  rewrite centred_total, <- ms_n_union.
  set (N := ms_n (ms_union gs)) in *.
  assert (E1 : ((12 # Z.to_pos (N * (N + 1))) * ((((N + 1) * (N + 1)) # 4) * inject_Z N)
                == inject_Z (3 * (N + 1)))%Q).
  { unfold Qeq, Qmult, inject_Z. cbn [Qnum Qden]. rewrite !Pos2Z.inj_mul.
    rewrite Z2Pos.id by nia. ring. }
  rewrite <- E1. change (inject_Z 0) with 0%Q. ring.
Qed.

(* (N - 1) times the tie correction *)
Lemma kruskal_scale N X :
  1 < N ->
  ((12 # Z.to_pos (N * (N + 1))) * (X # 4)
   == inject_Z (N - 1) * ((3 * X) # Z.to_pos (N * N * N - N)))%Q.
Proof.
  intros HN. unfold Qeq, Qmult, inject_Z. cbn [Qnum Qden]. rewrite !Pos2Z.inj_mul.
  rewrite !Z2Pos.id by nia. ring.
Qed.

(* ---------------------------------------------------------------------------------------- *)
(* Theorem 1: H <= N - 1                                                                      *)
(* ---------------------------------------------------------------------------------------- *)
Definition groups_nonneg (gs : list ymset) : Prop := Forall nonneg_ms gs.

Lemma nonneg_union gs : groups_nonneg gs -> nonneg_ms (ms_union gs).
Proof.
  unfold ms_union, nonneg_ms. induction 1 as [|g gs Hg _ IH]; [constructor|].
  cbn [concat]. apply Forall_app. split; assumption.
Qed.

Theorem kruskal_le_value gs :
  groups_nonneg gs -> 1 < ms_n (ms_union gs) -> 3 * sq_dev (ms_union gs) <> 0 ->
  (forall g, In g gs -> ms_n g <> 0) ->
  (kruskal_value gs <= inject_Z (ms_n (ms_union gs) - 1))%Q.
Proof.
  intros Hwf HN HE Hne. unfold kruskal_value. cbn zeta.
  assert (Hwf' : forall g, In g gs -> nonneg_ms g) by (apply Forall_forall, Hwf).
  set (P := ms_union gs) in *. set (N := ms_n P) in *.
  assert (Hpos : forall g, In g gs -> 0 < ms_n g).
  { intros g Hg. pose proof (Hne g Hg). pose proof (ms_n_nonneg g (Hwf' g Hg)). lia. }
  assert (HE0 : 0 <= sq_dev P).
  { apply wsum_nonneg; [apply nonneg_union, Hwf|]. intros v. apply Z.square_nonneg. }
  assert (HD : 0 < N * N * N - N) by nia.
  apply Qle_shift_div_r; [unfold Qlt; cbn [Qnum Qden]; lia|].
  unfold N; unfold P. rewrite (kruskal_numerator gs HN Hpos). fold P. fold N.
  rewrite <- (kruskal_scale N (sq_dev P) HN).
  apply Qmult_le_l; [reflexivity|].
  pose proof (sq_dev_groups gs) as Hsq. fold P in Hsq. rewrite <- Hsq.
  apply (qsum_le (fun g => wsum (dc P) g) ms_n (fun g => wsum (fun w => dc P w * dc P w) g)).
  intros g Hg. split; [apply Hpos, Hg|].
  apply cauchy_schwarz; [apply Hwf', Hg | apply Hpos, Hg].
Qed.

Theorem kruskal_upper_bound gs h :
  Forall (Forall (fun e : Z * Z => 0 < snd e)) gs -> kruskal gs = Some h ->
  (h <= inject_Z (ms_n (ms_union gs) - 1))%Q.
Proof.
  intros Hwf Hk. rewrite kruskal_unfold in Hk.
  destruct ((ms_n (ms_union gs) <=? 1) || (3 * sq_dev (ms_union gs) =? 0)
            || existsb (fun g => ms_n g =? 0) gs) eqn:Hc; [discriminate|].
  assert (Eh : h = Qred (kruskal_value gs)) by congruence. rewrite Eh, Qred_correct. clear Hk Eh.
  apply orb_false_iff in Hc. destruct Hc as [Hc Hex]. apply orb_false_iff in Hc. destruct Hc as [H1 H2].
  apply kruskal_le_value.
  - eapply Forall_impl; [|exact Hwf]. intros g Hg. eapply Forall_impl; [|exact Hg].
    intros e He. cbn beta in He. lia.
  - lia.
  - lia.
  - apply existsb_zero_false, Hex.
Qed.

(* ---------------------------------------------------------------------------------------- *)
(* Theorem 2: a feature that is constant on every class, with pairwise distinct values         *)
(* (an exact copy of / any injective re-encoding of the class target) reaches N - 1            *)
(* ---------------------------------------------------------------------------------------- *)
Definition single_valued (v : Z) (g : ymset) : Prop :=
  g <> [] /\ Forall (fun e : Z * Z => fst e = v /\ 0 < snd e) g.

Lemma single_valued_wsum f v g :
  Forall (fun e : Z * Z => fst e = v /\ 0 < snd e) g -> wsum f g = ms_n g * f v.
Proof.
  induction 1 as [|[x c] g [Hx Hc] _ IH]; [cbn; ring|]. cbn [fst] in Hx. subst x.
  rewrite wsum_cons, ms_n_cons, IH. ring.
Qed.

Lemma single_valued_nonneg v g : single_valued v g -> nonneg_ms g.
Proof.
  intros [_ H]. eapply Forall_impl; [|exact H]. intros e [_ He]. lia.
Qed.

Lemma single_valued_pos v g : single_valued v g -> 0 < ms_n g.
Proof.
  intros Hs. pose proof (single_valued_nonneg v g Hs) as Hn. destruct Hs as [Hne H].
  destruct g as [|[x c] g]; [contradiction|]. inversion H as [|? ? [_ Hc] _]; subst.
  inversion Hn as [|? ? _ Hn']; subst. rewrite ms_n_cons. pose proof (ms_n_nonneg g Hn').
  cbn [snd] in Hc. lia.
Qed.

Lemma ms_count_nonneg v u : nonneg_ms u -> 0 <= ms_count v u.
Proof.
  intros Hu. rewrite ms_count_wsum. apply wsum_nonneg; [exact Hu|]. intros w. unfold ind.
  destruct (w =? v); lia.
Qed.

Lemma ms_count_ge v k u : nonneg_ms u -> In (v, k) u -> k <= ms_count v u.
Proof.
  intros Hu. induction Hu as [|[x c] u Hc Hu IH]; intros Hin; [destruct Hin|].
  rewrite ms_count_cons. cbn [snd] in Hc. destruct Hin as [E|Hin].
  - injection E as -> ->. rewrite Z.eqb_refl. pose proof (ms_count_nonneg v u Hu). unfold ind. lia.
  - pose proof (IH Hin). unfold ind. destruct (x =? v); lia.
Qed.

Lemma less_step P v1 v2 : nonneg_ms P -> v1 < v2 -> ms_less v1 P + ms_count v1 P <= ms_less v2 P.
Proof.
  intros HP Hlt. rewrite !ms_less_wsum, ms_count_wsum, <- wsum_add. apply wsum_mono; [exact HP|].
  intros w. unfold ind. destruct (Z.ltb_spec w v1), (Z.eqb_spec w v1), (Z.ltb_spec w v2); lia.
Qed.

Lemma dc_strict P v1 v2 :
  nonneg_ms P -> v1 < v2 -> 0 < ms_count v1 P + ms_count v2 P -> dc P v1 < dc P v2.
Proof.
  intros HP Hlt Hc. pose proof (less_step P v1 v2 HP Hlt). unfold dc, r2c. lia.
Qed.

Lemma wsum_zero_terms f u :
  nonneg_ms u -> (forall v, 0 <= f v) -> wsum f u = 0 ->
  forall v k, In (v, k) u -> 0 < k -> f v = 0.
Proof.
  intros Hu Hf. induction Hu as [|[x c] u Hc Hu IH]; intros H0 v k Hin Hk; [destruct Hin|].
  rewrite wsum_cons in H0. cbn [snd] in Hc.
  pose proof (wsum_nonneg f u Hu Hf) as Hw. pose proof (Hf x) as Hfx.
  assert (Hcx : 0 <= c * f x) by (apply Z.mul_nonneg_nonneg; assumption).
  destruct Hin as [E|Hin].
  - injection E as -> ->. assert (Hz : k * f v = 0) by lia.
    apply Z.mul_eq_0 in Hz. destruct Hz; [lia|assumption].
  - apply (IH ltac:(lia) v k Hin Hk).
Qed.

Lemma sq_dev_pos P v1 k1 v2 k2 :
  nonneg_ms P -> In (v1, k1) P -> In (v2, k2) P -> 0 < k1 -> 0 < k2 -> v1 <> v2 -> 0 < sq_dev P.
Proof.
  intros HP H1 H2 Hk1 Hk2 Hne.
  assert (H0 : 0 <= sq_dev P) by (apply wsum_nonneg; [exact HP|]; intros v; apply Z.square_nonneg).
  destruct (Z.eq_dec (sq_dev P) 0) as [E|]; [exfalso|lia].
  pose proof (wsum_zero_terms _ P HP (fun v => Z.square_nonneg (dc P v)) E) as Hz.
  pose proof (Hz v1 k1 H1 Hk1) as Z1. pose proof (Hz v2 k2 H2 Hk2) as Z2.
  apply Z.mul_eq_0 in Z1, Z2.
  pose proof (ms_count_ge v1 k1 P HP H1). pose proof (ms_count_ge v2 k2 P HP H2).
  destruct (Z.lt_total v1 v2) as [Hlt|[Heq|Hgt]]; [|contradiction|].
  - pose proof (dc_strict P v1 v2 HP Hlt). lia.
  - pose proof (dc_strict P v2 v1 HP Hgt). lia.
Qed.

Lemma Forall2_In_r {A B} (R : A -> B -> Prop) la lb b :
  Forall2 R la lb -> In b lb -> exists a, In a la /\ R a b.
Proof.
  induction 1 as [|a0 b0 la lb HR _ IH]; intros Hin; [destruct Hin|].
  destruct Hin as [<-|Hin]; [exists a0; split; [left; reflexivity|exact HR]|].
  destruct (IH Hin) as [a [Ha HRa]]. exists a. split; [right; exact Ha|exact HRa].
Qed.

Lemma gsum_nonneg F gs : (forall g, In g gs -> 0 <= F g) -> 0 <= gsum F gs.
Proof.
  induction gs as [|g gs IH]; intros H; [cbn; lia|]. cbn [gsum fold_right]. fold (gsum F gs).
  pose proof (H g (or_introl eq_refl)).
  assert (0 <= gsum F gs) by (apply IH; intros k Hk; apply H; right; exact Hk). lia.
Qed.

Theorem kruskal_perfect_value vs gs :
  Forall2 single_valued vs gs -> NoDup vs -> (2 <= List.length gs)%nat ->
  kruskal gs = Some (Qred (kruskal_value gs))
  /\ (kruskal_value gs == inject_Z (ms_n (ms_union gs) - 1))%Q.
Proof.
  intros HF Hnd Hlen.
  assert (Hsv : forall g, In g gs -> exists v, single_valued v g).
  { intros g Hg. destruct (Forall2_In_r _ _ _ g HF Hg) as [v [_ Hv]]. exists v. exact Hv. }
  assert (Hpos : forall g, In g gs -> 0 < ms_n g).
  { intros g Hg. destruct (Hsv g Hg) as [v Hv]. apply (single_valued_pos v g Hv). }
  assert (Hwf : groups_nonneg gs).
  { apply Forall_forall. intros g Hg. destruct (Hsv g Hg) as [v Hv].
    apply (single_valued_nonneg v g Hv). }
  assert (HP : nonneg_ms (ms_union gs)) by (apply nonneg_union, Hwf).
  assert (HN : 1 < ms_n (ms_union gs) /\ 0 < sq_dev (ms_union gs)).
  { destruct HF as [|v1 g1 vs1 gs1 H1 HF1]; [cbn in Hlen; lia|].
    destruct HF1 as [|v2 g2 vs2 gs2 H2 HF2]; [cbn in Hlen; lia|]. split.
    - rewrite ms_n_union. cbn [gsum fold_right]. fold (gsum ms_n gs2).
      pose proof (Hpos g1 (or_introl eq_refl)). pose proof (Hpos g2 (or_intror (or_introl eq_refl))).
      assert (0 <= gsum ms_n gs2).
      { apply gsum_nonneg. intros g Hg. assert (0 < ms_n g) by (apply Hpos; right; right; exact Hg). lia. }
      lia.
    - destruct H1 as [Hne1 Hall1], H2 as [Hne2 Hall2].
      destruct g1 as [|[x1 k1] g1]; [contradiction|]. destruct g2 as [|[x2 k2] g2]; [contradiction|].
      inversion Hall1 as [|? ? [Hx1 Hk1] _]; subst. inversion Hall2 as [|? ? [Hx2 Hk2] _]; subst.
      cbn [fst snd] in *.
      apply (sq_dev_pos _ x1 k1 x2 k2 HP); try assumption.
      + unfold ms_union. cbn [concat]. left. reflexivity.
      + unfold ms_union. cbn [concat]. apply in_or_app. right. left. reflexivity.
      + inversion Hnd as [|? ? Hni _]; subst. intros E. apply Hni. left. symmetry. exact E. }
  destruct HN as [HN HE]. split.
  - rewrite kruskal_unfold.
    replace (ms_n (ms_union gs) <=? 1) with false by (symmetry; apply Z.leb_gt; lia).
    replace (3 * sq_dev (ms_union gs) =? 0) with false by (symmetry; apply Z.eqb_neq; lia).
    rewrite existsb_zero_intro; [reflexivity|].
    intros g Hg. pose proof (Hpos g Hg). lia.
  - unfold kruskal_value. cbn zeta. rewrite (kruskal_numerator gs HN Hpos).
    set (P := ms_union gs) in *. set (N := ms_n P) in *.
    assert (HD : 0 < N * N * N - N) by nia.
    rewrite (qsum_eq (fun g => wsum (dc P) g) ms_n (fun g => wsum (fun w => dc P w * dc P w) g)).
    2:{ intros g Hg. split; [apply Hpos, Hg|]. destruct (Hsv g Hg) as [v [_ Hv]].
        rewrite !(single_valued_wsum _ v g Hv). ring. }
    pose proof (sq_dev_groups gs) as Hsq. fold P in Hsq. rewrite Hsq.
    rewrite (kruskal_scale N (sq_dev P) HN).
    apply Qdiv_mult_l. unfold Qeq. cbn [Qnum Qden]. lia.
Qed.

Theorem kruskal_perfect vs gs :
  Forall2 single_valued vs gs -> NoDup vs -> (2 <= List.length gs)%nat ->
  exists h, kruskal gs = Some h /\ (h == inject_Z (ms_n (ms_union gs) - 1))%Q.
Proof.
  intros HF Hnd Hlen. destruct (kruskal_perfect_value vs gs HF Hnd Hlen) as [Hk Hv].
  exists (Qred (kruskal_value gs)). split; [exact Hk|]. rewrite Qred_correct. exact Hv.
Qed.

(* with the upper bound: no feature on the same (or fewer) rows has a larger H *)
Corollary kruskal_perfect_maximal vs gs gs' h' :
  Forall2 single_valued vs gs -> NoDup vs -> (2 <= List.length gs)%nat ->
  Forall (Forall (fun e : Z * Z => 0 < snd e)) gs' -> kruskal gs' = Some h' ->
  ms_n (ms_union gs') <= ms_n (ms_union gs) ->
  exists h, kruskal gs = Some h /\ (h == inject_Z (ms_n (ms_union gs) - 1))%Q /\ (h' <= h)%Q.
Proof.
  intros HF Hnd Hlen Hwf' Hk' Hn. destruct (kruskal_perfect vs gs HF Hnd Hlen) as [h [Hk Hh]].
  exists h. split; [exact Hk|]. split; [exact Hh|]. rewrite Hh.
  eapply Qle_trans; [apply (kruskal_upper_bound gs' h' Hwf' Hk')|].
  rewrite <- Zle_Qle. lia.
Qed.

Theorem kruskal_perfect_is_maximal vs gs :
  Forall2 single_valued vs gs -> NoDup vs -> (2 <= List.length gs)%nat ->
  exists h, kruskal gs = Some h /\ (h == inject_Z (ms_n (ms_union gs) - 1))%Q /\
    forall gs' h', Forall (Forall (fun e : Z * Z => 0 < snd e)) gs' -> kruskal gs' = Some h' ->
                   ms_n (ms_union gs') <= ms_n (ms_union gs) -> (h' <= h)%Q.
Proof.
  intros HF Hnd Hlen. destruct (kruskal_perfect vs gs HF Hnd Hlen) as [h [Hk Hh]].
  exists h. split; [exact Hk|]. split; [exact Hh|]. intros gs' h' Hwf' Hk' Hn.
  destruct (kruskal_perfect_maximal vs gs gs' h' HF Hnd Hlen Hwf' Hk' Hn) as [h2 [Hk2 [_ Hle]]].
  assert (h2 = h) by congruence. subst h2. exact Hle.
Qed.

Example kruskal_bound_examples :
  kruskal [[(1, 3)]; [(5, 2)]; [(2, 4)]] = Some (8 # 1)%Q /\
  kruskal [[(1, 2); (1, 1)]; [(7, 2)]] = Some (4 # 1)%Q /\
  kruskal [[(1, 3); (5, 1)]; [(5, 2)]; [(2, 4); (1, 1)]] = Some (3441 # 784)%Q /\
  kruskal [[(3, 2)]; [(3, 5)]] = None.
Proof. repeat split; vm_compute; reflexivity. Qed.

Print Assumptions kruskal_upper_bound.
Print Assumptions kruskal_perfect.
Print Assumptions kruskal_perfect_maximal.
Print Assumptions kruskal_perfect_is_maximal.
