(* CategoricalOrderProofs.v — the order of the modalities fitted by CategoricalDiscretizer, and
   "fit never fails internally" for the ordinal and categorical models.  For ALL inputs:

     1. [sort_rates_locally_sorted]  the output of [sort_rates] is [Sorted rate_le]: every adjacent
        pair is in the order of the comparator [f_le_nanlast] used by [insert_rate] (NaN last).
        Only TOTALITY of the comparator is needed (not transitivity); it is proved for every pair
        of [spec_float]s, canonical or not: no side condition ([f_le_nanlast_total]).
     2. [sort_rates_perm]            [sort_rates l] is a permutation of [l].
     3. [categorical_leaders_in_rate_order] (+ [categorical_adjacent_leaders]) the fitted order is
        [map fst (sort_rates training_rates)] followed by [str_nan] when values are missing.
     4. [ordinal_fit_total], [categorical_fit_total]  the result is never [InternalErr]
        (no side condition), with the exact condition under which it is [AssertErr].
     Bonus: the comparator is also transitive on all spec_floats ([f_le_nanlast_trans]), hence
     [sort_rates_strongly_sorted] and [categorical_leaders_globally_ordered].

   Stdlib only; no axioms (see the [Print Assumptions] at the end). *)
From Coq Require Import ZArith List Bool Lia Permutation Sorted SpecFloat.
From AC.Model Require Import Base Float GroupedList Quantiles Ordinal Categorical.
From AC.Proofs Require Import DiscretizeProofs.
Import ListNotations.
Open Scope Z_scope.

(* ============================================================================================ *)
(* Part A — the comparator of [insert_rate] is total                                            *)
(* ============================================================================================ *)

(* [SFcompare] answers on every pair without NaN, whatever the mantissas and exponents *)
Lemma SFcompare_defined : forall a b,
  f_is_nan a = false -> f_is_nan b = false -> exists c, SFcompare a b = Some c.
Proof.
  intros a b Ha Hb. destruct a, b; cbn in Ha, Hb; try discriminate; cbn [SFcompare]; eauto.
Qed.

(* on non-NaN floats  not (a <= b)  implies  b <= a  (indeed b < a) *)
Lemma fleb_total : forall a b,
  f_is_nan a = false -> f_is_nan b = false -> fleb a b = false -> fleb b a = true.
Proof.
  intros a b Ha Hb H. destruct (SFcompare_defined a b Ha Hb) as [c E].
  unfold fleb, SFleb in *. rewrite SFcompare_antisym, E. rewrite E in H. cbn [option_map].
  destruct c; cbn [CompOpp]; try reflexivity; discriminate H.
Qed.

(* TOTALITY, for ALL pairs of spec_floats (NaN, signed zeros, infinities, non-canonical finite) *)
Theorem f_le_nanlast_total : forall a b, f_le_nanlast a b = false -> f_le_nanlast b a = true.
Proof.
  intros a b H. unfold f_le_nanlast in *.
  destruct (f_is_nan b) eqn:Hb; [discriminate H|].
  destruct (f_is_nan a) eqn:Ha; [reflexivity|].
  apply fleb_total; assumption.
Qed.

Corollary f_le_nanlast_total_or : forall a b, f_le_nanlast a b = true \/ f_le_nanlast b a = true.
Proof.
  intros a b. destruct (f_le_nanlast a b) eqn:E; [left; reflexivity|right].
  apply f_le_nanlast_total; exact E.
Qed.

Corollary f_le_nanlast_refl : forall a, f_le_nanlast a a = true.
Proof. intros a. destruct (f_le_nanlast_total_or a a); assumption. Qed.

(* NaN is a maximum, and only NaN is above NaN *)
Lemma f_le_nanlast_nan_r : forall a, f_le_nanlast a S754_nan = true.
Proof. reflexivity. Qed.

Lemma f_le_nanlast_nan_l : forall b, f_le_nanlast S754_nan b = true -> b = S754_nan.
Proof. intros b H. destruct b; cbn in H; try discriminate H. reflexivity. Qed.

(* BONUS (not needed for adjacent-pair sortedness): the comparator is also transitive, for all
   spec_floats: with totality it is a total preorder (ties: equal values, +0/-0, NaN/NaN) *)
Lemma fleb_trans : forall a b c, fleb a b = true -> fleb b c = true -> fleb a c = true.
Proof.
  intros a b c. unfold fleb, SFleb.
  destruct a as [sa|sa| |sa ma ea], b as [sb|sb| |sb mb eb], c as [sc|sc| |sc mc ec];
    cbn [SFcompare]; try discriminate; try reflexivity;
    try (destruct sa; try discriminate; try reflexivity; fail);
    try (destruct sb; try discriminate; try reflexivity; fail);
    try (destruct sc; try discriminate; try reflexivity; fail);
    try (destruct sa, sb; try discriminate; try reflexivity; fail);
    try (destruct sa, sc; try discriminate; try reflexivity; fail);
    try (destruct sb, sc; try discriminate; try reflexivity; fail);
    try (destruct sa, sb, sc; try discriminate; try reflexivity; fail).
  all: destruct sa, sb, sc; try discriminate; try reflexivity.
  all: change (Pos.compare_cont Eq ma mb) with (Pos.compare ma mb);
       change (Pos.compare_cont Eq mb mc) with (Pos.compare mb mc);
       change (Pos.compare_cont Eq ma mc) with (Pos.compare ma mc).
  all: destruct (Z.compare_spec ea eb), (Z.compare_spec eb ec), (Z.compare_spec ea ec);
       try discriminate; try reflexivity; try lia.
  all: destruct (Pos.compare_spec ma mb), (Pos.compare_spec mb mc), (Pos.compare_spec ma mc);
       cbn [CompOpp]; try discriminate; try reflexivity; try lia.
Qed.

Theorem f_le_nanlast_trans : forall a b c,
  f_le_nanlast a b = true -> f_le_nanlast b c = true -> f_le_nanlast a c = true.
Proof.
  intros a b c Hab Hbc. unfold f_le_nanlast in *.
  destruct (f_is_nan c); [reflexivity|].
  destruct (f_is_nan b); [discriminate Hbc|].
  destruct (f_is_nan a); [discriminate Hab|].
  exact (fleb_trans a b c Hab Hbc).
Qed.

(* ============================================================================================ *)
(* Part B — [sort_rates]: adjacent pairs in order, permutation of the input                     *)
(* ============================================================================================ *)

(* the adjacent-pair relation induced by the comparator of [insert_rate] *)
Definition rate_le (x y : val * fl) : Prop := f_le_nanlast (snd x) (snd y) = true.

Lemma insert_rate_sorted : forall a l, Sorted rate_le l -> Sorted rate_le (insert_rate a l).
Proof.
  intros a l H. induction H as [|x t Ht IH Hx]; cbn [insert_rate].
  - constructor; constructor.
  - destruct (f_le_nanlast (snd a) (snd x)) eqn:E.
    + constructor; [constructor; assumption|constructor; exact E].
    + apply f_le_nanlast_total in E. constructor; [exact IH|].
      destruct t as [|y t']; cbn [insert_rate].
      * constructor. exact E.
      * destruct (f_le_nanlast (snd a) (snd y)); constructor; [exact E|].
        inversion Hx; assumption.
Qed.

Theorem sort_rates_locally_sorted : forall l, Sorted rate_le (sort_rates l).
Proof.
  induction l as [|a t IH]; unfold sort_rates in *; cbn [fold_right]; [constructor|].
  apply insert_rate_sorted. exact IH.
Qed.

Lemma insert_rate_perm : forall a l, Permutation (insert_rate a l) (a :: l).
Proof.
  intros a l. induction l as [|x t IH]; cbn [insert_rate]; [apply Permutation_refl|].
  destruct (f_le_nanlast (snd a) (snd x)); [apply Permutation_refl|].
  eapply perm_trans; [apply perm_skip; exact IH|apply perm_swap].
Qed.

Theorem sort_rates_perm : forall l, Permutation (sort_rates l) l.
Proof.
  induction l as [|a t IH]; unfold sort_rates in *; cbn [fold_right]; [constructor|].
  eapply perm_trans; [apply insert_rate_perm|apply perm_skip; exact IH].
Qed.

(* BONUS: by transitivity the order is global: every element is below all the later ones *)
Corollary sort_rates_strongly_sorted : forall l, StronglySorted rate_le (sort_rates l).
Proof.
  intros l. apply Sorted_StronglySorted; [|apply sort_rates_locally_sorted].
  intros x y z. unfold rate_le. apply f_le_nanlast_trans.
Qed.

Corollary sort_rates_length : forall l, List.length (sort_rates l) = List.length l.
Proof. intros l. apply Permutation_length, sort_rates_perm. Qed.

(* the positional reading of [Sorted]: consecutive positions are in order *)
Lemma sorted_adjacent : forall (A : Type) (R : A -> A -> Prop) l i x y,
  Sorted R l -> nth_error l i = Some x -> nth_error l (S i) = Some y -> R x y.
Proof.
  intros A R l i x y H. revert i. induction H as [|a t Ht IH Ha]; intros i Hx Hy.
  - destruct i; discriminate Hx.
  - destruct i as [|j].
    + cbn in Hx, Hy. injection Hx as <-. destruct t as [|b t']; [discriminate Hy|].
      cbn in Hy. injection Hy as <-. inversion Ha; assumption.
    + cbn [nth_error] in Hx. change (nth_error (a :: t) (S (S j))) with (nth_error t (S j)) in Hy.
      exact (IH j Hx Hy).
Qed.

Corollary sort_rates_adjacent : forall l i x y,
  nth_error (sort_rates l) i = Some x -> nth_error (sort_rates l) (S i) = Some y ->
  f_le_nanlast (snd x) (snd y) = true.
Proof. intros l i x y. apply (sorted_adjacent _ rate_le), sort_rates_locally_sorted. Qed.

(* sorting is the identity on a list whose adjacent pairs are already in order (stability) *)
Lemma sort_rates_sorted_id : forall l, Sorted rate_le l -> sort_rates l = l.
Proof.
  intros l H. induction H as [|a t Ht IH Ha]; [reflexivity|].
  unfold sort_rates in *. cbn [fold_right]. rewrite IH.
  destruct Ha as [|b t' Hab]; cbn [insert_rate]; [reflexivity|].
  unfold rate_le in Hab. rewrite Hab. reflexivity.
Qed.

Corollary sort_rates_idempotent : forall l, sort_rates (sort_rates l) = sort_rates l.
Proof. intros l. apply sort_rates_sorted_id, sort_rates_locally_sorted. Qed.

(* ============================================================================================ *)
(* Part C — the fitted order of CategoricalDiscretizer                                          *)
(* ============================================================================================ *)

(* the (leader, training target rate) pairs handed to the sort, exactly as [categorical_fit]
   builds them: one pair per kept observed value, then the pair of str_default when rows moved *)
Section TrainingRates.
  Context (mf : Z * Z) (nan_cnt : Z) (order : list val) (d : odata).

  Definition cat_n : Z := nan_cnt + count_rows d.
  Definition cat_has_nan : bool := 0 <? nan_cnt.
  Definition cat_to_group : list val :=
    rare_observed cat_n (min_freq_f mf) d ++ never_observed order d cat_has_nan.
  Definition cat_grouped (v : val) : bool := existsb truthy cat_to_group && mem v cat_to_group.
  Definition cat_kept : odata := filter (fun p => negb (cat_grouped (fst (fst p)))) d.
  Definition cat_moved : odata := filter (fun p => cat_grouped (fst (fst p))) d.
  Definition cat_default_rate : fl :=
    rate (count_rows cat_moved) (fold_right (fun p acc => snd p + acc) 0 cat_moved).
  Definition cat_training_rates : list (val * fl) :=
    map (fun p => (fst (fst p), rate (snd (fst p)) (snd p))) cat_kept
    ++ match cat_moved with [] => [] | _ => [(str_default, cat_default_rate)] end.
  Definition cat_nan_tail : list val := if cat_has_nan then [str_nan] else [].

  (* every pair is a leader with ITS training rate: sum of y / count, one rounded division *)
  Lemma In_cat_training_rates : forall v r,
    In (v, r) cat_training_rates <->
    (exists c s, In (v, c, s) d /\ cat_grouped v = false /\ r = rate c s)
    \/ (cat_moved <> [] /\ v = str_default /\ r = cat_default_rate).
  Proof.
    intros v r. unfold cat_training_rates. rewrite in_app_iff, in_map_iff. split.
    - intros [[[[w c] s] [E Hin]]|H].
      + cbn [fst snd] in E. injection E as <- <-. unfold cat_kept in Hin.
        apply filter_In in Hin. destruct Hin as [Hin Hg]. cbn [fst] in Hg.
        apply negb_true_iff in Hg. left. exists c, s. auto.
      + right. destruct cat_moved as [|p t]; [destruct H|].
        destruct H as [E|[]]. injection E as <- <-. split; [discriminate|auto].
    - intros [(c & s & Hin & Hg & ->)|(Hm & -> & ->)].
      + left. exists (v, c, s). split; [reflexivity|]. unfold cat_kept. apply filter_In.
        split; [exact Hin|]. cbn [fst]. rewrite Hg. reflexivity.
      + right. destruct cat_moved; [contradiction|]. left. reflexivity.
  Qed.

  (* how the fitted order is built *)
  Lemma categorical_fit_order : forall st,
    categorical_fit mf nan_cnt order d = Ok (Some st) ->
    cs_rates st = sort_rates cat_training_rates
    /\ cs_keys st = (map fst (cs_rates st) ++ cat_nan_tail)%list.
  Proof.
    intros st H. unfold categorical_fit in H. cbv zeta in H.
    repeat match type of H with (if ?c then _ else _) = _ => destruct c; try discriminate H end.
    injection H as <-. cbn [cs_keys cs_rates]. split; reflexivity.
  Qed.

  (* 3. the non-missing leaders are the (leader, training rate) pairs in [sort_rates] order:
        adjacent pairs non-decreasing for the comparator; the missing-value sentinel comes last *)
  Theorem categorical_leaders_in_rate_order : forall st,
    categorical_fit mf nan_cnt order d = Ok (Some st) ->
    cs_keys st = (map fst (cs_rates st) ++ (if 0 <? nan_cnt then [str_nan] else []))%list
    /\ cs_rates st = sort_rates cat_training_rates
    /\ Sorted rate_le (cs_rates st)
    /\ Permutation (cs_rates st) cat_training_rates.
  Proof.
    intros st H. destruct (categorical_fit_order st H) as [Hr Hk].
    split; [exact Hk|]. split; [exact Hr|]. rewrite Hr.
    split; [apply sort_rates_locally_sorted|apply sort_rates_perm].
  Qed.

  (* BONUS: globally, each non-missing leader's training rate is below those of all later ones *)
  Corollary categorical_leaders_globally_ordered : forall st,
    categorical_fit mf nan_cnt order d = Ok (Some st) -> StronglySorted rate_le (cs_rates st).
  Proof.
    intros st H. destruct (categorical_fit_order st H) as [-> _]. apply sort_rates_strongly_sorted.
  Qed.

  (* positional reading on the fitted order itself: two consecutive leaders are either two
     non-missing leaders whose training rates are in comparator order, or the second one is the
     str_nan sentinel sitting right after all the non-missing leaders *)
  Corollary categorical_adjacent_leaders : forall st i k1 k2,
    categorical_fit mf nan_cnt order d = Ok (Some st) ->
    nth_error (cs_keys st) i = Some k1 -> nth_error (cs_keys st) (S i) = Some k2 ->
    (exists r1 r2, nth_error (cs_rates st) i = Some (k1, r1)
                   /\ nth_error (cs_rates st) (S i) = Some (k2, r2)
                   /\ In (k1, r1) cat_training_rates /\ In (k2, r2) cat_training_rates
                   /\ f_le_nanlast r1 r2 = true)
    \/ (0 < nan_cnt /\ k2 = str_nan /\ S i = List.length (cs_rates st)
        /\ List.length (cs_keys st) = S (S i)).
  Proof.
    intros st i k1 k2 H H1 H2.
    destruct (categorical_leaders_in_rate_order st H) as (Hk & Hr & Hs & Hp).
    set (rs := cs_rates st) in *.
    assert (Hlen : List.length (map fst rs) = List.length rs) by apply map_length.
    destruct (Nat.lt_ge_cases (S i) (List.length rs)) as [Hlt|Hge].
    - left. rewrite Hk in H1, H2.
      rewrite nth_error_app1 in H1 by lia. rewrite nth_error_app1 in H2 by lia.
      rewrite nth_error_map in H1, H2.
      destruct (nth_error rs i) as [[a r1]|] eqn:E1; [|discriminate H1].
      destruct (nth_error rs (S i)) as [[b r2]|] eqn:E2; [|discriminate H2].
      cbn in H1, H2. injection H1 as ->. injection H2 as ->.
      exists r1, r2. split; [reflexivity|]. split; [reflexivity|].
      split; [eapply Permutation_in; [exact Hp|eapply nth_error_In; exact E1]|].
      split; [eapply Permutation_in; [exact Hp|eapply nth_error_In; exact E2]|].
      exact (sorted_adjacent _ rate_le rs i _ _ Hs E1 E2).
    - right. rewrite Hk in H2. rewrite nth_error_app2 in H2 by lia. rewrite Hlen in H2.
      destruct (0 <? nan_cnt) eqn:Hn.
      + apply Z.ltb_lt in Hn.
        destruct (S i - List.length rs)%nat as [|j] eqn:Ej.
        * cbn in H2. injection H2 as <-. rewrite Hk, app_length, Hlen. cbn [List.length].
          repeat split; lia.
        * destruct j; discriminate H2.
      + destruct (S i - List.length rs)%nat; discriminate H2.
  Qed.
End TrainingRates.

(* ============================================================================================ *)
(* Part D — the fits never fail internally                                                      *)
(* ============================================================================================ *)

(* OrdinalDiscretizer: dropped, fitted, or AssertionError (_check_new_values) — exactly when an
   observed value is missing from the ranking of a feature that is not dropped.  No side
   condition: duplicated or never-observed ranking values, zero or negative counts included. *)
Theorem ordinal_fit_total : forall mf nan_cnt order d,
  let n := nan_cnt + count_rows d in
  let dropped := all_rare n (min_freq_f mf) (map (fun p => snd (fst p)) d) in
  let ranked := forallb (fun p => mem (fst (fst p)) order) d in
  (dropped = true /\ ordinal_fit mf nan_cnt order d = Ok None)
  \/ (dropped = false /\ ranked = true /\ exists g, ordinal_fit mf nan_cnt order d = Ok (Some g))
  \/ (dropped = false /\ ranked = false /\ ordinal_fit mf nan_cnt order d = AssertErr).
Proof.
  intros mf nan_cnt order d n dropped ranked. unfold ordinal_fit. fold n. fold dropped. fold ranked.
  destruct dropped; [left; auto|right].
  destruct ranked; cbn [negb]; [left|right; auto].
  destruct (find_common_modalities_total n (min_freq_f mf) (map (init_bucket d) order)) as [bs ->].
  split; [reflexivity|]. split; [reflexivity|]. eexists. reflexivity.
Qed.

Corollary ordinal_fit_never_internal : forall mf nan_cnt order d,
  ordinal_fit mf nan_cnt order d <> InternalErr.
Proof.
  intros mf nan_cnt order d.
  destruct (ordinal_fit_total mf nan_cnt order d) as [[_ ->]|[(_ & _ & g & ->)|(_ & _ & ->)]];
    discriminate.
Qed.

(* CategoricalDiscretizer: the model has no internal failure at all *)
Theorem categorical_fit_total : forall mf nan_cnt order d,
  categorical_fit mf nan_cnt order d = Ok None
  \/ (exists st, categorical_fit mf nan_cnt order d = Ok (Some st))
  \/ categorical_fit mf nan_cnt order d = AssertErr.
Proof.
  intros mf nan_cnt order d. unfold categorical_fit. cbv zeta.
  repeat match goal with |- context [if ?c then _ else _] => destruct c end; eauto.
Qed.

Corollary categorical_fit_never_internal : forall mf nan_cnt order d,
  categorical_fit mf nan_cnt order d <> InternalErr.
Proof.
  intros mf nan_cnt order d.
  destruct (categorical_fit_total mf nan_cnt order d) as [ -> | [ [st ->] | -> ] ]; discriminate.
Qed.

(* [categorical_fit] restated on the [cat_*] definitions (definitional unfolding) *)
Lemma categorical_fit_unfold : forall mf nan_cnt order d,
  categorical_fit mf nan_cnt order d =
  if all_rare (cat_n nan_cnt d) (min_freq_f mf) (map (fun p => snd (fst p)) d) then Ok None
  else if negb (forallb (fun v => mem v order) (observed d)) then AssertErr
  else if negb (existsb truthy (cat_to_group mf nan_cnt order d))
          && negb (match never_observed order d (cat_has_nan nan_cnt) with [] => true | _ => false end)
  then AssertErr
  else if Bool.eqb (existsb truthy (cat_to_group mf nan_cnt order d))
                   (match cat_moved mf nan_cnt order d with [] => false | _ => true end)
  then
    let rates := sort_rates (cat_training_rates mf nan_cnt order d) in
    Ok (Some (mkCat
      (map fst rates ++ cat_nan_tail nan_cnt)%list
      (map (fun kr => if val_eqb (fst kr) str_default
                      then (str_default, rev (cat_to_group mf nan_cnt order d) ++ [str_default])
                      else (fst kr, [fst kr])) rates
       ++ (if cat_has_nan nan_cnt then [(str_nan, [str_nan])] else []))%list
      rates))
  else AssertErr.
Proof. reflexivity. Qed.

(* exactly when the categorical fit raises its AssertionError: the feature is not dropped and
   (a) an observed value is not in the order (_check_new_values), or
   (b) nothing truthy to group while some value of the order was never observed (sort_by), or
   (c) "something truthy to group" and "some observed row is moved to str_default" disagree *)
Theorem categorical_fit_assert_iff : forall mf nan_cnt order d,
  categorical_fit mf nan_cnt order d = AssertErr <->
  all_rare (cat_n nan_cnt d) (min_freq_f mf) (map (fun p => snd (fst p)) d) = false
  /\ (forallb (fun v => mem v order) (observed d) = false
      \/ (existsb truthy (cat_to_group mf nan_cnt order d) = false
          /\ never_observed order d (cat_has_nan nan_cnt) <> [])
      \/ existsb truthy (cat_to_group mf nan_cnt order d)
         <> match cat_moved mf nan_cnt order d with [] => false | _ => true end).
Proof.
  intros mf nan_cnt order d. rewrite categorical_fit_unfold. cbv zeta.
  destruct (all_rare _ _ _); [split; [discriminate|intros [E _]; discriminate E]|].
  destruct (forallb _ (observed d)); cbn [negb]; [|split; auto].
  destruct (existsb truthy _) eqn:Eg; cbn [negb andb].
  - destruct (cat_moved mf nan_cnt order d); cbn [eqb].
    + split; [intros _|reflexivity]. split; [reflexivity|]. right. right. discriminate.
    + split; [discriminate|]. intros [_ [E|[[E _]|E]]]; try discriminate E. exfalso. apply E. reflexivity.
  - destruct (never_observed order d _) eqn:En; cbn [negb].
    + destruct (cat_moved mf nan_cnt order d); cbn [eqb].
      * split; [discriminate|]. intros [_ [E|[[_ E]|E]]]; try discriminate E; exfalso; apply E; reflexivity.
      * split; [intros _|reflexivity]. split; [reflexivity|]. right. right. discriminate.
    + split; [intros _|reflexivity]. split; [reflexivity|]. right. left. split; [reflexivity|discriminate].
Qed.

(* ---- sanity: instances ------------------------------------------------------------------- *)
Example comparator_total_on_exotic_pairs :
  let fs := [S754_nan; S754_zero true; S754_zero false; S754_infinity true; S754_infinity false;
             S754_finite false 3 5; S754_finite false 3 4; S754_finite true 3 5;
             S754_finite false 100 1; S754_finite true 7 (-3); rate 3 1; rate 3 2; rate 0 0;
             rate 0 1] in
  forallb (fun a => forallb (fun b => f_le_nanlast a b || f_le_nanlast b a) fs) fs = true.
Proof. vm_compute. reflexivity. Qed.

Example categorical_fit_instance :
  let d := [(VNum 1, 10, 3); (VNum 2, 10, 7); (VNum 3, 1, 1); (VNum 4, 12, 2)] in
  option_map cs_keys
    match categorical_fit (1, -3) 2 [VNum 1; VNum 2; VNum 3; VNum 4; VNum 5] d with
    | Ok r => r | _ => None end
  = Some [VNum 4; VNum 1; VNum 2; str_default; str_nan].
Proof. vm_compute. reflexivity. Qed.

Print Assumptions f_le_nanlast_total.
Print Assumptions f_le_nanlast_trans.
Print Assumptions sort_rates_locally_sorted.
Print Assumptions sort_rates_strongly_sorted.
Print Assumptions sort_rates_perm.
Print Assumptions sort_rates_adjacent.
Print Assumptions sort_rates_idempotent.
Print Assumptions In_cat_training_rates.
Print Assumptions categorical_leaders_in_rate_order.
Print Assumptions categorical_adjacent_leaders.
Print Assumptions categorical_leaders_globally_ordered.
Print Assumptions ordinal_fit_total.
Print Assumptions ordinal_fit_never_internal.
Print Assumptions categorical_fit_total.
Print Assumptions categorical_fit_never_internal.
Print Assumptions categorical_fit_assert_iff.
