(* ObjectProofs.v — transform is row-wise pure and leaves the fitted object unchanged (C07) *)
From Coq Require Import List String Bool Lia.
Import ListNotations.
From AC.Model Require Import Base GroupedList Labels Transform Object.

(* ---- generic facts on row selection ------------------------------------------------------ *)
Lemma take_rows_map {A B} (f : A -> B) sel (c : list A) : take_rows sel (map f c) = map f (take_rows sel c).
Proof.
  unfold take_rows, select_rows. induction sel as [|i t IH]; cbn; [reflexivity|].
  rewrite nth_error_map. destruct (nth_error c i); cbn; [f_equal|]; exact IH.
Qed.

Lemma take_rows_In {A} sel (c : list A) x : In x (take_rows sel c) -> In x c.
Proof.
  unfold take_rows, select_rows. induction sel as [|i t IH]; cbn; [tauto|].
  destruct (nth_error c i) eqn:E; cbn.
  - intros [<-|H]; [eapply nth_error_In; exact E|apply IH; exact H].
  - exact IH.
Qed.

(* ---- one column ----------------------------------------------------------------------------- *)
Lemma existsb_false_map {A B} (p : B -> bool) (f : A -> B) l :
  existsb p (map f l) = false <-> forall x, In x l -> p (f x) = false.
Proof.
  induction l as [|a t IH]; cbn; [tauto|]. rewrite orb_false_iff, IH. split.
  - intros [H1 H2] x [<-|Hx]; auto.
  - intros H. split; [apply H; left; reflexivity|intros x Hx; apply H; right; exact Hx].
Qed.

Lemma oks_all_ok {A B} (f : A -> res B) l :
  (forall x, In x l -> is_assert (f x) = false /\ is_internal (f x) = false) ->
  map (@Ok B) (oks (map f l)) = map f l.
Proof.
  induction l as [|a t IH]; intros H; cbn; [reflexivity|].
  destruct (H a (or_introl eq_refl)) as [H1 H2].
  destruct (f a) eqn:E; cbn in *; try discriminate.
  f_equal. apply IH. intros x Hx. apply H. right. exact Hx.
Qed.

Lemma oks_map_Ok {A} (l : list A) : oks (map (@Ok A) l) = l.
Proof. induction l as [|a t IH]; cbn; [reflexivity|f_equal; exact IH]. Qed.

(* the cell function behind a successful column *)
Lemma transform_col_ok_cells st cells outs : transform_col st cells = Ok outs ->
  (forall x, In x cells -> is_assert (transform_cell st x) = false /\ is_internal (transform_cell st x) = false)
  /\ outs = oks (map (transform_cell st) cells).
Proof.
  unfold transform_col. intros H.
  destruct (existsb is_assert (map (transform_cell st) cells)) eqn:Ea; [discriminate|].
  destruct (existsb is_internal (map (transform_cell st) cells)) eqn:Ei; [discriminate|].
  split.
  - intros x Hx. split.
    + exact (proj1 (existsb_false_map is_assert (transform_cell st) cells) Ea x Hx).
    + exact (proj1 (existsb_false_map is_internal (transform_cell st) cells) Ei x Hx).
  - destruct (st_kind st); [destruct (quant_ready st); [|discriminate]|]; injection H as <-; reflexivity.
Qed.

(* transforming any selection / reordering of the rows gives the corresponding rows *)
Theorem transform_col_pure : forall st cells outs sel,
  transform_col st cells = Ok outs -> transform_col st (take_rows sel cells) = Ok (take_rows sel outs).
Proof.
  intros st cells outs sel H. destruct (transform_col_ok_cells st cells outs H) as [Hall ->].
  assert (Hsub : forall x, In x (take_rows sel cells) ->
            is_assert (transform_cell st x) = false /\ is_internal (transform_cell st x) = false).
  { intros x Hx. apply Hall. eapply take_rows_In. exact Hx. }
  assert (Eq : oks (map (transform_cell st) (take_rows sel cells))
               = take_rows sel (oks (map (transform_cell st) cells))).
  { pose proof (oks_all_ok _ _ Hall) as Hg.
    remember (oks (map (transform_cell st) cells)) as g eqn:Eg. clear Eg.
    rewrite <- (take_rows_map (transform_cell st) sel cells).
    rewrite <- Hg. rewrite take_rows_map. apply oks_map_Ok. }
  unfold transform_col in *.
  replace (existsb is_assert (map (transform_cell st) (take_rows sel cells))) with false
    by (symmetry; apply existsb_false_map; intros x Hx; apply Hsub; exact Hx).
  replace (existsb is_internal (map (transform_cell st) (take_rows sel cells))) with false
    by (symmetry; apply existsb_false_map; intros x Hx; apply Hsub; exact Hx).
  destruct (existsb is_assert (map (transform_cell st) cells)); [discriminate|].
  destruct (existsb is_internal (map (transform_cell st) cells)); [discriminate|].
  destruct (st_kind st); [destruct (quant_ready st); [|discriminate]|]; rewrite Eq; reflexivity.
Qed.

(* ---- frames --------------------------------------------------------------------------------- *)
Lemma transform_column_pure o name c oc sel :
  transform_column o name c = Ok oc -> transform_column o name (take_rows sel c) = Ok (take_rows sel oc).
Proof.
  unfold transform_column. destruct (flookup name (fit_states o)) as [st|].
  - apply transform_col_pure.
  - intros H. injection H as <-. unfold raw_col. rewrite take_rows_map. reflexivity.
Qed.

Lemma transform_columns_cons o name c t :
  transform_columns o ((name, c) :: t) =
  match transform_column o name c with
  | Ok oc => match transform_columns o t with
             | Ok ot => Ok ((name, oc) :: ot)
             | AssertErr => AssertErr
             | InternalErr => InternalErr
             end
  | AssertErr => AssertErr
  | InternalErr => InternalErr
  end.
Proof.
  cbn [transform_columns]. unfold bind.
  destruct (transform_column o name c); [|reflexivity|reflexivity].
  destruct (transform_columns o t); reflexivity.
Qed.

Lemma transform_columns_pure o sel : forall X Y,
  transform_columns o X = Ok Y -> transform_columns o (take_frame sel X) = Ok (take_frame sel Y).
Proof.
  induction X as [|[name c] t IH]; intros Y H.
  - cbn in H. injection H as <-. reflexivity.
  - rewrite transform_columns_cons in H.
    destruct (transform_column o name c) as [oc| |] eqn:Ec; try discriminate.
    destruct (transform_columns o t) as [ot| |] eqn:Et; try discriminate.
    injection H as <-. cbn [take_frame map fst snd]. rewrite transform_columns_cons.
    rewrite (transform_column_pure _ _ _ _ sel Ec).
    change (map (fun nc => (fst nc, take_rows sel (snd nc))) t) with (take_frame sel t).
    rewrite (IH ot eq_refl). reflexivity.
Qed.

Lemma flookup_take_frame {A} sel f (X : list (string * list A)) :
  flookup f (take_frame sel X) = option_map (take_rows sel) (flookup f X).
Proof.
  induction X as [|[k c] t IH]; cbn; [reflexivity|]. destruct (String.eqb f k); [reflexivity|exact IH].
Qed.

Lemma columns_present_take o sel X : columns_present o (take_frame sel X) = columns_present o X.
Proof.
  unfold columns_present. induction (fit_states o) as [|[f st] t IH]; [reflexivity|].
  cbn [forallb fst]. unfold column in *. rewrite flookup_take_frame, IH. destruct (flookup f X); reflexivity.
Qed.

(* C07: the label of a row depends on that row only *)
Theorem transform_pure : forall o X Y sel,
  transform_frame o X = Ok Y -> transform_frame o (take_frame sel X) = Ok (take_frame sel Y).
Proof.
  intros o X Y sel. unfold transform_frame. rewrite columns_present_take.
  destruct (columns_present o X); cbn; [|discriminate]. apply transform_columns_pure.
Qed.

(* output keeps X's columns, in order *)
Theorem transform_keeps_columns : forall o X Y, transform_frame o X = Ok Y -> map fst Y = map fst X.
Proof.
  intros o X Y. unfold transform_frame. destruct (columns_present o X); cbn; [|discriminate].
  revert Y. induction X as [|[name c] t IH]; intros Y H.
  - cbn in H. injection H as <-. reflexivity.
  - rewrite transform_columns_cons in H.
    destruct (transform_column o name c) as [oc| |]; try discriminate.
    destruct (transform_columns o t) as [ot| |] eqn:Et; try discriminate.
    injection H as <-. cbn. f_equal. apply IH. reflexivity.
Qed.

(* non-feature columns are returned unchanged *)
Theorem transform_leaves_other_columns : forall o X Y name c,
  transform_frame o X = Ok Y -> flookup name (fit_states o) = None -> flookup name X = Some c ->
  flookup name Y = Some (raw_col c).
Proof.
  intros o X Y name c. unfold transform_frame. destruct (columns_present o X); cbn; [|discriminate].
  revert Y. induction X as [|[k ck] t IH]; intros Y H Hno Hx; [cbn in Hx; discriminate|].
  rewrite transform_columns_cons in H. cbn [flookup] in Hx.
  destruct (transform_column o k ck) as [oc| |] eqn:Ec; try discriminate.
  destruct (transform_columns o t) as [ot| |] eqn:Et; try discriminate.
  injection H as <-. cbn [flookup]. destruct (String.eqb name k) eqn:Ek.
  - apply String.eqb_eq in Ek. subst k. injection Hx as <-.
    unfold transform_column in Ec. rewrite Hno in Ec. injection Ec as <-. reflexivity.
  - apply IH; [reflexivity|exact Hno|exact Hx].
Qed.

(* any interleaving of transform calls: the object never changes and every call returns what a
   single call on the initial object returns *)
Theorem run_transforms_frame : forall cs o,
  fst (run o cs) = o /\
  snd (run o cs) = map (fun c => match c with CTransform X => transform_frame o X end) cs.
Proof.
  induction cs as [|[X] t IH]; intros o; cbn; [split; reflexivity|].
  destruct (IH o) as [H1 H2]. destruct (run o t) as [o2 rs]. cbn in *. subst. split; reflexivity.
Qed.
