(* DiscretizeProofs.v — lemmas about the base discretization models
   (Model/Quantiles.v, Model/Ordinal.v, Model/Categorical.v) for properties C09 and C03(1). *)
From Coq Require Import ZArith List Bool Lia Permutation Sorted SpecFloat.
From AC.Model Require Import Base Float GroupedList Quantiles Ordinal Categorical CheckC09.
From AC.Proofs Require Import BaseLemmas.
Import ListNotations.
Open Scope Z_scope.

(* ============================================================================================ *)
(* Part A — the rare-bucket merging loop (find_common_modalities / find_closest_modality)         *)
(* ============================================================================================ *)

Definition cnt_sum (bs : list bucket) : Z := fold_right (fun b a => b_cnt b + a) 0 bs.
Definition members (bs : list bucket) : list val := flat_map b_mem bs.

(* every bucket is a contiguous run of the ranking [init] (members compared as multisets) *)
Definition contiguous (init : list val) (bs : list bucket) : Prop :=
  exists runs, List.concat runs = init /\ Forall2 (fun b r => Permutation (b_mem b) r) bs runs.

(* the count carried by a bucket is the number of training rows of its members *)
Definition consistent (d : odata) (b : bucket) : Prop := b_cnt b = members_count d (b_mem b).

(* ---- find_closest_modality returns a neighbour ------------------------------------------- *)
Lemma closest_adjacent : forall d fs ts m,
  (1 < List.length fs)%nat -> (d < List.length fs)%nat ->
  (closest d fs ts m = S d /\ (S d < List.length fs)%nat) \/ S (closest d fs ts m) = d.
Proof.
  intros d fs ts m Hlen Hd. unfold closest.
  destruct (Nat.eqb d 0) eqn:E0.
  - apply Nat.eqb_eq in E0. subst d. left. split; [reflexivity|lia].
  - apply Nat.eqb_neq in E0.
    destruct (Nat.eqb d (List.length fs - 1)) eqn:E1.
    + right. lia.
    + apply Nat.eqb_neq in E1.
      match goal with |- context [if ?c then _ else _] => destruct c end.
      * left. split; lia.
      * right. lia.
Qed.

(* ---- numpy.argmin is a valid index -------------------------------------------------------- *)
Lemma argmin_from_bound : forall l best besti i,
  (besti < i)%nat -> (argmin_from best besti i l < i + List.length l)%nat.
Proof.
  induction l as [|x t IH]; intros best besti i H; cbn [argmin_from List.length].
  - lia.
  - destruct (x <? best).
    + specialize (IH x i (S i)). lia.
    + specialize (IH best besti (S i)). lia.
Qed.

Lemma argmin_bound : forall l, l <> [] -> (argmin l < List.length l)%nat.
Proof.
  intros [|x t] H; [congruence|]. unfold argmin. cbn [List.length].
  pose proof (argmin_from_bound t x 0%nat 1%nat). lia.
Qed.

(* ---- list surgery ------------------------------------------------------------------------- *)
Lemma nth_error_mid : forall (A : Type) (pre : list A) x t,
  nth_error (pre ++ x :: t) (List.length pre) = Some x.
Proof. induction pre as [|a pre IH]; intros; cbn; auto. Qed.

Lemma replace_nth_mid : forall (A : Type) (pre : list A) x z t,
  replace_nth (List.length pre) z (pre ++ x :: t) = pre ++ z :: t.
Proof. induction pre as [|a pre IH]; intros; cbn; [reflexivity|]. f_equal. apply IH. Qed.

Lemma remove_nth_mid : forall (A : Type) (pre : list A) x t,
  remove_nth (List.length pre) (pre ++ x :: t) = pre ++ t.
Proof. induction pre as [|a pre IH]; intros; cbn; [reflexivity|]. f_equal. apply IH. Qed.

Lemma snoc_assoc : forall (A : Type) (pre : list A) x t, pre ++ x :: t = (pre ++ [x]) ++ t.
Proof. intros. rewrite <- app_assoc. reflexivity. Qed.

Lemma length_snoc : forall (A : Type) (pre : list A) x, List.length (pre ++ [x]) = S (List.length pre).
Proof. intros. rewrite app_length. cbn. lia. Qed.

(* discarded x (index d) absorbed by its NEXT neighbour y *)
Lemma group_at_next : forall pre x y post,
  group_at (List.length pre) (S (List.length pre)) (pre ++ x :: y :: post)
  = Ok (pre ++ absorb x y :: post).
Proof.
  intros. unfold group_at.
  replace (Nat.eqb (List.length pre) (S (List.length pre))) with false
    by (symmetry; apply Nat.eqb_neq; lia).
  rewrite nth_error_mid.
  rewrite (snoc_assoc _ pre x (y :: post)) at 1. rewrite <- (length_snoc _ pre x) at 1.
  rewrite nth_error_mid.
  rewrite (snoc_assoc _ pre x (y :: post)). rewrite <- (length_snoc _ pre x) at 1.
  rewrite replace_nth_mid. rewrite <- snoc_assoc. rewrite remove_nth_mid. reflexivity.
Qed.

(* discarded x (index d) absorbed by its PREVIOUS neighbour y *)
Lemma group_at_prev : forall pre x y post,
  group_at (S (List.length pre)) (List.length pre) (pre ++ y :: x :: post)
  = Ok (pre ++ absorb x y :: post).
Proof.
  intros. unfold group_at.
  replace (Nat.eqb (S (List.length pre)) (List.length pre)) with false
    by (symmetry; apply Nat.eqb_neq; lia).
  rewrite nth_error_mid.
  rewrite (snoc_assoc _ pre y (x :: post)) at 1. rewrite <- (length_snoc _ pre y) at 1.
  rewrite nth_error_mid.
  rewrite replace_nth_mid.
  rewrite (snoc_assoc _ pre (absorb x y) (x :: post)). rewrite <- (length_snoc _ pre (absorb x y)).
  rewrite remove_nth_mid. rewrite <- snoc_assoc. reflexivity.
Qed.

(* one merge of two ADJACENT buckets *)
Inductive merge_adjacent : list bucket -> list bucket -> Prop :=
| MergeNext : forall pre x y post, merge_adjacent (pre ++ x :: y :: post) (pre ++ absorb x y :: post)
| MergePrev : forall pre x y post, merge_adjacent (pre ++ y :: x :: post) (pre ++ absorb x y :: post).

Lemma split_two : forall (A : Type) (l : list A) i,
  (S i < List.length l)%nat ->
  exists pre x y post, l = pre ++ x :: y :: post /\ List.length pre = i.
Proof.
  intros A l i H.
  destruct (nth_error l i) as [x|] eqn:Ex; [|apply nth_error_None in Ex; lia].
  apply nth_error_split in Ex. destruct Ex as [pre [rest [-> Hl]]].
  destruct rest as [|y post].
  - rewrite app_length in H. cbn in H. lia.
  - exists pre, x, y, post. auto.
Qed.

(* every iteration of the while loop merges two adjacent buckets (and never fails) *)
Lemma loop_step_adjacent : forall n m bs,
  loop_cond n m bs = true -> exists bs', loop_step n m bs = Ok bs' /\ merge_adjacent bs bs'.
Proof.
  intros n m bs Hc. unfold loop_cond in Hc. apply andb_true_iff in Hc. destruct Hc as [_ Hlen].
  apply Nat.ltb_lt in Hlen.
  unfold loop_step.
  set (d := argmin (map b_cnt bs)).
  assert (Hd : (d < List.length bs)%nat).
  { unfold d. rewrite <- (map_length b_cnt bs). apply argmin_bound.
    destruct bs; cbn in *; [lia|discriminate]. }
  set (fs := map (b_freq n) bs). set (ts := map b_rate bs).
  assert (Hfs : List.length fs = List.length bs) by (unfold fs; apply map_length).
  destruct (closest_adjacent d fs ts m) as [[Hk Hk2]|Hk]; try lia.
  - rewrite Hk. rewrite Hfs in Hk2.
    destruct (split_two _ bs d Hk2) as [pre [x [y [post [-> Hl]]]]].
    rewrite <- Hl. rewrite group_at_next. eexists. split; [reflexivity|constructor].
  - assert (Hd1 : (1 <= d)%nat) by lia.
    set (k := closest d fs ts m) in *.
    assert (Hk2 : (S k < List.length bs)%nat) by lia.
    destruct (split_two _ bs k Hk2) as [pre [y [x [post [-> Hl]]]]].
    rewrite <- Hk, <- Hl. rewrite group_at_prev. eexists. split; [reflexivity|constructor].
Qed.

(* ---- what one adjacent merge preserves ----------------------------------------------- *)
Lemma cnt_sum_app : forall a b, cnt_sum (a ++ b) = cnt_sum a + cnt_sum b.
Proof.
  induction a as [|x a IH]; intros; unfold cnt_sum in *; cbn [app fold_right]; [lia|rewrite IH; lia].
Qed.

Lemma merge_cnt_sum : forall bs bs', merge_adjacent bs bs' -> cnt_sum bs' = cnt_sum bs.
Proof.
  intros bs bs' H. destruct H; rewrite !cnt_sum_app; unfold cnt_sum; cbn [fold_right absorb b_cnt]; lia.
Qed.

Lemma merge_length : forall bs bs', merge_adjacent bs bs' -> List.length bs = S (List.length bs').
Proof. intros bs bs' H. destruct H; rewrite !app_length; cbn; lia. Qed.

Lemma members_app : forall a b, members (a ++ b) = members a ++ members b.
Proof. intros. unfold members. apply flat_map_app. Qed.

Lemma merge_members : forall bs bs', merge_adjacent bs bs' -> Permutation (members bs') (members bs).
Proof.
  intros bs bs' H. destruct H; rewrite !members_app; apply Permutation_app_head;
    unfold members; cbn [flat_map absorb b_mem]; rewrite <- !app_assoc.
  - reflexivity.
  - rewrite !app_assoc. apply Permutation_app_tail. apply Permutation_app_comm.
Qed.

Lemma merge_contiguous : forall init bs bs',
  merge_adjacent bs bs' -> contiguous init bs -> contiguous init bs'.
Proof.
  intros init bs bs' H [runs [Hc Hf]].
  destruct H as [pre x y post|pre x y post].
  - apply Forall2_app_inv_l in Hf. destruct Hf as [rpre [rrest [Hpre [Hrest ->]]]].
    inversion Hrest as [|? rx ? r1 Hx Hr1]; subst.
    inversion Hr1 as [|? ry ? rpost Hy Hpost]; subst.
    exists (rpre ++ (rx ++ ry) :: rpost). split.
    + rewrite concat_app. cbn [List.concat]. rewrite concat_app. cbn [List.concat].
      rewrite <- app_assoc. reflexivity.
    + apply Forall2_app; [exact Hpre|]. constructor; [|exact Hpost].
      cbn [absorb b_mem]. apply Permutation_app; assumption.
  - apply Forall2_app_inv_l in Hf. destruct Hf as [rpre [rrest [Hpre [Hrest ->]]]].
    inversion Hrest as [|? ry ? r1 Hy Hr1]; subst.
    inversion Hr1 as [|? rx ? rpost Hx Hpost]; subst.
    exists (rpre ++ (ry ++ rx) :: rpost). split.
    + rewrite concat_app. cbn [List.concat]. rewrite concat_app. cbn [List.concat].
      rewrite <- app_assoc. reflexivity.
    + apply Forall2_app; [exact Hpre|]. constructor; [|exact Hpost].
      cbn [absorb b_mem]. rewrite Permutation_app_comm. apply Permutation_app; assumption.
Qed.

Lemma members_count_app : forall d a b,
  members_count d (a ++ b) = members_count d a + members_count d b.
Proof.
  intros d a b. unfold members_count. induction a as [|v a IH]; cbn; [reflexivity|].
  destruct (lookup v d) as [[c s]|]; rewrite IH; lia.
Qed.

Lemma merge_consistent : forall d bs bs',
  merge_adjacent bs bs' -> Forall (consistent d) bs -> Forall (consistent d) bs'.
Proof.
  intros d bs bs' H Hf.
  destruct H as [pre x y post|pre x y post];
    apply Forall_app in Hf; destruct Hf as [Hpre Hrest];
    inversion Hrest as [|? ? H1 Hr1]; subst; inversion Hr1 as [|? ? H2 Hpost]; subst;
    apply Forall_app; (split; [exact Hpre|]); constructor; try exact Hpost;
    unfold consistent in *; cbn [absorb b_cnt b_mem]; rewrite members_count_app; lia.
Qed.

(* ---- the whole loop, by induction on fuel --------------------------------------------- *)
Definition loop_post (d : odata) (n : Z) (m : fl) (bs bs' : list bucket) : Prop :=
  buckets_ok n m bs' = true
  /\ cnt_sum bs' = cnt_sum bs
  /\ Permutation (members bs') (members bs)
  /\ (forall init, contiguous init bs -> contiguous init bs')
  /\ (Forall (consistent d) bs -> Forall (consistent d) bs')
  /\ (List.length bs' <= List.length bs)%nat
  /\ (bs <> [] -> bs' <> []).

Lemma loop_cond_false_ok : forall n m bs, loop_cond n m bs = false -> buckets_ok n m bs = true.
Proof.
  intros n m bs H. unfold loop_cond in H. unfold buckets_ok.
  apply andb_false_iff in H. apply orb_true_iff. destruct H as [H|H].
  - left. apply forallb_forall. intros b Hb. apply negb_true_iff.
    destruct (rare n m b) eqn:E; [|reflexivity].
    assert (existsb (rare n m) bs = true) by (apply existsb_exists; eauto). congruence.
  - right. apply Nat.ltb_ge in H. apply Nat.leb_le. exact H.
Qed.

Lemma fcm_post : forall d fuel n m bs bs', fcm fuel n m bs = Ok bs' -> loop_post d n m bs bs'.
Proof.
  intros d fuel. induction fuel as [|f IH]; intros n m bs bs' H; cbn [fcm] in H;
    destruct (loop_cond n m bs) eqn:Hc.
  - discriminate.
  - injection H as <-. unfold loop_post. repeat split; auto using loop_cond_false_ok.
  - destruct (loop_step_adjacent n m bs Hc) as [b1 [Hs Hm]]. rewrite Hs in H.
    apply IH in H. destruct H as [H1 [H2 [H3 [H4 [H5 [H6 H7]]]]]].
    unfold loop_post. repeat split.
    + exact H1.
    + rewrite H2. apply merge_cnt_sum. exact Hm.
    + rewrite H3. apply merge_members. exact Hm.
    + intros init Hi. apply H4. eapply merge_contiguous; eauto.
    + intros Hf. apply H5. eapply merge_consistent; eauto.
    + apply merge_length in Hm. lia.
    + intros _. apply H7. destruct Hm; intro E; apply app_eq_nil in E; destruct E; discriminate.
  - injection H as <-. unfold loop_post. repeat split; auto using loop_cond_false_ok.
Qed.

(* fuel = number of buckets suffices: the loop never runs out of fuel and never fails *)
Lemma fcm_fuel_enough : forall fuel n m bs,
  (List.length bs <= fuel)%nat -> exists bs', fcm fuel n m bs = Ok bs'.
Proof.
  induction fuel as [|f IH]; intros n m bs Hl; cbn [fcm]; destruct (loop_cond n m bs) eqn:Hc.
  - unfold loop_cond in Hc. apply andb_true_iff in Hc. destruct Hc as [_ Hc].
    apply Nat.ltb_lt in Hc. lia.
  - eauto.
  - destruct (loop_step_adjacent n m bs Hc) as [b1 [Hs Hm]]. rewrite Hs.
    apply IH. apply merge_length in Hm. lia.
  - eauto.
Qed.

(* more fuel changes nothing *)
Lemma fcm_fuel_mono : forall fuel n m bs bs',
  fcm fuel n m bs = Ok bs' -> forall k, fcm (fuel + k) n m bs = Ok bs'.
Proof.
  induction fuel as [|f IH]; intros n m bs bs' H k; cbn [fcm] in H.
  - destruct (loop_cond n m bs) eqn:Hc; [discriminate|].
    destruct k; cbn [fcm Nat.add]; rewrite Hc; exact H.
  - cbn [Nat.add fcm]. destruct (loop_cond n m bs) eqn:Hc; [|exact H].
    destruct (loop_step n m bs) as [b1| |]; try discriminate. apply IH. exact H.
Qed.

Theorem find_common_modalities_total : forall n m bs,
  exists bs', find_common_modalities n m bs = Ok bs'.
Proof. intros. unfold find_common_modalities. apply fcm_fuel_enough. lia. Qed.

Theorem find_common_modalities_post : forall d n m bs bs',
  find_common_modalities n m bs = Ok bs' -> loop_post d n m bs bs'.
Proof. intros d n m bs bs' H. eapply fcm_post. exact H. Qed.

(* ---- the initial buckets ---------------------------------------------------------------- *)
Lemma concat_singletons : forall (A : Type) (l : list A), List.concat (map (fun v => [v]) l) = l.
Proof. induction l as [|x l IH]; cbn; [reflexivity|]. f_equal. exact IH. Qed.

Lemma init_bucket_mem : forall d v, b_mem (init_bucket d v) = [v].
Proof. intros. unfold init_bucket. destruct (lookup v d) as [[c s]|]; reflexivity. Qed.

Lemma contiguous_init : forall (f : val -> bucket) order,
  (forall v, b_mem (f v) = [v]) -> contiguous order (map f order).
Proof.
  intros f order Hf. exists (map (fun v => [v]) order). split; [apply concat_singletons|].
  induction order as [|v t IH]; cbn; constructor; [rewrite Hf; reflexivity|exact IH].
Qed.

Lemma consistent_init : forall d order, Forall (consistent d) (map (init_bucket d) order).
Proof.
  intros d order. apply Forall_forall. intros b Hb. apply in_map_iff in Hb.
  destruct Hb as [v [<- _]]. unfold consistent, init_bucket, members_count.
  destruct (lookup v d) as [[c s]|] eqn:E; cbn [b_cnt b_mem fold_right]; rewrite E; lia.
Qed.

Lemma members_init : forall (f : val -> bucket) order,
  (forall v, b_mem (f v) = [v]) -> members (map f order) = order.
Proof.
  intros f order Hf. unfold members. induction order as [|v t IH]; cbn; [reflexivity|].
  rewrite Hf, IH. reflexivity.
Qed.

Lemma qbuckets_mem : forall leaders prev d,
  map b_mem (qbuckets prev leaders d) = map (fun v => [v]) leaders.
Proof.
  induction leaders as [|l t IH]; intros; cbn [qbuckets map]; [reflexivity|].
  cbn [b_mem]. f_equal. apply IH.
Qed.

Lemma contiguous_of_mem : forall leaders bs,
  map b_mem bs = map (fun v => [v]) leaders -> contiguous leaders bs.
Proof.
  intros leaders bs H. exists (map (fun v => [v]) leaders). split; [apply concat_singletons|].
  rewrite <- H. clear H. induction bs; cbn; constructor; auto.
Qed.

Lemma members_of_mem : forall leaders bs,
  map b_mem bs = map (fun v => [v]) leaders -> members bs = leaders.
Proof.
  intros leaders bs H. unfold members. rewrite flat_map_concat_map, H. apply concat_singletons.
Qed.

(* ---- ordinal features: the statement of C09(1) / C03(1) -------------------------------- *)
Theorem ordinal_buckets : forall n m d order,
  exists bs',
    find_common_modalities n m (map (init_bucket d) order) = Ok bs'
    /\ buckets_ok n m bs' = true
    /\ cnt_sum bs' = cnt_sum (map (init_bucket d) order)
    /\ Forall (consistent d) bs'
    /\ Permutation (members bs') order
    /\ contiguous order bs'.
Proof.
  intros n m d order.
  destruct (find_common_modalities_total n m (map (init_bucket d) order)) as [bs' H].
  exists bs'. split; [exact H|].
  destruct (find_common_modalities_post d _ _ _ _ H) as [H1 [H2 [H3 [H4 [H5 _]]]]].
  repeat split; auto.
  - apply H5. apply consistent_init.
  - rewrite H3. rewrite members_init; [reflexivity|apply init_bucket_mem].
  - apply H4. apply contiguous_init. apply init_bucket_mem.
Qed.

(* the exported contiguity statement (referenced by Properties/C03.v) *)
Theorem contiguous_base : forall n m bs bs' init,
  contiguous init bs -> find_common_modalities n m bs = Ok bs' -> contiguous init bs'.
Proof.
  intros n m bs bs' init Hc H.
  destruct (find_common_modalities_post [] _ _ _ _ H) as [_ [_ [_ [H4 _]]]]. auto.
Qed.

Theorem fuel_enough : forall n m bs fuel,
  (List.length bs <= fuel)%nat -> fcm fuel n m bs = find_common_modalities n m bs.
Proof.
  intros n m bs fuel Hl. destruct (find_common_modalities_total n m bs) as [bs' H].
  rewrite H. unfold find_common_modalities in H.
  replace fuel with (List.length bs + (fuel - List.length bs))%nat by lia.
  apply fcm_fuel_mono. exact H.
Qed.

(* ---- quantitative features: the rare-bucket pass with min_freq / 2 --------------------- *)
Lemma fltb_fleb : forall a b, fltb a b = true -> fleb a b = true.
Proof.
  intros a b. unfold fltb, fleb, SFltb, SFleb. destruct (SFcompare a b) as [[]|]; auto.
Qed.

Lemma no_rare_ok : forall n half nan_cnt bs,
  has_rare n half nan_cnt bs = false -> buckets_ok n half bs = true.
Proof.
  intros n half nan_cnt bs H. unfold has_rare in H. apply orb_false_iff in H. destruct H as [_ H].
  unfold buckets_ok. apply orb_true_iff. left. apply forallb_forall. intros b Hb.
  apply negb_true_iff. unfold rare. destruct (fltb (b_freq n b) half) eqn:E; [|reflexivity].
  apply fltb_fleb in E.
  assert (existsb (fun b => fleb (b_freq n b) half) bs = true) by (apply existsb_exists; eauto).
  congruence.
Qed.

Theorem quantitative_buckets : forall n half nan_cnt leaders d,
  let bs := qbuckets None leaders d in
  exists bs',
    rare_pass n half nan_cnt bs = Ok bs'
    /\ buckets_ok n half bs' = true
    /\ cnt_sum bs' = cnt_sum bs
    /\ Permutation (members bs') leaders
    /\ contiguous leaders bs'.
Proof.
  intros n half nan_cnt leaders d bs. unfold rare_pass.
  pose proof (qbuckets_mem leaders None d) as Hm. fold bs in Hm.
  destruct (has_rare n half nan_cnt bs) eqn:Hr.
  - destruct (find_common_modalities_total n half bs) as [bs' H]. exists bs'.
    split; [exact H|].
    destruct (find_common_modalities_post [] _ _ _ _ H) as [H1 [H2 [H3 [H4 _]]]].
    repeat split; auto.
    + rewrite H3. rewrite (members_of_mem _ _ Hm). reflexivity.
    + apply H4. apply contiguous_of_mem. exact Hm.
  - exists bs. repeat split.
    + eapply no_rare_ok; eauto.
    + rewrite (members_of_mem _ _ Hm). reflexivity.
    + apply contiguous_of_mem. exact Hm.
Qed.

(* the `<= min_freq/2` trigger only saves work: running the pass unconditionally gives the same *)
Theorem rare_pass_trigger_irrelevant : forall n half nan_cnt bs,
  has_rare n half nan_cnt bs = false -> find_common_modalities n half bs = Ok bs.
Proof.
  intros n half nan_cnt bs H. apply no_rare_ok in H.
  unfold find_common_modalities. destruct (List.length bs); cbn [fcm];
    assert (Hc : loop_cond n half bs = false).
  1,3: unfold loop_cond; unfold buckets_ok in H; apply orb_true_iff in H; destruct H as [H|H].
  1,3: apply andb_false_iff; left; apply not_true_iff_false; intro E;
       apply existsb_exists in E; destruct E as [b [Hb E]];
       rewrite forallb_forall in H; specialize (H b Hb); rewrite E in H; discriminate.
  1,2: apply andb_false_iff; right; apply Nat.ltb_ge; apply Nat.leb_le in H; exact H.
  all: rewrite Hc; reflexivity.
Qed.

(* ---- further invariants (for C03) ------------------------------------------------------ *)
(* any property of the bucket list kept by one adjacent merge is kept by the whole loop *)
Lemma fcm_preserves : forall (P : list bucket -> Prop),
  (forall bs bs', merge_adjacent bs bs' -> P bs -> P bs') ->
  forall fuel n m bs bs', fcm fuel n m bs = Ok bs' -> P bs -> P bs'.
Proof.
  intros P HP. induction fuel as [|f IH]; intros n m bs bs' H Hp; cbn [fcm] in H;
    destruct (loop_cond n m bs) eqn:Hc; try discriminate; try (injection H as <-; exact Hp).
  destruct (loop_step_adjacent n m bs Hc) as [b1 [Hs Hm]]. rewrite Hs in H.
  eapply IH; eauto.
Qed.

Definition leader_inside (bs : list bucket) : Prop := Forall (fun b => In (b_lead b) (b_mem b)) bs.

Lemma merge_leader_inside : forall bs bs', merge_adjacent bs bs' -> leader_inside bs -> leader_inside bs'.
Proof.
  intros bs bs' H Hf. unfold leader_inside in *.
  destruct H as [pre x y post|pre x y post];
    apply Forall_app in Hf; destruct Hf as [Hpre Hrest];
    inversion Hrest as [|? ? H1 Hr1]; subst; inversion Hr1 as [|? ? H2 Hpost]; subst;
    apply Forall_app; (split; [exact Hpre|]); constructor; try exact Hpost;
    cbn [absorb b_lead b_mem]; apply in_or_app; right; assumption.
Qed.

Lemma filter_eq_single : forall kept l, NoDup l -> In kept l ->
  filter (fun v => negb (negb (val_eqb v kept))) l = [kept].
Proof.
  intros kept l Hn Hin. induction l as [|x t IH]; [contradiction|].
  inversion Hn as [|? ? Hx Hn']; subst. cbn [filter].
  destruct (val_eqb x kept) eqn:E; cbn [negb].
  - apply val_eqb_eq in E. subst x. f_equal.
    clear -Hx. induction t as [|y t IH]; [reflexivity|]. cbn [filter].
    destruct (val_eqb y kept) eqn:E; cbn [negb].
    + apply val_eqb_eq in E. subst. exfalso. apply Hx. left; reflexivity.
    + apply IH. intro. apply Hx. right; assumption.
  - apply IH; auto. destruct Hin as [->|Hin]; [|exact Hin].
    rewrite val_eqb_refl in E. discriminate.
Qed.

(* convert_to_values keeps the members of a group (as a multiset) *)
Lemma value_group_perm : forall kept ms, NoDup ms -> In kept ms ->
  Permutation (snd (value_group kept ms)) ms.
Proof.
  intros kept ms Hn Hin. unfold value_group. cbn [snd].
  apply (Permutation_trans (l' := filter (fun v => negb (val_eqb v kept)) ms
                                   ++ filter (fun x => negb ((fun v => negb (val_eqb v kept)) x)) ms)).
  - cbv beta. rewrite filter_eq_single by assumption.
    apply Permutation_app_tail. apply Permutation_sym, Permutation_rev.
  - apply filter_partition_perm.
Qed.

(* ============================================================================================ *)
(* Part B — np_find_quantiles / find_quantiles                                                  *)
(* ============================================================================================ *)

Lemma memZ_In : forall x l, memZ x l = true <-> In x l.
Proof.
  intros x l. induction l as [|y t IH]; cbn; [split; [discriminate|tauto]|].
  rewrite orb_true_iff, Z.eqb_eq, IH. split; intros [H|H]; auto.
Qed.

Lemma mapM_ok : forall (A B : Type) (f : A -> qres B) l ys,
  mapM f l = QOk ys -> Forall2 (fun x y => f x = QOk y) l ys.
Proof.
  intros A B f. induction l as [|x t IH]; intros ys H; cbn [mapM] in H.
  - injection H as <-. constructor.
  - destruct (f x) as [y|e] eqn:Ex; [|discriminate].
    destruct (mapM f t) as [ys'|e] eqn:Et; [|discriminate].
    injection H as <-. constructor; auto.
Qed.

Lemma mapM_err : forall (A B : Type) (f : A -> qres B) l e,
  mapM f l = QErr e -> exists x, In x l /\ f x = QErr e.
Proof.
  intros A B f. induction l as [|x t IH]; intros e H; cbn [mapM] in H; [discriminate|].
  destruct (f x) as [y|e'] eqn:Ex.
  - destruct (mapM f t) as [ys'|e''] eqn:Et; [discriminate|].
    injection H as ->. destruct (IH e eq_refl) as [z [Hz Hf]]. exists z. split; [right|]; auto.
  - injection H as ->. exists x. split; [left|]; auto.
Qed.

Lemma mapM_ext_in : forall (A B : Type) (f g : A -> qres B) l,
  (forall x, In x l -> f x = g x) -> mapM f l = mapM g l.
Proof.
  intros A B f g. induction l as [|x t IH]; intros H; cbn [mapM]; [reflexivity|].
  rewrite (H x (or_introl eq_refl)). rewrite IH; [reflexivity|]. intros; apply H; right; auto.
Qed.

Lemma nth_sorted_In : forall vc i v, nth_sorted vc i = Some v -> In v (map fst vc).
Proof.
  induction vc as [|[w c] t IH]; intros i v H; cbn [nth_sorted] in H; [discriminate|].
  cbn [map fst]. destruct (i <? c).
  - injection H as <-. left; reflexivity.
  - right. eapply IH; eauto.
Qed.

Lemma max_value_In : forall vc v, max_value vc = Some v -> In v (map fst vc).
Proof.
  induction vc as [|[w c] t IH]; intros v H; cbn [max_value] in H; [discriminate|].
  cbn [map fst]. destruct (max_value t) as [u|] eqn:E.
  - injection H as <-. destruct (Z.max_spec w u) as [[_ ->]|[_ ->]]; [right; auto|left; auto].
  - injection H as <-. left; reflexivity.
Qed.

Lemma pick_In : forall vc n nq i v, pick vc n nq i = QOk v -> In v (map fst vc).
Proof.
  intros vc n nq i v H. unfold pick in H.
  destruct (q_position n nq i) as [j|]; [|discriminate].
  destruct (j <? 0); [discriminate|].
  destruct (nth_sorted vc j) as [w|] eqn:E; [|discriminate].
  injection H as <-. eapply nth_sorted_In; eauto.
Qed.

Lemma pick_no_fuel_error : forall vc n nq i, pick vc n nq i <> QErr QFuel.
Proof.
  intros vc n nq i. unfold pick. destruct (q_position n nq i) as [j|]; [|discriminate].
  destruct (j <? 0); [discriminate|]. destruct (nth_sorted vc j); discriminate.
Qed.

Lemma leaf_In : forall q len_df vc l x, leaf q len_df vc = QOk l -> In x l -> In x (map fst vc).
Proof.
  intros q len_df vc l x H Hx. unfold leaf in H.
  destruct (new_q_of q len_df (total vc)) as [nq|]; [|discriminate].
  destruct (1 <? nq).
  - apply mapM_ok in H. clear -H Hx. induction H as [|i y is ys Hi _ IH]; [contradiction|].
    destruct Hx as [<-|Hx]; [eapply pick_In; eauto|auto].
  - destruct (max_value vc) as [v|] eqn:E; [|discriminate]. injection H as <-.
    destruct Hx as [<-|[]]. apply max_value_In; auto.
Qed.

Lemma leaf_no_fuel_error : forall q len_df vc, leaf q len_df vc <> QErr QFuel.
Proof.
  intros q len_df vc H. unfold leaf in H.
  destruct (new_q_of q len_df (total vc)) as [nq|]; [|discriminate].
  destruct (1 <? nq).
  - apply mapM_err in H. destruct H as [i [_ H]]. eapply pick_no_fuel_error; eauto.
  - destruct (max_value vc); discriminate.
Qed.

Lemma In_freq_values : forall t vc v, In v (freq_values t vc) -> In v (map fst vc).
Proof.
  intros t vc v H. unfold freq_values, freq_entries in H. apply in_map_iff in H.
  destruct H as [p [<- Hp]]. apply filter_In in Hp. apply in_map. tauto.
Qed.

Lemma freq_values_complete : forall t vc v c,
  In (v, c) vc -> is_freq t c = true -> In v (freq_values t vc).
Proof.
  intros t vc v c Hin Hf. unfold freq_values, freq_entries.
  change v with (fst (v, c)). apply in_map. apply filter_In. split; auto.
Qed.

(* a segment only holds values of the sample, none of them over-represented *)
Lemma segments_spec : forall t vc seg,
  In seg (segments t vc) ->
  (forall p, In p seg -> In p vc) /\ (forall p, In p seg -> is_freq t (snd p) = false).
Proof.
  intros t vc seg H. unfold segments in H. apply in_map_iff in H. destruct H as [b [<- _]].
  split; intros p Hp; apply filter_In in Hp; destruct Hp as [Hin Hc]; [exact Hin|].
  apply andb_true_iff in Hc. destruct Hc as [_ Hc]. apply negb_true_iff in Hc.
  destruct (is_freq t (snd p)) eqn:E; [|reflexivity].
  assert (In (fst p) (freq_values t vc)).
  { destruct p as [v c]. eapply freq_values_complete; eauto. }
  apply memZ_In in H. congruence.
Qed.

Lemma existsb_false_forall : forall (A : Type) (f : A -> bool) l,
  (forall x, In x l -> f x = false) -> existsb f l = false.
Proof.
  intros A f l H. apply not_true_iff_false. intro E. apply existsb_exists in E.
  destruct E as [x [Hx E]]. rewrite (H x Hx) in E. discriminate.
Qed.

(* without over-represented value the recursion stops: the result does not depend on the fuel *)
Lemma fq_nonfreq : forall f q len_df vc,
  (forall p, In p vc -> is_freq (thr len_df q) (snd p) = false) ->
  fq (S f) q len_df vc = match vc with [] => QOk [] | _ => leaf q len_df vc end.
Proof.
  intros f q len_df vc H. cbn [fq]. destruct vc as [|p t]; [reflexivity|].
  rewrite existsb_false_forall; [reflexivity|]. exact H.
Qed.

(* boundaries are observed training values *)
Theorem fq_observed : forall fuel q len_df vc l,
  fq fuel q len_df vc = QOk l -> forall x, In x l -> In x (map fst vc).
Proof.
  induction fuel as [|f IH]; intros q len_df vc l H x Hx; cbn [fq] in H; [discriminate|].
  destruct vc as [|p0 t0]; [injection H as <-; contradiction|].
  set (vc := p0 :: t0) in *.
  destruct (existsb (fun p => is_freq (thr len_df q) (snd p)) vc).
  - destruct (mapM (fq f q len_df) (segments (thr len_df q) vc)) as [rs|e] eqn:Em; [|discriminate].
    injection H as <-. apply in_app_or in Hx. destruct Hx as [Hx|Hx].
    + apply in_concat in Hx. destruct Hx as [r [Hr Hxr]].
      apply mapM_ok in Em.
      assert (exists seg, In seg (segments (thr len_df q) vc) /\ fq f q len_df seg = QOk r) as [seg [Hs Hf]].
      { clear -Em Hr. induction Em as [|s y ss ys Hs _ IH]; [contradiction|].
        destruct Hr as [<-|Hr].
        - exists s. split; [left|]; auto.
        - destruct (IH Hr) as [s' [H1 H2]]. exists s'. split; [right|]; auto. }
      specialize (IH _ _ _ _ Hf x Hxr). apply in_map_iff in IH. destruct IH as [p [<- Hp]].
      apply in_map. apply (proj1 (segments_spec _ _ _ Hs)). exact Hp.
    + eapply In_freq_values; eauto.
  - eapply leaf_In; eauto.
Qed.

(* every over-represented value is a boundary *)
Theorem fq_frequent : forall fuel q len_df vc l v c,
  fq fuel q len_df vc = QOk l -> In (v, c) vc -> is_freq (thr len_df q) c = true -> In v l.
Proof.
  intros fuel q len_df vc l v c H Hin Hf. destruct fuel as [|f]; cbn [fq] in H; [discriminate|].
  destruct vc as [|p0 t0]; [contradiction|]. set (vc := p0 :: t0) in *.
  assert (E : existsb (fun p => is_freq (thr len_df q) (snd p)) vc = true).
  { apply existsb_exists. exists (v, c). auto. }
  rewrite E in H.
  destruct (mapM (fq f q len_df) (segments (thr len_df q) vc)) as [rs|e]; [|discriminate].
  injection H as <-. apply in_or_app. right. eapply freq_values_complete; eauto.
Qed.

(* recursion depth <= 2 *)
Theorem fq_fuel_stable : forall k q len_df vc, fq (2 + k) q len_df vc = fq 2 q len_df vc.
Proof.
  intros k q len_df vc. change (2 + k)%nat with (S (S k)). cbn [fq].
  destruct vc as [|p0 t0]; [reflexivity|]. set (vc := p0 :: t0).
  destruct (existsb (fun p => is_freq (thr len_df q) (snd p)) vc); [|reflexivity].
  rewrite (mapM_ext_in _ _ (fq (S k) q len_df) (fq 1 q len_df)); [reflexivity|].
  intros seg Hs. destruct (segments_spec _ _ _ Hs) as [_ Hn].
  rewrite !fq_nonfreq by exact Hn. reflexivity.
Qed.

Lemma fq_S : forall f q len_df vc,
  fq (S f) q len_df vc =
  match vc with
  | [] => QOk []
  | _ :: _ =>
      if existsb (fun p => is_freq (thr len_df q) (snd p)) vc then
        match mapM (fq f q len_df) (segments (thr len_df q) vc) with
        | QOk rs => QOk (List.concat rs ++ freq_values (thr len_df q) vc)
        | QErr e => QErr e
        end
      else leaf q len_df vc
  end.
Proof. reflexivity. Qed.

Theorem fq_fuel_enough : forall q len_df vc, fq np_fuel q len_df vc <> QErr QFuel.
Proof.
  intros q len_df vc. unfold np_fuel. change 3%nat with (2 + 1)%nat. rewrite fq_fuel_stable.
  rewrite fq_S. destruct vc as [|p0 t0]; [discriminate|]. set (vc := p0 :: t0).
  destruct (existsb (fun p => is_freq (thr len_df q) (snd p)) vc).
  - destruct (mapM (fq 1 q len_df) (segments (thr len_df q) vc)) as [rs|e] eqn:Em;
      cbv beta iota; [discriminate|].
    apply mapM_err in Em. destruct Em as [seg [Hs Hf]].
    destruct (segments_spec _ _ _ Hs) as [_ Hn].
    rewrite fq_nonfreq in Hf by exact Hn. intro E. injection E as ->.
    destruct seg; [discriminate|]. eapply leaf_no_fuel_error; eauto.
  - apply leaf_no_fuel_error.
Qed.

(* ---- numpy.sort / numpy.unique ----------------------------------------------------------- *)
Lemma insertZ_perm : forall a l, Permutation (insertZ a l) (a :: l).
Proof.
  intros a l. induction l as [|x t IH]; cbn [insertZ]; [reflexivity|].
  destruct (a <=? x); [reflexivity|]. rewrite IH. apply perm_swap.
Qed.

Lemma sortZ_perm : forall l, Permutation (sortZ l) l.
Proof.
  induction l as [|x t IH]; cbn; [reflexivity|]. unfold sortZ in *. cbn [fold_right].
  rewrite insertZ_perm. constructor. exact IH.
Qed.

Lemma insertZ_sorted : forall a l, Sorted Z.le l -> Sorted Z.le (insertZ a l).
Proof.
  intros a l H. induction H as [|x t Ht IH Hd]; cbn [insertZ]; [repeat constructor|].
  destruct (a <=? x) eqn:E.
  - apply Z.leb_le in E. constructor; [constructor; auto|constructor; auto].
  - apply Z.leb_gt in E. constructor; [exact IH|].
    destruct t as [|y t']; cbn [insertZ]; [constructor; lia|].
    destruct (a <=? y); constructor; [lia|]. inversion Hd; auto.
Qed.

Lemma sortZ_sorted : forall l, Sorted Z.le (sortZ l).
Proof.
  induction l as [|x t IH]; unfold sortZ in *; cbn [fold_right]; [constructor|].
  apply insertZ_sorted. exact IH.
Qed.

Lemma sorted_nodup_strict : forall l, Sorted Z.le l -> NoDup l -> Sorted Z.lt l.
Proof.
  intros l H. induction H as [|x t Ht IH Hd]; intros Hn; [constructor|].
  inversion Hn as [|? ? Hx Hn']; subst. constructor; [auto|].
  destruct Hd as [|y t' Hxy]; constructor.
  assert (x <> y) by (intro; subst; apply Hx; left; reflexivity). lia.
Qed.

Lemma dedup_cons2 : forall x y t,
  dedup_sorted (x :: y :: t) = if Z.eqb x y then dedup_sorted (y :: t) else x :: dedup_sorted (y :: t).
Proof. reflexivity. Qed.

Lemma dedup_head : forall t y, exists t', dedup_sorted (y :: t) = y :: t'.
Proof.
  induction t as [|z t IH]; intros y; [cbn; eauto|]. rewrite dedup_cons2.
  destruct (Z.eqb y z) eqn:E; [|eauto].
  apply Z.eqb_eq in E. subst z. apply IH.
Qed.

Lemma dedup_sorted_strict : forall l, Sorted Z.le l -> Sorted Z.lt (dedup_sorted l).
Proof.
  intros l H. induction H as [|x t Ht IH Hd]; [constructor|].
  destruct t as [|y t']; [cbn; repeat constructor|].
  rewrite dedup_cons2. destruct (Z.eqb x y) eqn:E; [exact IH|].
  apply Z.eqb_neq in E. constructor; [exact IH|].
  destruct (dedup_head t' y) as [t'' ->]. constructor. inversion Hd; subst. lia.
Qed.

Lemma dedup_sorted_In : forall l x, In x (dedup_sorted l) <-> In x l.
Proof.
  induction l as [|a t IH]; intros x; [reflexivity|].
  destruct t as [|b t']; [reflexivity|].
  rewrite dedup_cons2. destruct (Z.eqb a b) eqn:E.
  - apply Z.eqb_eq in E. subst b. rewrite IH. cbn [In]. tauto.
  - cbn [In]. rewrite IH. cbn [In]. tauto.
Qed.

Lemma strictly_increasing_spec : forall l, strictly_increasing l = true <-> Sorted Z.lt l.
Proof.
  induction l as [|x t IH]; [split; constructor|].
  destruct t as [|y t']; [split; [repeat constructor|reflexivity]|].
  cbn [strictly_increasing]. rewrite andb_true_iff, Z.ltb_lt, IH. split.
  - intros [H1 H2]. constructor; [exact H2|constructor; exact H1].
  - intros H. inversion H as [|? ? H1 H2]; subst. inversion H2; subst. auto.
Qed.

(* ---- find_quantiles as a whole ------------------------------------------------------------ *)
Definition observed_values (vc : vcs) : list Z := map fst vc.

Theorem find_quantiles_spec : forall dedup q len_df vc l,
  find_quantiles_v dedup q len_df vc = QOk l ->
  (forall x, In x l -> In x (observed_values vc))
  /\ (forall v c, In (v, c) vc -> is_freq (thr len_df q) c = true -> In v l)
  /\ Sorted Z.le l
  /\ (dedup = true -> Sorted Z.lt l)
  /\ (NoDup l -> Sorted Z.lt l).
Proof.
  intros dedup q len_df vc l H. unfold find_quantiles_v, find_quantiles, find_quantiles_dedup in H.
  destruct dedup; destruct (fq np_fuel q len_df vc) as [l0|e] eqn:E; try discriminate;
    injection H as <-.
  - repeat split.
    + intros x Hx. apply (proj1 (dedup_sorted_In _ _)) in Hx.
      eapply fq_observed; eauto. eapply Permutation_in; [apply sortZ_perm|exact Hx].
    + intros v c Hin Hf. apply (proj2 (dedup_sorted_In _ _)).
      eapply Permutation_in; [apply Permutation_sym, sortZ_perm|]. eapply fq_frequent; eauto.
    + assert (Hs := dedup_sorted_strict _ (sortZ_sorted l0)).
      clear -Hs. induction Hs as [|x t Ht IH Hd]; constructor; auto.
      destruct Hd; constructor; lia.
    + intros _. apply dedup_sorted_strict, sortZ_sorted.
    + intros _. apply dedup_sorted_strict, sortZ_sorted.
  - repeat split.
    + intros x Hx. eapply fq_observed; eauto. eapply Permutation_in; [apply sortZ_perm|exact Hx].
    + intros v c Hin Hf.
      eapply Permutation_in; [apply Permutation_sym, sortZ_perm|]. eapply fq_frequent; eauto.
    + apply sortZ_sorted.
    + discriminate.
    + intros Hn. apply sorted_nodup_strict; [apply sortZ_sorted|exact Hn].
Qed.

Theorem find_quantiles_no_fuel_error : forall dedup q len_df vc,
  find_quantiles_v dedup q len_df vc <> QErr QFuel.
Proof.
  intros dedup q len_df vc H. unfold find_quantiles_v, find_quantiles, find_quantiles_dedup in H.
  destruct dedup; destruct (fq np_fuel q len_df vc) as [l0|e] eqn:E; try discriminate;
    injection H as ->; eapply fq_fuel_enough; eauto.
Qed.

(* O1: with the current `sort` the boundaries can repeat *)
Definition o1_witness : vcs := [(0, 7); (1, 3); (2, 3); (3, 4); (4, 6); (5, 6); (6, 7); (7, 7)].

Theorem boundaries_strict_refuted :
  exists q len_df vc l,
    len_df = total vc /\ Sorted Z.lt (observed_values vc) /\ Forall (fun p => 0 < snd p) vc
    /\ q_of_min_freq (1, -3) = Some 8 /\ q_of_min_freq (2573485501354569, -54) = Some q
    /\ find_quantiles q len_df vc = QOk l /\ strictly_increasing l = false
    /\ find_quantiles_dedup q len_df vc = QOk (dedup_sorted l)
    /\ strictly_increasing (dedup_sorted l) = true.
Proof.
  exists 7, 43, o1_witness, [0; 2; 4; 4; 6; 7].
  split; [vm_compute; reflexivity|].
  split; [apply strictly_increasing_spec; vm_compute; reflexivity|].
  split; [repeat constructor|].
  repeat split; vm_compute; reflexivity.
Qed.

(* fit_feature: the leaders are the boundaries followed by +inf, then str_nan iff NaN present *)
Theorem fit_feature_keys : forall dedup q len_df nan_cnt vc g,
  fit_feature dedup q len_df nan_cnt vc = QOk g ->
  exists qs, find_quantiles_v dedup q len_df vc = QOk qs
    /\ keys g = boundaries qs ++ (if 0 <? nan_cnt then [str_nan] else []).
Proof.
  intros dedup q len_df nan_cnt vc g H. unfold fit_feature in H.
  destruct (find_quantiles_v dedup q len_df vc) as [qs|e]; [|discriminate].
  injection H as <-. exists qs. split; [reflexivity|].
  destruct (0 <? nan_cnt); cbn [append of_list keys]; [reflexivity|rewrite app_nil_r; reflexivity].
Qed.

(* ============================================================================================ *)
(* Part C — CategoricalDiscretizer: the default group                                           *)
(* ============================================================================================ *)

Definition default_group (st : cat_state) : list val :=
  match dget str_default (cs_content st) with Some l => l | None => [] end.

(* v was observed with a frequency below min_freq, or never observed *)
Definition rare_or_unobserved (n : Z) (m : fl) (d : odata) (v : val) : Prop :=
  (exists c s, In (v, c, s) d /\ fltb (fdivZ c n) m = true) \/ ~ In v (observed d).

Lemma In_insert_rate : forall a l x, In x (insert_rate a l) <-> x = a \/ In x l.
Proof.
  intros a l x. induction l as [|y t IH]; cbn [insert_rate]; [cbn; intuition|].
  destruct (f_le_nanlast (snd a) (snd y)); cbn [In]; [intuition|]. rewrite IH. cbn [In]. intuition.
Qed.

Lemma In_sort_rates : forall l x, In x (sort_rates l) <-> In x l.
Proof.
  induction l as [|a t IH]; intros x; unfold sort_rates in *; cbn [fold_right]; [reflexivity|].
  rewrite In_insert_rate, IH. cbn [In]. intuition.
Qed.

Lemma dget_app : forall k (a b : dict),
  dget k (a ++ b) = match dget k a with Some v => Some v | None => dget k b end.
Proof.
  intros k a b. induction a as [|[k' v'] t IH]; cbn [app dget]; [reflexivity|].
  destruct (val_eqb k k'); auto.
Qed.

Lemma dget_tagged : forall (X : list val) (rates : list (val * fl)),
  dget str_default
    (map (fun kr => if val_eqb (fst kr) str_default then (str_default, X) else (fst kr, [fst kr])) rates)
  = if existsb (fun kr => val_eqb (fst kr) str_default) rates then Some X else None.
Proof.
  intros X rates. induction rates as [|kr t IH]; cbn [map dget existsb]; [reflexivity|].
  destruct (val_eqb (fst kr) str_default) eqn:E; cbn [dget orb].
  - reflexivity.
  - rewrite val_eqb_sym, E. exact IH.
Qed.

Lemma In_rare_observed : forall n m d v,
  In v (rare_observed n m d) <-> exists c s, In (v, c, s) d /\ fltb (fdivZ c n) m = true.
Proof.
  intros n m d v. unfold rare_observed. rewrite in_map_iff. split.
  - intros [[[w c] s] [<- H]]. apply filter_In in H. cbn in H. exists c, s. tauto.
  - intros [c [s [H1 H2]]]. exists (v, c, s). split; [reflexivity|]. apply filter_In. auto.
Qed.

Lemma In_never_observed : forall order d has_nan v,
  v <> str_nan ->
  (In v (never_observed order d has_nan) <-> In v order /\ ~ In v (observed d)).
Proof.
  intros order d has_nan v Hv. unfold never_observed. rewrite filter_In, andb_true_iff, !negb_true_iff.
  rewrite mem_false. split.
  - tauto.
  - intros [H1 H2]. repeat split; auto. apply andb_false_iff. right. apply val_eqb_neq. exact Hv.
Qed.

Lemma In_observed : forall d v c s, In (v, c, s) d -> In v (observed d).
Proof.
  intros d v c s H. unfold observed. apply in_map_iff. exists (v, c, s). split; [reflexivity|exact H].
Qed.

Theorem categorical_default_group : forall mf nan_cnt order d st,
  categorical_fit mf nan_cnt order d = Ok (Some st) ->
  ~ In str_default (observed d ++ order) ->
  (forall v, In v (observed d ++ order) -> truthy v = true) ->
  let n := nan_cnt + count_rows d in
  forall v, In v (observed d ++ order) -> v <> str_nan ->
    (In v (default_group st) <-> rare_or_unobserved n (min_freq_f mf) d v).
Proof.
  intros mf nan_cnt order d st H Hnd Htr n v Hv Hvn.
  unfold categorical_fit in H. fold n in H.
  set (m := min_freq_f mf) in *.
  destruct (all_rare n m (map (fun p => snd (fst p)) d)); [discriminate|].
  destruct (negb (forallb (fun v0 => mem v0 order) (observed d))); [discriminate|].
  set (to_group := rare_observed n m d ++ never_observed order d (0 <? nan_cnt)) in *.
  set (grouping := existsb truthy to_group) in *.
  match type of H with (if ?c then _ else _) = _ => destruct c; [discriminate|] end.
  set (moved := filter (fun p => grouping && mem (fst (fst p)) to_group) d) in *.
  match type of H with (if ?c then _ else _) = _ => destruct c eqn:Hg; [|discriminate] end.
  injection H as <-. unfold default_group. cbn [cs_content].
  (* membership in to_group *)
  assert (Htg : In v to_group <-> rare_or_unobserved n m d v).
  { unfold to_group, rare_or_unobserved. rewrite in_app_iff, In_rare_observed,
      (In_never_observed _ _ _ _ Hvn). split.
    - intros [Hr|[_ Hn]]; auto.
    - intros [Hr|Hn]; auto. right. split; [|exact Hn].
      apply in_app_or in Hv. destruct Hv; [contradiction|assumption]. }
  assert (Hsub : forall x, In x to_group -> In x (observed d ++ order)).
  { intros x Hx. unfold to_group in Hx. apply in_app_or in Hx. apply in_or_app. destruct Hx as [Hx|Hx].
    - left. apply In_rare_observed in Hx. destruct Hx as [c [s [Hx _]]]. eapply In_observed; eauto.
    - right. unfold never_observed in Hx. apply filter_In in Hx. tauto. }
  rewrite <- Htg. clear Htg.
  rewrite dget_app, dget_tagged.
  match goal with |- context [existsb ?f ?l] => destruct (existsb f l) eqn:Ex end; cbv beta iota.
  - (* the default group exists: its members are to_group ++ [default] *)
    rewrite in_app_iff, <- in_rev. cbn [In]. split; [|tauto].
    intros [Hin|[Hin|[]]]; [exact Hin|]. subst v. contradiction.
  - (* no default group: nothing was to be grouped *)
    assert (Hfalse : In v to_group -> False).
    { intros Hin.
      assert (Hgr : grouping = true).
      { unfold grouping. apply existsb_exists. exists v. split; [exact Hin|]. apply Htr. auto. }
      rewrite Hgr in Hg. apply eqb_prop in Hg.
      destruct moved as [|p0 moved'] eqn:Em; [discriminate|].
      rewrite <- not_true_iff_false in Ex. apply Ex. apply existsb_exists.
      exists (str_default, rate (count_rows (p0 :: moved')) (fold_right (fun p acc => snd p + acc) 0 (p0 :: moved'))).
      split; [|apply val_eqb_refl].
      apply In_sort_rates. apply in_or_app. right. left. reflexivity. }
    destruct (0 <? nan_cnt); (change (In v [] <-> In v to_group));
      (split; [contradiction|intro Hin; destruct (Hfalse Hin)]).
Qed.

(* missing values always are their own, last, modality; never part of the default group *)
Theorem categorical_nan_separate : forall mf nan_cnt order d st,
  categorical_fit mf nan_cnt order d = Ok (Some st) ->
  0 < nan_cnt ->
  exists ks c, cs_keys st = ks ++ [str_nan] /\ cs_content st = c ++ [(str_nan, [str_nan])].
Proof.
  intros mf nan_cnt order d st H Hn. unfold categorical_fit in H.
  apply Z.ltb_lt in Hn. rewrite Hn in H.
  repeat match type of H with (if ?c then _ else _) = _ => destruct c; try discriminate end.
  injection H as <-. cbn [cs_keys cs_content]. eauto.
Qed.
Lemma SFcompare_antisym : forall a b, SFcompare b a = option_map CompOpp (SFcompare a b).
Proof.
  intros a b. destruct a as [sa|sa| |sa ma ea], b as [sb|sb| |sb mb eb]; cbn [SFcompare option_map];
    try reflexivity; try (destruct sa; reflexivity); try (destruct sb; reflexivity);
    try (destruct sa, sb; reflexivity).
  destruct sa, sb; try reflexivity; rewrite (Z.compare_antisym ea eb);
    destruct (ea ?= eb); cbn [CompOpp]; try reflexivity.
  - f_equal. rewrite (Pos.compare_cont_antisym ma mb Eq). cbn [CompOpp]. reflexivity.
  - f_equal. rewrite (Pos.compare_cont_antisym ma mb Eq). reflexivity.
Qed.
Lemma not_lt_ge : forall a b, f_is_nan a = false -> f_is_nan b = false -> fltb a b = false -> fleb b a = true.
Proof.
  intros a b Ha Hb H. unfold fltb, fleb, SFltb, SFleb in *. rewrite SFcompare_antisym.
  destruct (SFcompare a b) as [[]|] eqn:E; cbn; try reflexivity; try discriminate.
  destruct a, b; cbn in *; try discriminate.
Qed.

(* "not rarer than m" is "at least m" as soon as neither float is NaN (count/n with n > 0) *)
Theorem buckets_ok_ge : forall n m bs,
  buckets_ok n m bs = true -> f_is_nan m = false ->
  (List.length bs <= 1)%nat \/
  (forall b, In b bs -> f_is_nan (b_freq n b) = false -> fgeb (b_freq n b) m = true).
Proof.
  intros n m bs H Hm. unfold buckets_ok in H. apply orb_true_iff in H. destruct H as [H|H].
  - right. intros b Hb Hn. rewrite forallb_forall in H. specialize (H b Hb).
    apply negb_true_iff in H. unfold rare in H. unfold fgeb. apply not_lt_ge; auto.
  - left. apply Nat.leb_le. exact H.
Qed.

Open Scope list_scope.
(* ---- from the loop's buckets to the fitted values_orders (convert_to_values) -------------- *)
Definition non_missing_groups (g : gl) : dict :=
  filter (fun kv => negb (val_eqb (fst kv) str_nan)) (content g).

Lemma NoDup_flat_map_each : forall (A B : Type) (f : A -> list B) l x,
  NoDup (flat_map f l) -> In x l -> NoDup (f x).
Proof.
  intros A B f. induction l as [|a t IH]; intros x Hn Hin; [contradiction|].
  cbn [flat_map] in Hn. apply NoDup_app_iff in Hn. destruct Hn as [H1 [H2 _]].
  destruct Hin as [->|Hin]; [exact H1|apply IH; auto].
Qed.

Lemma In_members : forall bs b v, In b bs -> In v (b_mem b) -> In v (members bs).
Proof. intros bs b v Hb Hv. unfold members. apply in_flat_map. eauto. Qed.

Lemma filter_all : forall (A : Type) (p : A -> bool) l, (forall x, In x l -> p x = true) -> filter p l = l.
Proof.
  intros A p. induction l as [|a t IH]; intros H; [reflexivity|]. cbn [filter].
  rewrite (H a (or_introl eq_refl)). f_equal. apply IH. intros; apply H; right; auto.
Qed.

Lemma leader_inside_init : forall d order, leader_inside (map (init_bucket d) order).
Proof.
  intros d order. unfold leader_inside. apply Forall_forall. intros b Hb.
  apply in_map_iff in Hb. destruct Hb as [v [<- _]]. unfold init_bucket.
  destruct (lookup v d) as [[c s]|]; cbn [b_lead b_mem]; left; reflexivity.
Qed.

(* the fitted order of an ordinal feature is exactly the loop's buckets: leaders in ranking order,
   each group a permutation of its bucket's members, str_nan appended iff the column has NaN *)
Theorem ordinal_fit_groups : forall mf nan_cnt order d g,
  ordinal_fit mf nan_cnt order d = Ok (Some g) -> NoDup order -> ~ In str_nan order ->
  exists bs,
    find_common_modalities (nan_cnt + count_rows d) (min_freq_f mf) (map (init_bucket d) order) = Ok bs
    /\ keys g = map b_lead bs ++ (if 0 <? nan_cnt then [str_nan] else [])
    /\ map fst (non_missing_groups g) = map b_lead bs
    /\ Forall2 (fun kv b => Permutation (snd kv) (b_mem b)) (non_missing_groups g) bs.
Proof.
  intros mf nan_cnt order d g H Hnd Hnan. unfold ordinal_fit in H.
  set (n := nan_cnt + count_rows d) in *. set (m := min_freq_f mf) in *.
  destruct (all_rare n m (map (fun p => snd (fst p)) d)); [discriminate|].
  destruct (negb (forallb (fun p => mem (fst (fst p)) order) d)); [discriminate|].
  destruct (find_common_modalities n m (map (init_bucket d) order)) as [bs| |] eqn:E; try discriminate.
  injection H as <-. exists bs. split; [reflexivity|].
  destruct (find_common_modalities_post d _ _ _ _ E) as [_ [_ [Hperm _]]].
  rewrite members_init in Hperm by apply init_bucket_mem.
  assert (Hli : leader_inside bs).
  { unfold find_common_modalities in E.
    eapply (fcm_preserves leader_inside merge_leader_inside); eauto. apply leader_inside_init. }
  assert (Hnn : forall b, In b bs -> b_lead b <> str_nan).
  { intros b Hb Heq. unfold leader_inside in Hli. rewrite Forall_forall in Hli.
    specialize (Hli b Hb). apply Hnan. eapply Permutation_in; [exact Hperm|].
    rewrite <- Heq. eapply In_members; eauto. }
  set (vg := fun b => value_group (b_lead b) (b_mem b)).
  assert (Hfilter : filter (fun kv => negb (val_eqb (fst kv) str_nan)) (map vg bs) = map vg bs).
  { apply filter_all. intros kv Hkv. apply in_map_iff in Hkv. destruct Hkv as [b [<- Hb]].
    unfold vg, value_group. cbn [fst]. apply negb_true_iff. apply val_eqb_neq. auto. }
  assert (Hgroups : non_missing_groups (gl_of_groups (map vg bs) (0 <? nan_cnt)) = map vg bs).
  { unfold non_missing_groups, gl_of_groups. destruct (0 <? nan_cnt); cbn [content]; [|exact Hfilter].
    rewrite filter_app, Hfilter. cbn [filter fst]. rewrite val_eqb_refl. cbn [negb]. apply app_nil_r. }
  fold vg. rewrite Hgroups. repeat split.
  - unfold gl_of_groups. destruct (0 <? nan_cnt); cbn [keys]; rewrite map_map; unfold vg, value_group;
      cbn [fst]; [reflexivity|rewrite app_nil_r; reflexivity].
  - rewrite map_map. reflexivity.
  - assert (Hnd' : NoDup (members bs)) by (eapply Permutation_NoDup; [apply Permutation_sym; exact Hperm|exact Hnd]).
    unfold leader_inside in Hli. rewrite Forall_forall in Hli.
    assert (Hall : forall b, In b bs -> Permutation (snd (vg b)) (b_mem b)).
    { intros b Hb. unfold vg. apply value_group_perm; [|apply Hli; exact Hb].
      unfold members in Hnd'. eapply NoDup_flat_map_each; eauto. }
    clear -Hall. induction bs as [|b t IH]; cbn [map]; constructor.
    + apply Hall. left; reflexivity.
    + apply IH. intros; apply Hall; right; auto.
Qed.

(* ============================================================================================ *)
(* Packaging for Properties/C09.v                                                               *)
(* ============================================================================================ *)
Theorem C09_merging : forall d n m bs,
  exists bs', find_common_modalities n m bs = Ok bs' /\ loop_post d n m bs bs'.
Proof.
  intros d n m bs. destruct (find_common_modalities_total n m bs) as [bs' H].
  exists bs'. split; [exact H|]. eapply find_common_modalities_post; eauto.
Qed.

Theorem C09_fuel : forall n m bs,
  (exists bs', find_common_modalities n m bs = Ok bs')
  /\ (forall fuel, (List.length bs <= fuel)%nat -> fcm fuel n m bs = find_common_modalities n m bs).
Proof. intros. split; [apply find_common_modalities_total|intros; apply fuel_enough; auto]. Qed.

Theorem C09_recursion_depth : forall q len_df vc,
  (forall k, fq (2 + k) q len_df vc = fq 2 q len_df vc)
  /\ fq np_fuel q len_df vc <> QErr QFuel
  /\ (forall dedup, find_quantiles_v dedup q len_df vc <> QErr QFuel).
Proof.
  intros. split; [intros; apply fq_fuel_stable|]. split; [apply fq_fuel_enough|].
  intros; apply find_quantiles_no_fuel_error.
Qed.

Theorem C09_boundaries_strict_partial : forall q len_df vc l,
  find_quantiles q len_df vc = QOk l -> NoDup l -> Sorted Z.lt l.
Proof. intros q len_df vc l H. apply (find_quantiles_spec false q len_df vc l H). Qed.

Theorem C09_boundaries_strict_dedup : forall q len_df vc l,
  find_quantiles_dedup q len_df vc = QOk l -> Sorted Z.lt l.
Proof.
  intros q len_df vc l H. destruct (find_quantiles_spec true q len_df vc l H) as [_ [_ [_ [Hd _]]]].
  auto.
Qed.

Theorem C09_checker_sound :
  (forall l, strictly_increasing l = true <-> Sorted Z.lt l)
  /\ (forall n m bs, buckets_ok n m bs = true -> f_is_nan m = false ->
        (List.length bs <= 1)%nat \/
        (forall b, In b bs -> f_is_nan (b_freq n b) = false -> fgeb (b_freq n b) m = true)).
Proof. split; [exact strictly_increasing_spec|exact buckets_ok_ge]. Qed.

Open Scope string_scope.
(* hypotheses are satisfiable / the functions compute: a ranking a<b<c<d with a rare 'b', min_freq
   0.25 on 20 rows; 'b' (2 rows) is merged with a neighbour and the result is contiguous *)
Example C09_example :
  let d := [(VStr "a", 8, 3); (VStr "b", 2, 1); (VStr "d", 10, 6)] in
  let order := [VStr "a"; VStr "b"; VStr "c"; VStr "d"] in
  exists bs', find_common_modalities 20 (f_of_dyadic 1 (-2)) (map (init_bucket d) order) = Ok bs'
              /\ List.length bs' = 2%nat /\ buckets_ok 20 (f_of_dyadic 1 (-2)) bs' = true
              /\ contiguous order bs'.
Proof.
  cbv zeta. eexists. split; [vm_compute; reflexivity|]. split; [reflexivity|].
  split; [vm_compute; reflexivity|].
  exists [[VStr "a"; VStr "b"; VStr "c"]; [VStr "d"]]. split; [reflexivity|].
  constructor; [|constructor; [reflexivity|constructor]].
  cbn [b_mem]. apply Permutation_sym. exact (Permutation_rev [VStr "a"; VStr "b"; VStr "c"]).
Qed.
