(* PipelineProofs.v — independence of features: assembly and carving loop *)
From Coq Require Import List String Bool Permutation.
Import ListNotations.
From AC.Model Require Import Pipeline.

Section Proofs.
Context {E : Type}.
Notation smap := (@smap E).

Lemma eqb_false_sym a b : String.eqb a b = false -> String.eqb b a = false.
Proof. rewrite String.eqb_sym. auto. Qed.

Lemma slookup_sset_same f e (m : smap) : slookup f (sset f e m) = Some e.
Proof.
  induction m as [|[k e'] t IH]; cbn; [rewrite String.eqb_refl; reflexivity|].
  destruct (String.eqb f k) eqn:Ek; cbn; rewrite Ek; [reflexivity|exact IH].
Qed.

Lemma slookup_sset_other f g e (m : smap) : String.eqb g f = false -> slookup g (sset f e m) = slookup g m.
Proof.
  intros Hgf. induction m as [|[k e'] t IH]; cbn; [rewrite Hgf; reflexivity|].
  destruct (String.eqb f k) eqn:Ek; cbn.
  - apply String.eqb_eq in Ek. subst k. rewrite Hgf. reflexivity.
  - destruct (String.eqb g k); [reflexivity|exact IH].
Qed.

Lemma slookup_sremove_other f g (m : smap) : String.eqb g f = false -> slookup g (sremove f m) = slookup g m.
Proof.
  intros Hgf. induction m as [|[k e'] t IH]; cbn; [reflexivity|].
  destruct (String.eqb f k) eqn:Ek.
  - apply String.eqb_eq in Ek. subst k. rewrite Hgf. reflexivity.
  - cbn. destruct (String.eqb g k); [reflexivity|exact IH].
Qed.

(* keys are unique in the shared dict *)
Definition skeys (m : smap) : list string := map fst m.

Lemma slookup_sremove_same f (m : smap) : NoDup (skeys m) -> slookup f (sremove f m) = None.
Proof.
  induction m as [|[k e'] t IH]; intros Hnd; cbn; [reflexivity|].
  cbn in Hnd. inversion Hnd as [|? ? Hnot Hnd']; subst.
  destruct (String.eqb f k) eqn:Ek.
  - apply String.eqb_eq in Ek. subst k.
    clear IH Hnd Hnd'. induction t as [|[k2 e2] t2 IH2]; cbn; [reflexivity|].
    destruct (String.eqb f k2) eqn:E2.
    + apply String.eqb_eq in E2. subst k2. exfalso. apply Hnot. left. reflexivity.
    + apply IH2. intro H. apply Hnot. right. exact H.
  - cbn. rewrite Ek. apply IH. exact Hnd'.
Qed.

Lemma skeys_sset_incl f e (m : smap) k : In k (skeys (sset f e m)) -> k = f \/ In k (skeys m).
Proof.
  induction m as [|[k' e'] t IH]; cbn.
  - intros [H|[]]. left. auto.
  - destruct (String.eqb f k') eqn:Ek; cbn.
    + intros [H|H]; right; auto.
    + intros [H|H]; [right; left; exact H|]. destruct (IH H) as [H'|H']; [left; exact H'|right; right; exact H'].
Qed.

Lemma NoDup_sset f e (m : smap) : NoDup (skeys m) -> NoDup (skeys (sset f e m)).
Proof.
  induction m as [|[k e'] t IH]; intros Hnd; cbn.
  - constructor; [intros []|constructor].
  - cbn in Hnd. inversion Hnd as [|? ? Hnot Hnd']; subst.
    destruct (String.eqb f k) eqn:Ek; cbn.
    + constructor; assumption.
    + constructor; [|apply IH; exact Hnd'].
      intro H. apply skeys_sset_incl in H. destruct H as [H|H]; [|contradiction].
      subst k. rewrite String.eqb_refl in Ek. discriminate.
Qed.

Lemma skeys_sremove_incl f (m : smap) k : In k (skeys (sremove f m)) -> In k (skeys m).
Proof.
  induction m as [|[k' e'] t IH]; cbn; [auto|].
  destruct (String.eqb f k'); cbn; [auto|]. intros [H|H]; [left; exact H|right; apply IH; exact H].
Qed.

Lemma NoDup_sremove f (m : smap) : NoDup (skeys m) -> NoDup (skeys (sremove f m)).
Proof.
  induction m as [|[k e'] t IH]; intros Hnd; cbn; [constructor|].
  cbn in Hnd. inversion Hnd as [|? ? Hnot Hnd']; subst.
  destruct (String.eqb f k); [exact Hnd'|]. cbn. constructor; [|apply IH; exact Hnd'].
  intro H. apply Hnot. eapply skeys_sremove_incl. exact H.
Qed.

(* ---- assembly ------------------------------------------------------------------------- *)
Lemma assemble_lookup_notin (results : list (string * E)) : forall init g,
  ~ In g (map fst results) -> slookup g (assemble init results) = slookup g init.
Proof.
  induction results as [|[f e] t IH]; intros init g Hnot; cbn; [reflexivity|].
  unfold assemble in *. cbn. rewrite IH.
  - apply slookup_sset_other. destruct (String.eqb g f) eqn:Eg; [|reflexivity].
    apply String.eqb_eq in Eg. subst g. exfalso. apply Hnot. left. reflexivity.
  - intro H. apply Hnot. right. exact H.
Qed.

Lemma assemble_lookup_in (results : list (string * E)) : forall init g e,
  NoDup (map fst results) -> In (g, e) results -> slookup g (assemble init results) = Some e.
Proof.
  induction results as [|[f e0] t IH]; intros init g e Hnd Hin; [destruct Hin|].
  cbn in Hnd. inversion Hnd as [|? ? Hnot Hnd']; subst.
  unfold assemble in *. cbn. destruct Hin as [Heq|Hin].
  - injection Heq as -> ->. fold (assemble (sset g e init) t).
    rewrite assemble_lookup_notin; [apply slookup_sset_same|exact Hnot].
  - apply IH; assumption.
Qed.

(* every worker completion order assembles the same dict (as a map) *)
Theorem assembly_perm : forall (init : smap) results results',
  NoDup (map fst results) -> Permutation results results' ->
  forall g, slookup g (assemble init results) = slookup g (assemble init results').
Proof.
  intros init results results' Hnd Hp g.
  assert (Hnd' : NoDup (map fst results')).
  { eapply Permutation_NoDup; [apply Permutation_map; exact Hp|exact Hnd]. }
  destruct (in_dec string_dec g (map fst results)) as [Hin|Hnot].
  - apply in_map_iff in Hin. destruct Hin as [[g' e] [Hg Hin]]. cbn in Hg. subst g'.
    rewrite (assemble_lookup_in results init g e Hnd Hin).
    symmetry. apply assemble_lookup_in; [exact Hnd'|]. eapply Permutation_in; eassumption.
  - rewrite assemble_lookup_notin by exact Hnot.
    symmetry. apply assemble_lookup_notin. intro H. apply Hnot.
    eapply Permutation_in; [apply Permutation_sym, Permutation_map; exact Hp|exact H].
Qed.

(* the assembled entry of a feature is that feature's own result: no dependence on co-features *)
Theorem assembly_feature_independent : forall (init : smap) results g e,
  NoDup (map fst results) -> In (g, e) results -> slookup g (assemble init results) = Some e.
Proof. intros. eapply assemble_lookup_in; eassumption. Qed.

(* ---- carving loop ----------------------------------------------------------------------- *)
Context (step : string -> E -> option E).

Definition own_result (st : smap) (f : string) : option E :=
  match slookup f st with Some e => step f e | None => None end.

Lemma carve_step_other (st : smap) f g : String.eqb g f = false ->
  slookup g (carve_step step st f) = slookup g st.
Proof.
  intros Hgf. unfold carve_step. destruct (slookup f st) as [e|]; [|reflexivity].
  destruct (step f e) as [e'|]; [apply slookup_sset_other|apply slookup_sremove_other]; exact Hgf.
Qed.

Lemma carve_step_same (st : smap) f : NoDup (skeys st) ->
  slookup f (carve_step step st f) = own_result st f.
Proof.
  intros Hnd. unfold carve_step, own_result. destruct (slookup f st) as [e|] eqn:El; [|exact El].
  destruct (step f e) as [e'|]; [apply slookup_sset_same|apply slookup_sremove_same; exact Hnd].
Qed.

Lemma carve_step_NoDup (st : smap) f : NoDup (skeys st) -> NoDup (skeys (carve_step step st f)).
Proof.
  intros Hnd. unfold carve_step. destruct (slookup f st) as [e|]; [|exact Hnd].
  destruct (step f e); [apply NoDup_sset|apply NoDup_sremove]; exact Hnd.
Qed.

Lemma carve_loop_notin fs : forall (st : smap) g, ~ In g fs -> slookup g (carve_loop step fs st) = slookup g st.
Proof.
  induction fs as [|f t IH]; intros st g Hnot; cbn; [reflexivity|].
  unfold carve_loop in *. cbn. rewrite IH by (intro H; apply Hnot; right; exact H).
  apply carve_step_other. destruct (String.eqb g f) eqn:Eg; [|reflexivity].
  apply String.eqb_eq in Eg. subst g. exfalso. apply Hnot. left. reflexivity.
Qed.

(* the fitted entry of f is a function of f's own initial entry only *)
Theorem loop_feature_independent : forall fs (st : smap) f,
  NoDup fs -> NoDup (skeys st) -> In f fs -> slookup f (carve_loop step fs st) = own_result st f.
Proof.
  induction fs as [|g t IH]; intros st f Hnd Hst Hin; [destruct Hin|].
  inversion Hnd as [|? ? Hnot Hnd']; subst. unfold carve_loop in *. cbn.
  destruct Hin as [->|Hin].
  - fold (carve_loop step t (carve_step step st f)). rewrite carve_loop_notin by exact Hnot.
    apply carve_step_same. exact Hst.
  - rewrite (IH (carve_step step st g) f Hnd' (carve_step_NoDup st g Hst) Hin).
    unfold own_result. rewrite carve_step_other; [reflexivity|].
    destruct (String.eqb f g) eqn:Eg; [|reflexivity].
    apply String.eqb_eq in Eg. subst g. contradiction.
Qed.

(* hence any iteration order of the features (list(set(...)) under any hash seed) fits the same *)
Theorem loop_order_independent : forall fs fs' (st : smap),
  NoDup fs -> NoDup (skeys st) -> Permutation fs fs' ->
  forall g, slookup g (carve_loop step fs st) = slookup g (carve_loop step fs' st).
Proof.
  intros fs fs' st Hnd Hst Hp g.
  assert (Hnd' : NoDup fs') by (eapply Permutation_NoDup; eassumption).
  destruct (in_dec string_dec g fs) as [Hin|Hnot].
  - rewrite (loop_feature_independent fs st g Hnd Hst Hin).
    symmetry. apply loop_feature_independent; [exact Hnd'|exact Hst|eapply Permutation_in; eassumption].
  - rewrite carve_loop_notin by exact Hnot. symmetry. apply carve_loop_notin.
    intro H. apply Hnot. eapply Permutation_in; [apply Permutation_sym; exact Hp|exact H].
Qed.

(* and co-fitted features do not matter: fitting f alone gives the same entry *)
Theorem loop_cofeatures_irrelevant : forall fs (st : smap) f,
  NoDup fs -> NoDup (skeys st) -> In f fs ->
  slookup f (carve_loop step fs st) = slookup f (carve_loop step [f] st).
Proof.
  intros fs st f Hnd Hst Hin. rewrite (loop_feature_independent fs st f Hnd Hst Hin).
  symmetry. apply loop_feature_independent; [constructor; [intros []|constructor]|exact Hst|left; reflexivity].
Qed.

End Proofs.
