(* StringForm.v — executable model of StringDiscretizer.fit_feature (type_discretizers.py), after
   the repair "fix: StringDiscretizer groups a number under its string form even when that string
   is a raw value":
       values_order = GroupedList(unique_values)
       for value in unique_values:
           str_value = str(int(value)) if float-and-integer else str(value)
           if str_value not in values_order: values_order.append(str_value)
           values_order.group(value, str_value)          # no-op for a string value
       if any(isna): values_order.append(str_nan)
   CPython's str() is an oracle table (non-string value -> VStr form).  No proofs here. *)
From AC.Model Require Import Base GroupedList CheckC13.

Definition sf_table := list (val * val).

Fixpoint sf_lookup (t : sf_table) (v : val) : val :=
  match t with
  | [] => v
  | (k, s) :: r => if val_eqb v k then s else sf_lookup r v
  end.

(* str(value) : a string is its own form *)
Definition str_form (t : sf_table) (v : val) : val := if is_str v then v else sf_lookup t v.

Fixpoint sf_loop (t : sf_table) (todo : list val) (g : gl) : res gl :=
  match todo with
  | [] => Ok g
  | v :: rest =>
      let s := str_form t v in
      let g1 := if mem s (keys g) then g else append g s in
      do g2 <- group g1 v s ; sf_loop t rest g2
  end.

Definition string_fit (t : sf_table) (uniques : list val) (has_nan : bool) (nan : val) : res gl :=
  do g <- sf_loop t uniques (of_list uniques) ;
  Ok (if has_nan then append g nan else g).

(* ---- correspondence ------------------------------------------------------------------------ *)
Inductive sf_out := SFOk (ks : list val) (c : dict) | SFAssert | SFInternal.

Record sfcase := mkSF {
  sf_tbl : sf_table;
  sf_uniques : list val;         (* nan_unique(column), in pandas' order of appearance *)
  sf_has_nan : bool;
  sf_nan : val;
  sf_impl : sf_out }.

Definition sf_agree (c : sfcase) : bool :=
  match string_fit (sf_tbl c) (sf_uniques c) (sf_has_nan c) (sf_nan c), sf_impl c with
  | Ok g, SFOk ks ct => list_eqb val_eqb (keys g) ks && dict_eqb (content g) ct
  | AssertErr, SFAssert => true
  | InternalErr, SFInternal => true
  | _, _ => false
  end.

(* the property on the implementation's own order: a consistent partition in which every raw
   value sits in the group led by its string form *)
Definition sf_prop (c : sfcase) : bool :=
  match sf_impl c with
  | SFOk ks ct =>
      let g := mkGL ks ct in
      wf_b g && forallb (fun v => val_eqb (get_group g v) (str_form (sf_tbl c) v)) (sf_uniques c)
  | _ => false
  end.

Definition verdict_sf (c : sfcase) : nat :=
  if negb (sf_prop c) then 2%nat else if sf_agree c then 0%nat else 1%nat.

(* worst code of a run: 2 > 1 > 3 > 0 *)
Definition worst (vs : list nat) : nat :=
  if existsb (Nat.eqb 2) vs then 2%nat
  else if existsb (Nat.eqb 1) vs then 1%nat
  else if existsb (Nat.eqb 3) vs then 3%nat
  else 0%nat.
