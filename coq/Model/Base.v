(* Base.v — values, results, insertion-ordered dicts.  Executable model only: NO proofs here. *)
From Coq Require Export ZArith List String Bool Ascii.
Export ListNotations.
Open Scope Z_scope.

(* A Python cell value as the model sees it.  Finite numbers arrive as exact scaled integers
   (the harness multiplies every number of a case by one power of two), so numeric equality is
   Leibniz equality and numeric order is Z order. *)
Inductive val :=
| VNum (z : Z)
| VPInf
| VNInf
| VStr (s : string)
| VNaN.

Definition val_eqb (a b : val) : bool :=
  match a, b with
  | VNum x, VNum y => Z.eqb x y
  | VPInf, VPInf => true
  | VNInf, VNInf => true
  | VStr s, VStr t => String.eqb s t
  | VNaN, VNaN => true
  | _, _ => false
  end.

(* Python's  a == b : like identity/Leibniz, except that NaN is not == to itself *)
Definition py_eq (a b : val) : bool :=
  match a with VNaN => false | _ => val_eqb a b end.

(* AutoCarver's is_equal: == or both missing *)
Definition is_equal (a b : val) : bool := val_eqb a b.

(* bool(x) *)
Definition truthy (a : val) : bool :=
  match a with
  | VNum z => negb (Z.eqb z 0)
  | VStr s => negb (String.eqb s EmptyString)
  | _ => true
  end.

Definition is_str (a : val) : bool := match a with VStr _ => true | _ => false end.

(* x in list  (identity-or-== : Leibniz on the model's values) *)
Fixpoint mem (a : val) (l : list val) : bool :=
  match l with [] => false | x :: t => val_eqb a x || mem a t end.

Fixpoint nodupb (l : list val) : bool :=
  match l with [] => true | x :: t => negb (mem x t) && nodupb t end.

(* list.remove(x): first occurrence; None when absent (ValueError) *)
Fixpoint lremove (a : val) (l : list val) : option (list val) :=
  match l with
  | [] => None
  | x :: t => if val_eqb a x then Some t
              else match lremove a t with Some t' => Some (x :: t') | None => None end
  end.

(* Results: Python AssertionError vs any other exception *)
Inductive res (A : Type) :=
| Ok (a : A)
| AssertErr
| InternalErr.
Arguments Ok {A} a.
Arguments AssertErr {A}.
Arguments InternalErr {A}.

Definition bind {A B} (r : res A) (f : A -> res B) : res B :=
  match r with Ok a => f a | AssertErr => AssertErr | InternalErr => InternalErr end.
Notation "'do' x <- r ; k" := (bind r (fun x => k)) (at level 200, x pattern, r at level 100, k at level 200).

(* Insertion-ordered dict  val -> list val  (CPython dict semantics) *)
Definition dict := list (val * list val).

Fixpoint dget (k : val) (d : dict) : option (list val) :=
  match d with
  | [] => None
  | (k', v) :: t => if val_eqb k k' then Some v else dget k t
  end.

Fixpoint dhas (k : val) (d : dict) : bool :=
  match d with [] => false | (k', _) :: t => val_eqb k k' || dhas k t end.

(* d[k] = v : in place when the key exists, appended otherwise *)
Fixpoint dset (k : val) (v : list val) (d : dict) : dict :=
  match d with
  | [] => [(k, v)]
  | (k', v') :: t => if val_eqb k k' then (k', v) :: t else (k', v') :: dset k v t
  end.

(* d.pop(k) : None when absent (KeyError) *)
Fixpoint dpop (k : val) (d : dict) : option dict :=
  match d with
  | [] => None
  | (k', v') :: t => if val_eqb k k' then Some t
                     else match dpop k t with Some t' => Some ((k', v') :: t') | None => None end
  end.

Definition dkeys (d : dict) : list val := map fst d.
Definition dvalues (d : dict) : list val := flat_map snd d.

(* d.update(d2) *)
Definition dupdate (d d2 : dict) : dict := fold_left (fun acc kv => dset (fst kv) (snd kv) acc) d2 d.

(* dict built by a comprehension {k: f k for k in ks}: later duplicates overwrite in place *)
Definition dict_of_keys (ks : list val) (f : val -> list val) : dict :=
  fold_left (fun acc k => dset k (f k) acc) ks [].

(* total order used by sort(): strings by code point; numbers with -inf < finite < +inf < nan *)
Definition num_rank (a : val) : Z :=
  match a with VNInf => 0 | VNum _ => 1 | VPInf => 2 | VNaN => 3 | VStr _ => 4 end.

Definition val_leb (a b : val) : bool :=
  match a, b with
  | VStr s, VStr t => String.leb s t
  | VNum x, VNum y => Z.leb x y
  | _, _ => Z.leb (num_rank a) (num_rank b)
  end.

Fixpoint insert_sorted (a : val) (l : list val) : list val :=
  match l with
  | [] => [a]
  | x :: t => if val_leb a x then a :: l else x :: insert_sorted a t
  end.

Definition sort_vals (l : list val) : list val := fold_right insert_sorted [] l.

(* list indexing with Python's negative indices *)
Definition py_index {A} (l : list A) (i : Z) : option A :=
  let n := Z.of_nat (List.length l) in
  let j := if i <? 0 then i + n else i in
  if (j <? 0) || (n <=? j) then None else nth_error l (Z.to_nat j).
