(* Update.v — executable model of BaseDiscretizer.update_discretizer
   (AutoCarver/discretizers/utils/base_discretizers.py) on the fitted state of ONE feature
   (record `state` of Model/Transform.v), built on the GroupedList operations of
   Model/GroupedList.v.  Models the REPAIRED code: NaN test `pandas.isna` (total on strings; the
   original `numpy.isnan` raised TypeError for every string argument, observation O8a) and
   'replace' accepting a member of the discarded group (originally `order.group(kept, discarded)`
   was unconditional and asserted that kept is a LEADER, observation O17).

     assert mode in ["group", "replace"]
     if isna(discarded): discarded = str_nan ; features_dropna[feature] = True     (* written BEFORE
                                                                   the next assertion can fail *)
     assert not isna(kept)
     order = values_orders[feature]                       (* the SAME object: edited in place *)
     if order.get_group(discarded) == kept: warn          (* nothing else happens *)
     else:
        if not order.contains(kept): order.append(kept)
        'group'  : if not order.contains(discarded): order.append(discarded)
                   order.group(discarded, kept)
        'replace': if not order.get_group(kept) == discarded:        (* repaired: a member of the
                       order.group(kept, discarded)                    group can be chosen *)
                   assert order.get_group(kept) == discarded
                   order.replace_group_leader(discarded, kept)
        labels_per_values = _get_labels_per_values(output_dtype)       (* label refresh *)

   An exception leaves the in-place mutations made so far and does NOT refresh the labels.
   No proofs in this file. *)
From AC.Model Require Import Base GroupedList Labels Transform FormatRule.

Inductive umode := MGroup | MReplace | MBad.          (* "group" | "replace" | anything else *)

(* how the call ended: normally / with the "already grouped" UserWarning / AssertionError /
   any other exception *)
Inductive outcome := UDone | UWarn | UAssert | UInternal.

Definition outcome_eqb (a b : outcome) : bool :=
  match a, b with
  | UDone, UDone | UWarn, UWarn | UAssert, UAssert | UInternal, UInternal => true
  | _, _ => false
  end.

Definition set_order (st : state) (g : gl) : state :=
  mkState (st_kind st) g (st_nan st) (st_default st) (st_dropna st) (st_odt st) (st_lpv st).

Definition set_dropna (st : state) (b : bool) : state :=
  mkState (st_kind st) (st_order st) (st_nan st) (st_default st) b (st_odt st) (st_lpv st).

(* _get_labels_per_values after the repair "fix: labels follow their groups when the missing-value
   group is not the last one": the labels are built "non-missing leaders in list order, then
   str_nan" and are now zipped with the leaders IN THAT ORDER (ordered_values), wherever str_nan
   sits in the list (an edit with a NEW kept name appends it after '__NAN__').  get_labels only
   depends on the leaders with str_nan filtered out, so this is Labels.labels_per_values applied to
   the order whose list part is rearranged "str_nan last" (content untouched). *)
Definition nan_last (nan : val) (ks : list val) : list val :=
  filter (fun v => py_neq v nan) ks ++ (if mem nan ks then [nan] else []).

Definition norm_gl (nan : val) (g : gl) : gl := mkGL (nan_last nan (keys g)) (content g).

Definition fitted_state_fix (k : kind) (g : gl) (nan dflt : val) (dropna : bool) (o : odtype)
  (tables : list fmt_table) : state :=
  mkState k g nan dflt dropna o
          (labels_per_values k o (fmt_of tables nan g) nan (norm_gl nan g)).

(* self.labels_per_values = self._get_labels_per_values(self.output_dtype): the table is
   recomputed from the order exactly as BaseDiscretizer.fit() does *)
Definition refresh (tables : list fmt_table) (st : state) : state :=
  fitted_state_fix (st_kind st) (st_order st) (st_nan st) (st_default st) (st_dropna st)
                   (st_odt st) tables.

(* if not order.contains(v): order.append(v) *)
Definition ensure (g : gl) (v : val) : gl := if contains g v then g else append g v.

(* a GroupedList method that raises leaves the object as it was before the call *)
Definition gl_try (g : gl) (r : res gl) : gl * outcome :=
  match r with
  | Ok g' => (g', UDone)
  | AssertErr => (g, UAssert)
  | InternalErr => (g, UInternal)
  end.

(* the `else:` branch on the order; d is already str_nan when the argument was missing *)
Definition edit_order (g : gl) (m : umode) (d k : val) : gl * outcome :=
  let g1 := ensure g k in
  match m with
  | MGroup =>
      let g2 := ensure g1 d in
      gl_try g2 (group g2 d k)
  | MReplace =>
      match (if py_eq (get_group g1 k) d then Ok g1 else group g1 k d) with
      | Ok g2 =>
          if py_eq (get_group g2 k) d
          then gl_try g2 (replace_group_leader g2 d k)
          else (g2, UAssert)
      | AssertErr => (g1, UAssert)
      | InternalErr => (g1, UInternal)
      end
  | MBad => (g, UAssert)
  end.

(* update_discretizer(feature, mode, discarded, kept) on the state of `feature`.
   Returns the state AFTER the call (Python mutates in place, also when it raises). *)
Definition update (tables : list fmt_table) (st : state) (m : umode) (d k : val)
  : state * outcome :=
  match m with
  | MBad => (st, UAssert)
  | _ =>
      let d' := if is_nan d then st_nan st else d in
      let st1 := if is_nan d then set_dropna st true else st in
      if is_nan k then (st1, UAssert)
      else if py_eq (get_group (st_order st1) d') k then (st1, UWarn)
      else
        match edit_order (st_order st1) m d' k with
        | (g', UDone) => (refresh tables (set_order st1 g'), UDone)
        | (g', oc) => (set_order st1 g', oc)
        end
  end.

(* the discarded value the order sees *)
Definition eff_d (st : state) (d : val) : val := if is_nan d then st_nan st else d.

(* ---- histories ---------------------------------------------------------------------------- *)
Record edit := mkEdit { e_mode : umode; e_d : val; e_k : val }.

(* Python keeps going after an exception (the caller may catch it): every call is applied *)
Fixpoint run_edits (tables : list fmt_table) (st : state) (es : list edit)
  : list (state * outcome) :=
  match es with
  | [] => []
  | e :: t =>
      let r := update tables st (e_mode e) (e_d e) (e_k e) in
      r :: run_edits tables (fst r) t
  end.

Fixpoint final_state (tables : list fmt_table) (st : state) (es : list edit) : state :=
  match es with
  | [] => st
  | e :: t => final_state tables (fst (update tables st (e_mode e) (e_d e) (e_k e))) t
  end.

(* load_discretizer(json.loads(json.dumps(obj.to_json()))): order, flags and dtypes travel
   through JSON (property C06), then BaseDiscretizer.fit() recomputes the labels *)
Definition reload (tables : list fmt_table) (st : state) : state := refresh tables st.

(* ---- the lookup a quantitative transform performs: first leader >= x ----------------------- *)
Fixpoint first_leader (x : val) (leaders : list val) : option val :=
  match leaders with
  | [] => None
  | l :: t => if num_le x l then Some l else first_leader x t
  end.
