(* Summary.v — executable model of BaseDiscretizer.summary / BaseDiscretizer.history
   (AutoCarver/discretizers/utils/base_discretizers.py) and of the history records written by
   BaseCarver._carve_feature / _test_viability / _historize_viability_test
   (AutoCarver/carvers/base_carver.py).

   Part 1 (summary): the rows of ONE feature as a function of its fitted [state]
     - qualitative: one entry (label, value) per item of labels_per_values[feature], except
       numbers (isinstance float/int tests), str_default, and str_nan when
       features_dropna[feature] is False; entries are grouped by label (DataFrame.groupby);
     - quantitative: one entry (label, RAW 'str' label of the value) per item, plus the extra
       pass adding (label of get_group(str_nan), str_nan) when str_nan is a known value;
     the summary of an object = concatenation over the requested features (all kept features, or
     the single requested one; AssertionError when it is not a kept feature).  After the repair
     "fix: summary(feature) no longer lists the missing-value rows of other quantitative
     features" the extra pass iterates the requested features only, which is what is modelled.
   Part 2 (history): the records of one search stage as a function of the candidates sorted by
     decreasing measure (Carve.sort_desc, the list Carve.stage scans): records are appended
     before the `break`, so every candidate up to and including the first viable one carries
     its viability, all later ones are "Not checked" (viability None); the history of a feature
     = raw record, stage 1, then stage 2 (placement of the missing-value modality).
   No proofs in this file. *)
From AC.Model Require Import Base GroupedList Labels Transform FormatRule.
From Coq Require Import QArith.
From AC.Model Require Import Float Combos Measures Carve CheckC01.
Open Scope Z_scope.

(* =========================================================================================== *)
(* Part 1 — summary()                                                                          *)
(* =========================================================================================== *)

(* one row of the summary of a feature: label, content (list of values shown for that label) *)
Record srow := mkRow { r_label : label; r_content : list val }.

(* one dict appended to `summaries`: (label, content) *)
Definition entry := (label * val)%type.

(* isinstance(value, (floating, float, integer, int)) — the float NaN object is a float *)
Definition is_number (v : val) : bool := is_num v || is_nan v.

(* not self.features_dropna[feature] and value == self.str_nan *)
Definition hidden_nan (st : state) (v : val) : bool :=
  negb (st_dropna st) && py_eq v (st_nan st).

(* case 0 of the loop: qualitative feature *)
Definition qual_entries (st : state) : list entry :=
  flat_map (fun kv =>
              if hidden_nan st (fst kv) || is_number (fst kv) || py_eq (fst kv) (st_default st)
              then [] else [(snd kv, fst kv)])
           (st_lpv st).

(* raw_labels_per_values[feature] = _get_labels_per_values(output_dtype="str")[feature] *)
Definition raw_lpv (fmt : fmt_table) (st : state) : ldict :=
  labels_per_values (st_kind st) OStr fmt (st_nan st) (st_order st).

(* case 1 of the loop: quantitative feature; content = raw_labels_per_values[feature][value]
   (KeyError when the value is unknown to the raw table) *)
Fixpoint quant_main (st : state) (raw : ldict) (items : ldict) : res (list entry) :=
  match items with
  | [] => Ok []
  | (v, l) :: t =>
      if hidden_nan st v then quant_main st raw t
      else match lget v raw with
           | Some (LVal c) => do r <- quant_main st raw t ; Ok ((l, c) :: r)
           | _ => InternalErr
           end
  end.

(* the extra pass: if str_nan in raw_labels_per_values[feature]:
       nan_group = values_orders[feature].get_group(str_nan)
       {"label": labels_per_values[feature][nan_group], "content": str_nan}
   (features_dropna is NOT consulted here) *)
Definition quant_nan (st : state) (raw : ldict) : res (list entry) :=
  match lget (st_nan st) raw with
  | None => Ok []
  | Some _ =>
      match lget (get_group (st_order st) (st_nan st)) (st_lpv st) with
      | Some l => Ok [(l, st_nan st)]
      | None => InternalErr
      end
  end.

Definition summary_entries (fmt : fmt_table) (st : state) : res (list entry) :=
  match st_kind st with
  | Qual => Ok (qual_entries st)
  | Quant =>
      do a <- quant_main st (raw_lpv fmt st) (st_lpv st) ;
      do b <- quant_nan st (raw_lpv fmt st) ;
      Ok (a ++ b)
  end.

(* groupby(label)["content"].apply(lambda u: list(unique(u))) : one row per distinct label *)
Fixpoint ldedup (ls : list label) : list label :=
  match ls with
  | [] => []
  | l :: t => if existsb (label_eqb l) t then ldedup t else l :: ldedup t
  end.

Definition content_of (es : list entry) (l : label) : list val :=
  dedup_val (map snd (filter (fun e => label_eqb (fst e) l) es)).

Definition rows_of_entries (es : list entry) : list srow :=
  map (fun l => mkRow l (content_of es l)) (ldedup (map fst es)).

(* the rows of one feature *)
Definition summary_rows (fmt : fmt_table) (st : state) : res (list srow) :=
  do es <- summary_entries fmt st ; Ok (rows_of_entries es).

(* ---- the object: kept features in the order of self.features ------------------------------ *)
Record ofeat := mkOF { of_name : string; of_fmt : fmt_table; of_state : state }.

Fixpoint rows_for (fs : list ofeat) : res (list (string * srow)) :=
  match fs with
  | [] => Ok []
  | f :: t =>
      do r <- summary_rows (of_fmt f) (of_state f) ;
      do rest <- rows_for t ;
      Ok (map (pair (of_name f)) r ++ rest)
  end.

Definition named (f : string) (x : ofeat) : bool := String.eqb (of_name x) f.

(* summary(feature=None | f):  requested_features = self.features[:] or [f];
   assert f in self.features *)
Definition summary_obj (o : list ofeat) (req : option string) : res (list (string * srow)) :=
  match req with
  | None => rows_for o
  | Some f => if existsb (named f) o then rows_for (filter (named f) o) else AssertErr
  end.

(* =========================================================================================== *)
(* Part 2 — history()                                                                          *)
(* =========================================================================================== *)

(* one record: combination (as a grouping of unit numbers), association value, viability
   (Some true / Some false / None = "Not checked" or raw distribution) *)
Record hrec := mkH { h_comb : grouping; h_meas : option Q; h_viab : option bool }.

Definition not_checked (cm : grouping * option Q) : hrec := mkH (fst cm) (snd cm) None.

(* the loop of _test_viability over the sorted candidates: _historize_viability_test is called
   before the `break`; when the candidate is viable it also appends associations_xagg[n+1:]
   flagged "Not checked" *)
Fixpoint hist_scan (v : grouping -> bool) (l : list (grouping * option Q)) : list hrec :=
  match l with
  | [] => []
  | cm :: t =>
      if v (fst cm) then mkH (fst cm) (snd cm) (Some true) :: map not_checked t
      else mkH (fst cm) (snd cm) (Some false) :: hist_scan v t
  end.

(* the sorted list scanned by Carve.stage *)
Definition scored (cf : cfg) (train : list ymset) (cands : list grouping)
  : list (grouping * option Q) :=
  sort_desc (map (fun c => (c, measure cf train (total_n train) c)) cands).

Definition stage_history (cf : cfg) (train : list ymset) (dev : option (list ymset))
  (cands : list grouping) : list hrec :=
  hist_scan (viable cf train dev) (scored cf train cands).

Definition flagged_viable (r : hrec) : bool :=
  match h_viab r with Some true => true | _ => false end.

(* the combination of the LAST record flagged viable *)
Fixpoint last_viable (h : list hrec) : option grouping :=
  match h with
  | [] => None
  | r :: t =>
      match last_viable t with
      | Some c => Some c
      | None => if flagged_viable r then Some (h_comb r) else None
      end
  end.

(* rows of the crosstab handed to _carve_feature: base modalities, then the missing-value one *)
Definition raw_units (d : feature_data) : list ymset :=
  d_train d ++ match d_train_nan d with Some tn => [tn] | None => [] end.

Definition singletons (n : nat) : grouping := map (fun i => [i]) (seq 0 n).

(* "Raw X distribution": every modality alone, measure of the whole crosstab *)
Definition raw_record (cf : cfg) (d : feature_data) : hrec :=
  let u := raw_units d in
  mkH (singletons (List.length u)) (measure cf u (total_n u) (singletons (List.length u))) None.

Definition expand_rec (c1 : grouping) (nan_id : nat) (r : hrec) : hrec :=
  mkH (expand c1 nan_id (h_comb r)) (h_meas r) (h_viab r).

Definition stage1_cands (cf : cfg) (d : feature_data) : list grouping :=
  consecutive_combinations (seq 0 (List.length (d_train d))) (max_n_mod cf).

Definition stage2_cands (cf : cfg) (c1 : grouping) : list grouping :=
  nan_combinations (seq 0 (List.length c1)) (List.length c1) (max_n_mod cf).

(* stage-2 records, written over the base modalities (missing values = unit number m) *)
Definition stage2_history (cf : cfg) (d : feature_data) (c1 : grouping) : list hrec :=
  map (expand_rec c1 (List.length (d_train d)))
      (stage_history cf (fst (stage2_inputs d c1)) (snd (stage2_inputs d c1)) (stage2_cands cf c1)).

(* self._history[feature] after _carve_feature (the {"removed": True} marker aside) *)
Definition feature_history (cf : cfg) (d : feature_data) : list hrec :=
  if (List.length (raw_units d) <=? 1)%nat then []
  else
    raw_record cf d ::
    (if (List.length (d_train d) <=? 1)%nat then []
     else
       stage_history cf (d_train d) (d_dev d) (stage1_cands cf d) ++
       match stage cf (d_train d) (d_dev d) (stage1_cands cf d) with
       | Some c1 => if two_stage cf d then stage2_history cf d c1 else []
       | None => []
       end).
