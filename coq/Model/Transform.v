(* Transform.v — executable model of BaseDiscretizer.transform for ONE fitted feature and ONE cell:
     transform_quantitative_feature (NaN handling, numpy.select first match, default = raw value),
     _transform_qualitative (fillna, _check_new_values, dict replace),
     the NaN reinstatement at the end of transform (dropna=False).
   A cell is a val; VNaN is a missing value.  No proofs in this file. *)
From AC.Model Require Import Base GroupedList Labels.

(* the fitted state of one feature *)
Record state := mkState {
  st_kind : kind;
  st_order : gl;              (* values_orders[feature] : list part + content dict *)
  st_nan : val;               (* str_nan *)
  st_default : val;           (* str_default *)
  st_dropna : bool;           (* features_dropna[feature] *)
  st_odt : odtype;            (* output_dtype *)
  st_lpv : ldict }.           (* labels_per_values[feature] *)

(* the state as BaseDiscretizer.fit leaves it: labels_per_values computed from the order *)
Definition fitted_state (k : kind) (g : gl) (nan dflt : val) (dropna : bool) (o : odtype)
  (fmt : fmt_table) : state :=
  mkState k g nan dflt dropna o (labels_per_values k o fmt nan g).

(* one output cell: a fitted label, a missing value, or the RAW input value (numpy.select's
   default=df_feature / a value absent from the replace dict) *)
Inductive out :=
| OLab (l : label)
| OMissing
| ORaw (v : val).

Definition is_nan (v : val) : bool := match v with VNaN => true | _ => false end.

(* a number of the carrier: a scaled dyadic or an infinity *)
Definition is_num (v : val) : bool :=
  match v with VNum _ | VPInf | VNInf => true | _ => false end.

(* Python / numpy  x <= leader  on the numbers of the carrier (any comparison with NaN is False) *)
Definition num_le (x l : val) : bool :=
  match x, l with
  | VNum a, VNum b => Z.leb a b
  | VNum _, VPInf => true
  | VNInf, VNum _ => true
  | VNInf, VPInf => true
  | VNInf, VNInf => true
  | VPInf, VPInf => true
  | _, _ => false
  end.

(* x_copy[feature].replace(label_per_value[str_nan], nan)  when features_dropna[feature] is False *)
Definition reinstate (st : state) (o : out) : out :=
  if st_dropna st then o
  else match lget (st_nan st) (st_lpv st) with
       | None => o
       | Some ln => match o with
                    | OLab l => if label_eqb l ln then OMissing else o
                    | _ => o
                    end
       end.

(* ---- quantitative ------------------------------------------------------------------------ *)

(* [value for value in feature_values if value != str_nan] *)
Definition quant_leaders (st : state) : list val :=
  filter (fun v => py_neq v (st_nan st)) (keys (st_order st)).

(* building the masks `df_feature <= value` needs numbers (TypeError otherwise) and
   `labels_per_values[feature][value]` needs every such leader as a key (KeyError otherwise) *)
Definition quant_ready (st : state) : bool :=
  forallb (fun l => negb (is_str l) && match lget l (st_lpv st) with Some _ => true | None => false end)
          (quant_leaders st).

(* numpy.select(masks, labels, default=df_feature): first mask that holds, else the raw value *)
Fixpoint select_first (lpv : ldict) (x : val) (leaders : list val) : out :=
  match leaders with
  | [] => ORaw x
  | l :: t => if num_le x l
              then match lget l lpv with Some lab => OLab lab | None => ORaw x end
              else select_first lpv x t
  end.

Definition quant_cell (st : state) (c : val) : res out :=
  if is_nan c then
    if negb (contains (st_order st) (st_nan st)) then AssertErr
    else if negb (quant_ready st) then InternalErr
    else
      let nan_value := get_group (st_order st) (st_nan st) in
      (* df_feature[nans] = labels_per_values[feature].get(nan_value, str_nan) *)
      Ok (reinstate st (OLab (match lget nan_value (st_lpv st) with
                              | Some l => l
                              | None => LVal (st_nan st)
                              end)))
  else if is_str c then InternalErr            (* str <= float : TypeError *)
  else if negb (quant_ready st) then InternalErr
  else Ok (reinstate st (select_first (st_lpv st) c (quant_leaders st))).

(* ---- qualitative ------------------------------------------------------------------------- *)

Definition qual_cell (st : state) (c : val) : res out :=
  (* if self.str_nan: X = X.fillna(self.str_nan) *)
  let c1 := if is_nan c then (if truthy (st_nan st) then st_nan st else c) else c in
  if is_nan c1 then Ok OMissing                (* nan_unique drops it, replace leaves it *)
  else
    let vals := values (st_order st) in
    (* _check_new_values: unknown values become str_default when a default group exists *)
    let c2 := if negb (mem c1 vals) && py_neq c1 (st_nan st) && mem (st_default st) vals
              then st_default st else c1 in
    if negb (mem c2 vals) then AssertErr
    else Ok (reinstate st (match lget c2 (st_lpv st) with
                           | Some l => OLab l
                           | None => ORaw c2   (* DataFrame.replace: not a key, left as is *)
                           end)).

Definition transform_cell (st : state) (c : val) : res out :=
  match st_kind st with
  | Quant => quant_cell st c
  | Qual => qual_cell st c
  end.

(* ---- one column --------------------------------------------------------------------------- *)
Definition is_assert {A} (r : res A) : bool := match r with AssertErr => true | _ => false end.
Definition is_internal {A} (r : res A) : bool := match r with InternalErr => true | _ => false end.

Fixpoint oks {A} (rs : list (res A)) : list A :=
  match rs with
  | [] => []
  | Ok a :: t => a :: oks t
  | _ :: t => oks t
  end.

(* the assertions are evaluated before the label lists are built, and the label lists are built
   even for an empty column *)
Definition transform_col (st : state) (cells : list val) : res (list out) :=
  let rs := map (transform_cell st) cells in
  if existsb is_assert rs then AssertErr
  else if existsb is_internal rs then InternalErr
  else match st_kind st with
       | Quant => if quant_ready st then Ok (oks rs) else InternalErr
       | Qual => Ok (oks rs)
       end.
