(* Measures.v — exact rational association measures between a grouped feature and the target.
   A unit (modality or group) carries the multiset of its target values as (value, count) pairs.
   chi2 follows scipy.stats.chi2_contingency (Pearson, Yates when the table is 2x2);
   Kruskal-Wallis H follows scipy.stats.kruskal (mid-ranks, tie correction).  No proofs here. *)
From Coq Require Import ZArith QArith List Bool.
Import ListNotations.
Open Scope Z_scope.

Definition ymset := list (Z * Z).          (* (target value, multiplicity), multiplicities > 0 *)

Definition ms_n (u : ymset) : Z := fold_right (fun vc acc => snd vc + acc) 0 u.
Definition ms_sum (u : ymset) : Z := fold_right (fun vc acc => fst vc * snd vc + acc) 0 u.
Definition ms_count (v : Z) (u : ymset) : Z :=
  fold_right (fun vc acc => if Z.eqb (fst vc) v then snd vc + acc else acc) 0 u.
Definition ms_union (us : list ymset) : ymset := concat us.

(* ---- chi2 on a k x 2 table (binary target: values 0 and 1) ----------------------------- *)
Definition row01 (u : ymset) : Z * Z := (ms_count 0 u, ms_count 1 u).

Definition qabs (q : Q) : Q := if Qle_bool 0 q then q else Qopp q.
Definition qmin (a b : Q) : Q := if Qle_bool a b then a else b.
Definition qsign (q : Q) : Q := if Qle_bool q 0 then (if Qle_bool 0 q then 0 else Qopp 1) else 1.

(* one cell: observed o, expected e (e > 0), yates? *)
Definition chi2_cell (yates : bool) (o : Z) (e : Q) : Q :=
  let oq := inject_Z o in
  let o' := if yates then
              let diff := Qminus e oq in
              Qplus oq (Qmult (qmin (1 # 2) (qabs diff)) (qsign diff))
            else oq in
  let d := Qminus o' e in Qdiv (Qmult d d) e.

(* None when an expected frequency is zero (scipy raises ValueError) *)
Definition chi2 (rows : list (Z * Z)) : option Q :=
  let c0 := fold_right (fun r acc => fst r + acc) 0 rows in
  let c1 := fold_right (fun r acc => snd r + acc) 0 rows in
  let n := c0 + c1 in
  if (n =? 0) || (c0 =? 0) || (c1 =? 0) || existsb (fun r => (fst r + snd r) =? 0) rows then None
  else
    let yates := Nat.eqb (length rows) 2 in
    Some (Qred (fold_right
      (fun r acc =>
         let rs := fst r + snd r in
         let e0 := Qmake (rs * c0) (Z.to_pos n) in
         let e1 := Qmake (rs * c1) (Z.to_pos n) in
         Qplus (Qplus (chi2_cell yates (fst r) e0) (chi2_cell yates (snd r) e1)) acc)
      0%Q rows)).

(* V^2 = chi2 / n_obs ;  T^4 = V^4 / (k - 1) *)
Definition cramerv2 (rows : list (Z * Z)) (n_obs : Z) : option Q :=
  match chi2 rows with
  | Some c => if n_obs <=? 0 then None else Some (Qred (Qdiv c (inject_Z n_obs)))
  | None => None
  end.

Definition tschuprowt4 (rows : list (Z * Z)) (n_obs : Z) : option Q :=
  match cramerv2 rows n_obs with
  | Some v2 =>
      let k := Z.of_nat (length rows) in
      if k <=? 1 then None else Some (Qred (Qdiv (Qmult v2 v2) (inject_Z (k - 1))))
  | None => None
  end.

(* ---- Kruskal-Wallis ---------------------------------------------------------------------- *)
(* distinct values of the pooled sample *)
Fixpoint zmem (v : Z) (l : list Z) : bool :=
  match l with [] => false | x :: t => Z.eqb v x || zmem v t end.
Fixpoint zdistinct (l : list Z) : list Z :=
  match l with [] => [] | x :: t => if zmem x t then zdistinct t else x :: zdistinct t end.

Definition ms_less (v : Z) (u : ymset) : Z :=
  fold_right (fun vc acc => if Z.ltb (fst vc) v then snd vc + acc else acc) 0 u.

(* twice the mid-rank of value v in the pooled sample *)
Definition rank2 (pool : ymset) (v : Z) : Z := 2 * ms_less v pool + ms_count v pool + 1.

(* sum over the unit of twice the rank *)
Definition rank2_sum (pool : ymset) (u : ymset) : Z :=
  fold_right (fun vc acc => snd vc * rank2 pool (fst vc) + acc) 0 u.

(* H ; None when all pooled values are identical (scipy: nan / error) or a group is empty *)
Definition kruskal (groups : list ymset) : option Q :=
  let pool := ms_union groups in
  let n := ms_n pool in
  let dvals := zdistinct (map fst pool) in
  let tsum := fold_right (fun v acc => let t := ms_count v pool in t * t * t - t + acc) 0 dvals in
  let denom := n * n * n - n in
  if (n <=? 1) || (denom - tsum =? 0) || existsb (fun g => ms_n g =? 0) groups then None
  else
    let ssbn := fold_right
      (fun g acc => let s := rank2_sum pool g in Qplus (Qmake (s * s) (Z.to_pos (4 * ms_n g))) acc)
      0%Q groups in
    let h := Qminus (Qmult (Qmake 12 (Z.to_pos (n * (n + 1)))) ssbn) (inject_Z (3 * (n + 1))) in
    let ties := Qmake (denom - tsum) (Z.to_pos denom) in
    Some (Qred (Qdiv h ties)).

(* ---- comparing optional measures: None (NaN) is minimal ----------------------------------- *)
Definition oq_le (a b : option Q) : bool :=
  match a, b with
  | None, _ => true
  | Some _, None => false
  | Some x, Some y => Qle_bool x y
  end.

(* a >= b up to a relative tolerance 1e-9 (float noise of the implementation's own sort) *)
Definition oq_ge_tol (a b : option Q) : bool :=
  match a, b with
  | _, None => true
  | None, Some _ => false
  | Some x, Some y =>
      Qle_bool (Qmult y (Qmake 999999999 1000000000)) x || Qle_bool y x
  end.
