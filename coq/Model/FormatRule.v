(* FormatRule.v — the digit-selection loop of format_quantiles (base_discretizers.py), after the
   repair "fix: format_quantiles adds digits while distinct quantiles share a label":
       n_digits = 3
       formatted = [f"{x:.{n_digits}e}" for x in a_list]
       while len(set(formatted)) < len(set(a_list)) and n_digits < 17:
           n_digits += 1 ; formatted = [...]
   CPython's formatting is an oracle: the harness passes the tables for n_digits = 3, 4, ..., 17
   (only the first one when it already separates the leaders); the RULE is modelled here.
   No proofs in this file. *)
From AC.Model Require Import Base GroupedList Labels Transform.

Fixpoint dedup_str (l : list string) : list string :=
  match l with
  | [] => []
  | s :: t => if existsb (String.eqb s) t then dedup_str t else s :: dedup_str t
  end.

Fixpoint dedup_val (l : list val) : list val :=
  match l with
  | [] => []
  | v :: t => if mem v t then dedup_val t else v :: dedup_val t
  end.

(* len(set(formatted)) , len(set(a_list)) *)
Definition n_forms (t : fmt_table) (fin : list val) : nat :=
  List.length (dedup_str (map (fmt_lookup t) fin)).
Definition n_vals (fin : list val) : nat := List.length (dedup_val fin).

(* tables = [table for 3 digits; 4 digits; ...]: first table with as many forms as values, else
   the last one (n_digits = 17) *)
Fixpoint pick_fmt (tables : list fmt_table) (fin : list val) : fmt_table :=
  match tables with
  | [] => []
  | t :: rest =>
      match rest with
      | [] => t
      | _ :: _ => if Nat.ltb (n_forms t fin) (n_vals fin) then pick_fmt rest fin else t
      end
  end.

(* the table format_quantiles ends up using for the leaders of g *)
Definition fmt_of (tables : list fmt_table) (nan : val) (g : gl) : fmt_table :=
  pick_fmt tables (finite_leaders nan (keys g)).

Definition fitted_state_auto (k : kind) (g : gl) (nan dflt : val) (dropna : bool) (o : odtype)
  (tables : list fmt_table) : state :=
  fitted_state k g nan dflt dropna o (fmt_of tables nan g).
