(* Multiclass.v — MulticlassCarver.fit as one-vs-rest over the sorted string classes.
   The per-class binary fit is the carving model of Carve.v.  No proofs here. *)
From Coq Require Import List String Bool Ascii.
Import ListNotations.
From AC.Model Require Import Float Combos Measures Carve.

(* sorted(list(y.astype(str).unique())): insertion sort by code-point order *)
Fixpoint ins_str (s : string) (l : list string) : list string :=
  match l with
  | [] => [s]
  | x :: t => if String.leb s x then s :: l else x :: ins_str s t
  end.
Definition sort_strings (l : list string) : list string := fold_right ins_str [] l.

(* y_classes = sorted(...)[1:] *)
Definition ovr_classes (classes : list string) : list string := tl (sort_strings classes).

(* append_class *)
Definition cast_name (feature cls : string) : string := (feature ++ "_" ++ cls)%string.

(* one feature: per class, the outcome of the binary carver fitted on the indicator 1[y = c]
   with the SAME configuration (min_freq_mod forwarded: repaired by "fix: MulticlassCarver
   forwards min_freq_mod") *)
Definition multiclass_feature (cf : cfg) (feature : string) (classes : list string)
           (data_of : string -> feature_data) : list (string * outcome) :=
  map (fun c => (cast_name feature c, carve cf (data_of c))) (ovr_classes classes).

(* the columns kept for that feature *)
Definition kept_columns (rs : list (string * outcome)) : list string :=
  map fst (filter (fun r => match snd r with Kept _ => true | Dropped => false end) rs).
