(* Chained.v — executable model of AutoCarver ChainedDiscretizer
   (discretizers/utils/qualitative_discretizers.py: __init__ / _prepare_data / fit) and of
   BaseDiscretizer.fit/_get_labels_per_values/transform for one qualitative feature.
   The feature's order is a GroupedList (Model/GroupedList.v) and is driven through the very
   methods the code calls (append, group, sort_by, get_group, values).  No proofs here.

   Domain: one feature, values_orders=None, str_nan="__NAN__", hierarchy values are strings,
   column cells are strings or NaN, at least one row. *)
From Coq Require Import SpecFloat.
From AC.Model Require Import Base Float GroupedList.


Definition nan_s : val := VStr "__NAN__"%string.

(* ---- small list helpers --------------------------------------------------------------------- *)
Definition count (v : val) (col : list val) : Z := Z.of_nat (List.length (filter (val_eqb v) col)).

(* Series.unique(): first appearances, in order *)
Fixpoint uniq_acc (l acc : list val) : list val :=
  match l with
  | [] => acc
  | x :: t => if mem x acc then uniq_acc t acc else uniq_acc t (acc ++ [x])
  end.
Definition uniq (l : list val) : list val := uniq_acc l [].

Fixpoint index_of (a : val) (l : list val) : option nat :=
  match l with
  | [] => None
  | x :: t => if val_eqb a x then Some O else match index_of a t with Some i => Some (S i) | None => None end
  end.

Definition insert_after (i : nat) (x : val) (l : list val) : list val :=
  firstn (S i) l ++ x :: skipn (S i) l.

Definition last_opt (l : list val) : option val :=
  match rev l with [] => None | x :: _ => Some x end.

(* assoc list val -> val with dict.update semantics *)
Definition vmap := list (val * val).
Fixpoint aget (k : val) (m : vmap) : option val :=
  match m with [] => None | (k', v) :: t => if val_eqb k k' then Some v else aget k t end.
Fixpoint aset (k v : val) (m : vmap) : vmap :=
  match m with
  | [] => [(k, v)]
  | (k', v') :: t => if val_eqb k k' then (k', v) :: t else (k', v') :: aset k v t
  end.

Fixpoint mapM {A B} (f : A -> res B) (l : list A) : res (list B) :=
  match l with
  | [] => Ok []
  | x :: t => do y <- f x ; do r <- mapM f t ; Ok (y :: r)
  end.

(* ---- __init__ : known_values ------------------------------------------------------------- *)
(* one group (next_group, next_values) of a higher level *)
Definition kv_group (known : list val) (grp : val * list val) : res (list val) :=
  let ng := fst grp in
  let nvs := snd grp in
  let unk := filter (fun v => negb (mem v known) && negb (py_eq v ng)) nvs in
  match unk with
  | _ :: _ => AssertErr                                   (* values missing from the level below *)
  | [] =>
      let kn := filter (fun v => mem v known && negb (py_eq v ng)) nvs in
      match last_opt kn with
      | None => AssertErr                                 (* no value of the levels below *)
      | Some h =>
          match index_of h known with
          | None => InternalErr
          | Some i => Ok (insert_after i ng known)
          end
      end
  end.

Fixpoint kv_groups (known : list val) (grps : dict) : res (list val) :=
  match grps with
  | [] => Ok known
  | grp :: t => do k' <- kv_group known grp ; kv_groups k' t
  end.

Fixpoint kv_levels (known : list val) (lvs : list gl) : res (list val) :=
  match lvs with
  | [] => Ok known
  | lv :: t => do k' <- kv_groups known (content lv) ; kv_levels k' t
  end.

Definition known_values (lvs : list gl) : res (list val) :=
  match lvs with
  | [] => InternalErr                                     (* chained_orders[0]: IndexError *)
  | lv0 :: rest => kv_levels (values lv0) rest
  end.

(* order = GroupedList([]); append every known value not yet in order.values(); sort_by *)
Definition init_order (known : list val) : res gl :=
  sort_by (fold_left (fun g v => if mem v (values g) then g else append g v) known (of_list []))
          known.

Record chained := mkChained { c_levels : list gl; c_known : list val; c_order : gl }.

Definition init (levels : list dict) : res chained :=
  do lvs <- mapM of_dict levels ;
  do known <- known_values lvs ;
  do o <- init_order known ;
  Ok (mkChained lvs known o).

(* ---- _prepare_data ------------------------------------------------------------------------- *)
Definition fillna (col : list val) : list val :=
  map (fun r => match r with VNaN => nan_s | _ => r end) col.

Definition not_nan (r : val) : bool := match r with VNaN => false | _ => true end.

(* max over non-NaN values of fl(count/n) < min_freq  (max of no value is NaN: not <) *)
Definition feature_dropped (mf : fl) (col : list val) : bool :=
  let n := Z.of_nat (List.length col) in
  let us := uniq (filter not_nan col) in
  match us with
  | [] => false
  | _ => forallb (fun v => fltb (fdivZ (count v col) n) mf) us
  end.

Definition unknown_values (known : list val) (filled : list val) : list val :=
  filter (fun v => negb (mem v known) && negb (py_eq v nan_s)) (uniq filled).

(* order.append(u); if str_nan not in order: order.append(str_nan); order.group(u, str_nan)
   (the guard is the repair "fix: ChainedDiscretizer(unknown_handling='drop') accepts several
   distinct unknown values"; before it str_nan was appended once per unknown value, which reset
   content[str_nan] and lost the unknown values grouped so far) *)
Definition add_unknown (g : gl) (u : val) : res gl :=
  let g1 := append g u in
  let g2 := if mem nan_s (keys g1) then g1 else append g1 nan_s in
  group g2 u nan_s.

Fixpoint drop_unknown (g : gl) (us : list val) : res gl :=
  match us with
  | [] => Ok g
  | u :: t => do g' <- add_unknown g u ; drop_unknown g' t
  end.

Definition prepare (c : chained) (drop : bool) (filled : list val) : res gl :=
  let us := unknown_values (c_known c) filled in
  do g1 <- match us with
           | [] => Ok (c_order c)
           | _ => if drop then drop_unknown (c_order c) us else AssertErr
           end ;
  let g2 := if mem nan_s filled && negb (mem nan_s (keys g1)) then append g1 nan_s else g1 in
  (* _check_new_values *)
  if forallb (fun v => mem v (values g2)) (uniq filled) then Ok g2 else AssertErr.

(* ---- fit: the level loop ------------------------------------------------------------------- *)
(* value kept at a level: present in value_counts with fl(count/n) >= min_freq, or str_nan *)
Definition keepb (mf : fl) (n : Z) (col : list val) (v : val) : bool :=
  let c := count v col in
  ((0 <? c) && fgeb (fdivZ c n) mf) || val_eqb v nan_s.

Fixpoint group_pairs (g : gl) (ps : list (val * val)) : res gl :=
  match ps with
  | [] => Ok g
  | (d, k) :: t => do g' <- group g d k ; group_pairs g' t
  end.

Definition to_group (mf : fl) (n : Z) (col : list val) (lv : gl) : list val :=
  filter (fun v => negb (keepb mf n col v)) (values lv).

Definition level_step (mf : fl) (n : Z) (lv : gl) (col : list val) (g : gl) : res (list val * gl) :=
  let tg := to_group mf n col lv in
  (* numpy.select, skipped when nothing is to be grouped (the guard is the repair "fix:
     ChainedDiscretizer.fit handles a level where every value is frequent enough"; before it
     select([], [], ...) raised ValueError); with tg = [] the lines below are the identity *)
  let col' := map (fun r => if mem r tg then get_group lv r else r) col in
  do g' <- group_pairs g (map (fun v => (v, get_group lv v)) tg) ;
  Ok (col', g').

Fixpoint fit_levels (mf : fl) (n : Z) (lvs : list gl) (col : list val) (g : gl) : res (list val * gl) :=
  match lvs with
  | [] => Ok (col, g)
  | lv :: t => do st <- level_step mf n lv col g ; fit_levels mf n t (fst st) (snd st)
  end.

(* BaseDiscretizer._get_labels_per_values for a qualitative feature, output_dtype="str" *)
Definition labels_per_values (g : gl) : vmap :=
  let ks := keys g in
  let labels := filter (fun k => negb (py_eq k nan_s)) ks ++ (if mem nan_s ks then [nan_s] else []) in
  fold_left (fun m kl => fold_left (fun m' v => aset v (snd kl) m') (get g (fst kl)) m)
            (combine ks labels) [].

Inductive outcome :=
| Dropped                                (* feature removed: largest modality rarer than min_freq *)
| Fitted (g : gl) (lpv : vmap).

Definition fit (levels : list dict) (col : list val) (mfd : Z * Z) (drop : bool) : res outcome :=
  let mf := f_of_dyadic (fst mfd) (snd mfd) in
  let n := Z.of_nat (List.length col) in
  do c <- init levels ;
  if feature_dropped mf col then Ok Dropped
  else
    let filled := fillna col in
    do g <- prepare c drop filled ;
    do st <- fit_levels mf n (c_levels c) filled g ;
    Ok (Fitted (snd st) (labels_per_values (snd st))).

(* ChainedDiscretizer(..., values_orders={feature: l}) with a plain list l: every value of l must be
   known to the hierarchy (AssertionError otherwise); the known values missing from l are appended
   and the whole is re-sorted by known_values, so a consistent l changes nothing *)
Definition fit_with_order (vo : option (list val)) (levels : list dict) (col : list val)
                          (mfd : Z * Z) (drop : bool) : res outcome :=
  match vo with
  | None => fit levels col mfd drop
  | Some l =>
      do c <- init levels ;
      if forallb (fun v => mem v (c_known c)) l then fit levels col mfd drop else AssertErr
  end.

(* value -> leader map read off content (what the harness observes) *)
Definition content_map (g : gl) : vmap :=
  flat_map (fun kv => map (fun v => (v, fst kv)) (snd kv)) (content g).

(* ---- transform (qualitative feature, dropna=False) ----------------------------------------- *)
Definition transform (g : gl) (lpv : vmap) (col : list val) : res (list val) :=
  let filled := fillna col in
  if negb (forallb (fun v => mem v (values g)) (uniq filled)) then AssertErr
  else
    let replaced := map (fun r => match aget r lpv with Some l => l | None => r end) filled in
    Ok (match aget nan_s lpv with
        | Some ln => map (fun r => if val_eqb r ln then VNaN else r) replaced
        | None => replaced
        end).

(* ---- reference semantics (DESIGN Appendix A.7), as a leader FUNCTION ------------------------ *)
(* member of some level *)
Definition hierb (lvs : list gl) (r : val) : bool := existsb (fun lv => mem r (values lv)) lvs.

(* the rewritten training column under a leader function: hierarchy values are replaced by
   their current leader; str_nan and unknown values are left as they are *)
Definition cur (all : list gl) (L : val -> val) (r : val) : val := if hierb all r then L r else r.

(* one level: a member c of the level whose current mass is rare hands everything it leads to
   its group leader in that level *)
Definition lead_step (mf : fl) (n : Z) (all : list gl) (col0 : list val) (lv : gl)
                     (L : val -> val) : val -> val :=
  let tg := to_group mf n (map (cur all L) col0) lv in      (* evaluated once per level *)
  fun x => let c := L x in if mem c tg then get_group lv c else c.

Fixpoint lead (mf : fl) (n : Z) (all : list gl) (col0 : list val) (lvs : list gl)
              (L : val -> val) : val -> val :=
  match lvs with
  | [] => L
  | lv :: t => lead mf n all col0 t (lead_step mf n all col0 lv L)
  end.

(* a is reached from v by applying the parent maps of an increasing choice of levels *)
Fixpoint climbs (lvs : list gl) (v a : val) : Prop :=
  match lvs with
  | [] => v = a
  | lv :: t => climbs t v a \/ (In v (values lv) /\ climbs t (get_group lv v) a)
  end.

Fixpoint climbsb (lvs : list gl) (v a : val) : bool :=
  match lvs with
  | [] => val_eqb v a
  | lv :: t => climbsb t v a || (mem v (values lv) && climbsb t (get_group lv v) a)
  end.
