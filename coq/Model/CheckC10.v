(* CheckC10.v — verdict of the C10 correspondence: paired real fits (feature subsets, list and
   column orders, hash seeds, n_jobs, stubbed pools with permuted completion order).  Per-feature
   fitted results are abstracted to integers (one id per distinct (values_orders, transform
   output) observed).  No proofs here. *)
From Coq Require Import List String Bool Arith.
Import ListNotations.
From AC.Model Require Import Pipeline.

Record cfgobs := mkCfgObs {
  co_features : list string;                 (* features this configuration was asked to fit *)
  co_final : list (string * nat);            (* kept feature -> result id *)
  co_arrivals : list (list string) }.        (* completion order of each stubbed fit pool *)

Record c10case := mkC10 {
  t_base : list (string * nat);              (* baseline configuration: kept feature -> id *)
  t_cfgs : list cfgobs }.

Definition onat_eqb (a b : option nat) : bool :=
  match a, b with
  | None, None => true
  | Some x, Some y => Nat.eqb x y
  | _, _ => false
  end.

(* the property: whatever the configuration, each fitted feature has the baseline's result *)
Definition C10_b (c : c10case) : bool :=
  forallb (fun cf => forallb (fun f => onat_eqb (slookup f (co_final cf)) (slookup f (t_base c)))
                             (co_features cf)) (t_cfgs c).

(* model: assembling the pool results in the observed completion order gives, for every
   feature of the pool, the entry the implementation ended with (features dropped later by the
   pipeline are absent from co_final and are not compared) *)
Definition agree_cfg (c : c10case) (cf : cfgobs) : bool :=
  forallb (fun arrival =>
     let results := flat_map (fun f => match slookup f (t_base c) with Some i => [(f, i)] | None => [] end) arrival in
     let m := assemble [] results in
     forallb (fun f => match slookup f (co_final cf) with
                       | Some i => onat_eqb (slookup f m) (Some i)
                       | None => true end) arrival)
    (co_arrivals cf).

Definition verdict10 (c : c10case) : nat :=
  if negb (C10_b c) then 2%nat
  else if forallb (agree_cfg c) (t_cfgs c) then 0%nat else 1%nat.
