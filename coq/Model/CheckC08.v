(* CheckC08.v — the fitted-state invariant of C08 evaluated on the IMPLEMENTATION's state:
   every values_orders entry is a well-formed ordered partition (wf_b, proved equivalent to WF in
   Proofs/CheckC13Proofs.v) covering every training value.  No proofs here. *)
From AC.Model Require Import Base GroupedList CheckC13.

Record c08feature := mkC08f {
  f_quant : bool;
  f_order : gl;                 (* observed values_orders[f]: list + content *)
  f_train : list val;           (* distinct non-missing training values (numbers exact, scaled) *)
  f_has_nan : bool;             (* missing values in the training column *)
  f_str_nan : val }.

Definition val_le (a b : val) : bool :=
  match a, b with
  | _, VPInf => true
  | VNInf, _ => true
  | VNum x, VNum y => Z.leb x y
  | _, _ => false
  end.

Definition covers (f : c08feature) : bool :=
  (if f_quant f
   then forallb (fun v => existsb (fun k => val_le v k) (keys (f_order f))) (f_train f)
   else forallb (fun v => contains (f_order f) v) (f_train f))
  && (negb (f_has_nan f) || contains (f_order f) (f_str_nan f)).

(* quantitative leaders: strictly increasing numbers, the last finite-or-inf one being +inf
   (str_nan, when present as its own leader, comes last) *)
Fixpoint strictly_increasing (l : list val) : bool :=
  match l with
  | a :: ((b :: _) as t) => val_le a b && negb (val_eqb a b) && strictly_increasing t
  | _ => true
  end.

Definition quant_leaders_ok (f : c08feature) : bool :=
  negb (f_quant f) ||
  (let nums := filter (fun k => negb (val_eqb k (f_str_nan f))) (keys (f_order f)) in
   strictly_increasing nums && match rev nums with VPInf :: _ => true | _ => false end).

Definition feature_ok (f : c08feature) : bool :=
  wf_b (f_order f) && covers f && quant_leaders_ok f.

Definition verdict08 (fs : list c08feature) : nat :=
  if forallb feature_ok fs then 0%nat else 2%nat.
