(* Ordinal.v — executable model of find_common_modalities / find_closest_modality
   (AutoCarver/discretizers/utils/qualitative_discretizers.py), of OrdinalDiscretizer.fit's
   label <-> value bookkeeping (convert_to_labels / convert_to_values) and of
   QuantitativeDiscretizer.fit's rare-bucket pass (min_value_counts, `<= min_freq / 2`).
   No proofs here. *)
From Coq Require Import ZArith List Bool SpecFloat.
From AC.Model Require Import Base Float GroupedList Quantiles.
Import ListNotations.
Open Scope Z_scope.

(* one column of `stats` + the entry of `order` it belongs to:
   leader, order.content[leader], count (stats[0]), sum of y (stats[1]; None = NaN: label absent) *)
Record bucket := mkB { b_lead : val; b_mem : list val; b_cnt : Z; b_sum : option Z }.

Definition f_nan : fl := S754_nan.
Definition f_zero : fl := f_of_Z 0.

(* stats[0, :] / len_df *)
Definition b_freq (n : Z) (b : bucket) : fl := fdivZ (b_cnt b) n.
(* stats[1, :] / stats[0, :]   (NaN / c = NaN, 0 / 0 = NaN) *)
Definition b_rate (b : bucket) : fl :=
  match b_sum b with None => f_nan | Some s => fdivZ s (b_cnt b) end.

Definition nthf (l : list fl) (i : nat) : fl := nth i l f_nan.

(* find_closest_modality(idx, frequencies, target_rates, min_freq) *)
Definition closest (idx : nat) (fs ts : list fl) (m : fl) : nat :=
  if Nat.eqb idx 0 then 1%nat
  else if Nat.eqb idx (List.length fs - 1) then (idx - 1)%nat
  else
    let pf := nthf fs (idx - 1) in
    let cf := nthf fs idx in
    let nf := nthf fs (idx + 1) in
    let pt := nthf ts (idx - 1) in
    let ct := nthf ts idx in
    let nt := nthf ts (idx + 1) in
    if (fltb nf m && fleb m pf)
       || (((fltb nf m && fltb pf m) || (fgeb nf m && fgeb pf m))
           && ((feqb cf f_zero && fltb nf pf)
               || (fltb f_zero ct && fltb (fabs (fsub nt ct)) (fabs (fsub pt ct)))))
    then (idx + 1)%nat
    else (idx - 1)%nat.

(* numpy.argmin: index of the first minimum *)
Fixpoint argmin_from (best : Z) (besti : nat) (i : nat) (l : list Z) : nat :=
  match l with
  | [] => besti
  | x :: t => if x <? best then argmin_from x i (S i) t else argmin_from best besti (S i) t
  end.
Definition argmin (l : list Z) : nat :=
  match l with [] => 0%nat | x :: t => argmin_from x 0%nat 1%nat t end.

Definition add_sum (a b : option Z) : option Z :=
  match a, b with Some x, Some y => Some (x + y) | _, _ => None end.

(* order.group(order[d], order[k]);  stats[:, k] += stats[:, d] *)
Definition absorb (d k : bucket) : bucket :=
  mkB (b_lead k) (b_mem d ++ b_mem k) (b_cnt k + b_cnt d) (add_sum (b_sum k) (b_sum d)).

Fixpoint replace_nth {A} (i : nat) (x : A) (l : list A) : list A :=
  match l, i with
  | [], _ => []
  | _ :: t, O => x :: t
  | y :: t, S j => y :: replace_nth j x t
  end.

Fixpoint remove_nth {A} (i : nat) (l : list A) : list A :=
  match l, i with
  | [], _ => []
  | _ :: t, O => t
  | y :: t, S j => y :: remove_nth j t
  end.

(* one iteration of the while loop for ANY pair of indices (adjacency is a theorem, not built in) *)
Definition group_at (d k : nat) (bs : list bucket) : res (list bucket) :=
  if Nat.eqb d k then InternalErr
  else
    match nth_error bs d, nth_error bs k with
    | Some bd, Some bk => Ok (remove_nth d (replace_nth k (absorb bd bk) bs))
    | _, _ => InternalErr                     (* IndexError *)
    end.

Definition rare (n : Z) (m : fl) (b : bucket) : bool := fltb (b_freq n b) m.

(* while any(stats[0, :] / len_df < min_freq) & (stats.shape[1] > 1) *)
Definition loop_cond (n : Z) (m : fl) (bs : list bucket) : bool :=
  existsb (rare n m) bs && (1 <? List.length bs)%nat.

Definition loop_step (n : Z) (m : fl) (bs : list bucket) : res (list bucket) :=
  let d := argmin (map b_cnt bs) in
  let k := closest d (map (b_freq n) bs) (map b_rate bs) m in
  group_at d k bs.

Fixpoint fcm (fuel : nat) (n : Z) (m : fl) (bs : list bucket) : res (list bucket) :=
  if loop_cond n m bs then
    match fuel with
    | O => InternalErr                        (* out of fuel: excluded by fuel_enough *)
    | S f => match loop_step n m bs with
             | Ok bs' => fcm f n m bs'
             | AssertErr => AssertErr
             | InternalErr => InternalErr
             end
    end
  else Ok bs.

(* find_common_modalities: fuel = number of columns of stats *)
Definition find_common_modalities (n : Z) (m : fl) (bs : list bucket) : res (list bucket) :=
  fcm (List.length bs) n m bs.

(* ---- qualitative ordinal feature --------------------------------------------------------- *)
(* data: (value, count, sum of y) of the observed non-missing values *)
Definition odata := list (val * Z * Z).

Fixpoint lookup (v : val) (d : odata) : option (Z * Z) :=
  match d with
  | [] => None
  | (w, c, s) :: t => if val_eqb v w then Some (c, s) else lookup v t
  end.

(* value_counts().reindex(order, fill_value=0) / groupby(...).sum().reindex(order) *)
Definition init_bucket (d : odata) (v : val) : bucket :=
  match lookup v d with
  | Some (c, s) => mkB v [v] c (Some s)
  | None => mkB v [v] 0 None
  end.

Definition count_rows (d : odata) : Z := fold_right (fun p acc => snd (fst p) + acc) 0 d.

Definition min_freq_f (mf : Z * Z) : fl := f_of_dyadic (fst mf) (snd mf).

(* convert_to_values on one group: order.group_list(group, kept):
   content[kept] = reversed(discarded) ++ [kept] *)
Definition value_group (kept : val) (members : list val) : val * list val :=
  (kept, rev (filter (fun v => negb (val_eqb v kept)) members) ++ [kept]).

Definition gl_of_groups (groups : list (val * list val)) (has_nan : bool) : gl :=
  let ks := map fst groups in
  if has_nan then mkGL (ks ++ [str_nan]) (groups ++ [(str_nan, [str_nan])])
  else mkGL ks groups.

(* QualitativeDiscretizer._prepare_data: feature dropped when its most frequent value is rarer than
   min_freq (max of an empty column is NaN: not dropped) *)
Definition all_rare (n : Z) (m : fl) (counts : list Z) : bool :=
  match counts with [] => false | _ => forallb (fun c => fltb (fdivZ c n) m) counts end.

(* None = feature dropped.  [order] : the user's ranking (without str_nan) *)
Definition ordinal_fit (mf : Z * Z) (nan_cnt : Z) (order : list val) (d : odata)
  : res (option gl) :=
  let n := nan_cnt + count_rows d in
  let m := min_freq_f mf in
  if all_rare n m (map (fun p => snd (fst p)) d) then Ok None
  else if negb (forallb (fun p => mem (fst (fst p)) order) d) then AssertErr   (* _check_new_values *)
  else
    match find_common_modalities n m (map (init_bucket d) order) with
    | Ok bs => Ok (Some (gl_of_groups (map (fun b => value_group (b_lead b) (b_mem b)) bs)
                                      (0 <? nan_cnt)))
    | AssertErr => AssertErr
    | InternalErr => InternalErr
    end.

(* ---- quantitative feature: QuantitativeDiscretizer.fit ----------------------------------- *)
Definition qdata := list (Z * Z * Z).           (* (value, count, sum of y), ascending values *)

Definition vcs_of (d : qdata) : vcs := map (fun p => (fst (fst p), snd (fst p))) d.
Definition qcount_rows (d : qdata) : Z := fold_right (fun p acc => snd (fst p) + acc) 0 d.

Definition val_ltb (a b : val) : bool := val_leb a b && negb (val_eqb a b).

(* rows whose value x satisfies  prev < x <= leader  (transform: first leader with x <= leader) *)
Definition in_bucket (prev : option val) (leader : val) (x : Z) : bool :=
  (match prev with None => true | Some p => val_ltb p (VNum x) end) && val_leb (VNum x) leader.

Fixpoint qbuckets (prev : option val) (leaders : list val) (d : qdata) : list bucket :=
  match leaders with
  | [] => []
  | l :: t =>
      let rows := filter (fun p => in_bucket prev l (fst (fst p))) d in
      let c := qcount_rows rows in
      let s := fold_right (fun p acc => snd p + acc) 0 rows in
      mkB l [l] c (if c =? 0 then None else Some s) :: qbuckets (Some l) t d
  end.

(* max(which_to_keep) over quantile values *)
Fixpoint vmax (l : list val) (default : val) : val :=
  match l with
  | [] => default
  | x :: t => let m := vmax t x in if val_leb m x then x else m
  end.

Definition quant_group (members : list val) : val * list val :=
  value_group (vmax members VNInf) members.

Fixpoint strictly_increasing (l : list Z) : bool :=
  match l with
  | [] => true
  | x :: t => match t with [] => true | y :: _ => (x <? y) && strictly_increasing t end
  end.

(* min_value_counts(...) <= min_freq / 2 : the label of str_nan is never found in the transformed
   column (it holds NaN), so a feature with missing values always has minimum 0 *)
Definition has_rare (n : Z) (half : fl) (nan_cnt : Z) (bs : list bucket) : bool :=
  (0 <? nan_cnt) || existsb (fun b => fleb (b_freq n b) half) bs.

(* QuantitativeDiscretizer.fit: OrdinalDiscretizer(min_freq / 2) only on features with a rare bucket *)
Definition rare_pass (n : Z) (half : fl) (nan_cnt : Z) (bs : list bucket) : res (list bucket) :=
  if has_rare n half nan_cnt bs then find_common_modalities n half bs else Ok bs.

Definition half_min_freq (mf : Z * Z) : fl := fdiv (min_freq_f mf) (f_of_Z 2).

Inductive qfit :=
| QFit (g : gl)
| QDuplicates                 (* duplicated quantiles (O1): outside the domain modelled here *)
| QFail (e : qerr)
| QInternal.

Definition quantitative_fit (dedup : bool) (mf : Z * Z) (nan_cnt : Z) (d : qdata) : qfit :=
  let n := nan_cnt + qcount_rows d in
  match q_of_min_freq mf with
  | None => QFail QFloat
  | Some q =>
      match find_quantiles_v dedup q n (vcs_of d) with
      | QErr e => QFail e
      | QOk qs =>
          if negb (strictly_increasing qs) then QDuplicates
          else
            let bs := qbuckets None (boundaries qs) d in
            match rare_pass n (half_min_freq mf) nan_cnt bs with
            | Ok bs' => QFit (gl_of_groups (map (fun b => quant_group (b_mem b)) bs') (0 <? nan_cnt))
            | _ => QInternal
            end
      end
  end.
