(* CheckC06.v — verdict function of the C06 correspondence: the model's JSON trip vs what the
   implementation wrote / rebuilt, and the property predicate C06_b on the implementation's own
   output.  CPython's key conversion (json.dumps) and str() arrive as per-feature tables.
   No proofs here. *)
From AC.Model Require Import Base GroupedList CheckC13 Json.
Open Scope string_scope.

Definition table := list (val * string).

Definition lookup (t : table) (v : val) : string :=
  match aget v t with Some s => s | None => "" end.

(* one feature of the fitted object, as observed on the implementation *)
Record c06feat := mkFeat {
  f_name : val;
  f_jk : table;               (* number -> key string written by json.dumps *)
  f_ps : table;               (* number -> str() of the reloaded number *)
  f_orig : gl;                (* values_orders[f] of the fitted object: list + content *)
  f_text : jv;                (* the feature's entry in the dumped values_orders, pairs as written *)
  f_reload : gl;              (* values_orders[f] of the reloaded object (dummy when the load failed) *)
  f_text2 : jv }.             (* the feature's entry in the values_orders dumped by the reloaded object *)

Record c06case := mkCase {
  c_valid : bool;             (* a fitted object of the library (true) or a hand-made witness state,
                                 for which only the agreement model <-> implementation is demanded *)
  c_carver : bool;            (* the fitted object is a carver *)
  c_feats : list c06feat;
  c_serialisable : bool;      (* json.dumps(obj.to_json()) raised nothing *)
  c_text_names : list val;    (* feature keys of the dumped values_orders, as written *)
  c_load : res (list val);    (* load_*: error class, or feature names of the reloaded values_orders *)
  c_text2_names : list val;
  c_history1 : bool;          (* the first JSON has a "_history" entry *)
  c_history2 : bool;          (* the JSON of the reloaded object has one *)
  c_meta_same : bool;         (* Python: every other entry of the second JSON equals the first *)
  c_behaviour_same : bool }.  (* Python: attributes, labels_per_values, transform on train and unseen
                                 frames (cells or exception class), summary() are the same *)

Definition jkf (f : c06feat) : val -> string := lookup (f_jk f).
Definition psf (f : c06feat) : val -> string := lookup (f_ps f).

(* ---- domain of the model ------------------------------------------------------------------ *)
Definition has_entry (t : table) (v : val) : bool :=
  match v with VNum _ => match aget v t with Some _ => true | None => false end | _ => true end.

Definition feat_in_domain (f : c06feat) : bool :=
  is_str (f_name f) && negb (val_eqb (f_name f) (VStr sentinel)) &&
  forallb (fun k => has_entry (f_jk f) k && has_entry (f_ps f) k) (keys (f_orig f) ++ dkeys (content (f_orig f))).

(* ---- model vs implementation ---------------------------------------------------------------- *)
Definition model_reload (f : c06feat) : res gl := roundtrip_gl (jkf f) (psf f) (f_orig f).

Definition res_class {A} (r : res A) : nat :=
  match r with Ok _ => 0%nat | AssertErr => 1%nat | InternalErr => 2%nat end.

(* first failing feature decides the error of load_* *)
Fixpoint model_load (fs : list c06feat) : res (list val) :=
  match fs with
  | [] => Ok []
  | f :: t =>
      match model_reload f with
      | Ok _ => do r <- model_load t ; Ok (f_name f :: r)
      | AssertErr => AssertErr
      | InternalErr => InternalErr
      end
  end.

Definition agree_feat (loaded : bool) (f : c06feat) : bool :=
  jv_eqb (dumps (jkf f) (serialize_feature (f_orig f))) (f_text f) &&
  (negb loaded ||
   match model_reload f with
   | Ok g => gl_eqb g (f_reload f) && jv_eqb (dumps (jkf f) (serialize_feature g)) (f_text2 f)
   | _ => false
   end).

Definition agree (c : c06case) : bool :=
  let names := map f_name (c_feats c) in
  let loaded := match c_load c with Ok _ => true | _ => false end in
  vlist_eqb names (c_text_names c) &&
  Nat.eqb (res_class (model_load (c_feats c))) (res_class (c_load c)) &&
  match c_load c with Ok ns => vlist_eqb names ns && vlist_eqb names (c_text2_names c) | _ => true end &&
  forallb (agree_feat loaded) (c_feats c) &&
  (* the model's to_json: "_history" exactly for carvers, and again for the reloaded carver *)
  Bool.eqb (c_history1 c) (c_carver c) &&
  (negb loaded || Bool.eqb (c_history2 c) (c_history1 c)).

(* ---- the property as a boolean on the implementation's own output -------------------------- *)
(* same list, same members for every leader, same set of content keys *)
Definition same_groups (a b : gl) : bool :=
  vlist_eqb (keys a) (keys b) &&
  forallb (fun k => vlist_eqb (get a k) (get b k)) (keys a) &&
  subset (dkeys (content a)) (dkeys (content b)) && subset (dkeys (content b)) (dkeys (content a)).

Definition feat_holds (f : c06feat) : bool :=
  same_groups (f_orig f) (f_reload f) && jv_eqb (f_text2 f) (f_text f).

Definition C06_b (c : c06case) : bool :=
  negb (c_valid c) ||
  c_serialisable c &&
  match c_load c with
  | Ok ns => vlist_eqb ns (map f_name (c_feats c))
  | _ => false
  end &&
  vlist_eqb (c_text2_names c) (c_text_names c) &&
  forallb feat_holds (c_feats c) &&
  Bool.eqb (c_history2 c) (c_history1 c) &&
  c_meta_same c && c_behaviour_same c.

(* the hypotheses of theorem roundtrip_gl_ok, decided on the implementation's fitted state *)
Definition clean_b (v : val) : bool :=
  match v with
  | VNInf | VNaN => false
  | VStr s => negb (String.eqb s sentinel)
  | _ => true
  end.

Definition trip_ok_b (jk ps : val -> string) (g : gl) : bool :=
  wf_b g &&
  forallb clean_b (values g) &&
  nodupb (map (fun k => VStr (key_string jk (to_base k))) (keys g)) &&
  forallb (fun k => match k with
                    | VNum _ => negb (String.eqb (jk k) sentinel) && String.eqb (ps k) (jk k)
                    | _ => true
                    end) (keys g).

(* 0 agree & holds | 1 model and implementation disagree | 2 property predicate fails on the
   implementation's output | 3 outside the model's domain *)
Definition verdict (c : c06case) : nat :=
  if negb (forallb feat_in_domain (c_feats c)) then 3%nat
  else if c_serialisable c && negb (agree c) then 1%nat
  else if negb (C06_b c) then 2%nat
  else 0%nat.

(* how many features of the case satisfy the hypotheses of the round-trip theorem (evidence) *)
Definition hyps_hold (c : c06case) : bool :=
  forallb (fun f => trip_ok_b (jkf f) (psf f) (f_orig f)) (c_feats c).
