(* GroupedList.v — executable model of AutoCarver/discretizers/utils/grouped_list.py.
   list part and content dict are kept SEPARATE (they can diverge in the Python class).
   No proofs in this file. *)
From AC.Model Require Import Base.

Record gl := mkGL { keys : list val; content : dict }.

(* ---- constructors -------------------------------------------------------------------- *)

(* GroupedList(list): content = {v: [v] for v in iterable} (duplicates collapse in the dict) *)
Definition of_list (l : list val) : gl :=
  mkGL l (dict_of_keys l (fun v => [v])).

(* values of every entry except those whose key is  != key   (Python: `if key != iter_key`,
   so a NaN key sees its own values too) *)
Definition other_values (key : val) (d : dict) : list val :=
  flat_map (fun kv => if negb (py_eq key (fst kv)) then snd kv else []) d.

(* the loop `for key in keys_copy` of the dict constructor *)
Fixpoint of_dict_loop (orig : dict) (todo : list val) (ks : list val) (c : dict)
  : res (list val * dict) :=
  match todo with
  | [] => Ok (ks, c)
  | key :: rest =>
      if negb (mem key (other_values key orig)) then
        match dget key orig with
        | None => InternalErr
        | Some own =>
            if negb (mem key own) then
              match dget key c with
              | None => InternalErr
              | Some cur => of_dict_loop orig rest ks (dset key (cur ++ [key]) c)
              end
            else of_dict_loop orig rest ks c
        end
      else
        match dpop key c, lremove key ks with
        | Some c', Some ks' => of_dict_loop orig rest ks' c'
        | _, _ => InternalErr
        end
  end.

(* GroupedList(dict).  [d] must have unique keys (it is a Python dict). *)
Definition of_dict (d : dict) : res gl :=
  if negb (nodupb (dvalues d)) then AssertErr
  else
    do kc <- of_dict_loop d (dkeys d) (dkeys d) d ;
    Ok (mkGL (fst kc) (snd kc)).

(* GroupedList(gl) *)
Definition copy (g : gl) : gl := mkGL (keys g) (content g).

(* ---- lookups ------------------------------------------------------------------------- *)

Definition get (g : gl) (k : val) : list val :=
  match dget k (content g) with Some v => v | None => [] end.

Definition found_groups (g : gl) (v : val) : list val :=
  map fst (filter (fun kv => existsb (is_equal v) (snd kv)) (content g)).

(* `if len(found) > 0: return found[0]`.  (Before the repair "fix: get_group ..." the test was
   `any(found)`, i.e. the TRUTHINESS of the leaders: get_group_any, kept for the record.) *)
Definition get_group_any (g : gl) (v : val) : val :=
  let f := found_groups g v in
  if existsb truthy f then match f with x :: _ => x | [] => v end else v.

Definition get_group (g : gl) (v : val) : val :=
  match found_groups g v with x :: _ => x | [] => v end.

Definition values (g : gl) : list val := dvalues (content g).

Definition contains (g : gl) (v : val) : bool := existsb (is_equal v) (values g).

(* ---- mutators ------------------------------------------------------------------------ *)

Definition remove (g : gl) (v : val) : res gl :=
  match lremove v (keys g) with
  | None => InternalErr                       (* ValueError *)
  | Some ks =>
      match dpop v (content g) with
      | None => InternalErr                   (* KeyError *)
      | Some c => Ok (mkGL ks c)
      end
  end.

Definition group (g : gl) (d k : val) : res gl :=
  if is_equal d k then Ok g
  else if negb (mem d (keys g)) then AssertErr
  else if negb (mem k (keys g)) then AssertErr
  else
    match dget d (content g), dget k (content g) with
    | Some cd, Some ck =>
        remove (mkGL (keys g) (dset d [] (dset k (cd ++ ck) (content g)))) d
    | _, _ => InternalErr                     (* None + list *)
    end.

Fixpoint group_list (g : gl) (ds : list val) (k : val) : res gl :=
  match ds with
  | [] => Ok g
  | d :: t => do g' <- group g d k ; group_list g' t k
  end.

Definition append (g : gl) (v : val) : gl :=
  mkGL (keys g ++ [v]) (dset v [v] (content g)).

Definition update (g : gl) (d : dict) : gl :=
  mkGL (keys g ++ filter (fun k => negb (mem k (keys g))) (dkeys d)) (dupdate (content g) d).

Definition pop (g : gl) (i : Z) : res gl :=
  match py_index (keys g) i with
  | None => InternalErr                       (* IndexError *)
  | Some v => remove g v
  end.

Definition sort_keys (ks : list val) : list val :=
  sort_vals (filter is_str ks) ++ sort_vals (filter (fun k => negb (is_str k)) ks).

Definition sort (g : gl) : res gl :=
  of_dict (dict_of_keys (sort_keys (keys g)) (get g)).

Definition sort_by (g : gl) (ordering : list val) : res gl :=
  if negb (forallb (fun o => mem o (keys g)) ordering) then AssertErr
  else if negb (forallb (fun s => mem s ordering) (keys g)) then AssertErr
  else of_dict (dict_of_keys ordering (get g)).

Fixpoint replace_first (a b : val) (l : list val) : list val :=
  match l with
  | [] => []
  | x :: t => if val_eqb a x then b :: t else x :: replace_first a b t
  end.

(* the early return when member is the leader is the repaired behaviour ("fix: replace_group_leader ...") *)
Definition replace_group_leader (g : gl) (leader member : val) : res gl :=
  match dget leader (content g) with
  | None => InternalErr                       (* KeyError *)
  | Some cl =>
      if negb (mem member cl) then AssertErr
      else if is_equal member leader then Ok g
      else if negb (mem leader (keys g)) then InternalErr      (* ValueError from index *)
      else
        let ks := replace_first leader member (keys g) in
        let c1 := dset member cl (content g) in
        match dpop leader c1 with
        | None => InternalErr
        | Some c2 =>
            let g' := mkGL ks c2 in
            (* self.sort_by(self): result dropped, assertions kept *)
            match sort_by g' ks with
            | Ok _ => Ok g'
            | AssertErr => AssertErr
            | InternalErr => InternalErr
            end
        end
  end.

(* ---- the structure as a state machine ------------------------------------------------ *)

Inductive op :=
| OGroup (d k : val)
| OGroupList (ds : list val) (k : val)
| OAppend (v : val)
| OUpdate (d : dict)
| ORemove (v : val)
| OPop (i : Z)
| OSort
| OSortBy (o : list val)
| OReplaceLeader (l m : val)
| OCopy.

Definition step (g : gl) (o : op) : res gl :=
  match o with
  | OGroup d k => group g d k
  | OGroupList ds k => group_list g ds k
  | OAppend v => Ok (append g v)
  | OUpdate d => Ok (update g d)
  | ORemove v => remove g v
  | OPop i => pop g i
  | OSort => sort g
  | OSortBy o => sort_by g o
  | OReplaceLeader l m => replace_group_leader g l m
  | OCopy => Ok (copy g)
  end.

(* run a history; stop at the first error.  Returns every intermediate state. *)
Fixpoint run (g : gl) (ops : list op) : list (res gl) :=
  match ops with
  | [] => []
  | o :: t =>
      match step g o with
      | Ok g' => Ok g' :: run g' t
      | e => [e]
      end
  end.

Fixpoint run_final (g : gl) (ops : list op) : res gl :=
  match ops with
  | [] => Ok g
  | o :: t => do g' <- step g o ; run_final g' t
  end.
